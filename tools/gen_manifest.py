#!/usr/bin/env python3
"""Regenerate /verif/MANIFEST.json from the table below; a property is claimed only if its harness module and
theorem file exist."""
import json, os
V = os.path.dirname(os.path.dirname(os.path.abspath(__file__)))
COMMON_NOTE = ("Trusted: Coq 8.16.1 kernel + vm_compute; the hand-written Gallina model (tied to /repo on every run by the correspondence "
               "check, which is differential testing); the Python harness and oracles. Not modelled: IEEE rounding, signed zeros; "
               "numpy/pandas/dict semantics are modelled, not verified. Theorems are closed under the global context unless the evidence says otherwise.")
P = {
 "C01": ("Theorems for ALL populations/orderings/alpha (PC01.v). Finite N: finite-horizon Ville inequality for sampling without replacement, probability = count over N! orderings, "
         "and the risk-limit bound for ALPHA (every estimator), betting (fixed bet, aGRAPA), the SPRT and Kaplan-Kolmogorov, on a model shown equal entry-by-entry to a sequential spec. "
         "N = infinity: theorems for EVERY law of rational-valued (float-valued) observations, given by its expectation functional (positive, normalised, linear; no finite support or rational masses assumed; stated over Coq's reals, hence two stdlib real-number axioms), every finite horizon, for ALPHA, betting, SPRT, Kaplan-Markov, Kaplan-Wald; finite-support laws are an instance. "
         "Exact-enumeration oracles (all N! orderings, all support^n sequences) run on the implementation on every check.",
         "Ville inequality + supermartingale proof in Coq (finite populations; arbitrary laws via an expectation functional); NonnegMean source regenerated into Coq and proved equal to the model; differential check; exact N!/IID enumeration oracle", "4 C01"),
 "C02": ("Theorems for all ballot profiles (PC02.v) about the assorter model; model tied to Audit.py by correspondence on generated and exhaustive small profiles; iff / range / margin oracles on the implementation.",
         "induction over card lists in Coq; differential check vs Assorter/Contest code; exact-Fraction oracle", "4 C02"),
 "C03": ("Theorem of the overstatement identity for all CVR/MVR lists, pools and phantoms on the Compare model; end-to-end correspondence with Audit.py; identity oracle in exact fractions.",
         "summation identity by induction in Coq; end-to-end differential check; exact identity oracle", "4 C03"),
 "C04": ("All-input theorems (PC04.v) in two layers: verified checkers (sufficiency over all elimination orders, truth of assertions with exact tallies, possibility) applied inside Coq to every output of compute_raire_assertions; "
         "and an executable model of the search itself (RaireAlgo.raire: frontier, dive, best ancestor, lower bound, de-duplication, subsumption) compared output-for-output with the implementation, about which the whole of C04 is proved for every run that does not exhaust its fuel "
         "(non-empty output passes the checker; output empty iff no sufficient set of true assertions exists; some fuel always suffices and results are fuel-monotone). That the default fuel constant suffices is checked per run, not proved. Brute-force oracle over all n! orders on the implementation.",
         "soundness/emptiness proof of an executable model of the RAIRE search in Coq + verified checkers applied to every implementation output; output-for-output differential check; brute-force n! oracle", "4 C04"),
 "C05": ("Theorems for all samples, cut points, tails, tests, estimators and bets (PC05.v): prefix/tail/truncation clauses of the history and predictability of every estimator/bet, with no hypotheses on ranges.",
         "sequential-machine model; predictability and prefix theorems in Coq; estimator/bet source regenerated into Coq and proved equal to the model; differential check; prefix/tail oracle on the implementation", "4 C05"),
 "C06": ("Theorems on the Compare model for data range, the returned/installed bound and the style/threshold filter; correspondence through mvrs_to_data and set_p_values; range oracle.",
         "range lemmas in Coq; differential check through mvrs_to_data/set_p_values; range/installation oracle", "4 C06"),
 "C07": ("Theorems for all card lists, styles and size vectors on the Sampling model (selection = union of per-contest prefixes, thresholds, vote-independence); correspondence incl. exhaustive small domains; oracle from the property text.",
         "structural induction on the sampling walk in Coq; exhaustive small-domain differential check; prefix oracle", "4 C07"),
 "C08": ("Theorems for all CVR lists/bounds on the Phantoms model (counts, originals first, unique ids, no excess, worst-case scoring); correspondence with make_phantoms/overstatement; oracle.",
         "induction in Coq; differential check vs make_phantoms and overstatement; counting oracle", "4 C08"),
 "C09": ("Theorems on the Status state machine (recorded values, maxima, completion iff, reset); correspondence over multi-step sequences of set_p_values/summarize_status/reset_p_values; oracle.",
         "state-machine invariants in Coq; operation-sequence differential check; completion oracle", "4 C09"),
 "C10": ("Theorems for all round histories on the Sampling model (superset, data prefix, continue = redraw, sticky confirmation) plus monotonicity of the overall p-value from the NNM model; multi-round correspondence; oracle.",
         "corollaries of the C07 theorems in Coq; multi-round differential check; round-history oracle", "4 C10"),
 "C11": ("Theorems for all non-empty samples in [0,u] no longer than N (PC11.v): ALPHA (any estimator), betting (shipped bets in range) and SPRT report rationals in [0,1], one per observation, never NaN, overall = smallest (or last) entry; proved on the Xq model where numpy's inf/NaN are explicit. "
         "Kaplan-Kolmogorov (finite N), Kaplan-Markov and Kaplan-Wald are proved too (random_order true: smallest entry; false: last entry).",
         "refinement of the numpy-style model to a sequential spec + well-formedness proof in Coq; test bodies regenerated into Coq (skeleton + boundary masks) and proved equal to the model; differential check incl. exhaustive small samples; range/NaN oracle", "4 C11"),
 "C12": ("Theorems (PC12.v): reported terms equal the sequential spec; product definitions while all null means are inside (0,u); p=0 / p=1 boundary clauses; ALPHA = betting for eta = mu(1+lam(u-mu)); conversions inverse; Kaplan-Wald, Kaplan-Markov, Kaplan-Kolmogorov and SPRT histories equal min(1, 1/T_j) of their defining products. The same definitions are re-derived in exact arithmetic by an oracle on every implementation output, including samples of 65..3000 draws and other units.",
         "field identities and refinement proof in Coq; product expressions and test bodies regenerated into Coq and proved equal to the model; differential check; exact re-derivation oracle of every history from the published products", "4 C12"),
 "C13": ("Theorems for all samples and parameters in the documented ranges (PC13.v): ranges of every shipped estimator and bet, strictness of shrink-truncate above mu_j (up to the code's one-ulp truncation constant), non-negativity of factors; sqrt abstract.",
         "machine-invariant range proofs in Coq; estimator/bet formulas regenerated into Coq with range lemmas on the generated text; differential check on grid and extreme streams; range oracle", "4 C13"),
 "C14": ("Theorems for every candidate set, duplicate-free ranking and (w,l,E) (PC14.v): audit assorter = (w-l+1)/2 of the generator's verdicts, mean/tally corollary, both RAIRE readers agree on whole files, re-tally; exhaustive correspondence over all partial rankings of <=4(5) candidates.",
         "induction on rankings in Coq; exhaustive differential check of both implementations; equality oracle", "4 C14"),
 "C15": ("Theorems (PC15.v): the verified `opt` equals the minimax difficulty over all sufficient sets of true assertions; and the executable model of the RAIRE search (compared output-for-output with compute_raire_assertions on every run) returns a set whose largest difficulty EQUALS that optimum, "
         "for every profile, candidate list, hint and both shipped difficulty functions, whenever the fuel suffices (some fuel always does; results are fuel-monotone). Every implementation output is also compared with `opt` inside Coq and with a brute-force optimum.",
         "optimality and termination proof of an executable model of the RAIRE search in Coq; output-for-output differential check; verified optimum checker on every implementation output; brute-force oracle", "4 C15"),
 "C16": ("Theorems on the SampleSize model (tiling, first crossing, prefix invariance given non-anticipation, overstatement layout, interleave counts, contest maximum); correspondence with sample_size / find_sample_size / interleave_values; independent re-derivation oracle.",
         "list lemmas in Coq on top of the NNM model; differential check; independent re-construction oracle", "4 C16"),
 "C17": ("Theorems for all manifests (bijection between valid numbers and (batch, position) pairs for both vendors, phantom batch, prep_manifest totals/refusals); correspondence on real pandas frames incl. exhaustive small manifests; oracle.",
         "induction over batch lists in Coq; exhaustive small-manifest differential check; injectivity oracle", "4 C17"),
 "C18": ("Theorems for all record lists on the Merge model (one per id in order, union with later-wins, flag rules, tally-pool rule, RAIRE reader); correspondence with merge_cvrs/from_raire; oracle.",
         "fold invariants in Coq; differential check; merge oracle", "4 C18"),
 "C19": ("Theorems on the Dominion import model (one record per session, min positive counted rank, permutation invariance, adjudication precedence); correspondence through generated export files read by the real reader; oracle.",
         "Permutation-invariance and fold proofs in Coq; file-level differential check; property oracle", "4 C19"),
 "C20": ("Theorems for every candidate list, alternative winner and assertion set: unpruned leaf iff some elimination order is uncontradicted, tags exact; correspondence with buildRemainingTreeAsLists/parseAssertions; brute-force n! oracle.",
         "induction on the remaining-candidate set in Coq; differential check; brute-force n! oracle", "4 C20"),
}
m = {"version": 1, "setup_cmd": "./setup.sh",
     "hooks": {"guard": "SHANGRLA_VERIF", "enable": "no instrumentation of /repo is needed: every observation point is a return value or attribute (checks export SHANGRLA_VERIF=1 anyway)",
               "baseline_off_cmd": "cd /repo && /venv/bin/python -m pytest -ra -q -p no:cacheprovider --timeout=900 --continue-on-collection-errors",
               "source_commits": [], "add_only": True},
     "engines": [{"name": "coq-models", "path": "coq/theories", "serves_properties": sorted(P), "kind_free_text": "Coq 8.16.1 development: executable Gallina models, proofs, property theorem files PCxx.v"},
                 {"name": "harness", "path": "harness", "serves_properties": sorted(P), "kind_free_text": "Python: generators, implementation runners, case writers evaluated by coqc/vm_compute, property oracles, evidence"},
             {"name": "regenerated-tie", "path": "harness/genarith.py", "serves_properties": sorted(P),
              "kind_free_text": "fail-closed Python-ast -> Gallina translator (expressions, boolean masks, whole-function skeletons; target tables in "
                                "harness/gen_targets_*.py) + lemma files coq/gen/GenProofs_*.v re-checked against the regenerated text on every run"}],
     "checks": [], "not_applicable": [],
     "notes": "Every check: make (full .vo build, no-op when up to date) -> coqc PCxx.v (theorems re-checked, Print Assumptions captured) -> correspondence of the Coq model with /repo's working tree -> property oracles on the implementation. See DESIGN.md."}
DONE = open(f"{V}/tools/done.txt").read().split()
for pid in sorted(P):
    text, tech, ref = P[pid]
    have = pid in DONE and os.path.exists(f"{V}/harness/{pid.lower()}.py") and os.path.exists(f"{V}/coq/theories/P{pid}.v")
    if have:
        m["checks"].append({"property_id": pid, "quick_cmd": f"./check {pid} quick", "thorough_cmd": f"./check {pid} thorough",
                            "evidence_file": f"/verif/evidence/{pid}.json", "replay_cmd_template": f"./check {pid} quick --replay {{path}}",
                            "engine": "coq-models", "level_claimed": {"category": "proof", "text": text, "design_ref": f"DESIGN.md section {ref}"},
                            "level_note": COMMON_NOTE, "technique": tech})
    else:
        m["not_applicable"].append({"property_id": pid, "reason": "check still under construction in this session (model/theorems/correspondence being built); not claimed until it runs"})
json.dump(m, open(f"{V}/MANIFEST.json", "w"), indent=1)
print("claimed:", [c["property_id"] for c in m["checks"]])
