#!/bin/bash
# tools/try_mutant.sh <diff> <ID> [<ID>...] : apply a seeded change to a scratch worktree and run the quick checks on it
set -u
diff="$1"; shift
wt=/tmp/mw_$$
git -C /repo worktree add --detach "$wt" HEAD >/dev/null 2>&1
if ! git -C "$wt" apply "$diff"; then echo "APPLY-FAILED $diff"; git -C /repo worktree remove --force "$wt"; exit 2; fi
for id in "$@"; do
  out=$(VERIF_REPO="$wt" VERIF_SKIP_MAKE=1 /verif/check "$id" quick 2>&1 | grep -E "VIOLATION|quick:" | head -3 | tr '\n' ' ')
  echo "$(basename $diff) -> $id: $out"
done
git -C /repo worktree remove --force "$wt"
