#!/usr/bin/env python3
"""Record the ast hashes of every anchored function of /repo's current tree as the baseline (harness/hashes/<id>.json)."""
import importlib, json, os, sys
sys.path.insert(0, "/verif"); sys.path.insert(0, "/repo")
from harness import common as C
os.makedirs("/verif/harness/hashes", exist_ok=True)
for pid in sys.argv[1:]:
    mod = importlib.import_module(f"harness.{pid.lower()}")
    json.dump(C.source_hashes(getattr(mod, "ANCHORS", [])), open(f"/verif/harness/hashes/{pid}.json", "w"), indent=1)
    print(pid, "ok")
