#!/bin/bash
# tools/confirm_mutant.sh <ID> <k> : confirm a sub-agent's change in a scratch worktree (applies, 55 tests pass, demo fails
# with it and passes without it) and, if confirmed, record it under /verif/seeded/<ID>_<k>/
id="$1"; k="$2"; src=${MUTSRC:-/tmp/mut}/$id/out
wt=/tmp/cm_${id}_${k}
git -C /repo worktree add --detach "$wt" HEAD >/dev/null 2>&1
run() { (cd "$wt" && PYTHONPATH="$wt" PYTHONHASHSEED=0 timeout 900 /venv/bin/python "$@" >/dev/null 2>&1); echo $?; }
clean=$(run $src/${id}_${k}_demo.py)
if ! git -C "$wt" apply $src/${id}_${k}.diff 2>/dev/null; then echo "$id $k APPLY-FAILED"; git -C /repo worktree remove --force "$wt"; exit 1; fi
tests=$(cd "$wt" && PYTHONPATH="$wt" timeout 900 /venv/bin/python -m pytest -q -p no:cacheprovider --timeout=900 2>&1 | tail -1)
mut=$(run $src/${id}_${k}_demo.py)
git -C /repo worktree remove --force "$wt"
ok=no
if [ "$clean" = "0" ] && [ "$mut" != "0" ] && echo "$tests" | grep -q "^55 passed"; then ok=yes; fi
echo "$id $k demo_clean=$clean demo_mutant=$mut tests='$tests' confirmed=$ok"
if [ $ok = yes ]; then
  d=/verif/seeded/${id}_${K2:-$k}; mkdir -p $d
  cp $src/${id}_${k}.diff $d/patch.diff; cp $src/${id}_${k}_demo.py $d/demo.py
  /venv/bin/python - "$id" "$k" "$tests" "${K2:-$k}" "${MUTSRC:-/tmp/mut}" <<'PY'
import json,sys
id,k,tests,k2,src=sys.argv[1:6]
j=json.load(open(f"{src}/{id}/out/{id}_{k}.json"))
meta={"property":id,"summary":j.get("summary"),"needs":j.get("needs"),"files":j.get("files"),
      "confirmed":{"applies_to":"/repo HEAD (with the fix: commits)","test_suite_with_change":tests,"demo_without_change":"exit 0","demo_with_change":"exit non-zero",
                   "how":"tools/confirm_mutant.sh in a scratch git worktree under /tmp, removed afterwards"},
      "origin":"independent sub-agent given only the property text and its own worktree"+(" (second round: asked to look at glue code, reuse, aliasing, rare-but-legal inputs)" if k2 in "cd" else "")}
json.dump(meta,open(f"/verif/seeded/{id}_{k2}/meta.json","w"),indent=1)
PY
fi
