#!/bin/bash
# tools/matrix_some.sh <name> ... : the mutant_matrix line for the named seeded changes (e.g. C03_l C11_k)
cd /verif
for name in "$@"; do echo "$name ${name%_*}"; done | xargs -P ${MM_PAR:-4} -L 1 bash -c '
  name=$0; id=$1; wt=/tmp/mm_$name
  git -C /repo worktree add --detach $wt HEAD >/dev/null 2>&1
  if ! git -C $wt apply /verif/seeded/$name/patch.diff 2>/dev/null; then echo "$name APPLY-FAILED"; git -C /repo worktree remove --force $wt; exit 0; fi
  out=$(VERIF_REPO=$wt VERIF_SKIP_MAKE=1 /verif/check $id quick 2>&1)
  git -C /repo worktree remove --force $wt
  if echo "$out" | grep -q "^VIOLATION" && ! echo "$out" | grep "^VIOLATION" | grep -vq "no-failing-input-found"; then r="detected: correspondence/proof broken, no-failing-input-found"
  elif echo "$out" | grep -q "^VIOLATION"; then r="detected: concrete failing input"
  else r="MISSED"; fi
  echo "$name -> $id: $r | $(echo "$out" | grep "quick:" | cut -c1-140)"
' | sort
