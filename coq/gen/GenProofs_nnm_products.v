(* GenProofs_nnm_products.v — lemmas re-checked on every run against Gen_arith.v regenerated from the product
   expressions of NonnegMean.py: the ALPHA factor, the betting factor, the Kaplan-Wald / Kaplan-Markov factors, the
   Kaplan-Kolmogorov ratio and the null conditional mean of sjm.  These are the "published definitions" of C12 and the
   quantities whose conditional mean the C01 proofs bound. *)
From SV Require Import Xq NNM NNM_ranges NNM_spec NNM_hist NNM_defs NNM_risk_iid_kaplan NNM_risk_kk.
From SVG Require Import Gen_arith.
Open Scope Q_scope.

(* the hand model uses exactly the generated expressions *)
Lemma gen_alpha_factor_is_model u x eta m : gen_alpha_factor u x eta m = alpha_factor_q u x eta m.
Proof. reflexivity. Qed.
Lemma gen_betting_factor_is_model x lam m : gen_betting_factor x lam m = betting_factor_q x lam m.
Proof. reflexivity. Qed.
Lemma gen_kw_factor_is_model g x t : gen_kw_factor g x t = kw_fac g t x 0 0.
Proof. reflexivity. Qed.
Lemma gen_km_factor_is_model g x t : ~ x + g == 0 -> ~ t + g == 0 -> gen_km_factor g x t * km_fac g t x 0 0 == 1.
Proof. intros H1 H2. unfold gen_km_factor, km_fac. field. auto. Qed.
Lemma gen_kk_ratio_is_model g x m : ~ m == 0 -> kk_ratio_q (x + g) m = gen_kk_ratio g x m.
Proof. intro H. unfold kk_ratio_q, gen_kk_ratio. assert (E : Qeq_bool m 0 = false) by (now apply Qeq_bool_false). now rewrite E. Qed.
Lemma gen_null_mean_is_model n t S j : mu_at (Some n) t S j == gen_null_mean (qz n) t S (qz j).
Proof. unfold mu_at, gen_null_mean, mkq. apply Qred_correct. Qed.

(* C12: ALPHA with eta = mu(1 + lam(u - mu)) multiplies by the betting factor *)
Theorem gen_alpha_is_betting u x lam m : 0 < m -> m < u ->
  gen_alpha_factor u x (m * (1 + lam * (u - m))) m == gen_betting_factor x lam m.
Proof. intros H0 H1. unfold gen_alpha_factor, gen_betting_factor, mkq. field. repeat split; lra. Qed.

(* C01: every factor is affine in the observation with slope >= 0 and value 1 at the null mean ... *)
Theorem gen_alpha_factor_affine u x eta m : 0 < m -> m < u ->
  gen_alpha_factor u x eta m == 1 + (x - m) * ((eta - m) / (m * (u - m))).
Proof. intros H0 H1. unfold gen_alpha_factor. field. repeat split; lra. Qed.
Theorem gen_betting_factor_affine x lam m : gen_betting_factor x lam m == 1 + (x - m) * lam.
Proof. unfold gen_betting_factor, mkq. ring. Qed.
Theorem gen_kw_factor_affine g x t : ~ t == 0 -> gen_kw_factor g x t == 1 + (x - t) * ((1 - g) / t).
Proof. intro H. unfold gen_kw_factor, mkq. field. auto. Qed.
Theorem gen_km_factor_affine g x t : ~ t + g == 0 -> ~ x + g == 0 -> 1 / gen_km_factor g x t == 1 + (x - t) * (1 / (t + g)).
Proof. intros H1 H2. unfold gen_km_factor. field. split; auto. Qed.
Theorem gen_kk_ratio_affine g x m : ~ m == 0 -> gen_kk_ratio g x m == 1 + ((x + g) - m) * (1 / m).
Proof. intro H. unfold gen_kk_ratio. field. auto. Qed.

(* ... and nonnegative on [0,u] when the parameter is admissible *)
Theorem gen_alpha_factor_nonneg u x eta m : 0 < m -> m < u -> 0 <= x <= u -> m <= eta <= u -> 0 <= gen_alpha_factor u x eta m.
Proof. intros. rewrite gen_alpha_factor_is_model. now apply alpha_factor_q_nonneg. Qed.
Theorem gen_betting_factor_nonneg x lam m : 0 < m -> 0 <= x -> 0 <= lam -> lam * m <= 1 -> 0 <= gen_betting_factor x lam m.
Proof. intros. unfold gen_betting_factor, mkq. nra. Qed.

(* the null conditional mean: with S the total of the first j-1 draws, the j-th ... N-th cards average to it when the
   population total is N t *)
Theorem gen_null_mean_meaning N t S j : ~ N - j + 1 == 0 -> gen_null_mean N t S j * (N - j + 1) == N * t - S.
Proof. intro H. unfold gen_null_mean, mkq. field. auto. Qed.
