(* GenProofs_raire_skeletons.v — lemmas re-checked on every run of C04 / C15 against Gen_arith.v regenerated from /repo's
   shangrla/raire/raire.py (compute_raire_assertions) and shangrla/raire/raire_utils.py (find_best_audit, perform_dive,
   manage_node, NEBAssertion.subsumes, NENAssertion.subsumes, RaireFrontier.insert_node / replace_descendents,
   RaireNode.is_descendent_of, is_suffix): group "raire_skeletons" of harness/genarith.py, targets in
   harness/gen_targets_raire_skeletons.py.  If ANY statement of these functions changes, Gen_arith.v is not produced at all
   (fail-closed translator) and every obligation below counts as broken.  The generated `tail`s are the line-by-line Gallina
   reading of the decisive statements; each is proved here equal to the definition of the executable model RaireAlgo.v (the
   model that Run_Raire.agree_algo compares output-for-output with the implementation and about which PC04.v / PC15.v prove
   soundness, the emptiness clause, optimality and termination). *)
From Coq Require Import QArith List Bool Lia.
From SV Require Import RaireAlgo.
From SVG Require Import Gen_arith.
Import ListNotations.
Open Scope nat_scope.

Lemma gen_all_skeletons_matched :
  gen_compute_skeleton_matched && gen_fba_skeleton_matched && gen_dive_skeleton_matched && gen_manage_skeleton_matched
  && gen_nebsub_skeleton_matched && gen_nensub_skeleton_matched && gen_insert_skeleton_matched
  && gen_replace_skeleton_matched && gen_isdesc_skeleton_matched && gen_issuffix_skeleton_matched = true.
Proof. reflexivity. Qed.

(* RaireNode.is_descendent_of / is_suffix *)
Lemma gen_isdesc_is_model t anc : gen_isdesc_tail t anc = is_desc t anc.
Proof.
  unfold gen_isdesc_tail, is_desc. destruct (Nat.leb (length t) (length anc)) eqn:E.
  - apply Nat.leb_le in E. assert (H : Nat.ltb (length anc) (length t) = false) by (apply Nat.ltb_ge; exact E).
    rewrite H. reflexivity.
  - apply Nat.leb_gt in E. assert (H : Nat.ltb (length anc) (length t) = true) by (apply Nat.ltb_lt; exact E).
    rewrite H. reflexivity.
Qed.
Lemma gen_issuffix_is_model la lb : gen_issuffix_tail la lb = is_suffix la lb.
Proof.
  unfold gen_issuffix_tail, is_suffix. destruct (Nat.ltb (length lb) (length la)) eqn:E.
  - apply Nat.ltb_lt in E. assert (H : Nat.leb (length la) (length lb) = false) by (apply Nat.leb_gt; exact E).
    rewrite H. reflexivity.
  - apply Nat.ltb_ge in E. assert (H : Nat.leb (length la) (length lb) = true) by (apply Nat.leb_le; exact E).
    rewrite H. reflexivity.
Qed.

(* RaireFrontier.insert_node / replace_descendents *)
Lemma gen_insert_scan_is_model e x fr : gen_insert_scan e x fr = ins_sorted e x fr.
Proof. induction fr as [|y r IH]; simpl; [reflexivity|]. rewrite IH. reflexivity. Qed.
Lemma gen_insert_is_model fr n : gen_insert_tail fr n = insert_node fr n.
Proof.
  unfold gen_insert_tail, insert_node. destruct (negb (n_exp n)); [reflexivity|].
  destruct (n_est n); [apply gen_insert_scan_is_model | reflexivity].
Qed.
Lemma gen_replace_is_model fr a : gen_replace_tail fr a = replace_desc fr a.
Proof.
  unfold gen_replace_tail, replace_desc. rewrite gen_insert_is_model. f_equal.
  apply filter_ext. intro x. rewrite gen_isdesc_is_model. reflexivity.
Qed.

(* manage_node *)
Lemma gen_manage_is_model h fr lb newn : gen_manage_tail h fr lb newn = manage_node h fr lb newn.
Proof.
  unfold gen_manage_tail, manage_node. destruct (n_exp newn); simpl.
  - rewrite gen_insert_is_model. reflexivity.
  - rewrite gen_insert_is_model, gen_replace_is_model. reflexivity.
Qed.

(* NEBAssertion.subsumes / NENAssertion.subsumes *)
Lemma forallb_eq' {A} (f g : A -> bool) l : (forall x, f x = g x) -> forallb f l = forallb g l.
Proof. intro H. induction l as [|x r IH]; simpl; [reflexivity|]. rewrite H, IH. reflexivity. Qed.
Lemma existsb_eq' {A} (f g : A -> bool) l : (forall x, f x = g x) -> existsb f l = existsb g l.
Proof. intro H. induction l as [|x r IH]; simpl; [reflexivity|]. rewrite H, IH. reflexivity. Qed.
Lemma gen_subsumes_is_model a other :
  subsumes a other = match a_as a with
                     | NEB w l => gen_nebsub_tail w l other
                     | NEN _ _ _ => gen_nensub_tail (a_ro a) other
                     end.
Proof.
  unfold subsumes, gen_nebsub_tail, gen_nensub_tail.
  destruct (a_as a) as [w l|w l e]; destruct (a_as other) as [w' l'|w' l' e']; try reflexivity.
  destruct (a_ro a) as [|r0 rs]; [reflexivity|].
  apply forallb_eq'. intro o. apply existsb_eq'. intro ro. rewrite gen_issuffix_is_model. reflexivity.
Qed.

(* perform_dive: the candidate dived to and the best ancestor given to the new node *)
Lemma gen_dive_next_is_model hint r0 rest : gen_dive_next hint r0 rest = dive_choice hint r0 rest.
Proof. reflexivity. Qed.
Lemma gen_dive_ancestor_is_model h x : gen_dive_ancestor h x = anc_for_child h x.
Proof. reflexivity. Qed.

(* find_best_audit *)
Lemma gen_fba_is_model dfun cands p tot nebs tail :
  gen_fba_tail dfun cands p tot nebs tail = find_best_audit dfun cands p tot nebs tail.
Proof. reflexivity. Qed.

(* compute_raire_assertions: NEB matrix entry, initial frontier (with the `c == winner` test on the ARGUMENT), the two
   prune tests, the lower bound after a dive, the final passes *)
Lemma gen_compute_neb_is_model dfun p tot c d : gen_compute_neb dfun p tot c d = mk_neb dfun p tot c d.
Proof. reflexivity. Qed.
Lemma fold_left_eq' {A B} (f g : A -> B -> A) l : (forall a b, f a b = g a b) -> forall a, fold_left f l a = fold_left g l a.
Proof. intro H. induction l as [|x r IH]; intro a; simpl; [reflexivity|]. rewrite H. apply IH. Qed.
Lemma gen_compute_initial_is_model dfun cands p tot nebs winner :
  gen_compute_initial dfun cands p tot nebs winner = initial dfun cands p tot nebs winner.
Proof.
  unfold gen_compute_initial, initial. apply fold_left_eq'. intros st c.
  destruct (Nat.eqb c winner); [reflexivity|]. apply fold_left_eq'. intros st1 d.
  destruct (Nat.eqb c d); [reflexivity|]. rewrite gen_insert_is_model. reflexivity.
Qed.
Lemma gen_compute_prune_ancestor_is_model h te lb : gen_compute_prune_ancestor h te lb = anc_le h te lb.
Proof. reflexivity. Qed.
Lemma gen_compute_prune_self_is_model te lb : gen_compute_prune_self te lb = ole (n_est te) (Some lb).
Proof. reflexivity. Qed.
Lemma gen_compute_lb_after_dive_is_model lb dlb : gen_compute_lb_after_dive lb dlb = Qmaxb lb dlb.
Proof. reflexivity. Qed.
(* the model's result, when the loop finishes with heap h and frontier fr, is the generated reading of the final passes *)
Lemma gen_compute_final_is_model h fr :
  match gen_compute_final h fr with Some l => Some (out_of l) | None => Some [] end =
  match dedup h fr [] with None => Some [] | Some l => Some (out_of (prune_subsumed (sorted_asr l))) end.
Proof. unfold gen_compute_final. destruct (dedup h fr []); reflexivity. Qed.
