(* GenProofs_sampling_skeletons.v — lemmas re-checked on every C07 / C10 run against Gen_arith.v regenerated from /repo's
   shangrla/core/Audit.py (group "sampling_skeletons", harness/gen_targets_sampling_skeletons.py): whole-function
   skeletons of CVR.has_contest, CVR.consistent_sampling, CVR.assign_sample_nums, Assertion.mvrs_to_data and
   Assertion.set_p_values.  If any statement of these functions changes, Gen_arith.v is not produced at all (fail-closed)
   and every obligation below counts as broken.  The lemmas identify the regenerated line-by-line reading with the hand
   model of Sampling.v — the functions the C07 / C10 theorems are about — and restate the property facts on it. *)
From SV Require Import Xq Sampling Sampling_proofs.
From SVG Require Import Gen_arith.
Open Scope Z_scope.

(* ---- CVR.has_contest *)
Theorem gen_has_is_model V (cd : card V) c : gen_has_tail cd c = has_contest cd c.
Proof. reflexivity. Qed.

(* ---- CVR.consistent_sampling: the loop body is the model's step (wants / bump / membership) *)
Theorem gen_cs_step_is_model V already i (cd : card V) st acc :
  gen_cs_step already i cd st acc =
  if existsb (wants cd) st then (map (bump cd) st, acc ++ [i])
  else if memn i already then (st, acc ++ [i]) else (st, acc).
Proof. reflexivity. Qed.

(* the loop with its append-accumulator is the model's structural walk *)
Lemma gen_cs_loop_is_walk V already (l : list (nat * card V)) : forall st acc,
  gen_cs_loop already st l acc =
  match walk already st l with
  | (Ok sel, st') => (Ok (acc ++ sel), st')
  | (Err e, st') => (Err e, st')
  end.
Proof.
  induction l as [|[i cd] l IH]; intros st acc.
  - cbn [gen_cs_loop walk]. change (fun s : contest * nat => Nat.ltb (snd s) (k_size (fst s))) with in_progress.
    destruct (negb (existsb in_progress st)); reflexivity.
  - cbn [gen_cs_loop walk]. change (fun s : contest * nat => Nat.ltb (snd s) (k_size (fst s))) with in_progress.
    destruct (negb (existsb in_progress st)); [reflexivity|].
    rewrite gen_cs_step_is_model.
    destruct (existsb (wants cd) st).
    + cbn [fst snd]. rewrite IH. destruct (walk already (map (bump cd) st) l) as [[sel|e] st']; [|reflexivity].
      now rewrite <- app_assoc.
    + destruct (memn i already); cbn [fst snd]; rewrite IH;
        destruct (walk already st l) as [[sel|e] st']; try reflexivity. now rewrite <- app_assoc.
Qed.

Theorem gen_cs_is_model V (cards : list (card V)) contests prev :
  gen_cs_tail cards contests prev = consistent_sampling cards contests prev.
Proof.
  unfold gen_cs_tail, consistent_sampling. fold (sorted_cards cards). rewrite gen_cs_loop_is_walk.
  destruct (walk _ _ (sorted_cards cards)) as [[sel|e] st']; reflexivity.
Qed.

Lemma gen_cs_flags_from flags sel : forall k,
  map (fun x => orb (snd x) (existsb (Nat.eqb (fst x)) sel)) (combine (seq k (length flags)) flags) = mark_from k flags sel.
Proof. induction flags as [|b r IH]; intro k; simpl; [reflexivity|]. now rewrite IH. Qed.
Theorem gen_cs_flags_is_model flags sel : gen_cs_flags flags sel = mark_sampled flags sel.
Proof. apply gen_cs_flags_from. Qed.

(* C07 on the regenerated function: the fresh draw is the union of the contests' first n_c cards in sample-number order,
   with the thresholds of the n_c-th cards *)
Theorem gen_cs_selection V (cards : list (card V)) ks :
  sizes_available cards ks ->
  gen_cs_tail cards ks None = (Ok (selection cards ks), map (updated cards) ks).
Proof.
  intro H. rewrite gen_cs_is_model, consistent_sampling_spec by auto. cbn [prev_list]. f_equal. f_equal.
  apply filter_ext_in'. intros i _. apply orb_false_r.
Qed.
(* C10 on the regenerated function: continuing from the selection for smaller sizes equals the redraw *)
Theorem gen_cs_continue_eq_redraw V (cards : list (card V)) ks ks' prev :
  sizes_available cards ks' -> grown ks ks' -> fst (gen_cs_tail cards ks None) = Ok prev ->
  gen_cs_tail cards ks' (Some prev) = gen_cs_tail cards ks' None.
Proof. rewrite !gen_cs_is_model. apply C10_continue_eq_redraw_stmt. Qed.
Theorem gen_cs_continue_keeps V (cards : list (card V)) ks prev i :
  sizes_available cards ks -> In i prev -> (i < length cards)%nat ->
  exists sel, fst (gen_cs_tail cards ks (Some prev)) = Ok sel /\ In i sel.
Proof. rewrite gen_cs_is_model. apply continue_keeps. Qed.

(* ---- CVR.assign_sample_nums *)
Theorem gen_asn_is_model V rnd (cards : list (card V)) : forall k,
  gen_asn_tail rnd k cards = assign_sample_nums rnd k cards.
Proof.
  unfold assign_sample_nums. induction cards as [|c r IH]; intro k; cbn [gen_asn_tail assign_from length].
  - now rewrite Nat.add_0_r.
  - rewrite IH. cbn [fst snd]. f_equal. lia.
Qed.
(* numbers by position only *)
Theorem gen_asn_by_position V rnd k (cards : list (card V)) :
  map c_num (fst (gen_asn_tail rnd k cards)) = map rnd (seq k (length cards)) /\
  snd (gen_asn_tail rnd k cards) = (k + length cards)%nat.
Proof.
  rewrite gen_asn_is_model. destruct (sample_nums_spec rnd cards k) as (H1 & _ & _ & H4 & _). split; assumption.
Qed.

(* ---- Assertion.mvrs_to_data: the style / threshold filter *)
Lemma gen_m2d_comprehension_is_model M V D (f : M -> card V -> D) us ua cid thr (ms : list M) : forall cs,
  gen_m2d_comprehension f us ua cid thr ms cs = data_filter f us ua cid thr ms cs.
Proof.
  induction ms as [|m ms IH]; intros [|c cs]; try reflexivity.
  cbn [gen_m2d_comprehension data_filter]. rewrite IH. unfold gen_m2d_keep.
  destruct (negb us); [reflexivity|]. destruct (negb (has_contest c cid)); [reflexivity|].
  destruct ua; [reflexivity|]. destruct thr as [t|]; [|reflexivity].
  change (Z.leb (c_num c) t) with (c_num c <=? t). destruct (c_num c <=? t); reflexivity.
Qed.
Theorem gen_m2d_is_model M V D (f : M -> card V -> D) (g : M -> D) ty us ua cid thr ms cs :
  gen_m2d_tail f g ty us ua cid thr ms cs = mvrs_to_data f g ty us ua cid thr ms cs.
Proof. destruct ty; cbn; try reflexivity; apply gen_m2d_comprehension_is_model. Qed.
(* what the condition says with style information and a set threshold: lists the contest and number <= threshold *)
Theorem gen_m2d_keep_threshold V (c : card V) cid t :
  gen_m2d_keep true false cid (Some t) c = Ok (has_contest c cid && (c_num c <=? t)).
Proof. unfold gen_m2d_keep. cbn [negb]. destruct (has_contest c cid); reflexivity. Qed.

(* ---- Assertion.set_p_values: the sticky flag *)
Theorem gen_spv_is_model risk p b : gen_spv_proved risk p b = set_proved risk p b.
Proof. reflexivity. Qed.
Theorem gen_spv_rounds_is_model risk ps b : gen_spv_rounds risk ps b = proved_after risk ps b.
Proof. reflexivity. Qed.
Theorem gen_spv_sticky risk ps qs b : gen_spv_rounds risk ps b = true -> gen_spv_rounds risk (ps ++ qs) b = true.
Proof. rewrite !gen_spv_rounds_is_model. apply proved_sticky. Qed.
