(* GenProofs_audit.v — lemmas re-checked on every run against Gen_arith.v regenerated from /repo's Audit.py:
   overstatement_assorter, make_overstatement, the three `u = 2/(2 - v/u_a)` sites, the two tally-margin formulas. *)
From SV Require Import Xq NNM NNM_ranges Compare.
From SVG Require Import Gen_arith.
Open Scope Q_scope.

(* C06: a datum of a comparison audit lies in [0, u] with u the bound computed at the three sites *)
Theorem gen_overstatement_assorter_range omega ua v :
  0 < ua -> v < 2 * ua -> - ua <= omega <= ua ->
  0 <= gen_overstatement_assorter omega ua v <= gen_u_mvrs_to_data v ua.
Proof.
  intros Hua Hv [H1 H2]. unfold gen_overstatement_assorter, gen_u_mvrs_to_data, mkq.
  assert (Hd : 0 < 2 - v / ua).
  { assert (v / ua < 2) by (apply Qlt_shift_div_r; lra). lra. }
  assert (Hn : 0 <= 1 - omega / ua <= 2).
  { assert (omega / ua <= 1) by (apply Qle_shift_div_r; lra).
    assert (-1 <= omega / ua) by (apply Qle_shift_div_l; lra). lra. }
  split.
  - apply div_nonneg; lra.
  - apply Qle_shift_div_l; auto.
    assert (E : (1 - omega / ua) / (2 - v / ua) * (2 - v / ua) == 1 - omega / ua) by (field; split; lra). lra.
Qed.

(* the bound is the same function at the three places where it is computed and installed *)
Theorem gen_u_sites_agree v ua :
  gen_u_mvrs_to_data v ua == gen_u_set_margin_from_cvrs v ua /\ gen_u_mvrs_to_data v ua == gen_u_set_all_margins v ua.
Proof. unfold gen_u_mvrs_to_data, gen_u_set_margin_from_cvrs, gen_u_set_all_margins. split; reflexivity. Qed.

(* the hand model of Compare.v agrees with the generated text *)
Lemma gen_u_is_model v ua : ~ ua == 0 -> ~ 2 - v / ua == 0 ->
  comparison_u (Fin v) ua = Fin (gen_u_mvrs_to_data v ua).
Proof.
  intros H1 H2. unfold comparison_u, gen_u_mvrs_to_data, mkq. cbn [xdiv xsub xadd xneg].
  assert (E1 : Qeq_bool ua 0 = false) by (now apply Qeq_bool_false). rewrite E1. cbn [xsub xadd xneg xdiv].
  assert (E2 : Qeq_bool (2 + - (v / ua)) 0 = false) by (apply Qeq_bool_false; intro E; apply H2; rewrite <- E; ring).
  rewrite E2. reflexivity.
Qed.

(* C16: the assumed error data use the same formula as the audit *)
Theorem gen_make_overstatement_is_assorter o ua v : gen_make_overstatement o ua v == gen_overstatement_assorter o ua v.
Proof. unfold gen_make_overstatement, gen_overstatement_assorter. reflexivity. Qed.

(* C03, per card: B - 1/2 = (v - 2 omega) / (2 (2 u_a - v)); averaging over the cards under audit with
   v = 2 mean A(cvr) - 1 and mean omega = mean A(cvr) - mean Abar(mvr) gives the overstatement identity *)
Theorem gen_overstatement_assorter_centered omega ua v : ~ ua == 0 -> ~ 2 * ua - v == 0 ->
  gen_overstatement_assorter omega ua v - (1 # 2) == (v - 2 * omega) / (2 * (2 * ua - v)).
Proof. intros H1 H2. unfold gen_overstatement_assorter, mkq. field. repeat split; auto. Qed.

(* C02: the tally margins equal 2*mean - 1 of the assorter over the same cards *)
Theorem gen_margin_plurality_is_2mean_minus_1 tw tl n : ~ n == 0 ->
  gen_margin_plurality tw tl n == 2 * ((tw - tl + n) / (2 * n)) - 1.
Proof. intro H. unfold gen_margin_plurality. field. auto. Qed.

Theorem gen_margin_supermajority_is_2mean_minus_1 tw valid cards f :
  ~ cards == 0 -> ~ f == 0 -> (valid == 0 -> tw == 0) ->
  gen_margin_supermajority tw valid cards f == 2 * ((tw / (2 * f) + (cards - valid) / 2) / cards) - 1.
Proof.
  intros Hc Hf Hz. unfold gen_margin_supermajority, mkq. cbv zeta.
  destruct (Qeq_bool valid 0) eqn:E.
  - apply Qeq_bool_iff in E. rewrite (Hz E), E. field. split; auto.
  - apply Qeq_bool_false in E. field. repeat split; auto.
Qed.
