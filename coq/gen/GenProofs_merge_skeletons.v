(* GenProofs_merge_skeletons.v — lemmas re-checked on every C17 / C18 run against Gen_arith.v regenerated from /repo's
   shangrla/core/Audit.py (CVR.merge_cvrs, CVR.from_raire, CVR.from_raire_file) and shangrla/formats/Dominion.py, Hart.py
   (prep_manifest, sample_from_manifest): group "merge_skeletons" (harness/gen_targets_merge_skeletons.py).  Every statement
   of these functions is matched as exact text or translated; if one changes, Gen_arith.v is not produced (fail-closed
   translator) and every obligation below counts as broken.  The generated `..._tail` definitions are the line-by-line
   reading of the matched text; here each is proved equal to the hand model (Merge.v / Manifest.v) and the property's
   facts are restated on the generated definitions. *)
From SV Require Import Xq.
From SV Require Merge Manifest Merge_proofs Manifest_proofs.
From SVG Require Import Gen_arith.
Open Scope Z_scope.

(* ================================================================ CVR.merge_cvrs *)
Theorem gen_merge_step_is_model : forall o c, gen_merge_step_tail o c = Merge.merge_into o c.
Proof. reflexivity. Qed.

Theorem gen_merge_loop_is_model : forall l od, gen_merge_loop_tail od l = Merge.merge_loop od l.
Proof.
  induction l as [|c rest IH]; intros od; [reflexivity|].
  cbn [gen_merge_loop_tail Merge.merge_loop]. destruct (Merge.od_find od (Merge.c_id c)) as [o|]; [|apply IH].
  rewrite gen_merge_step_is_model. destruct (Merge.merge_into o c); [apply IH | reflexivity].
Qed.

Theorem gen_merge_cvrs_is_model : forall l, gen_merge_cvrs_tail l = Merge.merge_cvrs l.
Proof. intros l. apply gen_merge_loop_is_model. Qed.

(* the four-way tally_pool rule, read off the generated step *)
Theorem gen_merge_step_four_way : forall o c,
  let to := Merge.c_tp o in let tc := Merge.c_tp c in
  (Merge.is_none tc = true ->
     exists o', gen_merge_step_tail o c = Merge.Ok o' /\ Merge.c_tp o' = to) /\
  (Merge.is_none to = true -> Merge.is_none tc = false ->
     exists o', gen_merge_step_tail o c = Merge.Ok o' /\ Merge.c_tp o' = tc) /\
  (Merge.is_none to = false -> Merge.is_none tc = false -> Merge.py_eq to tc = true ->
     exists o', gen_merge_step_tail o c = Merge.Ok o' /\ Merge.c_tp o' = to) /\
  (Merge.is_none to = false -> Merge.is_none tc = false -> Merge.py_eq to tc = false ->
     gen_merge_step_tail o c = Merge.Err Merge.EValue).
Proof.
  intros o c to tc. subst to tc. unfold gen_merge_step_tail.
  destruct (Merge.c_tp o) as [|bo|zo|so] eqn:Eo; destruct (Merge.c_tp c) as [|bc|zc|sc] eqn:Ec; cbn [Merge.is_none negb andb orb];
    repeat split; intros; try discriminate;
    repeat match goal with H : Merge.py_eq _ _ = _ |- _ => rewrite H end;
    try (eexists; split; [reflexivity|]; cbn; congruence); try reflexivity.
Qed.

(* votes: whole contest replaced by the later record; phantom = and; pool = or — on the generated step *)
Theorem gen_merge_step_fields : forall o c o', gen_merge_step_tail o c = Merge.Ok o' ->
  Merge.c_id o' = Merge.c_id o /\
  Merge.c_votes o' = Merge.dict_merge (Merge.c_votes o) (Merge.c_votes c) /\
  Merge.truthy (Merge.c_phantom o') = Merge.truthy (Merge.c_phantom c) && Merge.truthy (Merge.c_phantom o) /\
  Merge.truthy (Merge.c_pool o') = Merge.truthy (Merge.c_pool c) || Merge.truthy (Merge.c_pool o) /\
  (Merge.is_bool (Merge.c_pool c) = true -> Merge.is_bool (Merge.c_pool o) = true -> Merge.is_bool (Merge.c_pool o') = true).
Proof.
  intros o c o' H. rewrite gen_merge_step_is_model in H.
  destruct (Merge_proofs.merge_into_fields _ _ _ H) as (V & P & Q).
  split; [eapply Merge_proofs.merge_into_id; eauto|]. split; [exact V|].
  rewrite P, Q, Merge_proofs.truthy_and, Merge_proofs.truthy_or. repeat split.
  intros A B. apply Merge_proofs.is_bool_or; auto.
Qed.

(* the property's clauses, on the generated whole function *)
Theorem gen_merge_one_per_id_in_order : forall l out, gen_merge_cvrs_tail l = Merge.Ok out ->
  Merge_proofs.ids out = Merge_proofs.dedup (Merge_proofs.ids l) /\ NoDup (Merge_proofs.ids out).
Proof.
  intros l out H. rewrite gen_merge_cvrs_is_model in H.
  destruct (Merge_proofs.one_per_id_holds l out H) as (A & B & _). auto.
Qed.

Theorem gen_merge_contest_union_later_wins : forall l out, Forall Merge_proofs.wf_votes l ->
  gen_merge_cvrs_tail l = Merge.Ok out -> forall o, In o out -> forall k,
    Merge.dict_get (Merge.c_votes o) k = Merge_proofs.latest k (Merge_proofs.group (Merge.c_id o) l).
Proof.
  intros l out Hwf H o Ho k. rewrite gen_merge_cvrs_is_model in H.
  apply (proj1 (Merge_proofs.contest_union_holds l out Hwf H o Ho)).
Qed.

Theorem gen_merge_flags : forall l out, gen_merge_cvrs_tail l = Merge.Ok out -> forall o, In o out ->
  let g := Merge_proofs.group (Merge.c_id o) l in
  Merge.truthy (Merge.c_phantom o) = forallb (fun c => Merge.truthy (Merge.c_phantom c)) g /\
  Merge.truthy (Merge.c_pool o) = existsb (fun c => Merge.truthy (Merge.c_pool c)) g /\
  (Forall (fun c => Merge.is_bool (Merge.c_pool c) = true) g ->
     Merge.c_pool o = Merge.PBool (existsb (fun c => Merge.truthy (Merge.c_pool c)) g)).
Proof.
  intros l out H o Ho g. rewrite gen_merge_cvrs_is_model in H.
  destruct (Merge_proofs.phantom_holds l out H o Ho) as (_ & A & _).
  destruct (Merge_proofs.pool_holds l out H o Ho) as (B & D). auto.
Qed.

Theorem gen_merge_tally_pool : forall l,
  ((exists e, gen_merge_cvrs_tail l = Merge.Err e) <-> Merge_proofs.tp_conflict l) /\
  (forall out o, gen_merge_cvrs_tail l = Merge.Ok out -> In o out ->
     Merge.c_tp o = Merge_proofs.first_nonnone (map Merge.c_tp (Merge_proofs.group (Merge.c_id o) l))).
Proof.
  intros l. rewrite gen_merge_cvrs_is_model. destruct (Merge_proofs.tally_pool_holds l) as (_ & A & B).
  split; [exact A|]. intros out o H Ho. apply (proj1 (B out o H Ho)).
Qed.

(* ================================================================ CVR.from_raire / from_raire_file *)
Theorem gen_raire_rank_is_index_minus_1 : forall j : Z, (gen_raire_rank (inject_Z j) == inject_Z (j - 1))%Q.
Proof. intros j. unfold gen_raire_rank, mkq, Qeq, Qminus, Qplus, Qopp, inject_Z. simpl. lia. Qed.

Theorem gen_raire_votes_is_model : forall cells j d,
  gen_raire_votes_tail j cells d = Merge.ranks_from (j - 1) cells d.
Proof.
  induction cells as [|x r IH]; intros j d; [reflexivity|].
  cbn [gen_raire_votes_tail Merge.ranks_from]. rewrite IH. f_equal. lia.
Qed.

Theorem gen_raire_row_is_model : forall ph c, gen_raire_row_tail ph c = Merge.row_to_rec ph c.
Proof.
  intros ph c. destruct c as [|a [|b cs]]; try reflexivity.
  unfold gen_raire_row_tail, Merge.row_to_rec. rewrite gen_raire_votes_is_model. reflexivity.
Qed.

Theorem gen_raire_rows_is_model : forall ph rows, gen_raire_rows_tail ph rows = Merge.rows_to_recs ph rows.
Proof.
  induction rows as [|c rest IH]; [reflexivity|].
  cbn [gen_raire_rows_tail Merge.rows_to_recs]. rewrite gen_raire_row_is_model, IH. reflexivity.
Qed.

Theorem gen_from_raire_is_model : forall skip raire ph, gen_from_raire_tail skip raire ph = Merge.from_raire skip raire ph.
Proof. intros. unfold gen_from_raire_tail, Merge.from_raire. rewrite gen_raire_rows_is_model. reflexivity. Qed.

Theorem gen_from_raire_file_is_model : forall skip rows, gen_from_raire_file_tail skip rows = Merge.from_raire_file skip rows.
Proof. reflexivity. Qed.

(* rank k for the k-th listed candidate, read off the generated loop (cells start at index 2) *)
Theorem gen_raire_kth_candidate_rank_k : forall cands k x, NoDup cands -> nth_error cands k = Some x ->
  Merge.dict_get (gen_raire_votes_tail 2 cands []) x = Some (Z.of_nat k + 1).
Proof.
  intros cands k x Hnd H. rewrite gen_raire_votes_is_model.
  apply (proj1 Merge_proofs.from_raire_holds cands k x Hnd H).
Qed.

(* header lines skipped, one record per row, merged, never an error on well-formed rows *)
Theorem gen_from_raire_skips_and_merges : forall skip hdr ballots ph, length hdr = S skip ->
  Forall (fun c => (2 <= length c)%nat) ballots ->
  exists out, gen_merge_cvrs_tail (map (Merge_proofs.row_rec ph) ballots) = Merge.Ok out /\
              gen_from_raire_tail skip (hdr ++ ballots) ph = Merge.Ok (out, Z.of_nat (length ballots) + 1).
Proof.
  intros skip hdr ballots ph Hl Hwf. rewrite gen_from_raire_is_model.
  destruct (proj1 (proj2 (proj2 Merge_proofs.from_raire_holds)) skip hdr ballots ph Hl Hwf) as (out & A & B & _).
  exists out. rewrite gen_merge_cvrs_is_model. auto.
Qed.

(* ================================================================ prep_manifest (both vendors) *)
Theorem gen_dprep_phantoms_is_difference : forall a b : Z,
  (gen_dprep_phantoms (inject_Z a) (inject_Z b) == inject_Z (a - b))%Q.
Proof. intros. unfold gen_dprep_phantoms, Qeq, Qminus, Qplus, Qopp, inject_Z. simpl. lia. Qed.
Theorem gen_hprep_phantoms_is_difference : forall a b : Z,
  (gen_hprep_phantoms (inject_Z a) (inject_Z b) == inject_Z (a - b))%Q.
Proof. intros. unfold gen_hprep_phantoms, Qeq, Qminus, Qplus, Qopp, inject_Z. simpl. lia. Qed.

Lemma prep_shape : forall v tray m mx nc,
  Manifest.phantom_row v = (fun n => Manifest.mkrow Manifest.none_str tray Manifest.phantom_tab 1 n) ->
  (let manifest_cards := Manifest.zsum (Manifest.sizes m) in
   if negb (manifest_cards <=? mx) then Manifest.Err Manifest.EAssert else
   if negb (manifest_cards >=? nc) then Manifest.Err Manifest.EAssert else
   let pm := if manifest_cards <? mx
             then (mx - manifest_cards, m ++ [Manifest.mkrow Manifest.none_str tray Manifest.phantom_tab 1 (mx - manifest_cards)])
             else (0, m) in
   Manifest.Ok (Manifest.mkprep (snd pm) (Manifest.cumsum (Manifest.sizes (snd pm))), manifest_cards, fst pm))
  = Manifest.prep_manifest v m mx nc.
Proof.
  intros v tray m mx nc Hrow. unfold Manifest.prep_manifest. rewrite Hrow. cbv zeta.
  set (mc := Manifest.zsum (Manifest.sizes m)).
  rewrite (Z.leb_antisym mx mc), negb_involutive, Z.geb_leb, (Z.leb_antisym mc nc), negb_involutive.
  destruct (mx <? mc); [reflexivity|]. destruct (mc <? nc); [reflexivity|].
  destruct (mc <? mx); reflexivity.
Qed.

Theorem gen_dprep_is_model : forall m mx nc, gen_dprep_tail m mx nc = Manifest.prep_manifest Manifest.Dominion m mx nc.
Proof. intros. unfold gen_dprep_tail. apply (prep_shape Manifest.Dominion Manifest.none_str). reflexivity. Qed.
Theorem gen_hprep_is_model : forall m mx nc, gen_hprep_tail m mx nc = Manifest.prep_manifest Manifest.Hart m mx nc.
Proof. intros. unfold gen_hprep_tail. apply (prep_shape Manifest.Hart 0). reflexivity. Qed.

(* the property's clause on the generated functions: refusals; otherwise the total is exactly the bound and the
   phantom batch has exactly bound - total cards *)
Theorem gen_prep_accounts_for_every_card : forall m mx nc,
  let total := Manifest.zsum (Manifest.sizes m) in
  (mx < total \/ total < nc ->
     gen_dprep_tail m mx nc = Manifest.Err Manifest.EAssert /\ gen_hprep_tail m mx nc = Manifest.Err Manifest.EAssert) /\
  (nc <= total <= mx ->
     exists pd ph, gen_dprep_tail m mx nc = Manifest.Ok (pd, total, mx - total) /\
                   gen_hprep_tail m mx nc = Manifest.Ok (ph, total, mx - total) /\
                   Manifest.zsum (Manifest.sizes (Manifest.pm_rows pd)) = mx /\
                   Manifest.zsum (Manifest.sizes (Manifest.pm_rows ph)) = mx /\
                   (total < mx -> Manifest.pm_rows pd = m ++ [Manifest.phantom_row Manifest.Dominion (mx - total)] /\
                                  Manifest.pm_rows ph = m ++ [Manifest.phantom_row Manifest.Hart (mx - total)])).
Proof.
  intros m mx nc total. rewrite gen_dprep_is_model, gen_hprep_is_model.
  destruct (Manifest_proofs.prep_holds Manifest.Dominion m mx nc) as [Rd Od].
  destruct (Manifest_proofs.prep_holds Manifest.Hart m mx nc) as [Rh Oh]. split.
  - intros H. split; [apply Rd | apply Rh]; exact H.
  - intros H. destruct (Od H) as (pd & E1 & T1 & _ & _ & A1 & _). destruct (Oh H) as (ph & E2 & T2 & _ & _ & A2 & _).
    exists pd, ph. repeat split; auto.
Qed.

(* ================================================================ sample_from_manifest: the lookup lines *)
Theorem gen_dsfm_is_model : forall cum s, gen_dsfm_tail cum s = Manifest.lookup_card Manifest.Dominion cum s.
Proof. reflexivity. Qed.
Theorem gen_hsfm_is_model : forall cum s, gen_hsfm_tail cum s = Manifest.lookup_card Manifest.Hart cum s.
Proof. reflexivity. Qed.

Theorem gen_dsfm_serial_is_s_plus_1 : forall s : Z, (gen_dsfm_serial (inject_Z s) == inject_Z (s + 1))%Q.
Proof. intros. unfold gen_dsfm_serial, mkq, Qeq, Qplus, inject_Z. simpl. lia. Qed.
Theorem gen_hsfm_serial_is_s_plus_1 : forall s : Z, (gen_hsfm_serial (inject_Z s) == inject_Z (s + 1))%Q.
Proof. intros. unfold gen_hsfm_serial, mkq, Qeq, Qplus, inject_Z. simpl. lia. Qed.

(* the 1-based (Dominion, side="left") and 0-based (Hart, side="right") conventions on the generated lookups:
   every valid number finds (batch, position) with position inside the batch and cards-before + position = number;
   different numbers never share a card *)
Theorem gen_dsfm_one_based : forall sizes, Manifest_proofs.nonneg sizes ->
  (forall s, 1 <= s < 1 + Manifest.zsum sizes ->
     exists b k, gen_dsfm_tail (Manifest.cumsum sizes) s = Some (b, k) /\
                 ((b < length sizes)%nat /\ 1 <= k < 1 + nth b sizes 0) /\ Manifest_proofs.before sizes b + k = s) /\
  (forall s1 s2 r, gen_dsfm_tail (Manifest.cumsum sizes) s1 = Some r -> gen_dsfm_tail (Manifest.cumsum sizes) s2 = Some r -> s1 = s2).
Proof.
  intros sizes Hn. destruct (Manifest_proofs.lookup_bijection_holds Manifest.Dominion sizes Hn) as (A & _ & B & _).
  split; [exact A | exact B].
Qed.
Theorem gen_hsfm_zero_based : forall sizes, Manifest_proofs.nonneg sizes ->
  (forall s, 0 <= s < 0 + Manifest.zsum sizes ->
     exists b k, gen_hsfm_tail (Manifest.cumsum sizes) s = Some (b, k) /\
                 ((b < length sizes)%nat /\ 0 <= k < 0 + nth b sizes 0) /\ Manifest_proofs.before sizes b + k = s) /\
  (forall s1 s2 r, gen_hsfm_tail (Manifest.cumsum sizes) s1 = Some r -> gen_hsfm_tail (Manifest.cumsum sizes) s2 = Some r -> s1 = s2).
Proof.
  intros sizes Hn. destruct (Manifest_proofs.lookup_bijection_holds Manifest.Hart sizes Hn) as (A & _ & B & _).
  split; [exact A | exact B].
Qed.
