(* GenProofs_audit_skeletons.v — lemmas re-checked on every run against Gen_arith.v regenerated from /repo's
   shangrla/core/Audit.py (group "audit_skeletons" of harness/genarith.py): whole-function skeletons of
   Assorter.overstatement, Assertion.overstatement_assorter, overstatement_assorter_margin, overstatement_assorter_mean,
   make_overstatement, Assorter.mean and Assertion.set_margin_from_cvrs.  If any statement of these functions changes,
   Gen_arith.v is not produced at all (fail-closed translator) and every obligation below counts as broken. *)
From SV Require Import Xq NNM Compare.
From SV Require Phantoms SampleSize.
From SVG Require Import Gen_arith.
Open Scope Q_scope.

(* ---- Assorter.overstatement: the regenerated case analysis IS the function of the hand model (Compare.v) ---- *)
Theorem gen_overstatement_is_model (A : card -> Q) cid means mvr cvr use_style :
  overstatement A cid means mvr cvr use_style =
  gen_overstatement_tail use_style (c_phantom mvr) (has_contest cid mvr) (has_contest cid cvr) (c_pool cvr) (c_phantom cvr)
                         means (c_tp cvr) (A mvr) (A cvr).
Proof. reflexivity. Qed.

(* ... and of the C08 model (Phantoms.v), whose card and result types differ *)
Definition to_result (r : res Xq) : Phantoms.result Xq :=
  match r with
  | Ok x => Phantoms.Ok x
  | Raise EValue => Phantoms.Err Phantoms.EValue
  | Raise EKey => Phantoms.Err Phantoms.EKey
  | Raise EOther => Phantoms.Err Phantoms.EOther
  end.
Lemma phantoms_lookup_same key (d : list (Z * Xq)) : Phantoms.lookup key d = lookup key d.
Proof.
  induction d as [|[a b] r IH]; simpl; [reflexivity|]. rewrite (Z.eqb_sym a key). now rewrite IH.
Qed.
Theorem gen_overstatement_is_phantoms_model (A : Phantoms.card -> Q) k pm use_style (mvr cvr : Phantoms.card) :
  Phantoms.overstatement A k pm use_style mvr cvr =
  to_result (gen_overstatement_tail use_style (Phantoms.cphantom mvr) (Phantoms.has_contest mvr k)
                                    (Phantoms.has_contest cvr k) (Phantoms.cpool cvr) (Phantoms.cphantom cvr)
                                    pm (Phantoms.ctally_pool cvr) (A mvr) (A cvr)).
Proof.
  unfold Phantoms.overstatement, gen_overstatement_tail, Phantoms.cvr_assort, Phantoms.cvr_uses_pool,
    Phantoms.mvr_assort, Phantoms.mvr_assort_evaluated.
  destruct (use_style && negb (Phantoms.has_contest cvr k)); [reflexivity|].
  destruct (Phantoms.cphantom mvr || (use_style && negb (Phantoms.has_contest mvr k))); simpl negb; cbv iota;
    (destruct (Phantoms.cpool cvr); simpl andb;
     [destruct pm as [ms|]; [rewrite phantoms_lookup_same; destruct (lookup (Phantoms.ctally_pool cvr) ms); reflexivity|reflexivity]
     |reflexivity]).
Qed.

(* the scoring conventions, read off the regenerated text *)
Theorem gen_phantom_mvr_scores_zero us mh ch pool cph means tp am ac :
  gen_overstatement_tail us true mh ch pool cph means tp am ac = gen_overstatement_tail us false true ch pool cph means tp 0 ac.
Proof. unfold gen_overstatement_tail. destruct us, ch; reflexivity. Qed.
Theorem gen_mvr_without_contest_scores_zero_under_style mph ch pool cph means tp am ac :
  gen_overstatement_tail true mph false ch pool cph means tp am ac = gen_overstatement_tail true false true ch pool cph means tp 0 ac.
Proof. unfold gen_overstatement_tail. destruct mph, ch; reflexivity. Qed.
Theorem gen_mvr_assorted_otherwise mh ch pool cph means tp am ac :
  gen_overstatement_tail false false mh ch pool cph means tp am ac = gen_overstatement_tail false false true ch pool cph means tp am ac
  /\ gen_overstatement_tail true false true ch pool cph means tp am ac
     = (if ch then gen_overstatement_tail false false true ch pool cph means tp am ac else Raise EValue).
Proof. unfold gen_overstatement_tail. destruct ch; split; reflexivity. Qed.
Theorem gen_pooled_cvr_scores_pool_mean us mph mh cph ms tp m am ac :
  us && negb true = false -> lookup tp ms = Some m ->
  gen_overstatement_tail us mph mh true true cph (Some ms) tp am ac
  = Ok (xsub m (Fin (if mph || (us && negb mh) then 0 else am))).
Proof. intros _ Hl. unfold gen_overstatement_tail. rewrite Hl. destruct us; reflexivity. Qed.
Theorem gen_phantom_cvr_scores_half us mph mh means tp am ac :
  exists q, gen_overstatement_tail us mph mh true false true means tp am ac = Ok (Fin q)
            /\ q == (1 # 2) - (if mph || (us && negb mh) then 0 else am).
Proof.
  unfold gen_overstatement_tail. destruct us; simpl; eexists; (split; [reflexivity|]); unfold b2q; field.
Qed.

(* ---- Assertion.overstatement_assorter / make_overstatement ---- *)
Theorem gen_oa_is_model (A : card -> Q) cid means v ua mvr cvr use_style o :
  ~ ua == 0 -> ~ 2 - v / ua == 0 ->
  overstatement A cid means mvr cvr use_style = Ok (Fin o) ->
  overstatement_assorter A cid means (Fin v) ua mvr cvr use_style = Ok (Fin (gen_oa_out o ua v)).
Proof.
  intros H1 H2 Ho. unfold overstatement_assorter. rewrite Ho. unfold gen_oa_out, mkq.
  assert (E1 : Qeq_bool ua 0 = false) by (now apply Qeq_bool_false).
  cbn [xdiv xsub xadd xneg]. rewrite E1. cbn [xdiv xsub xadd xneg].
  assert (E2 : Qeq_bool (2 + - (v / ua)) 0 = false) by (apply Qeq_bool_false; intro E; apply H2; rewrite <- E; ring).
  rewrite E2. reflexivity.
Qed.
Theorem gen_oa_raises_with_overstatement (A : card -> Q) cid means m ua mvr cvr use_style e :
  overstatement A cid means mvr cvr use_style = Raise e ->
  overstatement_assorter A cid means m ua mvr cvr use_style = Raise e.
Proof. intros H. unfold overstatement_assorter. now rewrite H. Qed.
Theorem gen_make_overstatement_is_oa o ua v : gen_make_overstatement o ua v == gen_oa_out o ua v.
Proof. unfold gen_make_overstatement, gen_oa_out. reflexivity. Qed.
Theorem gen_make_overstatement_is_samplesize_model ub margin overs :
  SampleSize.make_overstatement ub margin overs == gen_make_overstatement overs ub margin.
Proof. unfold SampleSize.make_overstatement, gen_make_overstatement, mkq. reflexivity. Qed.

(* ---- overstatement_assorter_mean / _margin (what C16's assumed error rates mean) ---- *)
Theorem gen_oa_mean_is_mix e1 e2 ua v :
  ~ ua == 0 -> ~ 2 - v / ua == 0 ->
  gen_oa_mean_out e1 e2 ua v ==
  (1 - e1 - e2) * gen_make_overstatement 0 ua v + e1 * gen_make_overstatement (ua / 2) ua v + e2 * gen_make_overstatement ua ua v.
Proof.
  intros H1 H2. unfold gen_oa_mean_out, gen_make_overstatement, mkq.
  assert (H3 : ~ 2 * ua - v == 0).
  { intro E. apply H2. assert (E2 : 2 - v / ua == (2 * ua - v) / ua) by (field; exact H1). rewrite E2, E. unfold Qdiv. ring. }
  field. split; assumption.
Qed.
Theorem gen_oa_mean_no_error ua v : gen_oa_mean_out 0 0 ua v == gen_make_overstatement 0 ua v.
Proof. unfold gen_oa_mean_out, gen_make_overstatement, mkq. unfold Qdiv. ring. Qed.
Theorem gen_oa_margin_is_twice_mean_minus_one_of_B e1 e2 ua v :
  ~ ua == 0 -> ~ v == 0 -> ~ 2 * ua - v == 0 ->
  gen_oa_margin_out e1 e2 ua v == (v / ua - (e2 + e1 / 2)) / (2 - v / ua)
  /\ gen_oa_margin_out 0 0 ua v == 2 * gen_oa_mean_out 0 0 ua v - 1.
Proof.
  intros H1 H2 H3. unfold gen_oa_margin_out, gen_oa_mean_out, mkq. split; field; repeat split; assumption.
Qed.

(* ---- Assorter.mean ---- *)
Theorem gen_amean_is_model (A : card -> Q) cid cvrs use_style :
  assorter_mean A cid cvrs use_style = gen_amean_tail A cid cvrs use_style.
Proof. unfold assorter_mean, gen_amean_tail, style_filter. destruct use_style; reflexivity. Qed.

(* ---- Assertion.set_margin_from_cvrs ---- *)
Theorem gen_smc_margin_is_model m : margin_of_mean (Fin m) = Fin (gen_smc_margin m).
Proof. reflexivity. Qed.
Theorem gen_smc_is_model (A : card -> Q) cid t ua cvrs style m :
  ~ ua == 0 -> ~ 2 - gen_smc_margin m / ua == 0 ->
  assorter_mean A cid cvrs style = Fin m ->
  set_margin_from_cvrs A cid t ua cvrs style
  = (Fin (fst (gen_smc_tail t m ua)), Fin (snd (gen_smc_tail t m ua))).
Proof.
  intros H1 H2 Hm. unfold set_margin_from_cvrs. rewrite Hm, gen_smc_margin_is_model. unfold gen_smc_tail. cbn [fst snd].
  f_equal. unfold test_u_for. destruct t; cbn [is_comparison]; try reflexivity;
  (unfold comparison_u, gen_smc_u_comparison, mkq;
   assert (E1 : Qeq_bool ua 0 = false) by (now apply Qeq_bool_false);
   cbn [xdiv xsub xadd xneg]; rewrite E1; cbn [xdiv xsub xadd xneg];
   assert (E2 : Qeq_bool (2 + - (gen_smc_margin m / ua)) 0 = false)
     by (apply Qeq_bool_false; intro E; apply H2; rewrite <- E; ring);
   rewrite E2; reflexivity).
Qed.
(* the bound installed in the test is the largest value the overstatement assorter can take (overstatement = -u_a) *)
Theorem gen_smc_u_is_the_data_bound v ua :
  ~ ua == 0 -> ~ 2 * ua - v == 0 -> gen_smc_u_comparison v ua == gen_make_overstatement (- ua) ua v.
Proof. intros H1 H2. unfold gen_smc_u_comparison, gen_make_overstatement, mkq. field. split; assumption. Qed.

(* ---- Assertion.set_all_margins_from_cvrs: every assertion's margin is recomputed from the list given, whatever it
        held before; the u installed is the same function as in set_margin_from_cvrs ---- *)
Theorem gen_sam_is_model asns cvrs style : set_all_margins_from_cvrs asns cvrs style = gen_sam_tail asns cvrs style.
Proof. reflexivity. Qed.
Theorem gen_sam_u_sites_agree margin ua :
  gen_sam_u_comparison margin ua == gen_smc_u_comparison margin ua /\ gen_sam_u_polling ua == gen_smc_u_polling ua.
Proof. unfold gen_sam_u_comparison, gen_smc_u_comparison, gen_sam_u_polling, gen_smc_u_polling. split; reflexivity. Qed.
Theorem gen_sam_overwrites_old_margins asns cvrs style m0 u0 :
  fst (gen_sam_tail (map (fun a => mkasn (a_A a) (a_cid a) (a_style a) (a_type a) (a_thr a) m0 (a_ua a) (a_means a) u0) asns) cvrs style)
  = fst (gen_sam_tail asns cvrs style).
Proof. unfold gen_sam_tail. cbn [fst]. rewrite map_map. reflexivity. Qed.
