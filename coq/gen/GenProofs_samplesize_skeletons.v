(* GenProofs_samplesize_skeletons.v — lemmas re-checked on every run against Gen_arith.v regenerated from /repo
   (group "samplesize_skeletons", harness/gen_targets_samplesize_skeletons.py): whole-function skeletons of
   NonnegMean.sample_size, Assertion.interleave_values, Assertion.find_sample_size, Contest.find_sample_size and
   Audit.find_sample_size.  If any statement of these functions changes, Gen_arith.v is not produced at all
   (fail-closed translator) and every obligation below counts as broken.
   The gen_*_tail definitions are the line-by-line Gallina reading of the matched source lines; they are proved equal
   to the functions of the hand model (coq/theories/SampleSize.v), and the C16 facts are restated on them. *)
From SV Require Import Xq NNM SampleSize SampleSize_proofs.
From SVG Require Import Gen_arith.
From Coq Require Import Lia.
Open Scope Q_scope.

(* ===================================================================== NonnegMean.sample_size *)
Theorem gen_ss_is_model sqrtq draws quantile c alpha x reps prefix q :
  gen_ss_tail sqrtq draws quantile c alpha x reps prefix q = ss sqrtq draws quantile c alpha x reps prefix q.
Proof.
  unfold gen_ss_tail, ss, ss_det, ss_sim, sim_sams, sim_one, sim_pop, crossing_or, hist, sample_size_det.
  destruct (cN c); destruct reps; reflexivity.
Qed.

(* the deterministic branch read off the regenerated text: tiling, then the first entry <= alpha, else N *)
Theorem gen_ss_first_crossing sqrtq draws quantile c alpha x prefix q n :
  cN c = Some n -> x <> [] ->
  let N := Z.to_nat n in
  let h := hist sqrtq c (tile_to N x x) in
  (length (tile_to N x x) = N /\ forall i d, (i < N)%nat -> nth i (tile_to N x x) d = nth (i mod length x) x d) /\
  exists k, gen_ss_tail sqrtq draws quantile c alpha x None prefix q = Ok k /\
    (is_first_crossing alpha h k \/ (never_crosses alpha h /\ k = N)).
Proof.
  intros Hn Hx N h. split; [apply tiling; exact Hx|].
  rewrite gen_ss_is_model. simpl.
  destruct (ss_det_first_crossing sqrtq c alpha x n Hn Hx) as (k & Hk & _ & Hc). exists k. split; assumption.
Qed.

(* the simulation branch: a prefix that already crosses at k gives k for every draw, repetition count and quantile *)
Theorem gen_ss_prefix_invariant sqrtq draws quantile :
  (forall q k n, 0 <= q <= 1 -> quantile q (repeat k (S n)) = k) ->
  forall c alpha x reps q n k, cN c = Some n -> (1 <= reps)%nat -> 0 <= q <= 1 ->
  first_crossing alpha 0 (hist sqrtq c x) = Some k -> (k < length x)%nat ->
  gen_ss_tail sqrtq draws quantile c alpha x (Some reps) true q = Ok k.
Proof.
  intros Hq c alpha x reps q n k Hn Hr Hq01 Hc Hk. rewrite gen_ss_is_model. simpl.
  apply (prefix_invariant_shipped sqrtq draws quantile Hq c alpha x reps q n k Hn Hr Hq01). left. split; assumption.
Qed.

(* ===================================================================== Assertion.interleave_values *)
(* each of the seven regenerated "fraction still to be placed" expressions is (n - i) / n *)
Lemma gen_iv_exprs : forall n i : Q,
  gen_iv_r0_small n i = (n - i) / n /\ gen_iv_r0_med n i = (n - i) / n /\ gen_iv_r0_big n i = (n - i) / n /\
  gen_iv_rl_med_a n i = (n - i) / n /\ gen_iv_rl_small n i = (n - i) / n /\ gen_iv_rl_med_b n i = (n - i) / n /\
  gen_iv_rl_big n i = (n - i) / n.
Proof. intros. repeat split; reflexivity. Qed.

Definition opt_qeq (a b : option Q) : Prop :=
  match a, b with Some r, Some r' => r == r' | None, None => True | _, _ => False end.

Lemma ratio_div : forall (g : Q -> Q -> Q) n i, (forall a b, g a b = (a - b) / a) -> opt_qeq (ratio n i) (gen_iv_div g n i).
Proof.
  intros g n i Hg. destruct n as [|k]; [exact I|]. unfold ratio, gen_iv_div, opt_qeq. rewrite Hg.
  rewrite Qmake_Qdiv.
  assert (E : Zpos (Pos.of_nat (S k)) = Z.of_nat (S k)) by (rewrite <- Pos.of_nat_succ; reflexivity).
  rewrite E. unfold Z.sub. rewrite inject_Z_plus, inject_Z_opp. reflexivity.
Qed.

Definition steq (a b : ist) : Prop :=
  i_s a = i_s b /\ i_m a = i_m b /\ i_b a = i_b b /\ r_s a == r_s b /\ r_m a == r_m b /\ r_b a == r_b b.
Lemma steq_refl st : steq st st.
Proof. unfold steq. repeat split; reflexivity. Qed.

Definition step_rel (t : tag) (a : option ist) (b : option (tag * ist)) : Prop :=
  match a, b with
  | Some s1, Some (t', s2) => t' = t /\ steq s1 s2
  | None, None => True
  | _, _ => False
  end.

Lemma Qlt_bool_qeq a b a' b' : a == a' -> b == b' -> Qlt_bool a b = Qlt_bool a' b'.
Proof. intros Ha Hb. unfold Qlt_bool. rewrite Ha, Hb. reflexivity. Qed.

Lemma step_sim ns nm nb st st' : steq st st' ->
  step_rel (choose st) (bump (choose st) ns nm nb st) (gen_iv_step ns nm nb st').
Proof.
  intros (Hs & Hm & Hb & Rs & Rm & Rb). unfold choose, gen_iv_step.
  rewrite <- (Qlt_bool_qeq _ _ _ _ Rb Rs), <- (Qlt_bool_qeq _ _ _ _ Rs Rm), <- (Qlt_bool_qeq _ _ _ _ Rb Rm).
  destruct (Qlt_bool (r_b st) (r_s st)); [destruct (Qlt_bool (r_s st) (r_m st))|destruct (Qlt_bool (r_b st) (r_m st))];
    unfold bump, step_rel; rewrite <- ?Hs, <- ?Hm, <- ?Hb.
  - pose proof (ratio_div gen_iv_rl_med_a nm (S (i_m st)) (fun a b => eq_refl)) as R.
    destruct (ratio nm (S (i_m st))), (gen_iv_div gen_iv_rl_med_a nm (S (i_m st))); simpl in R; try contradiction; auto.
    split; auto. unfold steq; simpl. repeat split; auto.
  - pose proof (ratio_div gen_iv_rl_small ns (S (i_s st)) (fun a b => eq_refl)) as R.
    destruct (ratio ns (S (i_s st))), (gen_iv_div gen_iv_rl_small ns (S (i_s st))); simpl in R; try contradiction; auto.
    split; auto. unfold steq; simpl. repeat split; auto.
  - pose proof (ratio_div gen_iv_rl_med_b nm (S (i_m st)) (fun a b => eq_refl)) as R.
    destruct (ratio nm (S (i_m st))), (gen_iv_div gen_iv_rl_med_b nm (S (i_m st))); simpl in R; try contradiction; auto.
    split; auto. unfold steq; simpl. repeat split; auto.
  - pose proof (ratio_div gen_iv_rl_big nb (S (i_b st)) (fun a b => eq_refl)) as R.
    destruct (ratio nb (S (i_b st))), (gen_iv_div gen_iv_rl_big nb (S (i_b st))); simpl in R; try contradiction; auto.
    split; auto. unfold steq; simpl. repeat split; auto.
Qed.

Lemma first_sim ns nm nb st : i_s st = 0%nat -> i_m st = 0%nat -> i_b st = 0%nat ->
  step_rel (first_tag ns nm) (bump (first_tag ns nm) ns nm nb st) (gen_iv_first ns nm nb st).
Proof.
  intros Hs Hm Hb. unfold first_tag, gen_iv_first. destruct ns as [|ks]; [destruct nm as [|km]|]; unfold bump, step_rel.
  - rewrite Hb. pose proof (ratio_div gen_iv_r0_big nb 1 (fun a b => eq_refl)) as R.
    destruct (ratio nb 1), (gen_iv_div gen_iv_r0_big nb 1); simpl in R; try contradiction; auto.
    split; auto. unfold steq; simpl. repeat split; auto; reflexivity.
  - rewrite Hm. pose proof (ratio_div gen_iv_r0_med (S km) 1 (fun a b => eq_refl)) as R.
    destruct (ratio (S km) 1), (gen_iv_div gen_iv_r0_med (S km) 1); simpl in R; try contradiction; auto.
    split; auto. unfold steq; simpl. repeat split; auto; reflexivity.
  - rewrite Hs. pose proof (ratio_div gen_iv_r0_small (S ks) 1 (fun a b => eq_refl)) as R.
    destruct (ratio (S ks) 1), (gen_iv_div gen_iv_r0_small (S ks) 1); simpl in R; try contradiction; auto.
    split; auto. unfold steq; simpl. repeat split; auto; reflexivity.
Qed.

Lemma loop_sim ns nm nb : forall fuel st st', steq st st' -> iloop fuel ns nm nb st = gen_iv_loop fuel ns nm nb st'.
Proof.
  induction fuel as [|f IH]; intros st st' H; [reflexivity|]. simpl.
  pose proof (step_sim ns nm nb st st' H) as R. unfold step_rel in R.
  destruct (bump (choose st) ns nm nb st) as [s1|], (gen_iv_step ns nm nb st') as [[t s2]|]; try contradiction; auto.
  destruct R as (Et & Hs). subst t. rewrite (IH s1 s2 Hs). reflexivity.
Qed.

(* the regenerated interleaving IS the hand model's *)
Theorem gen_iv_is_model ns nm nb small med big :
  gen_iv_tail ns nm nb small med big = interleave_values ns nm nb small med big.
Proof.
  unfold gen_iv_tail, interleave_values, interleave_tags. destruct (ns + nm + nb)%nat as [|N']; [reflexivity|].
  set (st0 := mkist 0 0 0 (r_init ns) (r_init nm) (r_init nb)).
  pose proof (first_sim ns nm nb st0 eq_refl eq_refl eq_refl) as R. unfold step_rel in R.
  destruct (bump (first_tag ns nm) ns nm nb st0) as [s1|], (gen_iv_first ns nm nb st0) as [[t s2]|]; try contradiction; auto.
  destruct R as (Et & Hs). subst t. rewrite <- (loop_sim ns nm nb N' s1 s2 Hs).
  destruct (iloop N' ns nm nb s1); reflexivity.
Qed.

(* exactly the requested number of each value, for every request with at least one value; N = 0 is the raising branch *)
Theorem gen_iv_counts ns nm nb small med big :
  ((1 <= ns + nm + nb)%nat ->
   exists l, gen_iv_tail ns nm nb small med big = Ok (map (tag_value small med big) l) /\ length l = (ns + nm + nb)%nat /\
             count_tag TSmall l = ns /\ count_tag TMed l = nm /\ count_tag TBig l = nb)
  /\ gen_iv_tail 0 0 0 small med big = Err EIndex.
Proof.
  split; [|reflexivity]. intros HN. rewrite gen_iv_is_model. unfold interleave_values.
  destruct (interleave_counts ns nm nb HN) as (l & Hl & Hlen & C1 & C2 & C3). exists l. rewrite Hl. simpl. auto.
Qed.

(* ===================================================================== Assertion.find_sample_size *)
Theorem gen_fss_population_is_model a r1 r2 : gen_fss_population a r1 r2 = asn_population a r1 r2.
Proof.
  unfold gen_fss_population, asn_population, overstatement_layout.
  destruct (a_margin a); [|reflexivity]. destruct (cN (a_cfg a)); [|reflexivity]. destruct (a_type a); reflexivity.
Qed.
Theorem gen_fss_is_model sqrtq draws quantile a data r1 r2 reps prefix q :
  gen_fss_tail sqrtq draws quantile a data r1 r2 reps prefix q = asn_find sqrtq draws quantile a data r1 r2 reps prefix q.
Proof.
  unfold gen_fss_tail, asn_find. destruct (a_margin a); [|reflexivity]. destruct (Qle_bool q0 0); [reflexivity|].
  destruct data; [reflexivity|]. rewrite gen_fss_population_is_model. reflexivity.
Qed.

(* comparison / ONEAudit: clean value everywhere, one-vote overstatement at every int(1/rate_1)-th position from 0,
   two-vote overstatement (value 0) at every int(1/rate_2)-th, the latter winning; rate None / 0 places nothing *)
Theorem gen_fss_layout a r1 r2 pop m n :
  a_type a <> Polling -> a_margin a = Some m -> cN (a_cfg a) = Some n -> gen_fss_population a r1 r2 = Ok pop ->
  let N := Z.to_nat n in
  let big := make_overstatement (a_ub a) m 0 in
  let small := make_overstatement (a_ub a) m (1 # 2) in
  let r1' := Some (match r1 with Some r => r | None => (1 - m) / 2 end) in
  length pop = N /\
  forall i d, (i < N)%nat -> nth i pop d = if rate_hit r2 i then 0 else if rate_hit r1' i then small else big.
Proof. rewrite gen_fss_population_is_model. apply asn_population_layout. Qed.

(* polling: 0 for tally[loser] cards, u for tally[winner] cards, 1/2 for the rest, interleaved *)
Theorem gen_fss_polling a r1 r2 pop n :
  a_type a = Polling -> cN (a_cfg a) = Some n -> gen_fss_population a r1 r2 = Ok pop ->
  let N := Z.to_nat n in
  exists n0 nb tags, a_tally a = Some (n0, nb) /\ (n0 + nb <= N)%nat /\
    pop = map (tag_value 0 (1 # 2) (a_ub a)) tags /\ length tags = N /\
    count_tag TSmall tags = n0 /\ count_tag TMed tags = (N - n0 - nb)%nat /\ count_tag TBig tags = nb.
Proof.
  rewrite gen_fss_population_is_model. intros Ht Hn Hp N.
  destruct (asn_population_polling a r1 r2 pop n Ht Hn Hp) as (n0 & nb & tags & H1 & H2 & _ & H4 & H5 & H6 & H7 & H8).
  exists n0, nb, tags. repeat split; assumption.
Qed.

(* the estimate is the first crossing of the assertion's own test on that population *)
Theorem gen_fss_first_crossing sqrtq draws quantile a r1 r2 prefix q k n :
  cN (a_cfg a) = Some n -> gen_fss_tail sqrtq draws quantile a None r1 r2 None prefix q = Ok k ->
  exists pop, gen_fss_population a r1 r2 = Ok pop /\ length pop = Z.to_nat n /\
    let h := hist sqrtq (a_cfg a) pop in
    (is_first_crossing (a_alpha a) h k \/ (never_crosses (a_alpha a) h /\ k = Z.to_nat n)).
Proof.
  rewrite gen_fss_is_model. intros Hn H.
  destruct (asn_find_first_crossing sqrtq draws quantile a r1 r2 prefix q k n Hn H) as (pop & Hp & Hl & _ & Hc).
  exists pop. rewrite gen_fss_population_is_model. auto.
Qed.

(* ===================================================================== Contest / Audit .find_sample_size *)
Theorem gen_cfs_is_model sqrtq draws quantile asns r1 r2 reps q :
  gen_cfs_tail sqrtq draws quantile asns r1 r2 reps q = contest_find sqrtq draws quantile asns r1 r2 reps q.
Proof. reflexivity. Qed.

(* a contest's estimate is the largest of ALL its assertions' estimates (no assertion is skipped) *)
Theorem gen_cfs_max sqrtq draws quantile asns r1 r2 reps q M :
  gen_cfs_tail sqrtq draws quantile asns r1 r2 reps q = Ok M <->
  exists ks, Forall2 (fun ad k => asn_find sqrtq draws quantile (fst ad) (snd ad) r1 r2 reps false q = Ok k) asns ks
             /\ M = list_max ks.
Proof. rewrite gen_cfs_is_model. apply contest_max. Qed.

Theorem gen_afs_is_model sqrtq draws quantile asns r1 r2 reps q :
  gen_afs_contest sqrtq draws quantile asns r1 r2 reps q = audit_contest_find sqrtq draws quantile asns r1 r2 reps q
  /\ forall sizes, gen_afs_total_nostyle sizes = audit_total_nostyle sizes.
Proof. split; reflexivity. Qed.
