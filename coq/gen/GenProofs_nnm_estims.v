(* GenProofs_nnm_estims.v — lemmas re-checked on every run against Gen_arith.v regenerated from the WHOLE bodies of
   sjm, welford_mean_var, fixed_alternative_mean, shrink_trunc, agrapa and fixed_bet (harness/genarith.py, group
   nnm_estims): every statement is matched against a skeleton of exact texts and the arithmetic of each estimator /
   bet is translated.  The hand model's sequential machines use exactly the generated expressions (the shift by one
   position that np.insert(...)[0:-1] implements is the machines' "output before step"; that part is tied by the
   correspondence runs), and the C13 range facts hold of the generated text. *)
From SV Require Import Xq NNM NNM_machines NNM_ranges.
From SVG Require Import Gen_arith.
Open Scope Q_scope.

Lemma gen_estim_skeletons_matched :
  gen_sjm_skeleton_matched && gen_welford_skeleton_matched && gen_fixedalt_skeleton_matched && gen_shrink_skeleton_matched
  && gen_agrapa_skeleton_matched && gen_fixedbet_skeleton_matched = true.
Proof. reflexivity. Qed.

(* Welford's recursion: the model's step is the generated update of the mean and of the sum of squares *)
Lemma gen_welford_is_model w x :
  w_mean (wstep w x) = Qred (gen_welford_mean (w_mean w) x (qz (w_k w + 1)))
  /\ w_m2 (wstep w x) = Qred (gen_welford_m2 (w_m2 w) x (w_mean w) (w_mean (wstep w x))).
Proof. split; reflexivity. Qed.

Lemma gen_fixedalt_is_model N u eta s :
  m_out (fixed_alt_machine N u eta) s = gen_fixedalt_out u (mu_at N eta (fst s) (snd s)).
Proof. reflexivity. Qed.

Lemma gen_shrink_is_model sqrtq N t u eta c d f minsd s :
  shrink_out sqrtq N t u eta c d f minsd s =
  (let S := fst (fst s) in let j := snd (fst s) in
   let sd := if (j <=? 2)%Z then 1 else Qmaxb (sqrtq (w_var (snd s))) minsd in
   Qred (gen_shrink_out u (gen_shrink_weighted d eta S (qz j) u f sd) (mu_at N t S j) c (sqrtq (d + qz j - 1)))).
Proof. reflexivity. Qed.

Lemma gen_agrapa_raw_is_model tadj mean var :
  Qeq_bool (var + (tadj - mean) * (tadj - mean)) 0 = false -> agrapa_raw tadj mean var = gen_agrapa_raw mean tadj var.
Proof. intro H. unfold agrapa_raw. cbv zeta. rewrite H. reflexivity. Qed.
Lemma sq_nonneg (x : Q) : 0 <= x * x.
Proof. destruct (Qlt_le_dec x 0) as [H|H]; nra. Qed.
(* the code's `lamj[np.isnan(lamj)] = 0`: the denominator vanishes only when variance = 0 and mean = t_adj, i.e. 0/0 *)
Lemma gen_agrapa_raw_nan tadj mean var : 0 <= var ->
  Qeq_bool (var + (tadj - mean) * (tadj - mean)) 0 = true -> mean - tadj == 0 /\ agrapa_raw tadj mean var = 0.
Proof.
  intros Hv H. split.
  - apply Qeq_bool_iff in H. assert (H0 : 0 <= (tadj - mean) * (tadj - mean)) by apply sq_nonneg.
    assert (Hsq : (tadj - mean) * (tadj - mean) == 0) by lra.
    destruct (Qmult_integral _ _ Hsq); lra.
  - unfold agrapa_raw. cbv zeta. now rewrite H.
Qed.
Lemma gen_agrapa_out_is_model sqrtq N t lam c0 cmax cgrow s :
  let S := fst (fst (fst s)) in let j := snd (fst (fst s)) in
  Qeq_bool (mu_at N t S j) 0 = false ->
  agrapa_out sqrtq N t lam c0 cmax cgrow s =
  Qred (gen_agrapa_cap (gen_agrapa_c c0 cmax cgrow (sqrtq (qz (j - 1)))) (mu_at N t S j)
          (if (j <=? 1)%Z then lam else agrapa_raw (snd (fst s)) (w_mean (snd s)) (w_var (snd s)))).
Proof. cbv zeta. intro H. unfold agrapa_out. cbv zeta. rewrite H. reflexivity. Qed.

(* C13 on the generated text: ranges of the shipped estimators and of the aGRAPA bet *)
Theorem gen_fixedalt_range u m : 0 <= u -> 0 <= gen_fixedalt_out u m <= u.
Proof. intro H. unfold gen_fixedalt_out. now apply clipq_range. Qed.
Theorem gen_shrink_range u w m c sq : 0 <= u -> 0 <= m + c / sq -> 0 <= gen_shrink_out u w m c sq <= u.
Proof.
  intros Hu Hm. unfold gen_shrink_out, mkq.
  assert (He : 0 <= u * (1 - eps_np) <= u).
  { assert (0 < eps_np < 1) by (unfold eps_np, mkq; split; reflexivity). nra. }
  split.
  - apply Qminb_glb; [lra|]. eapply Qle_trans; [exact Hm|apply Qmaxb_ge_r].
  - eapply Qle_trans; [apply Qminb_le_l|lra].
Qed.
Theorem gen_shrink_above_mu u w m c sq : 0 < c / sq -> m + c / sq <= u * (1 - eps_np) -> m < gen_shrink_out u w m c sq.
Proof.
  intros Hc Hm. unfold gen_shrink_out, mkq.
  apply Qminb_glb_lt; [lra|]. eapply Qlt_le_trans; [|apply Qmaxb_ge_r]. lra.
Qed.
Theorem gen_agrapa_range c tadj l : 0 < tadj -> 0 <= c -> 0 <= gen_agrapa_cap c tadj l <= c / tadj.
Proof.
  intros Ht Hc. unfold gen_agrapa_cap, mkq. assert (0 <= c / tadj) by (apply div_nonneg; lra).
  split; [apply Qmaxb_ge_l|]. apply Qmaxb_lub; [auto|apply Qminb_le_l].
Qed.
Theorem gen_agrapa_c_range c0 cmax cgrow sq : 0 <= c0 <= cmax -> 0 <= cgrow -> 0 <= sq ->
  c0 <= gen_agrapa_c c0 cmax cgrow sq <= cmax.
Proof.
  intros Hc Hg Hs. unfold gen_agrapa_c, mkq.
  assert (H1 : 0 < 1 + cgrow * sq) by nra.
  assert (H2 : 0 < 1 / (1 + cgrow * sq) <= 1).
  { split; [apply div_pos; lra|]. apply Qle_shift_div_r; auto. nra. }
  nra.
Qed.
