(* GenProofs_nnm_masks.v — lemmas re-checked on every run against Gen_arith.v regenerated from the WHOLE bodies of
   alpha_mart, betting_mart, kaplan_kolmogorov, kaplan_markov, kaplan_wald and wald_sprt (harness/genarith.py, group
   nnm_masks): every statement of those functions is matched against a skeleton of exact texts; the boolean-mask
   assignments `terms[<mask>] = 0 | 1 | np.inf` (the boundary conventions of C11/C12: p = 1 where the null mean is
   above u or within tolerance of 0 / u or the product vanishes, p = 0 once the total exceeds N t) and the clamp of
   the alternative to [m, u] are translated entry-wise.  An added guard, a reordered, changed or missing line is a
   refusal of the translator, i.e. a broken proof obligation. *)
From SV Require Import Xq NNM NNM_machines NNM_ranges NNM_spec NNM_hist NNM_wf NNM_prefix NNM_kaplan.
From SVG Require Import Gen_arith.
Open Scope Q_scope.

(* the hand model applies exactly the generated per-entry overrides, in the generated order *)
Lemma gen_alpha_override_is_model u m tm : gen_alpha_override u m tm = override_entry u m tm.
Proof. reflexivity. Qed.
Lemma gen_betting_override_is_model u m tm : gen_betting_override u m tm = override_entry u m tm.
Proof. reflexivity. Qed.
Lemma gen_alpha_override_steps_is_5 : gen_alpha_override_steps = 5%nat /\ gen_betting_override_steps = 5%nat.
Proof. split; reflexivity. Qed.
Lemma gen_alpha_clamp_is_model u est m : gen_alpha_clamp u est m = clamp_eta u est m.
Proof. reflexivity. Qed.
Lemma gen_kk_ratio_fix_is_model xg m : kk_ratio xg m = gen_kk_ratio_fix xg m (xdiv (Fin xg) (Fin m)).
Proof. reflexivity. Qed.
Lemma gen_kk_override_is_model xg m tm : gen_kk_override xg m tm = kk_override xg m tm.
Proof. reflexivity. Qed.

(* the WHOLE of each test after its factors, line for line: the hand model is the regenerated data flow *)
Lemma gen_alpha_tail_is_model sqrtq e N t u xs :
  alpha_mart sqrtq e N t u xs
  = gen_alpha_tail N t u xs (mu_list N t xs)
      (map3 (alpha_factor u) xs (map2 (fun est m => gen_alpha_clamp u est m) (run_estim sqrtq e N t u xs) (mu_list N t xs))
            (mu_list N t xs)).
Proof. reflexivity. Qed.
Lemma gen_betting_tail_is_model sqrtq b N t u xs :
  betting_mart sqrtq b N t u xs
  = gen_betting_tail N t u xs (mu_list N t xs) (map3 betting_factor xs (run_bet sqrtq b N t u xs) (mu_list N t xs)).
Proof. reflexivity. Qed.
Lemma gen_kk_tail_is_model g ro n t xs :
  kaplan_kolmogorov g ro n t xs
  = gen_kk_tail ro (map (fun x => x + g) xs) (mu_list (Some n) (t + g) (map (fun x => x + g) xs)).
Proof. reflexivity. Qed.
Lemma gen_km_tail_is_model g ro t xs :
  kaplan_markov g ro t xs = gen_km_tail ro (map (fun x => xdiv (Fin (t + g)) (Fin (x + g))) xs).
Proof. reflexivity. Qed.
Lemma gen_kw_tail_is_model g ro t xs :
  kaplan_wald g ro t xs = gen_kw_tail ro (map (fun x => Fin ((1 - g) * x / t + g)) xs).
Proof. reflexivity. Qed.
Lemma gen_sprt_tail_is_model sqrtq eta ro N t u xs :
  wald_sprt sqrtq eta ro N t u xs = gen_sprt_tail ro (alpha_mart sqrtq (EFixed eta) N t u xs).
Proof. reflexivity. Qed.
Lemma gen_skeletons_matched :
  gen_alpha_skeleton_matched && gen_betting_skeleton_matched && gen_kk_skeleton_matched && gen_km_skeleton_matched
  && gen_kw_skeleton_matched && gen_sprt_skeleton_matched = true.
Proof. reflexivity. Qed.

(* the absorbing lines are invisible on exact products (they only matter once the float product has overflowed) *)
Theorem gen_kw_absorb_invisible g ro t xs :
  gen_kw_tail ro (map (fun x => Fin ((1 - g) * x / t + g)) xs)
  = (let hist := xcumprod (Fin 1) (map (fun x => Fin ((1 - g) * x / t + g)) xs) in
     (xmin_np (Fin 1) (if ro then xinv (xmax_list hist) else xinv (xlast hist)), map (fun h => xmin_np (xinv h) (Fin 1)) hist)).
Proof. unfold gen_kw_tail. cbv zeta. now rewrite NNM_kaplan.kw_absorb_id. Qed.
Theorem gen_km_absorb_invisible g ro t xs : 0 < t + g -> Forall (fun x => 0 <= x + g) xs ->
  gen_km_tail ro (map (fun x => xdiv (Fin (t + g)) (Fin (x + g))) xs)
  = (let hist := xcumprod (Fin 1) (map (fun x => xdiv (Fin (t + g)) (Fin (x + g))) xs) in
     (xmin_np (Fin 1) (if ro then xmin_list hist else xlast hist), map (fun h => xmin_np h (Fin 1)) hist)).
Proof. intros H1 H2. unfold gen_km_tail. cbv zeta. now rewrite (NNM_kaplan.km_absorb_id g t xs H1 H2). Qed.

(* what the generated conventions mean (C12: "p = 0 once the observed total exceeds N t and p = 1 where mu_i > u";
   C11: entries are well formed whatever the running product is) *)
Theorem gen_override_total_exceeded u m tm : m < 0 -> gen_alpha_override u m tm = PInf /\ gen_betting_override u m tm = PInf.
Proof.
  intro H. change (override_entry u m tm = PInf /\ override_entry u m tm = PInf).
  unfold override_entry. cbv zeta. assert (E : Qlt_bool m 0 = true) by (apply Qlt_bool_iff; auto). rewrite E. auto.
Qed.
Theorem gen_override_above_u u m tm : 0 < u -> u <= m -> gen_alpha_override u m tm = Fin 1 /\ gen_betting_override u m tm = Fin 1.
Proof.
  intros Hu H. change (override_entry u m tm = Fin 1 /\ override_entry u m tm = Fin 1).
  rewrite (override_deadhigh u m tm Hu H). auto.
Qed.
Theorem gen_override_inside u m T : 0 < m -> m < u ->
  gen_alpha_override u m (Fin T) = spec_entry u m T Alive /\ gen_betting_override u m (Fin T) = spec_entry u m T Alive.
Proof.
  intros H0 H1.
  change (override_entry u m (Fin T) = spec_entry u m T Alive /\ override_entry u m (Fin T) = spec_entry u m T Alive).
  rewrite (override_alive u m T H0 H1). auto.
Qed.
Theorem gen_clamp_range u est m : m <= u -> m <= gen_alpha_clamp u est m <= u.
Proof. intro H. rewrite gen_alpha_clamp_is_model. now apply clamp_eta_range. Qed.
Theorem gen_kk_override_exceeded xg m tm : m < 0 \/ (m == 0 /\ 0 < xg) -> gen_kk_override xg m tm = PInf.
Proof.
  intro H. rewrite gen_kk_override_is_model. unfold kk_override.
  destruct H as [H|[H1 H2]].
  - assert (E : Qlt_bool m 0 = true) by (apply Qlt_bool_iff; auto). now rewrite E.
  - assert (E1 : Qeq_bool m 0 = true) by (apply Qeq_bool_iff; auto).
    assert (E2 : Qlt_bool 0 xg = true) by (apply Qlt_bool_iff; auto).
    rewrite E1, E2. now rewrite orb_true_r.
Qed.
