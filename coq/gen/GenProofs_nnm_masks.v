(* GenProofs_nnm_masks.v — lemmas re-checked on every run against Gen_arith.v regenerated from the WHOLE bodies of
   alpha_mart, betting_mart, kaplan_kolmogorov, kaplan_markov, kaplan_wald and wald_sprt (harness/genarith.py, group
   nnm_masks): every statement of those functions is matched against a skeleton of exact texts; the boolean-mask
   assignments `terms[<mask>] = 0 | 1 | np.inf` (the boundary conventions of C11/C12: p = 1 where the null mean is
   above u or within tolerance of 0 / u or the product vanishes, p = 0 once the total exceeds N t) and the clamp of
   the alternative to [m, u] are translated entry-wise.  An added guard, a reordered, changed or missing line is a
   refusal of the translator, i.e. a broken proof obligation. *)
From SV Require Import Xq NNM NNM_ranges NNM_spec NNM_hist.
From SVG Require Import Gen_arith.
Open Scope Q_scope.

(* the hand model applies exactly the generated per-entry overrides, in the generated order *)
Lemma gen_alpha_override_is_model u m tm : gen_alpha_override u m tm = override_entry u m tm.
Proof. reflexivity. Qed.
Lemma gen_betting_override_is_model u m tm : gen_betting_override u m tm = override_entry u m tm.
Proof. reflexivity. Qed.
Lemma gen_alpha_override_steps_is_5 : gen_alpha_override_steps = 5%nat /\ gen_betting_override_steps = 5%nat.
Proof. split; reflexivity. Qed.
Lemma gen_alpha_clamp_is_model u est m : gen_alpha_clamp u est m = clamp_eta u est m.
Proof. reflexivity. Qed.
Lemma gen_kk_ratio_fix_is_model x g m : kk_ratio (x + g) m = gen_kk_ratio_fix x g m (xdiv (Fin (x + g)) (Fin m)).
Proof. reflexivity. Qed.
Lemma gen_kk_override_is_model x g m tm : gen_kk_override x g m tm = kk_override (x + g) m tm.
Proof. reflexivity. Qed.
Lemma gen_skeletons_matched :
  gen_alpha_skeleton_matched && gen_betting_skeleton_matched && gen_kk_skeleton_matched && gen_km_skeleton_matched
  && gen_kw_skeleton_matched && gen_sprt_skeleton_matched = true.
Proof. reflexivity. Qed.

(* what the generated conventions mean (C12: "p = 0 once the observed total exceeds N t and p = 1 where mu_i > u";
   C11: entries are well formed whatever the running product is) *)
Theorem gen_override_total_exceeded u m tm : m < 0 -> gen_alpha_override u m tm = PInf /\ gen_betting_override u m tm = PInf.
Proof.
  intro H. change (override_entry u m tm = PInf /\ override_entry u m tm = PInf).
  unfold override_entry. cbv zeta. assert (E : Qlt_bool m 0 = true) by (apply Qlt_bool_iff; auto). rewrite E. auto.
Qed.
Theorem gen_override_above_u u m tm : 0 < u -> u <= m -> gen_alpha_override u m tm = Fin 1 /\ gen_betting_override u m tm = Fin 1.
Proof.
  intros Hu H. change (override_entry u m tm = Fin 1 /\ override_entry u m tm = Fin 1).
  rewrite (override_deadhigh u m tm Hu H). auto.
Qed.
Theorem gen_override_inside u m T : 0 < m -> m < u ->
  gen_alpha_override u m (Fin T) = spec_entry u m T Alive /\ gen_betting_override u m (Fin T) = spec_entry u m T Alive.
Proof.
  intros H0 H1.
  change (override_entry u m (Fin T) = spec_entry u m T Alive /\ override_entry u m (Fin T) = spec_entry u m T Alive).
  rewrite (override_alive u m T H0 H1). auto.
Qed.
Theorem gen_clamp_range u est m : m <= u -> m <= gen_alpha_clamp u est m <= u.
Proof. intro H. rewrite gen_alpha_clamp_is_model. now apply clamp_eta_range. Qed.
Theorem gen_kk_override_exceeded x g m tm : m < 0 \/ (m == 0 /\ 0 < x + g) -> gen_kk_override x g m tm = PInf.
Proof.
  intro H. rewrite gen_kk_override_is_model. unfold kk_override.
  destruct H as [H|[H1 H2]].
  - assert (E : Qlt_bool m 0 = true) by (apply Qlt_bool_iff; auto). now rewrite E.
  - assert (E1 : Qeq_bool m 0 = true) by (apply Qeq_bool_iff; auto).
    assert (E2 : Qlt_bool 0 (x + g) = true) by (apply Qlt_bool_iff; auto).
    rewrite E1, E2. now rewrite orb_true_r.
Qed.
