(* GenProofs_tree_skeletons.v — lemmas re-checked on every run of C19 / C20 against Gen_arith.v regenerated from /repo's
   shangrla/core/IRVVisualisationUtils.py (buildRemainingTreeAsLists, parseAssertions, treeListToTuple, buildConfTag) and
   shangrla/formats/Dominion.py (read_cvrs, read_cvrs_directory): group "tree_skeletons" of harness/genarith.py, targets in
   harness/gen_targets_tree_skeletons.py.  If any statement of these functions changes, Gen_arith.v is not produced at all
   (fail-closed translator) and every obligation below counts as broken.  The generated `tail`s are the line-by-line Gallina
   reading of the decisive statements; here each is proved equal to the definition the hand models use, and the property
   theorems are restated on the generated definitions. *)
From Coq Require Import ZArith List Bool Lia Permutation.
From SV Require Import IrvVis IrvVis_proofs DominionCvr DominionCvr_proofs.
From SVG Require Import Gen_arith.
Import ListNotations.
Open Scope Z_scope.

(* ================================================================== buildRemainingTreeAsLists *)
(* the two pruning loops: flag := flag or (some assertion fires); tags := tags ++ [(index, proved) of each that fires] *)
Lemma neb_loop c S WO0 : forall WO p tags,
  fold_left (fun (st : bool * list (nat * bool)) (loser : Z * Z * bool) =>
               if (c =? fst (fst loser)) && IrvVis.memZ (snd (fst loser)) S
               then (true, snd st ++ [(index_of neb_eqb loser WO0, snd loser)]) else st) WO (p, tags) =
  (p || existsb (neb_fires c S) WO,
   tags ++ map (fun a => (index_of neb_eqb a WO0, neb_proved a)) (filter (neb_fires c S) WO)).
Proof.
  induction WO as [|[[l w] b] r IH]; intros p tags; simpl.
  - rewrite orb_false_r, app_nil_r. reflexivity.
  - destruct ((c =? l) && IrvVis.memZ w S); simpl.
    + rewrite IH. rewrite orb_true_r. simpl. rewrite <- app_assoc. reflexivity.
    + apply IH.
Qed.
Lemma nen_loop c S IRV0 : forall IRV p tags,
  fold_left (fun (st : bool * list (nat * bool)) (winner : Z * list Z * bool) =>
               if (c =? fst (fst winner)) && seteqZ (snd (fst winner)) S
               then (true, snd st ++ [(index_of nen_eqb winner IRV0, snd winner)]) else st) IRV (p, tags) =
  (p || existsb (nen_fires c S) IRV,
   tags ++ map (fun a => (index_of nen_eqb a IRV0, nen_proved a)) (filter (nen_fires c S) IRV)).
Proof.
  induction IRV as [|[[x E] b] r IH]; intros p tags; simpl.
  - rewrite orb_false_r, app_nil_r. reflexivity.
  - destruct ((c =? x) && seteqZ E S); simpl.
    + rewrite IH. rewrite orb_true_r. simpl. rewrite <- app_assoc. reflexivity.
    + apply IH.
Qed.

Lemma gen_build_tail_eq rec WO IRV c S :
  gen_build_tail rec WO IRV c S =
  if fires_at WO IRV c S then Leaf c (neb_tags WO c S) (nen_tags IRV c S)
  else match S with
       | [] => Leaf c [] []
       | _ => Node c (map (fun c2 => rec c2 (remove Z.eq_dec c2 S)) S)
       end.
Proof.
  unfold gen_build_tail. cbv zeta. rewrite neb_loop. cbn [fst snd app orb]. rewrite nen_loop. cbn [fst snd app orb].
  unfold fires_at, neb_tags, nen_tags.
  destruct (existsb (neb_fires c S) WO || existsb (nen_fires c S) IRV); [reflexivity|].
  destruct S; reflexivity.
Qed.

(* one node of the hand model IS the regenerated node step applied to the model's own recursive call *)
Theorem gen_build_step_is_model fuel WO IRV c S :
  build (Datatypes.S fuel) WO IRV c S = gen_build_tail (build fuel WO IRV) WO IRV c S.
Proof. rewrite build_eq, gen_build_tail_eq. reflexivity. Qed.

Lemma remove_shorter (x : Z) l : In x l -> (length (remove Z.eq_dec x l) < length l)%nat.
Proof.
  induction l as [|y r IH]; simpl; intro H; [contradiction|].
  destruct (Z.eq_dec x y) as [E|E].
  - pose proof (remove_length_le Z.eq_dec r x). lia.
  - destruct H as [H|H]; [congruence|]. simpl. apply IH in H. lia.
Qed.

(* the whole regenerated construction is the hand model's tree whenever the fuel covers |S| (build_tree uses fuel = |S|) *)
Theorem gen_build_is_model WO IRV : forall fuel c S, (length S <= fuel)%nat ->
  gen_build fuel WO IRV c S = build fuel WO IRV c S.
Proof.
  induction fuel as [|f IH]; intros c S Hl.
  - destruct S; [|simpl in Hl; lia]. cbn [gen_build]. rewrite gen_build_tail_eq, build_eq. reflexivity.
  - cbn [gen_build]. rewrite gen_build_tail_eq, build_eq.
    destruct (fires_at WO IRV c S); [reflexivity|]. destruct S as [|s0 S']; [reflexivity|].
    f_equal. apply map_ext_in. intros c2 Hc2. apply IH.
    pose proof (remove_shorter c2 (s0 :: S') Hc2). lia.
Qed.

(* C20 restated on the regenerated construction *)
Theorem gen_build_unpruned_iff WO IRV c S : NoDup S ->
  (has_unpruned_leaf (gen_build (length S) WO IRV c S) = true <->
   exists pi, Permutation pi S /\ uncontradicted WO IRV (pi ++ [c])).
Proof. intro H. rewrite gen_build_is_model by lia. apply (unpruned_iff WO IRV c S H). Qed.

(* a node of the regenerated construction is pruned exactly when an assertion is contradicted at it (NEB: c is the
   loser and the winner is among the candidates eliminated earlier; NEN: c with exactly S eliminated) *)
Theorem gen_build_prunes_iff rec WO IRV c S :
  (exists nt it, gen_build_tail rec WO IRV c S = Leaf c nt it /\ (nt <> [] \/ it <> [])) <->
  ((exists l w b, In (l, w, b) WO /\ l = c /\ In w S) \/ (exists x E b, In (x, E, b) IRV /\ x = c /\ forall y, In y E <-> In y S)).
Proof.
  rewrite gen_build_tail_eq. split.
  - intros [nt [it [Heq Hne]]]. destruct (fires_at WO IRV c S) eqn:Hf.
    + unfold fires_at in Hf. apply orb_true_iff in Hf. destruct Hf as [Hf|Hf]; apply existsb_exists in Hf; destruct Hf as [a [Ha Hfa]].
      * left. destruct a as [[l w] b]. simpl in Hfa. apply andb_true_iff in Hfa. destruct Hfa as [H1 H2].
        apply Z.eqb_eq in H1. apply IrvVis_proofs.memZ_In in H2. exists l, w, b. auto.
      * right. destruct a as [[x E] b]. simpl in Hfa. apply andb_true_iff in Hfa. destruct Hfa as [H1 H2].
        apply Z.eqb_eq in H1. rewrite seteqZ_iff in H2. exists x, E, b. auto.
    + exfalso. destruct S; [|discriminate]. injection Heq as <- <-. destruct Hne as [Hne|Hne]; apply Hne; reflexivity.
  - intro H. assert (Hf : fires_at WO IRV c S = true).
    { unfold fires_at. apply orb_true_iff. destruct H as [[l [w [b [Hin [-> Hw]]]]] | [x [E [b [Hin [-> HE]]]]]]; [left | right];
        apply existsb_exists.
      - exists (c, w, b). split; auto. simpl. rewrite Z.eqb_refl. apply IrvVis_proofs.memZ_In. exact Hw.
      - exists (c, E, b). split; auto. simpl. rewrite Z.eqb_refl. apply seteqZ_iff. exact HE. }
    rewrite Hf. exists (neb_tags WO c S), (nen_tags IRV c S). split; auto.
    pose proof (fire_tags WO IRV c S Hf) as Ht.
    destruct (neb_tags WO c S); [|left; discriminate]. destruct (nen_tags IRV c S); [discriminate | right; discriminate].
Qed.

(* ================================================================== parseAssertions *)
(* the body of the loop over the assertions is `classify` (IrvVis_proofs.v): what the k-th assertion contributes *)
Theorem gen_parse_is_classify rla a d WO IRV :
  gen_parse_tail rla a d (WO, IRV) = (WO ++ fst (classify rla a d), IRV ++ snd (classify rla a d)).
Proof.
  unfold gen_parse_tail, classify, proved_of. destruct d as [d|]; [destruct (d_type d) as [[| |]|]|];
    destruct rla, (a_proved a); simpl; rewrite ?app_nil_r; reflexivity.
Qed.

(* ... and the hand model's loop is the iteration of the regenerated body with the positional index *)
Theorem gen_parse_step_is_model rla ajson i a r WO IRV :
  parse_loop rla ajson i (a :: r) WO IRV =
  let acc := gen_parse_tail rla a (nth_error ajson i) (WO, IRV) in parse_loop rla ajson (S i) r (fst acc) (snd acc).
Proof.
  rewrite gen_parse_is_classify. cbn [fst snd parse_loop]. unfold classify.
  destruct (nth_error ajson i) as [d|]; [destruct (d_type d) as [[| |]|]|]; simpl; rewrite ?app_nil_r; reflexivity.
Qed.

(* the tuples: WINNER_ONLY gives (loser, winner, proved) — "winner is never eliminated before loser";
   IRV_ELIMINATION gives (winner, already_eliminated, proved) *)
Theorem gen_parse_tuples rla a w l E ty :
  gen_parse_tail rla a (Some (mkAdetail (Some ty) w l E)) ([], []) =
  match ty with
  | TWinnerOnly => ([(l, w, proved_of rla (a_proved a))], [])
  | TIrvElim => ([], [(w, E, proved_of rla (a_proved a))])
  | TOtherType => ([], [])
  end.
Proof. unfold gen_parse_tail, proved_of. simpl. destruct ty, rla, (a_proved a); reflexivity. Qed.

(* ================================================================== treeListToTuple / buildConfTag *)
Theorem gen_totuple_is_model c nt it : gen_totuple_tail c nt it = tree_to_tuple (Leaf c nt it).
Proof. destruct nt, it; reflexivity. Qed.

Theorem gen_conftag_is_model l : gen_conftag_tail l = conf_tag l.
Proof.
  unfold gen_conftag_tail, conf_tag.
  assert (H : forall acc, fold_left (fun acc b => acc || snd b) l acc = acc || existsb snd l).
  { induction l as [|x r IH]; intro acc; simpl; [rewrite orb_false_r; reflexivity|]. rewrite IH, orb_assoc. reflexivity. }
  apply (H false).
Qed.

(* the marker is shown exactly for a leaf without tags *)
Theorem gen_totuple_unpruned c nt it :
  match gen_totuple_tail c nt it with RLeaf _ tg => t_unpruned tg | RNode _ _ => false end = has_unpruned_leaf (Leaf c nt it).
Proof. destruct nt, it; reflexivity. Qed.

(* ================================================================== Dominion.read_cvrs *)
Theorem gen_readcvrs_keys_is_model cur : gen_readcvrs_keys cur = wanted_keys cur.
Proof. reflexivity. Qed.
Theorem gen_readcvrs_selector_is_model b : gen_readcvrs_selector b = selector b.
Proof. destruct b; reflexivity. Qed.
Theorem gen_readcvrs_mark_is_model e d m : gen_readcvrs_mark e d m = mark_step e d m.
Proof. reflexivity. Qed.
Theorem gen_readcvrs_record_id_is_model s : gen_readcvrs_record_id (s_rec s) (s_mask s) = record_id s.
Proof. unfold gen_readcvrs_record_id, record_id. destruct (s_rec s), (s_mask s); reflexivity. Qed.
Theorem gen_readcvrs_skip_is_model o s : gen_readcvrs_skip (o_include o) (s_group s) = skipped o s.
Proof. unfold gen_readcvrs_skip, skipped. destruct (o_include o); reflexivity. Qed.
Theorem gen_readcvrs_record_is_model o s : gen_readcvrs_record (o_pool o) s (session_votes o s) = mk_record o s.
Proof. unfold gen_readcvrs_record, mk_record. rewrite gen_readcvrs_record_id_is_model. reflexivity. Qed.

Theorem gen_readdir_is_model o files : gen_readdir_tail (read_cvrs o) files = read_cvrs_directory o files.
Proof.
  unfold gen_readdir_tail, read_cvrs_directory.
  assert (H : forall acc, fold_left (fun l f => l ++ read_cvrs o f) files acc = acc ++ flat_map (read_cvrs o) files).
  { induction files as [|f r IH]; intro acc; simpl; [rewrite app_nil_r; reflexivity|]. rewrite IH, app_assoc. reflexivity. }
  apply (H []).
Qed.

(* C19 restated on the regenerated statements *)
(* Original is looked at first and Modified second whatever the key order in the file (defect #18 was exactly this line) *)
Theorem gen_readcvrs_modified_after_original :
  gen_readcvrs_keys true = [KOriginal; KModified] /\ gen_readcvrs_keys false = [KOriginal].
Proof. split; reflexivity. Qed.

(* the value kept for a candidate after the regenerated mark loop: smallest non-zero rank of the counted marks *)
Theorem gen_readcvrs_min_rank e ms k :
  match dget k (fold_left (gen_readcvrs_mark e) ms []) with
  | None => ranks_of e k ms = []
  | Some v => ranks_of e k ms <> [] /\ is_min_rank (ranks_of e k ms) v
  end.
Proof. exact (contest_value e ms k). Qed.

Theorem gen_readcvrs_mark_order e ms ms' : Permutation ms ms' ->
  forall k, dget k (fold_left (gen_readcvrs_mark e) ms []) = dget k (fold_left (gen_readcvrs_mark e) ms' []).
Proof. exact (mark_order_invariant e ms ms'). Qed.

(* uncounted marks change nothing exactly when rules are enforced *)
Theorem gen_readcvrs_uncounted d m : m_isvote m = false ->
  gen_readcvrs_mark true d m = d /\ gen_readcvrs_mark false d m = gen_readcvrs_mark true d (force_vote m).
Proof.
  intro H. unfold gen_readcvrs_mark, force_vote. simpl. rewrite H. simpl. split; reflexivity.
Qed.

(* included / pooled exactly by membership of the counting group *)
Theorem gen_readcvrs_groups inc pool s votes :
  (gen_readcvrs_skip inc (s_group s) = false <-> (inc = [] \/ In (s_group s) inc)) /\
  (r_pool (gen_readcvrs_record pool s votes) = true <-> In (s_group s) pool).
Proof.
  split.
  - unfold gen_readcvrs_skip. destruct inc as [|g r]; simpl; [tauto|].
    rewrite negb_false_iff. change (DominionCvr.memZ (s_group s) (g :: r) = true <-> (g :: r = [] \/ In (s_group s) (g :: r))).
    rewrite DominionCvr_proofs.memZ_In. split; [auto | intros [H|H]; [discriminate | exact H]].
  - simpl. apply DominionCvr_proofs.memZ_In.
Qed.
