(* GenProofs_status_skeletons.v — lemmas re-checked on every run against Gen_arith.v regenerated from /repo's
   shangrla/core/Audit.py (group "status_skeletons", harness/gen_targets_status_skeletons.py): whole-function skeletons of
   Assertion.set_p_values, Audit.summarize_status, Assertion.reset_p_values and CVR.make_phantoms.  If any statement of
   these functions changes, Gen_arith.v is not produced at all (fail-closed translator) and every obligation below
   counts as broken.  The lemmas say that the line-by-line reading of the source (the gen_* definitions) IS the hand model
   of Status.v / Phantoms.v that the C08 / C09 theorems are about, and restate the decisive facts on the gen_* text. *)
From SV Require Import Xq Phantoms Phantoms_proofs Status Status_proofs.
From SVG Require Import Gen_arith.
Open Scope Q_scope.

(* ================================================================ Assertion.set_p_values *)
(* the inner loop of the model takes exactly the regenerated step *)
Theorem gen_setp_inner_step_is_model (test : Z -> Z -> option (Xq * list Xq)) ck limit a rest done pv pr mx :
  asn_loop test ck limit (a :: rest) (done, pv, pr, mx) =
  match test ck (a_key a) with
  | None => SErr SRaise
  | Some r => let '(a', (pv', pr', mx')) := gen_setp_asn_step limit r a (pv, pr, mx) in
              asn_loop test ck limit rest (a' :: done, pv', pr', mx')
  end.
Proof. reflexivity. Qed.

Theorem gen_setp_inner_init_is_model (test : Z -> Z -> option (Xq * list Xq)) c :
  set_contest test c =
  match asn_loop test (c_key c) (c_limit c) (c_asns c) (let '(pv, pr, mx) := gen_setp_contest_init in ([], pv, pr, mx)) with
  | SErr e => SErr e
  | SOk (done, pv, pr, mx) => SOk (mkcon (c_key c) (c_limit c) (rev done) pv pr mx)
  end.
Proof. reflexivity. Qed.

Theorem gen_setp_outer_step_is_model (test : Z -> Z -> option (Xq * list Xq)) c rest done p_max :
  con_loop test (c :: rest) (done, p_max) =
  match set_contest test c with
  | SErr e => SErr e
  | SOk c' => con_loop test rest (c' :: done, snd (gen_setp_contest_step p_max (c_maxp c')))
  end.
Proof. reflexivity. Qed.

Theorem gen_setp_outer_init_is_model (test : Z -> Z -> option (Xq * list Xq)) cs :
  set_p_values test true cs =
  match con_loop test cs ([], gen_setp_p_max_init) with
  | SErr e => SErr e
  | SOk (done, pmax) => SOk (rev done, pmax)
  end.
Proof. reflexivity. Qed.

(* the facts C09 rests on, on the regenerated step: what is recorded is what the test returned; proved is sticky and uses
   THIS contest's limit; the running maximum dominates (and NaN propagates) *)
Theorem gen_setp_step_records limit r a st :
  let a' := fst (gen_setp_asn_step limit r a st) in
  a_key a' = a_key a /\ a_p a' = fst r /\ a_hist a' = snd r /\ a_proved a' = (xle (fst r) (Fin limit) || a_proved a)%bool.
Proof. destruct st as [[pv pr] mx]. simpl. auto. Qed.

Theorem gen_setp_step_max limit r a pv pr mx L :
  let '(_, (_, _, mx')) := gen_setp_asn_step limit r a (pv, pr, mx) in
  xle mx' (Fin L) = (xle mx (Fin L) && xle (fst r) (Fin L))%bool /\ (fst r = NaN -> mx' = NaN) /\ (mx = NaN -> mx' = NaN).
Proof.
  simpl. split; [apply xle_xmax_np|]. split; intro H; rewrite H; [apply xmax_np_nan_r | apply xmax_np_nan_l].
Qed.

Theorem gen_setp_contest_step_max p_max m L :
  fst (gen_setp_contest_step p_max m) = m /\
  xle (snd (gen_setp_contest_step p_max m)) (Fin L) = (xle p_max (Fin L) && xle m (Fin L))%bool.
Proof. simpl. split; [reflexivity | apply xle_xmax_np]. Qed.

(* ================================================================ Audit.summarize_status *)
Theorem gen_sumst_is_model cs : summarize_status cs = gen_sumst_tail cs.
Proof. reflexivity. Qed.

Theorem gen_sumst_done_iff cs :
  (forall c, In c cs -> 0 <= c_limit c) ->
  (gen_sumst_tail cs = true <-> forall c, In c cs -> forall a, In a (c_asns c) -> xle (a_p a) (Fin (c_limit c)) = true).
Proof. intro H. rewrite <- gen_sumst_is_model. now apply done_iff. Qed.

(* one contest: complete exactly when the initial 0 and EVERY assertion's p-value (none skipped) is at most the contest's own limit *)
Theorem gen_sumst_contest_step_all done con :
  gen_sumst_contest_step done con = (done && forallb (fun a => xle (a_p a) (Fin (c_limit con))) (c_asns con) && xle (Fin 0) (Fin (c_limit con)))%bool.
Proof.
  unfold gen_sumst_contest_step.
  change (fold_left gen_sumst_asn_step (c_asns con) (Fin 0)) with (fold_left (fun m a => xmax_np m (a_p a)) (c_asns con) (Fin 0)).
  rewrite fold_left_map, xle_fold_xmax.
  assert (E : forallb (fun x => xle x (Fin (c_limit con))) (map a_p (c_asns con)) = forallb (fun a => xle (a_p a) (Fin (c_limit con))) (c_asns con)).
  { induction (c_asns con) as [|a l IH]; simpl; [reflexivity|]. now rewrite IH. }
  rewrite E. destruct (xle (Fin 0) (Fin (c_limit con))), (forallb _ (c_asns con)), done; reflexivity.
Qed.

(* ================================================================ Assertion.reset_p_values *)
Theorem gen_resetp_is_model cs : reset_p_values cs = gen_resetp_tail cs.
Proof. reflexivity. Qed.

Theorem gen_resetp_restores cs c' a' :
  In c' (fst (gen_resetp_tail cs)) -> In a' (c_asns c') ->
  a_p a' = Fin 1 /\ a_hist a' = [] /\ a_proved a' = false /\ c_maxp c' = Fin 1 /\ snd (gen_resetp_tail cs) = true.
Proof.
  simpl. intros Hc Ha. apply in_map_iff in Hc. destruct Hc as [c [<- _]]. simpl in Ha.
  apply in_map_iff in Ha. destruct Ha as [a [<- _]]. simpl. auto.
Qed.

(* ================================================================ CVR.make_phantoms *)
Open Scope Z_scope.
(* the first loop: con.cvrs and the defaulting of con.cards *)
Theorem gen_mp_params_is_model use_style max_cards cvrs kc :
  set_params use_style max_cards cvrs kc = mkcs (fst kc) (gen_mp_cards use_style max_cards (snd kc)) (gen_mp_cvrs (fst kc) cvrs).
Proof. reflexivity. Qed.

(* a card bound that is given is kept whenever style information is used, whatever its value (0 included) *)
Theorem gen_mp_cards_keeps_given_bound max_cards b : gen_mp_cards true max_cards (Some b) = Some b.
Proof. reflexivity. Qed.
Theorem gen_mp_cards_defaults use_style max_cards cards :
  gen_mp_cards use_style max_cards cards = if use_style then (match cards with Some b => Some b | None => max_cards end) else max_cards.
Proof. destruct use_style, cards; reflexivity. Qed.

Theorem gen_mp_phantom_is_model tp pool k : new_phantom tp pool k = gen_mp_phantom tp pool k.
Proof. reflexivity. Qed.
Theorem gen_mp_phantom_shape tp pool k :
  cphantom (gen_mp_phantom tp pool k) = true /\ ccontests (gen_mp_phantom tp pool k) = [] /\ cid (gen_mp_phantom tp pool k) = Phant k
  /\ ctally_pool (gen_mp_phantom tp pool k) = tp /\ cpool (gen_mp_phantom tp pool k) = pool.
Proof. repeat split. Qed.

Theorem gen_mp_while_is_model tp pool n phs : grow_n tp pool n phs = gen_mp_while tp pool n phs.
Proof. reflexivity. Qed.
Theorem gen_mp_list_contest_is_model n k phs : mark_first n k phs = gen_mp_list_contest n k phs.
Proof. reflexivity. Qed.
Theorem gen_mp_style_body_is_model tp pool phs k : style_step tp pool phs k = gen_mp_style_body tp pool phs k.
Proof. reflexivity. Qed.

(* the regenerated subtractions are the ones the model uses (the generated definitions are over Q) *)
Theorem gen_mp_needed_is_model (cards cvrs : Z) : (inject_Z (cards - cvrs) == gen_mp_needed (inject_Z cards) (inject_Z cvrs))%Q.
Proof. unfold gen_mp_needed. unfold Z.sub. rewrite inject_Z_plus, inject_Z_opp. ring. Qed.
Theorem gen_mp_nostyle_phantoms_is_model (mc n : Z) : (inject_Z (mc - n) == gen_mp_nostyle_phantoms (inject_Z mc) (inject_Z n))%Q.
Proof. unfold gen_mp_nostyle_phantoms. unfold Z.sub. rewrite inject_Z_plus, inject_Z_opp. ring. Qed.

(* whole function, no-style branch and style branch, in terms of the regenerated pieces *)
Theorem gen_mp_nostyle_is_model contests cvrs tp pool mc :
  make_phantoms [(false, Some mc)] contests cvrs tp pool =
  Ok (cvrs ++ gen_mp_nostyle_list tp pool (mc - Z.of_nat (length cvrs)), mc - Z.of_nat (length cvrs),
      map (fun kc => mkcs (fst kc) (gen_mp_cards false (Some mc) (snd kc)) (gen_mp_cvrs (fst kc) cvrs)) contests).
Proof. reflexivity. Qed.

(* consequences on the regenerated text: per-contest step creates max(0, needed - len) records, numbered on, and lists the
   contest on the first `needed` ones *)
Theorem gen_mp_style_body_counts tp pool phs k phs' :
  gen_mp_style_body tp pool phs k = Ok phs' ->
  exists b, cs_cards k = Some b
  /\ Z.of_nat (length phs') = Z.max (Z.of_nat (length phs)) (b - cs_cvrs k)
  /\ (ids_ok phs -> ids_ok phs')
  /\ (cl (cs_id k) phs = 0%nat -> Z.of_nat (cl (cs_id k) phs') = Z.max 0 (b - cs_cvrs k)).
Proof.
  rewrite <- gen_mp_style_body_is_model. intro H. apply style_step_spec in H.
  destruct H as [b [Hb [Hl [Hi [_ [_ Hc]]]]]]. exists b. auto.
Qed.
