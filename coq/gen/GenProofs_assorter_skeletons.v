(* GenProofs_assorter_skeletons.v — lemmas re-checked on every run against Gen_arith.v regenerated from /repo's
   shangrla/core/Audit.py (group "assorter_skeletons", harness/gen_targets_assorter_skeletons.py): whole-function
   skeletons of CVR.as_vote, CVR.get_vote_for, CVR.has_one_vote, Assertion.make_plurality_assertions,
   Assertion.make_supermajority_assertion, Assertion.make_all_assertions, Contest.tally and Assertion.find_margin_from_tally.
   If any statement of these functions changes, Gen_arith.v is not produced at all (fail-closed translator) and every
   obligation below counts as broken.  The first block proves that the line-by-line reading of the source (the tails)
   IS the hand model of Ballot.v / Assorter.v that property C02 is proved about; the second block ties the translated
   arithmetic (gen_fmt_pl / q / p / sm) to that model and restates the C02 facts on the generated definitions. *)
From SV Require Import Xq NNM Assorter Assorter_proofs.
From SVG Require Import Gen_arith.
Open Scope Q_scope.

(* ------------------------------------------------------------------ the tails are the hand model *)
Theorem gen_as_vote_is_model m : as_vote m = gen_as_vote_tail (truthy m).
Proof. reflexivity. Qed.

Theorem gen_get_vote_for_is_model c con x : get_vote_for c con x = gen_gvf_tail (c_votes c) con x.
Proof. reflexivity. Qed.

Theorem gen_has_one_vote_is_model c con cands : has_one_vote c con cands = gen_hov_tail (c_votes c) con cands.
Proof. unfold has_one_vote, gen_hov_tail. destruct (_ =? 1)%Z; reflexivity. Qed.

(* make_plurality_assertions: the assort lambda, its upper bound, and the (winner, loser) pairs *)
Theorem gen_plurality_assorter_is_model con w l c :
  assort_pl con w l c = gen_mpa_assort (as_vote (get_vote_for c con w)) (as_vote (get_vote_for c con l))
  /\ ub_pl = gen_mpa_upper_bound.
Proof. split; reflexivity. Qed.
Theorem gen_plurality_pairs_is_model W L : plurality_pairs W L = gen_mpa_pairs W L.
Proof. reflexivity. Qed.

(* make_supermajority_assertion: the candidate list of the validity test, the assort lambda, its upper bound *)
Theorem gen_supermajority_assorter_is_model con f w losers c :
  assort_sm con f w (sm_cands w losers) c
  = gen_msa_assort f (has_one_vote c con (gen_msa_cands w losers)) (as_vote (get_vote_for c con w))
  /\ sm_cands w losers = gen_msa_cands w losers
  /\ ub_sm f = gen_msa_upper_bound f.
Proof. repeat split; reflexivity. Qed.

(* Contest.tally, one contest *)
Theorem gen_tally_is_model enforce nw con cs : tally_contest enforce nw con cs = gen_tally_tail enforce nw con cs.
Proof. reflexivity. Qed.

(* find_margin_from_tally, every branch including the exceptions *)
Theorem gen_find_margin_is_model arg ctally sc w l cards f candidates :
  find_margin_from_tally arg ctally sc w l cards f candidates = gen_fmt_tail arg ctally sc w l cards f candidates.
Proof. reflexivity. Qed.

(* ------------------------------------------------------------------ the translated arithmetic *)
(* plurality / approval branch: with a tally and cards <> 0 the stored margin is the regenerated expression *)
Theorem gen_fmt_pl_is_model arg ctally sc w l cards f candidates t tw tl :
  sc = PLURALITY \/ sc = APPROVAL ->
  match arg with Some t0 => match t_items t0 with [] => ctally | _ => Some t0 end | None => ctally end = Some t ->
  tget t w = Some tw -> tget t l = Some tl -> cards <> 0%Z ->
  exists mg, find_margin_from_tally arg ctally sc w l cards f candidates = Val (Fin mg)
             /\ mg == gen_fmt_pl (inject_Z tw) (inject_Z tl) (inject_Z cards).
Proof.
  intros Hsc Ht Hw Hl Hc. exists (inject_Z (tw - tl) / inject_Z cards). split.
  - unfold find_margin_from_tally. rewrite Ht, Hw, Hl.
    destruct (cards =? 0)%Z eqn:E; [apply Z.eqb_eq in E; contradiction|].
    destruct Hsc as [-> | ->]; reflexivity.
  - unfold gen_fmt_pl. now rewrite inject_Z_sub.
Qed.

(* super-majority branch: cards > 0 and share > 0; valid = 0 included (p = 0) *)
Theorem gen_fmt_sm_is_model arg ctally w cards f candidates t valid tw :
  match arg with Some t0 => match t_items t0 with [] => ctally | _ => Some t0 end | None => ctally end = Some t ->
  w <> NO_CANDIDATE -> tsum t candidates = Some valid -> tget t w = Some tw ->
  (0 < cards)%Z -> (0 <= valid)%Z -> 0 < f ->
  exists mg, find_margin_from_tally arg ctally SUPERMAJORITY w ALL_OTHERS cards f candidates = Val (Fin mg)
             /\ mg == gen_fmt_sm (gen_fmt_q (inject_Z valid) (inject_Z cards)) (gen_fmt_p (inject_Z tw) (inject_Z valid)) f.
Proof.
  intros Ht Hnc Hv Hw Hc Hv0 Hf.
  assert (Hcq : 0 < inject_Z cards). { replace 0 with (inject_Z 0) by reflexivity. now rewrite <- Zlt_Qlt. }
  unfold find_margin_from_tally. rewrite Ht.
  destruct (w =? NO_CANDIDATE)%Z eqn:E; [apply Z.eqb_eq in E; contradiction|].
  change (ALL_OTHERS =? ALL_OTHERS)%Z with true. simpl orb. cbv iota. rewrite Hv.
  unfold gen_fmt_sm, gen_fmt_q, gen_fmt_p, zq.
  destruct (valid =? 0)%Z eqn:Ev.
  - apply Z.eqb_eq in Ev. subst valid. rewrite (xdiv_fin _ _ Hcq), (xdiv_fin _ _ Hf).
    eexists. split; [reflexivity|]. change (inject_Z 0) with 0. change (Qeq_bool 0 (mkq 0 1)) with true. cbv iota.
    unfold mkq. field. split; lra.
  - apply Z.eqb_neq in Ev. rewrite Hw.
    assert (Hvq : 0 < inject_Z valid). { replace 0 with (inject_Z 0) by reflexivity. rewrite <- Zlt_Qlt. lia. }
    rewrite (xdiv_fin _ _ Hcq), (xdiv_fin _ _ Hvq), (xdiv_fin _ _ Hf).
    eexists. split; [reflexivity|]. unfold mkq. change (0 # 1) with 0. rewrite (Qeq_bool_pos_false _ Hvq). field. repeat split; lra.
Qed.

(* ------------------------------------------------------------------ C02 facts on the regenerated definitions *)
(* ranges: the lambdas take values in [0, upper_bound] for vote values in {0, 1} *)
Theorem gen_plurality_assorter_range vw vl :
  (vw = 0 \/ vw = 1)%Z -> (vl = 0 \/ vl = 1)%Z -> 0 <= gen_mpa_assort vw vl /\ gen_mpa_assort vw vl <= gen_mpa_upper_bound.
Proof.
  intros [-> | ->] [-> | ->]; unfold gen_mpa_assort, gen_mpa_upper_bound; split; unfold Qle; simpl; lia.
Qed.
Theorem gen_supermajority_assorter_range f one vw :
  0 < f -> f <= 1 -> (vw = 0 \/ vw = 1)%Z ->
  0 <= gen_msa_assort f one vw /\ gen_msa_assort f one vw <= gen_msa_upper_bound f.
Proof.
  intros Hf H1 Hvw. unfold gen_msa_assort, gen_msa_upper_bound.
  assert (H2f : 0 < 2 * f) by lra.
  assert (Hub : 0 <= 1 / (2 * f)). { apply Qle_shift_div_l; [assumption|lra]. }
  assert (Hhalf : (1 # 2) <= 1 / (2 * f)). { apply Qle_shift_div_l; [assumption|lra]. }
  destruct one.
  - destruct Hvw as [-> | ->].
    + change (inject_Z 0) with 0. assert (E : 0 / (2 * f) == 0) by (field; lra). rewrite E. split; [lra|assumption].
    + change (inject_Z 1) with 1. split; [assumption|apply Qle_refl].
  - split; [lra|assumption].
Qed.

(* the plurality lambda summed over n cards with vw, vl votes is (vw - vl + n)/2, so the regenerated tally margin
   is twice the mean minus one *)
Theorem gen_fmt_pl_is_two_mean_minus_one vw vl n :
  ~ n == 0 -> gen_fmt_pl vw vl n == 2 * (((vw - vl + n) / 2) / n) - 1.
Proof. intro Hn. unfold gen_fmt_pl. field. assumption. Qed.

(* super-majority: with wv valid votes for the winner among v valid votes on n cards the assorter sum is
   wv/(2f) + (n - v)/2 (sum_assort_sm); the regenerated margin is twice the mean minus one, also when v = 0 *)
Theorem gen_fmt_sm_is_two_mean_minus_one wv v n f :
  ~ n == 0 -> ~ f == 0 -> (v == 0 -> wv == 0) ->
  gen_fmt_sm (gen_fmt_q v n) (gen_fmt_p wv v) f == 2 * ((wv / (2 * f) + (n - v) / 2) / n) - 1.
Proof.
  intros Hn Hf H0. unfold gen_fmt_sm, gen_fmt_q, gen_fmt_p, mkq.
  destruct (Qeq_bool v 0) eqn:E.
  - apply Qeq_bool_iff in E. rewrite (H0 E), E. field. split; assumption.
  - apply Qeq_bool_false in E. field. repeat split; assumption.
Qed.
Theorem gen_fmt_sm_no_valid_vote tw n f : ~ n == 0 -> ~ f == 0 -> gen_fmt_sm (gen_fmt_q 0 n) (gen_fmt_p tw 0) f == 0.
Proof. intros Hn Hf. unfold gen_fmt_sm, gen_fmt_q, gen_fmt_p, mkq. simpl Qeq_bool. cbv iota. field. split; assumption. Qed.

(* ------------------------------------------------------------------ Assertion.make_all_assertions (the dispatch) *)
(* The losers handed to the builders are exactly the candidates that are not reported winners, each once, whatever
   order Python's set difference enumerates them in. *)
Lemma existsb_eqb_In c l : existsb (Z.eqb c) l = true <-> In c l.
Proof.
  rewrite existsb_exists. split.
  - intros [x [Hx E]]. apply Z.eqb_eq in E. subst. exact Hx.
  - intro H. exists c. split; [exact H | apply Z.eqb_refl].
Qed.
Theorem gen_maa_losers_spec cands W l : In l (gen_maa_losers cands W) <-> In l cands /\ ~ In l W.
Proof.
  unfold gen_maa_losers. rewrite filter_In, nodup_In, Bool.negb_true_iff.
  split; intros [H1 H2]; split; try exact H1.
  - intro H. apply existsb_eqb_In in H. congruence.
  - destruct (existsb (Z.eqb l) W) eqn:E; [|reflexivity]. apply existsb_eqb_In in E. contradiction.
Qed.
Theorem gen_maa_losers_is_model cands W : other_candidates cands W = gen_maa_losers cands W.
Proof. reflexivity. Qed.
Theorem gen_maa_plurality_is_model cands W f : gen_maa_tail PLURALITY cands W f = MAA_plurality (all_plurality_pairs cands W).
Proof. reflexivity. Qed.
Theorem gen_maa_losers_nodup cands W : NoDup (gen_maa_losers cands W).
Proof. unfold gen_maa_losers. apply NoDup_filter, NoDup_nodup. Qed.
(* plurality: one assertion for every (reported winner, other candidate) pair and for nothing else — the family of
   assertions C02's plurality theorem quantifies over *)
Theorem gen_maa_plurality_pairs cands W f w l :
  exists pairs, gen_maa_tail PLURALITY cands W f = MAA_plurality pairs /\
    pairs = plurality_pairs W (gen_maa_losers cands W) /\
    (In (w, l) pairs <-> In w W /\ In l cands /\ ~ In l W).
Proof.
  eexists. split; [reflexivity|]. split; [reflexivity|].
  unfold gen_mpa_pairs. rewrite in_flat_map. split.
  - intros [w' [Hw Hin]]. apply in_map_iff in Hin. destruct Hin as [l' [E Hl]]. inversion E; subst.
    apply gen_maa_losers_spec in Hl. tauto.
  - intros [Hw [Hl Hn]]. exists w. split; [exact Hw|]. apply in_map_iff. exists l. split; [reflexivity|].
    apply gen_maa_losers_spec. tauto.
Qed.
(* super-majority: the winner is the first reported winner, and the validity test of the assorter ("exactly one vote
   among cands") ranges over every candidate of the contest exactly when that winner is a candidate *)
Lemma NoDup_snoc (l : list Z) w : NoDup l -> ~ In w l -> NoDup (l ++ [w]).
Proof.
  induction l as [|a l IH]; simpl; intros Hd Hn.
  - constructor; [intros []|constructor].
  - inversion Hd as [|a' l' Ha Hl]; subst. constructor.
    + rewrite in_app_iff. simpl. intros [H|[H|[]]]; [contradiction | subst; apply Hn; left; reflexivity].
    + apply IH; [exact Hl | intro H; apply Hn; right; exact H].
Qed.
Theorem gen_maa_supermajority cands w W f :
  gen_maa_tail SUPERMAJORITY cands (w :: W) f
  = MAA_supermajority (Some w) (sm_cands w (gen_maa_losers cands (w :: W))) f.
Proof. reflexivity. Qed.
Theorem gen_maa_supermajority_cands cands w f c :
  In w cands ->
  exists cs, gen_maa_tail SUPERMAJORITY cands [w] f = MAA_supermajority (Some w) cs f /\ NoDup cs /\ (In c cs <-> In c cands).
Proof.
  intro Hw. exists (sm_cands w (gen_maa_losers cands [w])). split; [reflexivity|]. unfold sm_cands. split.
  - apply NoDup_snoc; [apply gen_maa_losers_nodup | rewrite gen_maa_losers_spec; intros [_ Hn]; apply Hn; left; reflexivity].
  - rewrite in_app_iff, gen_maa_losers_spec. simpl. split.
    + intros [[H _]|[E|[]]]; [exact H | subst; exact Hw].
    + intro H. destruct (Z.eq_dec w c) as [E|E]; [right; left; exact E | left; split; [exact H | intros [E'|[]]; contradiction]].
Qed.
Theorem gen_maa_supermajority_no_winner cands f :
  gen_maa_tail SUPERMAJORITY cands [] f = MAA_supermajority None [] f.      (* winrs[0]: IndexError *)
Proof. reflexivity. Qed.
(* the remaining branches: IRV assertions come from the RAIRE JSON (C04/C14), approval is refused *)
Theorem gen_maa_other_branches cands W f :
  gen_maa_tail IRV cands W f = MAA_from_json /\ gen_maa_tail APPROVAL cands W f = MAA_not_implemented.
Proof. split; reflexivity. Qed.
