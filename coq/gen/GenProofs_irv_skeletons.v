(* GenProofs_irv_skeletons.v — lemmas re-checked on every run of C14 against Gen_arith.v regenerated from /repo's
   shangrla/core/Audit.py and shangrla/raire/raire_utils.py (group "irv_skeletons", harness/gen_targets_irv_skeletons.py).
   Whole-function skeletons (every statement exact): CVR.get_vote_for, CVR.rcv_lfunc_wo, CVR.rcv_votefor_cand,
   Assorter.__init__, Assertion.make_assertions_from_json; ranking, vote_for_cand, NEBAssertion.is_vote_for_winner/loser,
   NENAssertion.is_vote_for_winner/loser.  If any statement of these functions changes, Gen_arith.v is not produced
   (fail-closed) and every obligation below counts as broken.  The gen_*_tail definitions are the line-by-line reading of
   the matched lines (loops as loops with early return); here they are proved equal to the functions of the hand model
   IrvRead.v, and C14's equality is restated between the two regenerated readings. *)
From SV Require Import Xq IrvRead IrvRead_proofs.
From SVG Require Import Gen_arith.
Open Scope Z_scope.

(* ------------------------------------------------------------------ audit side *)
Theorem gen_gvf_is_model v cid c : gen_gvf_tail v cid c = get_vote_for v cid c.
Proof. reflexivity. Qed.

Theorem gen_lfunc_is_model v cid w l : gen_lfunc_tail v cid w l = rcv_lfunc_wo v cid w l.
Proof. reflexivity. Qed.

(* the decisive comparisons as a function of the two ranks: a ballot counts for the loser iff the loser is ranked and
   the winner is unranked or ranked after it (for nonnegative ranks, 0 = unranked) *)
Theorem gen_lfunc_ranks_spec rw rl : 0 <= rw -> 0 <= rl ->
  gen_lfunc_ranks rw rl = if (0 <? rl) && ((rw =? 0) || (rl <? rw)) then 1 else 0.
Proof.
  intros Hw Hl. unfold gen_lfunc_ranks, truthy.
  destruct (Z.eqb_spec rw 0), (Z.eqb_spec rl 0), (Z.ltb_spec rl rw), (Z.ltb_spec 0 rl); simpl; try reflexivity; lia.
Qed.

(* the for loop with early returns finds a blocking candidate exactly when the model's existsb does *)
Lemma gen_votefor_loop_is_existsb rank_of cand rank_cand remaining :
  gen_votefor_loop rank_of cand rank_cand remaining =
  if existsb (fun altc => negb (Nat.eqb altc cand) && truthy (rank_of altc) && (rank_of altc <=? rank_cand)) remaining
  then 0 else 1.
Proof.
  induction remaining as [|a t IH]; simpl; [reflexivity|].
  destruct (Nat.eqb a cand); simpl; [exact IH|].
  destruct (truthy (rank_of a) && (rank_of a <=? rank_cand)); simpl; [reflexivity|exact IH].
Qed.

Theorem gen_votefor_is_model v cid cand remaining :
  gen_votefor_tail v cid cand remaining = rcv_votefor_cand v cid cand remaining.
Proof.
  unfold gen_votefor_tail, rcv_votefor_cand. destruct (negb (mem cand remaining)); [reflexivity|].
  change (gen_gvf_tail v cid cand) with (get_vote_for v cid cand).
  destruct (negb (truthy (get_vote_for v cid cand))); [reflexivity|].
  rewrite gen_votefor_loop_is_existsb. reflexivity.
Qed.

Theorem gen_maj_neb_is_model v cid cands w l : gen_maj_neb_tail v cid w l = assort_json cid cands (JNEB w l) v.
Proof. reflexivity. Qed.

Theorem gen_maj_nen_is_model v cid cands w l el :
  gen_maj_nen_tail v cid cands w l el = assort_json cid cands (JNEN w l el) v.
Proof.
  unfold gen_maj_nen_tail, assort_json. rewrite !gen_votefor_is_model. reflexivity.
Qed.

(* ------------------------------------------------------------------ generator side *)
Theorem gen_ranking_is_model c b : gen_ranking_tail c b = ranking c b.
Proof. reflexivity. Qed.

Lemma gen_vfc_loop_is_existsb cand el c_idx items :
  gen_vfc_loop cand el c_idx items =
  if existsb (fun kv : key * Z => negb (Nat.eqb (fst kv) cand) && negb (mem (fst kv) el) && (snd kv <? c_idx)) items
  then 0 else 1.
Proof.
  induction items as [|[k i] t IH]; simpl; [reflexivity|].
  destruct (Nat.eqb k cand); simpl; [exact IH|].
  destruct (mem k el); simpl; [exact IH|].
  destruct (i <? c_idx); simpl; [reflexivity|exact IH].
Qed.

Theorem gen_vfc_is_model c el b : gen_vfc_tail c el b = vote_for_cand c el b.
Proof.
  unfold gen_vfc_tail, vote_for_cand. destruct (mem c el); [reflexivity|].
  change (gen_ranking_tail c b) with (ranking c b).
  destruct (ranking c b =? -1); [reflexivity|]. apply gen_vfc_loop_is_existsb.
Qed.

Theorem gen_neb_w_is_model ct w l v : gen_neb_w_tail ct w v = is_vote_for_winner (RNEB ct w l) v.
Proof. reflexivity. Qed.
Theorem gen_neb_l_is_model ct w l v : gen_neb_l_tail ct w l v = is_vote_for_loser (RNEB ct w l) v.
Proof. reflexivity. Qed.
Theorem gen_nen_w_is_model ct w l el v : gen_nen_w_tail ct w el v = is_vote_for_winner (RNEN ct w l el) v.
Proof. simpl. unfold gen_nen_w_tail. destruct (dget v ct); [apply gen_vfc_is_model|reflexivity]. Qed.
Theorem gen_nen_l_is_model ct w l el v : gen_nen_l_tail ct l el v = is_vote_for_loser (RNEN ct w l el) v.
Proof. simpl. unfold gen_nen_l_tail. destruct (dget v ct); [apply gen_vfc_is_model|reflexivity]. Qed.

(* the generator's NEB loser comparison as a function of the two indices (-1 = not on the ballot) *)
Theorem gen_neb_l_ranks_spec wi li : -1 <= wi -> -1 <= li ->
  gen_neb_l_ranks wi li = if (0 <=? li) && ((wi =? -1) || (li <? wi)) then 1 else 0.
Proof.
  intros Hw Hl. unfold gen_neb_l_ranks.
  destruct (Z.eqb_spec li (-1)), (Z.eqb_spec wi (-1)), (Z.ltb_spec li wi), (Z.leb_spec 0 li); simpl; try reflexivity; lia.
Qed.

(* rank k on the audit side is index k-1 on the generator side: the two regenerated comparisons coincide *)
Theorem gen_neb_loser_ranks_agree rw rl : 0 <= rw -> 0 <= rl ->
  gen_lfunc_ranks rw rl = gen_neb_l_ranks (rw - 1) (rl - 1).
Proof.
  intros Hw Hl. rewrite gen_lfunc_ranks_spec, gen_neb_l_ranks_spec by lia.
  destruct (Z.ltb_spec 0 rl), (Z.leb_spec 0 (rl - 1)), (Z.eqb_spec rw 0), (Z.eqb_spec (rw - 1) (-1)),
    (Z.ltb_spec rl rw), (Z.ltb_spec (rl - 1) (rw - 1)); simpl; try reflexivity; lia.
Qed.

(* ------------------------------------------------------------------ C14 between the two REGENERATED readings *)
Theorem gen_C14_neb cands a g cid w l : related cands a g cid ->
  (gen_maj_neb_tail a cid w l ==
   (inject_Z (gen_neb_w_tail cid w g) - inject_Z (gen_neb_l_tail cid w l g) + 1) / 2)%Q.
Proof.
  intro H. rewrite (gen_maj_neb_is_model a cid cands w l), (gen_neb_w_is_model cid w l g), gen_neb_l_is_model.
  apply neb_assort. exact H.
Qed.

Theorem gen_C14_nen cands a g cid w l el : related cands a g cid ->
  (gen_maj_nen_tail a cid cands w l el ==
   (inject_Z (gen_nen_w_tail cid w el g) - inject_Z (gen_nen_l_tail cid l el g) + 1) / 2)%Q.
Proof.
  intro H. rewrite gen_maj_nen_is_model, (gen_nen_w_is_model cid w l el g), (gen_nen_l_is_model cid w l el g).
  apply nen_assort. exact H.
Qed.

(* in the form of PC14's C14_neb / C14_nen: an explicit duplicate-free ranking r over the contest's candidates *)
Theorem gen_C14_ranking (cands r : list key) (a : acvr) (g : gcvr) (cid w l : key) (el : list key) :
  NoDup r -> incl r cands -> dget a cid = Some (audit_ranks r) -> dget g cid = Some (gen_ballot cands r) ->
  (gen_maj_neb_tail a cid w l ==
   (inject_Z (gen_neb_w_tail cid w g) - inject_Z (gen_neb_l_tail cid w l g) + 1) / 2)%Q /\
  (gen_maj_nen_tail a cid cands w l el ==
   (inject_Z (gen_nen_w_tail cid w el g) - inject_Z (gen_nen_l_tail cid l el g) + 1) / 2)%Q.
Proof.
  intros Hnd Hinc Ha Hg. pose proof (related_ranking cands r a g cid Hnd Hinc Ha Hg) as H.
  split; [apply (gen_C14_neb cands)|apply gen_C14_nen]; exact H.
Qed.
