(* GenProofs_raire.v — lemmas re-checked on every run against Gen_arith.v regenerated from
   /repo's shangrla/raire/sample_estimator.py (bp_estimate, cp_estimate). *)
From SV Require Import Xq NNM NNM_ranges Irv RaireCheck.
From SVG Require Import Gen_arith.
Open Scope Q_scope.

(* the rational versions used by the verified optimum checker are the generated text *)
Lemma gen_cp_is_model w l tot :
  RaireCheck.cp_q w l tot == gen_cp_estimate (RaireCheck.qn w) (RaireCheck.qn l) (RaireCheck.qn tot - (RaireCheck.qn w + RaireCheck.qn l)) (RaireCheck.qn tot).
Proof. unfold RaireCheck.cp_q, gen_cp_estimate, mkq. cbv zeta. rewrite Qred_correct. reflexivity. Qed.
Lemma gen_bp_is_model w l tot :
  RaireCheck.bp_q w l tot == gen_bp_estimate (RaireCheck.qn w) (RaireCheck.qn l) (RaireCheck.qn tot - (RaireCheck.qn w + RaireCheck.qn l)) (RaireCheck.qn tot).
Proof. unfold RaireCheck.bp_q, gen_bp_estimate, mkq. cbv zeta. rewrite Qred_correct. reflexivity. Qed.

(* closed forms: comparison difficulty = total/(w - l); polling difficulty = total (w + l)/(w - l)^2 *)
Theorem gen_cp_closed_form w l o : ~ w + l + o == 0 -> ~ w - l == 0 ->
  gen_cp_estimate w l o (w + l + o) == (w + l + o) / (w - l).
Proof. intros H1 H2. unfold gen_cp_estimate, mkq. field. repeat split; auto. Qed.
Theorem gen_bp_closed_form w l o : ~ w + l + o == 0 -> ~ w - l == 0 -> ~ w + l == 0 ->
  gen_bp_estimate w l o (w + l + o) == (w + l + o) * (w + l) / ((w - l) * (w - l)).
Proof. intros H1 H2 H3. unfold gen_bp_estimate, mkq. field. repeat split; auto. Qed.

(* C15's hypothesis on the difficulty function: it decreases as the margin grows (same total) *)
Theorem gen_cp_antitone w1 l1 o1 w2 l2 o2 :
  0 < w1 - l1 -> w1 - l1 <= w2 - l2 -> w1 + l1 + o1 == w2 + l2 + o2 -> 0 < w1 + l1 + o1 ->
  gen_cp_estimate w2 l2 o2 (w2 + l2 + o2) <= gen_cp_estimate w1 l1 o1 (w1 + l1 + o1).
Proof.
  intros H1 H2 HT HT0.
  rewrite (gen_cp_closed_form w1 l1 o1), (gen_cp_closed_form w2 l2 o2) by lra.
  rewrite <- HT. set (T := w1 + l1 + o1) in *.
  apply Qle_shift_div_l; [lra|].
  assert (E : T / (w2 - l2) * (w1 - l1) == T * (w1 - l1) / (w2 - l2)) by (field; lra). rewrite E.
  apply Qle_shift_div_r; [lra|]. nra.
Qed.
