(* GenProofs_nnm.v — lemmas re-checked on every run against Gen_arith.v, which harness/genarith.py regenerates from
   /repo's NonnegMean.py (lam_to_eta, eta_to_lam, optimal_comparison).  A change to one of those expressions that breaks
   a property breaks one of these proofs. *)
From SV Require Import NNM NNM_ranges.
From SVG Require Import Gen_arith.
Open Scope Q_scope.

(* the hand-written model agrees with the generated text *)
Lemma gen_lam_to_eta_is_model u lam mu : gen_lam_to_eta u lam mu == lam_to_eta u lam mu.
Proof. unfold gen_lam_to_eta, lam_to_eta, mkq. ring. Qed.
Lemma gen_eta_to_lam_is_model u eta mu : ~ mu == 0 -> ~ u - mu == 0 -> gen_eta_to_lam u eta mu == eta_to_lam u eta mu.
Proof. intros. unfold gen_eta_to_lam, eta_to_lam, mkq. field. auto. Qed.
Lemma gen_optimal_comparison_is_model u p2 : gen_optimal_comparison u p2 = optimal_comparison_eta u p2.
Proof. reflexivity. Qed.

(* C12: the two conversions are mutual inverses (on the generated definitions) *)
Theorem gen_conversions_inverse u a mu : ~ mu == 0 -> ~ u - mu == 0 ->
  gen_eta_to_lam u (gen_lam_to_eta u a mu) mu == a /\ gen_lam_to_eta u (gen_eta_to_lam u a mu) mu == a.
Proof. intros H1 H2. unfold gen_eta_to_lam, gen_lam_to_eta, mkq. split; field; auto. Qed.

(* C12: with eta = lam_to_eta(lam, mu) the ALPHA factor is the betting factor *)
Theorem gen_alpha_betting_factor u x lam m : 0 < m -> m < u ->
  (x * gen_lam_to_eta u lam m / m + (u - x) * (u - gen_lam_to_eta u lam m) / (u - m)) / u == 1 + lam * (x - m).
Proof. intros H0 H1. unfold gen_lam_to_eta, mkq. field. repeat split; lra. Qed.

(* C13: the closed-form alternative for comparison audits stays in [0,u] *)
Theorem gen_optimal_comparison_range u p2 : 0 <= u -> 0 <= gen_optimal_comparison u p2 <= u.
Proof. intro Hu. unfold gen_optimal_comparison. apply clipq_range. unfold mkq. lra. Qed.
