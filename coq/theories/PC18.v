(* PC18.v — property C18: merging records for one card loses nothing and keeps its flags meaningful; RAIRE reader.
   Model: Merge.v (CVR.merge_cvrs, CVR.from_raire, CVR.from_raire_file); lemmas: Merge_proofs.v.
   Vocabulary (Merge_proofs.v): ids l = the identifiers of l in order; dedup = distinct elements in order of first
   appearance; group i l = the records of l with identifier i, in order; latest k rs = the votes in contest k of the
   last record of rs that has contest k; wf_votes c = the contest keys of c are distinct (a Python dict);
   first_nonnone = first value that is not None; tp_conflict l = two records of one card whose tally pools are
   both not None and not == ; truthy / py_and / py_or / py_eq / is_bool : Python's bool(), and, or, ==, isinstance bool. *)
From Coq Require Import ZArith List Bool Lia.
From SV Require Import Merge Merge_proofs.
Import ListNotations.
Open Scope Z_scope.

Definition r1 := mkrec 7 [(1, [(10, 1); (11, 2)]); (2, [(20, 1)])] (PBool true) (PBool false) PNone.
Definition r2 := mkrec 8 [(1, [(10, 1)])] (PBool false) (PBool false) (PInt 0).
Definition r3 := mkrec 7 [(1, [(11, 1)]); (3, [])] (PBool true) (PBool true) (PStr 0).
Definition r4 := mkrec 7 [] (PBool false) (PBool false) PNone.

Theorem C18_one_per_id_in_order :
  forall l out, merge_cvrs l = Ok out ->
    ids out = dedup (ids l) /\ NoDup (ids out) /\ (forall i, In i (ids out) <-> In i (ids l)).
Proof. exact one_per_id_holds. Qed.
Print Assumptions C18_one_per_id_in_order.

Example C18_one_per_id_nonvacuous :
  exists out, merge_cvrs [r1; r2; r3; r2; r4] = Ok out /\ ids out = [7; 8] /\ ids [r1; r2; r3; r2; r4] = [7; 8; 7; 8; 7].
Proof. eexists. vm_compute. repeat split. Qed.

Theorem C18_contest_union_later_wins :
  forall l out, Forall wf_votes l -> merge_cvrs l = Ok out ->
    forall o, In o out ->
      (forall k, dict_get (c_votes o) k = latest k (group (c_id o) l)) /\
      (forall k, dict_get (c_votes o) k <> None <->
                 exists r, In r l /\ c_id r = c_id o /\ dict_get (c_votes r) k <> None).
Proof. exact contest_union_holds. Qed.
Print Assumptions C18_contest_union_later_wins.

(* contest 1: the later record lists only candidate 11, so candidate 10 of the earlier record is gone *)
Example C18_contest_union_nonvacuous :
  Forall wf_votes [r1; r2; r3] /\
  merge_cvrs [r1; r2; r3]
  = Ok [mkrec 7 [(1, [(11, 1)]); (2, [(20, 1)]); (3, [])] (PBool true) (PBool true) (PStr 0); r2].
Proof.
  split; [|vm_compute; reflexivity].
  unfold wf_votes. repeat (constructor; [simpl; repeat (constructor; [simpl; intuition lia|]); constructor|]). constructor.
Qed.

Theorem C18_phantom_and :
  forall l out, merge_cvrs l = Ok out -> forall o, In o out ->
    let g := group (c_id o) l in
    g <> [] /\
    truthy (c_phantom o) = forallb (fun c => truthy (c_phantom c)) g /\
    (Forall (fun c => is_bool (c_phantom c) = true) g ->
       c_phantom o = PBool (forallb (fun c => truthy (c_phantom c)) g)).
Proof. exact phantom_holds. Qed.
Print Assumptions C18_phantom_and.

Example C18_phantom_and_nonvacuous :
  (exists o, merge_cvrs [r1; r3] = Ok [o] /\ c_phantom o = PBool true) /\
  (exists o, merge_cvrs [r1; r3; r4] = Ok [o] /\ c_phantom o = PBool false).
Proof. split; eexists; vm_compute; split; reflexivity. Qed.

Theorem C18_pool_or_bool :
  forall l out, merge_cvrs l = Ok out -> forall o, In o out ->
    let g := group (c_id o) l in
    truthy (c_pool o) = existsb (fun c => truthy (c_pool c)) g /\
    (Forall (fun c => is_bool (c_pool c) = true) g ->
       c_pool o = PBool (existsb (fun c => truthy (c_pool c)) g)).
Proof. exact pool_holds. Qed.
Print Assumptions C18_pool_or_bool.

Example C18_pool_or_bool_nonvacuous :
  (exists o, merge_cvrs [r1; r4] = Ok [o] /\ c_pool o = PBool false) /\
  (exists o, merge_cvrs [r1; r3; r4] = Ok [o] /\ c_pool o = PBool true).
Proof. split; eexists; vm_compute; split; reflexivity. Qed.

Theorem C18_tally_pool :
  forall l,
    (forall e, merge_cvrs l = Err e -> e = EValue) /\
    ((exists e, merge_cvrs l = Err e) <-> tp_conflict l) /\
    (forall out o, merge_cvrs l = Ok out -> In o out ->
       c_tp o = first_nonnone (map c_tp (group (c_id o) l)) /\
       forall c, In c l -> c_id c = c_id o -> is_none (c_tp c) = false -> py_eq (c_tp o) (c_tp c) = true).
Proof. exact tally_pool_holds. Qed.
Print Assumptions C18_tally_pool.

(* "" and 0 are tally pools in their own right (not None): [r1; r3] keeps "", adding a record with pool 0 conflicts *)
Example C18_tally_pool_nonvacuous :
  (exists o, merge_cvrs [r1; r3; r4] = Ok [o] /\ c_tp o = PStr 0) /\
  merge_cvrs [r1; r3; mkrec 7 [] (PBool true) (PBool false) (PInt 0)] = Err EValue /\
  tp_conflict [r1; r3; mkrec 7 [] (PBool true) (PBool false) (PInt 0)].
Proof.
  split; [eexists; vm_compute; split; reflexivity|]. split; [vm_compute; reflexivity|].
  exists r3, (mkrec 7 [] (PBool true) (PBool false) (PInt 0)). simpl. intuition.
Qed.

Theorem C18_from_raire :
  (forall cands k x, NoDup cands -> nth_error cands k = Some x ->
     dict_get (ranks_from 1 cands []) x = Some (Z.of_nat k + 1)) /\
  (forall cands x, ~ In x cands -> dict_get (ranks_from 1 cands []) x = None) /\
  (forall skip hdr ballots ph, length hdr = S skip -> Forall (fun c => (2 <= length c)%nat) ballots ->
     exists out, merge_cvrs (map (row_rec ph) ballots) = Ok out /\
       from_raire skip (hdr ++ ballots) ph = Ok (out, Z.of_nat (length ballots) + 1) /\
       (ph = false -> from_raire_file skip (hdr ++ ballots)
                      = Ok (out, Z.of_nat (length ballots) + 1, Z.of_nat (length out)))) /\
  (forall skip hdr ballots ph, length hdr = S skip -> Exists (fun c => (length c < 2)%nat) ballots ->
     from_raire skip (hdr ++ ballots) ph = Err EIndex).
Proof. exact from_raire_holds. Qed.
Print Assumptions C18_from_raire.

(* two header lines after the count line; ballot 5 appears in contests 300 and 301, and twice in 300 (later wins) *)
Example C18_from_raire_nonvacuous :
  from_raire 2 [[2]; [99; 300; 3; 10; 11; 12]; [99; 301; 2; 20; 21];
                [300; 5; 12; 10]; [301; 5; 21]; [300; 6]; [300; 5; 11]] false
  = Ok ([mkrec 5 [(300, [(11, 1)]); (301, [(21, 1)])] (PBool false) (PBool false) PNone;
         mkrec 6 [(300, [])] (PBool false) (PBool false) PNone], 5).
Proof. vm_compute. reflexivity. Qed.
