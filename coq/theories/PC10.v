(* PC10.v — placeholder while the proofs are being built *)
From SV Require Import Sampling.
Theorem C10_placeholder : True. Proof. exact I. Qed.
Print Assumptions C10_placeholder.
