(* PC10.v — property C10: escalation only ever extends the evidence.
   Only statements; proofs are in Sampling_proofs.v; the model (Sampling.v) is tied to shangrla/core/Audit.py by the
   correspondence run of harness/c10.py.  Vocabulary as in PC07.v, plus:
     grown ks ks'        the same contests (ids, positionally) with sample sizes not smaller
     round_op            (o_sizes: the round's size vector, o_continue: pass the previous selection back?)
     run_rounds          the audit driver's loop over rounds (round_step: set sizes, consistent_sampling fresh or continued,
                         mark cvr.sampled); state = contests with thresholds, sampled flags, last selection
     op_ok cards ids op  the round's size vector has one entry per contest, each available
     nondecreasing ops   consecutive size vectors are pointwise non-decreasing
     selection cards ks  the fresh-draw result for the contests ks (C07_selection (b))
     with_sizes ids ns   contests ids with sizes ns *)
From SV Require Import Sampling Sampling_proofs.
From SV Require NNM NNM_wf NNM_mono NNM_mono_kaplan.
From Coq Require Import Permutation Sorted.
Open Scope Z_scope.

Definition ex_cards : list (card nat) :=
  [ mkcard 30 [(1, 7%nat)] 0%nat;  mkcard 50 [(2, 0%nat)] 1%nat;  mkcard 10 [(9, 3%nat)] 2%nat;
    mkcard 20 [(2, 1%nat); (1, 0%nat)] 3%nat;  mkcard 40 [(2, 5%nat)] 4%nat;  mkcard 60 [(1, 1%nat)] 5%nat ].
Definition ex_ks : list contest := [ mkcon 1 1 None; mkcon 2 2 None ].
Definition ex_ks' : list contest := [ mkcon 1 3 (Some 20); mkcon 2 2 (Some 40) ].
Definition ex_st : rstate := mkrs [ mkcon 1 0 None; mkcon 2 0 None ] (repeat false 6) [].
Definition ex_ops : list round_op := [ mkop [1; 2]%nat true; mkop [3; 2]%nat true; mkop [3; 3]%nat false ].
Lemma ex_available' : sizes_available ex_cards ex_ks'.
Proof. intros k [<-|[<-|[]]]; vm_compute; lia. Qed.
Lemma ex_grown : grown ex_ks ex_ks'.
Proof. repeat constructor; simpl; lia. Qed.
Lemma ex_distinct : NoDup (map c_num ex_cards).
Proof. repeat constructor; simpl; intuition discriminate. Qed.
Lemma ex_ops_ok : Forall (op_ok ex_cards (map k_id (r_contests ex_st))) ex_ops /\ nondecreasing ex_ops /\ r_prev ex_st = [].
Proof.
  split; [|split; [|reflexivity]].
  - repeat constructor; intros k [<-|[<-|[]]]; vm_compute; lia.
  - simpl. repeat constructor.
Qed.

(* For every sequence of rounds with available, non-decreasing size vectors, starting the audit with nothing sampled,
   every round succeeds and returns the redraw selection for its sizes whichever rounds continue and whichever redraw,
   and each round's selection contains the previous round's (as a subsequence: same relative order, no repetition). *)
Theorem C10_superset : forall (V : Type) (cards : list (card V)) (ops : list round_op) (st : rstate),
  Forall (op_ok cards (map k_id (r_contests st))) ops -> nondecreasing ops -> r_prev st = [] ->
  map fst (run_rounds cards st ops) =
    map (fun op => Ok (selection cards (with_sizes (map k_id (r_contests st)) (o_sizes op)))) ops /\
  forall r x y, nth_error (run_rounds cards st ops) r = Some x -> nth_error (run_rounds cards st ops) (S r) = Some y ->
    exists s s', fst x = Ok s /\ fst y = Ok s' /\ NoDup s /\ NoDup s' /\ incl s s' /\
                 s = filter (fun i => memn i s) s'.
Proof. exact (@C10_superset_stmt). Qed.
Print Assumptions C10_superset.

Example C10_superset_nonvacuous :
  (Forall (op_ok ex_cards (map k_id (r_contests ex_st))) ex_ops /\ nondecreasing ex_ops /\ r_prev ex_st = []) /\
  map fst (run_rounds ex_cards ex_st ex_ops) = [Ok [3; 4]%nat; Ok [3; 0; 4; 5]%nat; Ok [3; 0; 4; 1; 5]%nat].
Proof. split; [exact ex_ops_ok|]. vm_compute. reflexivity. Qed.

(* A continuation that is handed ANY list of earlier indices never loses one of them (sizes may even shrink). *)
Theorem C10_superset_continue : forall (V : Type) (cards : list (card V)) (ks : list contest) (prev : list nat) (i : nat),
  sizes_available cards ks -> In i prev -> (i < length cards)%nat ->
  exists sel, fst (consistent_sampling cards ks (Some prev)) = Ok sel /\ In i sel.
Proof. exact (@continue_keeps). Qed.
Print Assumptions C10_superset_continue.

Example C10_superset_continue_nonvacuous :
  fst (consistent_sampling ex_cards ex_ks (Some [5; 2]%nat)) = Ok [2; 3; 4; 5]%nat.
Proof. vm_compute. reflexivity. Qed.

(* The data sequence seen by a contest's assertions (card comparison / ONEAudit with use_style, n_c >= 1) in a later round
   with sizes not smaller is the earlier round's sequence with new observations appended — whether either round was a
   redraw (None) or a continuation from any list, and whatever thresholds the contests carried into the rounds. *)
Theorem C10_data_prefix : forall (V M D : Type) (f : M -> card V -> D) (g : M -> D) (mvr : nat -> M) (dflt : card V)
    (cards : list (card V)) (ks ks' : list contest) (prev prev' : option (list nat)) (j : nat) (k k' : contest) (ty : atype),
  NoDup (map c_num cards) -> sizes_available cards ks' -> grown ks ks' ->
  nth_error ks j = Some k -> nth_error ks' j = Some k' -> (1 <= k_size k)%nat -> ty = Comparison \/ ty = OneAudit ->
  let r := consistent_sampling cards ks prev in
  let r' := consistent_sampling cards ks' prev' in
  exists sel sel' k1 k1' d ext,
    fst r = Ok sel /\ fst r' = Ok sel' /\ nth_error (snd r) j = Some k1 /\ nth_error (snd r') j = Some k1' /\
    round_data f g mvr dflt cards sel ty true k1 = Ok d /\
    round_data f g mvr dflt cards sel' ty true k1' = Ok (d ++ ext) /\
    length d = k_size k /\ length (d ++ ext) = k_size k'.
Proof. exact (@C10_data_prefix_stmt). Qed.
Print Assumptions C10_data_prefix.

Example C10_data_prefix_nonvacuous :
  (NoDup (map c_num ex_cards) /\ sizes_available ex_cards ex_ks' /\ grown ex_ks ex_ks') /\
  let f := fun (m : nat) (c : card nat) => (m, c_num c) in
  let r := consistent_sampling ex_cards ex_ks None in
  let r' := consistent_sampling ex_cards ex_ks' (Some [3; 4]%nat) in
  fst r = Ok [3; 4]%nat /\ fst r' = Ok [3; 0; 4; 5]%nat /\
  round_data f (fun m => (m, 0)) (fun i => i) (mkcard 0 [] 0%nat) ex_cards [3; 4]%nat Comparison true (mkcon 1 1 (Some 20))
    = Ok [(3%nat, 20)] /\
  round_data f (fun m => (m, 0)) (fun i => i) (mkcard 0 [] 0%nat) ex_cards [3; 0; 4; 5]%nat Comparison true (mkcon 1 3 (Some 60))
    = Ok [(3%nat, 20); (0%nat, 30); (5%nat, 60)].
Proof. split; [split; [exact ex_distinct | split; [exact ex_available' | exact ex_grown]]|]. vm_compute. auto. Qed.

(* If prev is the selection for sizes n and n <= n' pointwise, the sampled_cvr_indices branch on (prev, n') returns the
   same list AND the same contest states (thresholds) as a redraw with n'; hence (C10_data_prefix / C07_threshold, which
   hold for both) the same per-contest data sequences. *)
Theorem C10_continue_eq_redraw : forall (V : Type) (cards : list (card V)) (ks ks' : list contest) (prev : list nat),
  sizes_available cards ks' -> grown ks ks' ->
  fst (consistent_sampling cards ks None) = Ok prev ->
  consistent_sampling cards ks' (Some prev) = consistent_sampling cards ks' None.
Proof. exact (@C10_continue_eq_redraw_stmt). Qed.
Print Assumptions C10_continue_eq_redraw.

(* ... and over whole histories: the complete trace of the state machine (selections, thresholds, sampled flags) is the
   same as if every round had been a redraw. *)
Theorem C10_continue_eq_redraw_history : forall (V : Type) (cards : list (card V)) (ops : list round_op) (st : rstate),
  Forall (op_ok cards (map k_id (r_contests st))) ops -> nondecreasing ops ->
  (forall op, hd_error ops = Some op ->
     forall i, In i (r_prev st) -> chosen cards (with_sizes (map k_id (r_contests st)) (o_sizes op)) i = true) ->
  run_rounds cards st ops = run_rounds cards st (map as_redraw ops).
Proof. exact (@history_mode_irrelevant). Qed.
Print Assumptions C10_continue_eq_redraw_history.

Example C10_continue_eq_redraw_nonvacuous :
  (sizes_available ex_cards ex_ks' /\ grown ex_ks ex_ks' /\ fst (consistent_sampling ex_cards ex_ks None) = Ok [3; 4]%nat) /\
  consistent_sampling ex_cards ex_ks' (Some [3; 4]%nat) =
    (Ok [3; 0; 4; 5]%nat, [mkcon 1 3 (Some 60); mkcon 2 2 (Some 40)]) /\
  run_rounds ex_cards ex_st ex_ops = run_rounds ex_cards ex_st (map as_redraw ex_ops).
Proof. split; [split; [exact ex_available' | split; [exact ex_grown | vm_compute; reflexivity]]|]. vm_compute. auto. Qed.

(* "Consequently every assertion's measured risk is non-increasing from round to round": with C10_data_prefix the data of
   a later round are xs ++ ys; the overall p-value of the two tests whose overall value is the minimum of the history
   (ALPHA, betting — the tests the audit driver uses) can only decrease when observations are appended.  Statements
   about the NonnegMean model (NNM.v, tied to NonnegMean.py by the C05/C11 correspondence); proofs in NNM_mono.v. *)
Theorem C10_p_monotone_alpha : forall sqrtq e N t u xs ys,
  (0 < u)%Q -> (0 < t < u)%Q -> NNM_wf.sample_ok N u xs -> NNM_wf.sample_ok N u (xs ++ ys) ->
  xle (fst (NNM.alpha_mart sqrtq e N t u (xs ++ ys))) (fst (NNM.alpha_mart sqrtq e N t u xs)) = true.
Proof. exact NNM_mono.alpha_pvalue_antitone. Qed.
Print Assumptions C10_p_monotone_alpha.

Theorem C10_p_monotone_betting : forall sqrtq, (forall x, (0 <= sqrtq x)%Q) -> forall b N t u xs ys,
  (0 < u)%Q -> (0 < t < u)%Q -> NNM_wf.bet_ok b u -> NNM_wf.sample_ok N u xs -> NNM_wf.sample_ok N u (xs ++ ys) ->
  xle (fst (NNM.betting_mart sqrtq b N t u (xs ++ ys))) (fst (NNM.betting_mart sqrtq b N t u xs)) = true.
Proof. exact NNM_mono.betting_pvalue_antitone. Qed.
Print Assumptions C10_p_monotone_betting.

(* the same for the other tests when the sample is declared to be in random order (overall value = smallest entry) *)
Theorem C10_p_monotone_kaplan_wald : forall g t xs ys,
  (0 < t)%Q -> (0 <= g <= 1)%Q -> xs <> [] -> Forall (fun x => (0 <= x)%Q) (xs ++ ys) ->
  xle (fst (NNM.kaplan_wald g true t (xs ++ ys))) (fst (NNM.kaplan_wald g true t xs)) = true.
Proof. exact NNM_mono_kaplan.kaplan_wald_pvalue_antitone. Qed.
Print Assumptions C10_p_monotone_kaplan_wald.

Theorem C10_p_monotone_kaplan_markov : forall g t xs ys,
  (0 < t)%Q -> (0 <= g)%Q -> xs <> [] -> Forall (fun x => (0 <= x)%Q) (xs ++ ys) ->
  xle (fst (NNM.kaplan_markov g true t (xs ++ ys))) (fst (NNM.kaplan_markov g true t xs)) = true.
Proof. exact NNM_mono_kaplan.kaplan_markov_pvalue_antitone. Qed.
Print Assumptions C10_p_monotone_kaplan_markov.

Theorem C10_p_monotone_kaplan_kolmogorov : forall g n t xs ys,
  (0 <= g)%Q -> xs <> [] -> Forall (fun x => (0 <= x)%Q) (xs ++ ys) -> (Z.of_nat (length (xs ++ ys)) <= n)%Z ->
  xle (fst (NNM.kaplan_kolmogorov g true n t (xs ++ ys))) (fst (NNM.kaplan_kolmogorov g true n t xs)) = true.
Proof. exact NNM_mono_kaplan.kaplan_kolmogorov_pvalue_antitone. Qed.
Print Assumptions C10_p_monotone_kaplan_kolmogorov.

Theorem C10_p_monotone_sprt : forall sqrtq eta N t u xs ys,
  (0 < u)%Q -> (0 < t < u)%Q -> NNM_wf.sample_ok N u xs -> NNM_wf.sample_ok N u (xs ++ ys) ->
  xle (fst (NNM.wald_sprt sqrtq eta true N t u (xs ++ ys))) (fst (NNM.wald_sprt sqrtq eta true N t u xs)) = true.
Proof. exact NNM_mono_kaplan.sprt_pvalue_antitone. Qed.
Print Assumptions C10_p_monotone_sprt.

(* hence a confirmation at risk limit alpha survives any extension of the sample *)
Theorem C10_confirmed_stays_confirmed : forall sqrtq e N t u xs ys alpha,
  (0 < u)%Q -> (0 < t < u)%Q -> NNM_wf.sample_ok N u xs -> NNM_wf.sample_ok N u (xs ++ ys) ->
  xle (fst (NNM.alpha_mart sqrtq e N t u xs)) (Fin alpha) = true ->
  xle (fst (NNM.alpha_mart sqrtq e N t u (xs ++ ys))) (Fin alpha) = true.
Proof. exact NNM_mono.alpha_confirmed_sticky. Qed.
Print Assumptions C10_confirmed_stays_confirmed.

(* `asn.proved = (asn.p_value <= con.risk_limit) or asn.proved`: an assertion once confirmed stays confirmed through any
   further rounds, whatever their p-values (larger, NaN, ...); it is set exactly by a p-value at or below the risk limit. *)
Theorem C10_proved_sticky : forall (risk : Q) (ps qs : list Xq) (b : bool),
  (proved_after risk ps b = true -> proved_after risk (ps ++ qs) b = true) /\
  (forall p, xle p (Fin risk) = true -> proved_after risk (ps ++ p :: qs) b = true) /\
  (proved_after risk ps b = true -> b = true \/ exists p, In p ps /\ xle p (Fin risk) = true).
Proof. exact C10_proved_sticky_stmt. Qed.
Print Assumptions C10_proved_sticky.

Example C10_proved_sticky_nonvacuous :
  proved_after (mkq 1 20) [Fin (mkq 1 2); Fin (mkq 1 50)] false = true /\
  proved_after (mkq 1 20) ([Fin (mkq 1 2); Fin (mkq 1 50)] ++ [Fin 1; NaN]) false = true /\
  proved_after (mkq 1 20) [Fin (mkq 1 2); NaN] false = false.
Proof. vm_compute. auto. Qed.
