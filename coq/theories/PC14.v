(* PC14.v — property C14: RAIRE and the audit interpret every ranked ballot identically.
   Model: IrvRead.v (tied to /repo by harness/c14.py on every run); lemmas: IrvRead_proofs.v.
   Notation used below (all from the model / proofs files):
     audit_ranks r          the rank dict CVR.from_raire builds for a line with ranking r   (c_k -> k, 1-based)
     gen_ballot cands r     the index dict load_contests_from_raire builds for that line    (c_k -> k-1, contest candidates only)
     assort_json cid cands ja   the assorter Assertion.make_assertions_from_json(contest cid, candidates cands) builds for the
                            json assertion ja (JNEB w l = WINNER_ONLY, JNEN w l E = IRV_ELIMINATION), applied to a CVR
     is_vote_for_winner/loser (RNEB ..|RNEN ..)   the generator's NEBAssertion / NENAssertion predicates
     related cands a g cid  the audit CVR a and the generator cvr g hold the same ballot for contest cid: neither has the
                            contest, or both store (each in its own convention) one duplicate-free ranking over cands.
   The theorems hold for EVERY w, l, E (so in particular for w <> l, w,l not in E as in the property text), every
   candidate list and every duplicate-free ranking over it, whatever else the two CVRs contain. *)
From SV Require Import IrvRead IrvRead_proofs.
Open Scope Z_scope.

(* ---- NEB (WINNER_ONLY) *)
Theorem C14_neb : forall (cands r : list key) (a : acvr) (g : gcvr) (cid w l : key),
  NoDup r -> incl r cands ->
  dget a cid = Some (audit_ranks r) -> dget g cid = Some (gen_ballot cands r) ->
  (assort_json cid cands (JNEB w l) a ==
   (inject_Z (is_vote_for_winner (RNEB cid w l) g) - inject_Z (is_vote_for_loser (RNEB cid w l) g) + 1) / 2)%Q.
Proof. exact neb_ranking. Qed.
Print Assumptions C14_neb.
(* non-vacuity: ballot "3 > 1" over candidates 1,2,3; NEB 3 v 1 scores 1, NEB 1 v 3 scores 0, NEB 2 v 1 scores 0 *)
Example C14_neb_ex :
  NoDup [3;1]%nat /\ incl [3;1]%nat [1;2;3]%nat /\
  map (fun wl => Qred (assort_json 0%nat [1;2;3]%nat (JNEB (fst wl) (snd wl)) [(0%nat, audit_ranks [3;1]%nat)]))
      [(3,1); (1,3); (2,1); (2,7)]%nat = [1; 0; 0; 1 # 2]%Q /\
  map (fun wl => (is_vote_for_winner (RNEB 0%nat (fst wl) (snd wl)) [(0%nat, gen_ballot [1;2;3]%nat [3;1]%nat)],
                  is_vote_for_loser (RNEB 0%nat (fst wl) (snd wl)) [(0%nat, gen_ballot [1;2;3]%nat [3;1]%nat)]))
      [(3,1); (1,3); (2,1); (2,7)]%nat = [(1, 0); (0, 1); (0, 1); (0, 0)].
Proof.
  split; [repeat constructor; simpl; intuition discriminate|].
  split; [intros x [H|[H|[]]]; subst; simpl; auto|].
  split; vm_compute; reflexivity.
Qed.

(* ---- NEN (IRV_ELIMINATION) *)
Theorem C14_nen : forall (cands r : list key) (a : acvr) (g : gcvr) (cid w l : key) (el : list key),
  NoDup r -> incl r cands ->
  dget a cid = Some (audit_ranks r) -> dget g cid = Some (gen_ballot cands r) ->
  (assort_json cid cands (JNEN w l el) a ==
   (inject_Z (is_vote_for_winner (RNEN cid w l el) g) - inject_Z (is_vote_for_loser (RNEN cid w l el) g) + 1) / 2)%Q.
Proof. exact nen_ranking. Qed.
Print Assumptions C14_nen.
(* non-vacuity: ballot "3 > 1 > 2"; with 3 eliminated it counts for 1, with nothing eliminated for 3 *)
Example C14_nen_ex :
  NoDup [3;1;2]%nat /\ incl [3;1;2]%nat [1;2;3;4]%nat /\
  map (fun a => Qred (assort_json 0%nat [1;2;3;4]%nat a [(0%nat, audit_ranks [3;1;2]%nat)]))
      [JNEN 1 2 [3]; JNEN 2 1 [3]; JNEN 1 2 []; JNEN 3 1 [4]; JNEN 2 4 [3;1]]%nat = [1; 0; 1 # 2; 1; 1]%Q /\
  map (fun a => (is_vote_for_winner a [(0%nat, gen_ballot [1;2;3;4]%nat [3;1;2]%nat)],
                 is_vote_for_loser a [(0%nat, gen_ballot [1;2;3;4]%nat [3;1;2]%nat)]))
      [RNEN 0 1 2 [3]; RNEN 0 2 1 [3]; RNEN 0 1 2 []; RNEN 0 3 1 [4]; RNEN 0 2 4 [3;1]]%nat
  = [(1, 0); (0, 1); (0, 0); (1, 0); (1, 0)].
Proof.
  split; [repeat constructor; simpl; intuition discriminate|].
  split; [intros x [H|[H|[H|[]]]]; subst; simpl; auto|].
  split; vm_compute; reflexivity.
Qed.

(* ---- a card that does not carry the contest scores 1/2 on the audit side and 0, 0 on the generator side *)
Theorem C14_absent : forall (cands : list key) (a : acvr) (g : gcvr) (cid : key) (ja : jassertion),
  dget a cid = None -> dget g cid = None ->
  (assort_json cid cands ja a == 1 # 2)%Q /\
  is_vote_for_winner (rassertion_of cid ja) g = 0 /\ is_vote_for_loser (rassertion_of cid ja) g = 0.
Proof. exact absent_assort. Qed.
Print Assumptions C14_absent.

(* ---- corollary, by summation over any non-empty list of cards read both ways:
        the assorter mean exceeds 1/2 exactly when the generator's tally comparison holds *)
Theorem C14_mean : forall (cands : list key) (cid : key) (ja : jassertion) (bs : list (acvr * gcvr)),
  Forall (fun ag => related cands (fst ag) (snd ag) cid) bs -> bs <> [] ->
  ((1 # 2) < Qmean (map (fun ag => assort_json cid cands ja (fst ag)) bs))%Q <->
  sumZ (map (fun ag => is_vote_for_loser (rassertion_of cid ja) (snd ag)) bs)
  < sumZ (map (fun ag => is_vote_for_winner (rassertion_of cid ja) (snd ag)) bs).
Proof. exact mean_gt_half. Qed.
Print Assumptions C14_mean.
Example C14_mean_ex :
  let b r := ([(0%nat, audit_ranks r)], [(0%nat, gen_ballot [1;2;3]%nat r)]) in
  let bs : list (acvr * gcvr) := [b [1;2]%nat; b [3;1]%nat; b [2]%nat; ([], [])] in
  Forall (fun ag => related [1;2;3]%nat (fst ag) (snd ag) 0%nat) bs /\ bs <> [] /\
  Qred (Qmean (map (fun ag => assort_json 0%nat [1;2;3]%nat (JNEN 1%nat 2%nat [3]%nat) (fst ag)) bs)) = (5 # 8)%Q.
Proof.
  cbv zeta. split.
  - apply Forall_cons; [|apply Forall_cons; [|apply Forall_cons; [|apply Forall_cons; [|apply Forall_nil]]]]; cbn [fst snd].
    + apply (related_ranking _ [1;2]%nat); try reflexivity; [repeat constructor; simpl; intuition discriminate|].
      intros x [H|[H|[]]]; subst; simpl; auto.
    + apply (related_ranking _ [3;1]%nat); try reflexivity; [repeat constructor; simpl; intuition discriminate|].
      intros x [H|[H|[]]]; subst; simpl; auto.
    + apply (related_ranking _ [2]%nat); try reflexivity; [repeat constructor; simpl; intuition discriminate|].
      intros x [H|[]]; subst; simpl; auto.
    + apply related_absent; reflexivity.
  - split; [discriminate|vm_compute; reflexivity].
Qed.

(* ---- the two readers of the RAIRE text format.
   A file is the row [t0] (number of contests), the header rows, then the ballot rows.  If every ballot row is in the
   property's domain (bline_ok: its contest is declared by a header, its ranking is duplicate-free and lists candidates
   of that contest), then for every ballot id and contest, CVR.from_raire and load_contests_from_raire either both have
   no entry (no such line), or both have one and it decodes — ranks i+1 on one side, indices i on the other — to the
   ranking r of the LAST line for that (contest, ballot id). *)
Theorem C14_readers : forall (t0 : tok) (headers blines : list row),
  tint t0 = Some (Z.of_nat (length headers)) ->
  Forall (bline_ok (contest_info_of headers)) blines ->
  forall bid cid : key,
    match lookup2 (from_raire ([t0] :: headers ++ blines)) bid cid,
          lookup2 (snd (load_contests_from_raire ([t0] :: headers ++ blines))) bid cid with
    | Some da, Some dg =>
        exists r, last_line blines cid bid = Some r /\ NoDup r /\
                  incl r (cands_of (contest_info_of headers) cid) /\
                  da = audit_ranks r /\ dg = gen_ballot (cands_of (contest_info_of headers) cid) r /\
                  decodes_audit da r /\ decodes_gen dg r
    | None, None => last_line blines cid bid = None
    | _, _ => False
    end.
Proof. exact readers_agree. Qed.
Print Assumptions C14_readers.
(* the order a dict decodes to is unique *)
Theorem C14_readers_unique : forall r s : list key, NoDup r -> NoDup s ->
  (forall c, index_of c r = index_of c s) -> r = s.
Proof. exact index_of_ext. Qed.
Print Assumptions C14_readers_unique.
(* end to end: on such a file every json assertion's assorter, applied to the CVR the audit read, equals
   (w - l + 1)/2 of the generator's verdicts on the cvr the generator read, for every ballot id and contest *)
Theorem C14_readers_assort : forall (t0 : tok) (headers blines : list row),
  tint t0 = Some (Z.of_nat (length headers)) ->
  Forall (bline_ok (contest_info_of headers)) blines ->
  forall bid va vg cid ja,
    dget (from_raire ([t0] :: headers ++ blines)) bid = Some va ->
    dget (snd (load_contests_from_raire ([t0] :: headers ++ blines))) bid = Some vg ->
    (assort_json cid (cands_of (contest_info_of headers) cid) ja va ==
     (inject_Z (is_vote_for_winner (rassertion_of cid ja) vg)
      - inject_Z (is_vote_for_loser (rassertion_of cid ja) vg) + 1) / 2)%Q.
Proof. exact file_assort. Qed.
Print Assumptions C14_readers_assort.
(* non-vacuity: two contests (5: candidates 11,12,13; 6: candidates 12,14), ballot id 20 appears in both contests and
   twice in contest 5 (the later line wins), ballot id 21 has an empty ranking *)
Example C14_readers_ex :
  let T n := mktok n None in
  let t0 := mktok 40%nat (Some 2) in
  let headers := [[T 30; T 5; mktok 41 (Some 3%Z); T 11; T 12; T 13; T 0; T 11; T 2; mktok 42 (Some 4%Z)];
                  [T 30; T 6; mktok 40 (Some 2%Z); T 12; T 14; T 0; T 14]]%nat in
  let blines := [[T 5; T 20; T 12; T 11]; [T 6; T 20; T 14]; [T 5; T 21]; [T 5; T 20; T 13; T 11; T 12]]%nat in
  tint t0 = Some (Z.of_nat (length headers)) /\
  Forall (bline_ok (contest_info_of headers)) blines /\
  from_raire ([t0] :: headers ++ blines)
  = [(20, [(5, [(13, 1%Z); (11, 2%Z); (12, 3%Z)]); (6, [(14, 1%Z)])]); (21, [(5, [])])]%nat /\
  load_contests_from_raire ([t0] :: headers ++ blines)
  = ([(5, ([11; 12; 13], 7%Z)); (6, ([12; 14], 1%Z))],
     [(20, [(5, [(11, 1%Z); (12, 2%Z); (13, 0%Z)]); (6, [(14, 0%Z)])]); (21, [(5, [])])])%nat.
Proof.
  cbv zeta. split; [reflexivity|]. split.
  - apply Forall_cons; [|apply Forall_cons; [|apply Forall_cons; [|apply Forall_cons; [|apply Forall_nil]]]].
    + eexists _, _, _. split; [reflexivity|]. split; [repeat constructor; simpl; intuition discriminate|].
      intros x [H|[H|[]]]; subst; vm_compute; auto.
    + eexists _, _, _. split; [reflexivity|]. split; [repeat constructor; simpl; intuition discriminate|].
      intros x [H|[]]; subst; vm_compute; auto.
    + eexists _, _, _. split; [reflexivity|]. split; [constructor|]. intros x [].
    + eexists _, _, _. split; [reflexivity|]. split; [repeat constructor; simpl; intuition discriminate|].
      intros x [H|[H|[H|[]]]]; subst; vm_compute; auto.
  - split; vm_compute; reflexivity.
Qed.

(* ---- re-tally: the assertions the generator builds (NEBAssertion(contest.name, c, d) with tallies summed over the
   cvrs, compute_raire_assertions L82-96; NENAssertion(contest.name, first, later, eliminated) with tallies summed over
   the contest's ballots, find_best_audit L712-736) reproduce votes_for_winner / votes_for_loser when re-applied through
   their own predicates to the cvrs — cards lacking the contest and other contests' entries included. *)
Theorem C14_retally : forall (name : key) (cvrs : list (key * gcvr)),
  (forall c d, let '(a, vw, vl) := gen_neb name c d cvrs in vw = retally_w a cvrs /\ vl = retally_l a cvrs) /\
  (forall w l el, let '(a, vw, vl) := gen_nen name w l el cvrs in vw = retally_w a cvrs /\ vl = retally_l a cvrs).
Proof. exact retally_all. Qed.
Print Assumptions C14_retally.
Example C14_retally_ex :
  let cvrs : list (key * gcvr) :=
    [(20, [(5, [(11, 1%Z); (12, 2%Z); (13, 0%Z)]); (6, [(14, 0%Z)])]); (21, [(5, [(12, 0%Z)])]);
     (22, [(6, [(12, 0%Z)])]); (23, [(5, [(11, 0%Z); (13, 1%Z)])])]%nat in
  gen_nen 5%nat 11%nat 12%nat [13%nat] cvrs = (RNEN 5 11 12 [13], 2%Z, 1%Z)%nat /\
  gen_neb 5%nat 11%nat 12%nat cvrs = (RNEB 5 11 12, 1%Z, 1%Z)%nat /\
  (* what the pre-fix code stored (a key that is never `in cvr`) would not re-tally *)
  retally_w (RNEN 99 11 12 [13])%nat cvrs = 0.
Proof. cbv zeta. repeat split; vm_compute; reflexivity. Qed.
