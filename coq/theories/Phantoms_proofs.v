(* Phantoms_proofs.v — lemmas about phantom creation and phantom scoring (model: Phantoms.v), for all inputs. *)
From SV Require Export Phantoms.
From Coq Require Import FinFun.
Open Scope Z_scope.

(* ---------------------------------------------------------------- small facts *)
Definition cl (k : Z) (l : list card) : nat := length (filter (fun c => has_contest c k) l).
Lemma count_listing_cl k l : count_listing k l = Z.of_nat (cl k l).
Proof. reflexivity. Qed.

Lemma cl_app k l m : cl k (l ++ m) = (cl k l + cl k m)%nat.
Proof. unfold cl. now rewrite filter_app, app_length. Qed.

Lemma cl_zero k l : cl k l = 0%nat <-> forall c, In c l -> has_contest c k = false.
Proof.
  unfold cl. induction l as [|a r IH]; simpl.
  - split; auto. intros _ c [].
  - destruct (has_contest a k) eqn:E; simpl.
    + split; [discriminate|]. intro H. specialize (H a (or_introl eq_refl)). congruence.
    + rewrite IH. split.
      * intros H c [<-|Hc]; auto.
      * intros H c Hc. apply H. now right.
Qed.

Lemma has_contest_add_same k c : has_contest (add_contest k c) k = true.
Proof.
  unfold add_contest. destruct (has_contest c k) eqn:E; auto.
  unfold has_contest. simpl. rewrite existsb_app. simpl. rewrite Z.eqb_refl. now rewrite orb_true_r.
Qed.
Lemma has_contest_add_other k k' c : k' <> k -> has_contest (add_contest k c) k' = has_contest c k'.
Proof.
  intro Hne. unfold add_contest. destruct (has_contest c k) eqn:E; auto.
  unfold has_contest. simpl. rewrite existsb_app. simpl.
  destruct (Z.eqb k' k) eqn:E2; [apply Z.eqb_eq in E2; contradiction|]. now rewrite !orb_false_r.
Qed.
Lemma cid_add k c : cid (add_contest k c) = cid c.
Proof. unfold add_contest. destruct (has_contest c k); reflexivity. Qed.
Lemma cphantom_add k c : cphantom (add_contest k c) = cphantom c.
Proof. unfold add_contest. destruct (has_contest c k); reflexivity. Qed.

Lemma has_contest_new tp pool i k : has_contest (new_phantom tp pool i) k = false.
Proof. reflexivity. Qed.

(* ---------------------------------------------------------------- grow_n *)
Definition ids_ok (phs : list card) : Prop :=
  map cid phs = map (fun i => Phant (Z.of_nat i + 1)) (seq 0 (length phs)).
Definition is_ph (c : card) : Prop := cphantom c = true.

Lemma ids_ok_snoc tp pool phs : ids_ok phs -> ids_ok (phs ++ [new_phantom tp pool (Z.of_nat (length phs) + 1)]).
Proof.
  unfold ids_ok. intro H. rewrite map_app, app_length. simpl.
  rewrite Nat.add_1_r, seq_S, map_app. simpl. now rewrite H.
Qed.

Lemma grow_n_spec tp pool n : forall phs,
  length (grow_n tp pool n phs) = (length phs + n)%nat
  /\ (forall k, cl k (grow_n tp pool n phs) = cl k phs)
  /\ (ids_ok phs -> ids_ok (grow_n tp pool n phs))
  /\ (Forall is_ph phs -> Forall is_ph (grow_n tp pool n phs)).
Proof.
  induction n as [|n IH]; simpl; intro phs.
  - repeat split; auto.
  - destruct (IH (phs ++ [new_phantom tp pool (Z.of_nat (length phs) + 1)])) as [Hl [Hc [Hi Hp]]].
    split; [|split; [|split]].
    + rewrite Hl, app_length. simpl. lia.
    + intro k. rewrite Hc, cl_app. unfold cl at 2. simpl. lia.
    + intro H. apply Hi. now apply ids_ok_snoc.
    + intro H. apply Hp. apply Forall_app. split; auto. constructor; [reflexivity|constructor].
Qed.

(* ---------------------------------------------------------------- mark_first *)
Lemma mark_first_length n k : forall phs, length (mark_first n k phs) = length phs.
Proof. induction n as [|n IH]; intros [|c r]; simpl; auto. Qed.
Lemma mark_first_cid n k : forall phs, map cid (mark_first n k phs) = map cid phs.
Proof. induction n as [|n IH]; intros [|c r]; simpl; auto. now rewrite cid_add, IH. Qed.
Lemma mark_first_ph n k : forall phs, Forall is_ph phs -> Forall is_ph (mark_first n k phs).
Proof.
  induction n as [|n IH]; intros [|c r] H; simpl; auto.
  inversion H; subst. constructor; auto. unfold is_ph. now rewrite cphantom_add.
Qed.
Lemma mark_first_cl_other n k k' : k' <> k -> forall phs, cl k' (mark_first n k phs) = cl k' phs.
Proof.
  intro Hne. induction n as [|n IH]; intros [|c r]; simpl; auto.
  unfold cl in *. simpl. rewrite has_contest_add_other by auto.
  destruct (has_contest c k'); simpl; now rewrite IH.
Qed.
Lemma mark_first_cl_same n k : forall phs,
  (n <= length phs)%nat -> cl k phs = 0%nat -> cl k (mark_first n k phs) = n.
Proof.
  induction n as [|n IH]; intros phs Hle H0.
  - destruct phs; simpl; auto.
  - destruct phs as [|c r]; simpl in *; [lia|].
    unfold cl in *. simpl in *. rewrite has_contest_add_same. simpl.
    destruct (has_contest c k); simpl in H0; [discriminate|].
    rewrite IH; auto. lia.
Qed.

(* ---------------------------------------------------------------- the per-contest loop *)
Definition short (k : cstate) : Z := match cs_cards k with Some b => b - cs_cvrs k | None => 0 end.
Fixpoint max_short (ks : list cstate) : Z :=
  match ks with [] => 0 | k :: r => Z.max (short k) (max_short r) end.

Lemma style_step_spec tp pool phs k phs' :
  style_step tp pool phs k = Ok phs' ->
  exists b, cs_cards k = Some b
  /\ Z.of_nat (length phs') = Z.max (Z.of_nat (length phs)) (b - cs_cvrs k)
  /\ (ids_ok phs -> ids_ok phs') /\ (Forall is_ph phs -> Forall is_ph phs')
  /\ (forall k', k' <> cs_id k -> cl k' phs' = cl k' phs)
  /\ (cl (cs_id k) phs = 0%nat -> Z.of_nat (cl (cs_id k) phs') = Z.max 0 (b - cs_cvrs k)).
Proof.
  unfold style_step. destruct (cs_cards k) as [b|]; [|discriminate].
  intro H. inversion H; subst; clear H. exists b. split; auto.
  set (needed := b - cs_cvrs k).
  destruct (grow_n_spec tp pool (Z.to_nat (needed - Z.of_nat (length phs))) phs) as [Hl [Hc [Hi Hp]]].
  split; [|split; [|split; [|split]]].
  - rewrite mark_first_length, Hl. lia.
  - intro Hok. unfold ids_ok. rewrite mark_first_cid, mark_first_length. now apply Hi.
  - intro Hph. apply mark_first_ph. now apply Hp.
  - intros k' Hne. rewrite mark_first_cl_other by auto. apply Hc.
  - intro H0. rewrite mark_first_cl_same.
    + lia.
    + rewrite Hl. lia.
    + now rewrite Hc.
Qed.

Lemma style_loop_inv tp pool : forall ks phs phs',
  style_loop tp pool phs ks = Ok phs' ->
  Z.of_nat (length phs') = Z.max (Z.of_nat (length phs)) (max_short ks)
  /\ (ids_ok phs -> ids_ok phs') /\ (Forall is_ph phs -> Forall is_ph phs')
  /\ (forall k', ~ In k' (map cs_id ks) -> cl k' phs' = cl k' phs)
  /\ (forall k, In k ks -> cs_cards k <> None).
Proof.
  induction ks as [|k r IH]; simpl; intros phs phs' H.
  - inversion H; subst. repeat split; auto. lia.
  - destruct (style_step tp pool phs k) as [phs1|e] eqn:E; [|discriminate].
    apply style_step_spec in E. destruct E as [b [Hb [Hl [Hi [Hp [Ho _]]]]]].
    apply IH in H. destruct H as [Hl' [Hi' [Hp' [Ho' Hc']]]].
    split; [|split; [|split; [|split]]]; auto.
    + unfold short at 1. rewrite Hb. lia.
    + intros k' Hn. rewrite Ho' by tauto. apply Ho. intro; subst; tauto.
    + intros k0 [<-|Hk0]; auto. congruence.
Qed.

Lemma style_loop_counts tp pool : forall ks phs phs',
  style_loop tp pool phs ks = Ok phs' -> NoDup (map cs_id ks) ->
  (forall k, In k ks -> cl (cs_id k) phs = 0%nat) ->
  forall k, In k ks -> Z.of_nat (cl (cs_id k) phs') = Z.max 0 (short k).
Proof.
  induction ks as [|k0 r IH]; simpl; intros phs phs' H Hnd H0 k Hk; [contradiction|].
  destruct (style_step tp pool phs k0) as [phs1|e] eqn:E; [|discriminate].
  apply style_step_spec in E. destruct E as [b [Hb [_ [_ [_ [Ho Hs]]]]]].
  inversion Hnd as [|? ? Hnotin Hnd']; subst.
  destruct Hk as [<-|Hk].
  - apply style_loop_inv in H. destruct H as [_ [_ [_ [Ho' _]]]].
    rewrite Ho' by exact Hnotin. unfold short. rewrite Hb. apply Hs. apply H0. now left.
  - eapply IH; eauto. intros k1 Hk1. rewrite Ho.
    + apply H0. now right.
    + intro Heq. apply Hnotin. rewrite <- Heq. now apply in_map.
Qed.

Lemma style_loop_total tp pool : forall ks phs,
  (forall k, In k ks -> cs_cards k <> None) -> exists phs', style_loop tp pool phs ks = Ok phs'.
Proof.
  induction ks as [|k r IH]; simpl; intros phs H; [eauto|].
  unfold style_step. destruct (cs_cards k) eqn:E; [|exfalso; eapply H; eauto].
  apply IH. intros k0 Hk0. apply H. now right.
Qed.

(* ---------------------------------------------------------------- make_phantoms *)
Definition no_phantoms (l : list card) : Prop := Forall (fun c => cphantom c = false) l.
(* the bound that applies to a contest: its own card bound, or the stratum's when it has none *)
Definition eff_bound (mc : option Z) (kc : Z * option Z) : option Z :=
  match snd kc with None => mc | Some b => Some b end.
Definition bounds_ok_style (mc : option Z) (contests : list (Z * option Z)) (cvrs : list card) : Prop :=
  forall kc, In kc contests -> exists b, eff_bound mc kc = Some b /\ real_count (fst kc) cvrs <= b.
Definition first_ids (n : nat) : list ident := map (fun i => Phant (Z.of_nat i + 1)) (seq 0 n).

Lemma real_count_no_phantoms k l : no_phantoms l -> real_count k l = count_listing k l.
Proof.
  unfold real_count, count_listing. intro H. f_equal. f_equal.
  induction H as [|c r Hc _ IH]; simpl; auto. rewrite Hc. simpl. now rewrite IH.
Qed.

Lemma set_params_style mc cvrs kc :
  set_params true mc cvrs kc = mkcs (fst kc) (eff_bound mc kc) (real_count (fst kc) cvrs).
Proof. unfold set_params, eff_bound. destruct (snd kc); reflexivity. Qed.
Lemma set_params_nostyle mc cvrs kc :
  set_params false mc cvrs kc = mkcs (fst kc) mc (real_count (fst kc) cvrs).
Proof. unfold set_params. destruct (snd kc); reflexivity. Qed.

Lemma NoDup_app_disj {A} (l m : list A) :
  NoDup l -> NoDup m -> (forall x, In x l -> ~ In x m) -> NoDup (l ++ m).
Proof.
  induction l as [|a r IH]; simpl; intros Hl Hm Hd; auto.
  inversion Hl; subst. constructor.
  - rewrite in_app_iff. intros [H|H]; [contradiction|]. eapply Hd; eauto.
  - apply IH; auto.
Qed.

Lemma first_ids_nodup n : NoDup (first_ids n).
Proof.
  unfold first_ids. apply Injective_map_NoDup; [|apply seq_NoDup].
  intros x y H. inversion H. lia.
Qed.

Lemma max_short_nonneg ks : 0 <= max_short ks.
Proof. induction ks; simpl; lia. Qed.

(* everything make_phantoms guarantees about a successful call, whatever the bounds *)
Lemma make_phantoms_shape strata contests cvrs tp pool out n ks :
  make_phantoms strata contests cvrs tp pool = Ok (out, n, ks) ->
  exists use_style mc phs,
    strata = [(use_style, mc)] /\ out = cvrs ++ phs /\ Forall is_ph phs /\ map cid phs = first_ids (length phs)
    /\ Z.of_nat (length phs) = Z.max 0 n
    /\ ks = map (set_params use_style mc cvrs) contests
    /\ (use_style = false -> exists m, mc = Some m /\ n = m - Z.of_nat (length cvrs))
    /\ (use_style = true -> n = max_short ks /\ style_loop tp pool [] ks = Ok phs).
Proof.
  unfold make_phantoms. destruct strata as [|[us mc] [|s2 r]]; try discriminate.
  destruct us; simpl.
  - destruct (style_loop tp pool [] (map (set_params true mc cvrs) contests)) as [phs|e] eqn:E; [|discriminate].
    intro H. inversion H; subst; clear H. exists true, mc, phs.
    pose proof (style_loop_inv _ _ _ _ _ E) as [Hl [Hi [Hp _]]]. simpl in Hl.
    pose proof (max_short_nonneg (map (set_params true mc cvrs) contests)) as Hnn.
    split; [reflexivity|]. split; [reflexivity|]. split; [apply Hp; constructor|].
    split; [apply Hi; reflexivity|]. split; [lia|]. split; [reflexivity|].
    split; [discriminate|]. intros _. split; [lia|exact E].
  - destruct mc as [m|]; [|discriminate].
    intro H. inversion H; subst; clear H.
    exists false, (Some m). eexists.
    split; [reflexivity|]. split; [reflexivity|]. split.
    { apply Forall_forall. intros c Hc. apply in_map_iff in Hc. destruct Hc as [i [<- _]]. reflexivity. }
    split. { rewrite map_map, map_length, seq_length. reflexivity. }
    split. { rewrite map_length, seq_length. lia. }
    split; [reflexivity|]. split; [intros _; eauto|discriminate].
Qed.

(* C08_counts_style *)
Lemma counts_style mc contests cvrs tp pool :
  NoDup (map fst contests) -> no_phantoms cvrs -> bounds_ok_style mc contests cvrs ->
  exists phs, make_phantoms [(true, mc)] contests cvrs tp pool
              = Ok (cvrs ++ phs, Z.of_nat (length phs),
                    map (fun kc => mkcs (fst kc) (eff_bound mc kc) (real_count (fst kc) cvrs)) contests)
    /\ (forall kc b, In kc contests -> eff_bound mc kc = Some b -> count_listing (fst kc) (cvrs ++ phs) = b).
Proof.
  intros Hnd Hnp Hb. unfold make_phantoms. simpl.
  assert (Eks : map (set_params true mc cvrs) contests
                = map (fun kc => mkcs (fst kc) (eff_bound mc kc) (real_count (fst kc) cvrs)) contests).
  { apply map_ext. intro kc. apply set_params_style. }
  rewrite Eks. clear Eks.
  set (ks := map (fun kc : Z * option Z => mkcs (fst kc) (eff_bound mc kc) (real_count (fst kc) cvrs)) contests).
  destruct (style_loop_total tp pool ks []) as [phs E].
  { intros k Hk. unfold ks in Hk. apply in_map_iff in Hk. destruct Hk as [kc [<- Hkc]]. simpl.
    destruct (Hb kc Hkc) as [b [-> _]]. discriminate. }
  rewrite E. exists phs. split; auto.
  intros kc b Hkc Hbk.
  rewrite count_listing_cl, cl_app, Nat2Z.inj_add, <- !count_listing_cl.
  rewrite <- real_count_no_phantoms by auto.
  assert (Hin : In (mkcs (fst kc) (eff_bound mc kc) (real_count (fst kc) cvrs)) ks).
  { unfold ks. apply in_map_iff. eauto. }
  pose proof (style_loop_counts tp pool ks [] phs E) as Hc.
  assert (Hnd' : NoDup (map cs_id ks)) by (unfold ks; rewrite map_map; exact Hnd).
  specialize (Hc Hnd' (fun _ _ => eq_refl) _ Hin). simpl in Hc. unfold short in Hc. simpl in Hc. rewrite Hbk in Hc.
  rewrite count_listing_cl, Hc.
  destruct (Hb kc Hkc) as [b' [Eb' Hle]]. rewrite Hbk in Eb'. inversion Eb'; subst. lia.
Qed.

(* C08_counts_nostyle *)
Lemma counts_nostyle mc contests cvrs tp pool :
  Z.of_nat (length cvrs) <= mc ->
  exists phs, make_phantoms [(false, Some mc)] contests cvrs tp pool
              = Ok (cvrs ++ phs, mc - Z.of_nat (length cvrs),
                    map (fun kc => mkcs (fst kc) (Some mc) (real_count (fst kc) cvrs)) contests)
    /\ Z.of_nat (length (cvrs ++ phs)) = mc
    /\ Z.of_nat (length phs) = mc - Z.of_nat (length cvrs).
Proof.
  intro Hle. unfold make_phantoms. simpl. eexists. split; [|split].
  - f_equal. f_equal. apply map_ext. intro kc. apply set_params_nostyle.
  - rewrite app_length, map_length, seq_length. lia.
  - rewrite map_length, seq_length. lia.
Qed.

(* C08_originals_first *)
Lemma originals_first strata contests cvrs tp pool out n ks :
  make_phantoms strata contests cvrs tp pool = Ok (out, n, ks) ->
  exists phs, out = cvrs ++ phs /\ firstn (length cvrs) out = cvrs /\ Forall (fun c => cphantom c = true) phs
              /\ Z.of_nat (length phs) = Z.max 0 n.
Proof.
  intro H. apply make_phantoms_shape in H. destruct H as [us [mc [phs [_ [-> [Hp [_ [Hl _]]]]]]]].
  exists phs. repeat split; auto.
  rewrite firstn_app, Nat.sub_diag, firstn_all. simpl. now rewrite app_nil_r.
Qed.

(* C08_ids_unique *)
Lemma ids_unique strata contests cvrs tp pool out n ks :
  make_phantoms strata contests cvrs tp pool = Ok (out, n, ks) ->
  exists phs, out = cvrs ++ phs /\ map cid phs = first_ids (length phs) /\ NoDup (map cid phs)
    /\ (NoDup (map cid cvrs) -> (forall c j, In c cvrs -> cid c <> Phant j) -> NoDup (map cid out)).
Proof.
  intro H. apply make_phantoms_shape in H. destruct H as [us [mc [phs [_ [-> [_ [Hi _]]]]]]].
  exists phs. repeat split; auto.
  - rewrite Hi. apply first_ids_nodup.
  - intros Hnd Hno. rewrite map_app. apply NoDup_app_disj; auto.
    + rewrite Hi. apply first_ids_nodup.
    + intros x Hx Hx'. rewrite Hi in Hx'. unfold first_ids in Hx'.
      apply in_map_iff in Hx. destruct Hx as [c [<- Hc]].
      apply in_map_iff in Hx'. destruct Hx' as [i [Hi' _]]. eapply Hno; eauto.
Qed.

(* C08_no_excess *)
Lemma no_excess_style mc contests cvrs tp pool out n ks :
  make_phantoms [(true, mc)] contests cvrs tp pool = Ok (out, n, ks) ->
  n = max_short ks /\ Z.of_nat (length out) = Z.of_nat (length cvrs) + max_short ks
  /\ ks = map (fun kc => mkcs (fst kc) (eff_bound mc kc) (real_count (fst kc) cvrs)) contests.
Proof.
  intro H. apply make_phantoms_shape in H.
  destruct H as [us [mc' [phs [Hs [-> [_ [_ [Hl [Hks [_ Hst]]]]]]]]]].
  inversion Hs; subst us mc'. destruct (Hst eq_refl) as [Hn _]. split; auto. split.
  - rewrite app_length. pose proof (max_short_nonneg ks). lia.
  - rewrite Hks. apply map_ext. intro kc. apply set_params_style.
Qed.

Lemma max_short_spec ks :
  (forall k, In k ks -> short k <= max_short ks) /\ (max_short ks = 0 \/ exists k, In k ks /\ short k = max_short ks).
Proof.
  induction ks as [|k r [IH1 IH2]]; simpl.
  - split; [intros ? []|now left].
  - split.
    + intros k0 [<-|Hk0]; [lia|]. specialize (IH1 k0 Hk0). lia.
    + destruct (Z.max_spec (short k) (max_short r)) as [[Hlt ->]|[Hge ->]].
      * destruct IH2 as [E|[k1 [Hk1 E]]]; [now left|right]. exists k1. split; auto.
      * right. exists k. split; auto.
Qed.

(* ---------------------------------------------------------------- overstatement *)
Open Scope Q_scope.

Definition pool_means_finite (pm : option (list (Z * Xq))) : Prop :=
  forall d key m, pm = Some d -> lookup key d = Some m -> exists q, m = Fin q.

Lemma cvr_assort_fin A pm cvr ca :
  pool_means_finite pm -> cvr_assort A pm cvr = Ok ca -> exists q, ca = Fin q.
Proof.
  unfold cvr_assort. intros Hf. destruct (cvr_uses_pool pm cvr).
  - destruct pm as [d|]; [|discriminate]. destruct (lookup (ctally_pool cvr) d) eqn:E; [|discriminate].
    intro H. inversion H; subst. eapply Hf; eauto.
  - intro H. inversion H. eauto.
Qed.

Lemma xdiv_fin a b : ~ b == 0 -> xdiv (Fin a) (Fin b) = Fin (a / b).
Proof. intro H. simpl. destruct (Qeq_bool b 0) eqn:E; auto. apply Qeq_bool_iff in E. contradiction. Qed.

Lemma oa_value A k pm u v us mvr cvr c :
  0 < u -> v < 2 * u -> (us && negb (has_contest cvr k) = false)%bool -> cvr_assort A pm cvr = Ok (Fin c) ->
  overstatement_assorter A k pm u v us mvr cvr
  = Ok (Fin ((1 + - ((c + - mvr_assort A k us mvr) / u)) / (2 - v / u))) /\ 0 < 2 - v / u.
Proof.
  intros Hu Hv Hg Hc.
  assert (HD : 0 < 2 - v / u).
  { assert (v / u < 2) by (apply Qlt_shift_div_r; auto). lra. }
  split; auto.
  unfold overstatement_assorter, overstatement. rewrite Hg, Hc. cbn [xsub xneg xadd].
  rewrite xdiv_fin by lra. cbn [xsub xneg xadd]. rewrite xdiv_fin by lra. reflexivity.
Qed.

Lemma mvr_assort_phantom A k us ph : cphantom ph = true -> mvr_assort A k us ph = 0.
Proof. intro H. unfold mvr_assort, mvr_assort_evaluated. now rewrite H. Qed.

Lemma mvr_assort_nonneg A k us mvr : (forall c, 0 <= A c) -> 0 <= mvr_assort A k us mvr.
Proof. intro H. unfold mvr_assort. destruct (mvr_assort_evaluated k us mvr); auto. lra. Qed.

(* C08_phantom_mvr_worst *)
Lemma phantom_mvr_worst (A : card -> Q) k pm u v us mvr ph cvr :
  0 < u -> v < 2 * u -> (forall c, 0 <= A c) -> cphantom ph = true -> pool_means_finite pm ->
  match overstatement_assorter A k pm u v us mvr cvr, overstatement_assorter A k pm u v us ph cvr with
  | Ok (Fin x), Ok (Fin y) => y <= x
  | Err e, Err e' => e = e'
  | _, _ => False
  end.
Proof.
  intros Hu Hv HA Hph Hf.
  destruct (us && negb (has_contest cvr k))%bool eqn:Hg.
  - unfold overstatement_assorter, overstatement. now rewrite Hg.
  - destruct (cvr_assort A pm cvr) as [ca|e] eqn:Hc.
    + destruct (cvr_assort_fin _ _ _ _ Hf Hc) as [c ->].
      destruct (oa_value A k pm u v us mvr cvr c Hu Hv Hg Hc) as [-> HD].
      destruct (oa_value A k pm u v us ph cvr c Hu Hv Hg Hc) as [-> _].
      rewrite (mvr_assort_phantom A k us ph Hph).
      pose proof (mvr_assort_nonneg A k us mvr HA) as Hm.
      set (a := mvr_assort A k us mvr) in *.
      unfold Qdiv. apply Qmult_le_compat_r.
      * assert (H : (c + - a) * / u <= (c + - 0) * / u).
        { apply Qmult_le_compat_r; [lra|]. apply Qlt_le_weak. now apply Qinv_lt_0_compat. }
        lra.
      * apply Qlt_le_weak. now apply Qinv_lt_0_compat.
    + unfold overstatement_assorter, overstatement. now rewrite Hg, Hc.
Qed.

(* the same for the overstatement itself: a phantom MVR gives the largest overstatement *)
Lemma phantom_mvr_overstatement (A : card -> Q) k pm us mvr ph cvr :
  (forall c, 0 <= A c) -> cphantom ph = true -> pool_means_finite pm ->
  match overstatement A k pm us mvr cvr, overstatement A k pm us ph cvr with
  | Ok (Fin x), Ok (Fin y) => x <= y
  | Err e, Err e' => e = e'
  | _, _ => False
  end.
Proof.
  intros HA Hph Hf. unfold overstatement.
  destruct (us && negb (has_contest cvr k))%bool; auto.
  destruct (cvr_assort A pm cvr) as [ca|e] eqn:Hc; auto.
  destruct (cvr_assort_fin _ _ _ _ Hf Hc) as [c ->]. simpl.
  rewrite (mvr_assort_phantom A k us ph Hph).
  pose proof (mvr_assort_nonneg A k us mvr HA). lra.
Qed.

(* C08_phantom_cvr_half *)
Lemma phantom_cvr_half (A : card -> Q) k pm us mvr cvr :
  cphantom cvr = true -> cvr_uses_pool pm cvr = false ->
  (exists q, cvr_assort A pm cvr = Ok (Fin q) /\ q == 1 # 2)
  /\ ((us && negb (has_contest cvr k))%bool = false ->
      exists o, overstatement A k pm us mvr cvr = Ok (Fin o) /\ o == (1 # 2) - mvr_assort A k us mvr).
Proof.
  intros Hph Hnp.
  assert (H1 : exists q, cvr_assort A pm cvr = Ok (Fin q) /\ q == 1 # 2).
  { unfold cvr_assort. rewrite Hnp, Hph. eexists. split; [reflexivity|]. unfold b2q. field. }
  split; auto.
  intro Hg. destruct H1 as [q [Hq Eq]]. unfold overstatement. rewrite Hg, Hq. simpl.
  eexists. split; [reflexivity|]. rewrite Eq. ring.
Qed.

(* a pooled phantom CVR scores its pool's mean (what the code does; C03 needs it) *)
Lemma pooled_cvr_scores_pool_mean (A : card -> Q) d cvr m :
  cpool cvr = true -> lookup (ctally_pool cvr) d = Some m -> cvr_assort A (Some d) cvr = Ok m.
Proof. intros Hp Hl. unfold cvr_assort, cvr_uses_pool. rewrite Hp. simpl. now rewrite Hl. Qed.
