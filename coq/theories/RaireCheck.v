(* RaireCheck.v — executable checkers for RAIRE outputs (no proofs here; see RaireCheck_proofs.v).
   suff_dec     : does a list of assertions exclude every complete elimination order ending in another candidate?
                  (search of the tree of outcome suffixes, pruned by NEB and NEN, as in the published algorithm and
                  as compute_raire_assertions' frontier does)
   check_output : a reported output (assertions with their reported tallies) is true of the profile and sufficient
   possible     : the set of ALL true NEB/NEN assertions is sufficient
   opt          : least difficulty d such that the true assertions of difficulty <= d are sufficient (minimax value
                  of the suffix tree), for a difficulty function given as a parameter
   cp_q, bp_q   : exact-rational versions of sample_estimator.cp_estimate / bp_estimate *)
From SV Require Export Irv.
Open Scope nat_scope.

(* cover a t rem: sufficient test that a contradicts EVERY order p ++ t with p an arrangement of rem
   (t = tail of the elimination order already fixed, rem = candidates not yet placed; cf. find_best_audit:
   NEB first_in_tail/later_cand, NEB eliminated/cand_in_tail, NEN with eliminated = candidates outside the tail) *)
Definition cover (a : assertion) (t rem : list cand) : bool :=
  match a with
  | NEB w l => mem l t && (mem w rem || before w l t)
  | NEN w l e => match prefix_before w t with Some pre => set_eq (rem ++ pre) e | None => false end
  end.

Definition rm (c : cand) (l : list cand) : list cand := remove Nat.eq_dec c l.

(* n = fuel >= length rem *)
Fixpoint suff_from (A : list assertion) (n : nat) (t rem : list cand) : bool :=
  existsb (fun a => cover a t rem) A ||
  match n with
  | 0 => false
  | S n' => match rem with
            | [] => false
            | _ => forallb (fun c => suff_from A n' (c :: t) (rm c rem)) rem
            end
  end.

Definition suff_dec (cands : list cand) (winner : cand) (A : list assertion) : bool :=
  forallb (fun c => Nat.eqb c winner || suff_from A (length cands) [c] (rm c cands)) cands.

(* ---- a reported output: assertion, reported votes_for_winner, reported votes_for_loser *)
Definition reported := (assertion * nat * nat)%type.
Definition rep_assertion (r : reported) : assertion := fst (fst r).
Definition rep_ok (cands : list cand) (p : profile) (r : reported) : bool :=
  match r with
  | (a, tw, tl) => wf_assertion cands a && Nat.eqb (tally_w p a) tw && Nat.eqb (tally_l p a) tl && Nat.ltb tl tw
  end.
Definition check_output (cands : list cand) (p : profile) (winner : cand) (out : list reported) : bool :=
  forallb (rep_ok cands p) out && suff_dec cands winner (map rep_assertion out).

(* ---- all assertions that can matter for a candidate list: every NEB w l and every NEN w l e with w <> l and
   e a sub-list of the other candidates *)
Fixpoint sublists (l : list cand) : list (list cand) :=
  match l with
  | [] => [[]]
  | x :: r => let s := sublists r in map (cons x) s ++ s
  end.
Definition all_assertions (cands : list cand) : list assertion :=
  flat_map (fun w => flat_map (fun l =>
     if Nat.eqb w l then [] else NEB w l :: map (NEN w l) (sublists (rm w (rm l cands)))) cands) cands.
Definition all_true (cands : list cand) (p : profile) : list assertion :=
  filter (holds cands p) (all_assertions cands).

Definition possible (cands : list cand) (p : profile) (winner : cand) : bool :=
  suff_dec cands winner (all_true cands p).

(* ---- optimum.  Values: Bot (nothing to exclude), Val d, Top (cannot be excluded) *)
Inductive ext : Type := Bot | Val (q : Q) | Top.
Definition ele (x : ext) (d : Q) : bool :=
  match x with Bot => true | Val q => Qle_bool q d | Top => false end.
Definition emin (x y : ext) : ext :=
  match x with
  | Bot => Bot
  | Top => y
  | Val a => match y with Bot => Bot | Top => x | Val b => Val (Qminb a b) end
  end.
Definition emax (x y : ext) : ext :=
  match x with
  | Bot => y
  | Top => Top
  | Val a => match y with Bot => x | Top => Top | Val b => Val (Qmaxb a b) end
  end.

Definition here (T : list (assertion * Q)) (t rem : list cand) : ext :=
  fold_right (fun aq m => if cover (fst aq) t rem then emin (Val (snd aq)) m else m) Top T.

Fixpoint opt_from (T : list (assertion * Q)) (n : nat) (t rem : list cand) : ext :=
  match n with
  | 0 => here T t rem
  | S n' => match rem with
            | [] => here T t rem
            | _ => emin (here T t rem)
                        (fold_right (fun c m => emax (opt_from T n' (c :: t) (rm c rem)) m) Bot rem)
            end
  end.

Definition opt_tree (T : list (assertion * Q)) (cands : list cand) (winner : cand) : ext :=
  fold_right (fun c m => if Nat.eqb c winner then m else emax (opt_from T (length cands) [c] (rm c cands)) m)
             Bot cands.

(* difficulty of an assertion on a profile: dfun votes_for_winner votes_for_loser total_ballots
   (asn_func(tally_w, tally_l, total - (tally_w + tally_l), total) in the implementation) *)
Definition diff_of (dfun : nat -> nat -> nat -> Q) (p : profile) (tot : nat) (a : assertion) : Q :=
  dfun (tally_w p a) (tally_l p a) tot.
Definition with_diff (dfun : nat -> nat -> nat -> Q) (p : profile) (tot : nat) (A : list assertion)
  : list (assertion * Q) := map (fun a => (a, diff_of dfun p tot a)) A.

Definition opt (dfun : nat -> nat -> nat -> Q) (cands : list cand) (p : profile) (tot : nat) (winner : cand) : ext :=
  opt_tree (with_diff dfun p tot (all_true cands p)) cands winner.

(* ---- the two shipped difficulty functions, exactly (sample_estimator.py L49-62)
   cp_estimate: 1 / (2 (w + other/2)/total - 1) with other = total - w - l, i.e. total / (w - l)
   bp_estimate: 1 / (p q^2) with p = (w+l)/total, q = (w-l)/(w+l) *)
Definition qn (n : nat) : Q := inject_Z (Z.of_nat n).
Definition cp_q (w l tot : nat) : Q :=
  let other := (qn tot - (qn w + qn l))%Q in
  Qred (1 / (2 * ((qn w + (1#2) * other) / qn tot) - 1))%Q.
Definition bp_q (w l tot : nat) : Q :=
  let p := ((qn w + qn l) / qn tot)%Q in
  let q := ((qn w - qn l) / (qn w + qn l))%Q in
  Qred (1 / (p * (q * q)))%Q.

Definition max_q (l : list Q) : Q := fold_right Qmaxb 0%Q l.
