(* Run_IrvRead.v — entry points evaluated by the correspondence harness (harness/c14.py) for property C14.
   Every case carries the inputs AND the implementation's outputs; agree_* compares inside Coq. *)
From SV Require Export IrvRead.
Open Scope Z_scope.

Fixpoint list_eqb {A} (eqb : A -> A -> bool) (l m : list A) : bool :=
  match l, m with
  | [], [] => true
  | x :: l', y :: m' => eqb x y && list_eqb eqb l' m'
  | _, _ => false
  end.
Definition pair_eqb {A B} (ea : A -> A -> bool) (eb : B -> B -> bool) (p q : A * B) : bool :=
  ea (fst p) (fst q) && eb (snd p) (snd q).
Definition rdict_eqb : rdict -> rdict -> bool := list_eqb (pair_eqb Nat.eqb Z.eqb).
Definition cvr_eqb : acvr -> acvr -> bool := list_eqb (pair_eqb Nat.eqb rdict_eqb).
Definition cvrs_eqb : list (key * acvr) -> list (key * acvr) -> bool := list_eqb (pair_eqb Nat.eqb cvr_eqb).
Definition opt_rdict_eqb (a b : option rdict) : bool :=
  match a, b with Some x, Some y => rdict_eqb x y | None, None => true | _, _ => false end.

(* ---------------------------------------------------------------------------------------------------------------
   1. one ballot x many assertions.
      b_cid    contest id the assertions are about
      b_cands  the `candidates` list passed to make_assertions_from_json
      b_rank   Some r when the ballot came from a RAIRE text line with ranking r (through BOTH real readers, the
               contest's candidate list being b_gcands), None when the rank dicts were written directly
      b_avotes CVR.votes of the audit-side ballot          (implementation output when b_rank is Some)
      b_gvotes the generator-side cvr {contest: index dict} (implementation output when b_rank is Some)
      b_outs   per json assertion: 2*assort(cvr) of the assorter built by make_assertions_from_json,
               is_vote_for_winner, is_vote_for_loser of the corresponding NEBAssertion / NENAssertion
      b_calls  direct calls of the two CVR methods: (inl (w,l), rcv_lfunc_wo) / (inr (cand, remaining), rcv_votefor_cand) *)
Record ballot_case := mkballot {
  b_cid : key; b_cands : list key; b_gcands : list key;
  b_rank : option (list key);
  b_avotes : acvr; b_gvotes : gcvr;
  b_outs : list (jassertion * Q * Z * Z);
  b_calls : list ((key * key + key * list key) * Z)
}.
Definition agree_out (c : ballot_case) (o : jassertion * Q * Z * Z) : bool :=
  match o with
  | (a, av, gw, gl) =>
      Qeq_bool (assort_json (b_cid c) (b_cands c) a (b_avotes c)) av
      && (is_vote_for_winner (rassertion_of (b_cid c) a) (b_gvotes c) =? gw)
      && (is_vote_for_loser (rassertion_of (b_cid c) a) (b_gvotes c) =? gl)
  end.
Definition agree_call (c : ballot_case) (o : (key * key + key * list key) * Z) : bool :=
  match o with
  | (inl (w, l), z) => rcv_lfunc_wo (b_avotes c) (b_cid c) w l =? z
  | (inr (cand, remaining), z) => rcv_votefor_cand (b_avotes c) (b_cid c) cand remaining =? z
  end.
Definition agree_ballot (c : ballot_case) : bool :=
  match b_rank c with
  | Some r => cvr_eqb (b_avotes c) [(b_cid c, audit_ranks r)]
              && cvr_eqb (b_gvotes c) [(b_cid c, gen_ballot (b_gcands c) r)]
  | None => true
  end
  && forallb (agree_out c) (b_outs c) && forallb (agree_call c) (b_calls c).
Definition show_ballot (c : ballot_case) :=
  (option_map audit_ranks (b_rank c), option_map (gen_ballot (b_gcands c)) (b_rank c),
   map (fun o => match o with (a, _, _, _) =>
                   (assort_json (b_cid c) (b_cands c) a (b_avotes c),
                    is_vote_for_winner (rassertion_of (b_cid c) a) (b_gvotes c),
                    is_vote_for_loser (rassertion_of (b_cid c) a) (b_gvotes c)) end)
       (filter (fun o => negb (agree_out c o)) (b_outs c)),
   filter (fun o => negb (agree_call c o)) (b_calls c)).

(* ---------------------------------------------------------------------------------------------------------------
   2. one RAIRE text file through both readers: rows (tokens), CVR.from_raire_file's CVR list as (id, votes),
      load_contests_from_raire's contests (name, candidates, tot_ballots) and cvrs *)
Record file_case := mkfile {
  f_rows : list row;
  f_audit : list (key * acvr);
  f_contests : list (key * (list key * Z));
  f_gen : list (key * gcvr)
}.
Definition contest_eqb (a b : key * (list key * Z)) : bool :=
  pair_eqb Nat.eqb (pair_eqb (list_eqb Nat.eqb) Z.eqb) a b.
Definition agree_file (c : file_case) : bool :=
  cvrs_eqb (from_raire (f_rows c)) (f_audit c)
  && list_eqb contest_eqb (fst (load_contests_from_raire (f_rows c))) (f_contests c)
  && cvrs_eqb (snd (load_contests_from_raire (f_rows c))) (f_gen c).
Definition show_file (c : file_case) := (from_raire (f_rows c), load_contests_from_raire (f_rows c)).

(* ---------------------------------------------------------------------------------------------------------------
   3. re-tally: the assertions compute_raire_assertions returned for contest `t_name` on `t_cvrs`, each with the
      contest key stored on the object, votes_for_winner / votes_for_loser, and the sums of its own predicates
      over the cvrs as evaluated by the implementation *)
Record tally_case := mktally {
  t_name : key; t_cvrs : list (key * gcvr);
  t_asrts : list (rassertion * (Z * Z) * (Z * Z))
}.
Definition rassertion_eqb (a b : rassertion) : bool :=
  match a, b with
  | RNEB c w l, RNEB c' w' l' => Nat.eqb c c' && Nat.eqb w w' && Nat.eqb l l'
  | RNEN c w l e, RNEN c' w' l' e' => Nat.eqb c c' && Nat.eqb w w' && Nat.eqb l l' && list_eqb Nat.eqb e e'
  | _, _ => false
  end.
Definition model_gen (name : key) (a : rassertion) (cvrs : list (key * gcvr)) : rassertion * Z * Z :=
  match a with
  | RNEB _ w l => gen_neb name w l cvrs
  | RNEN _ w l e => gen_nen name w l e cvrs
  end.
Definition agree_asrt (c : tally_case) (o : rassertion * (Z * Z) * (Z * Z)) : bool :=
  match o with
  | (a, (vw, vl), (rw, rl)) =>
      match model_gen (t_name c) a (t_cvrs c) with
      | (a', mw, ml) => rassertion_eqb a a' && (mw =? vw) && (ml =? vl)
      end
      && (retally_w a (t_cvrs c) =? rw) && (retally_l a (t_cvrs c) =? rl)
  end.
Definition agree_tally (c : tally_case) : bool := forallb (agree_asrt c) (t_asrts c).
Definition show_tally (c : tally_case) :=
  map (fun o => match o with (a, _, _) =>
         (model_gen (t_name c) a (t_cvrs c), retally_w a (t_cvrs c), retally_l a (t_cvrs c)) end)
      (filter (fun o => negb (agree_asrt c o)) (t_asrts c)).
