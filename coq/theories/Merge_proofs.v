(* Merge_proofs.v — lemmas about the model in Merge.v (property C18).  All by induction over arbitrary record
   lists; stdlib only. *)
From Coq Require Import ZArith List Bool Lia.
From SV Require Import Merge.
Import ListNotations.
Open Scope Z_scope.

(* ---------------------------------------------------------------- Python values *)
Lemma truthy_and : forall a b, truthy (py_and a b) = truthy a && truthy b.
Proof. intros a b. unfold py_and. destruct (truthy a) eqn:E; simpl; auto. Qed.
Lemma truthy_or : forall a b, truthy (py_or a b) = truthy a || truthy b.
Proof. intros a b. unfold py_or. destruct (truthy a) eqn:E; simpl; auto. Qed.
Lemma is_bool_and : forall a b, is_bool a = true -> is_bool b = true -> is_bool (py_and a b) = true.
Proof. intros a b A B. unfold py_and. destruct (truthy a); auto. Qed.
Lemma is_bool_or : forall a b, is_bool a = true -> is_bool b = true -> is_bool (py_or a b) = true.
Proof. intros a b A B. unfold py_or. destruct (truthy a); auto. Qed.
Lemma is_bool_val : forall v, is_bool v = true -> v = PBool (truthy v).
Proof. destruct v; simpl; intros; try discriminate; reflexivity. Qed.

Lemma py_eq_refl : forall a, py_eq a a = true.
Proof. destruct a; simpl; auto; apply Z.eqb_refl. Qed.
Lemma py_eq_sym : forall a b, py_eq a b = py_eq b a.
Proof. intros x y. destruct x, y; simpl; try reflexivity; apply Z.eqb_sym. Qed.
Lemma py_eq_trans : forall a b c, py_eq a b = true -> py_eq b c = true -> py_eq a c = true.
Proof.
  intros x y w. destruct x as [|bx|zx|sx], y as [|by_|zy|sy], w as [|bw|zw|sw]; simpl; try discriminate; auto;
    rewrite ?Z.eqb_eq; intros; subst; auto; try lia;
    repeat match goal with b : bool |- _ => destruct b end; try lia; auto.
Qed.

(* ---------------------------------------------------------------- dicts *)
Section DictFacts.
  Context {V : Type}.
  Lemma get_set_same : forall (d : list (Z * V)) k v, dict_get (dict_set d k v) k = Some v.
  Proof.
    induction d as [|[k' v'] d IH]; intros k v; simpl.
    - rewrite Z.eqb_refl. reflexivity.
    - destruct (k' =? k) eqn:E; simpl; rewrite E; auto.
  Qed.
  Lemma get_set_other : forall (d : list (Z * V)) k v k', k' <> k -> dict_get (dict_set d k v) k' = dict_get d k'.
  Proof.
    induction d as [|[k0 v0] d IH]; intros k v k' H; simpl.
    - destruct (k =? k') eqn:E; auto. apply Z.eqb_eq in E. congruence.
    - destruct (k0 =? k) eqn:E; simpl.
      + apply Z.eqb_eq in E. subst. destruct (k =? k') eqn:E'; auto. apply Z.eqb_eq in E'. congruence.
      + destruct (k0 =? k'); auto.
  Qed.
  Lemma get_app_last : forall (d : list (Z * V)) k0 v0 k,
    dict_get (d ++ [(k0, v0)]) k = match dict_get d k with Some v => Some v | None => if k0 =? k then Some v0 else None end.
  Proof. induction d as [|[k1 v1] d IH]; intros; simpl; auto. destruct (k1 =? k); auto. Qed.
  Lemma get_notin : forall (d : list (Z * V)) k, ~ In k (map fst d) -> dict_get d k = None.
  Proof.
    induction d as [|[k1 v1] d IH]; intros k H; simpl in *; auto.
    destruct (k1 =? k) eqn:E; [apply Z.eqb_eq in E; tauto | apply IH; tauto].
  Qed.
  Lemma get_rev_nodup : forall (d : list (Z * V)) k, NoDup (map fst d) -> dict_get (rev d) k = dict_get d k.
  Proof.
    induction d as [|[k1 v1] d IH]; intros k H; simpl in *; auto.
    inversion H as [|? ? Hnotin Hnd]; subst. rewrite get_app_last, IH by auto.
    destruct (k1 =? k) eqn:E.
    - apply Z.eqb_eq in E. subst. rewrite get_notin by auto. reflexivity.
    - destruct (dict_get d k); auto.
  Qed.
  (* {**a, **b}[k] is b's entry if b has the key, else a's *)
  Lemma merge_get_rev : forall (b a : list (Z * V)) k,
    dict_get (dict_merge a b) k = match dict_get (rev b) k with Some v => Some v | None => dict_get a k end.
  Proof.
    unfold dict_merge. induction b as [|[k0 v0] b IH]; intros a k; simpl; auto.
    rewrite IH, get_app_last. destruct (dict_get (rev b) k); auto.
    destruct (k0 =? k) eqn:E.
    - apply Z.eqb_eq in E. subst. apply get_set_same.
    - apply get_set_other. apply Z.eqb_neq in E. congruence.
  Qed.
  Lemma merge_get : forall (a b : list (Z * V)) k, NoDup (map fst b) ->
    dict_get (dict_merge a b) k = match dict_get b k with Some v => Some v | None => dict_get a k end.
  Proof. intros. rewrite merge_get_rev, get_rev_nodup; auto. Qed.
End DictFacts.

(* ---------------------------------------------------------------- first-appearance order *)
Definition mem (x : Z) (l : list Z) : bool := existsb (Z.eqb x) l.
Fixpoint dedup_seen (seen : list Z) (l : list Z) : list Z :=
  match l with
  | [] => []
  | x :: r => if mem x seen then dedup_seen seen r else x :: dedup_seen (x :: seen) r
  end.
(* the distinct elements of l in order of first appearance *)
Definition dedup (l : list Z) : list Z := dedup_seen [] l.

Lemma mem_In : forall x l, mem x l = true <-> In x l.
Proof.
  intros x l. unfold mem. rewrite existsb_exists. split.
  - intros (y & Hy & E). apply Z.eqb_eq in E. subst. auto.
  - intros H. exists x. split; auto. apply Z.eqb_refl.
Qed.
Lemma dedup_seen_ext : forall l s1 s2, (forall x, mem x s1 = mem x s2) -> dedup_seen s1 l = dedup_seen s2 l.
Proof.
  induction l as [|x l IH]; intros s1 s2 H; simpl; auto.
  rewrite (H x). destruct (mem x s2); [apply IH; auto|]. f_equal. apply IH.
  intros y. simpl. rewrite (H y). reflexivity.
Qed.
Lemma dedup_seen_spec : forall l seen,
  NoDup (dedup_seen seen l) /\ forall x, In x (dedup_seen seen l) <-> (In x l /\ ~ In x seen).
Proof.
  induction l as [|y l IH]; intros seen; simpl.
  - split; [constructor | intros x; tauto].
  - destruct (mem y seen) eqn:E.
    + destruct (IH seen) as [A B]. split; auto. intros x. rewrite B. apply mem_In in E.
      split; [tauto|]. intros [[H|H] N]; [subst; tauto | tauto].
    + destruct (IH (y :: seen)) as [A B]. assert (~ In y seen) by (rewrite <- mem_In; congruence). split.
      * constructor; auto. rewrite B. simpl. tauto.
      * intros x. simpl. rewrite B. simpl. split.
        -- intros [H1|[H1 H2]]; [subst; tauto | tauto].
        -- intros [[H1|H1] H2]; [left; auto|]. destruct (Z.eq_dec y x); [left; auto | right; tauto].
Qed.
Lemma dedup_nodup : forall l, NoDup (dedup l).
Proof. intros; apply dedup_seen_spec. Qed.
Lemma dedup_in : forall l x, In x (dedup l) <-> In x l.
Proof. intros l x. unfold dedup. rewrite (proj2 (dedup_seen_spec l [])). simpl. tauto. Qed.

(* ---------------------------------------------------------------- the ordered dictionary *)
Definition ids (l : list rec) : list Z := map c_id l.
(* records of l carrying identifier i, in order *)
Definition group (i : Z) (l : list rec) : list rec := filter (fun c => c_id c =? i) l.
(* merging the records g one after the other into o *)
Fixpoint fold_merge (o : rec) (g : list rec) : res rec :=
  match g with
  | [] => Ok o
  | c :: g' => match merge_into o c with Ok o' => fold_merge o' g' | Err e => Err e end
  end.

Lemma merge_into_id : forall o c o', merge_into o c = Ok o' -> c_id o' = c_id o.
Proof.
  intros o c o' H. unfold merge_into in H.
  destruct (_ || _); [inversion H; reflexivity|]. destruct (_ && _); inversion H; reflexivity.
Qed.
Lemma merge_into_err : forall o c e, merge_into o c = Err e -> e = EValue.
Proof.
  intros o c e H. unfold merge_into in H.
  destruct (_ || _); [discriminate|]. destruct (_ && _); inversion H; reflexivity.
Qed.

Lemma find_some_id : forall od i o, od_find od i = Some o -> c_id o = i /\ In o od.
Proof.
  induction od as [|x od IH]; intros i o H; simpl in H; [discriminate|].
  destruct (c_id x =? i) eqn:E.
  - inversion H; subst. apply Z.eqb_eq in E. split; auto. left; auto.
  - destruct (IH _ _ H). split; auto. right; auto.
Qed.
Lemma find_none_ids : forall od i, od_find od i = None <-> ~ In i (ids od).
Proof.
  induction od as [|x od IH]; intros i; simpl; [tauto|].
  destruct (c_id x =? i) eqn:E.
  - apply Z.eqb_eq in E. split; [discriminate | tauto].
  - apply Z.eqb_neq in E. rewrite IH. tauto.
Qed.
Lemma find_app : forall od c i,
  od_find (od ++ [c]) i = match od_find od i with Some o => Some o | None => if c_id c =? i then Some c else None end.
Proof. induction od as [|x od IH]; intros; simpl; auto. destruct (c_id x =? i); auto. Qed.
Lemma replace_ids : forall od o', ids (od_replace od o') = ids od.
Proof.
  induction od as [|x od IH]; intros o'; simpl; auto.
  destruct (c_id x =? c_id o') eqn:E; simpl; [apply Z.eqb_eq in E; congruence | f_equal; apply IH].
Qed.
Lemma find_replace : forall od o' i,
  od_find (od_replace od o') i =
  if c_id o' =? i then match od_find od i with Some _ => Some o' | None => None end else od_find od i.
Proof.
  induction od as [|x od IH]; intros o' i; simpl; [destruct (c_id o' =? i); auto|].
  destruct (c_id x =? c_id o') eqn:E; simpl.
  - apply Z.eqb_eq in E. rewrite E. destruct (c_id o' =? i); auto.
  - rewrite IH. destruct (c_id o' =? i) eqn:E2; auto.
    apply Z.eqb_eq in E2. subst. rewrite E. reflexivity.
Qed.
Lemma find_in_nodup : forall od o, NoDup (ids od) -> In o od -> od_find od (c_id o) = Some o.
Proof.
  induction od as [|x od IH]; intros o Hnd Hin; simpl in *; [destruct Hin|].
  inversion Hnd as [|? ? Hnotin Hnd']; subst. destruct Hin as [->|Hin]; [rewrite Z.eqb_refl; auto|].
  destruct (c_id x =? c_id o) eqn:E; [|auto].
  apply Z.eqb_eq in E. exfalso. apply Hnotin. rewrite E. apply in_map; auto.
Qed.

Lemma nodup_snoc : forall (l : list Z) x, NoDup l -> ~ In x l -> NoDup (l ++ [x]).
Proof.
  induction l as [|y l IH]; simpl; intros x Hnd Hx.
  - constructor; [simpl; tauto | constructor].
  - inversion Hnd as [|? ? Hy Hnd']; subst. constructor.
    + rewrite in_app_iff. simpl. intros [A|[A|[]]]; [tauto | subst; tauto].
    + apply IH; tauto.
Qed.

(* where the fold for identifier i starts, seen from a loop state (od, remaining list l) *)
Definition start (od : list rec) (i : Z) (l : list rec) : option (rec * list rec) :=
  match od_find od i with
  | Some o0 => Some (o0, group i l)
  | None => match group i l with [] => None | c :: g => Some (c, g) end
  end.

Lemma start_new : forall od c rest i, od_find od (c_id c) = None ->
  start od i (c :: rest) = start (od ++ [c]) i rest.
Proof.
  intros od c rest i H. unfold start. rewrite find_app. simpl.
  destruct (od_find od i) as [o0|] eqn:E.
  - destruct (c_id c =? i) eqn:E2; auto. apply Z.eqb_eq in E2. congruence.
  - destruct (c_id c =? i); auto.
Qed.
Lemma start_old_other : forall od c rest o' i, c_id o' = c_id c -> i <> c_id c ->
  start od i (c :: rest) = start (od_replace od o') i rest.
Proof.
  intros od c rest o' i Hid Hne. unfold start. rewrite find_replace, Hid. simpl.
  assert (E : (c_id c =? i) = false) by (apply Z.eqb_neq; congruence). rewrite E. reflexivity.
Qed.
Lemma start_old_same : forall od c rest o o', od_find od (c_id c) = Some o -> c_id o' = c_id c ->
  start od (c_id c) (c :: rest) = Some (o, c :: group (c_id c) rest) /\
  start (od_replace od o') (c_id c) rest = Some (o', group (c_id c) rest).
Proof.
  intros od c rest o o' H Hid. unfold start. rewrite find_replace, Hid, H. simpl. rewrite Z.eqb_refl. auto.
Qed.

Definition loop_post (od l : list rec) (r : res (list rec)) : Prop :=
  match r with
  | Ok out =>
      ids out = ids od ++ dedup_seen (ids od) (ids l) /\ NoDup (ids out) /\
      forall i, match start od i l with
                | Some (o0, g) => exists o', fold_merge o0 g = Ok o' /\ od_find out i = Some o'
                | None => od_find out i = None
                end
  | Err e => e = EValue /\ exists i o0 g, start od i l = Some (o0, g) /\ fold_merge o0 g = Err EValue
  end.

Lemma loop_spec : forall l od, NoDup (ids od) -> loop_post od l (merge_loop od l).
Proof.
  induction l as [|c rest IH]; intros od Hnd.
  - simpl. split; [rewrite app_nil_r; auto|]. split; auto. intros i. unfold start. simpl.
    destruct (od_find od i) as [o0|] eqn:E; auto. exists o0. auto.
  - simpl. destruct (od_find od (c_id c)) as [o|] eqn:Ef.
    + (* identifier already present *)
      destruct (find_some_id _ _ _ Ef) as [Hoid Hoin].
      destruct (merge_into o c) as [o'|e] eqn:Em.
      * pose proof (merge_into_id _ _ _ Em) as Hid. rewrite Hoid in Hid.
        assert (Hnd' : NoDup (ids (od_replace od o'))) by (rewrite replace_ids; auto).
        specialize (IH (od_replace od o') Hnd'). unfold loop_post in *.
        assert (Hmem : mem (c_id c) (ids od) = true).
        { apply mem_In. destruct (in_dec Z.eq_dec (c_id c) (ids od)) as [G|G]; auto.
          apply find_none_ids in G. congruence. }
        destruct (merge_loop (od_replace od o') rest) as [out|e].
        -- destruct IH as (A & B & D). rewrite replace_ids in A. split; [simpl; rewrite Hmem; auto|].
           split; auto. intros i. destruct (Z.eq_dec i (c_id c)) as [->|Hne].
           ++ destruct (start_old_same od c rest o o' Ef Hid) as [S1 S2]. rewrite S1.
              specialize (D (c_id c)). rewrite S2 in D. simpl. rewrite Em. auto.
           ++ rewrite (start_old_other od c rest o' i Hid Hne). apply D.
        -- destruct IH as (A & i & o0 & g & S & F). split; auto.
           destruct (Z.eq_dec i (c_id c)) as [->|Hne].
           ++ destruct (start_old_same od c rest o o' Ef Hid) as [S1 S2]. rewrite S2 in S. inversion S; subst.
              exists (c_id c), o, (c :: group (c_id c) rest). split; auto. simpl. rewrite Em. auto.
           ++ exists i, o0, g. split; auto. rewrite (start_old_other od c rest o' i Hid Hne). auto.
      * pose proof (merge_into_err _ _ _ Em). subst e. split; auto.
        exists (c_id c), o, (c :: group (c_id c) rest). split.
        -- unfold start. rewrite Ef. simpl. rewrite Z.eqb_refl. auto.
        -- simpl. rewrite Em. auto.
    + (* new identifier *)
      assert (Hnotin : ~ In (c_id c) (ids od)) by (apply find_none_ids; auto).
      assert (Hnd' : NoDup (ids (od ++ [c]))).
      { unfold ids. rewrite map_app. simpl. apply nodup_snoc; auto. }
      specialize (IH (od ++ [c]) Hnd'). unfold loop_post in *.
      assert (Hmem : mem (c_id c) (ids od) = false).
      { destruct (mem (c_id c) (ids od)) eqn:G; auto. apply mem_In in G. tauto. }
      destruct (merge_loop (od ++ [c]) rest) as [out|e].
      * destruct IH as (A & B & D). split.
        -- simpl. rewrite Hmem. rewrite A. unfold ids at 1. rewrite map_app. simpl. rewrite <- app_assoc. simpl.
           do 2 f_equal. apply dedup_seen_ext. intros x. unfold ids. rewrite map_app. unfold mem.
           rewrite existsb_app. simpl. rewrite orb_false_r. apply orb_comm.
        -- split; auto. intros i. rewrite (start_new od c rest i Ef). apply D.
      * destruct IH as (A & i & o0 & g & S & F). split; auto. exists i, o0, g.
        rewrite (start_new od c rest i Ef). auto.
Qed.

(* ---------------------------------------------------------------- from the loop to merge_cvrs *)
Lemma merge_ok_groups : forall l out, merge_cvrs l = Ok out ->
  ids out = dedup (ids l) /\ NoDup (ids out) /\
  forall o, In o out ->
    exists c g, group (c_id o) l = c :: g /\ fold_merge c g = Ok o.
Proof.
  intros l out H. pose proof (loop_spec l [] (NoDup_nil _)) as P. unfold merge_cvrs in H. rewrite H in P.
  destruct P as (A & B & D). split; [exact A|]. split; auto.
  intros o Ho. specialize (D (c_id o)). unfold start in D. simpl in D.
  rewrite (find_in_nodup out o B Ho) in D.
  destruct (group (c_id o) l) as [|c g]; [discriminate|].
  destruct D as (o' & F & E). inversion E; subst. exists c, g. auto.
Qed.

Lemma merge_err_group : forall l e, merge_cvrs l = Err e ->
  e = EValue /\ exists i c g, group i l = c :: g /\ fold_merge c g = Err EValue.
Proof.
  intros l e H. pose proof (loop_spec l [] (NoDup_nil _)) as P. unfold merge_cvrs in H. rewrite H in P.
  destruct P as (A & i & o0 & g & S & F). split; auto. unfold start in S. simpl in S.
  destruct (group i l) as [|c g'] eqn:G; [discriminate|]. inversion S; subst. exists i, o0, g. auto.
Qed.

Lemma merge_ok_all_groups : forall l out i c g, merge_cvrs l = Ok out -> group i l = c :: g ->
  exists o, fold_merge c g = Ok o /\ In o out.
Proof.
  intros l out i c g H G. pose proof (loop_spec l [] (NoDup_nil _)) as P. unfold merge_cvrs in H. rewrite H in P.
  destruct P as (_ & _ & D). specialize (D i). unfold start in D. simpl in D. rewrite G in D.
  destruct D as (o' & F & E). exists o'. split; auto. apply find_some_id in E. tauto.
Qed.

Lemma group_in : forall i l c, In c (group i l) <-> In c l /\ c_id c = i.
Proof. intros. unfold group. rewrite filter_In, Z.eqb_eq. tauto. Qed.

(* ---------------------------------------------------------------- what a fold does to each field *)
(* votes in contest k of the last record that has the contest *)
Fixpoint latest (k : Z) (rs : list rec) : option contest_votes :=
  match rs with
  | [] => None
  | r :: rest => match latest k rest with Some v => Some v | None => dict_get (c_votes r) k end
  end.
Definition wf_votes (c : rec) : Prop := NoDup (map fst (c_votes c)).     (* a Python dict has distinct keys *)

Lemma merge_into_fields : forall o c o', merge_into o c = Ok o' ->
  c_votes o' = dict_merge (c_votes o) (c_votes c) /\ c_phantom o' = py_and (c_phantom c) (c_phantom o) /\
  c_pool o' = py_or (c_pool c) (c_pool o).
Proof.
  intros o c o' H. unfold merge_into in H.
  destruct (_ || _); [inversion H; auto|]. destruct (_ && _); inversion H; auto.
Qed.

Lemma fold_votes : forall g o o' k, Forall wf_votes g -> fold_merge o g = Ok o' ->
  dict_get (c_votes o') k = latest k (o :: g).
Proof.
  induction g as [|c g IH]; intros o o' k Hwf H; simpl in H.
  - inversion H; subst. reflexivity.
  - inversion Hwf as [|? ? Hc Hg]; subst.
    destruct (merge_into o c) as [o1|] eqn:E; [|discriminate].
    destruct (merge_into_fields _ _ _ E) as (V & _ & _).
    rewrite (IH o1 o' k Hg H). simpl. destruct (latest k g); auto.
    rewrite V, merge_get by exact Hc. reflexivity.
Qed.

Lemma latest_some_iff : forall k rs, latest k rs <> None <-> exists r, In r rs /\ dict_get (c_votes r) k <> None.
Proof.
  induction rs as [|r rs IH]; simpl.
  - split; [congruence | intros (r & [] & _)].
  - destruct (latest k rs) eqn:E.
    + split; [|congruence]. intros _. destruct (proj1 IH) as (r' & A & B); [congruence|]. exists r'. auto.
    + split.
      * intros H. exists r. auto.
      * intros (r' & [->|A] & B); auto. exfalso. apply (proj2 IH); [exists r'; auto | reflexivity].
Qed.

Lemma fold_flags : forall g o o', fold_merge o g = Ok o' ->
  truthy (c_phantom o') = forallb (fun c => truthy (c_phantom c)) (o :: g) /\
  truthy (c_pool o') = existsb (fun c => truthy (c_pool c)) (o :: g) /\
  (Forall (fun c => is_bool (c_phantom c) = true) (o :: g) -> is_bool (c_phantom o') = true) /\
  (Forall (fun c => is_bool (c_pool c) = true) (o :: g) -> is_bool (c_pool o') = true).
Proof.
  induction g as [|c g IH]; intros o o' H; simpl in H.
  - inversion H; subst. simpl. rewrite andb_true_r, orb_false_r. repeat split; auto; intros F; inversion F; auto.
  - destruct (merge_into o c) as [o1|] eqn:E; [|discriminate].
    destruct (merge_into_fields _ _ _ E) as (_ & P & Q).
    destruct (IH o1 o' H) as (A & B & C & D). simpl in *. rewrite A, B, P, Q, truthy_and, truthy_or.
    split; [destruct (truthy (c_phantom c)), (truthy (c_phantom o)); simpl; auto|].
    split; [destruct (truthy (c_pool c)), (truthy (c_pool o)); simpl; auto|]. split.
    + intros F. inversion F as [|? ? F1 F']; subst. inversion F' as [|? ? F2 F'']; subst.
      apply C. constructor; auto. rewrite P. apply is_bool_and; auto.
    + intros F. inversion F as [|? ? F1 F']; subst. inversion F' as [|? ? F2 F'']; subst.
      apply D. constructor; auto. rewrite Q. apply is_bool_or; auto.
Qed.

(* the first value that is not None (None if there is none) *)
Fixpoint first_nonnone (l : list pv) : pv :=
  match l with [] => PNone | v :: r => if is_none v then first_nonnone r else v end.

Lemma merge_into_tp : forall o c,
  match merge_into o c with
  | Ok o' => c_tp o' = first_nonnone [c_tp o; c_tp c] /\
             (is_none (c_tp o) = false -> is_none (c_tp c) = false -> py_eq (c_tp o) (c_tp c) = true)
  | Err _ => is_none (c_tp o) = false /\ is_none (c_tp c) = false /\ py_eq (c_tp o) (c_tp c) = false
  end.
Proof.
  intros o c. unfold merge_into.
  destruct (c_tp o) as [|bo|zo|so] eqn:Eo; destruct (c_tp c) as [|bc|zc|sc] eqn:Ec; simpl;
    repeat match goal with |- context [if ?b then _ else _] => destruct b eqn:?; simpl end;
    rewrite ?Eo, ?Ec; simpl; repeat split; auto; try discriminate.
Qed.

Lemma fold_tp : forall g o,
  match fold_merge o g with
  | Ok o' => c_tp o' = first_nonnone (map c_tp (o :: g)) /\
             forall c, In c (o :: g) -> is_none (c_tp c) = false -> py_eq (c_tp o') (c_tp c) = true
  | Err e => e = EValue /\ exists c1 c2, In c1 (o :: g) /\ In c2 (o :: g) /\
               is_none (c_tp c1) = false /\ is_none (c_tp c2) = false /\ py_eq (c_tp c1) (c_tp c2) = false
  end.
Proof.
  induction g as [|c g IH]; intros o; simpl.
  - split; [destruct (is_none (c_tp o)) eqn:E; auto; destruct (c_tp o); simpl in *; auto; discriminate|].
    intros c [<-|[]] _. apply py_eq_refl.
  - pose proof (merge_into_tp o c) as M. destruct (merge_into o c) as [o1|e] eqn:Em.
    + destruct M as [T Q]. specialize (IH o1). destruct (fold_merge o1 g) as [o'|e'].
      * destruct IH as [A B]. split.
        -- rewrite A. simpl. rewrite T. simpl.
           destruct (is_none (c_tp o)) eqn:E1; [|rewrite E1; reflexivity].
           destruct (is_none (c_tp c)) eqn:E2; [reflexivity | rewrite E2; reflexivity].
        -- intros x Hx Hn.
           assert (Hkeep : is_none (c_tp o) = false -> py_eq (c_tp o') (c_tp o) = true).
           { intros E1. assert (T1 : c_tp o1 = c_tp o) by (rewrite T; simpl; rewrite E1; reflexivity).
             rewrite <- T1. apply B; [left; auto | rewrite T1; auto]. }
           destruct Hx as [<-|[<-|Hx]].
           ++ auto.
           ++ destruct (is_none (c_tp o)) eqn:E1.
              ** assert (T1 : c_tp o1 = c_tp c) by (rewrite T; simpl; rewrite E1, Hn; reflexivity).
                 rewrite <- T1. apply B; [left; auto | rewrite T1; auto].
              ** eapply py_eq_trans; [apply Hkeep; auto | apply Q; auto].
           ++ apply B; [right; auto | auto].
      * destruct IH as (Ee & c1 & c2 & I1 & I2 & N1 & N2 & NE). split; auto.
        (* a conflict inside (o1 :: g): o1's tally pool is o's or c's *)
        assert (Hsrc : forall x, In x (o1 :: g) -> is_none (c_tp x) = false ->
                       exists y, In y (o :: c :: g) /\ c_tp y = c_tp x).
        { intros x [<-|Hx] Hn; [|exists x; split; [right; right; auto | auto]].
          rewrite T in *. simpl in *. destruct (is_none (c_tp o)) eqn:E1.
          - destruct (is_none (c_tp c)) eqn:E2; [simpl in Hn; discriminate|]. exists c. split; auto.
          - exists o. split; auto. }
        destruct (Hsrc c1 I1 N1) as (y1 & J1 & K1). destruct (Hsrc c2 I2 N2) as (y2 & J2 & K2).
        exists y1, y2. rewrite K1, K2. auto.
    + destruct M as (N1 & N2 & NE). pose proof (merge_into_err _ _ _ Em). subst e. split; auto.
      exists o, c. simpl. auto 10.
Qed.

(* ---------------------------------------------------------------- statements for PC18 *)
Definition one_per_id_statement : Prop :=
  forall l out, merge_cvrs l = Ok out ->
    ids out = dedup (ids l) /\ NoDup (ids out) /\ (forall i, In i (ids out) <-> In i (ids l)).

Lemma one_per_id_holds : one_per_id_statement.
Proof.
  intros l out H. destruct (merge_ok_groups l out H) as (A & B & _). split; auto. split; auto.
  intros i. rewrite A. apply dedup_in.
Qed.

Definition contest_union_statement : Prop :=
  forall l out, Forall wf_votes l -> merge_cvrs l = Ok out ->
    forall o, In o out ->
      (* within a contest: the votes of the latest record of that card having the contest, wholesale *)
      (forall k, dict_get (c_votes o) k = latest k (group (c_id o) l)) /\
      (* union: a contest is present iff some record of the card has it *)
      (forall k, dict_get (c_votes o) k <> None <->
                 exists r, In r l /\ c_id r = c_id o /\ dict_get (c_votes r) k <> None).

Lemma contest_union_holds : contest_union_statement.
Proof.
  intros l out Hwf H o Ho. destruct (merge_ok_groups l out H) as (_ & _ & G).
  destruct (G o Ho) as (c & g & E & F).
  assert (Hwfg : Forall wf_votes g).
  { rewrite Forall_forall in *. intros x Hx. apply Hwf.
    assert (In x (group (c_id o) l)) by (rewrite E; right; auto). apply group_in in H0. tauto. }
  assert (L : forall k, dict_get (c_votes o) k = latest k (group (c_id o) l)).
  { intros k. rewrite E. apply fold_votes; auto. }
  split; auto. intros k. rewrite L, latest_some_iff. split.
  - intros (r & A & B). apply group_in in A. exists r. tauto.
  - intros (r & A & B & D). exists r. split; auto. apply group_in. auto.
Qed.

Definition phantom_statement : Prop :=
  forall l out, merge_cvrs l = Ok out -> forall o, In o out ->
    let g := group (c_id o) l in
    g <> [] /\
    truthy (c_phantom o) = forallb (fun c => truthy (c_phantom c)) g /\
    (Forall (fun c => is_bool (c_phantom c) = true) g ->
       c_phantom o = PBool (forallb (fun c => truthy (c_phantom c)) g)).

Lemma phantom_holds : phantom_statement.
Proof.
  intros l out H o Ho g. destruct (merge_ok_groups l out H) as (_ & _ & G).
  destruct (G o Ho) as (c & g' & E & F). subst g. rewrite E.
  destruct (fold_flags _ _ _ F) as (A & _ & C & _). split; [discriminate|]. split; auto.
  intros Hb. rewrite (is_bool_val _ (C Hb)), A. reflexivity.
Qed.

Definition pool_statement : Prop :=
  forall l out, merge_cvrs l = Ok out -> forall o, In o out ->
    let g := group (c_id o) l in
    truthy (c_pool o) = existsb (fun c => truthy (c_pool c)) g /\
    (Forall (fun c => is_bool (c_pool c) = true) g ->
       c_pool o = PBool (existsb (fun c => truthy (c_pool c)) g)).

Lemma pool_holds : pool_statement.
Proof.
  intros l out H o Ho g. destruct (merge_ok_groups l out H) as (_ & _ & G).
  destruct (G o Ho) as (c & g' & E & F). subst g. rewrite E.
  destruct (fold_flags _ _ _ F) as (_ & B & _ & D). split; auto.
  intros Hb. rewrite (is_bool_val _ (D Hb)), B. reflexivity.
Qed.

(* two records of one card with different (non-None) tally pools *)
Definition tp_conflict (l : list rec) : Prop :=
  exists c1 c2, In c1 l /\ In c2 l /\ c_id c1 = c_id c2 /\
    is_none (c_tp c1) = false /\ is_none (c_tp c2) = false /\ py_eq (c_tp c1) (c_tp c2) = false.

Definition tally_pool_statement : Prop :=
  forall l,
    (forall e, merge_cvrs l = Err e -> e = EValue) /\
    ((exists e, merge_cvrs l = Err e) <-> tp_conflict l) /\
    (forall out o, merge_cvrs l = Ok out -> In o out ->
       c_tp o = first_nonnone (map c_tp (group (c_id o) l)) /\
       forall c, In c l -> c_id c = c_id o -> is_none (c_tp c) = false -> py_eq (c_tp o) (c_tp c) = true).

Lemma tally_pool_holds : tally_pool_statement.
Proof.
  intros l. split; [intros e H; apply merge_err_group in H; tauto|]. split; [split|].
  - intros [e H]. apply merge_err_group in H as (_ & i & c & g & G & F).
    pose proof (fold_tp g c) as P. rewrite F in P. destruct P as (_ & c1 & c2 & I1 & I2 & N1 & N2 & NE).
    rewrite <- G in I1, I2. apply group_in in I1, I2. exists c1, c2. intuition congruence.
  - intros (c1 & c2 & I1 & I2 & Eid & N1 & N2 & NE).
    destruct (merge_cvrs l) as [out|e] eqn:H; [|exists e; auto]. exfalso.
    assert (G1 : In c1 (group (c_id c1) l)) by (apply group_in; auto).
    destruct (group (c_id c1) l) as [|c g] eqn:G; [destruct G1|].
    destruct (merge_ok_all_groups l out _ c g H G) as (o & F & _).
    pose proof (fold_tp g c) as P. rewrite F in P. destruct P as [_ B].
    assert (G2 : In c2 (c :: g)) by (rewrite <- G; apply group_in; auto).
    assert (py_eq (c_tp c1) (c_tp c2) = true); [|congruence].
    eapply py_eq_trans; [rewrite py_eq_sym; apply B; auto | apply B; auto].
  - intros out o H Ho. destruct (merge_ok_groups l out H) as (_ & _ & G).
    destruct (G o Ho) as (c & g & E & F). pose proof (fold_tp g c) as P. rewrite F in P. destruct P as [A B].
    rewrite E. split; auto. intros x Hx Hid Hn. apply B; auto. rewrite <- E. apply group_in. auto.
Qed.

(* ---------------------------------------------------------------- from_raire *)
Lemma ranks_keep : forall cands j d x, ~ In x cands -> dict_get (ranks_from j cands d) x = dict_get d x.
Proof.
  induction cands as [|y r IH]; intros j d x H; simpl in *; auto.
  rewrite IH by tauto. apply get_set_other. intros E. subst. tauto.
Qed.
(* the candidate listed at (0-based) position k gets rank j + k *)
Lemma ranks_spec : forall cands j d k x, NoDup cands -> nth_error cands k = Some x ->
  dict_get (ranks_from j cands d) x = Some (j + Z.of_nat k).
Proof.
  induction cands as [|y r IH]; intros j d k x Hnd H; [destruct k; discriminate|].
  inversion Hnd as [|? ? Hy Hr]; subst. destruct k as [|k]; simpl in *.
  - inversion H; subst. rewrite ranks_keep by auto. rewrite get_set_same. f_equal. lia.
  - rewrite (IH (j + 1) _ k x Hr H). f_equal. lia.
Qed.
Lemma ranks_none : forall cands j x, ~ In x cands -> dict_get (ranks_from j cands []) x = None.
Proof. intros. rewrite ranks_keep by auto. reflexivity. Qed.

(* the record a well-formed ballot row stands for *)
Definition row_rec (phantom : bool) (c : list Z) : rec :=
  mkrec (nth 1 c 0) [(nth 0 c 0, ranks_from 1 (skipn 2 c) [])] (PBool phantom) (PBool false) PNone.

Lemma rows_to_recs_ok : forall ph rows, Forall (fun c => (2 <= length c)%nat) rows ->
  rows_to_recs ph rows = Ok (map (row_rec ph) rows).
Proof.
  induction rows as [|c rows IH]; intros H; simpl; auto.
  inversion H as [|? ? Hc Hr]; subst. destruct c as [|a [|b cs]]; simpl in Hc; try lia.
  simpl. rewrite IH by auto. reflexivity.
Qed.

Lemma no_tp_no_error : forall l, Forall (fun c => c_tp c = PNone) l -> exists out, merge_cvrs l = Ok out.
Proof.
  intros l H. destruct (merge_cvrs l) as [out|e] eqn:E; [eauto|]. exfalso.
  destruct (tally_pool_holds l) as (_ & [C _] & _).
  destruct C as (c1 & _ & I1 & _ & _ & N1 & _); [eauto|].
  rewrite Forall_forall in H. rewrite (H c1 I1) in N1. discriminate.
Qed.

Definition from_raire_statement : Prop :=
  (* rank k (from 1) for the k-th listed candidate, nothing for the others *)
  (forall cands k x, NoDup cands -> nth_error cands k = Some x ->
     dict_get (ranks_from 1 cands []) x = Some (Z.of_nat k + 1)) /\
  (forall cands x, ~ In x cands -> dict_get (ranks_from 1 cands []) x = None) /\
  (* the first line and the declared number of header lines are skipped whatever they contain; every remaining
     row [contest, id, candidates...] becomes one record; the records are merged; never an error *)
  (forall skip hdr ballots ph, length hdr = S skip -> Forall (fun c => (2 <= length c)%nat) ballots ->
     exists out, merge_cvrs (map (row_rec ph) ballots) = Ok out /\
       from_raire skip (hdr ++ ballots) ph = Ok (out, Z.of_nat (length ballots) + 1) /\
       (ph = false -> from_raire_file skip (hdr ++ ballots)
                      = Ok (out, Z.of_nat (length ballots) + 1, Z.of_nat (length out)))) /\
  (* a row with fewer than two cells is an IndexError *)
  (forall skip hdr ballots ph, length hdr = S skip -> Exists (fun c => (length c < 2)%nat) ballots ->
     from_raire skip (hdr ++ ballots) ph = Err EIndex).

Lemma rows_to_recs_err : forall ph rows, Exists (fun c => (length c < 2)%nat) rows -> rows_to_recs ph rows = Err EIndex.
Proof.
  induction rows as [|c rows IH]; intros H; [inversion H|].
  simpl. destruct c as [|a [|b cs]]; simpl; auto.
  inversion H as [? ? Hc|? ? Hr]; subst; [simpl in Hc; lia|]. rewrite IH by auto. reflexivity.
Qed.

Lemma from_raire_holds : from_raire_statement.
Proof.
  split; [|split; [|split]].
  - intros cands k x Hnd H. rewrite (ranks_spec cands 1 [] k x Hnd H). f_equal. lia.
  - intros. apply ranks_none; auto.
  - intros skip hdr ballots ph Hlen Hwf.
    destruct (no_tp_no_error (map (row_rec ph) ballots)) as [out E].
    { rewrite Forall_forall. intros c Hc. apply in_map_iff in Hc as (r & <- & _). reflexivity. }
    exists out. split; auto.
    assert (Hskip : skipn (S skip) (hdr ++ ballots) = ballots).
    { rewrite <- Hlen. rewrite skipn_app, Nat.sub_diag, skipn_all. reflexivity. }
    assert (Hfr : forall p, from_raire skip (hdr ++ ballots) p
                  = match merge_cvrs (map (row_rec p) ballots) with
                    | Ok o => Ok (o, Z.of_nat (length ballots) + 1) | Err e => Err e end).
    { intros p. unfold from_raire. rewrite Hskip, rows_to_recs_ok by auto.
      destruct (merge_cvrs (map (row_rec p) ballots)); auto. f_equal. f_equal.
      rewrite app_length, Hlen. lia. }
    split; [rewrite Hfr, E; reflexivity|].
    intros ->. unfold from_raire_file. rewrite Hfr, E. reflexivity.
  - intros skip hdr ballots ph Hlen Hex. unfold from_raire.
    assert (Hskip : skipn (S skip) (hdr ++ ballots) = ballots).
    { rewrite <- Hlen. rewrite skipn_app, Nat.sub_diag, skipn_all. reflexivity. }
    rewrite Hskip, rows_to_recs_err by auto. reflexivity.
Qed.
