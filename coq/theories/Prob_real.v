(* Prob_real.v — independent draws from an ARBITRARY law on rational values, given by its one-step expectation:
   a positive, normalised, linear functional E on real-valued functions of a rational observation (every probability
   distribution of float-valued data is one: E f = sum_x mu{x} f x; finite support and rational masses are NOT assumed).
   Probabilities of events depending on n draws are iterated expectations.  Finite-horizon Ville inequality for a
   nonnegative supermartingale, the crossing probability as the probability of the crossing event, monotonicity. *)
From Coq Require Import QArith Qreals Reals Lra List Bool Lia.
From SV Require Import Prob.
Import ListNotations.
Open Scope R_scope.

Record expectation (supp : Q -> Prop) (E : (Q -> R) -> R) : Prop := mk_expectation {
  ex_mono : forall f g, (forall x, supp x -> f x <= g x) -> E f <= E g;
  ex_plus : forall f g, E (fun x => f x + g x) = E f + E g;
  ex_scale : forall c f, E (fun x => c * f x) = c * E f;
  ex_one : E (fun _ => 1) = 1 }.

Definition indR (b : bool) : R := if b then 1 else 0.

Section VilleReal.
Variable supp : Q -> Prop.
Variable E : (Q -> R) -> R.
Hypothesis HE : expectation supp E.

Lemma ex_ext f g : (forall x, supp x -> f x = g x) -> E f = E g.
Proof.
  intro H. apply Rle_antisym; apply (ex_mono _ _ HE); intros x Hx; rewrite (H x Hx); apply Rle_refl.
Qed.
Lemma ex_const c : E (fun _ => c) = c.
Proof.
  transitivity (E (fun _ : Q => c * 1)); [apply ex_ext; intros; ring|].
  pose proof (ex_scale _ _ HE c (fun _ => 1)) as H. cbv beta in H. rewrite H, (ex_one _ _ HE). ring.
Qed.

(* ---- probability of an event of the next n draws ---- *)
Fixpoint probc (n : nat) (ev : list Q -> bool) : R :=
  match n with
  | O => indR (ev [])
  | S n' => E (fun x => probc n' (fun r => ev (x :: r)))
  end.

Lemma probc_mono n : forall ev ev',
  (forall s, length s = n -> Forall supp s -> ev s = true -> ev' s = true) -> probc n ev <= probc n ev'.
Proof.
  induction n as [|n IH]; intros ev ev' H.
  - cbn [probc]. specialize (H [] eq_refl (Forall_nil _)). unfold indR.
    destruct (ev []); [rewrite (H eq_refl); lra | destruct (ev' []); lra].
  - cbn [probc]. apply (ex_mono _ _ HE). intros x Hx. apply IH. intros s Hl Hs Hev.
    apply (H (x :: s)); [simpl; lia | now constructor | exact Hev].
Qed.
Lemma probc_ext n ev ev' :
  (forall s, length s = n -> Forall supp s -> ev s = ev' s) -> probc n ev = probc n ev'.
Proof.
  intro H. apply Rle_antisym; apply probc_mono; intros s Hl Hs Hev; [rewrite <- (H s Hl Hs) | rewrite (H s Hl Hs)]; exact Hev.
Qed.
Lemma probc_true n : probc n (fun _ => true) = 1.
Proof.
  induction n as [|n IH]; cbn [probc]; [reflexivity|].
  transitivity (E (fun _ : Q => 1)); [apply ex_ext; intros x _; exact IH | apply ex_const].
Qed.
Lemma probc_range n : forall ev, 0 <= probc n ev <= 1.
Proof.
  induction n as [|n IH]; intro ev; cbn [probc].
  - unfold indR. destruct (ev []); lra.
  - split.
    + apply Rle_trans with (E (fun _ : Q => 0)); [rewrite ex_const; lra|]. apply (ex_mono _ _ HE). intros x _. apply IH.
    + apply Rle_trans with (E (fun _ : Q => 1)); [|rewrite ex_const; lra]. apply (ex_mono _ _ HE). intros x _. apply IH.
Qed.

(* ---- Ville ---- *)
Variable T : list Q -> Q.
Variable thr : Q.
Variable Inv : list Q -> Prop.
Hypothesis Inv_step : forall p x, Inv p -> supp x -> Inv (p ++ [x]).
Hypothesis T_nonneg : forall p, Inv p -> (0 <= T p)%Q.
Hypothesis T_super : forall p, Inv p -> E (fun x => Q2R (T (p ++ [x]))) <= Q2R (T p).

Fixpoint pcrossR (n : nat) (p : list Q) : R :=
  if Qle_bool thr (T p) then 1 else
  match n with
  | O => 0
  | S n' => E (fun x => pcrossR n' (p ++ [x]))
  end.

Theorem villeR : forall n p, Inv p -> pcrossR n p * Q2R thr <= Q2R (T p).
Proof.
  induction n as [|n IH]; intros p HI; cbn [pcrossR]; destruct (Qle_bool thr (T p)) eqn:Ec.
  - apply Qle_bool_iff in Ec. apply Qle_Rle in Ec. lra.
  - pose proof (Qle_Rle _ _ (T_nonneg p HI)) as H0. rewrite RMicromega.Q2R_0 in H0. lra.
  - apply Qle_bool_iff in Ec. apply Qle_Rle in Ec. lra.
  - rewrite Rmult_comm, <- (ex_scale _ _ HE).
    eapply Rle_trans; [|apply T_super; exact HI].
    apply (ex_mono _ _ HE). intros x Hx. rewrite Rmult_comm. apply IH. now apply Inv_step.
Qed.

(* the crossing probability is the probability of the crossing event *)
Theorem pcrossR_probc : forall n p, pcrossR n p = probc n (fun r => crosses T thr p r).
Proof.
  induction n as [|n IH]; intro p; cbn [pcrossR probc crosses].
  - rewrite orb_false_r. unfold indR. destruct (Qle_bool thr (T p)); reflexivity.
  - destruct (Qle_bool thr (T p)) eqn:Ec.
    + transitivity (E (fun _ : Q => 1)); [symmetry; apply ex_const|]. apply ex_ext. intros x _. cbn [orb]. symmetry. apply probc_true.
    + apply ex_ext. intros x _. rewrite IH. apply probc_ext. intros s _ _. cbn [crosses orb]. try rewrite Ec. reflexivity.
Qed.
End VilleReal.

(* ---- finite-support laws with rational masses are expectations; their iterated expectation of an event is the
        weighted sum over sequences of Prob_iid (so the finite-support theorems are instances of the general ones) ---- *)
From SV Require Import Prob_iid.
Open Scope R_scope.
Section FiniteLaw.
Variable supp : Q -> Prop.
Variable law : list (Q * Q).      (* (value, mass) *)
Hypothesis law_ok : forall vw, In vw law -> (0 <= snd vw)%Q /\ supp (fst vw).
Hypothesis law_sum : (lsum (map snd law) == 1)%Q.

Fixpoint EL (l : list (Q * Q)) (f : Q -> R) : R :=
  match l with [] => 0 | vw :: r => Q2R (snd vw) * f (fst vw) + EL r f end.

Lemma EL_mono_gen l f g : (forall vw, In vw l -> (0 <= snd vw)%Q /\ supp (fst vw)) ->
  (forall x, supp x -> f x <= g x) -> EL l f <= EL l g.
Proof.
  intros Hl H. induction l as [|vw l IH]; cbn [EL]; [lra|].
  destruct (Hl vw (or_introl eq_refl)) as [Hw Hs].
  assert (H0 : 0 <= Q2R (snd vw)) by (rewrite <- RMicromega.Q2R_0; now apply Qle_Rle).
  pose proof (H _ Hs). assert (EL l f <= EL l g) by (apply IH; intros; apply Hl; now right).
  nra.
Qed.
Lemma EL_plus_gen l f g : EL l (fun x => f x + g x) = EL l f + EL l g.
Proof. induction l as [|vw l IH]; cbn [EL]; [lra|]. rewrite IH. ring. Qed.
Lemma EL_scale_gen l c f : EL l (fun x => c * f x) = c * EL l f.
Proof. induction l as [|vw l IH]; cbn [EL]; [lra|]. rewrite IH. ring. Qed.
Lemma EL_const_gen l c : EL l (fun _ => c) = Q2R (lsum (map snd l)) * c.
Proof.
  induction l as [|vw l IH]; [cbn; rewrite RMicromega.Q2R_0; lra|].
  cbn [EL map]. change (lsum (snd vw :: map snd l)) with (snd vw + lsum (map snd l))%Q.
  rewrite IH, Q2R_plus. ring.
Qed.
Theorem EL_expectation : expectation supp (EL law).
Proof.
  constructor.
  - intros f g H. now apply EL_mono_gen.
  - apply EL_plus_gen.
  - apply EL_scale_gen.
  - rewrite EL_const_gen, (Qeq_eqR _ _ law_sum), RMicromega.Q2R_1. ring.
Qed.
Lemma EL_mean : EL law Q2R = Q2R (lsum (map (fun vw => snd vw * fst vw)%Q law)).
Proof.
  clear. induction law as [|vw l IH]; [cbn; now rewrite RMicromega.Q2R_0|].
  cbn [EL map]. change (lsum ((snd vw * fst vw)%Q :: map (fun vw => (snd vw * fst vw)%Q) l))
    with (snd vw * fst vw + lsum (map (fun vw => (snd vw * fst vw)%Q) l))%Q.
  rewrite IH, Q2R_plus, Q2R_mult. ring.
Qed.

Lemma Q2R_lsum_map {A} (f : A -> Q) (l : list A) :
  Q2R (lsum (map f l)) = fold_right (fun a r => Q2R (f a) + r) 0 l.
Proof.
  induction l as [|a l IH]; [cbn; apply RMicromega.Q2R_0|].
  cbn [map fold_right]. change (lsum (f a :: map f l)) with (f a + lsum (map f l))%Q. now rewrite Q2R_plus, IH.
Qed.

Theorem probc_EL_sum : forall n ev,
  probc (EL law) n ev = Q2R (lsum (map (fun s => weight s * ind (ev (values s)))%Q (seqs law n))).
Proof.
  induction n as [|n IH]; intro ev.
  - cbn [probc seqs map lsum fold_right values weight]. unfold indR, ind.
    destruct (ev []); [rewrite <- RMicromega.Q2R_1 | rewrite <- RMicromega.Q2R_0]; apply Qeq_eqR; ring.
  - cbn [probc seqs].
    assert (G : forall l,
      EL l (fun x => probc (EL law) n (fun r => ev (x :: r)))
      = Q2R (lsum (map (fun s => weight s * ind (ev (values s)))%Q (flat_map (fun vw => map (cons vw) (seqs law n)) l)))).
    { induction l as [|vw l IHl]; [cbn; now rewrite RMicromega.Q2R_0|].
      cbn [EL flat_map]. rewrite IHl, IH. rewrite map_app, lsum_app, Q2R_plus. f_equal.
      rewrite map_map. rewrite <- Q2R_mult. apply Qeq_eqR.
      rewrite <- (lsum_scale_l (fun s => weight s * ind (ev (fst vw :: values s)))%Q (snd vw)).
      apply lsum_eq_pointwise. intros s _. cbv beta. change (weight (vw :: s)) with (snd vw * weight s)%Q.
      change (values (vw :: s)) with (fst vw :: values s). ring. }
    apply G.
Qed.
End FiniteLaw.
