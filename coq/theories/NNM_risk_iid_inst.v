(* NNM_risk_iid_inst.v — the IID (finite-support law) risk-limit theorem for ALPHA, betting, SPRT, Kaplan-Markov, Kaplan-Wald *)
From SV Require Import NNM NNM_machines NNM_ranges NNM_spec NNM_hist NNM_wf NNM_prefix NNM_defs NNM_kaplan
     Prob Prob_iid NNM_risk NNM_risk_inst NNM_risk_iid.
Open Scope Q_scope.

(* ------------------------------------------------------------------ spec-based tests (ALPHA, betting) *)
Section SpecLink.
Variables (facq : Q -> Q -> Q -> Q) (eff : Q -> Q -> Q).
Variable em : machine Q.
Variables (t u : Q).
Hypothesis Hu : 0 < u.
Hypothesis Ht : 0 < t < u.
Hypothesis fac_nonneg : forall (g : istate em) x, 0 <= x <= u -> 0 <= facq x (i_par eff em t g) t.

Notation istep' := (istep facq eff em t).
Fixpoint iterms (g : istate em) (xs : list Q) : list Xq :=
  match xs with
  | [] => []
  | x :: r => let g' := istep' g x in spec_entry u t (i_T em g') Alive :: iterms g' r
  end.

Lemma next_mode_t : next_mode u t Alive = Alive.
Proof.
  unfold next_mode.
  assert (E1 : Qle_bool t 0 = false) by (apply Qle_bool_false; lra).
  assert (E2 : Qle_bool u t = false) by (apply Qle_bool_false; lra). now rewrite E1, E2.
Qed.

Lemma spec_terms_iterms xs : forall (g : istate em) s,
  spec_terms facq None t u s (i_T em g) Alive xs
     (map2 eff (mscan (m_out em) (m_step em) (i_e em g) xs) (mscan (mu_out None t) sj_step s xs))
  = iterms g xs.
Proof.
  induction xs as [|x r IH]; intros g s; [reflexivity|].
  cbn [mscan map2 spec_terms iterms]. change (mu_at None t (fst s) (snd s)) with t. change (mu_out None t s) with t.
  rewrite next_mode_t. cbn [next_T]. f_equal. exact (IH (istep' g x) (sj_step s x)).
Qed.

Lemma iterms_In xs : forall g tm, In tm (iterms g xs) ->
  exists j, (j < length xs)%nat /\ tm = spec_entry u t (i_T em (fold_left istep' (firstn (S j) xs) g)) Alive.
Proof.
  induction xs as [|x r IH]; intros g tm H; [contradiction|].
  cbn [iterms] in H. destruct H as [E|H].
  - exists 0%nat. split; [simpl; lia|]. cbn [firstn fold_left]. now rewrite <- E.
  - destruct (IH (istep' g x) tm H) as [j [Hj E]]. exists (S j). split; [simpl; lia|]. exact E.
Qed.
Lemma iterms_length xs : forall g, length (iterms g xs) = length xs.
Proof. induction xs as [|x r IH]; intro g; simpl; auto. Qed.
Lemma iterms_good xs : forall g, 0 <= i_T em g -> Forall (fun x => 0 <= x <= u) xs -> Forall good_term (iterms g xs).
Proof.
  induction xs as [|x r IH]; intros g Hg Hx; [constructor|]. inversion Hx as [|x0 l0 Hx0 Hr]; subst.
  assert (Hg' : 0 <= i_T em (istep' g x)).
  { unfold istep; cbn [i_T]. rewrite Qred_correct. pose proof (fac_nonneg g x Hx0). nra. }
  cbn [iterms]. constructor; [now apply spec_entry_good| now apply IH].
Qed.

Definition itest (xs : list Q) : Xq * list Xq := finish_terms None t xs (iterms (iinit em) xs).

Lemma itest_link alpha xs h : 0 < alpha -> alpha < 1 ->
  xs <> [] -> Forall (fun x => 0 <= x <= u) xs ->
  In h (fst (itest xs) :: snd (itest xs)) -> xle h (Fin alpha) = true ->
  exists j, (j < length xs)%nat /\ 1 / alpha <= Mi facq eff em t (firstn (S j) xs).
Proof.
  intros Ha Ha1 Hne Hxr Hin Hle.
  set (terms := iterms (iinit em) xs).
  assert (Hg : Forall good_term terms) by (apply iterms_good; auto; cbn; lra).
  assert (Hne' : terms <> []).
  { intro E. pose proof (iterms_length xs (iinit em)) as HL. fold terms in HL. rewrite E in HL. destruct xs; simpl in *; congruence. }
  destruct (finish_terms_wellformed None t xs terms Hne' Hg) as [_ [_ [_ [Hfst _]]]].
  fold (itest xs) in Hfst.
  assert (Hin' : In h (snd (itest xs))) by (destruct Hin as [E|Hin]; [now rewrite <- E|exact Hin]).
  unfold itest, finish_terms in Hin'. cbn [stot_exceeds snd] in Hin'. fold pv in Hin'. fold terms in Hin'.
  apply in_map_iff in Hin'. destruct Hin' as [tm [Eh Htm]]. subst h.
  assert (Hgt : good_term tm) by (rewrite Forall_forall in Hg; auto).
  destruct (iterms_In xs (iinit em) tm Htm) as [j [Hj Etm]].
  exists j. split; auto.
  destruct (pv_le_alpha tm alpha Ha Ha1 Hgt Hle) as [E|[q [E Hq]]].
  - exfalso. rewrite Etm in E. unfold spec_entry in E. destruct (band u t); [discriminate|].
    destruct (isclose_q 0 _ rtol_default atol_np); discriminate.
  - rewrite Etm in E. unfold spec_entry in E. unfold Mi, ifold.
    assert (H1a : 1 < 1 / alpha) by (apply Qlt_shift_div_l; lra).
    destruct (band u t); [apply Fin_inj in E; rewrite <- E in Hq; lra|].
    destruct (isclose_q 0 _ rtol_default atol_np); [apply Fin_inj in E; rewrite <- E in Hq; lra|].
    apply Fin_inj in E. rewrite E. exact Hq.
Qed.
End SpecLink.

Section IIDInstances.
Variable sqrtq : Q -> Q.
Hypothesis sqrt_nonneg : forall x, 0 <= sqrtq x.

Lemma rejectsb_mono_ext tst1 tst2 alpha s :
  (forall k, (1 <= k <= length s)%nat -> tst1 (firstn k s) = tst2 (firstn k s)) ->
  rejectsb tst1 alpha s = rejectsb tst2 alpha s.
Proof. apply rejectsb_ext. Qed.

Lemma iid_sum_ext (f g : list Q -> bool) law n :
  (forall s, In s (seqs law n) -> f (values s) = g (values s)) ->
  lsum (map (fun s => weight s * ind (f (values s))) (seqs law n)) == lsum (map (fun s => weight s * ind (g (values s))) (seqs law n)).
Proof. intro H. apply lsum_eq_pointwise. intros s Hs. cbv beta. rewrite (H s Hs). reflexivity. Qed.

Lemma sample_ok_prefix u s k : Forall (fun x => 0 <= x <= u) s -> (1 <= k <= length s)%nat -> sample_ok None u (firstn k s).
Proof.
  intros Hr Hk. split; [|split; [|exact I]].
  - intro E. pose proof (f_equal (@length Q) E) as HL. rewrite firstn_length in HL. simpl in HL. lia.
  - apply Forall_forall. intros x Hx. rewrite Forall_forall in Hr. apply Hr. eapply In_firstn_In; eauto.
Qed.

(* ---------------- ALPHA, every shipped estimator ---------------- *)
Theorem alpha_iid_risk_limit e t u law alpha n :
  0 < u -> 0 < t < u -> null_law u t law -> 0 < alpha -> alpha < 1 ->
  lsum (map (fun s => weight s * ind (rejectsb (alpha_mart sqrtq e None t u) alpha (values s))) (seqs law n)) <= alpha.
Proof.
  intros Hu Ht Hlaw Ha Ha1.
  set (em := estim_machine sqrtq e None t u).
  assert (Haff : forall x e0, alpha_factor_q u x e0 t == 1 + (x - t) * alpha_slope u e0 t).
  { intros x e0. rewrite alpha_factor_q_affine by lra. unfold alpha_slope. field. split; lra. }
  assert (Hnn : forall (g : istate em) x, 0 <= x <= u -> 0 <= alpha_factor_q u x (i_par (clamp_eta u) em t g) t).
  { intros g x Hx. apply alpha_factor_q_nonneg; auto; try lra. unfold i_par. apply clamp_eta_range. lra. }
  assert (Hsl : forall (g : istate em), 0 <= alpha_slope u (i_par (clamp_eta u) em t g) t).
  { intros g. unfold alpha_slope. apply div_nonneg; [|nra].
    pose proof (clamp_eta_range u (m_out em (i_e em g)) t (Qlt_le_weak _ _ (proj2 Ht))). unfold i_par. lra. }
  pose proof (iid_risk_limit (alpha_factor_q u) (alpha_slope u) (clamp_eta u) em t u Haff Hnn Hsl law Hlaw
                (itest (alpha_factor_q u) (clamp_eta u) em t u)
                (fun a xs h => itest_link (alpha_factor_q u) (clamp_eta u) em t u Hnn a xs h) alpha n Ha Ha1) as HR.
  eapply Qle_trans; [|exact HR]. apply Qle_lteq. right.
  apply iid_sum_ext. intros s Hs. apply rejectsb_ext. intros k Hk.
  destruct (values_range t u law Hlaw n s Hs) as [Hr _].
  pose proof (sample_ok_prefix u (values s) k Hr Hk) as Hok.
  rewrite alpha_mart_unfold, (alpha_terms_eq_spec sqrtq e None t u _ Hu Ht Hok).
  unfold itest. f_equal.
  exact (spec_terms_iterms (alpha_factor_q u) (clamp_eta u) em t u Ht (firstn k (values s)) (iinit em) (0, 1%Z)).
Qed.

(* ---------------- betting ---------------- *)
Theorem betting_iid_risk_limit b t u law alpha n :
  0 < u -> 0 < t < u -> bet_ok b u -> null_law u t law -> 0 < alpha -> alpha < 1 ->
  lsum (map (fun s => weight s * ind (rejectsb (betting_mart sqrtq b None t u) alpha (values s))) (seqs law n)) <= alpha.
Proof.
  intros Hu Ht Hb Hlaw Ha Ha1.
  set (em := bet_machine sqrtq b None t u).
  assert (Haff : forall x e0, betting_factor_q x e0 t == 1 + (x - t) * e0) by (intros; unfold betting_factor_q; ring).
  assert (Hlam : forall (g : istate em), 0 <= i_par (fun l _ => l) em t g /\ i_par (fun l _ => l) em t g * t <= 1).
  { intros g. unfold i_par. subst em. destruct b as [lam|lam c0 cmax cgrow]; cbn in Hb.
    - cbn [bet_machine const_machine m_out]. destruct Hb as [Hl0 Hl1]. split; auto.
      assert (E : 1 / u * u == 1) by (field; lra). assert (P0 : 0 < 1 / u) by (apply div_pos; lra).
      assert (P1 : lam * t <= 1 / u * t) by nra. assert (P2 : 1 / u * t <= 1 / u * u) by nra. lra.
    - destruct Hb as [Hc0 [Hc1 [Hc2 Hc3]]].
      pose proof (agrapa_out_range sqrtq sqrt_nonneg None t lam c0 cmax cgrow Hc0 Hc1 Hc2 Hc3 (i_e _ g)) as [Hlo Hhi].
      cbv zeta in Hhi. change (mu_at None t _ _) with t in Hhi. specialize (Hhi (proj1 Ht)). destruct Hhi as [Hh1 Hh2].
      cbn [bet_machine agrapa_machine m_out] in *. split; auto.
      assert (E : 1 / t * t == 1) by (field; lra).
      match goal with |- ?l * _ <= 1 => assert (P1 : l < 1 / t) by lra; assert (P2 : l * t <= 1 / t * t) by nra end. lra. }
  assert (Hnn : forall (g : istate em) x, 0 <= x <= u -> 0 <= betting_factor_q x (i_par (fun l _ => l) em t g) t).
  { intros g x Hx. destruct (Hlam g) as [Hl0 Hl1]. unfold betting_factor_q. nra. }
  assert (Hsl : forall (g : istate em), 0 <= i_par (fun l _ => l) em t g) by (intro g; apply (Hlam g)).
  pose proof (iid_risk_limit betting_factor_q (fun l _ => l) (fun l _ => l) em t u Haff Hnn Hsl law Hlaw
                (itest betting_factor_q (fun l _ => l) em t u)
                (fun a xs h => itest_link betting_factor_q (fun l _ => l) em t u Hnn a xs h) alpha n Ha Ha1) as HR.
  eapply Qle_trans; [|exact HR]. apply Qle_lteq. right.
  apply iid_sum_ext. intros s Hs. apply rejectsb_ext. intros k Hk.
  destruct (values_range t u law Hlaw n s Hs) as [Hr _].
  pose proof (sample_ok_prefix u (values s) k Hr Hk) as [Hne [Hxr _]].
  rewrite betting_mart_unfold.
  rewrite (model_terms_spec betting_factor betting_factor_q None t u Hu Ht (fun x e m _ _ => eq_refl)
             (firstn k (values s)) _ (0, 1%Z) (Fin 1) 1 Alive Hxr I I (fun _ => eq_refl)).
  unfold itest. f_equal.
  rewrite <- (spec_terms_iterms betting_factor_q (fun l _ => l) em t u Ht (firstn k (values s)) (iinit em) (0, 1%Z)).
  cbn [iinit i_T i_e]. f_equal. unfold run_bet, run_machine. fold em. symmetry. apply map2_fst_id. rewrite !mscan_length. reflexivity.
Qed.

(* ---------------- generalised SPRT (both settings of random_order) ---------------- *)
Theorem sprt_iid_risk_limit eta ro t u law alpha n :
  0 < u -> 0 < t < u -> null_law u t law -> 0 < alpha -> alpha < 1 ->
  lsum (map (fun s => weight s * ind (rejectsb (wald_sprt sqrtq eta ro None t u) alpha (values s))) (seqs law n)) <= alpha.
Proof.
  intros Hu Ht Hlaw Ha Ha1.
  eapply Qle_trans; [|exact (alpha_iid_risk_limit (EFixed eta) t u law alpha n Hu Ht Hlaw Ha Ha1)].
  apply lsum_le_pointwise. intros s Hs.
  assert (Hw : 0 <= weight s).
  { destruct Hlaw as [Hw _]. clear -Hs Hw. revert s Hs. induction n as [|n IH]; intros s Hs.
    - cbn in Hs. destruct Hs as [E|[]]. subst. cbn. lra.
    - cbn [seqs] in Hs. apply in_flat_map in Hs. destruct Hs as [vw [Hvw Hs]].
      apply in_map_iff in Hs. destruct Hs as [s' [E Hs']]. subst s. cbn [weight fold_right]. fold (weight s').
      pose proof (IH s' Hs'). pose proof (proj1 (Hw vw Hvw)). nra. }
  destruct (rejectsb (wald_sprt sqrtq eta ro None t u) alpha (values s)) eqn:Er;
    [|unfold ind at 1; destruct (rejectsb (alpha_mart sqrtq (EFixed eta) None t u) alpha (values s)); unfold ind; lra].
  assert (E2 : rejectsb (alpha_mart sqrtq (EFixed eta) None t u) alpha (values s) = true).
  { unfold rejectsb in *. apply existsb_exists in Er. destruct Er as [k [Hk Hex]]. apply existsb_exists. exists k. split; auto.
    cbv zeta in *. apply existsb_exists in Hex. destruct Hex as [h [Hh Hle]]. apply existsb_exists. exists h. split; auto.
    unfold wald_sprt in Hh. cbn [fst snd] in Hh. destruct ro; auto.
    destruct Hh as [E|Hh]; [|right; exact Hh]. right. rewrite <- E.
    apply in_seq in Hk. destruct (values_range t u law Hlaw n s Hs) as [Hr _].
    pose proof (sample_ok_prefix u (values s) k Hr ltac:(lia)) as Hok.
    destruct (alpha_mart_wellformed sqrtq (EFixed eta) None t u _ Hu Ht Hok) as [HL _].
    unfold xlast. apply last_In. intro E0. rewrite E0 in HL. destruct Hok as [Hne _]. destruct (firstn k (values s)); simpl in *; congruence. }
  rewrite E2. lra.
Qed.
End IIDInstances.
