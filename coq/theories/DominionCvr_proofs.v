(* DominionCvr_proofs.v — lemmas behind C19, for exports of any size (induction over sessions, contests, marks). *)
From Coq Require Import ZArith List Bool Lia Permutation.
From SV Require Import DominionCvr.
Import ListNotations.
Open Scope Z_scope.

(* ------------------------------------------------------------------ specification vocabulary *)
(* a mark is counted: IsVote, or rules are not enforced *)
Definition counted (enforce : bool) (m : mark) : bool := m_isvote m || negb enforce.
(* ranks of the counted marks of candidate k, in file order *)
Definition ranks_of (enforce : bool) (k : Z) (ms : list mark) : list Z :=
  map m_rank (filter (fun m => counted enforce m && Z.eqb (m_cand m) k) ms).
(* v is the smallest nonzero rank in rs, or 0 when there is none *)
Definition is_min_rank (rs : list Z) (v : Z) : Prop :=
  (v = 0 /\ forall r, In r rs -> r = 0) \/
  (v <> 0 /\ In v rs /\ forall r, In r rs -> r <> 0 -> v <= r).
(* Python dict equality on the model's association lists *)
Definition dict_equiv {V} (a b : dict V) : Prop := forall k, dget k a = dget k b.
(* the last contest with identifier cid in a list (a later entry for the same contest replaces an earlier one) *)
Fixpoint last_with (cid : Z) (cs : list contest) : option contest :=
  match cs with
  | [] => None
  | con :: r => match last_with cid r with
                | Some x => Some x
                | None => if Z.eqb (c_id con) cid then Some con else None
                end
  end.
Definition force_vote (m : mark) : mark := mkMark (m_cand m) (m_rank m) true.
Definition with_data (s : session) (d : list (dkey * body)) : session :=
  mkSession (s_group s) (s_tab s) (s_batch s) (s_rec s) (s_mask s) d.

(* ------------------------------------------------------------------ dict *)
Lemma dget_dset_same {V} k (v : V) d : dget k (dset k v d) = Some v.
Proof.
  induction d as [|[k' v'] r IH]; simpl.
  - rewrite Z.eqb_refl. reflexivity.
  - destruct (Z.eqb k k') eqn:E; simpl; rewrite E; auto.
Qed.
Lemma dget_dset_other {V} k k' (v : V) d : k <> k' -> dget k (dset k' v d) = dget k d.
Proof.
  intro Hne. induction d as [|[k2 v2] r IH]; simpl.
  - destruct (Z.eqb_spec k k'); [contradiction | reflexivity].
  - destruct (Z.eqb_spec k' k2); simpl.
    + subst k2. destruct (Z.eqb_spec k k'); [contradiction | reflexivity].
    + destruct (Z.eqb k k2); auto.
Qed.

(* ------------------------------------------------------------------ marks of one contest *)
Definition val_step (acc : option Z) (r : Z) : option Z :=
  match acc with
  | None => Some r
  | Some old => if negb (Z.eqb r 0) then Some (if negb (Z.eqb old 0) then Z.min old r else r) else Some old
  end.

Lemma mark_step_get e d m k :
  dget k (mark_step e d m) =
  if counted e m && Z.eqb (m_cand m) k then val_step (dget k d) (m_rank m) else dget k d.
Proof.
  unfold mark_step, counted. destruct (m_isvote m || negb e); simpl; [|reflexivity].
  destruct (Z.eqb_spec (m_cand m) k) as [E|E].
  - subst k. unfold val_step. destruct (dget (m_cand m) d) as [old|] eqn:Hg.
    + destruct (negb (m_rank m =? 0)); [apply dget_dset_same | exact Hg].
    + apply dget_dset_same.
  - assert (E' : k <> m_cand m) by congruence.
    destruct (dget (m_cand m) d) as [old|].
    + destruct (negb (m_rank m =? 0)); [apply dget_dset_other; exact E' | reflexivity].
    + apply dget_dset_other; exact E'.
Qed.

Lemma cv_get e k : forall ms d,
  dget k (fold_left (mark_step e) ms d) = fold_left val_step (ranks_of e k ms) (dget k d).
Proof.
  induction ms as [|m r IH]; intro d; simpl; [reflexivity|].
  rewrite IH, mark_step_get. unfold ranks_of. simpl.
  destruct (counted e m && (m_cand m =? k)); reflexivity.
Qed.

Definition rstep (acc r : Z) : Z := if negb (Z.eqb r 0) then (if negb (Z.eqb acc 0) then Z.min acc r else r) else acc.

Lemma val_fold_some rs : forall v, fold_left val_step rs (Some v) = Some (fold_left rstep rs v).
Proof.
  induction rs as [|r rs IH]; intro v; simpl; [reflexivity|].
  unfold rstep at 2. destruct (negb (r =? 0)); simpl; rewrite IH; reflexivity.
Qed.

Lemma rstep_spec rs : forall v, is_min_rank (v :: rs) (fold_left rstep rs v).
Proof.
  induction rs as [|r rs IH]; intro v; simpl.
  - destruct (Z.eq_dec v 0) as [E|E]; [left | right].
    + split; auto. intros r [<-|[]]. exact E.
    + split; auto. split; [left; reflexivity|]. intros r [<-|[]] _. lia.
  - specialize (IH (rstep v r)). unfold rstep in *.
    destruct (Z.eqb_spec r 0) as [Er|Er]; simpl in *.
    + (* r = 0: skipped *) destruct IH as [[H0 Hall] | [Hn [Hin Hle]]]; [left | right].
      * split; auto. intros x [<-|[<-|Hx]]; auto. apply Hall. left. reflexivity. apply Hall. right. exact Hx.
      * split; auto. split.
        { destruct Hin as [<-|Hin]; [left; reflexivity | right; right; exact Hin]. }
        intros x [<-|[<-|Hx]] Hx0; [apply Hle; auto; left; reflexivity | contradiction | apply Hle; auto; right; exact Hx].
    + destruct (Z.eqb_spec v 0) as [Ev|Ev]; simpl in *.
      * (* old value 0: take r *) destruct IH as [[H0 Hall] | [Hn [Hin Hle]]]; [left | right].
        { exfalso. apply Er. apply Hall. left. reflexivity. }
        split; auto. split.
        { destruct Hin as [<-|Hin]; [right; left; reflexivity | right; right; exact Hin]. }
        intros x [<-|[<-|Hx]] Hx0; [contradiction | apply Hle; auto; left; reflexivity | apply Hle; auto; right; exact Hx].
      * (* both nonzero: min *) assert (Hm : Z.min v r = v \/ Z.min v r = r) by lia.
        destruct IH as [[H0 Hall] | [Hn [Hin Hle]]]; [left | right].
        { exfalso. assert (Z.min v r = 0) by (apply Hall; left; reflexivity). lia. }
        split; auto. split.
        { destruct Hin as [<-|Hin]; [destruct Hm as [->| ->]; [left | right; left]; reflexivity | right; right; exact Hin]. }
        assert (Hmin : fold_left (fun acc r0 => if negb (r0 =? 0) then if negb (acc =? 0) then Z.min acc r0 else r0 else acc) rs (Z.min v r)
                       <= Z.min v r) by (apply Hle; [left; reflexivity | lia]).
        intros x [<-|[<-|Hx]] Hx0; [lia | lia | apply Hle; auto; right; exact Hx].
Qed.

Lemma is_min_rank_unique rs v v' : is_min_rank rs v -> is_min_rank rs v' -> v = v'.
Proof.
  intros [[H0 Hall] | [Hn [Hin Hle]]] [[H0' Hall'] | [Hn' [Hin' Hle']]].
  - congruence.
  - exfalso. apply Hn'. apply Hall. exact Hin'.
  - exfalso. apply Hn. apply Hall'. exact Hin.
  - specialize (Hle v' Hin' Hn'). specialize (Hle' v Hin Hn). lia.
Qed.
Lemma is_min_rank_perm rs rs' v : Permutation rs rs' -> is_min_rank rs v -> is_min_rank rs' v.
Proof.
  intros Hp [[H0 Hall] | [Hn [Hin Hle]]]; [left | right].
  - split; auto. intros r Hr. apply Hall. eapply Permutation_in; [apply Permutation_sym; exact Hp | exact Hr].
  - split; auto. split; [eapply Permutation_in; eassumption|].
    intros r Hr. apply Hle. eapply Permutation_in; [apply Permutation_sym; exact Hp | exact Hr].
Qed.

(* the value recorded for candidate k in one contest *)
Lemma contest_value e ms k :
  match dget k (contest_votes e ms) with
  | None => ranks_of e k ms = []
  | Some v => ranks_of e k ms <> [] /\ is_min_rank (ranks_of e k ms) v
  end.
Proof.
  unfold contest_votes. rewrite cv_get. simpl. destruct (ranks_of e k ms) as [|r rs]; simpl; [reflexivity|].
  rewrite val_fold_some. split; [discriminate | apply rstep_spec].
Qed.

Lemma perm_filter {A} (f : A -> bool) l l' : Permutation l l' -> Permutation (filter f l) (filter f l').
Proof.
  induction 1 as [| x l l' _ IH | x y l | l l' l'' _ IH1 _ IH2]; simpl.
  - constructor.
  - destruct (f x); [apply perm_skip|]; exact IH.
  - destruct (f x), (f y); try apply Permutation_refl; apply perm_swap.
  - eapply Permutation_trans; eassumption.
Qed.

Lemma mark_order_invariant e ms ms' : Permutation ms ms' -> dict_equiv (contest_votes e ms) (contest_votes e ms').
Proof.
  intros Hp k.
  assert (Hr : Permutation (ranks_of e k ms) (ranks_of e k ms')) by (apply Permutation_map, perm_filter, Hp).
  pose proof (contest_value e ms k) as H1. pose proof (contest_value e ms' k) as H2.
  destruct (dget k (contest_votes e ms)) as [v|], (dget k (contest_votes e ms')) as [v'|].
  - f_equal. destruct H1 as [_ H1], H2 as [_ H2]. eapply is_min_rank_unique; [| exact H2]. eapply is_min_rank_perm; eassumption.
  - exfalso. destruct H1 as [H1 _]. apply H1. rewrite H2 in Hr. apply Permutation_sym, Permutation_nil in Hr. exact Hr.
  - exfalso. destruct H2 as [H2 _]. apply H2. rewrite H1 in Hr. apply Permutation_nil in Hr. exact Hr.
  - reflexivity.
Qed.

(* smallest positive rank, for exports whose ranks are not negative *)
Lemma min_positive_rank e ms k : (forall m, In m ms -> 0 <= m_rank m) ->
  let rs := ranks_of e k ms in
  (rs = [] -> dget k (contest_votes e ms) = None) /\
  (rs <> [] -> exists v, dget k (contest_votes e ms) = Some v /\
     ((exists r, In r rs /\ 0 < r) -> 0 < v /\ In v rs /\ forall r, In r rs -> 0 < r -> v <= r) /\
     ((forall r, In r rs -> r = 0) -> v = 0)).
Proof.
  intros Hpos rs. pose proof (contest_value e ms k) as H. fold rs in H.
  assert (Hnn : forall r, In r rs -> 0 <= r).
  { intros r Hr. unfold rs, ranks_of in Hr. apply in_map_iff in Hr. destruct Hr as [m [<- Hm]].
    apply filter_In in Hm. apply Hpos. apply Hm. }
  split.
  - intro E. destruct (dget k (contest_votes e ms)); auto. destruct H as [H _]. contradiction.
  - intro Hne. destruct (dget k (contest_votes e ms)) as [v|]; [|contradiction].
    exists v. split; auto. destruct H as [_ [[H0 Hall] | [Hn [Hin Hle]]]]; split.
    + intros [r [Hr Hr0]]. specialize (Hall r Hr). lia.
    + auto.
    + intros _. split; [specialize (Hnn v Hin); lia|]. split; auto. intros r Hr Hr0. apply Hle; auto. lia.
    + intro Hall. exfalso. apply Hn. apply Hall. exact Hin.
Qed.

(* uncounted marks are ignored exactly when rules are enforced *)
Lemma enforce_filter : forall ms d,
  fold_left (mark_step true) ms d = fold_left (mark_step true) (filter m_isvote ms) d.
Proof.
  induction ms as [|m r IH]; intro d; simpl; [reflexivity|].
  destruct (m_isvote m) eqn:E; simpl.
  - apply IH.
  - rewrite <- IH. f_equal. unfold mark_step. rewrite E. reflexivity.
Qed.
Lemma noenforce_force : forall ms d,
  fold_left (mark_step false) ms d = fold_left (mark_step true) (map force_vote ms) d.
Proof.
  induction ms as [|m r IH]; intro d; simpl; [reflexivity|].
  rewrite IH. f_equal. unfold mark_step, force_vote. simpl. rewrite orb_true_r. reflexivity.
Qed.
Lemma uncounted_ignored ms :
  contest_votes true ms = contest_votes true (filter m_isvote ms) /\
  contest_votes false ms = contest_votes true (map force_vote ms).
Proof. split; [apply enforce_filter | apply noenforce_force]. Qed.

(* ------------------------------------------------------------------ contests of a session, Original vs Modified *)
Lemma votes_get e cid : forall cs v0,
  dget cid (fold_left (contests_step e) cs v0) =
  match last_with cid cs with
  | Some con => Some (contest_votes e (c_marks con))
  | None => dget cid v0
  end.
Proof.
  induction cs as [|con r IH]; intro v0; simpl; [reflexivity|].
  rewrite IH. destruct (last_with cid r); [reflexivity|].
  unfold contests_step. destruct (Z.eqb_spec (c_id con) cid) as [E|E].
  - subst cid. apply dget_dset_same.
  - apply dget_dset_other. congruence.
Qed.

Lemma last_with_app cid a b :
  last_with cid (a ++ b) = match last_with cid b with Some x => Some x | None => last_with cid a end.
Proof.
  induction a as [|con r IH]; simpl.
  - destruct (last_with cid b); reflexivity.
  - rewrite IH. destruct (last_with cid b); reflexivity.
Qed.

Lemma fold_bodies e : forall bs v0,
  fold_left (fun votes b => fold_left (contests_step e) (selector b) votes) bs v0 =
  fold_left (contests_step e) (flat_map selector bs) v0.
Proof.
  induction bs as [|b r IH]; intro v0; simpl; [reflexivity|]. rewrite fold_left_app. apply IH.
Qed.

Definition value_of (e : bool) (o : option contest) : option (dict Z) :=
  match o with Some con => Some (contest_votes e (c_marks con)) | None => None end.

(* Whatever the order of the keys in the file (dfind looks the key up wherever it is): with use_current, a contest
   covered by Modified takes its value from Modified, any other contest from Original; without, only Original counts. *)
Lemma modified_wins o s bo bm :
  dfind KOriginal (s_data s) = Some bo -> dfind KModified (s_data s) = Some bm ->
  forall cid,
    dget cid (session_votes o s) =
    if o_current o then
      match last_with cid (selector bm) with
      | Some con => Some (contest_votes (o_enforce o) (c_marks con))
      | None => value_of (o_enforce o) (last_with cid (selector bo))
      end
    else value_of (o_enforce o) (last_with cid (selector bo)).
Proof.
  intros Ho Hm cid. unfold session_votes, bodies, wanted_keys. rewrite fold_bodies, votes_get.
  destruct (o_current o); simpl; rewrite Ho, ?Hm; simpl; rewrite ?app_nil_r.
  - rewrite last_with_app. destruct (last_with cid (selector bm)); [reflexivity|].
    destruct (last_with cid (selector bo)); reflexivity.
  - destruct (last_with cid (selector bo)); reflexivity.
Qed.

(* the session's votes depend on the key order not at all *)
Lemma key_order_irrelevant o s d1 d2 :
  dfind KOriginal d1 = dfind KOriginal d2 -> dfind KModified d1 = dfind KModified d2 ->
  session_votes o (with_data s d1) = session_votes o (with_data s d2).
Proof.
  intros H1 H2. unfold session_votes, bodies, wanted_keys. simpl.
  destruct (o_current o); simpl; rewrite H1, ?H2; reflexivity.
Qed.

(* ------------------------------------------------------------------ one record per included session *)
Lemma memZ_In x l : memZ x l = true <-> In x l.
Proof.
  unfold memZ. rewrite existsb_exists. split.
  - intros [y [Hy He]]. apply Z.eqb_eq in He. subst. exact Hy.
  - intro H. exists x. split; [exact H | apply Z.eqb_refl].
Qed.

Definition included (o : opts) (s : session) : Prop := o_include o = [] \/ In (s_group s) (o_include o).

Lemma skipped_spec o s : skipped o s = false <-> included o s.
Proof.
  unfold skipped, included. destruct (o_include o) as [|g r] eqn:E.
  - split; auto.
  - rewrite negb_false_iff, memZ_In. split; [intro H; right; exact H | intros [H|H]; [discriminate | exact H]].
Qed.

Lemma read_cvrs_map_filter o ss :
  read_cvrs o ss = map (mk_record o) (filter (fun s => negb (skipped o s)) ss).
Proof.
  induction ss as [|s r IH]; simpl; [reflexivity|]. destruct (skipped o s); simpl; rewrite IH; reflexivity.
Qed.

Lemma one_per_session o files :
  read_cvrs_directory o files = flat_map (fun ss => map (mk_record o) (filter (fun s => negb (skipped o s)) ss)) files /\
  (forall s, negb (skipped o s) = true <-> included o s) /\
  (forall s, r_id (mk_record o s) = (s_tab s, s_batch s, match s_rec s with Some n => Some n | None => s_mask s end) /\
             r_tally_pool (mk_record o s) = (s_tab s, s_batch s) /\
             (r_pool (mk_record o s) = true <-> In (s_group s) (o_pool o)) /\
             r_votes (mk_record o s) = session_votes o s).
Proof.
  split; [|split].
  - unfold read_cvrs_directory. induction files as [|f r IH]; simpl; [reflexivity|]. rewrite IH, read_cvrs_map_filter. reflexivity.
  - intro s. rewrite negb_true_iff. apply skipped_spec.
  - intro s. simpl. repeat split; try apply memZ_In.
Qed.

(* ------------------------------------------------------------------ mark-order invariance of the whole import *)
(* two exports that differ only in the order of the marks inside contests *)
Definition contest_perm (c c' : contest) : Prop := c_id c = c_id c' /\ Permutation (c_marks c) (c_marks c').
Definition body_perm (b b' : body) : Prop :=
  match b, b' with
  | Flat cs, Flat cs' => Forall2 contest_perm cs cs'
  | Cards cd, Cards cd' => Forall2 (Forall2 contest_perm) cd cd'
  | CardsAndFlat cd cs, CardsAndFlat cd' cs' => Forall2 (Forall2 contest_perm) cd cd' /\ Forall2 contest_perm cs cs'
  | _, _ => False
  end.
Definition session_perm (s s' : session) : Prop :=
  s_group s = s_group s' /\ s_tab s = s_tab s' /\ s_batch s = s_batch s' /\ s_rec s = s_rec s' /\ s_mask s = s_mask s' /\
  Forall2 (fun x y => fst x = fst y /\ body_perm (snd x) (snd y)) (s_data s) (s_data s').
(* equality of the returned records as Python compares dicts *)
Definition votes_equiv (v v' : dict (dict Z)) : Prop :=
  forall cid, match dget cid v, dget cid v' with
              | Some d, Some d' => dict_equiv d d'
              | None, None => True
              | _, _ => False
              end.
Definition cvr_equiv (r r' : cvr) : Prop :=
  r_id r = r_id r' /\ r_tally_pool r = r_tally_pool r' /\ r_pool r = r_pool r' /\ votes_equiv (r_votes r) (r_votes r').

Lemma Forall2_concat {A B} (R : A -> B -> Prop) l l' : Forall2 (Forall2 R) l l' -> Forall2 R (concat l) (concat l').
Proof. induction 1; simpl; [constructor | apply Forall2_app; assumption]. Qed.

Lemma selector_perm b b' : body_perm b b' -> Forall2 contest_perm (selector b) (selector b').
Proof.
  destruct b, b'; simpl; try contradiction; auto using Forall2_concat. intros [H _]. apply Forall2_concat. exact H.
Qed.

Lemma dfind_perm k d d' : Forall2 (fun x y => fst x = fst y /\ body_perm (snd x) (snd y)) d d' ->
  match dfind k d, dfind k d' with
  | Some b, Some b' => body_perm b b'
  | None, None => True
  | _, _ => False
  end.
Proof.
  induction 1 as [|[k1 b1] [k2 b2] r r' [Hk Hb] _ IH]; simpl; auto. simpl in Hk, Hb. subst k2.
  destruct (dkey_eqb k k1); auto.
Qed.

Lemma bodies_perm cur s s' : session_perm s s' ->
  Forall2 contest_perm (flat_map selector (bodies cur s)) (flat_map selector (bodies cur s')).
Proof.
  intros [_ [_ [_ [_ [_ Hd]]]]]. unfold bodies.
  assert (Hk : forall k, Forall2 contest_perm
                 (flat_map selector (match dfind k (s_data s) with Some b => [b] | None => [] end))
                 (flat_map selector (match dfind k (s_data s') with Some b => [b] | None => [] end))).
  { intro k. pose proof (dfind_perm k _ _ Hd) as H.
    destruct (dfind k (s_data s)), (dfind k (s_data s')); try contradiction; simpl; [| constructor].
    rewrite !app_nil_r. apply selector_perm. exact H. }
  unfold wanted_keys. destruct cur; simpl; rewrite ?app_nil_r.
  - rewrite !flat_map_app. apply Forall2_app; apply Hk.
  - apply Hk.
Qed.

Lemma last_with_perm cid cs cs' : Forall2 contest_perm cs cs' ->
  match last_with cid cs, last_with cid cs' with
  | Some c, Some c' => contest_perm c c'
  | None, None => True
  | _, _ => False
  end.
Proof.
  induction 1 as [|c c' r r' [Hid Hp] _ IH]; simpl; auto.
  destruct (last_with cid r), (last_with cid r'); try contradiction; auto.
  rewrite <- Hid. destruct (c_id c =? cid); auto. split; assumption.
Qed.

Lemma session_votes_perm o s s' : session_perm s s' -> votes_equiv (session_votes o s) (session_votes o s').
Proof.
  intros Hs cid. unfold session_votes. rewrite !fold_bodies, !votes_get. simpl.
  pose proof (last_with_perm cid _ _ (bodies_perm (o_current o) s s' Hs)) as H.
  destruct (last_with cid (flat_map selector (bodies (o_current o) s))),
           (last_with cid (flat_map selector (bodies (o_current o) s'))); try contradiction; auto.
  destruct H as [_ Hp]. apply mark_order_invariant. exact Hp.
Qed.

Lemma read_cvrs_perm o ss ss' : Forall2 session_perm ss ss' -> Forall2 cvr_equiv (read_cvrs o ss) (read_cvrs o ss').
Proof.
  induction 1 as [|s s' r r' Hs _ IH]; simpl; [constructor|].
  assert (Hsk : skipped o s = skipped o s') by (unfold skipped; destruct Hs as [-> _]; reflexivity).
  rewrite <- Hsk. destruct (skipped o s); auto. constructor; auto.
  unfold cvr_equiv, mk_record, record_id. simpl. pose proof (session_votes_perm o s s' Hs) as Hv.
  destruct Hs as [-> [-> [-> [-> [-> _]]]]]. auto.
Qed.

Lemma import_mark_order_invariant o files files' :
  Forall2 (Forall2 session_perm) files files' ->
  Forall2 cvr_equiv (read_cvrs_directory o files) (read_cvrs_directory o files').
Proof.
  unfold read_cvrs_directory. induction 1; simpl; [constructor|]. apply Forall2_app; auto. apply read_cvrs_perm. assumption.
Qed.

Lemma modified_wins_full (o : opts) (s : session) (bo bm : body) :
  dfind KOriginal (s_data s) = Some bo -> dfind KModified (s_data s) = Some bm ->
  (forall cid,
    dget cid (session_votes o s) =
    if o_current o then
      match last_with cid (selector bm) with
      | Some con => Some (contest_votes (o_enforce o) (c_marks con))
      | None => value_of (o_enforce o) (last_with cid (selector bo))
      end
    else value_of (o_enforce o) (last_with cid (selector bo))) /\
  (forall d1 d2, dfind KOriginal d1 = dfind KOriginal d2 -> dfind KModified d1 = dfind KModified d2 ->
                 session_votes o (with_data s d1) = session_votes o (with_data s d2)).
Proof. intros Ho Hm. split; [apply modified_wins; assumption | apply key_order_irrelevant]. Qed.
