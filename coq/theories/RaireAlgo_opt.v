(* RaireAlgo_opt.v — optimality of the model of the search (C15's core clause): every assertion RaireAlgo.raire
   returns has difficulty <= the verified minimax optimum `opt` of RaireCheck, for every difficulty function whose
   values on true comparisons are >= the initial lower bound -10 (both shipped functions are).
   Part A: find_best_audit returns the CHEAPEST assertion it considers, and it considers every true assertion
   contradicting an order at the suffix of that order starting at the assertion's winner. *)
From SV Require Import RaireCheck RaireCheck_proofs RaireAlgo RaireAlgo_proofs RaireAlgo_inv RaireAlgo_complete.
Open Scope nat_scope.

Definition le_opt (o : option asr) (q : Q) : Prop := exists r, o = Some r /\ (a_d r <= q)%Q.

Lemma better_le_keep best x q : le_opt best q -> le_opt (better best x) q.
Proof.
  intros [b [Hb Hq]]. subst best. unfold better. destruct x as [nb|]; [|exists b; auto].
  destruct (Qlt_bool (a_d nb) (a_d b)) eqn:E.
  - exists nb. split; [reflexivity|]. apply Qlt_bool_iff in E. lra.
  - exists b. auto.
Qed.
Lemma better_le_new best c : le_opt (better best (Some c)) (a_d c).
Proof.
  unfold better. destruct best as [b|]; [|exists c; split; [reflexivity | lra]].
  destruct (Qlt_bool (a_d c) (a_d b)) eqn:E.
  - exists c. split; [reflexivity | lra].
  - exists b. split; [reflexivity|]. apply Qlt_bool_false in E. exact E.
Qed.
Lemma fold_better_le_keep {B} (g : B -> option asr) l q : forall b0, le_opt b0 q ->
  le_opt (fold_left (fun best y => better best (g y)) l b0) q.
Proof. induction l as [|y r IH]; simpl; intros b0 H; [exact H|]. apply IH. apply better_le_keep. exact H. Qed.
Lemma fold_better_le_find {B} (g : B -> option asr) l y c : In y l -> g y = Some c -> forall b0,
  le_opt (fold_left (fun best y => better best (g y)) l b0) (a_d c).
Proof.
  induction l as [|z r IH]; simpl; [intros []|]. intros [Hy|Hy] Hg b0.
  - subst z. apply fold_better_le_keep. rewrite Hg. apply better_le_new.
  - apply IH; assumption.
Qed.

Section FbaMin.
  Variable dfun : nat -> nat -> nat -> Q.
  Variable cands : list cand.
  Variable p : profile.
  Variable tot : nat.
  Variable nebs : list (cand * cand * option asr).
  Let fba := find_best_audit dfun cands p tot nebs.

  Lemma step3_le_keep (tf : nat) (tlf : cand -> nat) (mk : cand -> nat -> asr) l q :
    (forall lc tl, a_d (mk lc tl) = dfun tf tl tot) ->
    forall b0, le_opt b0 q ->
    le_opt (fold_left (fun best lc => let tl := tlf lc in
                 if Nat.ltb tl tf then
                   match best with
                   | None => Some (mk lc tl)
                   | Some b => if Qlt_bool (dfun tf tl tot) (a_d b) then Some (mk lc tl) else best
                   end
                 else best) l b0) q.
  Proof.
    intro Hmk. induction l as [|y r IH]; simpl; intros b0 H; [exact H|]. apply IH.
    destruct (Nat.ltb (tlf y) tf); [|exact H]. destruct H as [b [Hb Hq]]. subst b0.
    destruct (Qlt_bool (dfun tf (tlf y) tot) (a_d b)) eqn:E.
    - exists (mk y (tlf y)). split; [reflexivity|]. rewrite Hmk. apply Qlt_bool_iff in E. lra.
    - exists b. auto.
  Qed.
  Lemma step3_le_find (tf : nat) (tlf : cand -> nat) (mk : cand -> nat -> asr) l y :
    (forall lc tl, a_d (mk lc tl) = dfun tf tl tot) ->
    In y l -> Nat.ltb (tlf y) tf = true -> forall b0,
    le_opt (fold_left (fun best lc => let tl := tlf lc in
                 if Nat.ltb tl tf then
                   match best with
                   | None => Some (mk lc tl)
                   | Some b => if Qlt_bool (dfun tf tl tot) (a_d b) then Some (mk lc tl) else best
                   end
                 else best) l b0) (dfun tf (tlf y) tot).
  Proof.
    intro Hmk. induction l as [|z r IH]; simpl; [intros []|]. intros [Hy|Hy] Hlt b0.
    - subst z. apply step3_le_keep; [exact Hmk|]. rewrite Hlt. destruct b0 as [b|].
      + destruct (Qlt_bool (dfun tf (tlf y) tot) (a_d b)) eqn:E.
        * exists (mk y (tlf y)). split; [reflexivity|]. rewrite Hmk. lra.
        * exists b. split; [reflexivity|]. apply Qlt_bool_false in E. exact E.
      + exists (mk y (tlf y)). split; [reflexivity|]. rewrite Hmk. lra.
    - apply IH; assumption.
  Qed.

  Lemma fba_neb_le first later lc b : In lc later -> lookup nebs first lc = Some b ->
    le_opt (fba (first :: later)) (a_d b).
  Proof.
    intros Hin Hl. unfold fba. rewrite fba_unfold. cbv zeta.
    apply (step3_le_keep _ (fun lc => count_for (map (first_standing (remf cands (first :: later))) p) lc)
                      (fun lc tl => mkasr (NEN first lc (remf cands (first :: later)))
                                          (count_for (map (first_standing (remf cands (first :: later))) p) first) tl
                                          (dfun (count_for (map (first_standing (remf cands (first :: later))) p) first) tl tot)
                                          [first :: later])); [reflexivity|].
    apply (fold_left_inv (fun o : option asr => le_opt o (a_d b))).
    - apply (fold_better_le_find (fun lc => lookup nebs first lc) later lc b Hin Hl).
    - intros best c Hb _. apply fold_better_le_keep. exact Hb.
  Qed.
  Lemma fba_nen_le first later lc : In lc later ->
    Nat.ltb (count_for (map (first_standing (remf cands (first :: later))) p) lc)
            (count_for (map (first_standing (remf cands (first :: later))) p) first) = true ->
    le_opt (fba (first :: later))
           (dfun (count_for (map (first_standing (remf cands (first :: later))) p) first)
                 (count_for (map (first_standing (remf cands (first :: later))) p) lc) tot).
  Proof.
    intros Hin Hlt. unfold fba. rewrite fba_unfold. cbv zeta.
    apply (step3_le_find _ (fun lc => count_for (map (first_standing (remf cands (first :: later))) p) lc)
                      (fun lc tl => mkasr (NEN first lc (remf cands (first :: later)))
                                          (count_for (map (first_standing (remf cands (first :: later))) p) first) tl
                                          (dfun (count_for (map (first_standing (remf cands (first :: later))) p) first) tl tot)
                                          [first :: later]) later lc); [reflexivity | exact Hin | exact Hlt].
  Qed.
End FbaMin.

Section QC.
  Variable dfun : nat -> nat -> nat -> Q.
  Variable cands : list cand.
  Variable p : profile.
  Variable tot : nat.
  Hypothesis Hnd : NoDup cands.
  Let nebs := neb_table dfun cands p tot.
  Let fba := find_best_audit dfun cands p tot nebs.

  (* quantitative completeness: a true assertion contradicting a complete order is met, at no greater difficulty, at
     the suffix of the order that starts at the assertion's winner *)
  Lemma fba_complete_le a pi :
    Permutation cands pi -> holds cands p a = true -> contradicts a pi = true ->
    exists t, ends_with t pi /\ 2 <= length t /\ le_opt (fba t) (diff_of dfun p tot a).
  Proof.
    intros Hp Hh Hc.
    assert (Hback : forall x, In x pi -> In x cands)
      by (intros x Hx; eapply Permutation_in; [apply Permutation_sym; exact Hp | exact Hx]).
    assert (Hndp : NoDup pi) by (eapply Permutation_NoDup; eauto).
    unfold holds in Hh. apply andb_true_iff in Hh. destruct Hh as [Hwf Hlt].
    destruct a as [w l | w l e]; simpl in Hc.
    - destruct (before_In _ _ _ Hc) as [Hw [Hl Hne]].
      destruct (before_split _ _ _ Hc) as [dn [rest [Hpi [Hlr _]]]].
      exists (w :: rest). split; [exists dn; exact Hpi|]. split.
      { destruct rest; [destruct Hlr | simpl; lia]. }
      change (tally_l p (NEB w l)) with (count (neb_vote_l w l) p) in Hlt.
      change (tally_w p (NEB w l)) with (count (neb_vote_w w) p) in Hlt.
      assert (Hlk : lookup nebs w l = Some (mkasr (NEB w l) (count (neb_vote_w w) p) (count (neb_vote_l w l) p)
                                               (dfun (count (neb_vote_w w) p) (count (neb_vote_l w l) p) tot) [])).
      { unfold nebs. rewrite lookup_neb_table by (apply Hback; assumption).
        apply Nat.eqb_neq in Hne. rewrite Hne. unfold mk_neb. rewrite Hlt. reflexivity. }
      apply (fba_neb_le dfun cands p tot nebs w rest l _ Hlr Hlk).
    - destruct (prefix_before w pi) as [pre|] eqn:Ep; [|discriminate].
      destruct (prefix_before_split _ _ _ Ep) as [rest [Hpi Hwpre]]. rewrite set_eq_spec in Hc.
      simpl in Hwf. apply andb_true_iff in Hwf. destruct Hwf as [Hwf Hwl]. apply andb_true_iff in Hwf.
      destruct Hwf as [Hlc Hle]. apply mem_In in Hlc. apply negb_true_iff in Hle. apply mem_false in Hle.
      apply negb_true_iff in Hwl. apply Nat.eqb_neq in Hwl.
      assert (Hlrest : In l rest).
      { assert (Hin : In l pi) by (eapply Permutation_in; eauto). rewrite Hpi in Hin.
        apply in_app_or in Hin. destruct Hin as [Hin|[Hin|Hin]]; [exfalso; apply Hle; apply Hc; exact Hin | congruence | exact Hin]. }
      exists (w :: rest). split; [exists pre; exact Hpi|]. split.
      { destruct rest; [destruct Hlrest | simpl; lia]. }
      assert (Hm : forall x, mem x (remf cands (w :: rest)) = mem x e).
      { apply mem_ext. intro x. rewrite <- Hc. unfold remf. rewrite filter_In. split.
        - intros [Hx Hn]. apply negb_true_iff in Hn. apply mem_false in Hn.
          assert (Hin : In x pi) by (eapply Permutation_in; eauto). rewrite Hpi in Hin.
          apply in_app_or in Hin. destruct Hin as [Hin|Hin]; [exact Hin | contradiction].
        - intro Hx. split; [apply Hback; rewrite Hpi; apply in_or_app; left; exact Hx|].
          apply negb_true_iff. apply mem_false. intro Hin. rewrite Hpi in Hndp. eapply NoDup_app_disj; eauto. }
      assert (Hcl : count_for (map (first_standing (remf cands (w :: rest))) p) l = tally_l p (NEN w l e)).
      { rewrite count_for_spec. apply count_ext. intro b. apply vfc_ext. exact Hm. }
      assert (Hcw : count_for (map (first_standing (remf cands (w :: rest))) p) w = tally_w p (NEN w l e)).
      { rewrite count_for_spec. apply count_ext. intro b. apply vfc_ext. exact Hm. }
      unfold diff_of. rewrite <- Hcl, <- Hcw.
      apply (fba_nen_le dfun cands p tot nebs w rest l Hlrest). rewrite Hcl, Hcw. exact Hlt.
  Qed.
End QC.

(* ------------------------------------------------------------------ Part B: the frontier is ordered *)
(* every expandable entry is no dearer than each entry before it *)
Inductive Ord (h : heap) : list fentry -> Prop :=
| Ord_nil : Ord h []
| Ord_cons z r : Ord h r ->
    (forall y, In y r -> n_exp (get h (fe_id y)) = true -> ole (fe_est y) (fe_est z) = true) -> Ord h (z :: r).

Lemma Ord_mono h h' fr :
  (forall y, In y fr -> n_exp (get h' (fe_id y)) = true -> n_exp (get h (fe_id y)) = true) -> Ord h fr -> Ord h' fr.
Proof.
  intros Hm Ho. induction Ho as [|z r Ho IH Hz]; [constructor|]. constructor.
  - apply IH. intros y Hy. apply Hm. right. exact Hy.
  - intros y Hy He. apply Hz; [exact Hy|]. apply Hm; [right; exact Hy | exact He].
Qed.
Lemma Ord_filter h fr g : Ord h fr -> Ord h (filter g fr).
Proof.
  intro Ho. induction Ho as [|z r Ho IH Hz]; simpl; [constructor|].
  destruct (g z); [|exact IH]. constructor; [exact IH|]. intros y Hy. apply filter_In in Hy. apply Hz. apply Hy.
Qed.
Lemma Ord_tail h z r : Ord h (z :: r) -> Ord h r.
Proof. intro H. inversion H. assumption. Qed.
Lemma Ord_app_leaf h fr x : n_exp (get h (fe_id x)) = false -> Ord h fr -> Ord h (fr ++ [x]).
Proof.
  intros Hx Ho. induction Ho as [|z r Ho IH Hz]; simpl.
  - constructor; [constructor | intros y []].
  - constructor; [exact IH|]. intros y Hy He. apply in_app_or in Hy. destruct Hy as [Hy|[Hy|[]]]; [apply Hz; assumption|].
    subst y. congruence.
Qed.
Lemma Ord_ins_sorted h e x fr : fe_est x = Some e -> Ord h fr -> Ord h (ins_sorted e x fr).
Proof.
  intros Hx Ho. induction Ho as [|z r Ho IH Hz]; cbn [ins_sorted].
  - constructor; [constructor | intros y []].
  - destruct (ole (fe_est z) (Some e)) eqn:E.
    + constructor; [constructor; assumption|]. rewrite Hx. intros y [Hy|Hy] He.
      * subst y. exact E.
      * eapply ole_trans; [apply Hz; assumption | exact E].
    + constructor; [exact IH|]. intros y Hy He. apply ins_sorted_in in Hy. destruct Hy as [Hy|Hy]; [|apply Hz; assumption].
      subst y. rewrite Hx. apply ole_total. exact E.
Qed.
Lemma Ord_insert h fr n : nvalid h n -> Ord h fr -> Ord h (insert_node fr n).
Proof.
  intros [Hv1 Hv2] Ho. unfold insert_node. destruct (negb (n_exp n)) eqn:E.
  - apply Ord_app_leaf; [|exact Ho]. change (fe_id (fe_of n)) with (n_id n). rewrite Hv2. apply negb_true_iff. exact E.
  - destruct (n_est n) as [e|] eqn:Ee.
    + apply Ord_ins_sorted; [|exact Ho]. unfold fe_of, fe_est. simpl. exact Ee.
    + constructor; [exact Ho|]. intros y _ _. unfold fe_of, fe_est at 2. simpl. rewrite Ee. destruct (fe_est y); reflexivity.
Qed.
Lemma Ord_replace h fr a : nvalid h a -> Ord h fr -> Ord h (replace_desc fr a).
Proof. intros Hv Ho. unfold replace_desc. apply Ord_insert; [exact Hv | apply Ord_filter; exact Ho]. Qed.

(* ------------------------------------------------------------------ Part C: lower bound and leaves stay below the optimum *)
Definition dfun_lb (dfun : nat -> nat -> nat -> Q) (tot : nat) : Prop :=
  forall tw tl, tl < tw -> (-10 # 1 <= dfun tw tl tot)%Q.

Section Opt.
  Variable dfun : nat -> nat -> nat -> Q.
  Variable cands : list cand.
  Variable p : profile.
  Variable tot : nat.
  Variable hint : list cand.
  Variable winner : cand.
  Variable d : Q.
  Hypothesis Hnd : NoDup cands.
  Hypothesis Hopt : opt dfun cands p tot winner = Val d.
  Let nebs := neb_table dfun cands p tot.
  Let fba := find_best_audit dfun cands p tot nebs.
  Let HJ' := HJ dfun cands p tot winner.
  Let est_of' := est_of dfun cands p tot.

  (* non-expandable frontier entries cost at most the optimum *)
  Definition O2 (h : heap) (fr : list fentry) : Prop :=
    forall x, In x fr -> n_exp (get h (fe_id x)) = false -> ole (n_est (get h (fe_id x))) (Some d) = true.
  Definition OJ (h : heap) (fr : list fentry) (lb : Q) : Prop := (lb <= d)%Q /\ Ord h fr /\ O2 h fr.

  Lemma le_opt_ole o q : le_opt o q -> (q <= d)%Q -> ole (option_map a_d o) (Some d) = true.
  Proof. intros [r [Hr Hq]] Hd. subst o. simpl. apply Qle_bool_iff. lra. Qed.

  (* for a complete alternative order, some suffix has an assertion costing at most the optimum *)
  Lemma order_bound pi : alt cands winner pi ->
    exists t, ends_with t pi /\ 2 <= length t /\ ole (est_of' t) (Some d) = true.
  Proof.
    intros [Hp He].
    destruct (opt_val dfun cands p tot winner Hnd d Hopt) as [[S [Ht [Hs [Hle _]]]] _].
    destruct (Hs pi Hp He) as [a [Ha Hc]].
    destruct (fba_complete_le dfun cands p tot Hnd a pi Hp (Ht a Ha) Hc) as [t [H1 [H2 H3]]].
    exists t. split; [exact H1|]. split; [exact H2|]. unfold est_of', est_of. apply le_opt_ole with (q := diff_of dfun p tot a).
    - exact H3.
    - apply Hle. exact Ha.
  Qed.

  (* a leaf (complete order): its own estimate or its best ancestor's is at most the optimum *)
  Lemma leaf_bound h newn : HJ' h -> nvalid h newn -> length (n_tail newn) = length cands ->
    ole (n_est newn) (Some d) = true \/
    (exists a, n_anc newn = Some a /\ ole (n_est (get h a)) (Some d) = true).
  Proof.
    intros [J1 [J2 [J3 [J4 J5]]]] [Hv1 Hv2] Hlen.
    pose proof (J2 _ Hv1) as Htk. rewrite Hv2 in Htk. destruct Htk as [T1 [T2 [T3 T4]]].
    assert (Halt : alt cands winner (n_tail newn)).
    { split; [|exact T4]. apply Permutation_sym. apply NoDup_Permutation_bis; [exact T2 | lia | exact T3]. }
    destruct (order_bound _ Halt) as [t [Hend [Hl2 Hle]]].
    destruct (Nat.eq_dec (length t) (length (n_tail newn))) as [Hq|Hq].
    - left. rewrite (ends_with_same_len _ _ Hend Hq) in Hle. destruct (J1 _ Hv1) as [H _]. rewrite Hv2 in H. rewrite H. exact Hle.
    - right. assert (Hps : psuf t (n_tail newn)).
      { split; [exact Hend|]. split; [|exact Hl2]. pose proof (ends_with_len _ _ Hend). lia. }
      destruct (n_anc newn) as [a|] eqn:Ea.
      + exists a. split; [reflexivity|].
        assert (Ha' : n_anc (get h (n_id newn)) = Some a) by (rewrite Hv2; exact Ea).
        pose proof (J3 _ _ Hv1 Ha' t) as H. rewrite Hv2 in H. eapply ole_trans; [apply H; exact Hps | exact Hle].
      + exfalso. assert (Hn : n_anc (get h (n_id newn)) = None) by (rewrite Hv2; exact Ea).
        pose proof (J4 _ Hv1 Hn) as H2. rewrite Hv2 in H2. destruct Hps as [_ [P1 P2]]. lia.
  Qed.

  Lemma ole_Some_le a b : ole (Some a) (Some b) = true -> (a <= b)%Q.
  Proof. simpl. intro H. apply Qle_bool_iff. exact H. Qed.

  Lemma O2_insert h fr n : nvalid h n -> O2 h fr -> (n_exp n = false -> ole (n_est n) (Some d) = true) ->
    O2 h (insert_node fr n).
  Proof.
    intros [Hv1 Hv2] Ho Hn x Hx. apply insert_node_in in Hx. destruct Hx as [Hx|Hx]; [|apply Ho; exact Hx].
    subst x. change (fe_id (fe_of n)) with (n_id n). rewrite Hv2. exact Hn.
  Qed.
  Lemma O2_filter h fr g : O2 h fr -> O2 h (filter g fr).
  Proof. intros Ho x Hx. apply filter_In in Hx. apply Ho. apply Hx. Qed.
  Lemma O2_replace h fr a : nvalid h a -> O2 h fr -> (n_exp a = false -> ole (n_est a) (Some d) = true) ->
    O2 h (replace_desc fr a).
  Proof. intros Hv Ho Ha. unfold replace_desc. apply O2_insert; [exact Hv | apply O2_filter; exact Ho | exact Ha]. Qed.
  Lemma O2_tail h x fr : O2 h (x :: fr) -> O2 h fr.
  Proof. intros Ho y Hy. apply Ho. right. exact Hy. Qed.
  (* heap changes that keep exp and est of the nodes the frontier refers to *)
  Lemma O2_heap h h' fr : O2 h fr ->
    (forall x, In x fr -> n_est (get h' (fe_id x)) = n_est (get h (fe_id x)) /\
                          (n_exp (get h' (fe_id x)) = false ->
                           n_exp (get h (fe_id x)) = false \/ ole (n_est (get h (fe_id x))) (Some d) = true)) ->
    O2 h' fr.
  Proof.
    intros Ho Hs x Hx He. destruct (Hs x Hx) as [H1 H2]. rewrite H1. destruct (H2 He) as [H|H]; [apply Ho; assumption | exact H].
  Qed.

  Lemma OJ_cons n h fr lb : FV h fr -> OJ h fr lb -> OJ (n :: h) fr lb.
  Proof.
    intros Hf [H1 [H2 H3]]. split; [exact H1|]. split.
    - apply (Ord_mono h); [|exact H2]. intros y Hy. rewrite get_cons_old by (apply (Hf y Hy)). auto.
    - apply (O2_heap h); [exact H3|]. intros x Hx. rewrite get_cons_old by (apply (Hf x Hx)). auto.
  Qed.
  Lemma OJ_upd_explored h fr lb id c : hwf h -> FV h fr -> OJ h fr lb -> OJ (upd h id (add_explored c)) fr lb.
  Proof.
    intros Hw Hf [H1 [H2 H3]]. split; [exact H1|]. split.
    - apply (Ord_mono h); [|exact H2]. intros y Hy. rewrite get_upd by (try assumption; apply (Hf y Hy)).
      destruct (Nat.eqb (fe_id y) id); auto.
    - apply (O2_heap h); [exact H3|]. intros x Hx. rewrite get_upd by (try assumption; apply (Hf x Hx)).
      destruct (Nat.eqb (fe_id x) id); auto.
  Qed.
  Lemma OJ_upd_leaf h fr lb id : hwf h -> FV h fr -> id < length h -> ole (n_est (get h id)) (Some lb) = true ->
    OJ h fr lb -> OJ (upd h id set_exp_false) fr lb.
  Proof.
    intros Hw Hf Hid Hest [H1 [H2 H3]]. split; [exact H1|]. split.
    - apply (Ord_mono h); [|exact H2]. intros y Hy. rewrite get_upd by (try assumption; apply (Hf y Hy)).
      destruct (Nat.eqb (fe_id y) id); [simpl; discriminate | auto].
    - apply (O2_heap h); [exact H3|]. intros x Hx. rewrite get_upd by (try assumption; apply (Hf x Hx)).
      destruct (Nat.eqb (fe_id x) id) eqn:E; [|auto]. apply Nat.eqb_eq in E. split; [reflexivity|]. intros _. right.
      rewrite E. eapply ole_mono; [exact H1 | exact Hest].
  Qed.

  (* manage_node keeps the invariant *)
  Lemma manage_O h fr lb newn fr' lb' t :
    HI cands h -> HJ' h -> FV h fr -> nvalid h newn ->
    (n_exp newn = false -> length (n_tail newn) = length cands) ->
    OJ h fr lb ->
    manage_node h fr lb newn = (false, fr', lb', t) -> OJ h fr' lb'.
  Proof.
    intros [Hw [Ha He]] Hhj Hf Hv Hleaf [Hl [Ho H2]]. unfold manage_node.
    destruct (n_exp newn) eqn:Eexp.
    - intro H. inversion H. subst. split; [exact Hl|]. split; [apply Ord_insert; assumption|].
      apply O2_insert; try assumption. intro Hc. congruence.
    - specialize (Hleaf eq_refl).
      pose proof (leaf_bound h newn Hhj Hv Hleaf) as Hlb.
      set (ba := match n_anc newn with Some a => get h a | None => dummy_node end) in *.
      assert (Hba : forall a, n_anc newn = Some a -> nvalid h (get h a) /\ ba = get h a).
      { intros a Hanc. destruct Hv as [Hv1 Hv2].
        assert (Hanc' : n_anc (get h (n_id newn)) = Some a) by (rewrite Hv2; exact Hanc).
        destruct (Ha _ _ Hv1 Hanc') as [Halt _]. split; [apply nvalid_get; assumption|]. unfold ba. rewrite Hanc. reflexivity. }
      (* the two outcomes *)
      assert (Hins : forall en, n_est newn = Some en -> ole (n_est ba) (Some en) = false ->
                OJ h (insert_node fr newn) (Qmaxb lb en)).
      { intros en En Eo. assert (Hen : (en <= d)%Q).
        { destruct Hlb as [H|[a [Hanc H]]].
          - rewrite En in H. apply ole_Some_le. exact H.
          - destruct (Hba a Hanc) as [_ Hb]. rewrite <- Hb in H.
            apply ole_Some_le. eapply ole_trans; [apply ole_total; exact Eo | exact H]. }
        split; [destruct (Qmaxb_spec lb en) as [[_ G]|[_ G]]; rewrite G; assumption|].
        split; [apply Ord_insert; assumption|]. apply O2_insert; try assumption. intros _. rewrite En. simpl. apply Qle_bool_iff. exact Hen. }
      assert (Hrep : forall eb, n_est ba = Some eb -> ole (n_est ba) (n_est newn) = true ->
                OJ h (replace_desc fr ba) (Qmaxb lb eb)).
      { intros eb Eb Eo.
        assert (Hanc : exists a, n_anc newn = Some a).
        { destruct (n_anc newn) as [a|] eqn:E; [exists a; reflexivity|]. unfold ba in Eb. simpl in Eb. discriminate. }
        destruct Hanc as [a Hanc]. destruct (Hba a Hanc) as [Hva Hb].
        assert (Heb : (eb <= d)%Q).
        { destruct Hlb as [H|[a' [Hanc' H]]].
          - apply ole_Some_le. rewrite <- Eb. eapply ole_trans; [exact Eo | exact H].
          - rewrite Hanc in Hanc'. inversion Hanc'. subst a'. rewrite <- Hb, Eb in H. apply ole_Some_le. exact H. }
        split; [destruct (Qmaxb_spec lb eb) as [[_ G]|[_ G]]; rewrite G; assumption|].
        rewrite Hb. split; [apply Ord_replace; assumption|]. apply O2_replace; try assumption.
        intros _. rewrite <- Hb, Eb. simpl. apply Qle_bool_iff. exact Heb. }
      destruct (n_est newn) as [en|] eqn:En; destruct (n_est ba) as [eb|] eqn:Eb.
      + destruct (ole (Some eb) (Some en)) eqn:Eo; intro H; inversion H; subst.
        * apply (Hrep eb eq_refl eq_refl).
        * apply (Hins en eq_refl Eo).
      + destruct (ole None (Some en)) eqn:Eo; intro H; inversion H; subst; [simpl in Eo; discriminate|].
        apply (Hins en eq_refl Eo).
      + destruct (ole (Some eb) None) eqn:Eo; intro H; inversion H; subst; [|simpl in Eo; discriminate].
        apply (Hrep eb eq_refl eq_refl).
      + intro H. discriminate.
  Qed.

  Lemma new_node_leaf id tl anc dv :
    n_exp (new_node dfun cands p tot nebs id tl anc dv) = false -> length tl = length cands.
  Proof.
    change (n_exp (new_node dfun cands p tot nebs id tl anc dv)) with (negb (Nat.eqb (length tl) (length cands))).
    intro H. apply negb_false_iff in H. apply Nat.eqb_eq in H. exact H.
  Qed.

  Lemma expand_O cs : forall te h fr lb h' fr' lb',
    HI cands h -> HJ' h -> FV h fr -> FJ h fr -> nvalid h te -> incl cs cands -> OJ h fr lb ->
    expand dfun cands p tot nebs cs te h fr lb = (false, h', fr', lb') -> OJ h' fr' lb'.
  Proof.
    induction cs as [|c r IH]; intros te h fr lb h' fr' lb' Hh Hhj Hf Hfj Hv Hinc Hoj; cbn [expand].
    - intro H. inversion H. subst. exact Hoj.
    - assert (Hr : incl r cands) by (intros y Hy; apply Hinc; right; exact Hy).
      destruct (negb (mem c (n_tail te)) && negb (mem c (n_explored te))) eqn:Econd; [|apply IH; assumption].
      apply andb_true_iff in Econd. destruct Econd as [Ec1 _]. apply negb_true_iff in Ec1. apply mem_false in Ec1.
      assert (Hc : In c cands) by (apply Hinc; left; reflexivity).
      destruct (push_child dfun cands p tot nebs h te c false Hh Hv) as [Hh1 [Hv1 [Hex1 Htl1]]].
      pose proof (HJ_child dfun cands p tot winner h te c false Hh Hhj Hv Hc Ec1) as Hhj1.
      fold nebs in Hhj1.
      set (newn := new_node dfun cands p tot nebs (length h) (c :: n_tail te) (anc_for_child h te) false) in *.
      pose proof (FV_cons newn h fr Hf) as Hf1. pose proof (FJ_cons newn h fr Hf Hfj) as Hfj1.
      pose proof (OJ_cons newn h fr lb Hf Hoj) as Hoj1.
      destruct (manage_node (newn :: h) fr lb newn) as [[[b1 f1] l1] t1] eqn:Em.
      destruct b1; [discriminate|].
      destruct (manage_ok _ _ _ _ _ _ _ _ Hh1 Hf1 Hv1 Hex1 Em) as [_ [Hf2 _]].
      pose proof (manage_J _ _ _ _ _ _ _ _ Hh1 Hf1 Hfj1 Hv1 Em) as Hfj2.
      assert (Hleaf : n_exp newn = false -> length (n_tail newn) = length cands).
      { intro Hx. rewrite Htl1. apply (new_node_leaf _ _ _ _ Hx). }
      pose proof (manage_O _ _ _ _ _ _ _ Hh1 Hhj1 Hf1 Hv1 Hleaf Hoj1 Em) as Hoj2.
      apply IH; try assumption. apply nvalid_cons. exact Hv.
  Qed.

  Lemma dive_O fuel : forall h fr lb nid h' fr' dlb,
    HI cands h -> HJ' h -> FV h fr -> FJ h fr -> nid < length h -> OJ h fr lb ->
    perform_dive dfun cands p tot hint nebs fuel h fr lb nid = Some (h', fr', Some dlb) -> OJ h' fr' dlb.
  Proof.
    induction fuel as [|f IH]; intros h fr lb nid h' fr' dlb Hh Hhj Hf Hfj Hnid Hoj; cbn [perform_dive]; [discriminate|].
    destruct (filter (fun c => negb (mem c (n_tail (get h nid)))) cands) as [|r0 rest] eqn:Ef; [discriminate|].
    set (next := dive_choice hint r0 rest).
    assert (Hnext : In next cands /\ ~ In next (n_tail (get h nid))).
    { assert (Hin : In next (r0 :: rest)) by apply dive_choice_in. rewrite <- Ef in Hin. apply filter_In in Hin.
      destruct Hin as [H1 H2]. split; [exact H1|]. apply negb_true_iff in H2. apply mem_false in H2. exact H2. }
    set (h1 := upd h nid (add_explored next)).
    assert (Hw : hwf h) by apply Hh. assert (Hao : aok h) by apply Hh.
    pose proof (keeps_add_explored next) as Hk.
    assert (Hh1 : HI cands h1) by (apply HI_upd; assumption).
    assert (Hhj1 : HJ' h1) by (apply HJ_upd; try assumption; [reflexivity | intros _ Hx0; left; exact Hx0]).
    assert (Hf1 : FV h1 fr) by (apply FV_upd; assumption).
    assert (Hfj1 : FJ h1 fr) by (apply FJ_upd_explored; assumption).
    assert (Hoj1 : OJ h1 fr lb) by (apply OJ_upd_explored; assumption).
    assert (Hnid1 : nid < length h1) by (unfold h1; rewrite upd_length; exact Hnid).
    assert (Hw1 : hwf h1) by apply Hh1.
    pose proof (nvalid_get h1 nid Hw1 Hnid1) as Hvx.
    assert (Hx1 : get h1 nid = add_explored next (get h nid)).
    { unfold h1. rewrite get_upd by assumption. rewrite Nat.eqb_refl. reflexivity. }
    assert (Heq : new_node dfun cands p tot nebs (length h1) (next :: n_tail (get h nid)) (anc_for_child h (get h nid)) true
                  = new_node dfun cands p tot nebs (length h1) (next :: n_tail (get h1 nid)) (anc_for_child h1 (get h1 nid)) true).
    { rewrite Hx1. change (n_tail (add_explored next (get h nid))) with (n_tail (get h nid)). f_equal.
      unfold anc_for_child. change (n_anc (add_explored next (get h nid))) with (n_anc (get h nid)).
      change (n_est (add_explored next (get h nid))) with (n_est (get h nid)).
      change (n_id (add_explored next (get h nid))) with (n_id (get h nid)).
      destruct (n_anc (get h nid)) as [a|] eqn:Ea; [|reflexivity].
      destruct (Hao _ _ Hnid Ea) as [Halt _].
      assert (He : n_est (get h1 a) = n_est (get h a)).
      { unfold h1. rewrite get_upd by assumption. destruct (Nat.eqb a nid); reflexivity. }
      rewrite He. reflexivity. }
    rewrite Heq.
    assert (Hnt : ~ In next (n_tail (get h1 nid))) by (rewrite Hx1; apply Hnext).
    destruct (push_child dfun cands p tot nebs h1 (get h1 nid) next true Hh1 Hvx) as [Hh2 [Hv2 [Hex2 Htl2]]].
    pose proof (HJ_child dfun cands p tot winner h1 (get h1 nid) next true Hh1 Hhj1 Hvx (proj1 Hnext) Hnt) as Hhj2.
    fold nebs in Hhj2.
    set (newn := new_node dfun cands p tot nebs (length h1) (next :: n_tail (get h1 nid)) (anc_for_child h1 (get h1 nid)) true) in *.
    pose proof (FV_cons newn h1 fr Hf1) as Hf2. pose proof (FJ_cons newn h1 fr Hf1 Hfj1) as Hfj2.
    pose proof (OJ_cons newn h1 fr lb Hf1 Hoj1) as Hoj2.
    destruct (manage_node (newn :: h1) fr lb newn) as [[[b1 f1] l1] t1] eqn:Em.
    destruct b1; [intro H; discriminate|].
    destruct (manage_ok _ _ _ _ _ _ _ _ Hh2 Hf2 Hv2 Hex2 Em) as [_ [Hf3 _]].
    pose proof (manage_J _ _ _ _ _ _ _ _ Hh2 Hf2 Hfj2 Hv2 Em) as Hfj3.
    assert (Hleaf : n_exp newn = false -> length (n_tail newn) = length cands).
    { intro Hx. rewrite Htl2. apply (new_node_leaf _ _ _ _ Hx). }
    pose proof (manage_O _ _ _ _ _ _ _ Hh2 Hhj2 Hf2 Hv2 Hleaf Hoj2 Em) as Hoj3.
    destruct t1.
    - intro H. inversion H. subst. exact Hoj3.
    - apply IH; try assumption. apply Hv2.
  Qed.


  Lemma OJ_tail h x fr lb : OJ h (x :: fr) lb -> OJ h fr lb.
  Proof. intros [H1 [H2 H3]]. split; [exact H1|]. split; [eapply Ord_tail; eauto | eapply O2_tail; eauto]. Qed.
  Lemma OJ_lb h fr lb lb' : (lb' <= d)%Q -> OJ h fr lb -> OJ h fr lb'.
  Proof. intros Hl [_ [H2 H3]]. split; [exact Hl|]. split; assumption. Qed.

  Lemma search_O fuel : forall h fr lb,
    HI cands h -> HJ' h -> FV h fr -> FJ h fr -> OJ h fr lb ->
    match search dfun cands p tot hint nebs fuel h fr lb with
    | Finished h' fr' => exists lb', OJ h' fr' lb'
    | _ => True
    end.
  Proof.
    induction fuel as [|f IH]; intros h fr lb Hh Hhj Hf Hfj Hoj; cbn [search]; [exact I|].
    destruct fr as [|x fr1]; [exact I|].
    assert (Hw : hwf h) by apply Hh. assert (Hao : aok h) by apply Hh.
    assert (Hx : fe_id x < length h) by (apply (Hf x); left; reflexivity).
    assert (Hf1 : FV h fr1) by (eapply FV_tail; eauto).
    assert (Hfj1 : FJ h fr1) by (eapply FJ_tail; eauto).
    assert (Hoj1 : OJ h fr1 lb) by (eapply OJ_tail; eauto).
    assert (Hld : (lb <= d)%Q) by apply Hoj.
    set (te := get h (fe_id x)).
    assert (Hidte : n_id te = fe_id x) by (apply Hw; exact Hx).
    assert (Hvte : nvalid h te) by (apply nvalid_get; assumption).
    destruct (negb (n_exp te)) eqn:Eexp; [exists lb; exact Hoj|].
    apply negb_false_iff in Eexp.
    destruct (anc_le h te lb) as [an|] eqn:Eanc.
    { destruct (anc_le_some _ _ _ _ Eanc) as [a [Ha1 [Ha2 Ha3]]]. subst an.
      destruct (Hao _ _ Hx Ha1) as [Halt _].
      pose proof (nvalid_get h a Hw Halt) as Hva.
      apply IH; [exact Hh | exact Hhj | apply FV_replace; assumption | |].
      - apply FJ_replace; try assumption. intro Hn. exfalso. apply (ole_some_ne _ _ Ha3). exact Hn.
      - destruct Hoj1 as [_ [G2 G3]]. split; [exact Hld|]. split; [apply Ord_replace; assumption|].
        apply O2_replace; try assumption. intros _. eapply ole_mono; [exact Hld | exact Ha3]. }
    destruct (ole (n_est te) (Some lb)) eqn:Eest.
    { rewrite Hidte. pose proof keeps_set_exp_false as Hk.
      assert (Hne : n_est (get h (fe_id x)) <> None) by (apply (ole_some_ne _ _ Eest)).
      assert (Hh' : HI cands (upd h (fe_id x) set_exp_false)) by (apply HI_upd; assumption).
      assert (Hhj' : HJ' (upd h (fe_id x) set_exp_false)).
      { apply HJ_upd; try assumption; [reflexivity | intros _ _; right; exact Hne]. }
      assert (Hx' : fe_id x < length (upd h (fe_id x) set_exp_false)) by (rewrite upd_length; exact Hx).
      pose proof (nvalid_get _ _ (proj1 Hh') Hx') as Hv'.
      assert (Hf' : FV (upd h (fe_id x) set_exp_false) fr1) by (apply FV_upd; assumption).
      assert (Hest' : n_est (get (upd h (fe_id x) set_exp_false) (fe_id x)) = n_est te).
      { rewrite get_upd by assumption. rewrite Nat.eqb_refl. reflexivity. }
      apply IH; [exact Hh' | exact Hhj' | apply FV_insert; assumption | |].
      - apply FJ_insert; try assumption; [apply FJ_upd_leaf; assumption|].
        intro Hn. exfalso. rewrite Hest' in Hn. contradiction.
      - pose proof (OJ_upd_leaf h fr1 lb (fe_id x) Hw Hf1 Hx Eest Hoj1) as [_ [G2 G3]].
        split; [exact Hld|]. split; [apply Ord_insert; assumption|]. apply O2_insert; try assumption.
        intros _. rewrite Hest'. eapply ole_mono; [exact Hld | exact Eest]. }
    destruct (n_dive te) eqn:Edive.
    { destruct (expand dfun cands p tot nebs cands te h fr1 lb) as [[[b h2] fr2] lb2] eqn:Ee.
      destruct b; [exact I|].
      destruct (expand_J _ _ _ _ _ _ _ _ _ _ _ _ _ _ Hh Hhj Hf1 Hfj1 Hvte (fun y Hy => Hy) Ee) as [_ Hb2].
      destruct (expand_inv _ _ _ _ _ _ _ _ _ _ _ _ _ Hh Hf1 Hvte Ee) as [Hh2 [Hf2 _]].
      destruct (Hb2 eq_refl) as [Hhj2 Hfj2].
      pose proof (expand_O _ _ _ _ _ _ _ _ Hh Hhj Hf1 Hfj1 Hvte (fun y Hy => Hy) Hoj1 Ee) as Hoj2.
      apply IH; assumption. }
    rewrite Hidte.
    destruct (perform_dive dfun cands p tot hint nebs (S (ncands cands)) h fr1 lb (fe_id x)) as [[[h1 fr2] r]|] eqn:Ed;
      [|exact I].
    destruct r as [dlb|]; [|exact I].
    destruct (dive_J _ _ _ _ _ _ _ _ _ _ _ _ _ _ Hh Hhj Hf1 Hfj1 Hx Ed) as [_ Hd2].
    destruct (Hd2 ltac:(discriminate)) as [Hhj1 Hfj2].
    destruct (dive_inv _ _ _ _ _ _ _ _ _ _ _ _ _ _ Hh Hf1 Hx Ed) as [next [_ [_ [Hh1 [Hf2 [_ [Hlen1 _]]]]]]].
    pose proof (dive_O _ _ _ _ _ _ _ _ Hh Hhj Hf1 Hfj1 Hx Hoj1 Ed) as Hoj2.
    assert (Hl1 : (Qmaxb lb dlb <= d)%Q).
    { destruct (Qmaxb_spec lb dlb) as [[_ G]|[_ G]]; rewrite G; [apply Hoj2 | exact Hld]. }
    apply (OJ_lb _ _ _ _ Hl1) in Hoj2.
    assert (Hx1 : fe_id x < length h1) by lia.
    assert (Hw1 : hwf h1) by apply Hh1.
    set (te1 := get h1 (fe_id x)).
    assert (Hid1 : n_id te1 = fe_id x) by (apply Hw1; exact Hx1).
    fold te1. rewrite Hid1.
    destruct (anc_le h1 te1 (Qmaxb lb dlb)) as [an|] eqn:Eanc1.
    { destruct (anc_le_some _ _ _ _ Eanc1) as [a [Ha1 [Ha2 Ha3]]]. subst an.
      destruct (proj1 (proj2 Hh1) _ _ Hx1 Ha1) as [Halt _].
      pose proof (nvalid_get h1 a Hw1 Halt) as Hva.
      apply IH; [exact Hh1 | exact Hhj1 | apply FV_replace; assumption | |].
      - apply FJ_replace; try assumption. intro Hn. exfalso. apply (ole_some_ne _ _ Ha3). exact Hn.
      - destruct Hoj2 as [_ [G2 G3]]. split; [exact Hl1|]. split; [apply Ord_replace; assumption|].
        apply O2_replace; try assumption. intros _. eapply ole_mono; [exact Hl1 | exact Ha3]. }
    destruct (ole (n_est te1) (Some (Qmaxb lb dlb))) eqn:Eest1.
    { pose proof keeps_set_exp_false as Hk.
      assert (Hne : n_est (get h1 (fe_id x)) <> None) by (apply (ole_some_ne _ _ Eest1)).
      assert (Hh' : HI cands (upd h1 (fe_id x) set_exp_false)) by (apply HI_upd; assumption).
      assert (Hhj' : HJ' (upd h1 (fe_id x) set_exp_false)).
      { apply HJ_upd; try assumption; [apply Hh1 | reflexivity | intros _ _; right; exact Hne]. }
      assert (Hx' : fe_id x < length (upd h1 (fe_id x) set_exp_false)) by (rewrite upd_length; exact Hx1).
      pose proof (nvalid_get _ _ (proj1 Hh') Hx') as Hv'.
      assert (Hf' : FV (upd h1 (fe_id x) set_exp_false) fr2) by (apply FV_upd; assumption).
      assert (Hest' : n_est (get (upd h1 (fe_id x) set_exp_false) (fe_id x)) = n_est te1).
      { rewrite get_upd by assumption. rewrite Nat.eqb_refl. reflexivity. }
      apply IH; [exact Hh' | exact Hhj' | apply FV_insert; assumption | |].
      - apply FJ_insert; try assumption; [apply FJ_upd_leaf; assumption|].
        intro Hn. exfalso. rewrite Hest' in Hn. contradiction.
      - pose proof (OJ_upd_leaf h1 fr2 _ (fe_id x) Hw1 Hf2 Hx1 Eest1 Hoj2) as [_ [G2 G3]].
        split; [exact Hl1|]. split; [apply Ord_insert; assumption|]. apply O2_insert; try assumption.
        intros _. rewrite Hest'. eapply ole_mono; [exact Hl1 | exact Eest1]. }
    assert (Hvte1 : nvalid h1 te1) by (apply nvalid_get; assumption).
    destruct (expand dfun cands p tot nebs cands te1 h1 fr2 (Qmaxb lb dlb)) as [[[b h2] fr3] lb2] eqn:Ee.
    destruct b; [exact I|].
    destruct (expand_J _ _ _ _ _ _ _ _ _ _ _ _ _ _ Hh1 Hhj1 Hf2 Hfj2 Hvte1 (fun y Hy => Hy) Ee) as [_ Hb2].
    destruct (expand_inv _ _ _ _ _ _ _ _ _ _ _ _ _ Hh1 Hf2 Hvte1 Ee) as [Hh2 [Hf3 _]].
    destruct (Hb2 eq_refl) as [Hhj2 Hfj3].
    pose proof (expand_O _ _ _ _ _ _ _ _ Hh1 Hhj1 Hf2 Hfj2 Hvte1 (fun y Hy => Hy) Hoj2 Ee) as Hoj3.
    apply IH; assumption.
  Qed.


  (* ---------------------------------------------------------------- initial state *)
  Hypothesis Hlb : dfun_lb dfun tot.

  Lemma lb0_le : (-10 # 1 <= d)%Q.
  Proof.
    destruct (opt_val dfun cands p tot winner Hnd d Hopt) as [[S [Ht [_ [_ [a [Ha Hd]]]]]] _].
    pose proof (Ht a Ha) as Hh. unfold holds in Hh. apply andb_true_iff in Hh. destruct Hh as [_ Hlt].
    apply Nat.ltb_lt in Hlt. pose proof (Hlb _ _ Hlt) as H. unfold diff_of in Hd. lra.
  Qed.

  Definition SI3 (st : heap * list fentry) : Prop :=
    SI2 dfun cands p tot winner st /\ Ord (fst st) (snd st) /\ O2 (fst st) (snd st).

  Lemma inner_step3 c st d0 : In c cands -> c <> winner -> In d0 cands -> SI3 st ->
    SI3 (inner dfun cands p tot nebs c st d0).
  Proof.
    intros Hc Hcw Hd [Hs [Ho H2]].
    pose proof (inner_step2 dfun cands p tot winner c st d0 Hc Hcw Hd Hs) as Hs'. fold nebs in Hs'.
    split; [exact Hs'|]. revert Hs'. unfold inner. destruct (Nat.eqb c d0) eqn:E; [intros _; split; assumption|].
    set (newn := new_node dfun cands p tot nebs (length (fst st)) [d0; c] None false).
    cbv zeta. intros [Hh1 [Hf1 [Hhj1 _]]]. simpl fst in *. simpl snd in *.
    destruct Hs as [Hh [Hf _]].
    assert (Hv : nvalid (newn :: fst st) newn) by (split; [simpl; lia | apply get_cons_new]).
    split.
    - apply Ord_insert; [exact Hv|]. apply (Ord_mono (fst st)); [|exact Ho].
      intros y Hy. rewrite get_cons_old by (apply (Hf y Hy)). auto.
    - apply O2_insert; [exact Hv | |].
      + apply (O2_heap (fst st)); [exact H2|]. intros x Hx. rewrite get_cons_old by (apply (Hf x Hx)). auto.
      + intro Hexp. destruct (leaf_bound (newn :: fst st) newn Hhj1 Hv (new_node_leaf _ _ _ _ Hexp)) as [H|[a [Ha _]]];
          [exact H | discriminate].
  Qed.

  Lemma initial_inv3 : SI3 (initial dfun cands p tot nebs winner).
  Proof.
    rewrite initial_eq. apply (fold_left_inv SI3).
    - split; [|split; [constructor | intros x []]].
      (* the empty state *)
      unfold SI2. simpl. destruct (SI_empty cands) as [H1 H2]. split; [exact H1|]. split; [exact H2|]. split.
      + unfold HJ. simpl. repeat split; intros; lia.
      + split; [intros z []|]. split; [|intros z []]. exists [], []. split; [reflexivity|]. split; intros z0 [].
    - intros st0 c Hst Hc. unfold outer. destruct (Nat.eqb c winner) eqn:E; [exact Hst|]. apply Nat.eqb_neq in E.
      apply (fold_left_inv SI3); [exact Hst|]. intros st1 d0 Hst1 Hd. apply inner_step3; assumption.
  Qed.

  (* ---------------------------------------------------------------- at the end every frontier node costs at most opt *)
  Lemma finished_bound h fr lb : HJ' h -> FJ h fr -> FV h fr -> head_leaf h fr -> OJ h fr lb ->
    forall x b, In x fr -> n_best (get h (fe_id x)) = Some b -> (a_d b <= d)%Q.
  Proof.
    intros [J1 _] [He _] Hf [z [r [Hfr Hz]]] [_ [Ho H2]] x b Hx Hb.
    destruct (Hf x Hx) as [Hxi _].
    assert (Hest : n_est (get h (fe_id x)) = Some (a_d b)).
    { destruct (J1 _ Hxi) as [G1 G2]. rewrite G1. unfold est_of. rewrite <- G2, Hb. reflexivity. }
    assert (Hle : ole (n_est (get h (fe_id x))) (Some d) = true).
    { destruct (n_exp (get h (fe_id x))) eqn:Eexp; [|apply H2; assumption].
      assert (Hzin : In z fr) by (rewrite Hfr; left; reflexivity).
      assert (Hzd : ole (n_est (get h (fe_id z))) (Some d) = true) by (apply H2; assumption).
      rewrite Hfr in Hx. destruct Hx as [Hx|Hx]; [subst x; congruence|].
      rewrite Hfr in Ho. inversion Ho as [|? ? _ Hall]. subst.
      pose proof (Hall x Hx Eexp) as Hxz.
      rewrite (He x) in Hxz by (right; exact Hx). rewrite (He z) in Hxz by (left; reflexivity).
      eapply ole_trans; eauto. }
    rewrite Hest in Hle. apply ole_Some_le. exact Hle.
  Qed.

  Lemma dedup_bound (okp : asr -> Prop) h fr :
    (forall a ro, okp a -> okp (add_ro a ro)) ->
    (forall x b, In x fr -> n_best (get h (fe_id x)) = Some b -> okp b) ->
    forall acc l, Forall okp acc -> dedup h fr acc = Some l -> Forall okp l.
  Proof.
    intros Hro. induction fr as [|x r IH]; simpl; intros Hfr acc l Hacc.
    - intro H. inversion H. subst. exact Hacc.
    - destruct (n_best (get h (fe_id x))) as [b|] eqn:Eb; [|discriminate].
      assert (Hb : okp b) by (apply (Hfr x b); [left; reflexivity | exact Eb]).
      assert (Hr : forall y c, In y r -> n_best (get h (fe_id y)) = Some c -> okp c)
        by (intros y c Hy; apply Hfr; right; exact Hy).
      destruct (merge_same acc b) as [acc'|] eqn:E.
      + apply IH; [exact Hr | eapply g_merge; eauto].
      + apply IH; [exact Hr|]. apply Forall_app. split; [exact Hacc | constructor; [exact Hb | constructor]].
  Qed.

  (* OPTIMALITY: every assertion the model returns costs at most the verified optimum *)
  Theorem raire_le_opt fuel out :
    raire fuel dfun cands p tot winner hint = Some out ->
    forall a tw tl q, In (a, tw, tl, q) out -> (q <= d)%Q.
  Proof.
    unfold raire. fold nebs.
    destruct (le_lt_dec 2 (length cands)) as [Hl|Hl].
    2:{ rewrite (initial_small dfun cands p tot nebs winner Hnd Hl). rewrite search_nil. discriminate. }
    destruct initial_inv3 as [[Hh [Hf [Hhj Hfj]]] [Ho H2]].
    pose proof (search_J dfun cands p tot hint winner fuel _ _ (-10 # 1)%Q Hh Hhj Hf Hfj) as Hs. fold nebs in Hs.
    assert (Hoj : OJ (fst (initial dfun cands p tot nebs winner)) (snd (initial dfun cands p tot nebs winner)) (-10 # 1)%Q)
      by (split; [apply lb0_le | split; assumption]).
    pose proof (search_O fuel _ _ _ Hh Hhj Hf Hfj Hoj) as Hso.
    destruct (search dfun cands p tot hint nebs fuel (fst (initial dfun cands p tot nebs winner))
                     (snd (initial dfun cands p tot nebs winner)) (-10 # 1)%Q) as [| |h fr] eqn:Es.
    - discriminate.
    - intro H. inversion H. intros a tw tl q [].
    - destruct Hs as [Hhj' [Hfj' [Hf' [Hw' Hhead]]]]. destruct Hso as [lb' Hoj'].
      destruct (dedup h fr []) as [l|] eqn:Ed; [|intro H; inversion H; intros a tw tl q []].
      intro H. inversion H. subst out. clear H.
      set (okp := fun a : asr => (a_d a <= d)%Q).
      assert (Hro : forall a ro, okp a -> okp (add_ro a ro)) by (intros a ro Ha; exact Ha).
      assert (Hl0 : Forall okp l).
      { apply (dedup_bound okp h fr Hro) with (acc := []); [|constructor | exact Ed].
        intros x b Hx Hb. eapply finished_bound; eauto. }
      apply (g_sorted okp) in Hl0. apply (g_prune okp Hro) in Hl0.
      intros a tw tl q Hin. unfold out_of in Hin. apply in_map_iff in Hin. destruct Hin as [b [He Hb]].
      inversion He. subst. rewrite Forall_forall in Hl0. apply (Hl0 b Hb).
  Qed.

End Opt.

(* ------------------------------------------------------------------ the two shipped difficulty functions *)
Open Scope Q_scope.
Lemma qn_lt a b : (a < b)%nat -> qn a < qn b.
Proof. intro H. unfold qn. rewrite <- Zlt_Qlt. lia. Qed.
Lemma qn_0 : qn 0 = 0.
Proof. reflexivity. Qed.

Lemma cp_q_lb tot : dfun_lb cp_q tot.
Proof.
  intros tw tl Hlt. pose proof (qn_lt _ _ Hlt) as Hq.
  destruct tot as [|t].
  - unfold cp_q. rewrite Qred_correct. change (qn 0) with 0. unfold Qdiv. change (/ 0) with 0.
    assert (He : 2 * ((qn tw + (1 # 2) * (0 - (qn tw + qn tl))) * 0) - 1 == -1) by ring.
    rewrite He. vm_compute. discriminate.
  - assert (Ht : 0 < qn (S t)) by (change 0 with (qn 0); apply qn_lt; lia).
    rewrite (cp_q_closed tw tl (S t) Ht Hq).
    assert (Hpos : 0 < qn (S t) / (qn tw - qn tl)) by (apply Qlt_shift_div_l; lra).
    lra.
Qed.
Lemma bp_q_lb tot : dfun_lb bp_q tot.
Proof.
  intros tw tl Hlt. pose proof (qn_lt _ _ Hlt) as Hq. pose proof (qn_nonneg tl) as Hl0.
  destruct tot as [|t].
  - unfold bp_q. rewrite Qred_correct. change (qn 0) with 0. unfold Qdiv. change (/ 0) with 0.
    assert (He : (qn tw + qn tl) * 0 * ((qn tw - qn tl) * / (qn tw + qn tl) * ((qn tw - qn tl) * / (qn tw + qn tl))) == 0) by ring.
    rewrite He. vm_compute. discriminate.
  - assert (Ht : 0 < qn (S t)) by (change 0 with (qn 0); apply qn_lt; lia).
    rewrite (bp_q_closed tw tl (S t) Ht Hq).
    assert (Hpos : 0 < qn (S t) * (qn tw + qn tl) / ((qn tw - qn tl) * (qn tw - qn tl))).
    { apply Qlt_shift_div_l; nra. }
    lra.
Qed.
Close Scope Q_scope.

(* ------------------------------------------------------------------ C15 for the model of the search *)
Lemma alt_exists cands winner : NoDup cands -> 2 <= length cands -> exists pi, alt cands winner pi.
Proof.
  intros Hnd Hl. destruct cands as [|c1 [|c2 r]]; simpl in Hl; try lia.
  destruct (Nat.eq_dec c1 winner) as [He|Hne].
  - exists ((c1 :: r) ++ [c2]). split.
    + simpl. apply perm_skip. apply Permutation_cons_append.
    + rewrite ends_in_other_snoc. apply negb_true_iff. apply Nat.eqb_neq. intro Hc. subst.
      inversion Hnd as [|? ? Hni _]. apply Hni. left. reflexivity.
  - exists ((c2 :: r) ++ [c1]). split.
    + simpl. eapply perm_trans; [apply perm_swap|]. apply perm_skip. apply Permutation_cons_append.
    + rewrite ends_in_other_snoc. apply negb_true_iff. apply Nat.eqb_neq. exact Hne.
Qed.

Lemma raire_some_two fuel dfun cands p tot winner hint out : NoDup cands ->
  raire fuel dfun cands p tot winner hint = Some out -> 2 <= length cands.
Proof.
  intros Hnd. unfold raire. destruct (le_lt_dec 2 (length cands)) as [Hl|Hl]; [intros _; exact Hl|].
  rewrite (initial_small dfun cands p tot _ winner Hnd Hl). rewrite search_nil. discriminate.
Qed.

(* with zero gap, the largest difficulty among the returned assertions EQUALS the verified minimax optimum *)
Theorem raire_model_optimal :
  forall fuel dfun cands p tot winner hint out,
    NoDup cands -> dfun_lb dfun tot ->
    raire fuel dfun cands p tot winner hint = Some out -> out <> [] ->
    exists d, opt dfun cands p tot winner = Val d /\
              (forall a tw tl q, In (a, tw, tl, q) out -> (q <= d)%Q) /\
              (exists a tw tl q, In (a, tw, tl, q) out /\ (d <= q)%Q).
Proof.
  intros fuel dfun cands p tot winner hint out Hnd Hlb Hr Hne.
  pose proof (raire_model_max_ge_opt fuel dfun cands p tot winner hint out Hnd Hr Hne) as Hge.
  destruct (opt dfun cands p tot winner) as [|d|] eqn:Ho.
  - exfalso. apply (opt_bot dfun cands p tot winner Hnd) in Ho.
    destruct (alt_exists cands winner Hnd (raire_some_two _ _ _ _ _ _ _ _ Hnd Hr)) as [pi [Hp He]].
    destruct (Ho pi Hp He) as [a [[] _]].
  - exists d. split; [reflexivity|]. split; [|exact Hge].
    exact (raire_le_opt dfun cands p tot hint winner d Hnd Ho Hlb fuel out Hr).
  - destruct Hge.
Qed.
Print Assumptions raire_model_optimal.

Corollary raire_model_optimal_cp :
  forall fuel cands p tot winner hint out,
    NoDup cands -> raire fuel cp_q cands p tot winner hint = Some out -> out <> [] ->
    exists d, opt cp_q cands p tot winner = Val d /\
              (forall a tw tl q, In (a, tw, tl, q) out -> (q <= d)%Q) /\
              (exists a tw tl q, In (a, tw, tl, q) out /\ (d <= q)%Q).
Proof. intros. eapply raire_model_optimal; eauto. apply cp_q_lb. Qed.
Corollary raire_model_optimal_bp :
  forall fuel cands p tot winner hint out,
    NoDup cands -> raire fuel bp_q cands p tot winner hint = Some out -> out <> [] ->
    exists d, opt bp_q cands p tot winner = Val d /\
              (forall a tw tl q, In (a, tw, tl, q) out -> (q <= d)%Q) /\
              (exists a tw tl q, In (a, tw, tl, q) out /\ (d <= q)%Q).
Proof. intros. eapply raire_model_optimal; eauto. apply bp_q_lb. Qed.
Print Assumptions raire_model_optimal_bp.
