(* NNM_kaplan_defs.v — C12 for the Kaplan tests and the SPRT: the reported histories are built from the published products *)
From SV Require Import NNM NNM_machines NNM_ranges NNM_spec NNM_hist NNM_wf NNM_prefix NNM_defs NNM_kaplan
     Prob Prob_iid NNM_risk NNM_risk_inst NNM_risk_iid NNM_risk_iid_inst NNM_risk_iid_kaplan NNM_risk_kk NNM_mono.
Open Scope Q_scope.

(* exact running products of a list of rational factors *)
Fixpoint qprods (acc : Q) (fs : list Q) : list Q :=
  match fs with [] => [] | f :: r => let a := Qred (acc * f) in a :: qprods a r end.

(* Kaplan-Wald: entry j is min(1, 1/T_j) with T_j = prod_{i<=j} ((1-g) x_i/t + g), for every sample *)
Theorem kaplan_wald_def g ro t xs :
  snd (kaplan_wald g ro t xs) = map (fun T => pvr (Fin T)) (qprods 1 (map (fun x => (1 - g) * x / t + g) xs)).
Proof.
  unfold kaplan_wald. cbv zeta. cbn [snd]. rewrite kw_absorb_id. fold pvr.
  assert (G : forall fs acc, xcumprod (Fin acc) (map Fin fs) = map Fin (qprods acc fs)).
  { induction fs as [|f r IH]; intro acc; [reflexivity|]. cbn [map xcumprod xmul xred qprods]. f_equal. apply IH. }
  rewrite <- (map_map (fun x => (1 - g) * x / t + g) Fin), G, map_map. reflexivity.
Qed.

(* Kaplan-Markov: while no shifted observation is 0, entry j is min(h_j, 1) with h_j = prod (t+g)/(x_i+g) = 1/T_j,
   T_j = prod (x_i+g)/(t+g); after a zero the reported value is 1 (h = +inf) *)
Theorem kaplan_markov_def g ro t xs :
  0 < t + g -> Forall (fun x => 0 < x + g) xs ->
  snd (kaplan_markov g ro t xs) = map (fun h => cap1 (Fin h)) (qprods 1 (map (fun x => (t + g) / (x + g)) xs)).
Proof.
  intros Htg Hx. unfold kaplan_markov. cbv zeta. cbn [snd].
  rewrite (km_absorb_id g t xs Htg) by (eapply Forall_impl; [|exact Hx]; intros x H0; cbv beta in *; lra).
  fold cap1.
  assert (G : forall ys acc, Forall (fun x => 0 < x + g) ys ->
            xcumprod (Fin acc) (map (fun x => xdiv (Fin (t + g)) (Fin (x + g))) ys)
            = map Fin (qprods acc (map (fun x => (t + g) / (x + g)) ys))).
  { induction ys as [|y r IH]; intros acc Hy; [reflexivity|]. inversion Hy as [|y0 l0 Hy0 Hr]; subst.
    cbn [map xcumprod qprods xdiv].
    assert (E : Qeq_bool (y + g) 0 = false) by (apply Qeq_bool_false; lra). rewrite E. cbn [xmul xred]. f_equal. now apply IH. }
  rewrite (G xs 1 Hx), map_map. reflexivity.
Qed.

(* Kaplan-Kolmogorov: on every prefix of an ordering of a null population the reported terms are exactly the running
   products of the ratios (x_i+g)/m_i (ratio 1 where m_i = 0 = x_i+g) — NNM_risk_kk.kk_terms_ok; restated here *)
Theorem kaplan_kolmogorov_def n t g xs :
  kk_ok n t g (kinit) xs ->
  kk_terms_from n (t + g) (0, 1%Z) false (Fin 1) (map (fun x => x + g) xs) = map Fin (kTs n t g kinit xs).
Proof. intro H. exact (kk_terms_ok n t g xs kinit H). Qed.

(* generalised SPRT: literally ALPHA with the fixed alternative eta_j = clip((N eta - S_j)/(N-j+1), 0, u) *)
Theorem wald_sprt_def sqrtq eta ro N t u xs :
  snd (wald_sprt sqrtq eta ro N t u xs) = snd (alpha_mart sqrtq (EFixed eta) N t u xs).
Proof. reflexivity. Qed.
