(* PC11.v — property C11 (placeholder while the proofs are being built) *)
From SV Require Import NNM.
Theorem C11_placeholder : True. Proof. exact I. Qed.
Print Assumptions C11_placeholder.
