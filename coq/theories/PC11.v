(* PC11.v — property C11: reported p-values are well-formed and the overall value matches the history.
   Only statements, each closed by `exact`, with Print Assumptions.  Model: NNM.v (mirrors NonnegMean.py). *)
From SV Require Import NNM NNM_ranges NNM_hist NNM_wf NNM_kaplan.
Open Scope Q_scope.

(* `wellformed r n`: history has n entries, every entry and the overall value are rationals in [0,1] (so never NaN,
   never negative), the overall value is one of the entries and no entry is smaller (= the smallest entry). *)

(* ALPHA with ANY of the shipped estimators (the truncation of eta_j to [mu_j,u] in alpha_mart makes this hold
   whatever the estimator returns), finite or infinite N, every non-empty sample in [0,u] no longer than N *)
Theorem C11_alpha : forall sqrtq e N t u xs,
  0 < u -> 0 < t < u -> sample_ok N u xs ->
  wellformed (alpha_mart sqrtq e N t u xs) (length xs).
Proof. exact alpha_mart_wellformed. Qed.
Print Assumptions C11_alpha.

(* betting martingale with the shipped bets inside their documented ranges (fixed bet 0<=lam<=1/u; aGRAPA with
   0 < c0 <= cmax < 1, growth >= 0); sqrt is any function with nonnegative values *)
Theorem C11_betting : forall sqrtq, (forall x, 0 <= sqrtq x) -> forall b N t u xs,
  0 < u -> 0 < t < u -> bet_ok b u -> sample_ok N u xs ->
  wellformed (betting_mart sqrtq b N t u xs) (length xs).
Proof. exact betting_mart_wellformed. Qed.
Print Assumptions C11_betting.

(* generalised Wald SPRT: random_order -> smallest entry; otherwise the last entry *)
Theorem C11_sprt : forall sqrtq eta N t u xs,
  0 < u -> 0 < t < u -> sample_ok N u xs ->
  wellformed (wald_sprt sqrtq eta true N t u xs) (length xs)
  /\ (let r := wald_sprt sqrtq eta false N t u xs in
      length (snd r) = length xs /\ Forall unit_x (snd r) /\ fst r = last (snd r) NaN /\ unit_x (fst r)).
Proof. exact wald_sprt_wellformed. Qed.
Print Assumptions C11_sprt.

(* Kaplan-Kolmogorov (finite N), Kaplan-Markov, Kaplan-Wald.  `kaplan_wf ro r n`: n entries, all rationals in [0,1],
   overall value a rational in [0,1]; with random_order it equals (as a number) one of the entries and no entry is
   smaller; otherwise it equals the last entry.  For Kaplan-Kolmogorov this is the statement that the repaired code
   never returns NaN when the null conditional mean reaches 0. *)
Theorem C11_kaplan_kolmogorov : forall g ro n t xs,
  0 <= g -> xs <> [] -> Forall (fun x => 0 <= x) xs -> (Z.of_nat (length xs) <= n)%Z ->
  kaplan_wf ro (kaplan_kolmogorov g ro n t xs) (length xs).
Proof. exact kaplan_kolmogorov_wellformed. Qed.
Print Assumptions C11_kaplan_kolmogorov.

Theorem C11_kaplan_markov : forall g ro t xs,
  0 < t -> 0 <= g -> xs <> [] -> Forall (fun x => 0 <= x) xs ->
  kaplan_wf ro (kaplan_markov g ro t xs) (length xs).
Proof. exact kaplan_markov_wellformed. Qed.
Print Assumptions C11_kaplan_markov.

Theorem C11_kaplan_wald : forall g ro t xs,
  0 < t -> 0 <= g <= 1 -> xs <> [] -> Forall (fun x => 0 <= x) xs ->
  kaplan_wf ro (kaplan_wald g ro t xs) (length xs).
Proof. exact kaplan_wald_wellformed. Qed.
Print Assumptions C11_kaplan_wald.

Example C11_kk_boundary :
  snd (kaplan_kolmogorov 0 true 4 (1#2) [1; 1; 0; 0]) = [Fin (1#2); Fin (1#6); Fin (1#6); Fin (1#6)]
  /\ snd (kaplan_kolmogorov 0 true 4 (1#2) [0; 1; 1; 1]) = [Fin 1; Fin 1; Fin 1; Fin 0].
Proof. split; vm_compute; reflexivity. Qed.

(* non-vacuity: a concrete configuration meets the hypotheses, and the boundary case m_j = 0 -> NaN product is covered *)
Example C11_hyps_satisfiable :
  sample_ok (Some 4%Z) 1 [1; 1; 0; 0] /\ 0 < (1#2) < 1 /\ bet_ok (BFixed (1#2)) 1
  /\ snd (alpha_mart sqrt_exec (EFixed (3#4)) (Some 4%Z) (1#2) 1 [1; 1; 0; 0]) = [Fin (2#3); Fin (1#3); Fin 1; Fin 1].
Proof.
  split; [|split; [|split]].
  - split; [discriminate|]. split; [|simpl; lia]. repeat constructor; unfold Qle; simpl; lia.
  - split; reflexivity.
  - simpl. split; unfold Qle; simpl; lia.
  - vm_compute. reflexivity.
Qed.
