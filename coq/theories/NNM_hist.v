(* NNM_hist.v — consequences of the entry-by-entry specification for alpha_mart / betting_mart:
   well-formed p-values (C11), overall value = smallest entry, prefix behaviour (C05). *)
From SV Require Import NNM NNM_machines NNM_ranges NNM_spec.
Open Scope Q_scope.

(* ---------- the two martingale tests as "finish (model_terms ...)" ---------- *)
Definition clamp_eta (u est m : Q) : Q := Qminb u (Qmaxb est m).
Definition finish_terms (N : option Z) (t : Q) (xs : list Q) (terms : list Xq) : Xq * list Xq :=
  let terms := if stot_exceeds N t xs then set_last terms PInf else terms in
  (xmin_py (Fin 1) (xinv (xmax_list terms)), map (fun tm => xmin_np (Fin 1) (xinv tm)) terms).

Section WithSqrt.
Variable sqrtq : Q -> Q.

Definition alpha_etas (e : estim_kind) N t u xs : list Q :=
  map2 (clamp_eta u) (run_estim sqrtq e N t u xs) (mu_list N t xs).

Lemma alpha_mart_unfold e N t u xs :
  alpha_mart sqrtq e N t u xs =
  finish_terms N t xs (model_terms (alpha_factor u) N t u (0, 1%Z) (Fin 1) xs (alpha_etas e N t u xs)).
Proof. reflexivity. Qed.

Lemma betting_mart_unfold b N t u xs :
  betting_mart sqrtq b N t u xs =
  finish_terms N t xs (model_terms betting_factor N t u (0, 1%Z) (Fin 1) xs (run_bet sqrtq b N t u xs)).
Proof. reflexivity. Qed.
End WithSqrt.

(* ---------- nonnegativity of the factors, stated along the recursion ---------- *)
Fixpoint facs_ok (facq : Q -> Q -> Q -> Q) (N : option Z) (t u : Q) (s : Q * Z) (xs es : list Q) : Prop :=
  match xs, es with
  | x :: xr, e :: er =>
      (let m := mu_at N t (fst s) (snd s) in 0 < m -> m < u -> 0 <= facq x e m)
      /\ facs_ok facq N t u (sj_step s x) xr er
  | _, _ => True
  end.

Lemma alpha_factor_q_affine u x e m : 0 < m -> m < u ->
  alpha_factor_q u x e m == 1 + (x - m) * (e - m) / (m * (u - m)).
Proof. intros. unfold alpha_factor_q. field. repeat split; lra. Qed.

Lemma alpha_factor_q_nonneg u x e m : 0 < m -> m < u -> 0 <= x <= u -> m <= e <= u ->
  0 <= alpha_factor_q u x e m.
Proof.
  intros H0 H1 Hx He. unfold alpha_factor_q.
  apply div_nonneg; [|lra].
  assert (0 <= x * e / m) by (apply div_nonneg; nra).
  assert (0 <= (u - x) * (u - e) / (u - m)) by (apply div_nonneg; nra). lra.
Qed.

Lemma clamp_eta_range u est m : m <= u -> m <= clamp_eta u est m <= u.
Proof.
  intro H. unfold clamp_eta. split.
  - apply Qminb_glb; auto. apply Qmaxb_ge_r.
  - apply Qminb_le_l.
Qed.

Lemma alpha_facs_ok N t u xs : forall ests s,
  Forall (fun x => 0 <= x <= u) xs ->
  facs_ok (alpha_factor_q u) N t u s xs (map2 (clamp_eta u) ests (mscan (mu_out N t) sj_step s xs)).
Proof.
  induction xs as [|x xr IH]; intros ests s Hx; [exact I|].
  destruct ests as [|est er]; [exact I|].
  inversion Hx as [|x0 l0 Hx0 Hxr]; subst. cbn [mscan map2 facs_ok]. split.
  - cbv zeta. intros H0 H1. apply alpha_factor_q_nonneg; auto. apply clamp_eta_range. unfold mu_out. lra.
  - apply IH; auto.
Qed.

Lemma betting_facs_ok N t u xs : forall lams s,
  Forall (fun x => 0 <= x <= u) xs ->
  Forall2 (fun l m => 0 <= l /\ (0 < m -> m <= u -> l <= 1 / m)) lams (mscan (mu_out N t) sj_step s xs) ->
  facs_ok betting_factor_q N t u s xs lams.
Proof.
  induction xs as [|x xr IH]; intros lams s Hx HL; [exact I|].
  destruct lams as [|l lr]; [exact I|].
  inversion Hx as [|x0 l0 Hx0 Hxr]; subst. cbn [mscan] in HL.
  inversion HL as [|l0 m0 lr0 mr0 Hlm0 HLr]; subst. cbn [facs_ok]. split.
  - cbv zeta. intros H0 H1. set (m := mu_at N t (fst s) (snd s)) in *.
    unfold betting_factor_q. destruct Hlm0 as [Hl0 Hl1]. unfold mu_out in Hl1. fold m in Hl1.
    assert (Hlm : l * m <= 1).
    { specialize (Hl1 H0 (Qlt_le_weak _ _ H1)).
      assert (E : 1 / m * m == 1) by (field; lra). nra. }
    nra.
  - apply IH; auto.
Qed.

(* ---------- every term of the specification is +inf or a positive rational ---------- *)
Definition good_term (tm : Xq) : Prop := tm = PInf \/ exists q, tm = Fin q /\ 0 < q.

Lemma not_isclose0_pos T : 0 <= T -> isclose_q 0 T rtol_default atol_np = false -> 0 < T.
Proof.
  intros H0 H. unfold isclose_q in H. apply Qle_bool_false in H.
  destruct (Qle_lt_or_eq _ _ H0) as [Hl|He]; auto.
  exfalso. revert H.
  destruct (Qabsb_spec (0 - T)) as [[_ E1]|[_ E1]]; rewrite E1;
  destruct (Qabsb_spec T) as [[_ E2]|[_ E2]]; rewrite E2; intro H;
  pose proof atol_np_nonneg; assert (rtol_default * T == 0) by (rewrite <- He; ring);
  assert (rtol_default * - T == 0) by (rewrite <- He; ring); lra.
Qed.

Lemma spec_entry_good u m T md : 0 <= T -> good_term (spec_entry u m T md).
Proof.
  intro HT. unfold spec_entry. destruct md.
  - destruct (band u m); [right; exists 1; split; auto; lra|].
    destruct (isclose_q 0 T rtol_default atol_np) eqn:E; [right; exists 1; split; auto; lra|].
    right; exists T; split; auto. now apply not_isclose0_pos.
  - destruct (Qlt_bool m 0); [now left| right; exists 1; split; auto; lra].
  - right; exists 1; split; auto; lra.
Qed.

Lemma spec_terms_good facq N t u xs : forall es s T md,
  0 <= T -> facs_ok facq N t u s xs es ->
  Forall good_term (spec_terms facq N t u s T md xs es).
Proof.
  induction xs as [|x xr IH]; intros es s T md HT Hok; [constructor|].
  destruct es as [|e er]; [constructor|].
  cbn [spec_terms]. destruct Hok as [Hf Hok].
  set (m := mu_at N t (fst s) (snd s)) in *.
  assert (HT' : 0 <= next_T facq (next_mode u m md) T x e m).
  { unfold next_T. destruct (next_mode u m md) eqn:E; auto.
    apply next_mode_alive in E. destruct E as [_ [H0 H1]].
    rewrite Qred_correct. specialize (Hf H0 H1). nra. }
  constructor; [now apply spec_entry_good|]. apply IH; auto.
Qed.

Lemma spec_terms_length facq N t u xs : forall es s T md,
  length es = length xs -> length (spec_terms facq N t u s T md xs es) = length xs.
Proof.
  induction xs as [|x xr IH]; intros es s T md H; destruct es; simpl in *; auto; try discriminate.
Qed.

(* ---------- from good terms to well-formed p-values ---------- *)
Definition pv (tm : Xq) : Xq := xmin_np (Fin 1) (xinv tm).
Definition unit_x (p : Xq) : Prop := exists q, p = Fin q /\ 0 <= q <= 1.

Lemma pv_good tm : good_term tm -> unit_x (pv tm).
Proof.
  intros [E|[q [E Hq]]]; subst; unfold pv, xinv; cbn [xdiv].
  - exists 0. cbn. split; auto. lra.
  - assert (Eq : Qeq_bool q 0 = false) by (apply Qeq_bool_false; lra). rewrite Eq.
    cbn [xmin_np xle]. destruct (Qle_bool 1 (1 / q)) eqn:E1.
    + exists 1. split; auto. lra.
    + exists (1 / q). split; auto. apply Qle_bool_false in E1.
      split; [apply div_nonneg; lra | lra].
Qed.

Lemma good_set_last l : Forall good_term l -> Forall good_term (set_last l PInf).
Proof.
  induction l as [|a r IH]; intro H; simpl; auto.
  inversion H as [|a0 r0 Ha Hr]; subst. destruct r as [|b r'].
  - constructor; auto. now left.
  - constructor; auto.
Qed.
Lemma set_last_length {A} (l : list A) v : length (set_last l v) = length l.
Proof. induction l as [|a r IH]; simpl; auto. destruct r; simpl in *; auto. Qed.

(* order on good terms and antitonicity of pv *)
Definition tle (a b : Xq) : Prop := xle a b = true.
Lemma good_xle_total a b : good_term a -> good_term b -> xle a b = true \/ xle b a = true.
Proof.
  intros [Ea|[p [Ea Hp]]] [Eb|[q [Eb Hq]]]; subst; cbn; auto.
  destruct (Qle_bool p q) eqn:E; auto. right. apply Qle_bool_false in E. apply Qle_bool_iff. lra.
Qed.
Lemma xmax_np_good a b : good_term a -> good_term b ->
  (xmax_np a b = a \/ xmax_np a b = b) /\ xle a (xmax_np a b) = true /\ xle b (xmax_np a b) = true.
Proof.
  intros Ha Hb.
  assert (Hra : xle a a = true).
  { destruct Ha as [E|[p [E _]]]; subst; cbn; auto. apply Qle_bool_iff. lra. }
  assert (Hrb : xle b b = true).
  { destruct Hb as [E|[p [E _]]]; subst; cbn; auto. apply Qle_bool_iff. lra. }
  unfold xmax_np.
  destruct Ha as [Ea|[p [Ea Hp]]]; destruct Hb as [Eb|[q [Eb Hq]]]; subst; cbn; auto.
  destruct (Qle_bool p q) eqn:E; cbn.
  - repeat split; auto.
  - apply Qle_bool_false in E. repeat split; auto; apply Qle_bool_iff; lra.
Qed.

Lemma pv_antitone a b : good_term a -> good_term b -> xle a b = true -> xle (pv b) (pv a) = true.
Proof.
  intros Ha Hb Hab.
  destruct Ha as [Ea|[p [Ea Hp]]]; destruct Hb as [Eb|[q [Eb Hq]]]; subst; unfold pv, xinv; cbn [xdiv] in *.
  - cbn. reflexivity.
  - cbn in Hab. discriminate.
  - assert (Ep : Qeq_bool p 0 = false) by (apply Qeq_bool_false; lra). rewrite Ep.
    cbn [xmin_np xle]. destruct (Qle_bool 1 (1 / p)) eqn:E; cbn [xmin_np xle xdiv]; try reflexivity;
      apply Qle_bool_iff; try lra. apply div_nonneg; lra.
  - cbn in Hab. apply Qle_bool_iff in Hab.
    assert (Ep : Qeq_bool p 0 = false) by (apply Qeq_bool_false; lra).
    assert (Eq : Qeq_bool q 0 = false) by (apply Qeq_bool_false; lra). rewrite Ep, Eq.
    assert (Hpq : 1 / q <= 1 / p).
    { apply Qle_shift_div_l; auto. assert (E : 1 / q * p == p / q) by (field; lra). rewrite E.
      apply Qle_shift_div_r; lra. }
    cbn [xmin_np xle].
    destruct (Qle_bool 1 (1 / q)) eqn:E1; destruct (Qle_bool 1 (1 / p)) eqn:E2; cbn [xle]; try reflexivity;
      apply Qle_bool_iff;
      try apply Qle_bool_iff in E1; try apply Qle_bool_iff in E2;
      try apply Qle_bool_false in E1; try apply Qle_bool_false in E2; lra.
Qed.

Lemma fold_xmax_good r : forall a, good_term a -> Forall good_term r ->
  let M := fold_left xmax_np r a in
  good_term M /\ In M (a :: r) /\ Forall (fun b => xle b M = true) (a :: r).
Proof.
  induction r as [|b r IH]; intros a Ha Hr; cbn [fold_left].
  - split; auto. split; [now left|]. constructor; auto.
    destruct Ha as [E|[p [E _]]]; subst; cbn; auto. apply Qle_bool_iff. lra.
  - inversion Hr as [|b0 r0 Hb Hr']; subst.
    destruct (xmax_np_good a b Ha Hb) as [Hsel [Hla Hlb]].
    assert (Hg : good_term (xmax_np a b)) by (destruct Hsel as [E|E]; rewrite E; auto).
    destruct (IH (xmax_np a b) Hg Hr') as [HM [HIn HAll]].
    split; auto. split.
    + destruct HIn as [E|HIn]; [|right; right; auto].
      destruct Hsel as [E'|E']; [left|right; left]; congruence.
    + inversion HAll as [|c0 r0 HcM HAll']; subst.
      assert (Htrans : forall c, good_term c -> xle c (xmax_np a b) = true -> xle c (fold_left xmax_np r (xmax_np a b)) = true).
      { intros c Hc Hcm. set (M := fold_left xmax_np r (xmax_np a b)) in *.
        destruct Hc as [Ec|[p [Ec Hp]]]; destruct Hg as [Eg|[q [Eg Hq]]]; destruct HM as [EM|[w [EM Hw]]];
          rewrite ?Ec, ?Eg, ?EM in *; cbn in *; auto; try discriminate.
        apply Qle_bool_iff in Hcm. apply Qle_bool_iff in HcM. apply Qle_bool_iff. lra. }
      constructor; [apply Htrans; auto|]. constructor; [apply Htrans; auto|]. auto.
Qed.

Theorem finish_terms_wellformed N t xs terms :
  terms <> [] -> Forall good_term terms ->
  let r := finish_terms N t xs terms in
  length (snd r) = length terms
  /\ Forall unit_x (snd r)
  /\ unit_x (fst r)
  /\ In (fst r) (snd r)                                  (* the overall value is one of the entries ... *)
  /\ Forall (fun h => xle (fst r) h = true) (snd r).      (* ... and no entry is smaller *)
Proof.
  intros Hne Hg. unfold finish_terms.
  set (terms' := if stot_exceeds N t xs then set_last terms PInf else terms).
  assert (Hg' : Forall good_term terms') by (unfold terms'; destruct (stot_exceeds N t xs); auto using good_set_last).
  assert (Hl : length terms' = length terms) by (unfold terms'; destruct (stot_exceeds N t xs); auto using set_last_length).
  assert (Hne' : terms' <> []). { intro E. rewrite E in Hl. destruct terms; simpl in *; congruence. }
  cbn [fst snd]. fold pv.
  destruct terms' as [|a r] eqn:Et; [congruence|]. clear Hne'.
  inversion Hg' as [|a0 r0 Ha Hr]; subst a0 r0.
  cbn [xmax_list].
  destruct (fold_xmax_good r a Ha Hr) as [HM [HIn HAll]].
  set (M := fold_left xmax_np r a) in *.
  assert (Epy : xmin_py (Fin 1) (xinv M) = pv M).
  { destruct HM as [E|[q [E Hq]]]; rewrite E; unfold pv, xmin_py, xinv; cbn [xdiv].
    - reflexivity.
    - assert (Eq : Qeq_bool q 0 = false) by (apply Qeq_bool_false; lra). rewrite Eq.
      cbn [xlt xmin_np xle]. unfold Qlt_bool. destruct (Qle_bool 1 (1 / q)); reflexivity. }
  rewrite Epy.
  split; [rewrite map_length; simpl in *; lia|].
  split; [apply Forall_map; eapply Forall_impl; [|exact Hg']; apply pv_good|].
  split; [now apply pv_good|].
  split; [apply in_map; exact HIn|].
  apply Forall_map. rewrite Forall_forall in *. intros b Hb.
  apply pv_antitone; auto.
Qed.

(* ---------- prefix behaviour of model_terms (no hypotheses at all) ---------- *)
Lemma map2_firstn {A B C} (f : A -> B -> C) k : forall a b,
  firstn k (map2 f a b) = map2 f (firstn k a) (firstn k b).
Proof. induction k; intros [|x a] [|y b]; simpl; auto. now rewrite IHk. Qed.
Lemma map3_firstn {A B C D} (f : A -> B -> C -> D) k : forall a b c,
  firstn k (map3 f a b c) = map3 f (firstn k a) (firstn k b) (firstn k c).
Proof. induction k; intros [|x a] [|y b] [|z c]; simpl; auto. now rewrite IHk. Qed.
Lemma xcumprod_firstn k : forall l acc, firstn k (xcumprod acc l) = xcumprod acc (firstn k l).
Proof. induction k; intros [|a l] acc; simpl; auto. now rewrite IHk. Qed.

Theorem model_terms_firstn facX N t u s acc xs es k :
  firstn k (model_terms facX N t u s acc xs es) = model_terms facX N t u s acc (firstn k xs) (firstn k es).
Proof.
  unfold model_terms, model_terms_z. cbv zeta.
  rewrite map2_firstn, absorb_firstn, xcumprod_firstn, map3_firstn, !mscan_firstn. reflexivity.
Qed.
