(* NNM_spec.v — the reported ALPHA / betting history, entry by entry.
   The model (NNM.alpha_mart / betting_mart) computes a running product in Xq and then applies numpy's
   boolean-mask overrides.  Here that is shown equal, for every sample in [0,u] no longer than the population,
   to a sequential specification over Q with three modes:
     Alive    : every null mean so far was strictly inside (0,u); T is the exact running product;
     DeadLow  : some m_i <= 0 happened (then every later m_j <= 0): entries are 1, or 0 (p-value) once m_j < 0;
     DeadHigh : some m_i >= u happened (then every later m_j >= u): entries are 1.
   All later theorems (C01, C11, C12) are about this specification. *)
From SV Require Import NNM NNM_machines NNM_ranges.
Open Scope Q_scope.

Inductive mode := Alive | DeadLow | DeadHigh.

Definition alpha_factor_q (u x eta m : Q) : Q := (x * eta / m + (u - x) * (u - eta) / (u - m)) / u.
Definition betting_factor_q (x lam m : Q) : Q := 1 + lam * (x - m).

Definition next_mode (u m : Q) (md : mode) : mode :=
  match md with
  | Alive => if Qle_bool m 0 then DeadLow else if Qle_bool u m then DeadHigh else Alive
  | _ => md
  end.
Definition band (u m : Q) : bool :=
  isclose_q 0 m rtol_default atol_np || isclose_q u m rtol_u atol_np.
Definition spec_entry (u m T : Q) (md : mode) : Xq :=
  match md with
  | Alive => if band u m then Fin 1
             else if isclose_q 0 T rtol_default atol_np then Fin 1 else Fin T
  | DeadLow => if Qlt_bool m 0 then PInf else Fin 1
  | DeadHigh => Fin 1
  end.
Definition next_T (facq : Q -> Q -> Q -> Q) (md' : mode) (T x e m : Q) : Q :=
  match md' with Alive => Qred (T * facq x e m) | _ => T end.

Fixpoint spec_terms (facq : Q -> Q -> Q -> Q) (N : option Z) (t u : Q) (s : Q * Z) (T : Q) (md : mode)
         (xs es : list Q) : list Xq :=
  match xs, es with
  | x :: xr, e :: er =>
      let m := mu_at N t (fst s) (snd s) in
      let md' := next_mode u m md in
      let T' := next_T facq md' T x e m in
      spec_entry u m T' md' :: spec_terms facq N t u (sj_step s x) T' md' xr er
  | _, _ => []
  end.

(* the model's terms before the last-entry clamp, from an arbitrary machine state; `seen` = a zero factor has
   already occurred (the code's absorbing rule, terms[np.cumsum(factors == 0) > 0] = 0) *)
Definition mu_out (N : option Z) (t : Q) (s : Q * Z) : Q := mu_at N t (fst s) (snd s).
Definition model_terms_z (facX : Q -> Q -> Q -> Xq) (N : option Z) (t u : Q) (s : Q * Z) (seen : bool) (acc : Xq)
           (xs es : list Q) : list Xq :=
  let ms := mscan (mu_out N t) sj_step s xs in
  let fs := map3 facX xs es ms in
  map2 (override_entry u) ms (absorb xis_zero (Fin 0) seen fs (xcumprod acc fs)).
Definition model_terms (facX : Q -> Q -> Q -> Xq) (N : option Z) (t u : Q) (s : Q * Z) (acc : Xq)
           (xs es : list Q) : list Xq := model_terms_z facX N t u s false acc xs es.

(* ---- the absorbing rule: structural facts, and invisibility on exact finite products ---- *)
Lemma absorb_length hit v : forall fs ts seen, length ts = length fs -> length (absorb hit v seen fs ts) = length fs.
Proof.
  induction fs as [|f fr IH]; intros ts seen H; destruct ts as [|tm tr]; try reflexivity; try discriminate.
  cbn [absorb length]. f_equal. apply IH. now inversion H.
Qed.
Lemma absorb_firstn hit v k : forall fs ts seen,
  firstn k (absorb hit v seen fs ts) = absorb hit v seen (firstn k fs) (firstn k ts).
Proof.
  induction k as [|k IH]; intros fs ts seen; [reflexivity|].
  destruct fs as [|f fr]; [reflexivity|]. destruct ts as [|tm tr]; [reflexivity|].
  cbn [absorb firstn]. f_equal. apply IH.
Qed.
Lemma Qred_0_mul q : Qred (0 * q) = 0.
Proof. destruct q as [n d]. reflexivity. Qed.
Lemma Qred_mul_0 T q : Qeq_bool q 0 = true -> Qred (T * q) = 0.
Proof.
  intro H. apply Qeq_bool_iff in H. destruct q as [n d]. destruct T as [a b].
  unfold Qeq in H. cbn [Qnum Qden] in H. assert (n = 0%Z) by lia. subst n.
  unfold Qmult. cbn [Qnum Qden]. rewrite Z.mul_0_r. reflexivity.
Qed.
Lemma absorbed_zero seen T q : (seen = true -> T = 0) -> seen || Qeq_bool q 0 = true -> Qred (T * q) = 0.
Proof.
  intros Hs H. destruct seen; cbn [orb] in H.
  - rewrite (Hs eq_refl). apply Qred_0_mul.
  - now apply Qred_mul_0.
Qed.
Lemma absorbed_entry seen T q : (seen = true -> T = 0) ->
  (if seen || Qeq_bool q 0 then Fin 0 else Fin (Qred (T * q))) = Fin (Qred (T * q)).
Proof.
  intro Hs. destruct (seen || Qeq_bool q 0) eqn:E; [|reflexivity].
  now rewrite (absorbed_zero seen T q Hs E).
Qed.
(* on a product of finite factors carried exactly, setting the entries after a zero factor to 0 changes nothing *)
Lemma absorb_zero_fin : forall (qs : list Q) (a : Q) (seen : bool),
  (seen = true -> a = 0) ->
  absorb xis_zero (Fin 0) seen (map Fin qs) (xcumprod (Fin a) (map Fin qs)) = xcumprod (Fin a) (map Fin qs).
Proof.
  induction qs as [|q r IH]; intros a seen Hs; [reflexivity|].
  cbn [map xcumprod absorb xmul xred xis_zero].
  assert (E : (if seen || Qeq_bool q 0 then Fin 0 else Fin (Qred (a * q))) = Fin (Qred (a * q))).
  { destruct seen; cbn [orb].
    - rewrite (Hs eq_refl), Qred_0_mul. reflexivity.
    - destruct (Qeq_bool q 0) eqn:Eq; [rewrite (Qred_mul_0 a q Eq)|]; reflexivity. }
  rewrite E. f_equal. apply IH. intro H.
  destruct seen; cbn [orb] in H.
  - rewrite (Hs eq_refl). apply Qred_0_mul.
  - apply Qred_mul_0; auto.
Qed.

(* ------------------------------------------------------------------ *)
Lemma Qabsb_0 : Qabsb 0 = 0. Proof. reflexivity. Qed.

Lemma isclose0_of_eq m rtol atol : m == 0 -> 0 <= atol -> 0 <= rtol -> isclose_q 0 m rtol atol = true.
Proof.
  intros E Ha Hr. unfold isclose_q. apply Qle_bool_iff.
  assert (P1 : rtol * m == 0) by (rewrite E; ring).
  assert (P2 : rtol * - m == 0) by (rewrite E; ring).
  destruct (Qabsb_spec (0 - m)) as [[_ E1]|[_ E1]]; rewrite E1;
  destruct (Qabsb_spec m) as [[_ E2]|[_ E2]]; rewrite E2; lra.
Qed.
Lemma iscloseu_of_eq u m rtol atol : m == u -> 0 <= atol -> 0 <= rtol -> isclose_q u m rtol atol = true.
Proof.
  intros E Ha Hr. unfold isclose_q. apply Qle_bool_iff.
  destruct (Qabsb_spec (u - m)) as [[_ E1]|[_ E1]]; rewrite E1;
  destruct (Qabsb_spec m) as [[H2 E2]|[H2 E2]]; rewrite E2.
  - assert (0 <= rtol * m) by nra. lra.
  - assert (0 <= rtol * - m) by nra. lra.
  - assert (0 <= rtol * m) by nra. lra.
  - assert (0 <= rtol * - m) by nra. lra.
Qed.
Lemma atol_np_nonneg : 0 <= atol_np. Proof. unfold atol_np, mkq, Qle; simpl; lia. Qed.
Lemma rtol_default_nonneg : 0 <= rtol_default. Proof. unfold rtol_default, mkq, Qle; simpl; lia. Qed.
Lemma rtol_u_nonneg : 0 <= rtol_u. Proof. unfold rtol_u, mkq, Qle; simpl; lia. Qed.
Lemma isclose_0_1 : isclose_q 0 1 rtol_default atol_np = false. Proof. reflexivity. Qed.
Lemma isclose_0_0 : isclose_q 0 0 rtol_default atol_np = true. Proof. reflexivity. Qed.

(* entry agreement in each mode *)
Lemma override_alive u m T :
  0 < m -> m < u ->
  override_entry u m (Fin T) = spec_entry u m T Alive.
Proof.
  intros H0 Hu. unfold override_entry, spec_entry, band; cbv zeta.
  assert (E1 : Qlt_bool u m = false) by (apply Qlt_bool_false; lra). rewrite E1.
  assert (E2 : Qlt_bool m 0 = false) by (apply Qlt_bool_false; lra). rewrite E2.
  destruct (isclose_q 0 m rtol_default atol_np); destruct (isclose_q u m rtol_u atol_np);
    cbn [orb isclose_x]; rewrite ?isclose_0_1; auto.
Qed.

Lemma override_deadlow u m acc :
  0 < u -> m <= 0 ->
  override_entry u m acc = spec_entry u m 0 DeadLow.
Proof.
  intros Hu Hm. unfold override_entry, spec_entry; cbv zeta.
  destruct (Qlt_bool m 0) eqn:E; auto.
  apply Qlt_bool_false in E. assert (Em : m == 0) by lra.
  assert (E1 : Qlt_bool u m = false) by (apply Qlt_bool_false; lra). rewrite E1.
  rewrite (isclose0_of_eq m) by (auto using atol_np_nonneg, rtol_default_nonneg).
  destruct (isclose_q u m rtol_u atol_np); cbn [isclose_x]; rewrite isclose_0_1; auto.
Qed.

Lemma override_deadhigh u m acc :
  0 < u -> u <= m ->
  override_entry u m acc = Fin 1.
Proof.
  intros Hu Hm. unfold override_entry; cbv zeta.
  assert (E2 : Qlt_bool m 0 = false) by (apply Qlt_bool_false; lra). rewrite E2.
  destruct (Qlt_bool u m) eqn:E.
  - destruct (isclose_q 0 m rtol_default atol_np); destruct (isclose_q u m rtol_u atol_np); cbn [isclose_x];
      rewrite ?isclose_0_1, ?isclose_0_0; auto.
  - apply Qlt_bool_false in E. assert (Em : m == u) by lra.
    rewrite (iscloseu_of_eq u m) by (auto using atol_np_nonneg, rtol_u_nonneg).
    destruct (isclose_q 0 m rtol_default atol_np); cbn [isclose_x]; rewrite isclose_0_1; auto.
Qed.

(* ------------------------------------------------------------------ invariants tying modes to the machine state *)
Definition nleft (N : option Z) (s : Q * Z) : Prop :=   (* at least one card left to draw at position j *)
  match N with Some n => (snd s <= n)%Z | None => True end.
Definition dead_inv (N : option Z) (t u : Q) (s : Q * Z) (md : mode) : Prop :=
  match md, N with
  | Alive, _ => True
  | DeadLow, Some n => qz n * t - fst s <= 0
  | DeadHigh, Some n => u * (qz n - qz (snd s) + 1) <= qz n * t - fst s
  | _, None => False
  end.

Lemma qz_sub n j : qz n - qz j + 1 == qz (n - j + 1).
Proof. unfold qz, Z.sub. rewrite !inject_Z_plus, inject_Z_opp. change (inject_Z 1) with 1. ring. Qed.
Lemma qz_pos z : (0 < z)%Z -> 0 < qz z.
Proof. intro H. unfold qz. change 0 with (inject_Z 0). now rewrite <- Zlt_Qlt. Qed.
Lemma qz_succ j : qz (j + 1) == qz j + 1.
Proof. unfold qz. rewrite inject_Z_plus. reflexivity. Qed.

Lemma mu_at_some n t S j : (j <= n)%Z ->
  let dn := qz n - qz j + 1 in 0 < dn /\ mu_at (Some n) t S j * dn == qz n * t - S.
Proof.
  intros H dn. assert (Hd : 0 < dn). { unfold dn. rewrite qz_sub. apply qz_pos. lia. }
  split; auto. unfold mu_at. rewrite Qred_correct. fold dn. field. lra.
Qed.

Section Refine.
Variables (facX : Q -> Q -> Q -> Xq) (facq : Q -> Q -> Q -> Q).
Variables (N : option Z) (t u : Q).
Hypothesis Hu : 0 < u.
Hypothesis Ht : 0 < t < u.
Hypothesis fac_fin : forall x e m, 0 < m -> m < u -> facX x e m = Fin (facq x e m).

Lemma next_mode_alive m md : next_mode u m md = Alive -> md = Alive /\ 0 < m /\ m < u.
Proof.
  unfold next_mode. destruct md; try discriminate.
  destruct (Qle_bool m 0) eqn:E1; try discriminate.
  destruct (Qle_bool u m) eqn:E2; try discriminate.
  apply Qle_bool_false in E1. apply Qle_bool_false in E2. auto.
Qed.

Theorem model_terms_z_spec xs : forall es s seen acc T md,
  Forall (fun x => 0 <= x <= u) xs ->
  (match N with Some n => (snd s + Z.of_nat (length xs) - 1 <= n)%Z | None => True end) ->
  dead_inv N t u s md ->
  (md = Alive -> acc = Fin T) ->
  (seen = true -> md = Alive -> T = 0) ->
  model_terms_z facX N t u s seen acc xs es = spec_terms facq N t u s T md xs es.
Proof.
  induction xs as [|x xr IH]; intros es s seen acc T md Hx HN Hd Hacc Hseen; [reflexivity|].
  destruct es as [|e er]; [reflexivity|].
  unfold model_terms_z. cbn [mscan map3 xcumprod absorb map2 spec_terms].
  change (mu_out N t s) with (mu_at N t (fst s) (snd s)).
  set (m := mu_at N t (fst s) (snd s)).
  inversion Hx as [|x0 l0 Hx0 Hxr]; subst.
  set (md' := next_mode u m md).
  set (T' := next_T facq md' T x e m).
  (* facts about m in dead modes *)
  assert (Hdead : (md' = DeadLow -> m <= 0 /\ dead_inv N t u (sj_step s x) DeadLow)
                  /\ (md' = DeadHigh -> u <= m /\ dead_inv N t u (sj_step s x) DeadHigh)).
  { destruct N as [n|].
    - assert (Hjn : (snd s <= n)%Z) by (simpl in HN; lia).
      destruct (mu_at_some n t (fst s) (snd s) Hjn) as [Hdn Hm]. fold m in Hm.
      set (dn := qz n - qz (snd s) + 1) in *.
      assert (Hdn' : qz n - qz (snd (sj_step s x)) + 1 == dn - 1).
      { unfold sj_step; cbn [snd]. rewrite qz_succ. unfold dn. ring. }
      assert (HS' : fst (sj_step s x) == fst s + x).
      { unfold sj_step; cbn [fst]. apply Qred_correct. }
      split; intro Emd; unfold dead_inv.
      + assert (Hm0 : m <= 0).
        { unfold md', next_mode in Emd. destruct md; try discriminate.
          * destruct (Qle_bool m 0) eqn:E1; [now apply Qle_bool_iff in E1|].
            destruct (Qle_bool u m); discriminate.
          * simpl in Hd. nra. }
        split; auto. rewrite HS'. nra.
      + assert (Hmu : u <= m).
        { unfold md', next_mode in Emd. destruct md; try discriminate.
          * destruct (Qle_bool m 0) eqn:E1; [discriminate|].
            destruct (Qle_bool u m) eqn:E2; [now apply Qle_bool_iff in E2|discriminate].
          * simpl in Hd. fold dn in Hd. nra. }
        split; auto. rewrite HS', Hdn'. nra.
    - (* N infinite: m = t, strictly inside, never dead *)
      assert (Em : m = t) by reflexivity.
      split; intro Emd; exfalso; unfold md', next_mode in Emd; destruct md; simpl in Hd; try contradiction; try discriminate;
        rewrite Em in Emd.
      + destruct (Qle_bool t 0) eqn:E1; [apply Qle_bool_iff in E1; lra|].
        destruct (Qle_bool u t) eqn:E2; [apply Qle_bool_iff in E2; lra|discriminate].
      + destruct (Qle_bool t 0) eqn:E1; [discriminate|].
        destruct (Qle_bool u t) eqn:E2; [apply Qle_bool_iff in E2; lra|discriminate]. }
  destruct Hdead as [HdL HdH].
  f_equal.
  - (* the entry *)
    destruct md' eqn:Emd.
    + destruct (next_mode_alive m md Emd) as [Ea [H0 H1]]. subst md.
      rewrite (Hacc eq_refl), (fac_fin x e m H0 H1). cbn [xmul xred xis_zero].
      rewrite (absorbed_entry seen T (facq x e m) (fun Hs => Hseen Hs eq_refl)).
      unfold T', next_T. apply override_alive; auto.
    + destruct (HdL eq_refl) as [Hm0 _]. rewrite (override_deadlow u m _ Hu Hm0). reflexivity.
    + destruct (HdH eq_refl) as [Hmu _]. rewrite (override_deadhigh u m _ Hu Hmu). reflexivity.
  - (* the rest *)
    apply (IH er (sj_step s x) _ _ T' md'); auto.
    + destruct N as [n|]; auto. unfold sj_step; cbn [snd]. cbn [length] in HN. rewrite Nat2Z.inj_succ in HN. lia.
    + destruct md' eqn:Emd; [exact I| apply HdL; auto | apply HdH; auto].
    + intro Emd. destruct (next_mode_alive m md Emd) as [Ea [H0 H1]]. subst md.
      rewrite (Hacc eq_refl), (fac_fin x e m H0 H1). cbn [xmul xred].
      unfold T', next_T. fold md'. rewrite Emd. reflexivity.
    + intros Hs' Emd. destruct (next_mode_alive m md Emd) as [Ea [H0 H1]]. subst md.
      rewrite (fac_fin x e m H0 H1) in Hs'. cbn [xis_zero] in Hs'.
      unfold T', next_T. fold md'. rewrite Emd.
      exact (absorbed_zero seen T (facq x e m) (fun Hs => Hseen Hs eq_refl) Hs').
Qed.

Theorem model_terms_spec xs : forall es s acc T md,
  Forall (fun x => 0 <= x <= u) xs ->
  (match N with Some n => (snd s + Z.of_nat (length xs) - 1 <= n)%Z | None => True end) ->
  dead_inv N t u s md ->
  (md = Alive -> acc = Fin T) ->
  model_terms facX N t u s acc xs es = spec_terms facq N t u s T md xs es.
Proof.
  intros es s acc T md Hx HN Hd Hacc. unfold model_terms.
  apply model_terms_z_spec; auto. discriminate.
Qed.
End Refine.

Lemma alpha_factor_fin u x e m : 0 < u -> 0 < m -> m < u -> alpha_factor u x e m = Fin (alpha_factor_q u x e m).
Proof.
  intros Hu H0 H1. unfold alpha_factor, alpha_factor_q.
  cbn [xdiv xadd].
  assert (E1 : Qeq_bool m 0 = false) by (apply Qeq_bool_false; lra).
  assert (E2 : Qeq_bool (u - m) 0 = false) by (apply Qeq_bool_false; lra).
  assert (E3 : Qeq_bool u 0 = false) by (apply Qeq_bool_false; lra).
  rewrite E1, E2. cbn [xadd xdiv]. rewrite E3. reflexivity.
Qed.
