(* RaireAlgo_proofs.v — what is proved about the model of the search (RaireAlgo.raire).  See the end of the file
   for the statement that is proved (raire_model_output_true_partial), and for the precise invariant that is
   missing for the full `raire_model_output_checked`. *)
From SV Require Import RaireCheck RaireCheck_proofs RaireAlgo.
Open Scope nat_scope.

Section Inv.
  Variable dfun : nat -> nat -> nat -> Q.
  Variable cands : list cand.
  Variable p : profile.
  Variable tot : nat.
  Variable hint : list cand.
  Variable nebs : list (cand * cand * option asr).

  (* an assertion value reports exactly its tallies on p, is well formed, winner tally strictly larger *)
  Definition asr_ok (a : asr) : Prop := rep_ok cands p (a_as a, a_tw a, a_tl a) = true.
  (* the candidates outside a tail *)
  Definition remf (t : list cand) : list cand := filter (fun c => negb (mem c t)) cands.
  (* the assertion excludes (RaireCheck.cover) every tail recorded in its rules_out *)
  Definition roc (a : asr) : Prop := forall t, In t (a_ro a) -> cover (a_as a) t (remf t) = true.
  Definition is_nen (a : asr) : bool := match a_as a with NEN _ _ _ => true | NEB _ _ => false end.
  (* a is a good best assertion for the tail t *)
  Definition nebwf (a : asr) : Prop :=
    match a_as a with NEB w l => In w cands /\ In l cands /\ w <> l | NEN _ _ _ => True end.
  Definition good (a : asr) (t : list cand) : Prop :=
    cover (a_as a) t (remf t) = true /\ roc a /\ (is_nen a = true -> In t (a_ro a)) /\ nebwf a.
  Definition nebs_ok : Prop := forall c d a, lookup nebs c d = Some a ->
    asr_ok a /\ a_as a = NEB c d /\ c <> d /\ a_ro a = [] /\ In c cands /\ In d cands.
  Definition node_ok (n : node) : Prop :=
    incl (n_tail n) cands /\ forall a, n_best n = Some a -> asr_ok a /\ good a (n_tail n).
  Definition heap_ok (h : heap) : Prop := Forall node_ok h.

  Lemma mk_neb_ok c d a : mk_neb dfun p tot c d = Some a -> asr_ok a.
  Proof.
    unfold mk_neb. destruct (Nat.ltb (count (neb_vote_l c d) p) (count (neb_vote_w c) p)) eqn:E; [|discriminate].
    intro H. inversion H. subst a. unfold asr_ok, rep_ok. simpl.
    change (tally_w p (NEB c d)) with (count (neb_vote_w c) p).
    change (tally_l p (NEB c d)) with (count (neb_vote_l c d) p).
    rewrite !Nat.eqb_refl, E. reflexivity.
  Qed.

  Lemma vfc_first_standing c e b :
    vote_for_cand c e b = match first_standing e b with Some x => Nat.eqb x c | None => false end.
  Proof. induction b as [|x r IH]; simpl; [reflexivity|]. destruct (mem x e); [exact IH | reflexivity]. Qed.
  Lemma count_for_spec e c : count_for (map (first_standing e) p) c = count (vote_for_cand c e) p.
  Proof.
    unfold count_for, count. induction p as [|b r IH]; simpl; [reflexivity|].
    rewrite vfc_first_standing. destruct (first_standing e b) as [x|]; simpl.
    - destruct (Nat.eqb x c); simpl; rewrite IH; reflexivity.
    - exact IH.
  Qed.

  Lemma better_inv (P : asr -> Prop) best c : (forall a, best = Some a -> P a) -> (forall a, c = Some a -> P a) ->
    forall a, better best c = Some a -> P a.
  Proof.
    intros Hb Hc a. unfold better. destruct c as [nb|]; [|apply Hb].
    destruct best as [b|].
    - destruct (Qlt_bool (a_d nb) (a_d b)); [apply Hc | apply Hb].
    - apply Hc.
  Qed.

  Lemma fold_left_inv {A B} (P : A -> Prop) (f : A -> B -> A) l : forall a0,
    P a0 -> (forall a b, P a -> In b l -> P (f a b)) -> P (fold_left f l a0).
  Proof.
    induction l as [|x r IH]; simpl; intros a0 H0 Hs; [exact H0|].
    apply IH; [apply Hs; [exact H0 | left; reflexivity] | intros a b Ha Hb; apply Hs; [exact Ha | right; exact Hb]].
  Qed.

  Hypothesis Hnebs : nebs_ok.

  (* the three places an assertion can come from in find_best_audit *)
  Definition nen_of (first : cand) (later : list cand) (lc : cand) : asr :=
    let elim := remf (first :: later) in
    let firsts := map (first_standing elim) p in
    mkasr (NEN first lc elim) (count_for firsts first) (count_for firsts lc)
          (dfun (count_for firsts first) (count_for firsts lc) tot) [first :: later].

  Lemma find_best_audit_inv (P : asr -> Prop) first later a :
    (forall lc b, In lc later -> lookup nebs first lc = Some b -> P b) ->
    (forall c ct b, In c (remf (first :: later)) -> In ct (first :: later) -> lookup nebs c ct = Some b -> P b) ->
    (forall lc, In lc later ->
        Nat.ltb (count_for (map (first_standing (remf (first :: later))) p) lc)
                (count_for (map (first_standing (remf (first :: later))) p) first) = true -> P (nen_of first later lc)) ->
    find_best_audit dfun cands p tot nebs (first :: later) = Some a -> P a.
  Proof.
    intros H1 H2 H3. unfold nen_of, remf in *. unfold find_best_audit.
    set (okopt := fun best : option asr => forall a, best = Some a -> P a).
    intro H. revert a H. change (okopt (fold_left
      (fun best lc =>
         let tl := count_for (map (first_standing (filter (fun c => negb (mem c (first :: later))) cands)) p) lc in
         if Nat.ltb tl (count_for (map (first_standing (filter (fun c => negb (mem c (first :: later))) cands)) p) first)
         then match best with
              | None => Some (mkasr (NEN first lc (filter (fun c => negb (mem c (first :: later))) cands))
                               (count_for (map (first_standing (filter (fun c => negb (mem c (first :: later))) cands)) p) first)
                               tl (dfun (count_for (map (first_standing (filter (fun c => negb (mem c (first :: later))) cands)) p) first) tl tot)
                               [first :: later])
              | Some b => if Qlt_bool (dfun (count_for (map (first_standing (filter (fun c => negb (mem c (first :: later))) cands)) p) first) tl tot) (a_d b)
                          then Some (mkasr (NEN first lc (filter (fun c => negb (mem c (first :: later))) cands))
                               (count_for (map (first_standing (filter (fun c => negb (mem c (first :: later))) cands)) p) first)
                               tl (dfun (count_for (map (first_standing (filter (fun c => negb (mem c (first :: later))) cands)) p) first) tl tot)
                               [first :: later])
                          else best
              end
         else best) later
      (fold_left (fun best c => fold_left (fun best ct => better best (lookup nebs c ct)) (first :: later) best)
                 (filter (fun c => negb (mem c (first :: later))) cands)
                 (fold_left (fun best lc => better best (lookup nebs first lc)) later None)))).
    apply fold_left_inv.
    - apply fold_left_inv.
      + apply fold_left_inv; [intros a0 Ha; discriminate|].
        intros best lc Hb Hlc. unfold okopt. apply better_inv; [exact Hb | intros a0 Ha; eapply H1; eauto].
      + intros best c Hb Hc. apply fold_left_inv; [exact Hb|].
        intros best' ct Hb' Hct. unfold okopt. apply better_inv; [exact Hb' | intros a0 Ha; eapply H2; eauto].
    - intros best lc Hb Hlc. cbv zeta.
      destruct (Nat.ltb (count_for (map (first_standing (filter (fun c => negb (mem c (first :: later))) cands)) p) lc)
                        (count_for (map (first_standing (filter (fun c => negb (mem c (first :: later))) cands)) p) first)) eqn:Elt; [|exact Hb].
      pose proof (H3 lc Hlc Elt) as Hnen. cbv zeta in Hnen.
      destruct best as [b|]; unfold okopt.
      + destruct (Qlt_bool _ (a_d b)); [intros a0 Ha; inversion Ha; subst; exact Hnen | exact Hb].
      + intros a0 Ha. inversion Ha. subst. exact Hnen.
  Qed.

  Lemma nen_of_ok first later lc :
    incl (first :: later) cands -> In lc later ->
    Nat.ltb (count_for (map (first_standing (remf (first :: later))) p) lc)
            (count_for (map (first_standing (remf (first :: later))) p) first) = true ->
    asr_ok (nen_of first later lc) /\ good (nen_of first later lc) (first :: later).
  Proof.
    intros Hinc Hlc Elt. set (elim := remf (first :: later)). split.
    - unfold asr_ok, rep_ok, nen_of. cbv zeta. simpl a_as. simpl a_tw. simpl a_tl. fold elim.
      change (tally_w p (NEN first lc elim)) with (count (vote_for_cand first elim) p).
      change (tally_l p (NEN first lc elim)) with (count (vote_for_cand lc elim) p).
      rewrite <- !count_for_spec, !Nat.eqb_refl. fold elim in Elt. rewrite Elt. rewrite !andb_true_r. simpl.
      apply andb_true_iff. split; [apply andb_true_iff; split|].
      + apply mem_In. apply Hinc. right. exact Hlc.
      + apply negb_true_iff. apply mem_false. unfold elim, remf. intro Hc. apply filter_In in Hc.
        destruct Hc as [_ Hc]. apply negb_true_iff in Hc. apply mem_false in Hc. apply Hc. right. exact Hlc.
      + apply negb_true_iff. apply Nat.eqb_neq. intro Heq. subst lc. apply Nat.ltb_lt in Elt. lia.
    - assert (Hcov : cover (NEN first lc elim) (first :: later) (remf (first :: later)) = true).
      { simpl. rewrite Nat.eqb_refl. rewrite app_nil_r. fold elim. apply set_eq_spec. intro x. reflexivity. }
      unfold good, nen_of. cbv zeta. simpl a_as. simpl a_ro. fold elim. split; [exact Hcov|]. split; [|split].
      + intros t [Ht|[]]. subst t. exact Hcov.
      + intros _. left. reflexivity.
      + exact I.
  Qed.

  Lemma find_best_audit_ok tail a :
    incl tail cands -> find_best_audit dfun cands p tot nebs tail = Some a -> asr_ok a /\ good a tail.
  Proof.
    intros Hinc. destruct tail as [|first later]; [discriminate|].
    apply (find_best_audit_inv (fun a => asr_ok a /\ good a (first :: later))).
    - intros lc b Hlc Hb. destruct (Hnebs _ _ _ Hb) as [Hok [Has [Hne [Hro [Hc1 Hc2]]]]]. split; [exact Hok|].
      unfold good, roc, is_nen, nebwf. rewrite Has, Hro. split; [|split; [intros t [] | split; [discriminate | auto]]].
      change (mem lc (first :: later) && (mem first (remf (first :: later)) || before first lc (first :: later)) = true).
      apply andb_true_iff. split.
      + apply mem_In. right. exact Hlc.
      + apply orb_true_iff. right. unfold before. cbn [index_of]. rewrite Nat.eqb_refl.
        assert (Hfl : Nat.eqb first lc = false) by (apply Nat.eqb_neq; exact Hne). rewrite Hfl.
        destruct (index_of_In _ _ Hlc) as [j Hj]. rewrite Hj. reflexivity.
    - intros c ct b Hc Hct Hb. destruct (Hnebs _ _ _ Hb) as [Hok [Has [Hne [Hro [Hc1 Hc2]]]]]. split; [exact Hok|].
      unfold good, roc, is_nen, nebwf. rewrite Has, Hro. split; [|split; [intros t [] | split; [discriminate | auto]]].
      change (mem ct (first :: later) && (mem c (remf (first :: later)) || before c ct (first :: later)) = true).
      apply andb_true_iff. split.
      + apply mem_In. exact Hct.
      + apply orb_true_iff. left. apply mem_In. exact Hc.
    - intros lc Hlc Elt. apply nen_of_ok; assumption.
  Qed.

  Lemma new_node_ok id tail anc dv : incl tail cands -> node_ok (new_node dfun cands p tot nebs id tail anc dv).
  Proof.
    intro Hinc. unfold node_ok, new_node. simpl. split; [exact Hinc|].
    intros a Ha. eapply find_best_audit_ok; eauto.
  Qed.

  Lemma dummy_ok : node_ok dummy_node.
  Proof. unfold node_ok, dummy_node. simpl. split; [intros x []| intros a Ha; discriminate]. Qed.
  Lemma get_ok h id : heap_ok h -> node_ok (get h id).
  Proof.
    intro H. unfold get. destruct (nth_in_or_default (length h - 1 - id) h dummy_node) as [Hin|He].
    - unfold heap_ok in H. rewrite Forall_forall in H. apply H. exact Hin.
    - rewrite He. apply dummy_ok.
  Qed.
  Lemma upd_ok h id f : heap_ok h -> (forall n, node_ok n -> node_ok (f n)) -> heap_ok (upd h id f).
  Proof.
    intros H Hf. unfold heap_ok, upd in *. rewrite Forall_forall in *. intros n Hn.
    apply in_map_iff in Hn. destruct Hn as [m [He Hm]]. subst n.
    destruct (Nat.eqb (n_id m) id); [apply Hf|]; apply H; exact Hm.
  Qed.
  Lemma set_exp_false_ok n : node_ok n -> node_ok (set_exp_false n).
  Proof. unfold node_ok, set_exp_false. simpl. auto. Qed.
  Lemma add_explored_ok c n : node_ok n -> node_ok (add_explored c n).
  Proof. unfold node_ok, add_explored. simpl. auto. Qed.

  Lemma expand_ok cs : forall te h fr lb anp h' fr' lb',
    incl cs cands -> node_ok te -> heap_ok h ->
    expand dfun cands p tot nebs cs te h fr lb = (anp, h', fr', lb') -> heap_ok h'.
  Proof.
    induction cs as [|c r IH]; intros te h fr lb anp h' fr' lb' Hinc Hte Hh; simpl.
    - intro H. inversion H. subst. exact Hh.
    - assert (Hr : incl r cands) by (intros x Hx; apply Hinc; right; exact Hx).
      destruct (negb (mem c (n_tail te)) && negb (mem c (n_explored te))).
      + set (newn := new_node dfun cands p tot nebs (length h) (c :: n_tail te) (anc_for_child h te) false).
        assert (Hn : node_ok newn).
        { apply new_node_ok. intros x [Hx|Hx]; [subst; apply Hinc; left; reflexivity | apply Hte; exact Hx]. }
        assert (Hh1 : heap_ok (newn :: h)) by (constructor; assumption).
        destruct (manage_node (newn :: h) fr lb newn) as [[[a f'] l'] t'].
        destruct a.
        * intro H. inversion H. subst. exact Hh1.
        * apply IH; assumption.
      + apply IH; assumption.
  Qed.

  Lemma dive_choice_in r0 rest : In (dive_choice hint r0 rest) (r0 :: rest).
  Proof.
    unfold dive_choice. destruct hint as [|h0 hr]; [left; reflexivity|].
    set (f := fun (bn : cand * nat) (c : cand) =>
                if Nat.ltb (snd bn) (pos_in c (h0 :: hr) 0) then (c, pos_in c (h0 :: hr) 0) else bn).
    assert (Hg : forall l b0, In (fst (fold_left f l b0)) (fst b0 :: l)).
    { induction l as [|x l IH]; intros b0; simpl; [left; reflexivity|].
      specialize (IH (f b0 x)). simpl in IH. destruct IH as [IH|IH].
      - unfold f in IH at 1. destruct (Nat.ltb (snd b0) (pos_in x (h0 :: hr) 0)); simpl in IH.
        + right. left. exact IH.
        + left. exact IH.
      - right. right. exact IH. }
    specialize (Hg rest (r0, pos_in r0 (h0 :: hr) 0)). simpl in Hg. exact Hg.
  Qed.

  Lemma perform_dive_ok fuel : forall h fr lb nid h' fr' r,
    heap_ok h -> perform_dive dfun cands p tot hint nebs fuel h fr lb nid = Some (h', fr', r) -> heap_ok h'.
  Proof.
    induction fuel as [|f IH]; intros h fr lb nid h' fr' r Hh; simpl; [discriminate|].
    destruct (filter (fun c => negb (mem c (n_tail (get h nid)))) cands) as [|r0 rest] eqn:Ef; [discriminate|].
    set (next := dive_choice hint r0 rest).
    set (h1 := upd h nid (add_explored next)).
    set (newn := new_node dfun cands p tot nebs (length h1) (next :: n_tail (get h nid)) (anc_for_child h (get h nid)) true).
    assert (Hh1 : heap_ok h1) by (apply upd_ok; [exact Hh | intros n Hn; apply add_explored_ok; exact Hn]).
    assert (Hnext : In next cands).
    { assert (Hin : In next (r0 :: rest)) by apply dive_choice_in. rewrite <- Ef in Hin. apply filter_In in Hin. apply Hin. }
    assert (Hn : node_ok newn).
    { apply new_node_ok. intros x [Hx|Hx]; [subst; exact Hnext | apply (get_ok h nid Hh); exact Hx]. }
    assert (Hh2 : heap_ok (newn :: h1)) by (constructor; assumption).
    destruct (manage_node (newn :: h1) fr lb newn) as [[[a f'] l'] t'].
    destruct a.
    - intro H. inversion H. subst. exact Hh2.
    - destruct t'.
      + intro H. inversion H. subst. exact Hh2.
      + apply IH. exact Hh2.
  Qed.

  Lemma cands_incl : incl cands cands.
  Proof. intros x Hx. exact Hx. Qed.

  Lemma search_ok fuel : forall h fr lb h' fr',
    heap_ok h -> search dfun cands p tot hint nebs fuel h fr lb = Finished h' fr' -> heap_ok h'.
  Proof.
    induction fuel as [|f IH]; intros h fr lb h' fr' Hh; cbn [search]; [discriminate|].
    destruct fr as [|x fr1]; [discriminate|].
    set (te := get h (fe_id x)).
    assert (Hte : node_ok te) by (apply get_ok; exact Hh).
    destruct (negb (n_exp te)).
    { intro H. inversion H. subst. exact Hh. }
    destruct (anc_le h te lb) as [an|].
    { apply IH. exact Hh. }
    destruct (ole (n_est te) (Some lb)).
    { apply IH. apply upd_ok; [exact Hh | intros n Hn; apply set_exp_false_ok; exact Hn]. }
    destruct (n_dive te).
    { destruct (expand dfun cands p tot nebs cands te h fr1 lb) as [[[a h2] fr2] lb2] eqn:Ee.
      pose proof (expand_ok cands te h fr1 lb a h2 fr2 lb2 cands_incl Hte Hh Ee) as Hh2.
      destruct a; [discriminate|]. apply IH. exact Hh2. }
    destruct (perform_dive dfun cands p tot hint nebs (S (ncands cands)) h fr1 lb (n_id te)) as [[[h1 fr2] r]|] eqn:Ed;
      [|discriminate].
    pose proof (perform_dive_ok _ _ _ _ _ _ _ _ Hh Ed) as Hh1.
    destruct r as [dlb|]; [|discriminate].
    set (te1 := get h1 (n_id te)).
    assert (Hte1 : node_ok te1) by (apply get_ok; exact Hh1).
    destruct (anc_le h1 te1 (Qmaxb lb dlb)) as [an|].
    { apply IH. exact Hh1. }
    destruct (ole (n_est te1) (Some (Qmaxb lb dlb))).
    { apply IH. apply upd_ok; [exact Hh1 | intros n Hn; apply set_exp_false_ok; exact Hn]. }
    destruct (expand dfun cands p tot nebs cands te1 h1 fr2 (Qmaxb lb dlb)) as [[[a h2] fr3] lb2] eqn:Ee.
    pose proof (expand_ok cands te1 h1 fr2 (Qmaxb lb dlb) a h2 fr3 lb2 cands_incl Hte1 Hh1 Ee) as Hh2.
    destruct a; [discriminate|]. apply IH. exact Hh2.
  Qed.

  Lemma initial_ok winner : heap_ok (fst (initial dfun cands p tot nebs winner)).
  Proof.
    unfold initial.
    set (P := fun st : heap * list fentry => heap_ok (fst st)).
    change (P (fold_left (fun st c =>
                 if Nat.eqb c winner then st
                 else fold_left (fun st d =>
                                   if Nat.eqb c d then st
                                   else let newn := new_node dfun cands p tot nebs (length (fst st)) [d; c] None false in
                                        (newn :: fst st, insert_node (snd st) newn))
                                cands st) cands ([], []))).
    apply fold_left_inv; [constructor|].
    intros st c Hst Hc. destruct (Nat.eqb c winner); [exact Hst|].
    apply fold_left_inv; [exact Hst|].
    intros st' d Hst' Hd. destruct (Nat.eqb c d); [exact Hst'|]. unfold P. simpl. constructor; [|exact Hst'].
    apply new_node_ok. intros x [Hx|[Hx|[]]]; subst; assumption.
  Qed.
End Inv.

(* ---- the matrix of NEB assertions is ok *)
Lemma lookup_in t c d a : lookup t c d = Some a -> In (c, d, Some a) t.
Proof.
  induction t as [|[[c' d'] v] r IH]; simpl; [discriminate|].
  destruct (Nat.eqb c c' && Nat.eqb d d') eqn:E.
  - intro H. subst v. apply andb_true_iff in E. destruct E as [E1 E2].
    apply Nat.eqb_eq in E1. apply Nat.eqb_eq in E2. subst. left. reflexivity.
  - intro H. right. apply IH. exact H.
Qed.
Lemma mk_neb_shape dfun p tot c d a : mk_neb dfun p tot c d = Some a -> a_as a = NEB c d /\ a_ro a = [].
Proof.
  unfold mk_neb. destruct (Nat.ltb (count (neb_vote_l c d) p) (count (neb_vote_w c) p)); [|discriminate].
  intro H. inversion H. split; reflexivity.
Qed.
Lemma neb_table_ok dfun cands p tot : nebs_ok cands p (neb_table dfun cands p tot).
Proof.
  intros c d a H. apply lookup_in in H. unfold neb_table in H. apply in_flat_map in H.
  destruct H as [c' [Hc H]]. apply in_map_iff in H. destruct H as [d' [He Hd]]. inversion He. subst c' d'.
  destruct (Nat.eqb c d) eqn:Ecd; [discriminate|]. apply Nat.eqb_neq in Ecd.
  destruct (mk_neb_shape _ _ _ _ _ _ H2) as [Has Hro].
  split; [eapply mk_neb_ok; eauto|]. repeat split; assumption.
Qed.

(* ---- the final passes only touch rules_out *)
Section Final.
  Variable cands : list cand.
  Variable p : profile.
  Let ok := asr_ok cands p.

  Lemma add_ro_ok a ro : ok a -> ok (add_ro a ro).
  Proof. unfold ok, asr_ok, add_ro. simpl. auto. Qed.
  Lemma merge_same_ok acc b acc' : Forall ok acc -> merge_same acc b = Some acc' -> Forall ok acc'.
  Proof.
    revert acc'. induction acc as [|a r IH]; simpl; intros acc' Hf; [discriminate|].
    inversion Hf as [|? ? Ha Hr]. subst. destruct (same_as (a_as b) (a_as a)).
    - intro H. inversion H. subst. constructor; [apply add_ro_ok; exact Ha | exact Hr].
    - destruct (merge_same r b) as [r'|] eqn:E; simpl; [|discriminate]. intro H. inversion H. subst.
      constructor; [exact Ha | apply IH; auto].
  Qed.
  Lemma dedup_ok h fr : forall acc l, heap_ok cands p h -> Forall ok acc -> dedup h fr acc = Some l -> Forall ok l.
  Proof.
    induction fr as [|x r IH]; simpl; intros acc l Hh Hacc.
    - intro H. inversion H. subst. exact Hacc.
    - pose proof (get_ok cands p h (fe_id x) Hh) as [_ Hb].
      destruct (n_best (get h (fe_id x))) as [b|]; [|discriminate].
      destruct (merge_same acc b) as [acc'|] eqn:E.
      + apply IH; [exact Hh | eapply merge_same_ok; eauto].
      + apply IH; [exact Hh|]. apply Forall_app. split; [exact Hacc|]. constructor; [apply (Hb b eq_refl) | constructor].
  Qed.
  Lemma sort_ins_ok x l : ok x -> Forall ok l -> Forall ok (sort_ins x l).
  Proof.
    intros Hx. induction l as [|y r IH]; simpl; intro Hl; [constructor; [exact Hx | constructor]|].
    inversion Hl as [|? ? Hy Hr]. subst. destruct (Nat.ltb (ro_key x) (ro_key y)).
    - constructor; [exact Hx | exact Hl].
    - constructor; [exact Hy | apply IH; exact Hr].
  Qed.
  Lemma sorted_asr_ok l : Forall ok l -> Forall ok (sorted_asr l).
  Proof.
    intro Hl. unfold sorted_asr. apply (fold_left_inv (Forall ok)); [constructor|].
    intros acc x Hacc Hx. apply sort_ins_ok; [|exact Hacc]. rewrite Forall_forall in Hl. apply Hl. exact Hx.
  Qed.
  Lemma absorb_ok final x f' : Forall ok final -> absorb final x = Some f' -> Forall ok f'.
  Proof.
    revert f'. induction final as [|f r IH]; simpl; intros f' Hf; [discriminate|].
    inversion Hf as [|? ? Ha Hr]. subst. destruct (subsumes f x).
    - intro H. inversion H. subst. constructor; [apply add_ro_ok; exact Ha | exact Hr].
    - destruct (absorb r x) as [r'|] eqn:E; simpl; [|discriminate]. intro H. inversion H. subst.
      constructor; [exact Ha | apply IH; auto].
  Qed.
  Lemma prune_subsumed_ok l : Forall ok l -> Forall ok (prune_subsumed l).
  Proof.
    intro Hl. destruct l as [|a r]; simpl; [constructor|]. inversion Hl as [|? ? Ha Hr]. subst.
    apply (fold_left_inv (Forall ok)); [constructor; [exact Ha | constructor]|].
    intros final x Hf Hx. destruct (absorb final x) as [f'|] eqn:E.
    - eapply absorb_ok; eauto.
    - apply Forall_app. split; [exact Hf|]. constructor; [|constructor]. rewrite Forall_forall in Hr. apply Hr. exact Hx.
  Qed.
End Final.

(* ---- the final passes keep every frontier tail excluded *)
Lemma list_eqb_eq a b : list_eqb a b = true -> a = b.
Proof.
  revert b. induction a as [|x r IH]; destruct b as [|y s]; simpl; try discriminate; [reflexivity|].
  intro H. apply andb_true_iff in H. destruct H as [H1 H2]. apply Nat.eqb_eq in H1. subst. f_equal. apply IH. exact H2.
Qed.
Lemma same_as_eq a b : same_as a b = true -> a = b.
Proof.
  destruct a as [w l|w l e], b as [w' l'|w' l' e']; simpl; try discriminate; intro H.
  - apply andb_true_iff in H. destruct H as [H1 H2]. apply Nat.eqb_eq in H1. apply Nat.eqb_eq in H2. subst. reflexivity.
  - apply andb_true_iff in H. destruct H as [H H3]. apply andb_true_iff in H. destruct H as [H1 H2].
    apply Nat.eqb_eq in H1. apply Nat.eqb_eq in H2. apply list_eqb_eq in H3. subst. reflexivity.
Qed.
Lemma is_suffix_spec la lb : is_suffix la lb = true -> exists pre, lb = pre ++ la.
Proof.
  unfold is_suffix. intro H. apply andb_true_iff in H. destruct H as [_ H]. apply list_eqb_eq in H.
  exists (firstn (length lb - length la) lb). rewrite <- H at 2. symmetry. apply firstn_skipn.
Qed.

Lemma before_pre a b pre post : In a pre -> ~ In b pre -> In b post -> before a b (pre ++ post) = true.
Proof.
  intros Ha Hb Hp. unfold before.
  destruct (index_of_In _ _ Ha) as [i Hi]. rewrite (index_of_app_l _ _ post _ Hi).
  rewrite (index_of_app_r b pre post Hb). destruct (index_of_In _ _ Hp) as [j Hj]. rewrite Hj. simpl.
  apply Nat.ltb_lt. apply index_of_lt in Hi. lia.
Qed.

Section Suff.
  Variable cands : list cand.
  Variable p : profile.
  Hypothesis Hnd : NoDup cands.

  Definition ends_with (t pi : list cand) : Prop := exists pre, pi = pre ++ t.
  (* a contradicts every complete order ending with the tail t *)
  Definition covT (a : assertion) (t : list cand) : Prop :=
    forall pi, Permutation cands pi -> ends_with t pi -> contradicts a pi = true.

  Lemma cover_covT a t : cover a t (remf cands t) = true -> covT a t.
  Proof.
    intros Hc pi Hp [pre He]. subst pi.
    assert (Hndp : NoDup (pre ++ t)) by (eapply Permutation_NoDup; eauto).
    apply cover_sound with (rem := remf cands t); [exact Hndp | | exact Hc].
    intro x. unfold remf. rewrite filter_In. split.
    - intros [Hx Hm]. apply negb_true_iff in Hm. apply mem_false in Hm.
      assert (Hin : In x (pre ++ t)) by (eapply Permutation_in; eauto).
      apply in_app_or in Hin. destruct Hin as [Hin|Hin]; [exact Hin | contradiction].
    - intro Hx. split.
      + eapply Permutation_in; [apply Permutation_sym; exact Hp|]. apply in_or_app. left. exact Hx.
      + apply negb_true_iff. apply mem_false. intro Ht. eapply NoDup_app_disj; eauto.
  Qed.
  Lemma covT_suffix a ro o : is_suffix ro o = true -> covT a ro -> covT a o.
  Proof.
    intros Hs Hc pi Hp [pre He]. destruct (is_suffix_spec _ _ Hs) as [q Hq]. subst o.
    apply Hc; [exact Hp|]. exists (pre ++ q). rewrite He. apply app_assoc.
  Qed.

  (* witness: a excludes the tail t, and records it if it is an NEN *)
  Definition wit (a : asr) (t : list cand) : Prop :=
    covT (a_as a) t /\ (is_nen a = true -> In t (a_ro a)).
  Definition linv (L : list asr) : Prop :=
    forall a, In a L -> (forall t, In t (a_ro a) -> covT (a_as a) t) /\ nebwf cands a /\ asr_ok cands p a.
  Definition carries (L : list asr) (x : asr) : Prop := forall t, wit x t -> exists a, In a L /\ wit a t.
  Definition ext (L L' : list asr) : Prop :=
    forall a, In a L -> exists a', In a' L' /\ a_as a' = a_as a /\ incl (a_ro a) (a_ro a').

  Lemma wit_ext a a' t : a_as a' = a_as a -> incl (a_ro a) (a_ro a') -> wit a t -> wit a' t.
  Proof.
    intros Has Hro [Hc Hn]. unfold wit, is_nen in *. rewrite Has. split; [exact Hc|]. intro H. apply Hro. apply Hn. exact H.
  Qed.
  Lemma carries_ext L L' x : ext L L' -> carries L x -> carries L' x.
  Proof.
    intros He Hc t Hw. destruct (Hc t Hw) as [a [Ha Hwa]]. destruct (He a Ha) as [a' [Ha' [Has Hro]]].
    exists a'. split; [exact Ha' | eapply wit_ext; eauto].
  Qed.
  Lemma ext_refl L : ext L L.
  Proof. intros a Ha. exists a. split; [exact Ha|]. split; [reflexivity | intros x Hx; exact Hx]. Qed.
  Lemma ext_app L b : ext L (L ++ [b]).
  Proof. intros a Ha. exists a. split; [apply in_or_app; left; exact Ha|]. split; [reflexivity | intros x Hx; exact Hx]. Qed.
  Lemma ext_replace l1 a l2 ro : ext (l1 ++ a :: l2) (l1 ++ add_ro a ro :: l2).
  Proof.
    intros b Hb. apply in_app_or in Hb. destruct Hb as [Hb|[Hb|Hb]].
    - exists b. split; [apply in_or_app; left; exact Hb|]. split; [reflexivity | intros x Hx; exact Hx].
    - subst b. exists (add_ro a ro). split; [apply in_or_app; right; left; reflexivity|].
      split; [reflexivity|]. intros x Hx. unfold add_ro. simpl. apply in_or_app. left. exact Hx.
    - exists b. split; [apply in_or_app; right; right; exact Hb|]. split; [reflexivity | intros x Hx; exact Hx].
  Qed.
  Lemma linv_replace l1 a l2 ro :
    linv (l1 ++ a :: l2) -> (forall t, In t ro -> covT (a_as a) t) -> linv (l1 ++ add_ro a ro :: l2).
  Proof.
    intros Hl Hro b Hb. apply in_app_or in Hb. destruct Hb as [Hb|[Hb|Hb]].
    - apply Hl. apply in_or_app. left. exact Hb.
    - subst b. destruct (Hl a) as [H1 [H2 H3]]; [apply in_or_app; right; left; reflexivity|].
      split; [|split; [exact H2 | exact H3]].
      intros t Ht. unfold add_ro in Ht. simpl in Ht. apply in_app_or in Ht. destruct Ht as [Ht|Ht]; [apply H1 | apply Hro]; exact Ht.
    - apply Hl. apply in_or_app. right. right. exact Hb.
  Qed.
  Lemma linv_app L b : linv L -> (forall t, In t (a_ro b) -> covT (a_as b) t) -> nebwf cands b -> asr_ok cands p b ->
    linv (L ++ [b]).
  Proof.
    intros Hl H1 H2 H3 a Ha. apply in_app_or in Ha. destruct Ha as [Ha|[Ha|[]]]; [apply Hl; exact Ha|]. subst a. auto.
  Qed.

  Lemma merge_same_spec acc b acc' : merge_same acc b = Some acc' ->
    exists l1 a l2, acc = l1 ++ a :: l2 /\ acc' = l1 ++ add_ro a (a_ro b) :: l2 /\ a_as b = a_as a.
  Proof.
    revert acc'. induction acc as [|a r IH]; simpl; intros acc'; [discriminate|].
    destruct (same_as (a_as b) (a_as a)) eqn:E.
    - intro H. inversion H. exists [], a, r. repeat split. apply same_as_eq. exact E.
    - destruct (merge_same r b) as [r'|]; simpl; [|discriminate]. intro H. inversion H.
      destruct (IH r' eq_refl) as [l1 [a0 [l2 [G1 [G2 G3]]]]]. exists (a :: l1), a0, l2. subst. repeat split. exact G3.
  Qed.
  Lemma absorb_spec final x f' : absorb final x = Some f' ->
    exists l1 f l2, final = l1 ++ f :: l2 /\ f' = l1 ++ add_ro f (a_ro x) :: l2 /\ subsumes f x = true.
  Proof.
    revert f'. induction final as [|f r IH]; simpl; intros f'; [discriminate|].
    destruct (subsumes f x) eqn:E.
    - intro H. inversion H. exists [], f, r. repeat split. exact E.
    - destruct (absorb r x) as [r'|]; simpl; [|discriminate]. intro H. inversion H.
      destruct (IH r' eq_refl) as [l1 [f0 [l2 [G1 [G2 G3]]]]]. exists (f :: l1), f0, l2. subst. repeat split. exact G3.
  Qed.

  (* de-duplication: every frontier node's tail keeps a witness *)
  Lemma dedup_cov h fr : forall acc l,
    heap_ok cands p h -> linv acc -> dedup h fr acc = Some l ->
    linv l /\ ext acc l /\ forall x, In x fr -> exists a, In a l /\ wit a (n_tail (get h (fe_id x))).
  Proof.
    induction fr as [|x r IH]; simpl; intros acc l Hh Hacc.
    - intro H. inversion H. subst. split; [exact Hacc|]. split; [apply ext_refl | intros x []].
    - destruct (get_ok cands p h (fe_id x) Hh) as [_ Hb].
      destruct (n_best (get h (fe_id x))) as [b|] eqn:Eb; [|discriminate].
      destruct (Hb b eq_refl) as [Hbok [Hcov [Hroc [Hnen Hwf]]]].
      assert (Hbro : forall t, In t (a_ro b) -> covT (a_as b) t).
      { intros t Ht. apply cover_covT. apply Hroc. exact Ht. }
      assert (Hbw : wit b (n_tail (get h (fe_id x)))) by (split; [apply cover_covT; exact Hcov | exact Hnen]).
      destruct (merge_same acc b) as [acc'|] eqn:E.
      + destruct (merge_same_spec _ _ _ E) as [l1 [a [l2 [H1 [H2 H3]]]]]. subst acc acc'.
        intro Hd. destruct (IH _ l Hh (linv_replace l1 a l2 (a_ro b) Hacc ltac:(rewrite <- H3; exact Hbro)) Hd) as [Hl [He Hc]].
        split; [exact Hl|]. split.
        * intros a0 Ha0. destruct (ext_replace l1 a l2 (a_ro b) a0 Ha0) as [a1 [Ha1 [Has1 Hro1]]].
          destruct (He a1 Ha1) as [a2 [Ha2 [Has2 Hro2]]]. exists a2. split; [exact Ha2|].
          split; [congruence | intros y Hy; apply Hro2, Hro1; exact Hy].
        * intros y [Hy|Hy]; [|apply Hc; exact Hy]. subst y.
          destruct (He (add_ro a (a_ro b))) as [a2 [Ha2 [Has2 Hro2]]]; [apply in_or_app; right; left; reflexivity|].
          exists a2. split; [exact Ha2|]. apply (wit_ext b a2); [simpl in Has2; congruence | | exact Hbw].
          intros y Hy. apply Hro2. unfold add_ro. simpl. apply in_or_app. right. exact Hy.
      + intro Hd. destruct (IH _ l Hh (linv_app acc b Hacc Hbro Hwf Hbok) Hd) as [Hl [He Hc]].
        split; [exact Hl|]. split.
        * intros a0 Ha0. apply He. apply in_or_app. left. exact Ha0.
        * intros y [Hy|Hy]; [|apply Hc; exact Hy]. subst y.
          destruct (He b) as [a2 [Ha2 [Has2 Hro2]]]; [apply in_or_app; right; left; reflexivity|].
          exists a2. split; [exact Ha2|]. apply (wit_ext b a2); assumption.
  Qed.

  Lemma sort_ins_in x l a : In a (sort_ins x l) <-> a = x \/ In a l.
  Proof.
    induction l as [|y r IH]; simpl.
    - split; [intros [H|[]]; left; symmetry; exact H | intros [H|[]]; left; symmetry; exact H].
    - destruct (Nat.ltb (ro_key x) (ro_key y)); simpl.
      + split; [intros [H|H]; [left; symmetry; exact H | right; exact H] | intros [H|H]; [left; symmetry; exact H | right; exact H]].
      + rewrite IH. split; [intros [H|[H|H]]; auto | intros [H|[H|H]]; auto].
  Qed.
  Lemma sorted_asr_in l a : In a (sorted_asr l) <-> In a l.
  Proof.
    unfold sorted_asr. assert (Hg : forall l acc, In a (fold_left (fun acc x => sort_ins x acc) l acc) <-> In a acc \/ In a l).
    { clear l. induction l as [|x r IH]; intro acc; simpl; [tauto|]. rewrite IH, sort_ins_in. split; [intros [[H|H]|H]; auto | intros [H|[H|H]]; auto]. }
    rewrite Hg. simpl. tauto.
  Qed.

  (* when f subsumes x, f (with x's rules_out added) excludes every tail x is the witness of *)
  Lemma subsumes_sound f x :
    (forall t, In t (a_ro f) -> covT (a_as f) t) -> nebwf cands f ->
    (forall t, In t (a_ro x) -> covT (a_as x) t) -> asr_ok cands p x ->
    subsumes f x = true ->
    forall t, wit x t -> covT (a_as f) t /\ In t (a_ro x).
  Proof.
    intros Hf Hwf Hx Hxok Hs t [Hc Hn]. unfold subsumes in Hs.
    destruct (a_as x) as [xw xl | xw xl xe] eqn:Ex.
    { destruct (a_as f); discriminate. }
    assert (Hin : In t (a_ro x)) by (apply Hn; unfold is_nen; rewrite Ex; reflexivity).
    split; [|exact Hin].
    unfold asr_ok, rep_ok in Hxok. rewrite Ex in Hxok.
    apply andb_true_iff in Hxok. destruct Hxok as [Hxok _]. apply andb_true_iff in Hxok. destruct Hxok as [Hxok _].
    apply andb_true_iff in Hxok. destruct Hxok as [Hxwf _]. simpl in Hxwf.
    apply andb_true_iff in Hxwf. destruct Hxwf as [Hxwf Hwl]. apply andb_true_iff in Hxwf. destruct Hxwf as [_ Hle].
    apply negb_true_iff in Hle. apply mem_false in Hle. apply negb_true_iff in Hwl. apply Nat.eqb_neq in Hwl.
    destruct (a_as f) as [w l | w l e] eqn:Ef.
    - (* f is an NEB *)
      unfold nebwf in Hwf. rewrite Ef in Hwf. destruct Hwf as [Hwc [Hlc Hwne]].
      (* a generic fact: an order contradicted by x in which l is not among xe is contradicted by NEB w l when
         w = xw or w is in xe *)
      assert (Hdom : (w = xw \/ In w xe) -> ~ In l xe -> covT (NEB w l) t).
      { intros Hw Hl pi Hp He. pose proof (Hc pi Hp He) as Hcx. simpl in Hcx.
        destruct (prefix_before xw pi) as [pre|] eqn:Ep; [|discriminate].
        destruct (prefix_before_split _ _ _ Ep) as [rest [Hpi Hxwpre]]. rewrite set_eq_spec in Hcx.
        assert (Hlpi : In l pi) by (eapply Permutation_in; eauto).
        assert (Hlpre : ~ In l pre) by (intro H; apply Hl; apply Hcx; exact H).
        simpl. destruct Hw as [Hw|Hw].
        - subst w. rewrite Hpi. change (pre ++ xw :: rest) with (pre ++ [xw] ++ rest). rewrite app_assoc.
          apply before_pre.
          + apply in_or_app. right. left. reflexivity.
          + intro H. apply in_app_or in H. destruct H as [H|[H|[]]]; [contradiction | apply Hwne; exact H].
          + rewrite Hpi in Hlpi. apply in_app_or in Hlpi. destruct Hlpi as [H|[H|H]]; [contradiction | exfalso; apply Hwne; exact H | exact H].
        - rewrite Hpi. apply before_pre; [apply Hcx; exact Hw | exact Hlpre |].
          rewrite Hpi in Hlpi. apply in_app_or in Hlpi. destruct Hlpi as [H|H]; [contradiction | exact H]. }
      destruct (Nat.eqb w xw && Nat.eqb l xl) eqn:E1.
      { apply andb_true_iff in E1. destruct E1 as [E1 E2]. apply Nat.eqb_eq in E1. apply Nat.eqb_eq in E2. subst.
        apply Hdom; [left; reflexivity | exact Hle]. }
      destruct (Nat.eqb w xw && negb (mem l xe)) eqn:E2.
      { apply andb_true_iff in E2. destruct E2 as [E2 E3]. apply Nat.eqb_eq in E2. apply negb_true_iff in E3.
        apply mem_false in E3. subst. apply Hdom; [left; reflexivity | exact E3]. }
      destruct (mem w xe && negb (mem l xe)) eqn:E3.
      { apply andb_true_iff in E3. destruct E3 as [E3 E4]. apply mem_In in E3. apply negb_true_iff in E4.
        apply mem_false in E4. apply Hdom; [right; exact E3 | exact E4]. }
      rewrite forallb_forall in Hs. specialize (Hs t Hin).
      apply cover_covT. change (mem l t && (mem w (remf cands t) || before w l t) = true).
      destruct (index_of w t) as [i|] eqn:Ei; destruct (index_of l t) as [j|] eqn:Ej; try discriminate.
      + apply negb_true_iff in Hs. apply orb_false_iff in Hs. destruct Hs as [Hs1 Hs2].
        apply Nat.eqb_neq in Hs1. apply Nat.ltb_ge in Hs2.
        assert (Hlt : Nat.ltb i j = true) by (apply Nat.ltb_lt; lia).
        apply andb_true_iff. split; [apply mem_In; eapply index_of_Some_In; eauto|].
        apply orb_true_iff. right. unfold before. rewrite Ei, Ej. exact Hlt.
      + apply andb_true_iff. split; [apply mem_In; eapply index_of_Some_In; eauto|].
        apply orb_true_iff. left. apply mem_In. unfold remf. apply filter_In. split; [exact Hwc|].
        apply negb_true_iff. apply mem_false. apply index_of_None. exact Ei.
    - (* f is an NEN *)
      destruct (a_ro f) as [|r0 rs] eqn:Er; [discriminate|]. rewrite forallb_forall in Hs.
      specialize (Hs t Hin). apply existsb_exists in Hs. destruct Hs as [ro [Hro Hsuf]].
      apply (covT_suffix _ ro t Hsuf). apply Hf. exact Hro.
  Qed.

  Lemma prune_fold r : forall final done,
    linv final -> (forall x, In x done -> carries final x) ->
    (forall x, In x r -> (forall t, In t (a_ro x) -> covT (a_as x) t) /\ nebwf cands x /\ asr_ok cands p x) ->
    let F := fold_left (fun final x => match absorb final x with Some f' => f' | None => final ++ [x] end) r final in
    linv F /\ forall x, In x (done ++ r) -> carries F x.
  Proof.
    induction r as [|x r IH]; intros final done Hl Hd Hr; simpl.
    - split; [exact Hl|]. intros x Hx. rewrite app_nil_r in Hx. apply Hd. exact Hx.
    - destruct (Hr x (or_introl eq_refl)) as [Hx1 [Hx2 Hx3]].
      assert (Hr' : forall y, In y r -> (forall t, In t (a_ro y) -> covT (a_as y) t) /\ nebwf cands y /\ asr_ok cands p y)
        by (intros y Hy; apply Hr; right; exact Hy).
      destruct (absorb final x) as [f'|] eqn:E.
      + destruct (absorb_spec _ _ _ E) as [l1 [f [l2 [G1 [G2 G3]]]]]. subst final f'.
        destruct (Hl f) as [Hf1 [Hf2 Hf3]]; [apply in_or_app; right; left; reflexivity|].
        assert (Hsound : forall t, wit x t -> covT (a_as f) t /\ In t (a_ro x))
          by (apply subsumes_sound; assumption).
        assert (Hl' : linv (l1 ++ add_ro f (a_ro x) :: l2)).
        { apply linv_replace; [exact Hl|]. intros t Ht. apply Hsound. split; [apply Hx1; exact Ht | intros _; exact Ht]. }
        specialize (IH (l1 ++ add_ro f (a_ro x) :: l2) (done ++ [x]) Hl').
        rewrite <- app_assoc in IH. simpl in IH. apply IH; [|exact Hr'].
        intros y Hy. apply in_app_or in Hy. destruct Hy as [Hy|[Hy|[]]].
        * eapply carries_ext; [apply ext_replace | apply Hd; exact Hy].
        * subst y. intros t Hw. destruct (Hsound t Hw) as [Hc Hin].
          exists (add_ro f (a_ro x)). split; [apply in_or_app; right; left; reflexivity|].
          split; [exact Hc|]. intros _. unfold add_ro. simpl. apply in_or_app. right. exact Hin.
      + specialize (IH (final ++ [x]) (done ++ [x]) (linv_app final x Hl Hx1 Hx2 Hx3)).
        rewrite <- app_assoc in IH. simpl in IH. apply IH; [|exact Hr'].
        intros y Hy. apply in_app_or in Hy. destruct Hy as [Hy|[Hy|[]]].
        * eapply carries_ext; [apply ext_app | apply Hd; exact Hy].
        * subst y. intros t Hw. exists x. split; [apply in_or_app; right; left; reflexivity | exact Hw].
  Qed.

  Lemma prune_cov l : linv l -> linv (prune_subsumed l) /\ forall x, In x l -> carries (prune_subsumed l) x.
  Proof.
    intro Hl. destruct l as [|a r]; [split; [exact Hl | intros x []]|]. unfold prune_subsumed.
    assert (Ha : linv [a]) by (intros b [Hb|[]]; subst; apply Hl; left; reflexivity).
    destruct (prune_fold r [a] [a] Ha) as [H1 H2].
    - intros x [Hx|[]]. subst x. intros t Hw. exists a. split; [left; reflexivity | exact Hw].
    - intros x Hx. apply Hl. right. exact Hx.
    - split; [exact H1|]. intros x Hx. apply H2. simpl. exact Hx.
  Qed.
End Suff.

(* ---- PROVED: every assertion in the model's output is well formed and is true of the profile with exactly the
   tallies it reports, winner tally strictly larger — the first conjunct of check_output, for every fuel, every
   difficulty function, every profile, candidate list, reported winner and order hint. *)
Theorem raire_model_output_true_partial :
  forall fuel dfun cands p tot winner hint out,
    raire fuel dfun cands p tot winner hint = Some out ->
    forallb (rep_ok cands p) (map fst out) = true.
Proof.
  intros fuel dfun cands p tot winner hint out. unfold raire.
  pose proof (neb_table_ok dfun cands p tot) as Hn.
  pose proof (initial_ok dfun cands p tot _ Hn winner) as Hi.
  destruct (search dfun cands p tot hint (neb_table dfun cands p tot) fuel
                   (fst (initial dfun cands p tot (neb_table dfun cands p tot) winner))
                   (snd (initial dfun cands p tot (neb_table dfun cands p tot) winner)) (-10 # 1)%Q)
    as [| |h fr] eqn:Es.
  - discriminate.
  - intro H. inversion H. reflexivity.
  - pose proof (search_ok dfun cands p tot hint _ Hn fuel _ _ _ _ _ Hi Es) as Hh.
    destruct (dedup h fr []) as [l|] eqn:Ed.
    + intro H. inversion H. subst out.
      pose proof (dedup_ok cands p h fr [] l Hh (Forall_nil _) Ed) as Hl.
      apply sorted_asr_ok in Hl. apply prune_subsumed_ok in Hl.
      apply forallb_forall. intros r Hr. apply in_map_iff in Hr. destruct Hr as [q [He Hq]].
      unfold out_of in Hq. apply in_map_iff in Hq. destruct Hq as [a [Ha Hin]]. subst q. simpl in He. subst r.
      rewrite Forall_forall in Hl. apply Hl. exact Hin.
    + intro H. inversion H. reflexivity.
Qed.
Print Assumptions raire_model_output_true_partial.

(* ---- the loop invariant.
   `raire_model_output_checked` (whenever the model returns Some out with out <> [], check_output accepts it) needs,
   besides the theorem above and the lemmas of Section Suff (find_best_audit's assertion excludes its tail;
   de-duplication, sorting and both subsumption rules keep every frontier tail excluded), one invariant of the search
   loop:

     frontier_covers: when `search` finishes, every complete elimination order ending in a candidate other than the
     reported winner has a suffix that is the tail of some frontier node.

   The theorem below is the full statement CONDITIONAL on that invariant.  The invariant itself is proved in
   RaireAlgo_inv.v (search_frontier_covers: a joint invariant over heap, frontier and lower bound — every
   alternative order keeps a frontier entry that is frozen, i.e. will not be expanded again, or does not continue
   through an already-explored child), which yields the unconditional RaireAlgo_inv.raire_model_output_checked. *)
Definition frontier_covers (cands : list cand) (winner : cand) (h : heap) (fr : list fentry) : Prop :=
  forall pi, Permutation cands pi -> ends_in_other winner pi = true ->
             exists x, In x fr /\ ends_with (n_tail (get h (fe_id x))) pi.

Theorem raire_model_output_checked_partial :
  forall fuel dfun cands p tot winner hint out,
    NoDup cands ->
    (forall h fr,
        search dfun cands p tot hint (neb_table dfun cands p tot) fuel
               (fst (initial dfun cands p tot (neb_table dfun cands p tot) winner))
               (snd (initial dfun cands p tot (neb_table dfun cands p tot) winner)) (-10 # 1)%Q = Finished h fr ->
        frontier_covers cands winner h fr) ->
    raire fuel dfun cands p tot winner hint = Some out -> out <> [] ->
    check_output cands p winner (map fst out) = true.
Proof.
  intros fuel dfun cands p tot winner hint out Hnd Hcov Hr Hne.
  unfold check_output. rewrite (raire_model_output_true_partial _ _ _ _ _ _ _ _ Hr). simpl.
  revert Hr. unfold raire.
  pose proof (neb_table_ok dfun cands p tot) as Hn.
  pose proof (initial_ok dfun cands p tot _ Hn winner) as Hi.
  destruct (search dfun cands p tot hint (neb_table dfun cands p tot) fuel
                   (fst (initial dfun cands p tot (neb_table dfun cands p tot) winner))
                   (snd (initial dfun cands p tot (neb_table dfun cands p tot) winner)) (-10 # 1)%Q)
    as [| |h fr] eqn:Es.
  - discriminate.
  - intro H. inversion H. subst out. contradiction.
  - pose proof (search_ok dfun cands p tot hint _ Hn fuel _ _ _ _ _ Hi Es) as Hh.
    specialize (Hcov h fr eq_refl).
    destruct (dedup h fr []) as [l|] eqn:Ed; [|intro H; inversion H; subst out; contradiction].
    intro H. inversion H. subst out. clear H.
    assert (Hl0 : linv cands p []) by (intros a []).
    destruct (dedup_cov cands p Hnd h fr [] l Hh Hl0 Ed) as [Hl [_ Hw]].
    assert (Hls : linv cands p (sorted_asr l)).
    { intros a Ha. apply Hl. apply sorted_asr_in. exact Ha. }
    destruct (prune_cov cands p Hnd (sorted_asr l) Hls) as [_ Hcar].
    apply suff_dec_correct; [exact Hnd|].
    intros pi Hp He. destruct (Hcov pi Hp He) as [x [Hx Hend]].
    destruct (Hw x Hx) as [a [Ha Hwa]].
    destruct (Hcar a (proj2 (sorted_asr_in l a) Ha) _ Hwa) as [b [Hb [Hcb _]]].
    exists (a_as b). split.
    + unfold out_of. rewrite !map_map. apply in_map_iff. exists b. split; [reflexivity | exact Hb].
    + apply Hcb; assumption.
Qed.
Print Assumptions raire_model_output_checked_partial.
