(* SampleSize.v — executable model of the sample-size estimators (property C16).
   Mirrors  shangrla/core/NonnegMean.py  NonnegMean.sample_size            (both branches)
            shangrla/core/Audit.py       Assertion.make_overstatement, Assertion.interleave_values,
                                         Assertion.find_sample_size, Contest.find_sample_size,
                                         Audit.find_sample_size (contest loop, no-style total)
            shangrla/raire/sample_estimator.py  sample_size
   The p-value histories come from NNM.run_test; tiling and first crossing are NNM.tile_to / NNM.first_crossing /
   NNM.sample_size_det.  Exceptions are modelled as error VALUES (res), never as numbers.  No proofs here. *)
From SV Require Export NNM.
From Coq Require Export Qround.
Open Scope Q_scope.

(* Python exceptions that the anchored code can raise on the modelled domain *)
Inductive errk := EIndex | EZeroDiv | EValue | EAssert | EType | ENotImpl | EDomain.
Inductive res (A : Type) : Type := Ok (a : A) | Err (e : errk).
Arguments Ok {A} a.
Arguments Err {A} e.
Definition rbind {A B} (r : res A) (f : A -> res B) : res B :=
  match r with Ok a => f a | Err e => Err e end.

(* =====================================================================================================
   Assertion.interleave_values (Audit.py L1823-1875)
   ===================================================================================================== *)
Inductive tag := TSmall | TMed | TBig.

(* loop state: i_small, i_med, i_big and the three "fraction remaining" ratios *)
Record ist := mkist { i_s : nat; i_m : nat; i_b : nat; r_s : Q; r_m : Q; r_b : Q }.

(* (n - i) / n  in Python: ZeroDivisionError when n == 0 *)
Definition ratio (n i : nat) : option Q :=
  match n with
  | O => None
  | S _ => Some ((Z.of_nat n - Z.of_nat i) # Pos.of_nat n)
  end.

(* "x[i] = v; i_v += 1; r_v = (n_v - i_v)/n_v" for the chosen kind *)
Definition bump (t : tag) (ns nm nb : nat) (st : ist) : option ist :=
  match t with
  | TSmall => match ratio ns (S (i_s st)) with
              | Some r => Some (mkist (S (i_s st)) (i_m st) (i_b st) r (r_m st) (r_b st))
              | None => None end
  | TMed => match ratio nm (S (i_m st)) with
            | Some r => Some (mkist (i_s st) (S (i_m st)) (i_b st) (r_s st) r (r_b st))
            | None => None end
  | TBig => match ratio nb (S (i_b st)) with
            | Some r => Some (mkist (i_s st) (i_m st) (S (i_b st)) (r_s st) (r_m st) r)
            | None => None end
  end.

(* the if / elif / else of the loop body, L1858-1874 *)
Definition choose (st : ist) : tag :=
  if Qlt_bool (r_b st) (r_s st)            (* r_small > r_big *)
  then (if Qlt_bool (r_s st) (r_m st)      (* r_med > r_small *)
        then TMed else TSmall)
  else if Qlt_bool (r_b st) (r_m st)       (* r_med > r_big *)
       then TMed else TBig.

(* for i in range(1, N) *)
Fixpoint iloop (fuel : nat) (ns nm nb : nat) (st : ist) : option (list tag) :=
  match fuel with
  | O => Some []
  | S f =>
      let t := choose st in
      match bump t ns nm nb st with
      | None => None
      | Some st' => match iloop f ns nm nb st' with
                    | None => None
                    | Some l => Some (t :: l)
                    end
      end
  end.

(* r_v = 1 if n_v else 0 *)
Definition r_init (n : nat) : Q := match n with O => 0 | S _ => 1 end.
(* if r_small: ... elif r_med: ... else: ...  (L1845-1856) *)
Definition first_tag (ns nm : nat) : tag :=
  match ns with S _ => TSmall | O => match nm with S _ => TMed | O => TBig end end.

Definition interleave_tags (ns nm nb : nat) : res (list tag) :=
  match (ns + nm + nb)%nat with
  | O => Err EIndex                        (* x = np.zeros(0); x[0] = big  ->  IndexError *)
  | S N' =>
      let st0 := mkist 0 0 0 (r_init ns) (r_init nm) (r_init nb) in
      let t0 := first_tag ns nm in
      match bump t0 ns nm nb st0 with
      | None => Err EZeroDiv
      | Some st1 => match iloop N' ns nm nb st1 with
                    | None => Err EZeroDiv
                    | Some l => Ok (t0 :: l)
                    end
      end
  end.

Definition tag_value (small med big : Q) (t : tag) : Q :=
  match t with TSmall => small | TMed => med | TBig => big end.
Definition interleave_values (ns nm nb : nat) (small med big : Q) : res (list Q) :=
  rbind (interleave_tags ns nm nb) (fun l => Ok (map (tag_value small med big) l)).

Definition tag_eqb (a b : tag) : bool :=
  match a, b with TSmall, TSmall | TMed, TMed | TBig, TBig => true | _, _ => false end.
Definition count_tag (t : tag) (l : list tag) : nat := length (filter (tag_eqb t) l).

(* =====================================================================================================
   Assertion.make_overstatement (Audit.py L1582-1602) and the comparison / ONEAudit layout (L1796-1807)
   ===================================================================================================== *)
Definition make_overstatement (ub margin overs : Q) : Q := (1 - overs / ub) / (2 - margin / ub).

(* int(1 / rate) for rate <> 0: truncation towards zero *)
Definition rate_step (rate : Q) : Z := Z.quot (Zpos (Qden rate)) (Qnum rate).
(* np.arange(0, N, step=k), k >= 1 :  0, k, 2k, ... < N *)
Definition arange0 (N k : nat) : list nat := map (fun j => (j * k)%nat) (seq 0 ((N + k - 1) / k)).
(* np.arange(0, N, step=int(1/rate), dtype=int) if rate else [] *)
Definition rate_idx (N : nat) (rate : option Q) : res (list nat) :=
  match rate with
  | None => Ok []                                      (* None is falsy *)
  | Some r =>
      if Qeq_bool r 0 then Ok []                       (* 0 / 0.0 is falsy *)
      else let s := rate_step r in
           if (s =? 0)%Z then Err EZeroDiv             (* rate > 1: step 0 *)
           else if (s <? 0)%Z then Ok []               (* negative step: empty range *)
           else Ok (arange0 N (Z.to_nat s))
  end.
(* x[idx] = v *)
Definition assign_at (idx : list nat) (v : Q) (x : list Q) : list Q :=
  map (fun p => if existsb (Nat.eqb (fst p)) idx then v else snd p) (combine (seq 0 (length x)) x).

(* x = big*ones(N); x[rate_1_i] = small; x[rate_2_i] = 0 *)
Definition overstatement_layout (N : nat) (big small : Q) (i1 i2 : list nat) : list Q :=
  assign_at i2 0 (assign_at i1 small (repeat big N)).

Section SS.
Variable sqrtq : Q -> Q.

Definition hist (c : cfg) (xs : list Q) : list Xq := snd (run_test sqrtq c xs).
(* int(N if np.sum(crossed) == 0 else np.argmax(crossed) + 1) *)
Definition crossing_or (alpha : Q) (N : nat) (h : list Xq) : nat :=
  match first_crossing alpha 0 h with Some k => k | None => N end.

(* =====================================================================================================
   NonnegMean.sample_size (NonnegMean.py L669-723)
   ===================================================================================================== *)
(* reps is None: tile, test, first crossing (NNM.sample_size_det); len(x) == 0 -> ZeroDivisionError in N/len(x) *)
Definition ss_det (c : cfg) (alpha : Q) (x : list Q) : res nat :=
  match cN c with
  | None => Err EType                      (* N = inf: math.ceil(inf) raises OverflowError; outside the domain *)
  | Some _ => match x with
              | [] => Err EZeroDiv
              | _ => Ok (sample_size_det sqrtq c alpha x)
              end
  end.

Section Sim.
(* the r-th call  prng.choice(x, size=ran_len, replace=True)  (numpy's Mersenne Twister: not modelled) *)
Variable draws : nat -> list Q.
(* int(np.quantile(sams, quantile)) *)
Variable quantile : Q -> list nat -> nat.

(* pop = np.append(pfx, prng.choice(...)),  pfx = x if prefix else [] *)
Definition sim_pop (prefix : bool) (x : list Q) (r : nat) : list Q :=
  (if prefix then x else []) ++ draws r.
Definition sim_one (c : cfg) (alpha : Q) (N : nat) (prefix : bool) (x : list Q) (r : nat) : nat :=
  crossing_or alpha N (hist c (sim_pop prefix x r)).
Definition sim_sams (c : cfg) (alpha : Q) (N : nat) (prefix : bool) (x : list Q) (reps : nat) : list nat :=
  map (sim_one c alpha N prefix x) (seq 0 reps).
Definition ss_sim (c : cfg) (alpha : Q) (x : list Q) (reps : nat) (prefix : bool) (q : Q) : res nat :=
  match cN c with
  | None => Err EType
  | Some n => Ok (quantile q (sim_sams c alpha (Z.to_nat n) prefix x reps))
  end.

Definition ss (c : cfg) (alpha : Q) (x : list Q) (reps : option nat) (prefix : bool) (q : Q) : res nat :=
  match reps with
  | None => ss_det c alpha x
  | Some r => ss_sim c alpha x r prefix q
  end.

(* =====================================================================================================
   Assertion.find_sample_size (Audit.py L1669-1821)
   ===================================================================================================== *)
Inductive audit_type := Polling | Comparison | OneAudit.
Record asn := mkasn {
  a_type : audit_type;
  a_irv : bool;                      (* contest.choice_function == IRV *)
  a_cfg : cfg;                       (* self.test, as currently parametrised (u, N, t, ...) *)
  a_alpha : Q;                       (* contest.risk_limit *)
  a_margin : option Q;               (* self.margin; None = never set *)
  a_ub : Q;                          (* assorter.upper_bound *)
  a_tally : option (nat * nat)       (* (tally[loser], tally[winner]); None = falsy tally *)
}.

(* the `else` branch L1757-1811: the constructed hypothetical population x *)
Definition asn_population (a : asn) (rate1 rate2 : option Q) : res (list Q) :=
  match a_margin a with
  | None => Err EType
  | Some m =>
      let polling := match a_type a with Polling => true | _ => false end in
      let big := if polling then a_ub a else make_overstatement (a_ub a) m 0 in
      let small := if polling then 0 else make_overstatement (a_ub a) m (1 # 2) in
      let rate1' := match rate1 with Some r => r | None => (1 - m) / 2 end in
      match cN (a_cfg a) with
      | None => Err EType                                  (* np.ones(inf) *)
      | Some n =>
          let N := Z.to_nat n in
          match a_type a with
          | Polling =>
              if a_irv a then Err ENotImpl
              else match a_tally a with
                   | None => Err EValue
                   | Some (n0, nbig) =>
                       if (N <? n0 + nbig)%nat then Err EDomain   (* negative n_half: outside the modelled domain *)
                       else interleave_values n0 (N - n0 - nbig) nbig 0 (1 # 2) big
                   end
          | _ =>
              rbind (rate_idx N (Some rate1')) (fun i1 =>
              rbind (rate_idx N rate2) (fun i2 =>
              Ok (overstatement_layout N big small i1 i2)))
          end
      end
  end.

Definition asn_find (a : asn) (data : option (list Q)) (rate1 rate2 : option Q)
           (reps : option nat) (prefix : bool) (q : Q) : res nat :=
  match a_margin a with
  | None => Err EType                                      (* None > 0 *)
  | Some m =>
      if Qle_bool m 0 then Err EAssert                     (* assert self.margin > 0 *)
      else match data with
           | Some d => ss (a_cfg a) (a_alpha a) d reps prefix q
           | None => rbind (asn_population a rate1 rate2)
                           (fun x => ss (a_cfg a) (a_alpha a) x reps prefix q)
           end
  end.

(* =====================================================================================================
   Contest.find_sample_size (Audit.py L2697-2747): running max over the assertions, in dict order.
   Each assertion comes with the data mvrs_to_data produced for it (None when there are no MVRs and the
   audit is not ONEAudit); `prefix` is not passed (False).
   ===================================================================================================== *)
Definition contest_find (asns : list (asn * option (list Q))) (rate1 rate2 : option Q)
           (reps : option nat) (q : Q) : res nat :=
  fold_left (fun acc ad =>
               rbind acc (fun m =>
               rbind (asn_find (fst ad) (snd ad) rate1 rate2 reps false q) (fun k => Ok (Nat.max m k))))
            asns (Ok 0%nat).

(* Audit.find_sample_size (L1072-1118, mvr_sample None, not ONEAudit): per contest, max over the assertions that
   are not yet proved; then (no style information) the overall size is np.max over the contests (L1132-1134) *)
(* each item: (asn.proved, assertion, data from mvrs_to_data when an MVR sample is given).  With data the call is
   find_sample_size(data, prefix=True, reps, quantile, seed) (rates left at their default None); without,
   find_sample_size(data=None, rate_1, rate_2, reps, quantile, seed) *)
Definition audit_contest_find (asns : list (bool * asn * option (list Q))) (rate1 rate2 : option Q)
           (reps : option nat) (q : Q) : res nat :=
  fold_left (fun acc (pad : bool * asn * option (list Q)) =>
               match pad with
               | (proved, a, data) =>
                   if proved then acc
                   else rbind acc (fun m =>
                        rbind (match data with
                               | Some d => asn_find a (Some d) None None reps true q
                               | None => asn_find a None rate1 rate2 reps false q
                               end) (fun k => Ok (Nat.max m k)))
               end)
            asns (Ok 0%nat).
Definition audit_total_nostyle (sizes : list nat) : res nat :=
  match sizes with
  | [] => Err EValue                                       (* np.max of an empty array *)
  | s :: r => Ok (fold_left Nat.max r s)
  end.

(* =====================================================================================================
   shangrla/raire/sample_estimator.py  sample_size(mean, tw, tl, to, args, N, upper_bound, polling)
   ===================================================================================================== *)
Definition dbl_1em4 : Q := 7378697629483821 # 73786976294838206464.       (* the double 1e-4 *)
Definition dbl_1em6 : Q := 4722366482869645 # 4722366482869645213696.     (* the double 10**-6 *)
Definition raire_cfg (mean : Q) (N : Z) (ub : Q) (polling : bool) : cfg :=
  let margin := 2 * mean - 1 in
  let u := 2 / (2 - margin / ub) in
  mkcfg (Some N) (1 # 2) u true
        (if polling then TAlpha (EShrink mean (1 # 2) 100 0 dbl_1em6)     (* shrink_trunc defaults c,d,f,minsd *)
         else TAlpha (EOptComp dbl_1em4)).                                 (* optimal_comparison default p2 *)
Definition raire_population (mean : Q) (tw tl to : nat) (r1 r2 : option Q) (N : Z) (ub : Q) (polling : bool)
  : res (list Q) :=
  let margin := 2 * mean - 1 in
  let big := if polling then 1 else 1 / (2 - margin / ub) in
  let small := if polling then 0 else (1 # 2) / (2 - margin / ub) in
  if polling then interleave_values tl to tw 0 (1 # 2) big
  else rbind (rate_idx (Z.to_nat N) r1) (fun i1 =>
       rbind (rate_idx (Z.to_nat N) r2) (fun i2 =>
       Ok (overstatement_layout (Z.to_nat N) big small i1 i2))).
Definition raire_sample_size (mean : Q) (tw tl to : nat) (r1 r2 : option Q) (alpha : Q) (reps : option nat)
           (N : Z) (ub : Q) (polling : bool) : res nat :=
  rbind (raire_population mean tw tl to r1 r2 N ub polling)
        (fun x => ss (raire_cfg mean N ub polling) alpha x reps false (1 # 2)).

End Sim.
End SS.

(* =====================================================================================================
   an executable instance of `quantile`:  int(np.quantile(sams, q))  with numpy's default "linear" method
   (used only by the correspondence runs; the theorems hold for any quantile fixing constant lists)
   ===================================================================================================== *)
Fixpoint insert_nat (a : nat) (l : list nat) : list nat :=
  match l with
  | [] => [a]
  | b :: r => if (a <=? b)%nat then a :: l else b :: insert_nat a r
  end.
Definition sort_nat (l : list nat) : list nat := fold_right insert_nat [] l.
Definition np_quantile (q : Q) (l : list nat) : nat :=
  let s := sort_nat l in
  let n := length l in
  let h := inject_Z (Z.of_nat n - 1) * q in               (* virtual index (n-1) q *)
  let lo := Z.to_nat (Qfloor h) in
  let hi := Nat.min (lo + 1) (n - 1) in
  let a := inject_Z (Z.of_nat (nth lo s 0%nat)) in
  let b := inject_Z (Z.of_nat (nth hi s 0%nat)) in
  Z.to_nat (Qfloor (a + (b - a) * (h - inject_Z (Qfloor h)))).
