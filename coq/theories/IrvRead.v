(* IrvRead.v — executable model for property C14 (RAIRE and the audit read ranked ballots identically).
   Mirrors, statement by statement:
     shangrla/core/Audit.py        CVR.get_vote_for, CVR.rcv_lfunc_wo, CVR.rcv_votefor_cand,
                                   Assertion.make_assertions_from_json (WINNER_ONLY / IRV_ELIMINATION branches),
                                   Assorter.__init__ (assort = (winner - loser + 1)/2), CVR.from_raire, CVR.merge_cvrs
     shangrla/raire/raire_utils.py ranking, vote_for_cand, NEBAssertion / NENAssertion .is_vote_for_winner/loser,
                                   load_contests_from_raire, find_best_audit (NEN construction and tallies)
     shangrla/raire/raire.py       compute_raire_assertions L77-99 (NEB construction and tallies), L109 (ballots)
   Identifiers (contest ids, ballot ids, candidate ids, tokens of the text format) are `nat` keys; the harness maps
   the strings to numbers.  Python dicts are association lists in insertion order with in-place overwrite (dset).
   No proofs here (IrvRead_proofs.v). *)
From SV Require Export Xq.
Open Scope Z_scope.

Definition key := nat.

(* ------------------------------------------------------------------ Python dict / list primitives *)
Section Dict.
  Context {V : Type}.
  (* d[k] / k in d *)
  Fixpoint dget (d : list (key * V)) (k : key) : option V :=
    match d with
    | [] => None
    | (k', v) :: t => if Nat.eqb k' k then Some v else dget t k
    end.
  (* d[k] = v : overwrite in place when the key exists, else append *)
  Fixpoint dset (d : list (key * V)) (k : key) (v : V) : list (key * V) :=
    match d with
    | [] => [(k, v)]
    | (k', v') :: t => if Nat.eqb k' k then (k', v) :: t else (k', v') :: dset t k v
    end.
  (* {**old, **new} *)
  Definition dict_update (old new : list (key * V)) : list (key * V) :=
    fold_left (fun d kv => dset d (fst kv) (snd kv)) new old.
End Dict.

(* c in l *)
Definition mem (c : key) (l : list key) : bool := existsb (Nat.eqb c) l.
(* l.index(c) (None where Python raises ValueError; always guarded by `c in l` in the code) *)
Fixpoint index_of (c : key) (l : list key) : option nat :=
  match l with
  | [] => None
  | x :: t => if Nat.eqb x c then Some O else option_map S (index_of c t)
  end.
Definition sumZ (l : list Z) : Z := fold_right Z.add 0 l.

(* A rank dict: candidate -> rank (audit side: 1-based, CVR.from_raire) or index (generator side: 0-based,
   load_contests_from_raire).  Falsy audit-side values (False / 0 / None / "") are all the integer 0: the code only
   ever applies bool(), == 1, and (guarded by bool()) < / <= to them, under which they are indistinguishable. *)
Definition rdict := list (key * Z).
Definition acvr := list (key * rdict).   (* CVR.votes : contest id -> rank dict *)
Definition gcvr := list (key * rdict).   (* RAIRE cvr  : contest id -> index dict *)

(* ------------------------------------------------------------------ audit side (shangrla/core/Audit.py) *)
(* CVR.get_vote_for L200-205: False (=0) when the contest or the candidate is absent *)
Definition get_vote_for (v : acvr) (cid c : key) : Z :=
  match dget v cid with
  | None => 0
  | Some d => match dget d c with None => 0 | Some r => r end
  end.
(* bool(rank) *)
Definition truthy (z : Z) : bool := negb (z =? 0).

(* CVR.rcv_lfunc_wo L265-292 *)
Definition rcv_lfunc_wo (v : acvr) (cid w l : key) : Z :=
  let rank_winner := get_vote_for v cid w in
  let rank_loser := get_vote_for v cid l in
  if negb (truthy rank_winner) && truthy rank_loser then 1
  else if truthy rank_winner && truthy rank_loser && (rank_loser <? rank_winner) then 1
  else 0.

(* CVR.rcv_votefor_cand L294-328 *)
Definition rcv_votefor_cand (v : acvr) (cid cand : key) (remaining : list key) : Z :=
  if negb (mem cand remaining) then 0
  else
    let rank_cand := get_vote_for v cid cand in
    if negb (truthy rank_cand) then 0
    else if existsb (fun altc => negb (Nat.eqb altc cand)
                                 && truthy (get_vote_for v cid altc)
                                 && (get_vote_for v cid altc <=? rank_cand)) remaining
         then 0 else 1.

(* one entry of json_assertions: WINNER_ONLY (winner, loser) / IRV_ELIMINATION (winner, loser, already_eliminated) *)
Inductive jassertion :=
| JNEB (w l : key)
| JNEN (w l : key) (elim : list key).

(* remn = [c for c in candidates if c not in elim]  (make_assertions_from_json L2123) *)
Definition remaining_of (candidates elim : list key) : list key :=
  filter (fun c => negb (mem c elim)) candidates.

(* The assorter make_assertions_from_json builds for one json assertion of contest `cid` with candidate list
   `candidates`, applied to a CVR.  WINNER_ONLY: Assorter(winner=winner_func, loser=loser_func) whose assort is
   (winner(cvr) - loser(cvr) + 1)/2 (Assorter.__init__ L2432); IRV_ELIMINATION: the assort lambda L2140-2146. *)
Definition assort_json (cid : key) (candidates : list key) (a : jassertion) (v : acvr) : Q :=
  match a with
  | JNEB w l =>
      let winner_func := if get_vote_for v cid w =? 1 then 1 else 0 in
      let loser_func := rcv_lfunc_wo v cid w l in
      (inject_Z (winner_func - loser_func + 1) / 2)%Q
  | JNEN w l elim =>
      let remn := remaining_of candidates elim in
      (inject_Z (rcv_votefor_cand v cid w remn - rcv_votefor_cand v cid l remn + 1) / 2)%Q
  end.

(* ------------------------------------------------------------------ generator side (shangrla/raire/raire_utils.py) *)
(* ranking L198-209 *)
Definition ranking (c : key) (b : rdict) : Z :=
  match dget b c with None => -1 | Some i => i end.

(* vote_for_cand L212-242 *)
Definition vote_for_cand (c : key) (eliminated : list key) (b : rdict) : Z :=
  if mem c eliminated then 0
  else
    let c_idx := ranking c b in
    if c_idx =? -1 then 0
    else if existsb (fun kv => negb (Nat.eqb (fst kv) c)
                               && negb (mem (fst kv) eliminated)
                               && (snd kv <? c_idx)) b
         then 0 else 1.

(* NEBAssertion / NENAssertion objects: the stored contest field, winner, loser (, eliminated) *)
Inductive rassertion :=
| RNEB (contest w l : key)
| RNEN (contest w l : key) (eliminated : list key).

(* NEBAssertion.is_vote_for_winner L350-354, NENAssertion.is_vote_for_winner L448-452 *)
Definition is_vote_for_winner (a : rassertion) (v : gcvr) : Z :=
  match a with
  | RNEB ct w l =>
      match dget v ct with
      | None => 0
      | Some b => if ranking w b =? 0 then 1 else 0
      end
  | RNEN ct w l el =>
      match dget v ct with
      | None => 0
      | Some b => vote_for_cand w el b
      end
  end.

(* NEBAssertion.is_vote_for_loser L356-364, NENAssertion.is_vote_for_loser L454-458 *)
Definition is_vote_for_loser (a : rassertion) (v : gcvr) : Z :=
  match a with
  | RNEB ct w l =>
      match dget v ct with
      | None => 0
      | Some b =>
          let w_idx := ranking w b in
          let l_idx := ranking l b in
          if negb (l_idx =? -1) && ((w_idx =? -1) || (negb (w_idx =? -1) && (l_idx <? w_idx))) then 1 else 0
      end
  | RNEN ct w l el =>
      match dget v ct with
      | None => 0
      | Some b => vote_for_cand l el b
      end
  end.

(* the generator-side assertion that corresponds to a json assertion of contest cid *)
Definition rassertion_of (cid : key) (a : jassertion) : rassertion :=
  match a with
  | JNEB w l => RNEB cid w l
  | JNEN w l el => RNEN cid w l el
  end.

(* ------------------------------------------------------------------ the two readers of the RAIRE text format *)
(* A token of a comma-separated line: its identity as a (stripped) string, and its value under int() if it has one.
   Reserved identities: 0 "winner", 1 "order", 2 "informal". *)
Record tok := mktok { tid : key; tint : option Z }.
Definition T_WINNER : key := 0%nat.
Definition T_ORDER : key := 1%nat.
Definition T_INFORMAL : key := 2%nat.
Definition row := list tok.
Definition int_of (t : tok) : Z := match tint t with Some z => z | None => 0 end.

(* CVR.from_raire L402-404:  votes = {}; for j in range(2, len(c)): votes[str(c[j])] = j - 1 *)
Fixpoint votes_from (j : Z) (prefs : list key) (votes : rdict) : rdict :=
  match prefs with
  | [] => votes
  | p :: t => votes_from (j + 1) t (dset votes p (j - 1))
  end.
(* the rank dict CVR.from_raire gives a ballot line whose ranking is r *)
Definition audit_ranks (r : list key) : rdict := votes_from 2 r [].

(* one row -> (id, votes) of CVR.from_vote(votes, id=c[1], contest_id=c[0])   (rows with < 2 fields raise; not modelled) *)
Definition row_to_cvr (c : row) : list (key * acvr) :=
  match c with
  | cid :: bid :: prefs => [(tid bid, [(tid cid, audit_ranks (map tid prefs))])]
  | _ => []
  end.

(* CVR.merge_cvrs L459-480 (votes only): OrderedDict by id; od[id].votes = {**od[id].votes, **c.votes} *)
Definition merge_step (od : list (key * acvr)) (c : key * acvr) : list (key * acvr) :=
  match dget od (fst c) with
  | None => dset od (fst c) (snd c)
  | Some votes => dset od (fst c) (dict_update votes (snd c))
  end.
Definition merge_cvrs (l : list (key * acvr)) : list (key * acvr) := fold_left merge_step l [].

(* CVR.from_raire L399-408 : skip = int(raire[0][0]); rows raire[skip+1:] *)
Definition from_raire (raire : list row) : list (key * acvr) :=
  let skip := match raire with (t :: _) :: _ => int_of t | _ => 0 end in
  merge_cvrs (flat_map row_to_cvr (skipn (Z.to_nat (skip + 1)) raire)).

(* load_contests_from_raire L138-142:  ballot = {}; for c in cands: if c in prefs: ballot[c] = prefs.index(c) *)
Definition gen_ballot (cands prefs : list key) : rdict :=
  fold_left (fun ballot c => match index_of c prefs with
                             | Some idx => dset ballot c (Z.of_nat idx)
                             | None => ballot
                             end) cands [].

(* header line L101-128: cid = toks[1]; ncands = int(toks[2]); cands = toks[3 : 3+ncands];
   informal = int(toks[toks.index("informal")+1]) if "informal" in toks else 0.
   (winner / order go to Contest.winner / .outcome only and are not modelled.) *)
Definition parse_header (toks : row) : key * (list key * Z) :=
  let cid := match nth_error toks 1 with Some t => tid t | None => O end in
  let ncands := match nth_error toks 2 with Some t => int_of t | None => 0 end in
  let cands := map tid (firstn (Z.to_nat ncands) (skipn 3 toks)) in
  let informal := match index_of T_INFORMAL (map tid toks) with
                  | Some i => match nth_error toks (S i) with Some t => int_of t | None => 0 end
                  | None => 0
                  end in
  (cid, (cands, informal)).

(* state of the ballot loop L130-151: contest_info (cid -> cands), num_ballots, cvrs *)
Definition load_state := (list (key * Z) * list (key * gcvr))%type.
Definition load_step (contest_info : list (key * list key)) (st : load_state) (toks : row) : load_state :=
  match toks with
  | cid :: bid :: prefs =>
      let cands := match dget contest_info (tid cid) with Some cs => cs | None => [] end in  (* KeyError not modelled *)
      let ballot := gen_ballot cands (map tid prefs) in
      let nb := match dget (fst st) (tid cid) with Some n => dset (fst st) (tid cid) (n + 1) | None => fst st end in
      let cvrs := match dget (snd st) (tid bid) with
                  | None => dset (snd st) (tid bid) [(tid cid, ballot)]
                  | Some v => dset (snd st) (tid bid) (dset v (tid cid) ballot)
                  end in
      (nb, cvrs)
  | _ => st
  end.

(* load_contests_from_raire L88-157: returns (contests as (name, candidates, tot_ballots) in contest_info order, cvrs) *)
Definition load_contests_from_raire (lines : list row) : list (key * (list key * Z)) * list (key * gcvr) :=
  let ncontests := match lines with (t :: _) :: _ => Z.to_nat (int_of t) | _ => O end in
  let headers := map parse_header (firstn ncontests (skipn 1 lines)) in
  let contest_info := fold_left (fun d h => dset d (fst h) (fst (snd h))) headers [] in
  let num_ballots := fold_left (fun d h => dset d (fst h) (snd (snd h))) headers [] in
  let st := fold_left (load_step contest_info) (skipn (S ncontests) lines) (num_ballots, []) in
  (map (fun kc => (fst kc, (snd kc, match dget (fst st) (fst kc) with Some n => n | None => 0 end))) contest_info,
   snd st).

(* ------------------------------------------------------------------ the generator's tallies *)
(* compute_raire_assertions L82-96: asrn = NEBAssertion(contest.name, c, d); tallies are sums of asrn's own
   predicates over cvrs.items() *)
Definition gen_neb (name c d : key) (cvrs : list (key * gcvr)) : rassertion * Z * Z :=
  let asrn := RNEB name c d in
  (asrn,
   fold_left (fun t r => t + is_vote_for_winner asrn (snd r)) cvrs 0,
   fold_left (fun t r => t + is_vote_for_loser asrn (snd r)) cvrs 0).

(* compute_raire_assertions L109-110: ballots = [blt[contest.name] for _,blt in cvrs.items() if contest.name in blt] *)
Definition contest_ballots (name : key) (cvrs : list (key * gcvr)) : list rdict :=
  flat_map (fun r => match dget (snd r) name with Some b => [b] | None => [] end) cvrs.

(* find_best_audit L712-736: tallies over `ballots`; nen = NENAssertion(contest.name, first_in_tail, later_cand,
   eliminated) with votes_for_winner / votes_for_loser set to those tallies *)
Definition gen_nen (name first_in_tail later_cand : key) (eliminated : list key) (cvrs : list (key * gcvr))
  : rassertion * Z * Z :=
  let ballots := contest_ballots name cvrs in
  (RNEN name first_in_tail later_cand eliminated,
   sumZ (map (vote_for_cand first_in_tail eliminated) ballots),
   sumZ (map (vote_for_cand later_cand eliminated) ballots)).

(* re-applying an assertion through its own predicates to the CVRs *)
Definition retally_w (a : rassertion) (cvrs : list (key * gcvr)) : Z :=
  sumZ (map (fun r => is_vote_for_winner a (snd r)) cvrs).
Definition retally_l (a : rassertion) (cvrs : list (key * gcvr)) : Z :=
  sumZ (map (fun r => is_vote_for_loser a (snd r)) cvrs).
