(* Run_Status.v — entry points evaluated by the correspondence harness (harness/c09.py) for Assertion.set_p_values,
   Audit.summarize_status, Assertion.reset_p_values (multi-step sequences on shared state) and
   Audit.check_audit_parameters.  A case carries the inputs AND the implementation's outputs. *)
From SV Require Export Status.
Open Scope Q_scope.

(* exact equality of reported numbers: the recorded p-values are the very floats the test returned *)
Definition x_eqb (a b : Xq) : bool :=
  match a, b with
  | Fin p, Fin q => Qeq_bool p q
  | PInf, PInf | NInf, NInf | NaN, NaN => true
  | _, _ => false
  end.
Definition asn_eqb (a b : assertion) : bool :=
  Z.eqb (a_key a) (a_key b) && x_eqb (a_p a) (a_p b) && all2 x_eqb (a_hist a) (a_hist b) && Bool.eqb (a_proved a) (a_proved b).
Definition con_eqb (a b : contest) : bool :=
  Z.eqb (c_key a) (c_key b) && Qeq_bool (c_limit a) (c_limit b) && all2 asn_eqb (c_asns a) (c_asns b)
  && all2 (fun x y => Z.eqb (fst x) (fst y) && x_eqb (snd x) (snd y)) (c_pvalues a) (c_pvalues b)
  && all2 (fun x y => Z.eqb (fst x) (fst y) && Bool.eqb (snd x) (snd y)) (c_proved a) (c_proved b)
  && x_eqb (c_maxp a) (c_maxp b).

Inductive step :=
| StSet (lens_ok : bool) (tests : list (Z * Z * option (Xq * list Xq)))   (* ((contest key, assertion key), test.test(d) recomputed) *)
        (ret : option Xq)                                                  (* returned p_max; None = raised *)
        (after : list contest)                                             (* state read back afterwards *)
| StSum (ret : bool) (after : list contest)
| StReset (ret : bool) (after : list contest).

Fixpoint test_of (tb : list (Z * Z * option (Xq * list Xq))) (ck ak : Z) : option (Xq * list Xq) :=
  match tb with
  | [] => None
  | (c, a, r) :: rest => if Z.eqb c ck && Z.eqb a ak then r else test_of rest ck ak
  end.

(* run the model along the sequence; true iff every return value and every state read back agrees *)
Fixpoint run_steps (st : list contest) (steps : list step) : bool :=
  match steps with
  | [] => true
  | StSet lens tb ret after :: rest =>
      match set_p_values (test_of tb) lens st, ret with
      | SOk (st', pmax), Some r => x_eqb pmax r && all2 con_eqb st' after && run_steps st' rest
      | SErr _, None => true                 (* the call raised; the sequence ends here *)
      | _, _ => false
      end
  | StSum ret after :: rest =>
      Bool.eqb (summarize_status st) ret && all2 con_eqb st after && run_steps st rest
  | StReset ret after :: rest =>
      let '(st', r) := reset_p_values st in
      Bool.eqb r ret && all2 con_eqb st' after && run_steps st' rest
  end.

Definition agree_seq (c : list contest * list step) : bool := run_steps (fst c) (snd c).

(* model's trace for a disagreeing case *)
Fixpoint trace (st : list contest) (steps : list step) : list (option (list contest) * option Xq * bool) :=
  match steps with
  | [] => []
  | StSet lens tb _ _ :: rest =>
      match set_p_values (test_of tb) lens st with
      | SOk (st', pmax) => (Some st', Some pmax, true) :: trace st' rest
      | SErr _ => [(None, None, false)]
      end
  | StSum _ _ :: rest => (None, None, summarize_status st) :: trace st rest
  | StReset _ _ :: rest => (Some (fst (reset_p_values st)), None, true) :: trace (fst (reset_p_values st)) rest
  end.
Definition show_seq (c : list contest * list step) := trace (fst c) (snd c).

(* check_audit_parameters: (error_rate_1, error_rate_2, contests, implementation: None = returned, Some (code, contest key)) *)
Definition agree_cap (c : Q * Q * list cparams * option (nat * Z)) : bool :=
  match c with
  | (e1, e2, ps, out) =>
      match check_audit_parameters e1 e2 ps, out with
      | SOk _, None => true
      | SErr (SAssert code k), Some (code', k') => Nat.eqb code code' && Z.eqb k k'
      | _, _ => false
      end
  end.
Definition show_cap (c : Q * Q * list cparams * option (nat * Z)) :=
  match c with (e1, e2, ps, _) => check_audit_parameters e1 e2 ps end.
