(* Run_NNM.v — entry points evaluated by the correspondence harness for shangrla/core/NonnegMean.py.
   A case carries the inputs AND the implementation's outputs; agree_* compares inside Coq. *)
From SV Require Export NNM.
Open Scope Q_scope.

Record nnm_case := mkcase {
  k_cfg : cfg; k_xs : list Q;
  k_p : Xq; k_hist : list Xq;      (* NonnegMean.test(x) *)
  k_aux : list Xq                   (* NonnegMean.estim(x) or .bet(x) where the test uses one, else [] *)
}.
Definition run_cfg := run_test sqrt_exec.
Definition model_aux (c : cfg) (xs : list Q) : list Xq :=
  match ctest c with
  | TAlpha e => map Fin (run_estim sqrt_exec e (cN c) (ct c) (cu c) xs)
  | TBetting b => map Fin (run_bet sqrt_exec b (cN c) (ct c) (cu c) xs)
  | _ => []
  end.
Definition agree_nnm (c : nnm_case) : bool :=
  let r := run_cfg (k_cfg c) (k_xs c) in
  close_x (fst r) (k_p c) && all2 close_x (snd r) (k_hist c)
  && all2 close_x (model_aux (k_cfg c) (k_xs c)) (k_aux c).
Definition show_nnm (c : nnm_case) := (run_cfg (k_cfg c) (k_xs c), model_aux (k_cfg c) (k_xs c)).

(* conversion functions: (u, a, mu, lam_to_eta(a,mu), eta_to_lam(a,mu)) *)
Definition agree_conv (c : Q * Q * Q * Xq * Xq) : bool :=
  match c with
  | (u, a, mu, r1, r2) =>
      close_x (Fin (lam_to_eta u a mu)) r1 &&
      close_x (xdiv (xsub (xdiv (Fin a) (Fin mu)) (Fin 1)) (Fin (u - mu))) r2
  end.

(* sample_size, deterministic branch: (cfg, alpha, pilot data, implementation's answer) *)
Definition agree_ss (c : cfg * Q * list Q * nat) : bool :=
  match c with (cf, alpha, xs, n) => Nat.eqb (sample_size_det sqrt_exec cf alpha xs) n end.
