(* NNM_risk_real_inst.v — C01, N = infinity, ARBITRARY laws: ALPHA (every shipped estimator), betting (fixed bet, aGRAPA),
   the generalised SPRT, Kaplan-Markov and Kaplan-Wald.  The law is any positive normalised linear expectation on
   functions of a rational observation in [0,u] with E[x] <= t (Prob_real.expectation); probabilities of events of the
   first n draws are iterated expectations (Prob_real.probc). *)
From SV Require Import NNM NNM_machines NNM_ranges NNM_spec NNM_hist NNM_wf NNM_prefix NNM_defs NNM_kaplan
     Prob Prob_iid NNM_risk NNM_risk_inst NNM_risk_iid NNM_risk_iid_inst NNM_risk_iid_kaplan Prob_real NNM_risk_real.
From Coq Require Import Qreals Reals.
Open Scope Q_scope.

Section RealInstances.
Variable sqrtq : Q -> Q.
Hypothesis sqrt_nonneg : forall x, 0 <= sqrtq x.
Variable E : (Q -> R) -> R.

(* ---------------- ALPHA, every shipped estimator ---------------- *)
Theorem alpha_real_risk_limit e t u alpha n :
  0 < u -> 0 < t < u -> expectation (inrange u) E -> (E Q2R <= Q2R t)%R -> 0 < alpha -> alpha < 1 ->
  (probc E n (rejectsb (alpha_mart sqrtq e None t u) alpha) <= Q2R alpha)%R.
Proof.
  intros Hu Ht HE Hm Ha Ha1.
  set (em := estim_machine sqrtq e None t u).
  assert (Haff : forall x e0, alpha_factor_q u x e0 t == 1 + (x - t) * alpha_slope u e0 t).
  { intros x e0. rewrite alpha_factor_q_affine by lra. unfold alpha_slope. field. split; lra. }
  assert (Hnn : forall (g : istate em) x, 0 <= x <= u -> 0 <= alpha_factor_q u x (i_par (clamp_eta u) em t g) t).
  { intros g x Hx. apply alpha_factor_q_nonneg; auto; try lra. unfold i_par. apply clamp_eta_range. lra. }
  assert (Hsl : forall (g : istate em), 0 <= alpha_slope u (i_par (clamp_eta u) em t g) t).
  { intros g. unfold alpha_slope. apply div_nonneg; [|nra].
    pose proof (clamp_eta_range u (m_out em (i_e em g)) t (Qlt_le_weak _ _ (proj2 Ht))). unfold i_par. lra. }
  apply (real_risk_limit (alpha_factor_q u) (alpha_slope u) (clamp_eta u) em t u Haff Hnn Hsl E HE Hm alpha n _ Ha).
  intros s Hs Hrej.
  apply (reject_crosses_iid (alpha_factor_q u) (clamp_eta u) em t u (itest (alpha_factor_q u) (clamp_eta u) em t u)
           (fun a xs h => itest_link (alpha_factor_q u) (clamp_eta u) em t u Hnn a xs h) alpha s Ha Ha1 Hs).
  rewrite <- Hrej. symmetry. apply rejectsb_ext. intros k Hk.
  pose proof (sample_ok_prefix u s k Hs Hk) as Hok.
  rewrite alpha_mart_unfold, (alpha_terms_eq_spec sqrtq e None t u _ Hu Ht Hok).
  unfold itest. f_equal.
  exact (spec_terms_iterms (alpha_factor_q u) (clamp_eta u) em t u Ht (firstn k s) (iinit em) (0, 1%Z)).
Qed.

(* ---------------- betting ---------------- *)
Theorem betting_real_risk_limit b t u alpha n :
  0 < u -> 0 < t < u -> bet_ok b u -> expectation (inrange u) E -> (E Q2R <= Q2R t)%R -> 0 < alpha -> alpha < 1 ->
  (probc E n (rejectsb (betting_mart sqrtq b None t u) alpha) <= Q2R alpha)%R.
Proof.
  intros Hu Ht Hb HE Hm Ha Ha1.
  set (em := bet_machine sqrtq b None t u).
  assert (Haff : forall x e0, betting_factor_q x e0 t == 1 + (x - t) * e0) by (intros; unfold betting_factor_q; ring).
  assert (Hlam : forall (g : istate em), 0 <= i_par (fun l _ => l) em t g /\ i_par (fun l _ => l) em t g * t <= 1).
  { intros g. unfold i_par. subst em. destruct b as [lam|lam c0 cmax cgrow]; cbn in Hb.
    - cbn [bet_machine const_machine m_out]. destruct Hb as [Hl0 Hl1]. split; auto.
      assert (E0 : 1 / u * u == 1) by (field; lra). assert (P0 : 0 < 1 / u) by (apply div_pos; lra).
      assert (P1 : lam * t <= 1 / u * t) by nra. assert (P2 : 1 / u * t <= 1 / u * u) by nra. lra.
    - destruct Hb as [Hc0 [Hc1 [Hc2 Hc3]]].
      pose proof (agrapa_out_range sqrtq sqrt_nonneg None t lam c0 cmax cgrow Hc0 Hc1 Hc2 Hc3 (i_e _ g)) as [Hlo Hhi].
      cbv zeta in Hhi. change (mu_at None t _ _) with t in Hhi. specialize (Hhi (proj1 Ht)). destruct Hhi as [Hh1 Hh2].
      cbn [bet_machine agrapa_machine m_out] in *. split; auto.
      assert (E0 : 1 / t * t == 1) by (field; lra).
      match goal with |- ?l * _ <= 1 => assert (P1 : l < 1 / t) by lra; assert (P2 : l * t <= 1 / t * t) by nra end. lra. }
  assert (Hnn : forall (g : istate em) x, 0 <= x <= u -> 0 <= betting_factor_q x (i_par (fun l _ => l) em t g) t).
  { intros g x Hx. destruct (Hlam g) as [Hl0 Hl1]. unfold betting_factor_q. nra. }
  assert (Hsl : forall (g : istate em), 0 <= i_par (fun l _ => l) em t g) by (intro g; apply (Hlam g)).
  apply (real_risk_limit betting_factor_q (fun l _ => l) (fun l _ => l) em t u Haff Hnn Hsl E HE Hm alpha n _ Ha).
  intros s Hs Hrej.
  apply (reject_crosses_iid betting_factor_q (fun l _ => l) em t u (itest betting_factor_q (fun l _ => l) em t u)
           (fun a xs h => itest_link betting_factor_q (fun l _ => l) em t u Hnn a xs h) alpha s Ha Ha1 Hs).
  rewrite <- Hrej. symmetry. apply rejectsb_ext. intros k Hk.
  pose proof (sample_ok_prefix u s k Hs Hk) as [Hne [Hxr _]].
  rewrite betting_mart_unfold.
  rewrite (model_terms_spec betting_factor betting_factor_q None t u Hu Ht (fun x e m _ _ => eq_refl)
             (firstn k s) _ (0, 1%Z) (Fin 1) 1 Alive Hxr I I (fun _ => eq_refl)).
  unfold itest. f_equal.
  rewrite <- (spec_terms_iterms betting_factor_q (fun l _ => l) em t u Ht (firstn k s) (iinit em) (0, 1%Z)).
  cbn [iinit i_T i_e]. f_equal. unfold run_bet, run_machine. fold em. symmetry. apply map2_fst_id. rewrite !mscan_length. reflexivity.
Qed.

(* ---------------- generalised SPRT (both settings of random_order): every rejection is a rejection of ALPHA ---- *)
Theorem sprt_real_risk_limit eta ro t u alpha n :
  0 < u -> 0 < t < u -> expectation (inrange u) E -> (E Q2R <= Q2R t)%R -> 0 < alpha -> alpha < 1 ->
  (probc E n (rejectsb (wald_sprt sqrtq eta ro None t u) alpha) <= Q2R alpha)%R.
Proof.
  intros Hu Ht HE Hm Ha Ha1.
  eapply Rle_trans; [|exact (alpha_real_risk_limit (EFixed eta) t u alpha n Hu Ht HE Hm Ha Ha1)].
  apply (probc_mono (inrange u) E HE). intros s _ Hs Er.
  unfold rejectsb in *. apply existsb_exists in Er. destruct Er as [k [Hk Hex]]. apply existsb_exists. exists k. split; auto.
  cbv zeta in *. apply existsb_exists in Hex. destruct Hex as [h [Hh Hle]]. apply existsb_exists. exists h. split; auto.
  unfold wald_sprt in Hh. cbn [fst snd] in Hh. destruct ro; auto.
  destruct Hh as [E0|Hh]; [|right; exact Hh]. right. rewrite <- E0.
  apply in_seq in Hk.
  pose proof (sample_ok_prefix u s k Hs ltac:(lia)) as Hok.
  destruct (alpha_mart_wellformed sqrtq (EFixed eta) None t u _ Hu Ht Hok) as [HL _].
  unfold xlast. apply last_In. intro E1. rewrite E1 in HL. destruct Hok as [Hne _]. destruct (firstn k s); simpl in *; congruence.
Qed.

(* ---------------- Kaplan-Wald, Kaplan-Markov ---------------- *)
Theorem kaplan_wald_real_risk_limit g ro t u alpha n :
  0 < u -> 0 < t < u -> 0 <= g <= 1 -> expectation (inrange u) E -> (E Q2R <= Q2R t)%R -> 0 < alpha -> alpha < 1 ->
  (probc E n (rejectsb (kaplan_wald g ro t) alpha) <= Q2R alpha)%R.
Proof.
  intros Hu Ht Hg HE Hm Ha Ha1. destruct (kaplan_wald_hyps g ro t u (proj1 Ht) Hg) as [H1 [H2 [H3 H4]]].
  apply (real_risk_limit (kw_fac g t) (fun _ _ => (1 - g) / t) (fun e _ => e) (const_machine 0) t u H1 H2 H3 E HE Hm alpha n _ Ha).
  intros s Hs Hrej.
  exact (reject_crosses_iid (kw_fac g t) (fun e _ => e) (const_machine 0) t u (kaplan_wald g ro t) H4 alpha s Ha Ha1 Hs Hrej).
Qed.
Theorem kaplan_markov_real_risk_limit g ro t u alpha n :
  0 < u -> 0 < t < u -> 0 <= g -> expectation (inrange u) E -> (E Q2R <= Q2R t)%R -> 0 < alpha -> alpha < 1 ->
  (probc E n (rejectsb (kaplan_markov g ro t) alpha) <= Q2R alpha)%R.
Proof.
  intros Hu Ht Hg HE Hm Ha Ha1. destruct (kaplan_markov_hyps g ro t u (proj1 Ht) Hg) as [H1 [H2 [H3 H4]]].
  apply (real_risk_limit (km_fac g t) (fun _ _ => 1 / (t + g)) (fun e _ => e) (const_machine 0) t u H1 H2 H3 E HE Hm alpha n _ Ha).
  intros s Hs Hrej.
  exact (reject_crosses_iid (km_fac g t) (fun e _ => e) (const_machine 0) t u (kaplan_markov g ro t) H4 alpha s Ha Ha1 Hs Hrej).
Qed.
End RealInstances.
