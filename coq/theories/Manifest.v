(* Manifest.v — executable model of the manifest functions of shangrla/formats/Dominion.py and
   shangrla/formats/Hart.py: prep_manifest, sample_from_manifest, sample_from_cvrs (property C17).
   No proofs here (Manifest_proofs.v).  Strings are numbers: the harness maps every string of a case to a Z
   (order-preserving where the code sorts strings); "phantom" is phantom_tab, "None" is none_str, "" is empty_str. *)
From Coq Require Import ZArith List Bool Lia.
Import ListNotations.
Open Scope Z_scope.

Inductive err := EAssert | EIndex | EKey | EValue | EAttr | EType | EOther.
Inductive res (A : Type) := Ok (a : A) | Err (e : err).
Arguments Ok {A} a. Arguments Err {A} e.

Definition err_eqb (a b : err) : bool :=
  match a, b with
  | EAssert, EAssert | EIndex, EIndex | EKey, EKey | EValue, EValue | EAttr, EAttr | EType, EType | EOther, EOther => true
  | _, _ => false
  end.

Inductive vendor := Dominion | Hart.

(* one manifest row.  Dominion: 'VBMCart.Cart number', 'Tray #', 'Tabulator Number', 'Batch Number', 'Total Ballots';
   Hart: 'Container', (no tray: 0), 'Tabulator', 'Batch Name', 'Number of Ballots'. *)
Record row := mkrow { r_cart : Z; r_tray : Z; r_tab : Z; r_batch : Z; r_size : Z }.
Definition phantom_tab : Z := 0.      (* the string "phantom" *)
Definition none_str : Z := -1.        (* a missing cell: astype(str) of None ("None", or NaN under pandas 3) *)
Definition empty_str : Z := 1000000.  (* "" : smallest string of the order-preserving string table (base 10^6) *)

Definition sizes (m : list row) : list Z := map r_size m.
Fixpoint zsum (l : list Z) : Z := match l with [] => 0 | x :: r => x + zsum r end.

(* pandas Series.cumsum *)
Fixpoint cumsum_from (acc : Z) (l : list Z) : list Z :=
  match l with [] => [] | x :: r => (acc + x) :: cumsum_from (acc + x) r end.
Definition cumsum (l : list Z) : list Z := cumsum_from 0 l.

(* np.searchsorted(a, v, side='left') on a sorted array: first index i with a[i] >= v (len a if none) *)
Fixpoint searchsorted_left (a : list Z) (v : Z) : nat :=
  match a with [] => O | x :: r => if v <=? x then O else S (searchsorted_left r v) end.
(* np.searchsorted(a, v, side='right') on a sorted array: first index i with a[i] > v (len a if none) *)
Fixpoint searchsorted_right (a : list Z) (v : Z) : nat :=
  match a with [] => O | x :: r => if v <? x then O else S (searchsorted_right r v) end.

(* the prepared manifest: rows (after the optional phantom batch) and its 'cum_cards' column *)
Record prepared := mkprep { pm_rows : list row; pm_cum : list Z }.

(* Dominion.prep_manifest L56-82 / Hart.prep_manifest L52-78: the two asserts, phantoms, appended batch
   {cart None, tray None, tab "phantom", batch 1, size phantoms}, cum_cards = cumsum, columns astype(str) *)
Definition phantom_row (v : vendor) (n : Z) : row :=
  mkrow none_str (match v with Dominion => none_str | Hart => 0 end) phantom_tab 1 n.
Definition prep_manifest (v : vendor) (m : list row) (max_cards n_cvrs : Z) : res (prepared * Z * Z) :=
  let manifest_cards := zsum (sizes m) in
  if max_cards <? manifest_cards then Err EAssert else
  if manifest_cards <? n_cvrs then Err EAssert else
  let phantoms := if manifest_cards <? max_cards then max_cards - manifest_cards else 0 in
  let m' := if manifest_cards <? max_cards then m ++ [phantom_row v phantoms] else m in
  Ok (mkprep m' (cumsum (sizes m')), manifest_cards, phantoms).

(* sample_from_manifest, loop body L455-458 (Dominion, side="left") / L219-223 (Hart, side="right"):
     lookup = [0] + cum_cards; batch_num = searchsorted(lookup, s); card_in_batch = s - lookup[batch_num-1];
     row manifest.iloc[batch_num-1].
   Result (0-based row index, card_in_batch).  batch_num = 0 (s <= 0 resp. s < 0: Python would wrap to the last
   row) and batch_num-1 >= number of rows (iloc IndexError) give None. *)
Definition batch_num (v : vendor) (lookup : list Z) (s : Z) : nat :=
  match v with Dominion => searchsorted_left lookup s | Hart => searchsorted_right lookup s end.
Definition lookup_card (v : vendor) (cum : list Z) (s : Z) : option (nat * Z) :=
  let lookup := 0 :: cum in
  match batch_num v lookup s with
  | O => None
  | S b => if (b <? length cum)%nat then Some (b, s - nth b lookup 0) else None
  end.

(* ---- Python dict as an insertion-ordered association list *)
Section Dict.
  Context {K V : Type} (keq : K -> K -> bool).
  Fixpoint dict_get (d : list (K * V)) (k : K) : option V :=
    match d with [] => None | (k', v) :: r => if keq k' k then Some v else dict_get r k end.
  Fixpoint dict_set (d : list (K * V)) (k : K) (v : V) : list (K * V) :=
    match d with
    | [] => [(k, v)]
    | (k', v') :: r => if keq k' k then (k', v) :: r else (k', v') :: dict_set r k v
    end.
End Dict.

(* ---- list.sort(key=...) : stable insertion sort on a Z key *)
Section Sort.
  Context {A : Type} (key : A -> Z).
  (* x goes before the first element whose key is >= key x: with sort_by inserting from the right,
     equal keys keep their original order (stable, as Python's list.sort) *)
  Fixpoint insert_by (x : A) (l : list A) : list A :=
    match l with [] => [x] | y :: r => if key x <=? key y then x :: y :: r else y :: insert_by x r end.
  Fixpoint sort_by (l : list A) : list A :=
    match l with [] => [] | x :: r => insert_by x (sort_by r) end.
End Sort.

Definition card_id := (Z * Z * Z)%type.     (* f"{tab}-{batch}-{card_in_batch}" *)
Definition cid_eqb (a b : card_id) : bool :=
  match a, b with (a1, a2, a3), (b1, b2, b3) => (a1 =? b1) && (a2 =? b2) && (a3 =? b3) end.

(* what one iteration of the loop of sample_from_manifest computes *)
Record mpick := mkpick { p_i : Z; p_s : Z; p_row : row; p_pos : Z }.
Definition pick_id (p : mpick) : card_id := (r_tab (p_row p), r_batch (p_row p), p_pos p).

Fixpoint picks_from (v : vendor) (pm : prepared) (i : Z) (sample : list Z) : res (list mpick) :=
  match sample with
  | [] => Ok []
  | s :: rest =>
      match lookup_card v (pm_cum pm) s with
      | None => Err EIndex
      | Some (b, k) =>
          match nth_error (pm_rows pm) b with
          | None => Err EIndex
          | Some r => match picks_from v pm (i + 1) rest with
                      | Ok ps => Ok (mkpick i s r k :: ps)
                      | Err e => Err e
                      end
          end
      end
  end.

(* the card lists: Dominion [cart, tray, tab, batch, card_in_batch, card_id (3 numbers), s], sorted by x[-1] = s;
   Hart [container, tab, batch, card_in_batch, card_id (3 numbers)], sorted by x[-2] = card_in_batch *)
Definition card_of (v : vendor) (p : mpick) : list Z :=
  let r := p_row p in
  match v with
  | Dominion => [r_cart r; r_tray r; r_tab r; r_batch r; p_pos p; r_tab r; r_batch r; p_pos p; p_s p]
  | Hart => [r_cart r; r_tab r; r_batch r; p_pos p; r_tab r; r_batch r; p_pos p]
  end.
Definition card_key (v : vendor) (c : list Z) : Z :=
  match v with Dominion => nth 8 c 0 | Hart => nth 3 c 0 end.

Definition sample_order := list (card_id * (Z * Z)).     (* id -> (selection_order, serial) *)
Definition order_of (ps : list mpick) : sample_order :=
  fold_left (fun so p => dict_set cid_eqb so (pick_id p) (p_i p, p_s p + 1)) ps [].
Definition phantoms_of (ps : list mpick) : list card_id :=
  map pick_id (filter (fun p => r_tab (p_row p) =? phantom_tab) ps).

(* Dominion.sample_from_manifest L428-472, Hart.sample_from_manifest L186-238 *)
Definition sample_from_manifest (v : vendor) (pm : prepared) (sample : list Z)
  : res (list (list Z) * sample_order * list card_id) :=
  match picks_from v pm 0 sample with
  | Err e => Err e
  | Ok ps => Ok (sort_by (card_key v) (map (card_of v) ps), order_of ps, phantoms_of ps)
  end.

(* ---------------------------------------------------------------- sample_from_cvrs *)
(* a CVR as the two functions see it: id (string), its split parts, the card_in_batch attribute, phantom flag.
   Dominion ids "tab-batch-num"; Hart ids "batch_num" (v_tab unused) or, for phantoms, "phantom-batch-num". *)
Record cvr := mkcvr { v_id : Z; v_tab : Z; v_batch : Z; v_num : Z; v_cib : Z; v_phantom : bool }.

(* Dominion L494-503: dict (tab,batch) -> [cart, tray] filled in manifest order (a later row overwrites) *)
Definition lookuptable (rows : list row) : list ((Z * Z) * (Z * Z)) :=
  fold_left (fun d r => dict_set (fun a b : Z * Z => (fst a =? fst b) && (snd a =? snd b)) d
                                 (r_tab r, r_batch r) (r_cart r, r_tray r)) rows [].
Definition lookuptable_get (rows : list row) (k : Z * Z) : option (Z * Z) :=
  dict_get (fun a b : Z * Z => (fst a =? fst b) && (snd a =? snd b)) (lookuptable rows) k.

Record cpick := mkcpick { q_i : Z; q_s : Z; q_cvr : cvr; q_card : list Z }.

(* loop body, Dominion L505-523 / Hart L274-285 *)
Definition cvr_card (v : vendor) (rows : list row) (c : cvr) : res (list Z) :=
  match v with
  | Dominion =>
      if v_phantom c then Ok [empty_str; empty_str; v_tab c; v_batch c; v_num c; v_id c]
      else match lookuptable_get rows (v_tab c, v_batch c) with
           | None => Err EKey
           | Some (cart, tray) => Ok [cart; tray; v_tab c; v_batch c; v_cib c; v_id c]
           end
  | Hart =>
      if v_phantom c then Ok [empty_str; empty_str; v_batch c; v_num c; v_id c]
      else match find (fun r => r_batch r =? v_batch c) rows with
           | None => Err EIndex
           | Some r => Ok [r_tab r; v_batch c; v_num c; v_id c]
           end
  end.

Fixpoint cpicks_from (v : vendor) (rows : list row) (cvrs : list cvr) (i : Z) (sample : list Z) : res (list cpick) :=
  match sample with
  | [] => Ok []
  | s :: rest =>
      if s <? 0 then Err EOther (* Python would index from the end: outside the modelled domain *) else
      match nth_error cvrs (Z.to_nat s) with
      | None => Err EIndex
      | Some c =>
          match cvr_card v rows c with
          | Err e => Err e
          | Ok card => match cpicks_from v rows cvrs (i + 1) rest with
                       | Ok ps => Ok (mkcpick i s c card :: ps)
                       | Err e => Err e
                       end
          end
      end
  end.

Definition ccard_key (v : vendor) (c : list Z) : Z :=
  match v with Dominion => nth 5 c 0 | Hart => nth 3 c 0 end.
Definition corder_of (ps : list cpick) : list (Z * (Z * Z)) :=
  fold_left (fun so p => dict_set Z.eqb so (v_id (q_cvr p)) (q_i p, q_s p + 1)) ps [].

(* Dominion.sample_from_cvrs L476-539, Hart.sample_from_cvrs L241-289:
   (cards sorted by id, sample_order, cvr_sample as (index in cvr_list, id), ids of mvr_phantoms) *)
Definition sample_from_cvrs (v : vendor) (rows : list row) (cvrs : list cvr) (sample : list Z)
  : res (list (list Z) * list (Z * (Z * Z)) * list (Z * Z) * list Z) :=
  match cpicks_from v rows cvrs 0 sample with
  | Err e => Err e
  | Ok ps => Ok (sort_by (ccard_key v) (map q_card ps), corder_of ps,
                 map (fun p => (q_s p, v_id (q_cvr p))) ps,
                 map (fun p => v_id (q_cvr p)) (filter (fun p => v_phantom (q_cvr p)) ps))
  end.
