(* NNM_prefix.v — non-anticipation of the reported histories (C05) *)
From SV Require Import NNM NNM_machines NNM_ranges NNM_spec NNM_hist NNM_wf.
Open Scope Q_scope.

Lemma firstn_set_last {A} (l : list A) v k : (k < length l)%nat -> firstn k (set_last l v) = firstn k l.
Proof.
  revert k; induction l as [|a r IH]; intros k Hk; simpl in *; [lia|].
  destruct r as [|b r']; simpl in *.
  - assert (k = 0)%nat by lia. subst. reflexivity.
  - destruct k as [|k]; [reflexivity|]. cbn [firstn]. f_equal. apply (IH k). lia.
Qed.
Lemma nth_error_set_last_last {A} (l : list A) v : l <> [] -> nth_error (set_last l v) (length l - 1) = Some v.
Proof.
  induction l as [|a r IH]; intro H; [congruence|].
  destruct r as [|b r']; [reflexivity|].
  cbn [set_last length]. replace (S (S (length r')) - 1)%nat with (S (length (b :: r') - 1)) by (simpl; lia).
  cbn [nth_error]. apply IH. discriminate.
Qed.
Lemma firstn_firstn_min {A} (l : list A) i j : firstn i (firstn j l) = firstn (Nat.min i j) l.
Proof. apply firstn_firstn. Qed.
Lemma nth_error_firstn_lt {A} (l : list A) i k : (i < k)%nat -> nth_error (firstn k l) i = nth_error l i.
Proof.
  revert i k; induction l as [|a r IH]; intros i k H; destruct k; try lia; destruct i; simpl; auto.
  apply IH. lia.
Qed.

Section Generic.
(* a test whose reported history is   map pv (terms, with the last entry forced to +inf when the total exceeds N t) *)
Variable terms_fn : list Q -> list Xq.
Hypothesis terms_len : forall xs, length (terms_fn xs) = length xs.
Hypothesis terms_firstn : forall xs k, firstn k (terms_fn xs) = terms_fn (firstn k xs).
Variables (N : option Z) (t : Q).
Definition hist_of (xs : list Q) : list Xq := snd (finish_terms N t xs (terms_fn xs)).

Lemma hist_of_firstn_lt xs k : (k < length xs)%nat ->
  firstn k (hist_of xs) = map pv (terms_fn (firstn k xs)).
Proof.
  intro Hk. unfold hist_of, finish_terms; cbn [snd]. fold pv.
  rewrite firstn_map. f_equal.
  destruct (stot_exceeds N t xs).
  - rewrite firstn_set_last by (rewrite terms_len; auto). apply terms_firstn.
  - apply terms_firstn.
Qed.

(* two samples agreeing in their first k observations, both continuing: the first k entries agree *)
Theorem hist_tail xs ys k :
  firstn k xs = firstn k ys -> (k < length xs)%nat -> (k < length ys)%nat ->
  firstn k (hist_of xs) = firstn k (hist_of ys).
Proof. intros E Hx Hy. rewrite !hist_of_firstn_lt by assumption. now rewrite E. Qed.

(* truncating after k observations: entries 1..k-1 unchanged, entry k unchanged or lowered to 0 *)
Theorem hist_truncate_strong xs k :
  (1 <= k <= length xs)%nat ->
  firstn (k - 1) (hist_of (firstn k xs)) = firstn (k - 1) (hist_of xs)
  /\ (nth_error (hist_of (firstn k xs)) (k - 1) = nth_error (hist_of xs) (k - 1)
      \/ ((k < length xs)%nat /\ stot_exceeds N t (firstn k xs) = true
          /\ nth_error (hist_of (firstn k xs)) (k - 1) = Some (Fin 0))).
Proof.
  intros [Hk1 Hk2].
  assert (Hlen : length (firstn k xs) = k) by (rewrite firstn_length; lia).
  split.
  - rewrite !hist_of_firstn_lt by lia. rewrite firstn_firstn. replace (Nat.min (k - 1) k) with (k - 1)%nat by lia. reflexivity.
  - destruct (Nat.eq_dec k (length xs)) as [E|NE].
    + left. rewrite E, firstn_all. reflexivity.
    + assert (Hlt : (k < length xs)%nat) by lia.
      (* entry k-1 of the full history is pv of the (unclamped) term k-1 *)
      assert (Hfull : nth_error (hist_of xs) (k - 1) = nth_error (map pv (terms_fn (firstn k xs))) (k - 1)).
      { rewrite <- (hist_of_firstn_lt xs k Hlt). symmetry. apply nth_error_firstn_lt. lia. }
      unfold hist_of at 1 3, finish_terms; cbn [snd]. fold pv.
      destruct (stot_exceeds N t (firstn k xs)).
      * right. split; auto. split; auto. rewrite nth_error_map.
        pose proof (nth_error_set_last_last (terms_fn (firstn k xs)) PInf) as HL.
        rewrite terms_len, Hlen in HL. rewrite HL; [reflexivity|].
        intro E. pose proof (terms_len (firstn k xs)) as HL2. rewrite E, Hlen in HL2. simpl in HL2. lia.
      * left. rewrite Hfull. reflexivity.
Qed.
Theorem hist_truncate xs k :
  (1 <= k <= length xs)%nat ->
  firstn (k - 1) (hist_of (firstn k xs)) = firstn (k - 1) (hist_of xs)
  /\ (nth_error (hist_of (firstn k xs)) (k - 1) = nth_error (hist_of xs) (k - 1)
      \/ nth_error (hist_of (firstn k xs)) (k - 1) = Some (Fin 0)).
Proof.
  intro H. destruct (hist_truncate_strong xs k H) as [H1 [H2|[_ [_ H2]]]]; auto.
Qed.
End Generic.

Section Instances.
Variable sqrtq : Q -> Q.

Definition alpha_terms e N t u xs : list Xq :=
  model_terms (alpha_factor u) N t u (0, 1%Z) (Fin 1) xs (alpha_etas sqrtq e N t u xs).
Definition betting_terms b N t u xs : list Xq :=
  model_terms betting_factor N t u (0, 1%Z) (Fin 1) xs (run_bet sqrtq b N t u xs).

Lemma map3_length3 {A B C D} (f : A -> B -> C -> D) : forall a b c,
  length a = length b -> length a = length c -> length (map3 f a b c) = length a.
Proof. induction a as [|x a IH]; intros [|y b] [|z c] H1 H2; simpl in *; auto; try discriminate. Qed.
Lemma xcumprod_length l : forall acc, length (xcumprod acc l) = length l.
Proof. induction l as [|a l IH]; intro acc; simpl; auto. Qed.
Lemma model_terms_length facX N t u s acc xs es : length es = length xs ->
  length (model_terms facX N t u s acc xs es) = length xs.
Proof.
  intro H. unfold model_terms, model_terms_z. cbv zeta.
  assert (L3 : length (map3 facX xs es (mscan (mu_out N t) sj_step s xs)) = length xs).
  { apply map3_length3; [auto | now rewrite mscan_length]. }
  rewrite map2_length; rewrite ?mscan_length; auto.
  rewrite absorb_length; [now rewrite L3 | apply xcumprod_length].
Qed.
Lemma alpha_etas_length e N t u xs : length (alpha_etas sqrtq e N t u xs) = length xs.
Proof. unfold alpha_etas. rewrite map2_length; unfold run_estim, mu_list; rewrite !run_machine_length; auto. Qed.
Lemma alpha_etas_firstn e N t u xs k :
  firstn k (alpha_etas sqrtq e N t u xs) = alpha_etas sqrtq e N t u (firstn k xs).
Proof. unfold alpha_etas, run_estim, mu_list. now rewrite map2_firstn, !run_machine_firstn. Qed.

Lemma alpha_terms_len e N t u xs : length (alpha_terms e N t u xs) = length xs.
Proof. apply model_terms_length, alpha_etas_length. Qed.
Lemma alpha_terms_firstn e N t u xs k : firstn k (alpha_terms e N t u xs) = alpha_terms e N t u (firstn k xs).
Proof. unfold alpha_terms. now rewrite model_terms_firstn, alpha_etas_firstn. Qed.
Lemma betting_terms_len b N t u xs : length (betting_terms b N t u xs) = length xs.
Proof. apply model_terms_length. unfold run_bet. apply run_machine_length. Qed.
Lemma betting_terms_firstn b N t u xs k : firstn k (betting_terms b N t u xs) = betting_terms b N t u (firstn k xs).
Proof. unfold betting_terms, run_bet. now rewrite model_terms_firstn, run_machine_firstn. Qed.

Lemma alpha_hist_is e N t u xs :
  snd (alpha_mart sqrtq e N t u xs) = hist_of (alpha_terms e N t u) N t xs.
Proof. reflexivity. Qed.
Lemma betting_hist_is b N t u xs :
  snd (betting_mart sqrtq b N t u xs) = hist_of (betting_terms b N t u) N t xs.
Proof. reflexivity. Qed.

(* Kaplan-Kolmogorov / Kaplan-Markov / Kaplan-Wald: the history of a prefix is the prefix of the history *)
Lemma kk_hist_firstn g ro N t xs k :
  firstn k (snd (kaplan_kolmogorov g ro N t xs)) = snd (kaplan_kolmogorov g ro N t (firstn k xs)).
Proof.
  unfold kaplan_kolmogorov; cbn [snd].
  cbv zeta. rewrite firstn_map, map3_firstn, absorb_firstn, xcumprod_firstn, map2_firstn.
  unfold mu_list. rewrite !run_machine_firstn, !firstn_map. reflexivity.
Qed.
Lemma km_hist_firstn g ro t xs k :
  firstn k (snd (kaplan_markov g ro t xs)) = snd (kaplan_markov g ro t (firstn k xs)).
Proof. unfold kaplan_markov; cbn [snd]. cbv zeta. now rewrite firstn_map, absorb_firstn, xcumprod_firstn, firstn_map. Qed.
Lemma kw_hist_firstn g ro t xs k :
  firstn k (snd (kaplan_wald g ro t xs)) = snd (kaplan_wald g ro t (firstn k xs)).
Proof. unfold kaplan_wald; cbn [snd]. cbv zeta. now rewrite firstn_map, absorb_firstn, xcumprod_firstn, firstn_map. Qed.

(* ---- the property for every test of the library ---- *)
Definition hist (c : cfg) (xs : list Q) : list Xq := snd (run_test sqrtq c xs).

Theorem hist_tail_all c xs ys k :
  firstn k xs = firstn k ys -> (k < length xs)%nat -> (k < length ys)%nat ->
  firstn k (hist c xs) = firstn k (hist c ys).
Proof.
  intros E Hx Hy. unfold hist, run_test. destruct c as [N t u ro tk]; cbn [ctest cN ct cu cro].
  destruct tk as [e|b|g|g|g|eta].
  - rewrite !alpha_hist_is. apply hist_tail; auto using alpha_terms_len, alpha_terms_firstn.
  - rewrite !betting_hist_is. apply hist_tail; auto using betting_terms_len, betting_terms_firstn.
  - destruct N as [n|]; [|reflexivity]. rewrite !kk_hist_firstn. now rewrite E.
  - rewrite !km_hist_firstn. now rewrite E.
  - rewrite !kw_hist_firstn. now rewrite E.
  - unfold wald_sprt; cbn [snd]. rewrite !alpha_hist_is. apply hist_tail; auto using alpha_terms_len, alpha_terms_firstn.
Qed.

Theorem hist_truncate_all c xs k :
  (1 <= k <= length xs)%nat ->
  firstn (k - 1) (hist c (firstn k xs)) = firstn (k - 1) (hist c xs)
  /\ (nth_error (hist c (firstn k xs)) (k - 1) = nth_error (hist c xs) (k - 1)
      \/ nth_error (hist c (firstn k xs)) (k - 1) = Some (Fin 0)).
Proof.
  intros Hk. unfold hist, run_test. destruct c as [N t u ro tk]; cbn [ctest cN ct cu cro].
  assert (Hpure : forall h : list Q -> list Xq, (forall xs k, firstn k (h xs) = h (firstn k xs)) ->
            firstn (k - 1) (h (firstn k xs)) = firstn (k - 1) (h xs)
            /\ (nth_error (h (firstn k xs)) (k - 1) = nth_error (h xs) (k - 1)
                \/ nth_error (h (firstn k xs)) (k - 1) = Some (Fin 0))).
  { intros h Hh. split.
    - rewrite <- Hh, firstn_firstn. replace (Nat.min (k - 1) k) with (k - 1)%nat by lia. reflexivity.
    - left. rewrite <- Hh. apply nth_error_firstn_lt. lia. }
  destruct tk as [e|b|g|g|g|eta].
  - rewrite !alpha_hist_is. apply hist_truncate; auto using alpha_terms_len, alpha_terms_firstn.
  - rewrite !betting_hist_is. apply hist_truncate; auto using betting_terms_len, betting_terms_firstn.
  - destruct N as [n|]; [|split; auto]. apply (Hpure (fun xs => snd (kaplan_kolmogorov g ro n t xs))). intros; apply kk_hist_firstn.
  - apply (Hpure (fun xs => snd (kaplan_markov g ro t xs))). intros; apply km_hist_firstn.
  - apply (Hpure (fun xs => snd (kaplan_wald g ro t xs))). intros; apply kw_hist_firstn.
  - unfold wald_sprt; cbn [snd]. rewrite !alpha_hist_is. apply hist_truncate; auto using alpha_terms_len, alpha_terms_firstn.
Qed.
End Instances.
