(* NNM_risk_inst.v — the risk-limit theorem instantiated for the library's tests, sampling without replacement *)
From SV Require Import NNM NNM_machines NNM_ranges NNM_spec NNM_hist NNM_wf NNM_prefix Prob NNM_risk.
Open Scope Q_scope.

Lemma existsb_ext_in {A} (f g : A -> bool) l : (forall a, In a l -> f a = g a) -> existsb f l = existsb g l.
Proof. induction l as [|a l IH]; intro H; simpl; auto. rewrite (H a) by now left. f_equal. apply IH. intros; apply H; now right. Qed.
Lemma filter_ext_in' {A} (f g : A -> bool) l : (forall a, In a l -> f a = g a) -> filter f l = filter g l.
Proof. induction l as [|a l IH]; intro H; simpl; auto. rewrite (H a) by now left. rewrite IH; auto. intros; apply H; now right. Qed.

Lemma rejectsb_ext tst1 tst2 alpha s :
  (forall k, (1 <= k <= length s)%nat -> tst1 (firstn k s) = tst2 (firstn k s)) ->
  rejectsb tst1 alpha s = rejectsb tst2 alpha s.
Proof.
  intro H. unfold rejectsb. apply existsb_ext_in. intros k Hk. apply in_seq in Hk. cbv zeta. rewrite H by lia. reflexivity.
Qed.

Definition null_pop (u t : Q) (pop : list Q) : Prop :=
  pop <> [] /\ Forall (fun x => 0 <= x <= u) pop /\ lsum pop <= qz (Z.of_nat (length pop)) * t.

Lemma null_full u t pop : null_pop u t pop -> full_null (Z.of_nat (length pop)) t u pop.
Proof. intros [_ [H1 H2]]. split; auto. Qed.
Lemma null_n u t pop : null_pop u t pop -> (1 <= Z.of_nat (length pop))%Z.
Proof. intros [H _]. destruct pop; [congruence| simpl; lia]. Qed.

Lemma firstn_sample_ok u n s k :
  Forall (fun x => 0 <= x <= u) s -> Z.of_nat (length s) = n -> (1 <= k <= length s)%nat ->
  sample_ok (Some n) u (firstn k s).
Proof.
  intros Hr Hl Hk. split; [|split].
  - intro E. pose proof (f_equal (@length Q) E) as HL. rewrite firstn_length in HL. simpl in HL. lia.
  - apply Forall_forall. intros x Hx. rewrite Forall_forall in Hr. apply Hr. eapply In_firstn_In; eauto.
  - rewrite firstn_length. lia.
Qed.

Section Instances.
Variable sqrtq : Q -> Q.
Hypothesis sqrt_nonneg : forall x, 0 <= sqrtq x.

(* ---------------- ALPHA, any shipped estimator ---------------- *)
Definition alpha_slope (u e m : Q) : Q := (e - m) / (m * (u - m)).

Theorem alpha_risk_limit e t u pop alpha :
  0 < u -> 0 < t < u -> null_pop u t pop -> 0 < alpha -> alpha < 1 ->
  let N := Z.of_nat (length pop) in
  qn (length (filter (rejectsb (alpha_mart sqrtq e (Some N) t u) alpha) (orderings (length pop) pop)))
  / qn (ffact (length pop) (length pop)) <= alpha.
Proof.
  intros Hu Ht Hpop Ha Ha1 N.
  set (em := estim_machine sqrtq e (Some N) t u).
  pose proof (risk_limit_count (alpha_factor_q u) (alpha_slope u) (clamp_eta u) em N t u
                (fun _ => True) I (fun _ _ _ => I)) as HR.
  assert (Haff : forall x e0 m, 0 < m -> m < u -> alpha_factor_q u x e0 m == 1 + (x - m) * alpha_slope u e0 m).
  { intros x e0 m H0 H1. rewrite alpha_factor_q_affine by auto. unfold alpha_slope. field. split; lra. }
  assert (Hnn : forall (g : gstate em) x, True -> 0 < g_m em N t g -> g_m em N t g < u -> 0 <= x <= u ->
                 0 <= alpha_factor_q u x (g_par (clamp_eta u) em N t g) (g_m em N t g)).
  { intros g x _ H0 H1 Hx. apply alpha_factor_q_nonneg; auto. unfold g_par. apply clamp_eta_range. lra. }
  assert (Hsl : forall (g : gstate em), True -> 0 < g_m em N t g -> g_m em N t g < u ->
                 0 <= alpha_slope u (g_par (clamp_eta u) em N t g) (g_m em N t g)).
  { intros g _ H0 H1. unfold alpha_slope. apply div_nonneg; [|nra].
    pose proof (clamp_eta_range u (m_out em (g_e em g)) (g_m em N t g) (Qlt_le_weak _ _ H1)). unfold g_par. lra. }
  specialize (HR Haff Hnn Hsl alpha pop Ha Ha1 (null_full u t pop Hpop)).
  eapply Qle_trans; [|exact HR]. apply Qle_lteq. right.
  assert (Efil : filter (rejectsb (alpha_mart sqrtq e (Some N) t u) alpha) (orderings (length pop) pop)
                 = filter (rejectsb (test (alpha_factor_q u) (clamp_eta u) em N t u) alpha) (orderings (length pop) pop)).
  { apply filter_ext_in'. intros s Hs. apply rejectsb_ext. intros k Hk.
    destruct Hpop as [_ [Hr _]].
    destruct (orderings_props (fun x => 0 <= x <= u) (length pop) pop s (le_n _) Hs) as [H1 [H2 _]].
    pose proof (firstn_sample_ok u N s k (H2 Hr) (f_equal Z.of_nat H1) Hk) as Hok.
    rewrite alpha_mart_unfold, (alpha_terms_eq_spec sqrtq e (Some N) t u _ Hu Ht Hok).
    unfold test. f_equal.
    exact (spec_terms_gterms (alpha_factor_q u) (clamp_eta u) em N t u (firstn k s) (ginit em)). }
  rewrite Efil. reflexivity.
Qed.

(* ---------------- betting ---------------- *)
Lemma map2_fst_id (l m : list Q) : length l = length m -> map2 (fun a _ => a) l m = l.
Proof. revert m; induction l as [|a l IH]; intros [|b m] H; simpl in *; auto; try discriminate. f_equal. apply IH. lia. Qed.

Definition bet_GI (b : bet_kind) (N : Z) (t u : Q) : gstate (bet_machine sqrtq b (Some N) t u) -> Prop :=
  match b return gstate (bet_machine sqrtq b (Some N) t u) -> Prop with
  | BFixed lam => fun _ => True
  | BAgrapa lam c0 cmax cgrow => fun g => fst (fst (g_e _ g)) = g_s _ g
  end.

Theorem betting_risk_limit b t u pop alpha :
  0 < u -> 0 < t < u -> bet_ok b u -> null_pop u t pop -> 0 < alpha -> alpha < 1 ->
  let N := Z.of_nat (length pop) in
  qn (length (filter (rejectsb (betting_mart sqrtq b (Some N) t u) alpha) (orderings (length pop) pop)))
  / qn (ffact (length pop) (length pop)) <= alpha.
Proof.
  intros Hu Ht Hb Hpop Ha Ha1 N.
  set (em := bet_machine sqrtq b (Some N) t u).
  assert (HGI0 : bet_GI b N t u (ginit em)) by (destruct b; cbn; auto).
  assert (HGIs : forall g x, bet_GI b N t u g -> bet_GI b N t u (gstep betting_factor_q (fun l _ => l) em N t u g x)).
  { destruct b; cbn; auto. intros g x E. now rewrite E. }
  pose proof (risk_limit_count betting_factor_q (fun l _ => l) (fun l _ => l) em N t u
                (bet_GI b N t u) HGI0 HGIs) as HR.
  assert (Haff : forall x e0 m, 0 < m -> m < u -> betting_factor_q x e0 m == 1 + (x - m) * e0).
  { intros. unfold betting_factor_q. ring. }
  (* admissible bets along the fold: 0 <= lam <= 1/m *)
  assert (Hlam : forall (g : gstate em), bet_GI b N t u g -> 0 < g_m em N t g -> g_m em N t g < u ->
                   0 <= g_par (fun l _ => l) em N t g /\ g_par (fun l _ => l) em N t g * g_m em N t g <= 1).
  { intros g HG H0 H1. unfold g_par. subst em. destruct b as [lam|lam c0 cmax cgrow]; cbn in Hb, HG.
    - match type of H0 with 0 < ?mm => set (m := mm) in * end.
      cbn [bet_machine const_machine m_out].
      destruct Hb as [Hl0 Hl1]. split; auto.
      assert (E : 1 / u * u == 1) by (field; lra).
      assert (P0 : 0 < 1 / u) by (apply div_pos; lra).
      assert (P1 : lam * m <= 1 / u * m) by nra.
      assert (P2 : 1 / u * m <= 1 / u * u) by nra. lra.
    - destruct Hb as [Hc0 [Hc1 [Hc2 Hc3]]].
      pose proof (agrapa_out_range sqrtq sqrt_nonneg (Some N) t lam c0 cmax cgrow Hc0 Hc1 Hc2 Hc3
                    (g_e _ g)) as [Hlo Hhi]. cbv zeta in Hhi.
      cbn [bet_machine] in HG, Hhi, Hlo, H0, H1 |- *.
      rewrite HG in Hhi. unfold g_m in H0, H1 |- *.
      match type of H0 with 0 < ?mm => set (m := mm) in * end.
      specialize (Hhi H0). destruct Hhi as [Hh1 Hh2].
      cbn [bet_machine agrapa_machine m_out].
      split; auto.
      assert (E : 1 / m * m == 1) by (field; lra).
      match goal with |- ?l * _ <= 1 =>
        assert (P1 : l < 1 / m) by lra; assert (P2 : l * m <= 1 / m * m) by nra end. lra. }
  assert (Hnn : forall (g : gstate em) x, bet_GI b N t u g -> 0 < g_m em N t g -> g_m em N t g < u -> 0 <= x <= u ->
                 0 <= betting_factor_q x (g_par (fun l _ => l) em N t g) (g_m em N t g)).
  { intros g x HG H0 H1 Hx. destruct (Hlam g HG H0 H1) as [Hl0 Hl1]. unfold betting_factor_q. nra. }
  assert (Hsl : forall (g : gstate em), bet_GI b N t u g -> 0 < g_m em N t g -> g_m em N t g < u ->
                 0 <= g_par (fun l _ => l) em N t g).
  { intros g HG H0 H1. apply (Hlam g HG H0 H1). }
  specialize (HR Haff Hnn Hsl alpha pop Ha Ha1 (null_full u t pop Hpop)).
  eapply Qle_trans; [|exact HR]. apply Qle_lteq. right.
  assert (Efil : filter (rejectsb (betting_mart sqrtq b (Some N) t u) alpha) (orderings (length pop) pop)
                 = filter (rejectsb (test betting_factor_q (fun l _ => l) em N t u) alpha) (orderings (length pop) pop)).
  { apply filter_ext_in'. intros s Hs. apply rejectsb_ext. intros k Hk.
    destruct Hpop as [_ [Hr _]].
    destruct (orderings_props (fun x => 0 <= x <= u) (length pop) pop s (le_n _) Hs) as [H1 [H2 _]].
    pose proof (firstn_sample_ok u N s k (H2 Hr) (f_equal Z.of_nat H1) Hk) as [Hne [Hxr HxN]].
    rewrite betting_mart_unfold.
    rewrite (model_terms_spec betting_factor betting_factor_q (Some N) t u Hu Ht (fun x e m _ _ => eq_refl)
               (firstn k s) _ (0, 1%Z) (Fin 1) 1 Alive Hxr); [| cbn [snd]; lia | exact I | auto].
    unfold test. f_equal.
    rewrite <- (spec_terms_gterms betting_factor_q (fun l _ => l) em N t u (firstn k s) (ginit em)).
    cbn [ginit g_s g_T g_md g_e]. f_equal.
    unfold run_bet, run_machine. fold em. symmetry. apply map2_fst_id. rewrite !mscan_length. reflexivity. }
  rewrite Efil. reflexivity.
Qed.

(* ---------------- generalised SPRT = ALPHA with the fixed alternative ---------------- *)
Theorem sprt_risk_limit eta t u pop alpha :
  0 < u -> 0 < t < u -> null_pop u t pop -> 0 < alpha -> alpha < 1 ->
  let N := Z.of_nat (length pop) in
  qn (length (filter (rejectsb (wald_sprt sqrtq eta true (Some N) t u) alpha) (orderings (length pop) pop)))
  / qn (ffact (length pop) (length pop)) <= alpha.
Proof. intros. exact (alpha_risk_limit (EFixed eta) t u pop alpha H H0 H1 H2 H3). Qed.
End Instances.
