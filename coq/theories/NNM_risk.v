(* NNM_risk.v — C01 for sampling without replacement: the reported ALPHA / betting / SPRT p-values are
   sequentially valid under every null population.  Chain of the argument:
     reported terms = spec_terms (NNM_spec)  = gterms (a single fold over the draws, below);
     M(prefix) := exact running product, frozen once a null mean leaves (0,u);
     M >= 0 and  average over the remaining cards of M(prefix ++ [x]) <= M(prefix)  under the null;
     a reported value <= alpha < 1 forces M(prefix) >= 1/alpha for some prefix;
     Ville (Prob.v) bounds the probability of that by alpha, and pcross_count turns it into a count over orderings. *)
From SV Require Import NNM NNM_machines NNM_ranges NNM_spec NNM_hist NNM_wf NNM_prefix Prob.
Open Scope Q_scope.

Lemma qsum_lsum xs : forall a, fold_left (fun a x => Qred (a + x)) xs a == a + lsum xs.
Proof. induction xs as [|x r IH]; intro a; cbn [fold_left lsum fold_right]; [ring|]. rewrite IH, Qred_correct. fold (lsum r). ring. Qed.

Lemma In_firstn_In {A} (l : list A) k x : In x (firstn k l) -> In x l.
Proof. revert k; induction l as [|a l IH]; intros k H; destruct k; simpl in *; try contradiction. destruct H; eauto. Qed.
Lemma In_skipn_In {A} (l : list A) k x : In x (skipn k l) -> In x l.
Proof. revert k; induction l as [|a l IH]; intros k H; destruct k; simpl in *; try contradiction; eauto. Qed.

Lemma Fin_inj a b : Fin a = Fin b -> a = b.
Proof. intro H. now inversion H. Qed.

Section G.
Variables (facq : Q -> Q -> Q -> Q) (slope : Q -> Q -> Q) (eff : Q -> Q -> Q).
Variable em : machine Q.
Variables (n : Z) (t u : Q).
Hypothesis Hu : 0 < u.
Hypothesis Ht : 0 < t < u.
Hypothesis Hn : (1 <= n)%Z.

Record gstate := mkg { g_s : Q * Z; g_T : Q; g_md : mode; g_e : m_St em }.
Definition g_m (g : gstate) : Q := mu_at (Some n) t (fst (g_s g)) (snd (g_s g)).
Definition g_par (g : gstate) : Q := eff (m_out em (g_e g)) (g_m g).
Definition gstep (g : gstate) (x : Q) : gstate :=
  let md' := next_mode u (g_m g) (g_md g) in
  mkg (sj_step (g_s g) x) (next_T facq md' (g_T g) x (g_par g) (g_m g)) md' (m_step em (g_e g) x).
Definition ginit : gstate := mkg (0, 1%Z) 1 Alive (m_init em).
Fixpoint gterms (g : gstate) (xs : list Q) : list Xq :=
  match xs with
  | [] => []
  | x :: r => let g' := gstep g x in spec_entry u (g_m g) (g_T g') (g_md g') :: gterms g' r
  end.

Lemma spec_terms_gterms xs : forall g,
  spec_terms facq (Some n) t u (g_s g) (g_T g) (g_md g) xs
     (map2 eff (mscan (m_out em) (m_step em) (g_e g) xs) (mscan (mu_out (Some n) t) sj_step (g_s g) xs))
  = gterms g xs.
Proof.
  induction xs as [|x r IH]; intro g; [reflexivity|].
  cbn [mscan map2 spec_terms gterms]. f_equal. exact (IH (gstep g x)).
Qed.

Definition gfold (p : list Q) : gstate := fold_left gstep p ginit.
Definition M (p : list Q) : Q := g_T (gfold p).

Lemma gfold_snoc p x : gfold (p ++ [x]) = gstep (gfold p) x.
Proof. unfold gfold. now rewrite fold_left_app. Qed.

Lemma gs_fold p : forall g, fst (g_s (fold_left gstep p g)) == fst (g_s g) + lsum p
                            /\ snd (g_s (fold_left gstep p g)) = (snd (g_s g) + Z.of_nat (length p))%Z.
Proof.
  induction p as [|x r IH]; intro g; cbn [fold_left lsum fold_right length].
  - split; [ring|lia].
  - destruct (IH (gstep g x)) as [H1 H2]. rewrite H1, H2. unfold gstep, sj_step; cbn [g_s fst snd].
    rewrite Qred_correct. fold (lsum r). split; [ring|lia].
Qed.
Lemma gs_gfold p : fst (g_s (gfold p)) == lsum p /\ snd (g_s (gfold p)) = (1 + Z.of_nat (length p))%Z.
Proof. destruct (gs_fold p ginit) as [H1 H2]. unfold gfold. rewrite H1, H2. cbn. split; [ring|reflexivity]. Qed.

(* entries of gterms are entries of states along the fold *)
Lemma gterms_In xs : forall g tm, In tm (gterms g xs) ->
  exists j, (j < length xs)%nat /\
    let gj := fold_left gstep (firstn j xs) g in
    let gj' := fold_left gstep (firstn (S j) xs) g in
    tm = spec_entry u (g_m gj) (g_T gj') (g_md gj').
Proof.
  induction xs as [|x r IH]; intros g tm H; [contradiction|].
  cbn [gterms] in H. destruct H as [E|H].
  - exists 0%nat. split; [simpl; lia|]. cbn [firstn fold_left]. now rewrite <- E.
  - destruct (IH (gstep g x) tm H) as [j [Hj E]]. exists (S j). split; [simpl; lia|]. exact E.
Qed.

(* ---- hypotheses on the factor ---- *)
Variable GI : gstate -> Prop.
Hypothesis GI_init : GI ginit.
Hypothesis GI_step : forall g x, GI g -> GI (gstep g x).
Hypothesis fac_affine : forall x e m, 0 < m -> m < u -> facq x e m == 1 + (x - m) * slope e m.
Hypothesis fac_nonneg : forall g x, GI g -> 0 < g_m g -> g_m g < u -> 0 <= x <= u -> 0 <= facq x (g_par g) (g_m g).
Hypothesis slope_nonneg : forall g, GI g -> 0 < g_m g -> g_m g < u -> 0 <= slope (g_par g) (g_m g).

Definition J (g : gstate) : Prop := GI g /\ 0 <= g_T g.
Lemma J_step g x : J g -> 0 <= x <= u -> J (gstep g x).
Proof.
  intros [HG HT] Hx. split; [now apply GI_step|].
  unfold gstep; cbn [g_T]. unfold next_T. destruct (next_mode u (g_m g) (g_md g)) eqn:E; auto.
  apply next_mode_alive in E. destruct E as [_ [H0 H1]]. rewrite Qred_correct.
  pose proof (fac_nonneg g x HG H0 H1 Hx). nra.
Qed.
Lemma J_fold p : forall g, J g -> Forall (fun x => 0 <= x <= u) p -> J (fold_left gstep p g).
Proof.
  induction p as [|x r IH]; intros g Hg Hp; [exact Hg|]. inversion Hp as [|x0 l0 Hx Hr]; subst.
  cbn [fold_left]. apply IH; auto. now apply J_step.
Qed.
Lemma J_gfold p : Forall (fun x => 0 <= x <= u) p -> J (gfold p).
Proof. intro H. apply J_fold; auto. split; [exact GI_init| cbn; lra]. Qed.

(* ---- the null: prefix p drawn, cards rem remaining, all in [0,u], total at most n t ---- *)
Definition RInv (p rem : list Q) : Prop :=
  Forall (fun x => 0 <= x <= u) p /\ Forall (fun x => 0 <= x <= u) rem
  /\ lsum p + lsum rem <= qz n * t /\ Z.of_nat (length p + length rem) = n.

Lemma Forall_nth_range rem i : Forall (fun x => 0 <= x <= u) rem -> (i < length rem)%nat -> 0 <= nth i rem 0 <= u.
Proof. intros H Hi. rewrite Forall_forall in H. apply H. now apply nth_In. Qed.
Lemma Forall_remove_nth rem i : Forall (fun x => 0 <= x <= u) rem -> Forall (fun x => 0 <= x <= u) (remove_nth i rem).
Proof. intro H. rewrite Forall_forall in *. intros x Hx. apply H. eapply In_remove_nth; eauto. Qed.
Lemma lsum_nonneg l : Forall (fun x => 0 <= x <= u) l -> 0 <= lsum l.
Proof. induction 1 as [|x l Hx _ IH]; cbn [lsum fold_right]; [lra|]. fold (lsum l). lra. Qed.

Lemma RInv_step p rem i : RInv p rem -> (i < length rem)%nat -> RInv (p ++ [nth i rem 0]) (remove_nth i rem).
Proof.
  intros [Hp [Hr [Hs Hl]]] Hi. unfold RInv. repeat split.
  - apply Forall_app. split; auto. constructor; [|constructor]. now apply Forall_nth_range.
  - now apply Forall_remove_nth.
  - rewrite lsum_app. cbn [lsum fold_right]. pose proof (lsum_remove_nth rem i Hi). lra.
  - rewrite app_length, remove_nth_length by auto. simpl. lia.
Qed.

Lemma M_nonneg p rem : RInv p rem -> 0 <= M p.
Proof. intros [Hp _]. unfold M. apply J_gfold. exact Hp. Qed.

(* position after p: j = |p|+1 <= n while cards remain; |rem| * m = n t - lsum p *)
Lemma m_after p rem : RInv p rem -> rem <> [] ->
  qn (length rem) * g_m (gfold p) == qz n * t - lsum p.
Proof.
  intros [Hp [Hr [Hs Hl]]] Hne. destruct (gs_gfold p) as [HS Hj].
  unfold g_m. set (g := gfold p) in *.
  assert (Hjn : (snd (g_s g) <= n)%Z). { rewrite Hj. destruct rem; [congruence|]. simpl in Hl. lia. }
  destruct (mu_at_some n t (fst (g_s g)) (snd (g_s g)) Hjn) as [Hdn Hm].
  assert (Edn : qz n - qz (snd (g_s g)) + 1 == qn (length rem)).
  { rewrite qz_sub, Hj. unfold qz, qn. f_equal. rewrite <- Hl. rewrite Nat2Z.inj_add.
    assert (E : (Z.of_nat (length p) + Z.of_nat (length rem) - (1 + Z.of_nat (length p)) + 1 = Z.of_nat (length rem))%Z) by lia.
    now rewrite E. }
  rewrite <- Edn, Qmult_comm, Hm, HS. reflexivity.
Qed.

Lemma M_super p rem : RInv p rem -> rem <> [] ->
  lsum (map (fun i => M (p ++ [nth i rem 0])) (seq 0 (length rem))) <= qn (length rem) * M p.
Proof.
  intros HR Hne. pose proof HR as [Hp [Hr [Hs Hl]]].
  pose proof (J_gfold p Hp) as [HG HT]. pose proof (m_after p rem HR Hne) as Hm.
  unfold M in *. set (g := gfold p) in *.
  assert (Estep : forall x, g_T (gfold (p ++ [x])) = next_T facq (next_mode u (g_m g) (g_md g)) (g_T g) x (g_par g) (g_m g)).
  { intro x. rewrite gfold_snoc. reflexivity. }
  destruct (next_mode u (g_m g) (g_md g)) eqn:E.
  - apply next_mode_alive in E. destruct E as [_ [H0 H1]].
    pose proof (slope_nonneg g HG H0 H1) as Hc. set (c := slope (g_par g) (g_m g)) in *.
    assert (Hterm : lsum (map (fun i => g_T (gfold (p ++ [nth i rem 0]))) (seq 0 (length rem)))
                    == lsum (map (fun i => g_T g + (g_T g * c) * (nth i rem 0 - g_m g)) (seq 0 (length rem)))).
    { apply lsum_eq_pointwise. intros i Hi. rewrite Estep. unfold next_T. rewrite Qred_correct.
      rewrite (fac_affine _ _ _ H0 H1). fold c. ring. }
    rewrite Hterm.
    rewrite (lsum_plus (fun _ => g_T g) (fun i => (g_T g * c) * (nth i rem 0 - g_m g))).
    rewrite lsum_const, seq_length.
    assert (E2 : lsum (map (fun i => g_T g * c * (nth i rem 0 - g_m g)) (seq 0 (length rem)))
                 == (g_T g * c) * (lsum rem - qn (length rem) * g_m g)).
    { assert (G : forall l, lsum (map (fun i => g_T g * c * (nth i rem 0 - g_m g)) l)
                            == g_T g * c * (lsum (map (fun i => nth i rem 0) l) - qn (length l) * g_m g)).
      { induction l as [|i l IHl]; [cbn; unfold qn; simpl; ring|].
        cbn [map lsum fold_right length].
        fold (lsum (map (fun i => g_T g * c * (nth i rem 0 - g_m g)) l)).
        fold (lsum (map (fun i => nth i rem 0) l)). rewrite IHl, qn_S. ring. }
      rewrite G, seq_length, lsum_nth_seq. reflexivity. }
    rewrite E2, Hm.
    assert (0 <= g_T g * c) by nra. nra.
  - assert (Hterm : lsum (map (fun i => g_T (gfold (p ++ [nth i rem 0]))) (seq 0 (length rem)))
                    == lsum (map (fun _ => g_T g) (seq 0 (length rem)))).
    { apply lsum_eq_pointwise. intros i Hi. rewrite Estep. reflexivity. }
    rewrite Hterm, lsum_const, seq_length. lra.
  - assert (Hterm : lsum (map (fun i => g_T (gfold (p ++ [nth i rem 0]))) (seq 0 (length rem)))
                    == lsum (map (fun _ => g_T g) (seq 0 (length rem)))).
    { apply lsum_eq_pointwise. intros i Hi. rewrite Estep. reflexivity. }
    rewrite Hterm, lsum_const, seq_length. lra.
Qed.

(* ---- Ville for M ---- *)
Theorem M_ville alpha pop :
  0 < alpha -> RInv [] pop ->
  forall k, pcross M (1 / alpha) k [] pop <= alpha.
Proof.
  intros Ha HR k.
  assert (Hthr : 0 < 1 / alpha) by (apply div_pos; lra).
  pose proof (ville M (1 / alpha) RInv RInv_step M_nonneg M_super k [] pop HR) as HV.
  assert (EM : M [] == 1) by reflexivity. rewrite EM in HV.
  assert (E : pcross M (1 / alpha) k [] pop * (1 / alpha) == pcross M (1 / alpha) k [] pop / alpha) by (field; lra).
  rewrite E in HV.
  assert (E2 : pcross M (1 / alpha) k [] pop == pcross M (1 / alpha) k [] pop / alpha * alpha) by (field; lra).
  rewrite E2. nra.
Qed.

(* ---- a reported value <= alpha < 1 forces M >= 1/alpha at some prefix ---- *)
Definition test (xs : list Q) : Xq * list Xq := finish_terms (Some n) t xs (gterms ginit xs).

Lemma gterms_good xs : forall g, J g -> Forall (fun x => 0 <= x <= u) xs -> Forall good_term (gterms g xs).
Proof.
  induction xs as [|x r IH]; intros g Hg Hx; [constructor|]. inversion Hx as [|x0 l0 Hx0 Hr]; subst.
  cbn [gterms]. pose proof (J_step g x Hg Hx0) as Hg'. constructor; [|now apply IH].
  apply spec_entry_good. apply Hg'.
Qed.
Lemma gterms_length xs : forall g, length (gterms g xs) = length xs.
Proof. induction xs as [|x r IH]; intro g; simpl; auto. Qed.

Lemma lsum_firstn_le l k : Forall (fun x => 0 <= x <= u) l -> lsum (firstn k l) <= lsum l.
Proof.
  revert k; induction l as [|x l IH]; intros k H; destruct k; cbn [firstn]; try (cbn; lra).
  - apply lsum_nonneg. exact H.
  - inversion H as [|x0 l0 Hx Hl]; subst. cbn [lsum fold_right]. fold (lsum (firstn k l)). fold (lsum l). specialize (IH k Hl). lra.
Qed.
Lemma lsum_firstn_skipn l k : lsum (firstn k l) + lsum (skipn k l) == lsum l.
Proof. rewrite <- lsum_app, firstn_skipn. reflexivity. Qed.

Definition full_null (s : list Q) : Prop :=
  Forall (fun x => 0 <= x <= u) s /\ lsum s <= qz n * t /\ Z.of_nat (length s) = n.

Lemma RInv_split s j : full_null s -> RInv (firstn j s) (skipn j s).
Proof.
  intros [Hr [Hs Hl]]. unfold RInv. repeat split.
  - apply Forall_forall. intros x Hx. rewrite Forall_forall in Hr. apply Hr. eapply In_firstn_In; eauto.
  - apply Forall_forall. intros x Hx. rewrite Forall_forall in Hr. apply Hr. eapply In_skipn_In; eauto.
  - rewrite lsum_firstn_skipn. exact Hs.
  - rewrite <- app_length, firstn_skipn. exact Hl.
Qed.

Lemma pv_le_alpha tm alpha : 0 < alpha -> alpha < 1 -> good_term tm -> xle (pv tm) (Fin alpha) = true ->
  tm = PInf \/ exists q, tm = Fin q /\ 1 / alpha <= q.
Proof.
  intros Ha Ha1 [E|[q [E Hq]]] H; [now left|]. right. exists q. split; auto. subst tm.
  unfold pv, xinv in H. cbn [xdiv] in H.
  assert (Eq : Qeq_bool q 0 = false) by (apply Qeq_bool_false; lra). rewrite Eq in H.
  cbn [xmin_np xle] in H. destruct (Qle_bool 1 (1 / q)) eqn:E1; cbn [xle] in H; apply Qle_bool_iff in H; [lra|].
  apply Qle_shift_div_r; auto.
  assert (E2 : 1 / q * q == 1) by (field; lra).
  assert (1 / q * q <= alpha * q) by nra. lra.
Qed.

Theorem reject_crosses alpha s k h :
  0 < alpha -> alpha < 1 -> full_null s -> (1 <= k <= length s)%nat ->
  In h (fst (test (firstn k s)) :: snd (test (firstn k s))) -> xle h (Fin alpha) = true ->
  crosses M (1 / alpha) [] s = true.
Proof.
  intros Ha Ha1 Hs Hk Hin Hle. pose proof Hs as [Hr [Hsum Hlen]].
  set (xs := firstn k s) in *.
  assert (Hxr : Forall (fun x => 0 <= x <= u) xs).
  { apply Forall_forall. intros x Hx. rewrite Forall_forall in Hr. apply Hr. eapply In_firstn_In; eauto. }
  assert (Hxl : length xs = k) by (unfold xs; rewrite firstn_length; lia).
  set (terms := gterms ginit xs).
  assert (Hg : Forall good_term terms) by (apply gterms_good; auto; split; [exact GI_init| cbn; lra]).
  assert (Hne : terms <> []). { intro E. pose proof (gterms_length xs ginit) as HL. fold terms in HL. rewrite E, Hxl in HL. simpl in HL. lia. }
  destruct (finish_terms_wellformed (Some n) t xs terms Hne Hg) as [_ [_ [_ [Hfst _]]]].
  fold (test xs) in Hfst.
  assert (Hin' : In h (snd (test xs))) by (destruct Hin as [E|Hin]; [now rewrite <- E|exact Hin]).
  (* the last-entry clamp cannot fire under the null *)
  assert (Hst : stot_exceeds (Some n) t xs = false).
  { unfold stot_exceeds. apply Qlt_bool_false. unfold qsum. rewrite qsum_lsum.
    pose proof (lsum_firstn_le s k Hr). fold xs in H. lra. }
  unfold test, finish_terms in Hin'. rewrite Hst in Hin'. cbn [snd] in Hin'. fold pv in Hin'. fold terms in Hin'.
  apply in_map_iff in Hin'. destruct Hin' as [tm [Eh Htm]]. subst h.
  assert (Hgt : good_term tm) by (rewrite Forall_forall in Hg; auto).
  destruct (gterms_In xs ginit tm Htm) as [j [Hj Etm]]. cbv zeta in Etm.
  fold (gfold (firstn j xs)) in Etm. fold (gfold (firstn (S j) xs)) in Etm.
  assert (Ej : firstn j xs = firstn j s) by (unfold xs; rewrite firstn_firstn; f_equal; lia).
  assert (Ej' : firstn (S j) xs = firstn (S j) s) by (unfold xs; rewrite firstn_firstn; f_equal; lia).
  rewrite Ej, Ej' in Etm.
  (* under the null the null mean is never negative *)
  assert (Hm0 : 0 <= g_m (gfold (firstn j s))).
  { pose proof (RInv_split s j Hs) as HR.
    assert (Hrem : skipn j s <> []). { intro E. pose proof (f_equal (@length Q) E) as HL. rewrite skipn_length in HL. simpl in HL. lia. }
    pose proof (m_after _ _ HR Hrem) as Hm. destruct HR as [_ [Hrr [Hss _]]].
    pose proof (lsum_nonneg _ Hrr).
    assert (0 < qn (length (skipn j s))). { apply qn_pos. destruct (skipn j s); [congruence|simpl; lia]. }
    nra. }
  destruct (pv_le_alpha tm alpha Ha Ha1 Hgt Hle) as [E|[q [E Hq]]].
  - (* +inf would need a negative null mean *)
    exfalso. rewrite Etm in E. unfold spec_entry in E.
    destruct (g_md (gfold (firstn (S j) s))).
    + destruct (band u (g_m (gfold (firstn j s)))); [discriminate|].
      destruct (isclose_q 0 (g_T (gfold (firstn (S j) s))) rtol_default atol_np); discriminate.
    + destruct (Qlt_bool (g_m (gfold (firstn j s))) 0) eqn:El; [|discriminate].
      apply Qlt_bool_iff in El. lra.
    + discriminate.
  - apply (crosses_firstn M (1 / alpha) s [] (S j)). rewrite app_nil_l. apply Qle_bool_iff.
    rewrite Etm in E. unfold spec_entry in E. unfold M.
    destruct (g_md (gfold (firstn (S j) s))).
    + destruct (band u (g_m (gfold (firstn j s)))); [apply Fin_inj in E; rewrite <- E in Hq; exfalso; assert (1 < 1 / alpha) by (apply Qlt_shift_div_l; lra); lra|].
      destruct (isclose_q 0 (g_T (gfold (firstn (S j) s))) rtol_default atol_np);
        [apply Fin_inj in E; rewrite <- E in Hq; exfalso; assert (1 < 1 / alpha) by (apply Qlt_shift_div_l; lra); lra|].
      apply Fin_inj in E. rewrite E. exact Hq.
    + destruct (Qlt_bool (g_m (gfold (firstn j s))) 0); [discriminate|].
      apply Fin_inj in E; rewrite <- E in Hq; exfalso; assert (1 < 1 / alpha) by (apply Qlt_shift_div_l; lra); lra.
    + apply Fin_inj in E; rewrite <- E in Hq; exfalso; assert (1 < 1 / alpha) by (apply Qlt_shift_div_l; lra); lra.
Qed.

(* the rejection event of the audit on an ordering s: some prefix of s gives an overall p-value or a history
   entry at most alpha *)
Definition rejectsb (tst : list Q -> Xq * list Xq) (alpha : Q) (s : list Q) : bool :=
  existsb (fun k => let r := tst (firstn k s) in existsb (fun h => xle h (Fin alpha)) (fst r :: snd r)) (seq 1 (length s)).

Theorem risk_limit_count alpha pop :
  0 < alpha -> alpha < 1 -> full_null pop ->
  qn (length (filter (rejectsb test alpha) (orderings (length pop) pop))) / qn (ffact (length pop) (length pop)) <= alpha.
Proof.
  intros Ha Ha1 Hpop. pose proof Hpop as [Hr [Hs Hl]].
  assert (HR : RInv [] pop) by (unfold RInv; repeat split; auto; cbn; lra).
  pose proof (M_ville alpha pop Ha HR (length pop)) as HV.
  rewrite pcross_count in HV by lia.
  assert (Hf : 0 < qn (ffact (length pop) (length pop))) by (apply qn_pos, ffact_pos; lia).
  eapply Qle_trans; [|exact HV].
  unfold Qdiv. apply Qmult_le_compat_r; [| apply Qlt_le_weak, Qinv_lt_0_compat; exact Hf].
  unfold qn. rewrite <- Zle_Qle. apply Nat2Z.inj_le.
  unfold count_cross. apply filter_length_le. intros s Hin Hrej.
  destruct (orderings_props (fun x => 0 <= x <= u) (length pop) pop s (le_n _) Hin) as [H1 [H2 H3]].
  assert (Hfull : full_null s).
  { split; [now apply H2|]. split; [rewrite H3 by reflexivity; exact Hs| rewrite H1; exact Hl]. }
  unfold rejectsb in Hrej. apply existsb_exists in Hrej. destruct Hrej as [k [Hk Hex]].
  apply in_seq in Hk. cbv zeta in Hex. apply existsb_exists in Hex. destruct Hex as [h [Hh Hle]].
  eapply reject_crosses; eauto. lia.
Qed.
End G.
