(* NNM_mono_kaplan.v — C10 (last clause) for the tests whose overall value is the smallest history entry because the
   sample is declared to be in random order: Kaplan-Wald, Kaplan-Markov, Kaplan-Kolmogorov and the generalised SPRT.
   Appending observations never increases the overall p-value, so a confirmed assertion stays confirmed. *)
From SV Require Import NNM NNM_machines NNM_ranges NNM_spec NNM_hist NNM_wf NNM_prefix NNM_defs NNM_kaplan NNM_mono.
Open Scope Q_scope.

Lemma In_firstn_In' {A} (l : list A) k x : In x (firstn k l) -> In x l.
Proof. revert l. induction k as [|k IH]; intros [|a l] H; simpl in *; try contradiction. destruct H; [now left|right; now apply IH]. Qed.
Lemma xle_xeqv_r a b h : xle a h = true -> xeqv b h -> xle a b = true.
Proof.
  destruct a, b, h; simpl; try contradiction; try discriminate; auto.
  intros H E. apply Qle_bool_iff in H. apply Qle_bool_iff. lra.
Qed.

Section KaplanMono.
Variable test : list Q -> Xq * list Xq.
Variable ok : list Q -> Prop.
Hypothesis hist_firstn : forall xs k, firstn k (snd (test xs)) = snd (test (firstn k xs)).
Hypothesis wf : forall xs, ok xs -> kaplan_wf true (test xs) (length xs).

Theorem min_pvalue_antitone xs ys : ok xs -> ok (xs ++ ys) ->
  xle (fst (test (xs ++ ys))) (fst (test xs)) = true.
Proof.
  intros Hx Hxy.
  destruct (wf xs Hx) as [_ [_ [_ [[h [Hin Heq]] _]]]].
  destruct (wf _ Hxy) as [_ [_ [_ [_ Hle]]]].
  assert (Hin2 : In h (snd (test (xs ++ ys)))).
  { pose proof (hist_firstn (xs ++ ys) (length xs)) as Hf.
    rewrite firstn_app, firstn_all, Nat.sub_diag in Hf. cbn [firstn] in Hf. rewrite app_nil_r in Hf.
    rewrite <- Hf in Hin. eapply In_firstn_In'; eauto. }
  rewrite Forall_forall in Hle. exact (xle_xeqv_r _ _ _ (Hle h Hin2) Heq).
Qed.
End KaplanMono.

Theorem kaplan_wald_pvalue_antitone g t xs ys :
  0 < t -> 0 <= g <= 1 -> xs <> [] -> Forall (fun x => 0 <= x) (xs ++ ys) ->
  xle (fst (kaplan_wald g true t (xs ++ ys))) (fst (kaplan_wald g true t xs)) = true.
Proof.
  intros Ht Hg Hne Hall.
  apply (min_pvalue_antitone (kaplan_wald g true t) (fun zs => zs <> [] /\ Forall (fun x => 0 <= x) zs)).
  - intros zs k. apply kw_hist_firstn.
  - intros zs [H1 H2]. now apply kaplan_wald_wellformed.
  - split; auto. apply Forall_app in Hall. tauto.
  - split; auto. destruct xs; [congruence|discriminate].
Qed.
Theorem kaplan_markov_pvalue_antitone g t xs ys :
  0 < t -> 0 <= g -> xs <> [] -> Forall (fun x => 0 <= x) (xs ++ ys) ->
  xle (fst (kaplan_markov g true t (xs ++ ys))) (fst (kaplan_markov g true t xs)) = true.
Proof.
  intros Ht Hg Hne Hall.
  apply (min_pvalue_antitone (kaplan_markov g true t) (fun zs => zs <> [] /\ Forall (fun x => 0 <= x) zs)).
  - intros zs k. apply km_hist_firstn.
  - intros zs [H1 H2]. now apply kaplan_markov_wellformed.
  - split; auto. apply Forall_app in Hall. tauto.
  - split; auto. destruct xs; [congruence|discriminate].
Qed.
Theorem kaplan_kolmogorov_pvalue_antitone g n t xs ys :
  0 <= g -> xs <> [] -> Forall (fun x => 0 <= x) (xs ++ ys) -> (Z.of_nat (length (xs ++ ys)) <= n)%Z ->
  xle (fst (kaplan_kolmogorov g true n t (xs ++ ys))) (fst (kaplan_kolmogorov g true n t xs)) = true.
Proof.
  intros Hg Hne Hall HN.
  apply (min_pvalue_antitone (kaplan_kolmogorov g true n t)
           (fun zs => zs <> [] /\ Forall (fun x => 0 <= x) zs /\ (Z.of_nat (length zs) <= n)%Z)).
  - intros zs k. apply kk_hist_firstn.
  - intros zs [H1 [H2 H3]]. now apply kaplan_kolmogorov_wellformed.
  - split; auto. apply Forall_app in Hall. split; [tauto|]. rewrite app_length in HN. lia.
  - split; [destruct xs; [congruence|discriminate]|]. split; auto.
Qed.
(* the SPRT with random_order reports ALPHA's overall value with the fixed alternative *)
Theorem sprt_pvalue_antitone sqrtq eta N t u xs ys :
  0 < u -> 0 < t < u -> sample_ok N u xs -> sample_ok N u (xs ++ ys) ->
  xle (fst (wald_sprt sqrtq eta true N t u (xs ++ ys))) (fst (wald_sprt sqrtq eta true N t u xs)) = true.
Proof. intros. unfold wald_sprt. cbn [fst]. now apply alpha_pvalue_antitone. Qed.
