(* Manifest_proofs.v — lemmas about the model in Manifest.v (property C17).  All by induction, for every list of
   batch sizes / every sample; stdlib only. *)
From Coq Require Import ZArith List Bool Lia Permutation.
From SV Require Import Manifest.
Import ListNotations.
Open Scope Z_scope.

Definition nonneg (l : list Z) : Prop := Forall (fun n => 0 <= n) l.
(* number of cards in the batches before batch b *)
Definition before (sizes : list Z) (b : nat) : Z := zsum (firstn b sizes).

(* ---------------------------------------------------------------- sums and prefix sums *)
Lemma zsum_app : forall a b, zsum (a ++ b) = zsum a + zsum b.
Proof. induction a as [|x a IH]; intros b; simpl; [lia | rewrite IH; lia]. Qed.

Lemma zsum_nonneg : forall l, nonneg l -> 0 <= zsum l.
Proof. induction 1 as [|x l Hx Hl IH]; simpl; lia. Qed.

Lemma nonneg_firstn : forall n l, nonneg l -> nonneg (firstn n l).
Proof.
  induction n as [|n IH]; intros l H; simpl; [constructor|].
  destruct l as [|x l]; [constructor|]. inversion H; subst. constructor; auto. apply IH; auto.
Qed.

Lemma before_S : forall sizes b, (b < length sizes)%nat -> before sizes (S b) = before sizes b + nth b sizes 0.
Proof.
  unfold before. induction sizes as [|x r IH]; intros b Hb; simpl in *; [lia|].
  destruct b as [|b]; simpl; [lia|]. rewrite IH by lia. destruct b; simpl; lia.
Qed.

Lemma before_mono : forall sizes, nonneg sizes -> forall a b, (a <= b)%nat -> before sizes a <= before sizes b.
Proof.
  unfold before. induction sizes as [|x r IH]; intros Hn a b Hab.
  - rewrite !firstn_nil. lia.
  - inversion Hn; subst. destruct a as [|a]; destruct b as [|b]; simpl; try lia.
    + assert (0 <= zsum (firstn b r)) by (apply zsum_nonneg, nonneg_firstn; auto). lia.
    + assert (zsum (firstn a r) <= zsum (firstn b r)) by (apply IH; auto; lia). lia.
Qed.

Lemma before_le_total : forall sizes, nonneg sizes -> forall b, before sizes b <= zsum sizes.
Proof.
  intros sizes Hn b. destruct (Nat.le_gt_cases b (length sizes)) as [H|H].
  - replace (zsum sizes) with (before sizes (length sizes)) by (unfold before; rewrite firstn_all; auto).
    apply before_mono; auto.
  - unfold before. rewrite firstn_all2 by lia. lia.
Qed.

Lemma before_0 : forall sizes, before sizes 0 = 0.
Proof. reflexivity. Qed.

(* ---------------------------------------------------------------- cumulative counts *)
Lemma cumsum_from_length : forall l acc, length (cumsum_from acc l) = length l.
Proof. induction l as [|x l IH]; intros acc; simpl; auto. Qed.

Lemma cumsum_length : forall l, length (cumsum l) = length l.
Proof. intros; apply cumsum_from_length. Qed.

(* lookup[i] = acc + cards in the first i batches *)
Lemma nth_lookup : forall sizes acc i, (i <= length sizes)%nat ->
  nth i (acc :: cumsum_from acc sizes) 0 = acc + before sizes i.
Proof.
  unfold before. induction sizes as [|x r IH]; intros acc i Hi.
  - simpl in Hi. assert (i = 0)%nat by lia. subst. simpl. lia.
  - destruct i as [|i]; [simpl; lia|]. simpl in Hi.
    change (nth (S i) (acc :: cumsum_from acc (x :: r)) 0)
      with (nth i ((acc + x) :: cumsum_from (acc + x) r) 0).
    rewrite (IH (acc + x) i) by lia. simpl. lia.
Qed.

Lemma cumsum_from_app : forall a b acc,
  cumsum_from acc (a ++ b) = cumsum_from acc a ++ cumsum_from (acc + zsum a) b.
Proof.
  induction a as [|x a IH]; intros b acc; simpl.
  - rewrite Z.add_0_r. reflexivity.
  - rewrite IH, Z.add_assoc. reflexivity.
Qed.

(* ---------------------------------------------------------------- searchsorted on cumulative counts *)
Lemma before_cons : forall x r i, before (x :: r) (S i) = x + before r i.
Proof. reflexivity. Qed.

Lemma ssl_spec : forall sizes acc s, nonneg sizes -> acc < s -> s <= acc + zsum sizes ->
  (searchsorted_left (cumsum_from acc sizes) s < length sizes)%nat /\
  acc + before sizes (searchsorted_left (cumsum_from acc sizes) s) < s /\
  s <= acc + before sizes (S (searchsorted_left (cumsum_from acc sizes) s)).
Proof.
  induction sizes as [|x r IH]; intros acc s Hn Hlo Hhi.
  - simpl in Hhi. lia.
  - inversion Hn as [|? ? Hx Hr]; subst. simpl in Hhi. cbn [cumsum_from searchsorted_left].
    destruct (s <=? acc + x) eqn:E.
    + apply Z.leb_le in E. cbn [length]. rewrite before_cons, !before_0. lia.
    + apply Z.leb_gt in E. destruct (IH (acc + x) s Hr) as (A & B & D); try lia.
      cbn [length]. rewrite !before_cons. lia.
Qed.

Lemma ssl_beyond : forall sizes acc s, nonneg sizes -> acc + zsum sizes < s ->
  searchsorted_left (cumsum_from acc sizes) s = length sizes.
Proof.
  induction sizes as [|x r IH]; intros acc s Hn H; [reflexivity|].
  inversion Hn as [|? ? Hx Hr]; subst. simpl in H. assert (0 <= zsum r) by (apply zsum_nonneg; auto).
  cbn [cumsum_from searchsorted_left length].
  destruct (s <=? acc + x) eqn:E; [apply Z.leb_le in E; lia|]. f_equal. apply IH; auto. lia.
Qed.

Lemma ssr_spec : forall sizes acc s, nonneg sizes -> acc <= s -> s < acc + zsum sizes ->
  (searchsorted_right (cumsum_from acc sizes) s < length sizes)%nat /\
  acc + before sizes (searchsorted_right (cumsum_from acc sizes) s) <= s /\
  s < acc + before sizes (S (searchsorted_right (cumsum_from acc sizes) s)).
Proof.
  induction sizes as [|x r IH]; intros acc s Hn Hlo Hhi.
  - simpl in Hhi. lia.
  - inversion Hn as [|? ? Hx Hr]; subst. simpl in Hhi. cbn [cumsum_from searchsorted_right].
    destruct (s <? acc + x) eqn:E.
    + apply Z.ltb_lt in E. cbn [length]. rewrite before_cons, !before_0. lia.
    + apply Z.ltb_ge in E. destruct (IH (acc + x) s Hr) as (A & B & D); try lia.
      cbn [length]. rewrite !before_cons. lia.
Qed.

Lemma ssr_beyond : forall sizes acc s, nonneg sizes -> acc + zsum sizes <= s ->
  searchsorted_right (cumsum_from acc sizes) s = length sizes.
Proof.
  induction sizes as [|x r IH]; intros acc s Hn H; [reflexivity|].
  inversion Hn as [|? ? Hx Hr]; subst. simpl in H. assert (0 <= zsum r) by (apply zsum_nonneg; auto).
  cbn [cumsum_from searchsorted_right length].
  destruct (s <? acc + x) eqn:E; [apply Z.ltb_lt in E; lia|]. f_equal. apply IH; auto. lia.
Qed.

(* ---------------------------------------------------------------- the card lookup *)
(* first valid number and offset of the first position in a batch: Dominion 1 / 1, Hart 0 / 0 *)
Definition base (v : vendor) : Z := match v with Dominion => 1 | Hart => 0 end.
Definition valid (v : vendor) (sizes : list Z) (s : Z) : Prop := base v <= s < base v + zsum sizes.
Definition in_batch (v : vendor) (sizes : list Z) (b : nat) (k : Z) : Prop :=
  (b < length sizes)%nat /\ base v <= k < base v + nth b sizes 0.

Lemma lookup_total : forall v sizes s, nonneg sizes -> valid v sizes s ->
  exists b k, lookup_card v (cumsum sizes) s = Some (b, k) /\ in_batch v sizes b k /\ before sizes b + k = s.
Proof.
  intros v sizes s Hn Hv. unfold valid in Hv. unfold lookup_card, cumsum, in_batch, batch_num.
  destruct v; unfold base in *.
  - cbn [searchsorted_left]. destruct (s <=? 0) eqn:E; [apply Z.leb_le in E; lia|].
    destruct (ssl_spec sizes 0 s Hn) as (A & B & D); try lia.
    rewrite cumsum_from_length. apply Nat.ltb_lt in A as A'. rewrite A'.
    eexists _, _. split; [reflexivity|]. rewrite nth_lookup by lia.
    rewrite before_S in D by auto. repeat split; auto; lia.
  - cbn [searchsorted_right]. destruct (s <? 0) eqn:E; [apply Z.ltb_lt in E; lia|].
    destruct (ssr_spec sizes 0 s Hn) as (A & B & D); try lia.
    rewrite cumsum_from_length. apply Nat.ltb_lt in A as A'. rewrite A'.
    eexists _, _. split; [reflexivity|]. rewrite nth_lookup by lia.
    rewrite before_S in D by auto. repeat split; auto; lia.
Qed.

Lemma lookup_only_valid : forall v sizes s r, nonneg sizes ->
  lookup_card v (cumsum sizes) s = Some r -> valid v sizes s.
Proof.
  intros v sizes s r Hn H. unfold valid, lookup_card, cumsum, batch_num in *. destruct v; unfold base.
  - cbn [searchsorted_left] in H. destruct (s <=? 0) eqn:E; [discriminate|]. apply Z.leb_gt in E.
    destruct (Z_lt_le_dec (zsum sizes) s) as [G|G]; [|lia].
    rewrite ssl_beyond in H by (auto; lia). rewrite cumsum_from_length, Nat.ltb_irrefl in H. discriminate.
  - cbn [searchsorted_right] in H. destruct (s <? 0) eqn:E; [discriminate|]. apply Z.ltb_ge in E.
    destruct (Z_lt_le_dec s (zsum sizes)) as [G|G]; [lia|].
    rewrite ssr_beyond in H by (auto; lia). rewrite cumsum_from_length, Nat.ltb_irrefl in H. discriminate.
Qed.

(* a (batch, position) pair determines the number, and the number determines the pair *)
Lemma pair_unique : forall v sizes b1 k1 b2 k2, nonneg sizes ->
  in_batch v sizes b1 k1 -> in_batch v sizes b2 k2 -> before sizes b1 + k1 = before sizes b2 + k2 ->
  b1 = b2 /\ k1 = k2.
Proof.
  intros v sizes b1 k1 b2 k2 Hn [L1 R1] [L2 R2] E.
  assert (b1 = b2).
  { destruct (Nat.lt_trichotomy b1 b2) as [H|[H|H]]; auto; exfalso.
    - assert (before sizes (S b1) <= before sizes b2) by (apply before_mono; auto; lia).
      rewrite before_S in H0 by auto. lia.
    - assert (before sizes (S b2) <= before sizes b1) by (apply before_mono; auto; lia).
      rewrite before_S in H0 by auto. lia. }
  subst. split; auto. lia.
Qed.

Lemma lookup_onto : forall v sizes b k, nonneg sizes -> in_batch v sizes b k ->
  lookup_card v (cumsum sizes) (before sizes b + k) = Some (b, k).
Proof.
  intros v sizes b k Hn Hb. pose proof Hb as [L R].
  assert (Hv : valid v sizes (before sizes b + k)).
  { unfold valid. assert (0 <= before sizes b) by (apply zsum_nonneg, nonneg_firstn; auto).
    assert (before sizes (S b) <= zsum sizes) by (apply before_le_total; auto).
    rewrite before_S in H0 by auto. lia. }
  destruct (lookup_total v sizes _ Hn Hv) as (b' & k' & E & Hb' & S').
  destruct (pair_unique v sizes b' k' b k Hn Hb' Hb S'). subst. auto.
Qed.

Lemma lookup_spec : forall v sizes s b k, nonneg sizes ->
  lookup_card v (cumsum sizes) s = Some (b, k) -> in_batch v sizes b k /\ before sizes b + k = s.
Proof.
  intros v sizes s b k Hn H. pose proof (lookup_only_valid _ _ _ _ Hn H) as Hv.
  destruct (lookup_total v sizes s Hn Hv) as (b' & k' & E & Hb' & S'). rewrite H in E. inversion E; subst. auto.
Qed.

(* the full statement of C17_lookup_* for one vendor *)
Definition lookup_bijection (v : vendor) : Prop :=
  forall sizes, nonneg sizes ->
    let cum := cumsum sizes in
    (* every valid number finds a card, inside its batch, with cum_{b-1} + k = s *)
    (forall s, valid v sizes s ->
       exists b k, lookup_card v cum s = Some (b, k) /\ in_batch v sizes b k /\ before sizes b + k = s) /\
    (* nothing else does *)
    (forall s r, lookup_card v cum s = Some r -> valid v sizes s) /\
    (* one-to-one *)
    (forall s1 s2 r, lookup_card v cum s1 = Some r -> lookup_card v cum s2 = Some r -> s1 = s2) /\
    (* onto the (batch, position) pairs *)
    (forall b k, in_batch v sizes b k -> lookup_card v cum (before sizes b + k) = Some (b, k)) /\
    (* empty batches are never selected *)
    (forall s b k, lookup_card v cum s = Some (b, k) -> 0 < nth b sizes 0).

Lemma lookup_bijection_holds : forall v, lookup_bijection v.
Proof.
  intros v sizes Hn cum. subst cum. repeat split.
  - intros s Hs. apply lookup_total; auto.
  - destruct (lookup_only_valid _ _ _ _ Hn H); auto.
  - destruct (lookup_only_valid _ _ _ _ Hn H); auto.
  - intros s1 s2 [b k] H1 H2. apply lookup_spec in H1; auto. apply lookup_spec in H2; auto. lia.
  - intros b k Hb. apply lookup_onto; auto.
  - intros s b k H. apply lookup_spec in H; auto. destruct H as [[_ R] _]. lia.
Qed.

(* ---------------------------------------------------------------- prep_manifest *)
Lemma sizes_app : forall a b, sizes (a ++ b) = sizes a ++ sizes b.
Proof. intros; unfold sizes; apply map_app. Qed.

Definition prep_statement : Prop :=
  forall v m max_cards n_cvrs,
    let total := zsum (sizes m) in
    (* refusal: manifest larger than the bound, or fewer cards than CVRs *)
    (max_cards < total \/ total < n_cvrs -> prep_manifest v m max_cards n_cvrs = Err EAssert) /\
    (* otherwise: the original batches, then (only if needed) one phantom batch; the total is exactly max_cards *)
    (n_cvrs <= total <= max_cards ->
       exists pm, prep_manifest v m max_cards n_cvrs = Ok (pm, total, max_cards - total) /\
         zsum (sizes (pm_rows pm)) = max_cards /\
         pm_cum pm = cumsum (sizes (pm_rows pm)) /\
         (total = max_cards -> pm_rows pm = m) /\
         (total < max_cards -> pm_rows pm = m ++ [phantom_row v (max_cards - total)]) /\
         (nonneg (sizes m) -> nonneg (sizes (pm_rows pm)))).

Lemma prep_holds : prep_statement.
Proof.
  intros v m mx nc total. unfold prep_manifest. fold total. split.
  - intros [H|H].
    + assert (E : (mx <? total) = true) by (apply Z.ltb_lt; lia). rewrite E. reflexivity.
    + destruct (mx <? total) eqn:E; [reflexivity|].
      assert (E2 : (total <? nc) = true) by (apply Z.ltb_lt; lia). rewrite E2. reflexivity.
  - intros [H1 H2].
    assert (E : (mx <? total) = false) by (apply Z.ltb_ge; lia). rewrite E.
    assert (E2 : (total <? nc) = false) by (apply Z.ltb_ge; lia). rewrite E2.
    destruct (total <? mx) eqn:E3.
    + apply Z.ltb_lt in E3. eexists. split; [reflexivity|]. cbn [pm_rows pm_cum].
      rewrite sizes_app, zsum_app. cbn. fold total. repeat split; try lia.
      intros Hn. apply Forall_app. split; auto. constructor; [lia|constructor].
    + apply Z.ltb_ge in E3. assert (mx = total) by lia. subst mx.
      eexists. split; [f_equal; f_equal; lia|]. cbn [pm_rows pm_cum]. repeat split; auto; try lia.
Qed.

(* ---------------------------------------------------------------- generic facts: dict, sort *)
Section DictFacts.
  Context {K V : Type} (keq : K -> K -> bool) (keq_spec : forall a b, keq a b = true <-> a = b).

  Lemma dict_set_fresh : forall (d : list (K * V)) k v,
    ~ In k (map fst d) -> dict_set keq d k v = d ++ [(k, v)].
  Proof.
    induction d as [|[k' v'] d IH]; intros k v H; simpl in *; auto.
    destruct (keq k' k) eqn:E.
    - apply keq_spec in E. subst. tauto.
    - rewrite IH; auto.
  Qed.

  Lemma fold_set_fresh : forall {P} (f : P -> K) (g : P -> V) (ps : list P) (d : list (K * V)),
    NoDup (map f ps) -> (forall p, In p ps -> ~ In (f p) (map fst d)) ->
    fold_left (fun acc p => dict_set keq acc (f p) (g p)) ps d = d ++ map (fun p => (f p, g p)) ps.
  Proof.
    intros P f g. induction ps as [|p ps IH]; intros d Hnd Hfresh; simpl.
    - rewrite app_nil_r. reflexivity.
    - inversion Hnd as [|? ? Hnotin Hnd']; subst.
      rewrite dict_set_fresh by (apply Hfresh; left; reflexivity).
      rewrite IH; auto.
      + rewrite <- app_assoc. reflexivity.
      + intros q Hq. rewrite map_app, in_app_iff. simpl. intros [A|[A|[]]].
        * apply (Hfresh q); [right; auto | auto].
        * apply Hnotin. rewrite A. apply in_map. auto.
  Qed.
End DictFacts.

Lemma cid_eqb_spec : forall a b, cid_eqb a b = true <-> a = b.
Proof.
  intros [[a1 a2] a3] [[b1 b2] b3]. unfold cid_eqb. rewrite !andb_true_iff, !Z.eqb_eq.
  split; [intros [[A B] D]; subst; auto | intros H; inversion H; auto].
Qed.

Lemma insert_by_perm : forall {A} (key : A -> Z) x l, Permutation (insert_by key x l) (x :: l).
Proof.
  intros A key x. induction l as [|y l IH]; simpl; auto.
  destruct (key x <=? key y); auto. rewrite IH. apply perm_swap.
Qed.
Lemma sort_by_perm : forall {A} (key : A -> Z) l, Permutation (sort_by key l) l.
Proof.
  intros A key. induction l as [|x l IH]; simpl; auto. rewrite insert_by_perm. auto.
Qed.

Fixpoint zseq (i : Z) (n : nat) : list Z := match n with O => [] | S n' => i :: zseq (i + 1) n' end.

(* ---------------------------------------------------------------- sample_from_manifest *)
(* p is what the loop computes for number s *)
Definition picked (v : vendor) (pm : prepared) (s : Z) (p : mpick) : Prop :=
  p_s p = s /\ exists b, lookup_card v (pm_cum pm) s = Some (b, p_pos p) /\ nth_error (pm_rows pm) b = Some (p_row p).

Lemma picks_inv : forall v pm sample i ps, picks_from v pm i sample = Ok ps ->
  Forall2 (picked v pm) sample ps /\ map p_i ps = zseq i (length sample).
Proof.
  intros v pm. induction sample as [|s rest IH]; intros i ps H; simpl in H.
  - inversion H; subst. split; [constructor | reflexivity].
  - destruct (lookup_card v (pm_cum pm) s) as [[b k]|] eqn:E; [|discriminate].
    destruct (nth_error (pm_rows pm) b) as [r|] eqn:E2; [|discriminate].
    destruct (picks_from v pm (i + 1) rest) as [ps'|] eqn:E3; [|discriminate].
    inversion H; subst. destruct (IH _ _ E3) as [A B]. split.
    + constructor; auto. split; [reflexivity|]. exists b. simpl. auto.
    + simpl. f_equal. auto.
Qed.

(* a well-formed prepared manifest: cum_cards is the running total of nonnegative sizes *)
Definition wf_prepared (pm : prepared) : Prop :=
  nonneg (sizes (pm_rows pm)) /\ pm_cum pm = cumsum (sizes (pm_rows pm)).

Lemma picks_total : forall v pm sample i, wf_prepared pm ->
  Forall (valid v (sizes (pm_rows pm))) sample -> exists ps, picks_from v pm i sample = Ok ps.
Proof.
  intros v pm sample i [Hn Hc]. revert i. induction sample as [|s rest IH]; intros i Hv; simpl.
  - eexists; reflexivity.
  - inversion Hv as [|? ? Hs Hrest]; subst.
    destruct (lookup_total v _ s Hn Hs) as (b & k & E & [Hb _] & _). rewrite Hc, E.
    unfold sizes in Hb. rewrite map_length in Hb.
    destruct (nth_error (pm_rows pm) b) as [r|] eqn:E2; [|apply nth_error_None in E2; lia].
    destruct (IH (i + 1) Hrest) as [ps' E3]. rewrite E3. eexists; reflexivity.
Qed.

Lemma picks_fail_invalid : forall v pm sample i ps, wf_prepared pm ->
  picks_from v pm i sample = Ok ps -> Forall (valid v (sizes (pm_rows pm))) sample.
Proof.
  intros v pm sample i ps [Hn Hc] H. apply picks_inv in H as [H _].
  induction H as [|s p sample ps [_ (b & E & _)] _ IH]; constructor; auto.
  rewrite Hc in E. eapply lookup_only_valid; eauto.
Qed.

Definition label (r : row) : Z * Z := (r_tab r, r_batch r).

Lemma nth_error_label_inj : forall rows b1 b2 r1 r2, NoDup (map label rows) ->
  nth_error rows b1 = Some r1 -> nth_error rows b2 = Some r2 -> label r1 = label r2 -> b1 = b2.
Proof.
  intros rows b1 b2 r1 r2 Hnd H1 H2 HL.
  rewrite NoDup_nth_error in Hnd. apply Hnd.
  - rewrite map_length. apply nth_error_Some. rewrite H1. discriminate.
  - rewrite !nth_error_map, H1, H2. simpl. f_equal. auto.
Qed.

(* distinct numbers and distinct batch labels give distinct identifiers *)
Lemma picked_ids_nodup : forall v pm sample ps, wf_prepared pm -> NoDup (map label (pm_rows pm)) ->
  NoDup sample -> Forall2 (picked v pm) sample ps -> NoDup (map pick_id ps).
Proof.
  intros v pm sample ps [Hn Hc] HL Hnd H. induction H as [|s p sample ps Hp Hrest IH]; simpl; [constructor|].
  inversion Hnd as [|? ? Hnotin Hnd']; subst. constructor; auto.
  intros Hin. apply in_map_iff in Hin as (q & Eq & Hq).
  assert (exists s', In s' sample /\ picked v pm s' q) as (s' & Hs' & Hq').
  { clear -Hrest Hq. induction Hrest as [|a b l l' Hab _ IH2]; [destruct Hq|].
    destruct Hq as [->|Hq]; [exists a; split; [left|]; auto|].
    destruct (IH2 Hq) as (s' & A & B). exists s'; split; [right|]; auto. }
  destruct Hp as [Ep (b & E & Er)]. destruct Hq' as [Eq' (b' & E' & Er')].
  unfold pick_id in Eq. inversion Eq as [[Htab Hbatch Hpos]].
  assert (b' = b) by (eapply nth_error_label_inj; eauto; unfold label; congruence).
  subst b'. rewrite Hc in E, E'. rewrite Hpos in E'.
  apply lookup_spec in E; auto. apply lookup_spec in E'; auto.
  assert (Hss : s' = s) by lia. rewrite Hss in Hs'. auto.
Qed.

Definition sfm_statement : Prop :=
  forall v pm sample, wf_prepared pm ->
    (* succeeds exactly on samples of valid numbers *)
    (Forall (valid v (sizes (pm_rows pm))) sample <-> exists out, sample_from_manifest v pm sample = Ok out) /\
    forall cards so mv, sample_from_manifest v pm sample = Ok (cards, so, mv) ->
      exists ps, Forall2 (picked v pm) sample ps /\ map p_i ps = zseq 0 (length sample) /\
        (* one card per number *)
        Permutation cards (map (card_of v) ps) /\
        (* phantom manual records: exactly the picks in a batch of the phantom tabulator, in selection order *)
        mv = map pick_id (filter (fun p => r_tab (p_row p) =? phantom_tab) ps) /\
        (* selection order and serial, keyed by identifier *)
        (NoDup sample -> NoDup (map label (pm_rows pm)) ->
           so = map (fun p => (pick_id p, (p_i p, p_s p + 1))) ps).

Lemma sfm_holds : sfm_statement.
Proof.
  intros v pm sample Hwf. split.
  - split.
    + intros Hv. destruct (picks_total v pm sample 0 Hwf Hv) as [ps E].
      unfold sample_from_manifest. rewrite E. eexists; reflexivity.
    + intros [out E]. unfold sample_from_manifest in E.
      destruct (picks_from v pm 0 sample) as [ps|] eqn:E2; [|discriminate].
      eapply picks_fail_invalid; eauto.
  - intros cards so mv E. unfold sample_from_manifest in E.
    destruct (picks_from v pm 0 sample) as [ps|] eqn:E2; [|discriminate].
    inversion E; subst. destruct (picks_inv _ _ _ _ _ E2) as [A B].
    exists ps. repeat split; auto.
    + apply sort_by_perm.
    + intros Hnd HL. unfold order_of.
      rewrite (fold_set_fresh cid_eqb cid_eqb_spec pick_id (fun p => (p_i p, p_s p + 1))); auto.
      eapply picked_ids_nodup; eauto.
Qed.

(* ---------------------------------------------------------------- phantom records <-> the appended phantom batch *)
Lemma before_app_length : forall a x, before (a ++ [x]) (length a) = zsum a.
Proof. intros. unfold before. rewrite firstn_app, Nat.sub_diag, firstn_all. simpl. rewrite app_nil_r. reflexivity. Qed.

Lemma wf_of_prep : forall v m mx nc pm mc ph, nonneg (sizes m) ->
  prep_manifest v m mx nc = Ok (pm, mc, ph) ->
  wf_prepared pm /\ mc = zsum (sizes m) /\ ph = mx - mc /\ mc <= mx /\
  (pm_rows pm = m /\ mc = mx \/ pm_rows pm = m ++ [phantom_row v (mx - mc)] /\ mc < mx).
Proof.
  intros v m mx nc pm mc ph Hn H.
  destruct (prep_holds v m mx nc) as [Hrefuse Hok].
  destruct (Z_lt_le_dec mx (zsum (sizes m))) as [A|A]; [rewrite Hrefuse in H by lia; discriminate|].
  destruct (Z_lt_le_dec (zsum (sizes m)) nc) as [B|B]; [rewrite Hrefuse in H by lia; discriminate|].
  destruct Hok as (pm' & E & Htot & Hcum & Hsame & Happ & Hnn); [lia|].
  rewrite E in H. inversion H as [[Hpm Hmc Hph]]. rewrite <- Hpm. clear H Hpm Hph.
  split; [split; auto|]. repeat split; auto.
  destruct (Z.eq_dec (zsum (sizes m)) mx) as [G|G]; [left; auto | right; split; [apply Happ|]; lia].
Qed.

Definition phantom_statement : Prop :=
  forall v m max_cards n_cvrs pm mc ph sample cards so mv,
    nonneg (sizes m) -> Forall (fun r => r_tab r <> phantom_tab) m ->
    prep_manifest v m max_cards n_cvrs = Ok (pm, mc, ph) ->
    sample_from_manifest v pm sample = Ok (cards, so, mv) ->
    (* a phantom record exactly for the numbers beyond the manifest's own mc cards, in selection order,
       with identifier phantom-1-(position in the phantom batch) *)
    mv = map (fun s => (phantom_tab, 1, s - mc)) (filter (fun s => base v + mc <=? s) sample).

Lemma phantom_pick : forall v m mx pm mc s p, nonneg (sizes m) -> Forall (fun r => r_tab r <> phantom_tab) m ->
  wf_prepared pm -> mc = zsum (sizes m) ->
  (pm_rows pm = m /\ mc = mx \/ pm_rows pm = m ++ [phantom_row v (mx - mc)] /\ mc < mx) ->
  picked v pm s p ->
  (r_tab (p_row p) =? phantom_tab) = (base v + mc <=? s) /\
  (r_tab (p_row p) = phantom_tab -> pick_id p = (phantom_tab, 1, s - mc)).
Proof.
  intros v m mx pm mc s p Hn Hnp [Hn' Hc] Hmc Hrows [Es (b & E & Er)].
  rewrite Hc in E. apply lookup_spec in E as [[Hb Hk] Hs]; auto.
  rewrite Forall_forall in Hnp.
  destruct Hrows as [[Hr _]|[Hr Hlt]].
  - (* no phantom batch *)
    rewrite Hr in *. apply nth_error_In in Er as Hin. apply Hnp in Hin.
    assert (before (sizes m) (S b) <= zsum (sizes m)) by (apply before_le_total; auto).
    rewrite before_S in H by auto.
    split; [|tauto]. apply Z.eqb_neq in Hin. rewrite Hin. symmetry. apply Z.leb_gt. lia.
  - rewrite Hr in *. rewrite sizes_app in *.
    change (sizes [phantom_row v (mx - mc)]) with [mx - mc] in *.
    rewrite app_length in Hb. simpl in Hb.
    assert (Hlen : length (sizes m) = length m) by (unfold sizes; apply map_length).
    destruct (Nat.eq_dec b (length m)) as [Hbl|Hbl].
    + subst b. rewrite nth_error_app2, Nat.sub_diag in Er by lia. simpl in Er. inversion Er as [Hrow].
      rewrite <- Hlen, before_app_length in Hs.
      rewrite <- Hlen, app_nth2, Nat.sub_diag in Hk by lia. simpl in Hk.
      unfold pick_id. rewrite <- Hrow. simpl.
      split; [|intros _; repeat f_equal; lia].
      symmetry. apply Z.leb_le. lia.
    + rewrite nth_error_app1 in Er by lia. apply nth_error_In in Er as Hin. apply Hnp in Hin.
      split; [|tauto]. apply Z.eqb_neq in Hin. rewrite Hin. symmetry. apply Z.leb_gt.
      assert (Hle : before (sizes m ++ [mx - mc]) (S b) <= before (sizes m ++ [mx - mc]) (length (sizes m)))
        by (apply before_mono; auto; lia).
      rewrite before_app_length in Hle. rewrite before_S in Hle by (rewrite app_length; simpl; lia).
      lia.
Qed.

Lemma phantom_holds : phantom_statement.
Proof.
  intros v m mx nc pm mc ph sample cards so mv Hn Hnp Hprep Hs.
  destruct (wf_of_prep _ _ _ _ _ _ _ Hn Hprep) as (Hwf & Hmc & _ & _ & Hrows).
  destruct (sfm_holds v pm sample Hwf) as [_ Hspec].
  destruct (Hspec _ _ _ Hs) as (ps & HF & _ & _ & Hmv & _). subst mv.
  clear Hs Hspec. induction HF as [|s p sample ps Hp _ IH]; [reflexivity|].
  destruct (phantom_pick v m mx pm mc s p Hn Hnp Hwf Hmc Hrows Hp) as [A B].
  simpl. rewrite A. destruct (base v + mc <=? s) eqn:G; simpl; rewrite IH; auto.
  f_equal. apply B. apply Z.eqb_eq. rewrite A. reflexivity.
Qed.

(* ---------------------------------------------------------------- sample_from_cvrs *)
Lemma map_pair_combine : forall {A B C} (f : A -> B) (g : A -> C) l,
  map (fun p => (f p, g p)) l = combine (map f l) (map g l).
Proof. induction l as [|x l IH]; simpl; [|rewrite IH]; reflexivity. Qed.

Lemma filter_map_comm : forall {A B} (f : B -> bool) (g : A -> B) l,
  filter f (map g l) = map g (filter (fun x => f (g x)) l).
Proof. induction l as [|x l IH]; simpl; auto. destruct (f (g x)); simpl; rewrite IH; reflexivity. Qed.

Lemma cvr_card_id : forall v rows c card, cvr_card v rows c = Ok card -> last card 0 = v_id c.
Proof.
  intros v rows c card H. unfold cvr_card in H. destruct v; destruct (v_phantom c).
  - inversion H; reflexivity.
  - destruct (lookuptable_get rows (v_tab c, v_batch c)) as [[cart tray]|]; inversion H; reflexivity.
  - inversion H; reflexivity.
  - destruct (find _ rows); inversion H; reflexivity.
Qed.

Lemma cpicks_inv : forall v rows cvrs sample i ps, cpicks_from v rows cvrs i sample = Ok ps ->
  Forall2 (fun s c => 0 <= s /\ nth_error cvrs (Z.to_nat s) = Some c) sample (map q_cvr ps) /\
  map q_s ps = sample /\ map q_i ps = zseq i (length sample) /\
  Forall2 (fun c card => cvr_card v rows c = Ok card /\ last card 0 = v_id c) (map q_cvr ps) (map q_card ps).
Proof.
  intros v rows cvrs. induction sample as [|s rest IH]; intros i ps H; simpl in H.
  - inversion H; subst. simpl. repeat split; constructor.
  - destruct (s <? 0) eqn:E0; [discriminate|]. apply Z.ltb_ge in E0.
    destruct (nth_error cvrs (Z.to_nat s)) as [c|] eqn:E1; [|discriminate].
    destruct (cvr_card v rows c) as [card|] eqn:E2; [|discriminate].
    destruct (cpicks_from v rows cvrs (i + 1) rest) as [ps'|] eqn:E3; [|discriminate].
    inversion H; subst. destruct (IH _ _ E3) as (A & B & D & F). simpl.
    split; [constructor; auto|]. split; [f_equal; auto|]. split; [f_equal; auto|].
    constructor; auto. split; auto. eapply cvr_card_id; eauto.
Qed.

Definition sfc_statement : Prop :=
  forall v rows cvrs sample cards so cs mv,
    sample_from_cvrs v rows cvrs sample = Ok (cards, so, cs, mv) ->
    exists cl,  (* the sampled CVRs, in selection order: cl[j] = cvr_list[sample[j]] *)
      Forall2 (fun s c => 0 <= s /\ nth_error cvrs (Z.to_nat s) = Some c) sample cl /\
      (* cvr_sample: those CVRs, that order, their identifiers *)
      cs = combine sample (map v_id cl) /\
      (* a phantom manual record exactly for the phantom CVRs, with the CVR's identifier *)
      mv = map v_id (filter v_phantom cl) /\
      (* one card per sampled CVR, carrying the CVR's identifier *)
      (exists cardl, Permutation cards cardl /\
         Forall2 (fun c card => cvr_card v rows c = Ok card /\ last card 0 = v_id c) cl cardl) /\
      (* selection order and serial by identifier *)
      (NoDup (map v_id cl) ->
         so = combine (map v_id cl) (combine (zseq 0 (length sample)) (map (fun s => s + 1) sample))).

Lemma Zeqb_spec' : forall a b : Z, (a =? b) = true <-> a = b.
Proof. intros; apply Z.eqb_eq. Qed.

Lemma sfc_holds : sfc_statement.
Proof.
  intros v rows cvrs sample cards so cs mv H. unfold sample_from_cvrs in H.
  destruct (cpicks_from v rows cvrs 0 sample) as [ps|] eqn:E; [|discriminate].
  inversion H; subst. destruct (cpicks_inv _ _ _ _ _ _ E) as (A & B & D & F).
  exists (map q_cvr ps). repeat split; auto.
  - rewrite (map_pair_combine q_s (fun p => v_id (q_cvr p))), B, map_map. reflexivity.
  - rewrite filter_map_comm, map_map. reflexivity.
  - exists (map q_card ps). split; auto. apply sort_by_perm.
  - intros Hnd. unfold corder_of. rewrite map_map in Hnd.
    rewrite (fold_set_fresh Z.eqb Zeqb_spec' (fun p => v_id (q_cvr p)) (fun p => (q_i p, q_s p + 1))); auto.
    simpl. rewrite (map_pair_combine (fun p => v_id (q_cvr p)) (fun p => (q_i p, q_s p + 1))).
    rewrite (map_pair_combine q_i (fun p => q_s p + 1)), D, map_map. f_equal. f_equal.
    rewrite <- B, map_map. reflexivity.
Qed.

(* succeeds whenever every number indexes the CVR list and every non-phantom CVR's batch is in the manifest *)
Definition has_batch (v : vendor) (rows : list row) (c : cvr) : Prop :=
  v_phantom c = true \/
  match v with
  | Dominion => exists r, In r rows /\ r_tab r = v_tab c /\ r_batch r = v_batch c
  | Hart => exists r, In r rows /\ r_batch r = v_batch c
  end.

Definition keyeq (a b : Z * Z) : bool := (fst a =? fst b) && (snd a =? snd b).
Lemma keyeq_spec : forall a b, keyeq a b = true <-> a = b.
Proof.
  intros [a1 a2] [b1 b2]. unfold keyeq. simpl. rewrite andb_true_iff, !Z.eqb_eq.
  split; [intros [A B]; subst; auto | intros H; inversion H; auto].
Qed.

Lemma dict_get_set_same : forall {V} (d : list ((Z * Z) * V)) k v, dict_get keyeq (dict_set keyeq d k v) k = Some v.
Proof.
  induction d as [|[k' v'] d IH]; intros k v; simpl.
  - assert (E : keyeq k k = true) by (apply keyeq_spec; auto). rewrite E. reflexivity.
  - destruct (keyeq k' k) eqn:E; simpl; rewrite E; auto.
Qed.
Lemma dict_get_set_keeps : forall {V} (d : list ((Z * Z) * V)) k v k',
  dict_get keyeq d k' <> None -> dict_get keyeq (dict_set keyeq d k v) k' <> None.
Proof.
  induction d as [|[k0 v0] d IH]; intros k v k' H; simpl in *; [congruence|].
  destruct (keyeq k0 k) eqn:E; simpl.
  - destruct (keyeq k0 k') eqn:E'; [discriminate | auto].
  - destruct (keyeq k0 k') eqn:E'; [discriminate | auto].
Qed.

Lemma lookuptable_has : forall rows d k,
  (dict_get keyeq d k <> None \/ exists r, In r rows /\ label r = k) ->
  dict_get keyeq (fold_left (fun d r => dict_set keyeq d (r_tab r, r_batch r) (r_cart r, r_tray r)) rows d) k <> None.
Proof.
  induction rows as [|r rows IH]; intros d k H; simpl.
  - destruct H as [H|(r & [] & _)]; auto.
  - apply IH. destruct H as [H|(r' & [Hr|Hr] & HL)].
    + left. apply dict_get_set_keeps; auto.
    + left. subst r'. unfold label in HL. rewrite HL, dict_get_set_same. discriminate.
    + right. exists r'. auto.
Qed.

Lemma cvr_card_ok : forall v rows c, has_batch v rows c -> exists card, cvr_card v rows c = Ok card.
Proof.
  intros v rows c H. unfold cvr_card. destruct v; destruct (v_phantom c) eqn:P; try (eexists; reflexivity);
    destruct H as [H|H]; try congruence.
  - destruct H as (r & Hin & Ht & Hb).
    assert (G : lookuptable_get rows (v_tab c, v_batch c) <> None).
    { apply (lookuptable_has rows [] (v_tab c, v_batch c)). right. exists r. split; auto. unfold label. congruence. }
    destruct (lookuptable_get rows (v_tab c, v_batch c)) as [[cart tray]|]; [eexists; reflexivity | congruence].
  - destruct H as (r & Hin & Hb).
    destruct (find (fun r0 => r_batch r0 =? v_batch c) rows) eqn:E; [eexists; reflexivity|].
    eapply find_none in E; eauto. simpl in E. apply Z.eqb_neq in E. congruence.
Qed.

Lemma cpicks_total : forall v rows cvrs sample i,
  Forall (fun s => 0 <= s /\ exists c, nth_error cvrs (Z.to_nat s) = Some c /\ has_batch v rows c) sample ->
  exists ps, cpicks_from v rows cvrs i sample = Ok ps.
Proof.
  intros v rows cvrs. induction sample as [|s rest IH]; intros i H; simpl; [eexists; reflexivity|].
  inversion H as [|? ? (Hs & c & Ec & Hc) Hrest]; subst.
  assert (E0 : (s <? 0) = false) by (apply Z.ltb_ge; lia). rewrite E0, Ec.
  destruct (cvr_card_ok v rows c Hc) as [card E]. rewrite E.
  destruct (IH (i + 1) Hrest) as [ps E3]. rewrite E3. eexists; reflexivity.
Qed.

Lemma sfc_total : forall v rows cvrs sample,
  Forall (fun s => 0 <= s /\ exists c, nth_error cvrs (Z.to_nat s) = Some c /\ has_batch v rows c) sample ->
  exists out, sample_from_cvrs v rows cvrs sample = Ok out.
Proof.
  intros v rows cvrs sample H. destruct (cpicks_total v rows cvrs sample 0 H) as [ps E].
  unfold sample_from_cvrs. rewrite E. eexists; reflexivity.
Qed.
