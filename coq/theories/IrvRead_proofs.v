(* IrvRead_proofs.v — lemmas for property C14 about the model in IrvRead.v.  All inputs: candidate lists, rankings,
   eliminated lists and files of any size; by induction on the ranking / the candidate list / the lines. *)
From SV Require Import IrvRead.
Open Scope Z_scope.

(* ------------------------------------------------------------------ dicts and lists *)
Lemma dget_dset {V} (d : list (key * V)) k v k' :
  dget (dset d k v) k' = if Nat.eqb k k' then Some v else dget d k'.
Proof.
  induction d as [|[k0 v0] t IH]; simpl.
  - reflexivity.
  - destruct (Nat.eqb k0 k) eqn:E0; simpl.
    + apply Nat.eqb_eq in E0; subst k0. destruct (Nat.eqb k k'); reflexivity.
    + destruct (Nat.eqb k0 k') eqn:E1.
      * apply Nat.eqb_eq in E1; subst k0. rewrite Nat.eqb_sym in E0. rewrite E0. reflexivity.
      * apply IH.
Qed.

Lemma in_dset {V} (d : list (key * V)) k v p :
  In p (dset d k v) -> p = (k, v) \/ In p d.
Proof.
  induction d as [|[k0 v0] t IH]; simpl; intro H.
  - destruct H as [H|[]]; auto.
  - destruct (Nat.eqb k0 k) eqn:E0; simpl in H.
    + apply Nat.eqb_eq in E0; subst k0. destruct H as [H|H]; auto.
    + destruct H as [H|H]; auto. destruct (IH H); auto.
Qed.

Lemma dget_In {V} (d : list (key * V)) k v : dget d k = Some v -> In (k, v) d.
Proof.
  induction d as [|[k0 v0] t IH]; simpl; intro H; [discriminate|].
  destruct (Nat.eqb k0 k) eqn:E0.
  - apply Nat.eqb_eq in E0; subst k0. inversion H; subst. auto.
  - right; auto.
Qed.

Lemma mem_In c l : mem c l = true <-> In c l.
Proof.
  unfold mem. rewrite existsb_exists. split.
  - intros [x [Hx He]]. apply Nat.eqb_eq in He; subst; auto.
  - intro H. exists c. split; auto. apply Nat.eqb_refl.
Qed.
Lemma mem_false c l : mem c l = false <-> ~ In c l.
Proof.
  rewrite <- mem_In. destruct (mem c l); split; intro H; try discriminate; auto. exfalso; apply H; reflexivity.
Qed.

Lemma index_of_None c l : index_of c l = None <-> ~ In c l.
Proof.
  induction l as [|x t IH]; simpl.
  - split; auto.
  - destruct (Nat.eqb x c) eqn:E.
    + apply Nat.eqb_eq in E; subst. split; [discriminate| intro H; exfalso; apply H; auto].
    + apply Nat.eqb_neq in E. destruct (index_of c t) as [i|]; simpl.
      * split; [discriminate|]. intro H. exfalso. apply H. right. destruct IH as [_ IH].
        destruct (in_dec Nat.eq_dec c t) as [Hi|Hn]; auto. specialize (IH Hn). discriminate.
      * split; auto. intros _ [H|H]; [congruence|]. destruct IH as [IH _]. apply IH; auto.
Qed.
Lemma index_of_Some_In c l i : index_of c l = Some i -> In c l.
Proof.
  intro H. destruct (in_dec Nat.eq_dec c l) as [Hi|Hn]; auto.
  apply index_of_None in Hn. congruence.
Qed.
Lemma index_of_nth c l i : index_of c l = Some i -> nth_error l i = Some c.
Proof.
  revert i. induction l as [|x t IH]; simpl; intros i H; [discriminate|].
  destruct (Nat.eqb x c) eqn:E.
  - apply Nat.eqb_eq in E; subst. inversion H; subst. reflexivity.
  - destruct (index_of c t) as [j|]; simpl in H; [|discriminate]. inversion H; subst. simpl. apply IH. reflexivity.
Qed.
Lemma index_of_inj a b l i : index_of a l = Some i -> index_of b l = Some i -> a = b.
Proof.
  intros Ha Hb. apply index_of_nth in Ha. apply index_of_nth in Hb. congruence.
Qed.

(* ------------------------------------------------------------------ what the two readers store for one line *)
(* CVR.from_raire: candidate at (0-based) position i of a duplicate-free ranking gets rank i + 1 *)
Lemma votes_from_lookup r : NoDup r -> forall j d0 c,
  dget (votes_from j r d0) c =
  match index_of c r with Some i => Some (j + Z.of_nat i - 1) | None => dget d0 c end.
Proof.
  induction 1 as [|p t Hnin Hnd IH]; intros j d0 c; simpl.
  - reflexivity.
  - rewrite IH. destruct (Nat.eqb p c) eqn:E.
    + apply Nat.eqb_eq in E; subst p. apply index_of_None in Hnin. rewrite Hnin. simpl.
      rewrite dget_dset, Nat.eqb_refl. f_equal. lia.
    + destruct (index_of c t) as [i|]; simpl.
      * f_equal. lia.
      * rewrite dget_dset, E. reflexivity.
Qed.
Lemma audit_ranks_lookup r c : NoDup r ->
  dget (audit_ranks r) c = option_map (fun i => Z.of_nat i + 1) (index_of c r).
Proof.
  intro H. unfold audit_ranks. rewrite (votes_from_lookup r H). destruct (index_of c r); cbn [option_map]; [f_equal; lia|reflexivity].
Qed.

(* load_contests_from_raire: a contest candidate at position i of the ranking gets index i; others are dropped *)
Lemma gen_ballot_fold_lookup prefs cands : forall d0 c,
  dget (fold_left (fun ballot c => match index_of c prefs with
                                   | Some idx => dset ballot c (Z.of_nat idx) | None => ballot end) cands d0) c =
  if mem c cands then match index_of c prefs with Some i => Some (Z.of_nat i) | None => dget d0 c end
  else dget d0 c.
Proof.
  induction cands as [|x t IH]; intros d0 c; simpl.
  - reflexivity.
  - rewrite IH. rewrite (Nat.eqb_sym c x). destruct (Nat.eqb x c) eqn:E; simpl.
    + apply Nat.eqb_eq in E; subst x.
      destruct (index_of c prefs) as [i|] eqn:Ei.
      * destruct (mem c t); [reflexivity|]. rewrite dget_dset, Nat.eqb_refl. reflexivity.
      * destruct (mem c t); reflexivity.
    + assert (Hd : dget match index_of x prefs with Some idx => dset d0 x (Z.of_nat idx) | None => d0 end c = dget d0 c).
      { destruct (index_of x prefs); [rewrite dget_dset, E|]; reflexivity. }
      rewrite Hd. reflexivity.
Qed.
Lemma gen_ballot_lookup cands prefs c :
  dget (gen_ballot cands prefs) c = if mem c cands then option_map Z.of_nat (index_of c prefs) else None.
Proof.
  unfold gen_ballot. rewrite gen_ballot_fold_lookup. simpl. destruct (mem c cands); [|reflexivity].
  destruct (index_of c prefs); reflexivity.
Qed.
Lemma gen_ballot_lookup_incl cands prefs c : incl prefs cands ->
  dget (gen_ballot cands prefs) c = option_map Z.of_nat (index_of c prefs).
Proof.
  intro Hi. rewrite gen_ballot_lookup. destruct (mem c cands) eqn:Em; [reflexivity|].
  destruct (index_of c prefs) as [i|] eqn:Ei; [|reflexivity].
  apply index_of_Some_In in Ei. apply Hi in Ei. apply mem_In in Ei. congruence.
Qed.
(* every entry of the generator's dict is a contest candidate with its position in the ranking *)
Lemma gen_ballot_entries cands prefs k v : In (k, v) (gen_ballot cands prefs) ->
  In k cands /\ exists i, index_of k prefs = Some i /\ v = Z.of_nat i.
Proof.
  unfold gen_ballot.
  assert (G : forall cs d0, (forall k v, In (k, v) d0 -> In k cands /\ exists i, index_of k prefs = Some i /\ v = Z.of_nat i) ->
            incl cs cands ->
            forall k v, In (k, v) (fold_left (fun ballot c => match index_of c prefs with
                                   | Some idx => dset ballot c (Z.of_nat idx) | None => ballot end) cs d0) ->
            In k cands /\ exists i, index_of k prefs = Some i /\ v = Z.of_nat i).
  { induction cs as [|x t IH]; intros d0 H0 Hinc k0 v0 Hin; simpl in Hin.
    - apply H0; auto.
    - apply (IH _) in Hin; auto.
      + intros k1 v1 H1. destruct (index_of x prefs) as [i|] eqn:Ei; [|apply H0; auto].
        apply in_dset in H1. destruct H1 as [H1|H1]; [|apply H0; auto].
        inversion H1; subst. split; [apply Hinc; left; reflexivity|]. exists i; auto.
      + intros y Hy. apply Hinc. right; auto. }
  apply G; [intros k0 v0 []|apply incl_refl].
Qed.

(* ------------------------------------------------------------------ the relation between the two readings of a ballot *)
(* For contest cid (candidate list cands) the audit's CVR a and the generator's cvr g hold the same ballot: either
   neither has the contest, or both store, in their own convention, one duplicate-free ranking over cands. *)
Definition related (cands : list key) (a : acvr) (g : gcvr) (cid : key) : Prop :=
  (dget a cid = None /\ dget g cid = None) \/
  (exists r, NoDup r /\ incl r cands /\
             dget a cid = Some (audit_ranks r) /\ dget g cid = Some (gen_ballot cands r)).

Lemma gvf_related a cid r c : NoDup r -> dget a cid = Some (audit_ranks r) ->
  get_vote_for a cid c = match index_of c r with Some i => Z.of_nat i + 1 | None => 0 end.
Proof.
  intros Hnd Ha. unfold get_vote_for. rewrite Ha, (audit_ranks_lookup r c Hnd).
  destruct (index_of c r); reflexivity.
Qed.
Lemma ranking_related cands r c : incl r cands ->
  ranking c (gen_ballot cands r) = match index_of c r with Some i => Z.of_nat i | None => -1 end.
Proof.
  intro Hi. unfold ranking. rewrite (gen_ballot_lookup_incl _ _ _ Hi). destruct (index_of c r); reflexivity.
Qed.

Ltac zb :=
  repeat match goal with
         | |- context [Z.eqb ?a ?b] => destruct (Z.eqb_spec a b)
         | |- context [Z.ltb ?a ?b] => destruct (Z.ltb_spec a b)
         | |- context [Z.leb ?a ?b] => destruct (Z.leb_spec a b)
         end; simpl; try reflexivity; try lia.

(* ------------------------------------------------------------------ NEB *)
Lemma neb_winner_agree cands a g cid w l : related cands a g cid ->
  (if get_vote_for a cid w =? 1 then 1 else 0) = is_vote_for_winner (RNEB cid w l) g.
Proof.
  intros [[Ha Hg]|[r [Hnd [Hinc [Ha Hg]]]]]; simpl.
  - unfold get_vote_for. rewrite Ha, Hg. reflexivity.
  - rewrite (gvf_related a cid r w Hnd Ha), Hg, (ranking_related cands r w Hinc).
    destruct (index_of w r) as [i|]; zb.
Qed.
Lemma neb_loser_agree cands a g cid w l : related cands a g cid ->
  rcv_lfunc_wo a cid w l = is_vote_for_loser (RNEB cid w l) g.
Proof.
  intros [[Ha Hg]|[r [Hnd [Hinc [Ha Hg]]]]]; simpl; unfold rcv_lfunc_wo, truthy.
  - unfold get_vote_for. rewrite Ha, Hg. reflexivity.
  - rewrite (gvf_related a cid r w Hnd Ha), (gvf_related a cid r l Hnd Ha), Hg,
            (ranking_related cands r w Hinc), (ranking_related cands r l Hinc).
    destruct (index_of w r) as [i|]; destruct (index_of l r) as [j|]; zb.
Qed.

Lemma half_Z (x y : Z) : (inject_Z (x - y + 1) / 2 == (inject_Z x - inject_Z y + 1) / 2)%Q.
Proof.
  unfold Z.sub. rewrite !inject_Z_plus, inject_Z_opp. reflexivity.
Qed.

Lemma neb_assort cands a g cid w l : related cands a g cid ->
  (assort_json cid cands (JNEB w l) a ==
   (inject_Z (is_vote_for_winner (RNEB cid w l) g) - inject_Z (is_vote_for_loser (RNEB cid w l) g) + 1) / 2)%Q.
Proof.
  intro H. unfold assort_json.
  rewrite (neb_winner_agree cands a g cid w l H), (neb_loser_agree cands a g cid w l H). apply half_Z.
Qed.

(* ------------------------------------------------------------------ NEN *)
Lemma remaining_of_In c cands el : In c (remaining_of cands el) <-> In c cands /\ ~ In c el.
Proof.
  unfold remaining_of. rewrite filter_In, negb_true_iff, mem_false. tauto.
Qed.

Lemma votefor_agree cands a g cid c el : related cands a g cid ->
  rcv_votefor_cand a cid c (remaining_of cands el) =
  match dget g cid with None => 0 | Some b => vote_for_cand c el b end.
Proof.
  intros [[Ha Hg]|[r [Hnd [Hinc [Ha Hg]]]]]; unfold rcv_votefor_cand.
  - rewrite Hg. unfold get_vote_for. rewrite Ha. simpl. destruct (mem c (remaining_of cands el)); reflexivity.
  - rewrite Hg. unfold vote_for_cand.
    destruct (mem c el) eqn:Eel.
    { (* eliminated: not remaining *)
      assert (Hm : mem c (remaining_of cands el) = false).
      { apply mem_false. rewrite remaining_of_In. apply mem_In in Eel. tauto. }
      rewrite Hm. reflexivity. }
    rewrite (ranking_related cands r c Hinc), (gvf_related a cid r c Hnd Ha).
    destruct (index_of c r) as [i|] eqn:Ei.
    2:{ simpl. destruct (mem c (remaining_of cands el)); reflexivity. }
    assert (Hc : mem c (remaining_of cands el) = true).
    { apply mem_In. rewrite remaining_of_In. split.
      - apply Hinc. eapply index_of_Some_In; eauto.
      - apply mem_false; auto. }
    rewrite Hc. simpl. unfold truthy.
    replace (Z.of_nat i + 1 =? 0) with false by (symmetry; apply Z.eqb_neq; lia).
    replace (Z.of_nat i =? -1) with false by (symmetry; apply Z.eqb_neq; lia).
    simpl.
    (* the two loops find a blocking candidate in the same cases *)
    match goal with |- (if ?x then 0 else 1) = (if ?y then 0 else 1) => assert (Hxy : x = y) end.
    2:{ rewrite Hxy. reflexivity. }
    apply eq_true_iff_eq. rewrite !existsb_exists. split.
    + intros [alt [Hin Hb]]. apply remaining_of_In in Hin. destruct Hin as [Hac Hael].
      rewrite !andb_true_iff, negb_true_iff in Hb. destruct Hb as [[Hne Htr] Hle].
      rewrite (gvf_related a cid r alt Hnd Ha) in Htr, Hle.
      destruct (index_of alt r) as [j|] eqn:Ej; [|discriminate].
      exists (alt, Z.of_nat j). split.
      * apply dget_In. rewrite gen_ballot_lookup_incl, Ej by assumption. reflexivity.
      * simpl. rewrite Hne. apply mem_false in Hael. rewrite Hael. simpl.
        apply Z.ltb_lt. apply Z.leb_le in Hle.
        assert (j <> i)%nat.
        { intro; subst j. apply Nat.eqb_neq in Hne. apply Hne. eapply index_of_inj; eauto. }
        lia.
    + intros [[k v] [Hin Hb]]. simpl in Hb.
      rewrite !andb_true_iff, !negb_true_iff in Hb. destruct Hb as [[Hne Hel] Hlt].
      apply gen_ballot_entries in Hin. destruct Hin as [Hkc [j [Ej Hv]]]. subst v.
      exists k. split.
      * apply remaining_of_In. split; auto. apply mem_false; auto.
      * rewrite (gvf_related a cid r k Hnd Ha), Ej. rewrite Hne. simpl.
        apply Z.ltb_lt in Hlt.
        replace (Z.of_nat j + 1 =? 0) with false by (symmetry; apply Z.eqb_neq; lia). simpl.
        apply Z.leb_le. lia.
Qed.

Lemma nen_assort cands a g cid w l el : related cands a g cid ->
  (assort_json cid cands (JNEN w l el) a ==
   (inject_Z (is_vote_for_winner (RNEN cid w l el) g) - inject_Z (is_vote_for_loser (RNEN cid w l el) g) + 1) / 2)%Q.
Proof.
  intro H. unfold assort_json.
  rewrite (votefor_agree cands a g cid w el H), (votefor_agree cands a g cid l el H). simpl.
  destruct (dget g cid); apply half_Z.
Qed.

Lemma assort_agree cands a g cid ja : related cands a g cid ->
  (assort_json cid cands ja a ==
   (inject_Z (is_vote_for_winner (rassertion_of cid ja) g) - inject_Z (is_vote_for_loser (rassertion_of cid ja) g) + 1) / 2)%Q.
Proof.
  destruct ja as [w l|w l el]; intro H; [apply neb_assort|apply nen_assort]; assumption.
Qed.

(* ------------------------------------------------------------------ means and tallies, by summation *)
Definition Qsum (l : list Q) : Q := fold_right Qplus 0%Q l.
Definition Qmean (l : list Q) : Q := (Qsum l / inject_Z (Z.of_nat (length l)))%Q.

Lemma assort_sum cands cid ja (bs : list (acvr * gcvr)) :
  Forall (fun ag => related cands (fst ag) (snd ag) cid) bs ->
  (Qsum (map (fun ag => assort_json cid cands ja (fst ag)) bs) ==
   (inject_Z (sumZ (map (fun ag => is_vote_for_winner (rassertion_of cid ja) (snd ag)) bs)
              - sumZ (map (fun ag => is_vote_for_loser (rassertion_of cid ja) (snd ag)) bs))
    + inject_Z (Z.of_nat (length bs))) / 2)%Q.
Proof.
  induction 1 as [|ag bs Hr Hrest IH].
  - simpl. reflexivity.
  - cbn [map Qsum fold_right sumZ length]. fold (Qsum (map (fun ag => assort_json cid cands ja (fst ag)) bs)).
    rewrite IH, (assort_agree cands (fst ag) (snd ag) cid ja Hr).
    fold (sumZ (map (fun ag => is_vote_for_winner (rassertion_of cid ja) (snd ag)) bs)).
    fold (sumZ (map (fun ag => is_vote_for_loser (rassertion_of cid ja) (snd ag)) bs)).
    rewrite Nat2Z.inj_succ. unfold Z.succ, Z.sub.
    rewrite !inject_Z_plus, !inject_Z_opp, !inject_Z_plus. simpl (inject_Z 1). field.
Qed.

Lemma mean_gt_half cands cid ja (bs : list (acvr * gcvr)) :
  Forall (fun ag => related cands (fst ag) (snd ag) cid) bs -> bs <> [] ->
  ((1 # 2) < Qmean (map (fun ag => assort_json cid cands ja (fst ag)) bs))%Q <->
  sumZ (map (fun ag => is_vote_for_loser (rassertion_of cid ja) (snd ag)) bs)
  < sumZ (map (fun ag => is_vote_for_winner (rassertion_of cid ja) (snd ag)) bs).
Proof.
  intros Hr Hne. unfold Qmean. rewrite map_length.
  pose proof (assort_sum cands cid ja bs Hr) as Hs.
  set (S := Qsum _) in *. set (W := sumZ (map (fun ag => is_vote_for_winner _ _) bs)) in *.
  set (L := sumZ (map (fun ag => is_vote_for_loser _ _) bs)) in *.
  set (n := inject_Z (Z.of_nat (length bs))) in *.
  assert (Hn : (0 < n)%Q).
  { unfold n. change 0%Q with (inject_Z 0). rewrite <- Zlt_Qlt. destruct bs; [congruence|simpl; lia]. }
  assert (Hd : (inject_Z (W - L) == inject_Z W - inject_Z L)%Q).
  { unfold Z.sub. rewrite inject_Z_plus, inject_Z_opp. reflexivity. }
  rewrite Hd in Hs.
  assert (Hh : forall x : Q, (x / 2 == x * (1 # 2))%Q) by (intro; field).
  rewrite Hh in Hs. clear Hh.
  rewrite (Zlt_Qlt L W). clear Hd. clearbody S W L n.
  set (w := inject_Z W) in *. set (l := inject_Z L) in *. clearbody w l. split; intro H.
  - assert (H1 : ((1 # 2) * n < S / n * n)%Q) by (apply Qmult_lt_r; assumption).
    assert (H2 : (S / n * n == S)%Q) by (field; lra).
    rewrite H2, Hs in H1. clear H H2. lra.
  - apply Qlt_shift_div_l; [assumption|]. rewrite Hs. lra.
Qed.

(* ------------------------------------------------------------------ re-tally *)
Lemma fold_add_sum {A} (h : A -> Z) (l : list A) : forall acc,
  fold_left (fun t r => t + h r) l acc = acc + sumZ (map h l).
Proof.
  induction l as [|x t IH]; intro acc; simpl; [lia|]. rewrite IH. lia.
Qed.

Lemma retally_neb name c d cvrs :
  let '(a, vw, vl) := gen_neb name c d cvrs in vw = retally_w a cvrs /\ vl = retally_l a cvrs.
Proof.
  unfold gen_neb, retally_w, retally_l. split; rewrite fold_add_sum; lia.
Qed.

Lemma sumZ_app l m : sumZ (l ++ m) = sumZ l + sumZ m.
Proof. induction l as [|x t IH]; simpl; [reflexivity|]. rewrite IH. lia. Qed.

Lemma opt_sum (h : rdict -> Z) (o : option rdict) :
  sumZ (map h match o with Some b => [b] | None => [] end) = match o with Some b => h b | None => 0 end.
Proof. destruct o; simpl; lia. Qed.

Lemma ballots_sum name (h : rdict -> Z) cvrs :
  sumZ (map h (contest_ballots name cvrs)) =
  sumZ (map (fun r : key * gcvr => match dget (snd r) name with None => 0 | Some b => h b end) cvrs).
Proof.
  unfold contest_ballots. induction cvrs as [|x t IH]; [reflexivity|].
  cbn [flat_map map]. rewrite map_app, sumZ_app, IH. cbn [sumZ fold_right]. f_equal.
  apply opt_sum.
Qed.

Lemma retally_nen name w l el cvrs :
  let '(a, vw, vl) := gen_nen name w l el cvrs in vw = retally_w a cvrs /\ vl = retally_l a cvrs.
Proof.
  unfold gen_nen, retally_w, retally_l. split; rewrite ballots_sum; reflexivity.
Qed.

Lemma retally_all name cvrs :
  (forall c d, let '(a, vw, vl) := gen_neb name c d cvrs in vw = retally_w a cvrs /\ vl = retally_l a cvrs) /\
  (forall w l el, let '(a, vw, vl) := gen_nen name w l el cvrs in vw = retally_w a cvrs /\ vl = retally_l a cvrs).
Proof.
  split; intros; [apply retally_neb|apply retally_nen].
Qed.

(* ------------------------------------------------------------------ the readers on a whole file *)
Definition lookup2 {V} (d : list (key * list (key * V))) (bid cid : key) : option V :=
  match dget d bid with Some v => dget v cid | None => None end.

(* the ranking on the LAST ballot line for (contest cid, ballot id bid) *)
Fixpoint last_line (blines : list row) (cid bid : key) : option (list key) :=
  match blines with
  | [] => None
  | rw :: rest =>
      match last_line rest cid bid with
      | Some r => Some r
      | None => match rw with
                | c :: b :: prefs => if Nat.eqb (tid c) cid && Nat.eqb (tid b) bid then Some (map tid prefs) else None
                | _ => None
                end
      end
  end.

Lemma fold_left_flat_map {A B C} (f : A -> B -> A) (g : C -> list B) (l : list C) : forall acc,
  fold_left f (flat_map g l) acc = fold_left (fun a x => fold_left f (g x) a) l acc.
Proof.
  induction l as [|x t IH]; intro acc; simpl; [reflexivity|]. rewrite fold_left_app. apply IH.
Qed.

Lemma merge_lookup blines : forall od bid cid,
  lookup2 (fold_left (fun a x => fold_left merge_step (row_to_cvr x) a) blines od) bid cid =
  match last_line blines cid bid with
  | Some r => Some (audit_ranks r)
  | None => lookup2 od bid cid
  end.
Proof.
  induction blines as [|rw rest IH]; intros od bid cid; simpl; [reflexivity|].
  rewrite IH. destruct (last_line rest cid bid) as [r|]; [reflexivity|].
  destruct rw as [|c [|b prefs]]; simpl; try reflexivity.
  unfold merge_step, lookup2; simpl. unfold acvr, gcvr, rdict in *.
  destruct (dget od (tid b)) as [votes|] eqn:Eod.
  - rewrite dget_dset. destruct (Nat.eqb (tid b) bid) eqn:Eb.
    + apply Nat.eqb_eq in Eb; subst bid. rewrite Eod. unfold dict_update; simpl. rewrite dget_dset.
      rewrite andb_true_r. destruct (Nat.eqb (tid c) cid); reflexivity.
    + rewrite andb_false_r. reflexivity.
  - rewrite dget_dset. destruct (Nat.eqb (tid b) bid) eqn:Eb.
    + apply Nat.eqb_eq in Eb; subst bid. rewrite Eod. simpl. rewrite andb_true_r.
      destruct (Nat.eqb (tid c) cid); reflexivity.
    + rewrite andb_false_r. reflexivity.
Qed.

(* the cvrs component of the generator's ballot loop does not depend on the ballot counters *)
Definition gstep (ci : list (key * list key)) (cvrs : list (key * gcvr)) (toks : row) : list (key * gcvr) :=
  snd (load_step ci ([], cvrs) toks).
Lemma load_step_snd ci st toks : snd (load_step ci st toks) = gstep ci (snd st) toks.
Proof. destruct toks as [|c [|b prefs]]; reflexivity. Qed.
Lemma load_fold_snd ci blines : forall st,
  snd (fold_left (load_step ci) blines st) = fold_left (gstep ci) blines (snd st).
Proof.
  induction blines as [|rw rest IH]; intro st; simpl; [reflexivity|]. rewrite IH, load_step_snd. reflexivity.
Qed.

Definition cands_of (ci : list (key * list key)) (cid : key) : list key :=
  match dget ci cid with Some cs => cs | None => [] end.

Lemma load_lookup ci blines : forall cvrs bid cid,
  lookup2 (fold_left (gstep ci) blines cvrs) bid cid =
  match last_line blines cid bid with
  | Some r => Some (gen_ballot (cands_of ci cid) r)
  | None => lookup2 cvrs bid cid
  end.
Proof.
  induction blines as [|rw rest IH]; intros cvrs bid cid; simpl; [reflexivity|].
  rewrite IH. destruct (last_line rest cid bid) as [r|]; [reflexivity|].
  destruct rw as [|c [|b prefs]]; try reflexivity.
  unfold gstep, load_step, lookup2; simpl. unfold acvr, gcvr, rdict in *.
  destruct (dget cvrs (tid b)) as [v|] eqn:Ecv; simpl.
  - rewrite dget_dset. destruct (Nat.eqb (tid b) bid) eqn:Eb.
    + apply Nat.eqb_eq in Eb; subst bid. rewrite Ecv, dget_dset, andb_true_r.
      destruct (Nat.eqb (tid c) cid) eqn:Ec; [|reflexivity].
      apply Nat.eqb_eq in Ec; subst cid. reflexivity.
    + rewrite andb_false_r. reflexivity.
  - rewrite dget_dset. destruct (Nat.eqb (tid b) bid) eqn:Eb.
    + apply Nat.eqb_eq in Eb; subst bid. rewrite Ecv. simpl. rewrite andb_true_r.
      destruct (Nat.eqb (tid c) cid) eqn:Ec; [|reflexivity].
      apply Nat.eqb_eq in Ec; subst cid. reflexivity.
    + rewrite andb_false_r. reflexivity.
Qed.

Lemma skipn_app_length {A} (l m : list A) : skipn (length l) (l ++ m) = m.
Proof. induction l; simpl; auto. Qed.
Lemma firstn_app_length {A} (l m : list A) : firstn (length l) (l ++ m) = l.
Proof. induction l; simpl; [reflexivity|]. f_equal; auto. Qed.

(* contest id -> candidate list, as load_contests_from_raire collects it from the header lines *)
Definition contest_info_of (headers : list row) : list (key * list key) :=
  fold_left (fun d h => dset d (fst h) (fst (snd h))) (map parse_header headers) [].

(* a ballot line in the property's domain: its contest is declared, its ranking is duplicate-free and lists
   candidates of that contest *)
Definition bline_ok (ci : list (key * list key)) (rw : row) : Prop :=
  exists c b prefs, rw = c :: b :: prefs /\
    NoDup (map tid prefs) /\ incl (map tid prefs) (cands_of ci (tid c)) .

Lemma last_line_ok ci blines cid bid r : Forall (bline_ok ci) blines -> last_line blines cid bid = Some r ->
  NoDup r /\ incl r (cands_of ci cid).
Proof.
  induction 1 as [|rw rest Hok Hrest IH]; simpl; [discriminate|].
  destruct (last_line rest cid bid) as [r'|].
  - intro H; inversion H; subst. auto.
  - destruct Hok as [c [b [prefs [Hrw [Hnd Hinc]]]]]. subst rw.
    destruct (Nat.eqb (tid c) cid) eqn:Ec; simpl; [|discriminate].
    destruct (Nat.eqb (tid b) bid); [|discriminate].
    apply Nat.eqb_eq in Ec; subst cid. intro H; inversion H; subst. auto.
Qed.

(* each reader's dict, decoded: candidate c has rank i+1 (audit) / index i (generator) iff it is at position i of r *)
Definition decodes_audit (d : rdict) (r : list key) : Prop :=
  forall c, dget d c = option_map (fun i => Z.of_nat i + 1) (index_of c r).
Definition decodes_gen (d : rdict) (r : list key) : Prop :=
  forall c, dget d c = option_map Z.of_nat (index_of c r).

Section File.
  Variables (t0 : tok) (headers blines : list row).
  Hypothesis Hcount : tint t0 = Some (Z.of_nat (length headers)).
  Let rows : list row := [t0] :: headers ++ blines.
  Let ci := contest_info_of headers.

  Lemma from_raire_rows :
    from_raire rows = fold_left (fun a x => fold_left merge_step (row_to_cvr x) a) blines [].
  Proof.
    unfold from_raire, rows, int_of. rewrite Hcount.
    replace (Z.to_nat (Z.of_nat (length headers) + 1)) with (S (length headers)) by lia.
    simpl skipn. rewrite skipn_app_length. unfold merge_cvrs. apply fold_left_flat_map.
  Qed.

  Lemma load_rows :
    snd (load_contests_from_raire rows) = fold_left (gstep ci) blines [].
  Proof.
    unfold load_contests_from_raire, rows, int_of. rewrite Hcount, Nat2Z.id.
    simpl skipn. rewrite firstn_app_length, skipn_app_length. cbv zeta. simpl snd.
    rewrite load_fold_snd. reflexivity.
  Qed.

  Hypothesis Hok : Forall (bline_ok ci) blines.

  Lemma readers_agree bid cid :
    match lookup2 (from_raire rows) bid cid, lookup2 (snd (load_contests_from_raire rows)) bid cid with
    | Some da, Some dg =>
        exists r, last_line blines cid bid = Some r /\ NoDup r /\ incl r (cands_of ci cid) /\
                  da = audit_ranks r /\ dg = gen_ballot (cands_of ci cid) r /\
                  decodes_audit da r /\ decodes_gen dg r
    | None, None => last_line blines cid bid = None
    | _, _ => False
    end.
  Proof.
    rewrite from_raire_rows, load_rows, merge_lookup, load_lookup.
    destruct (last_line blines cid bid) as [r|] eqn:El.
    - destruct (last_line_ok ci blines cid bid r Hok El) as [Hnd Hinc].
      exists r. repeat split; auto.
      + intro c. apply audit_ranks_lookup; auto.
      + intro c. apply gen_ballot_lookup_incl; auto.
    - reflexivity.
  Qed.

  (* hence the two readings of every ballot id are `related` for every contest, and every assorter agrees *)
  Lemma readers_related bid va vg cid :
    dget (from_raire rows) bid = Some va -> dget (snd (load_contests_from_raire rows)) bid = Some vg ->
    related (cands_of ci cid) va vg cid.
  Proof.
    intros Ha Hg. pose proof (readers_agree bid cid) as H. unfold lookup2 in H. unfold acvr, gcvr, rdict in *. rewrite Ha, Hg in H.
    destruct (dget va cid) as [da|] eqn:Eda; destruct (dget vg cid) as [dg|] eqn:Edg; try contradiction.
    - destruct H as [r [_ [Hnd [Hinc [H1 [H2 _]]]]]]. subst. right. exists r. auto.
    - left; auto.
  Qed.
End File.

(* the decoded order is unique: two duplicate-free rankings with the same positions are the same list *)
Lemma index_of_ext r s : NoDup r -> NoDup s -> (forall c, index_of c r = index_of c s) -> r = s.
Proof.
  intros Hr. revert s. induction Hr as [|x t Hnin Hnd IH]; intros s Hs Heq.
  - destruct s as [|y u]; [reflexivity|]. specialize (Heq y). simpl in Heq. rewrite Nat.eqb_refl in Heq. discriminate.
  - destruct s as [|y u].
    + specialize (Heq x). simpl in Heq. rewrite Nat.eqb_refl in Heq. discriminate.
    + assert (x = y).
      { specialize (Heq x). simpl in Heq. rewrite Nat.eqb_refl in Heq.
        destruct (Nat.eqb y x) eqn:E; [apply Nat.eqb_eq in E; auto|].
        destruct (index_of x u); discriminate. }
      subst y. f_equal. inversion Hs; subst. apply IH; auto.
      intro c. specialize (Heq c). simpl in Heq. destruct (Nat.eqb x c) eqn:E.
      * apply Nat.eqb_eq in E; subst c.
        apply index_of_None in Hnin. rewrite Hnin. symmetry. apply index_of_None. assumption.
      * destruct (index_of c t), (index_of c u); simpl in Heq; congruence.
Qed.

(* ------------------------------------------------------------------ statements in the form used by PC14.v *)
Lemma related_ranking cands r a g cid : NoDup r -> incl r cands ->
  dget a cid = Some (audit_ranks r) -> dget g cid = Some (gen_ballot cands r) -> related cands a g cid.
Proof. intros. right. exists r. auto. Qed.
Lemma related_absent cands a g cid : dget a cid = None -> dget g cid = None -> related cands a g cid.
Proof. intros. left. auto. Qed.

Lemma neb_ranking (cands r : list key) (a : acvr) (g : gcvr) (cid w l : key) :
  NoDup r -> incl r cands -> dget a cid = Some (audit_ranks r) -> dget g cid = Some (gen_ballot cands r) ->
  (assort_json cid cands (JNEB w l) a ==
   (inject_Z (is_vote_for_winner (RNEB cid w l) g) - inject_Z (is_vote_for_loser (RNEB cid w l) g) + 1) / 2)%Q.
Proof. intros. apply neb_assort. apply (related_ranking cands r); assumption. Qed.

Lemma nen_ranking (cands r : list key) (a : acvr) (g : gcvr) (cid w l : key) (el : list key) :
  NoDup r -> incl r cands -> dget a cid = Some (audit_ranks r) -> dget g cid = Some (gen_ballot cands r) ->
  (assort_json cid cands (JNEN w l el) a ==
   (inject_Z (is_vote_for_winner (RNEN cid w l el) g) - inject_Z (is_vote_for_loser (RNEN cid w l el) g) + 1) / 2)%Q.
Proof. intros. apply nen_assort. apply (related_ranking cands r); assumption. Qed.

Lemma absent_assort (cands : list key) (a : acvr) (g : gcvr) (cid : key) (ja : jassertion) :
  dget a cid = None -> dget g cid = None ->
  (assort_json cid cands ja a == 1 # 2)%Q /\
  is_vote_for_winner (rassertion_of cid ja) g = 0 /\ is_vote_for_loser (rassertion_of cid ja) g = 0.
Proof.
  intros Ha Hg.
  assert (Hw : is_vote_for_winner (rassertion_of cid ja) g = 0) by (destruct ja; simpl; rewrite Hg; reflexivity).
  assert (Hl : is_vote_for_loser (rassertion_of cid ja) g = 0) by (destruct ja; simpl; rewrite Hg; reflexivity).
  split; [|auto]. rewrite (assort_agree cands a g cid ja (related_absent cands a g cid Ha Hg)), Hw, Hl. reflexivity.
Qed.

(* end to end on a file: whatever ballot id both readers return, every json assertion's assorter applied to the
   audit's CVR equals (w - l + 1)/2 of the generator's verdicts on the generator's cvr *)
Lemma file_assort (t0 : tok) (headers blines : list row) :
  tint t0 = Some (Z.of_nat (length headers)) ->
  Forall (bline_ok (contest_info_of headers)) blines ->
  forall bid va vg cid ja,
    dget (from_raire ([t0] :: headers ++ blines)) bid = Some va ->
    dget (snd (load_contests_from_raire ([t0] :: headers ++ blines))) bid = Some vg ->
    (assort_json cid (cands_of (contest_info_of headers) cid) ja va ==
     (inject_Z (is_vote_for_winner (rassertion_of cid ja) vg)
      - inject_Z (is_vote_for_loser (rassertion_of cid ja) vg) + 1) / 2)%Q.
Proof.
  intros Hc Hok bid va vg cid ja Ha Hg. apply assort_agree.
  apply (readers_related t0 headers blines Hc Hok bid va vg cid Ha Hg).
Qed.
