(* Run_Phantoms.v — entry points evaluated by the correspondence harness (harness/c08.py) for
   CVR.make_phantoms, Assorter.overstatement, Assertion.overstatement_assorter and the phantom-MVR creation of
   Dominion/Hart.sample_from_cvrs.  A case carries the inputs AND the implementation's outputs. *)
From SV Require Export Phantoms.
Open Scope Z_scope.

Definition card_eqb (a b : card) : bool :=
  ident_eqb (cid a) (cid b) && all2 Z.eqb (ccontests a) (ccontests b) && Z.eqb (ctag a) (ctag b)
  && Bool.eqb (cphantom a) (cphantom b) && Z.eqb (ctally_pool a) (ctally_pool b) && Bool.eqb (cpool a) (cpool b).
Definition optz_eqb (a b : option Z) : bool :=
  match a, b with Some x, Some y => Z.eqb x y | None, None => true | _, _ => false end.
Definition cstate_eqb (a b : cstate) : bool :=
  Z.eqb (cs_id a) (cs_id b) && optz_eqb (cs_cards a) (cs_cards b) && Z.eqb (cs_cvrs a) (cs_cvrs b).
Definition err_eqb (a b : err) : bool :=
  match a, b with
  | ENotImpl, ENotImpl | EType, EType | EValue, EValue | EKey, EKey | EStop, EStop | EAssert, EAssert | EOther, EOther => true
  | _, _ => false
  end.

(* ---- make_phantoms ---- *)
Record mp_case := mkmp {
  mp_strata : list (bool * option Z); mp_contests : list (Z * option Z); mp_cvrs : list card; mp_tp : Z; mp_pool : bool;
  mp_out : result (list card * Z * list cstate);     (* implementation: returned list, returned number, (id, cards, cvrs) afterwards *)
  mp_in_after : list card }.                          (* the caller's list, re-read after the call *)
Definition run_mp (c : mp_case) := make_phantoms (mp_strata c) (mp_contests c) (mp_cvrs c) (mp_tp c) (mp_pool c).
Definition agree_mp (c : mp_case) : bool :=
  match run_mp c, mp_out c with
  | Ok (l, n, ks), Ok (l', n', ks') => all2 card_eqb l l' && Z.eqb n n' && all2 cstate_eqb ks ks'
  | Err e, Err e' => err_eqb e e'
  | _, _ => false
  end && all2 card_eqb (mp_cvrs c) (mp_in_after c).
Definition show_mp (c : mp_case) := run_mp c.

(* ---- phantom MVRs made by the format modules ---- *)
Definition agree_fm (c : list card * list nat * list card) : bool :=
  match c with (cvrs, sample, out) => all2 card_eqb (sample_phantom_mvrs cvrs sample) out end.
Definition show_fm (c : list card * list nat * list card) :=
  match c with (cvrs, sample, out) => sample_phantom_mvrs cvrs sample end.

(* ---- overstatement / overstatement_assorter ---- *)
Open Scope Q_scope.
Record ov_case := mkov {
  ov_style : bool; ov_k : Z; ov_pm : option (list (Z * Xq)); ov_mvr : card; ov_cvr : card;   (* mvr has ctag 1, cvr ctag 2 *)
  ov_amvr : option Q; ov_acvr : option Q;      (* self.assort(mvr), self.assort(cvr) called on their own; None = raises *)
  ov_u : Q; ov_v : Q;
  ov_over : result Xq; ov_oa : result Xq }.    (* implementation *)
Definition ov_A (c : ov_case) (x : card) : Q :=
  match (if Z.eqb (ctag x) 1 then ov_amvr c else ov_acvr c) with Some q => q | None => 0 end.
Definition is_none {T} (o : option T) : bool := match o with None => true | Some _ => false end.
(* an exception raised by assort propagates when (and only when) the model says assort is evaluated *)
Definition ov_guard {T} (c : ov_case) (r : result T) : result T :=
  if ov_style c && negb (has_contest (ov_cvr c) (ov_k c)) then Err EValue
  else if mvr_assort_evaluated (ov_k c) (ov_style c) (ov_mvr c) && is_none (ov_amvr c) then Err EOther
  else if negb (cvr_uses_pool (ov_pm c) (ov_cvr c)) && is_none (ov_acvr c) then Err EOther
  else r.
Definition model_over (c : ov_case) : result Xq :=
  ov_guard c (overstatement (ov_A c) (ov_k c) (ov_pm c) (ov_style c) (ov_mvr c) (ov_cvr c)).
Definition model_oa (c : ov_case) : result Xq :=
  ov_guard c (overstatement_assorter (ov_A c) (ov_k c) (ov_pm c) (ov_u c) (ov_v c) (ov_style c) (ov_mvr c) (ov_cvr c)).
Definition res_close (a b : result Xq) : bool :=
  match a, b with Ok x, Ok y => close_x x y | Err e, Err e' => err_eqb e e' | _, _ => false end.
Definition agree_ov (c : ov_case) : bool := res_close (model_over c) (ov_over c) && res_close (model_oa c) (ov_oa c).
Definition show_ov (c : ov_case) := (model_over c, model_oa c).
