(* PC09.v — property C09 (placeholder while the proofs are being built) *)
From SV Require Import Status.
Theorem C09_placeholder : True. Proof. exact I. Qed.
Print Assumptions C09_placeholder.
