(* PC09.v — property C09: the audit completes only when every assertion of every contest meets its risk limit.
   Statements about the model of Status.v (tied to shangrla/core/Audit.py by harness/c09.py on every run).
   [test ck ak] is what the assertion's configured test returns on that assertion's data (None = raises); it is a
   parameter: the theorems hold for every test. p-values are Xq: comparisons with NaN are false. *)
From SV Require Import Status Status_proofs.
Open Scope Q_scope.

(* Each assertion's recorded p-value and history are exactly what its test returns on its data; keys and risk limits are
   untouched; proved = (p <= that contest's limit) or already proved; contest.p_values / contest.proved list exactly the
   assertions' new values. *)
Theorem C09_recorded :
  forall (test : Z -> Z -> option (Xq * list Xq)) lens cs cs' pmax,
  set_p_values test lens cs = SOk (cs', pmax) ->
  Forall2 (fun c c' =>
    c_key c' = c_key c /\ c_limit c' = c_limit c /\
    Forall2 (fun a a' =>
      a_key a' = a_key a /\
      test (c_key c) (a_key a) = Some (a_p a', a_hist a') /\
      a_proved a' = (xle (a_p a') (Fin (c_limit c)) || a_proved a)%bool) (c_asns c) (c_asns c') /\
    (NoDup (map a_key (c_asns c)) ->
       c_pvalues c' = map (fun a => (a_key a, a_p a)) (c_asns c') /\
       c_proved c' = map (fun a => (a_key a, a_proved a)) (c_asns c'))) cs cs'.
Proof. exact recorded. Qed.
Print Assumptions C09_recorded.

(* ... and set_p_values does return whenever the sample lists have equal length and every test returns *)
Theorem C09_recorded_total :
  forall (test : Z -> Z -> option (Xq * list Xq)) lens cs,
  lens = true -> (forall c a, In c cs -> In a (c_asns c) -> test (c_key c) (a_key a) <> None) ->
  exists cs' pmax, set_p_values test lens cs = SOk (cs', pmax).
Proof. exact set_p_values_total. Qed.
Print Assumptions C09_recorded_total.

(* Each contest's max_p is the largest p-value among its assertions and the returned value the largest among contests:
   is_max0 m l  :=  (NaN in l -> m = NaN) /\ (all of l finite and >= 0 -> m finite >= 0, m >= every element,
                     m = 0 if l is empty, m is an element of l otherwise). *)
Theorem C09_max :
  forall (test : Z -> Z -> option (Xq * list Xq)) lens cs cs' pmax,
  set_p_values test lens cs = SOk (cs', pmax) ->
  Forall (fun c' => is_max0 (c_maxp c') (map a_p (c_asns c'))) cs' /\ is_max0 pmax (map c_maxp cs').
Proof. exact maxima. Qed.
Print Assumptions C09_max.

(* Complete iff every assertion of every contest has p-value at most THAT contest's risk limit (current p-values;
   a NaN p-value compares false).  Risk limits are nonnegative (check_audit_parameters demands 0 < limit <= 1/2). *)
Theorem C09_done_iff :
  forall cs, (forall c, In c cs -> 0 <= c_limit c) ->
  (summarize_status cs = true <->
   forall c, In c cs -> forall a, In a (c_asns c) -> xle (a_p a) (Fin (c_limit c)) = true).
Proof. exact done_iff. Qed.
Print Assumptions C09_done_iff.

Theorem C09_nan_never_done :
  forall cs c a, In c cs -> In a (c_asns c) -> a_p a = NaN -> summarize_status cs = false.
Proof. exact nan_never_done. Qed.
Print Assumptions C09_nan_never_done.

(* Resetting restores p-value 1, empty history and unconfirmed status everywhere (keys and limits untouched, max_p = 1,
   the contest dicts list the reset values) and returns True. *)
Theorem C09_reset :
  forall cs, exists cs', reset_p_values cs = (cs', true) /\
  Forall2 (fun c c' =>
    c_key c' = c_key c /\ c_limit c' = c_limit c /\ c_maxp c' = Fin 1 /\
    Forall2 (fun a a' => a_key a' = a_key a /\ a_p a' = Fin 1 /\ a_hist a' = [] /\ a_proved a' = false) (c_asns c) (c_asns c') /\
    (NoDup (map a_key (c_asns c)) ->
       c_pvalues c' = map (fun a => (a_key a, Fin 1)) (c_asns c) /\
       c_proved c' = map (fun a => (a_key a, false)) (c_asns c))) cs cs'.
Proof. exact reset_spec. Qed.
Print Assumptions C09_reset.

Theorem C09_reset_not_done :
  forall cs c, In c cs -> c_asns c <> [] -> c_limit c < 1 -> summarize_status (fst (reset_p_values cs)) = false.
Proof. exact reset_not_done. Qed.
Print Assumptions C09_reset_not_done.

(* parameter sanity: what check_audit_parameters accepts has every risk limit in (0,1/2] and winners among the candidates *)
Theorem C09_params :
  forall e1 e2 ps, check_audit_parameters e1 e2 ps = SOk tt ->
  forall p, In p ps -> 0 < p_limit p /\ p_limit p <= 1 # 2 /\ (forall w, In w (p_winner p) -> In w (p_candidates p)).
Proof. exact check_params_ok. Qed.
Print Assumptions C09_params.

(* ---------------------------------------------------------------- non-vacuity *)
(* two contests with different limits; contest 1 has two assertions, one already proved; a second sample raises the
   proved assertion's p-value above the limit *)
Definition ex_cs : list contest :=
  [ mkcon 1 (1 # 20) [mkasn 11 (Fin 1) [] true; mkasn 12 (Fin 1) [] false] [] [] (Fin 0);
    mkcon 2 (1 # 4)  [mkasn 21 (Fin 1) [] false] [] [] (Fin 0) ].
Definition ex_test (ck ak : Z) : option (Xq * list Xq) :=
  if Z.eqb ak 11 then Some (Fin (3 # 10), [Fin 1; Fin (3 # 10)])
  else if Z.eqb ak 12 then Some (Fin (1 # 50), [Fin (1 # 2); Fin (1 # 50)])
  else Some (Fin (1 # 5), [Fin (1 # 5)]).
Example ex_set_runs :
  exists cs', set_p_values ex_test true ex_cs = SOk (cs', Fin (3 # 10))
    /\ map c_maxp cs' = [Fin (3 # 10); Fin (1 # 5)]
    /\ map (fun c => map a_proved (c_asns c)) cs' = [[true; true]; [true]]
    /\ summarize_status cs' = false.                       (* assertion 11 is "proved" but its current p-value is 0.3 > 0.05 *)
Proof. eexists. vm_compute. repeat split; reflexivity. Qed.
Example ex_limits_nonneg : forall c, In c ex_cs -> 0 <= c_limit c.
Proof. intros c [<-|[<-|[]]]; simpl; lra. Qed.
Example ex_nodup : Forall (fun c => NoDup (map a_key (c_asns c))) ex_cs.
Proof. repeat constructor; simpl; intuition congruence. Qed.
Example ex_done_true :
  summarize_status [ mkcon 1 (1 # 20) [mkasn 11 (Fin (1 # 20)) [] false] [] [] (Fin 0);
                     mkcon 2 (1 # 4) [mkasn 21 (Fin (1 # 5)) [] true; mkasn 22 (Fin 0) [] true] [] [] (Fin 0) ] = true.
Proof. reflexivity. Qed.
Example ex_other_contests_limit_does_not_help :         (* 0.2 <= 0.25 (contest 2's limit) but not <= 0.05 (its own) *)
  summarize_status [ mkcon 1 (1 # 20) [mkasn 11 (Fin (1 # 5)) [] false] [] [] (Fin 0);
                     mkcon 2 (1 # 4) [mkasn 21 (Fin (1 # 5)) [] true] [] [] (Fin 0) ] = false.
Proof. reflexivity. Qed.
Example ex_reset :
  map (fun c => (c_maxp c, map a_p (c_asns c), map a_proved (c_asns c))) (fst (reset_p_values ex_cs))
  = [(Fin 1, [Fin 1; Fin 1], [false; false]); (Fin 1, [Fin 1], [false])].
Proof. reflexivity. Qed.
Example ex_params :
  check_audit_parameters (1 # 1000) 0 [mkcp 1 (1 # 20) 1 1 [1; 2; 3]%Z [2]%Z false; mkcp 2 (1 # 2) 3 1 [1; 2]%Z [1]%Z true] = SOk tt.
Proof. reflexivity. Qed.
