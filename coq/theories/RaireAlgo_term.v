(* RaireAlgo_term.v — termination of the model of the search: for a duplicate-free list of at least two candidates
   there is a fuel for which RaireAlgo.raire returns a result (and by RaireAlgo_fuel every larger fuel returns the
   same one).  One iteration of the loop is isolated as `step`; the invariants of RaireAlgo_inv / RaireAlgo_complete
   are re-established per step; a lexicographic measure decreases at every step. *)
From SV Require Import RaireCheck RaireCheck_proofs RaireAlgo RaireAlgo_proofs RaireAlgo_inv RaireAlgo_complete RaireAlgo_opt RaireAlgo_fuel.
Open Scope nat_scope.

Inductive step_res : Type :=
| SDone (r : search_result)
| SNext (h : heap) (fr : list fentry) (lb : Q).

Section Step.
  Variable dfun : nat -> nat -> nat -> Q.
  Variable cands : list cand.
  Variable p : profile.
  Variable tot : nat.
  Variable hint : list cand.
  Variable nebs : list (cand * cand * option asr).

  (* one iteration of the while loop *)
  Definition step (h : heap) (fr : list fentry) (lb : Q) : step_res :=
    match fr with
    | [] => SDone OutOfFuel
    | x :: fr1 =>
        let te := get h (fe_id x) in
        if negb (n_exp te) then SDone (Finished h fr)
        else
          match anc_le h te lb with
          | Some an => SNext h (replace_desc fr1 an) lb
          | None =>
              if ole (n_est te) (Some lb) then
                let h' := upd h (n_id te) set_exp_false in
                SNext h' (insert_node fr1 (get h' (n_id te))) lb
              else if n_dive te then
                match expand dfun cands p tot nebs cands te h fr1 lb with
                | (true, _, _, _) => SDone NotPossible
                | (false, h2, fr2, lb2) => SNext h2 fr2 lb2
                end
              else
                match perform_dive dfun cands p tot hint nebs (S (ncands cands)) h fr1 lb (n_id te) with
                | None => SDone OutOfFuel
                | Some (_, _, None) => SDone NotPossible
                | Some (h1, fr2, Some dlb) =>
                    let lb1 := Qmaxb lb dlb in
                    let te1 := get h1 (n_id te) in
                    match anc_le h1 te1 lb1 with
                    | Some an => SNext h1 (replace_desc fr2 an) lb1
                    | None =>
                        if ole (n_est te1) (Some lb1) then
                          let h' := upd h1 (n_id te1) set_exp_false in
                          SNext h' (insert_node fr2 (get h' (n_id te1))) lb1
                        else
                          match expand dfun cands p tot nebs cands te1 h1 fr2 lb1 with
                          | (true, _, _, _) => SDone NotPossible
                          | (false, h2, fr3, lb2) => SNext h2 fr3 lb2
                          end
                    end
                end
          end
    end.

  Lemma search_step f h fr lb :
    search dfun cands p tot hint nebs (S f) h fr lb =
    match step h fr lb with
    | SDone r => r
    | SNext h' fr' lb' => search dfun cands p tot hint nebs f h' fr' lb'
    end.
  Proof.
    cbn [search]. unfold step. destruct fr as [|x fr1]; [reflexivity|].
    destruct (negb (n_exp (get h (fe_id x)))); [reflexivity|].
    destruct (anc_le h (get h (fe_id x)) lb); [reflexivity|].
    destruct (ole (n_est (get h (fe_id x))) (Some lb)); [reflexivity|].
    destruct (n_dive (get h (fe_id x))).
    { destruct (expand dfun cands p tot nebs cands (get h (fe_id x)) h fr1 lb) as [[[b h2] fr2] lb2]. destruct b; reflexivity. }
    destruct (perform_dive dfun cands p tot hint nebs (S (ncands cands)) h fr1 lb (n_id (get h (fe_id x)))) as [[[h1 fr2] r]|];
      [|reflexivity].
    destruct r as [dlb|]; [|reflexivity]. cbv zeta.
    destruct (anc_le h1 (get h1 (n_id (get h (fe_id x)))) (Qmaxb lb dlb)); [reflexivity|].
    destruct (ole (n_est (get h1 (n_id (get h (fe_id x))))) (Some (Qmaxb lb dlb))); [reflexivity|].
    destruct (expand dfun cands p tot nebs cands (get h1 (n_id (get h (fe_id x)))) h1 fr2 (Qmaxb lb dlb)) as [[[b h2] fr3] lb2].
    destruct b; reflexivity.
  Qed.
End Step.

(* ------------------------------------------------------------------ best ancestors were created earlier *)
Definition SAid (h : heap) : Prop := forall i a, i < length h -> n_anc (get h i) = Some a -> a < i.

Lemma SA_upd h id f : hwf h -> keeps f -> SAid h -> SAid (upd h id f).
Proof.
  intros Hw Hk Hs i a Hi. rewrite upd_length in Hi. rewrite get_upd by assumption.
  destruct (Nat.eqb i id); [|apply Hs; exact Hi]. destruct (Hk (get h i)) as [_ [_ [Ha _]]]. rewrite Ha. apply Hs. exact Hi.
Qed.
Lemma SA_cons n h : SAid h -> (forall a, n_anc n = Some a -> a < length h) -> SAid (n :: h).
Proof.
  intros Hs Hn i a Hi. simpl in Hi. destruct (Nat.eq_dec i (length h)) as [Hq|Hq].
  - subst i. rewrite get_cons_new. apply Hn.
  - rewrite get_cons_old by lia. apply Hs. lia.
Qed.

Section StepInv.
  Variable dfun : nat -> nat -> nat -> Q.
  Variable cands : list cand.
  Variable p : profile.
  Variable tot : nat.
  Variable hint : list cand.
  Variable winner : cand.
  Hypothesis Hnd : NoDup cands.
  Let nebs := neb_table dfun cands p tot.
  Let HJ' := HJ dfun cands p tot winner.

  Lemma SA_child h x c dv : HI cands h -> nvalid h x -> SAid h ->
    SAid (new_node dfun cands p tot nebs (length h) (c :: n_tail x) (anc_for_child h x) dv :: h).
  Proof.
    intros Hh Hv Hs. apply SA_cons; [exact Hs|]. intros a Ha.
    change (n_anc (new_node dfun cands p tot nebs (length h) (c :: n_tail x) (anc_for_child h x) dv)) with (anc_for_child h x) in Ha.
    apply (anc_child_ok cands h x c a Hh Hv Ha).
  Qed.

  Lemma expand_SA cs : forall te h fr lb b h' fr' lb',
    HI cands h -> FV h fr -> nvalid h te -> SAid h ->
    expand dfun cands p tot nebs cs te h fr lb = (b, h', fr', lb') -> b = false -> SAid h'.
  Proof.
    induction cs as [|c r IH]; intros te h fr lb b h' fr' lb' Hh Hf Hv Hs; cbn [expand].
    - intro H. inversion H. subst. intros _. exact Hs.
    - destruct (negb (mem c (n_tail te)) && negb (mem c (n_explored te))); [|apply IH; assumption].
      destruct (push_child dfun cands p tot nebs h te c false Hh Hv) as [Hh1 [Hv1 [Hex1 Htl1]]].
      pose proof (SA_child h te c false Hh Hv Hs) as Hs1.
      set (newn := new_node dfun cands p tot nebs (length h) (c :: n_tail te) (anc_for_child h te) false) in *.
      destruct (manage_node (newn :: h) fr lb newn) as [[[b1 f1] l1] t1] eqn:Em.
      destruct b1; [intro H; inversion H; subst; discriminate|].
      destruct (manage_ok _ _ _ _ _ _ _ _ Hh1 (FV_cons newn h fr Hf) Hv1 Hex1 Em) as [_ [Hf2 _]].
      apply IH; try assumption. apply nvalid_cons. exact Hv.
  Qed.

  Lemma dive_SA fuel : forall h fr lb nid h' fr' r,
    HI cands h -> FV h fr -> nid < length h -> SAid h ->
    perform_dive dfun cands p tot hint nebs fuel h fr lb nid = Some (h', fr', r) -> r <> None -> SAid h'.
  Proof.
    induction fuel as [|f IH]; intros h fr lb nid h' fr' r Hh Hf Hnid Hs; cbn [perform_dive]; [discriminate|].
    destruct (filter (fun c => negb (mem c (n_tail (get h nid)))) cands) as [|r0 rest]; [discriminate|].
    set (next := dive_choice hint r0 rest).
    set (h1 := upd h nid (add_explored next)).
    assert (Hw : hwf h) by apply Hh. assert (Hao : aok h) by apply Hh.
    pose proof (keeps_add_explored next) as Hk.
    assert (Hh1 : HI cands h1) by (apply HI_upd; assumption).
    assert (Hs1 : SAid h1) by (apply SA_upd; assumption).
    assert (Hf1 : FV h1 fr) by (apply FV_upd; assumption).
    assert (Hlen1 : length h1 = length h) by apply upd_length.
    assert (Hanc : forall a, anc_for_child h (get h nid) = Some a ->
                     a < length h1 /\ ends_with (n_tail (get h1 a)) (next :: n_tail (get h nid))).
    { intros a Ha. destruct (anc_child_ok cands h (get h nid) next a Hh (nvalid_get h nid Hw Hnid) Ha) as [H1 H2].
      rewrite Hlen1. split; [exact H1|]. unfold h1. rewrite (tail_upd h nid _ a Hw Hk H1). exact H2. }
    destruct (push_node dfun cands p tot nebs h1 (next :: n_tail (get h nid)) (anc_for_child h (get h nid)) true Hh1 Hanc)
      as [Hh2 [Hv2 [Hex2 Htl2]]].
    set (newn := new_node dfun cands p tot nebs (length h1) (next :: n_tail (get h nid)) (anc_for_child h (get h nid)) true) in *.
    assert (Hs2 : SAid (newn :: h1)).
    { apply SA_cons; [exact Hs1|]. intros a Ha. apply (Hanc a Ha). }
    destruct (manage_node (newn :: h1) fr lb newn) as [[[b1 f1] l1] t1] eqn:Em.
    destruct b1; [intro H; inversion H; subst; congruence|].
    destruct (manage_ok _ _ _ _ _ _ _ _ Hh2 (FV_cons newn h1 fr Hf1) Hv2 Hex2 Em) as [_ [Hf3 _]].
    destruct t1.
    - intro H. inversion H. subst. intros _. exact Hs2.
    - apply IH; try assumption. apply Hv2.
  Qed.
End StepInv.

Section StepAll.
  Variable dfun : nat -> nat -> nat -> Q.
  Variable cands : list cand.
  Variable p : profile.
  Variable tot : nat.
  Variable hint : list cand.
  Variable winner : cand.
  Hypothesis Hnd : NoDup cands.
  Let nebs := neb_table dfun cands p tot.
  Let HJ' := HJ dfun cands p tot winner.

  Definition ALL (h : heap) (fr : list fentry) (lb : Q) : Prop :=
    HI cands h /\ FV h fr /\ SC cands winner h fr lb /\ HJ' h /\ FJ h fr /\ SAid h.

  (* every invariant is re-established by one iteration *)
  Lemma step_ALL h fr lb h' fr' lb' :
    ALL h fr lb -> step dfun cands p tot hint nebs h fr lb = SNext h' fr' lb' -> ALL h' fr' lb'.
  Proof.
    intros [Hh [Hf [Hsc [Hhj [Hfj Hsa]]]]]. unfold step.
    destruct fr as [|x fr1]; [discriminate|].
    assert (Hw : hwf h) by apply Hh. assert (Hao : aok h) by apply Hh.
    assert (Hx : fe_id x < length h) by (apply (Hf x); left; reflexivity).
    assert (Hf1 : FV h fr1) by (eapply FV_tail; eauto).
    assert (Hfj1 : FJ h fr1) by (eapply FJ_tail; eauto).
    set (te := get h (fe_id x)).
    assert (Hidte : n_id te = fe_id x) by (apply Hw; exact Hx).
    assert (Hvte : nvalid h te) by (apply nvalid_get; assumption).
    destruct (negb (n_exp te)) eqn:Eexp; [discriminate|].
    apply negb_false_iff in Eexp.
    destruct (anc_le h te lb) as [an|] eqn:Eanc.
    { destruct (anc_le_some _ _ _ _ Eanc) as [a [Ha1 [Ha2 Ha3]]]. subst an.
      destruct (Hao _ _ Hx Ha1) as [Halt Haend]. fold te in Haend.
      pose proof (nvalid_get h a Hw Halt) as Hva.
      assert (Hfz : frozen h lb (get h a)) by (right; left; exact Ha3).
      intro H. inversion H. subst h' fr' lb'.
      split; [exact Hh|]. split; [apply FV_replace; assumption|]. split; [|split; [exact Hhj|split; [|exact Hsa]]].
      - intros pi Hal. destruct (SC_head _ _ _ _ _ _ _ Hsc Hal) as [[Hend _]|Hs].
        + apply scov_replace_new; try assumption. eapply ends_with_trans; eauto.
        + apply scov_replace; assumption.
      - apply FJ_replace; try assumption. intro Hn. exfalso. apply (ole_some_ne _ _ Ha3). exact Hn. }
    destruct (ole (n_est te) (Some lb)) eqn:Eest.
    { rewrite Hidte. pose proof keeps_set_exp_false as Hk.
      assert (Hne : n_est (get h (fe_id x)) <> None) by (apply (ole_some_ne _ _ Eest)).
      assert (Hh' : HI cands (upd h (fe_id x) set_exp_false)) by (apply HI_upd; assumption).
      assert (Hhj' : HJ' (upd h (fe_id x) set_exp_false)).
      { apply HJ_upd; try assumption; [reflexivity | intros _ _; right; exact Hne]. }
      assert (Hx' : fe_id x < length (upd h (fe_id x) set_exp_false)) by (rewrite upd_length; exact Hx).
      pose proof (nvalid_get _ _ (proj1 Hh') Hx') as Hv'.
      assert (Hf' : FV (upd h (fe_id x) set_exp_false) fr1) by (apply FV_upd; assumption).
      intro H. inversion H. subst h' fr' lb'.
      split; [exact Hh'|]. split; [apply FV_insert; assumption|]. split; [|split; [exact Hhj'|split]].
      - intros pi Hal. destruct (SC_head _ _ _ _ _ _ _ Hsc Hal) as [Hs|Hs].
        + apply scov_insert_new. rewrite (proj1 Hh' _ Hx'). apply safe_upd_same; try assumption. intro n. reflexivity.
        + apply scov_insert. apply scov_upd_same; try assumption. intro n. reflexivity.
      - apply FJ_insert; try assumption; [apply FJ_upd_leaf; assumption|].
        intro Hn. exfalso. rewrite get_upd in Hn by assumption. rewrite Nat.eqb_refl in Hn. simpl in Hn. contradiction.
      - apply SA_upd; assumption. }
    pose proof (not_frozen h te lb Eexp Eanc Eest) as Hnf.
    destruct (n_dive te) eqn:Edive.
    { destruct (expand dfun cands p tot nebs cands te h fr1 lb) as [[[b h2] fr2] lb2] eqn:Ee.
      destruct b; [discriminate|]. intro H. inversion H. subst h' fr' lb'.
      destruct (expand_inv _ _ _ _ _ _ _ _ _ _ _ _ _ Hh Hf1 Hvte Ee) as [Hh2 [Hf2 [Hl2 [_ [_ [Hp2 Hn2]]]]]].
      destruct (expand_J _ _ _ _ _ _ _ _ _ _ _ _ _ _ Hh Hhj Hf1 Hfj1 Hvte (fun y Hy => Hy) Ee) as [_ Hb2].
      destruct (Hb2 eq_refl) as [Hhj2 Hfj2].
      split; [exact Hh2|]. split; [exact Hf2|]. split; [|split; [exact Hhj2|split; [exact Hfj2|]]].
      - intros pi Hal. destruct (SC_head _ _ _ _ _ _ _ Hsc Hal) as [Hs|Hs]; [|apply Hp2; exact Hs].
        destruct (popped_child cands winner Hnd h lb (fe_id x) pi Hh Hx Hal Hs Eexp Hnf) as [pre [c [H1 [H2 [H3 H4]]]]].
        eapply Hn2; eauto. exists pre. exact H1.
      - exact (expand_SA dfun cands p tot cands te h fr1 lb false h2 fr2 lb2 Hh Hf1 Hvte Hsa Ee eq_refl). }
    rewrite Hidte.
    destruct (perform_dive dfun cands p tot hint nebs (S (ncands cands)) h fr1 lb (fe_id x)) as [[[h1 fr2] r]|] eqn:Ed;
      [|discriminate].
    destruct r as [dlb|]; [|discriminate].
    destruct (dive_inv _ _ _ _ _ _ _ _ _ _ _ _ _ _ Hh Hf1 Hx Ed) as [next [Hn1 [Hn2 [Hh1 [Hf2 [Hl1 [Hlen1 [_ [Hte1 [Hp1 Hnew1]]]]]]]]]].
    fold te in Hte1, Hn2.
    destruct (dive_J _ _ _ _ _ _ _ _ _ _ _ _ _ _ Hh Hhj Hf1 Hfj1 Hx Ed) as [_ Hd2].
    destruct (Hd2 ltac:(discriminate)) as [Hhj1 Hfj2].
    assert (Hsa1 : SAid h1).
    { apply (dive_SA dfun cands p tot hint (S (ncands cands)) h fr1 lb (fe_id x) h1 fr2 (Some dlb) Hh Hf1 Hx Hsa Ed). discriminate. }
    set (lb1 := Qmaxb lb dlb).
    assert (Hdl : (dlb <= lb1)%Q) by apply Qmaxb_r.
    assert (Hx1 : fe_id x < length h1) by lia.
    assert (Hw1 : hwf h1) by apply Hh1.
    set (te1 := get h1 (fe_id x)).
    assert (Hid1 : n_id te1 = fe_id x) by (apply Hw1; exact Hx1).
    assert (Htl1 : n_tail te1 = n_tail te) by (unfold te1; rewrite Hte1; reflexivity).
    assert (Hexpl1 : n_explored te1 = n_explored te ++ [next]) by (unfold te1; rewrite Hte1; reflexivity).
    assert (Hstat : forall pi, alt cands winner pi ->
              scov h1 fr2 lb1 pi \/
              (ends_with (n_tail te) pi /\
               exists pre c, pi = pre ++ c :: n_tail te /\ In c cands /\ ~ In c (n_tail te) /\ ~ In c (n_explored te1))).
    { intros pi Hal. destruct (SC_head _ _ _ _ _ _ _ Hsc Hal) as [Hs|Hs].
      - destruct (popped_child cands winner Hnd h lb (fe_id x) pi Hh Hx Hal Hs Eexp Hnf) as [pre [c [H1 [H2 [H3 H4]]]]].
        fold te in H1, H3, H4.
        destruct (Nat.eq_dec c next) as [Hc|Hc].
        + left. eapply scov_lb; [exact Hdl|]. apply Hnew1. subst c. exists pre. exact H1.
        + right. split; [apply Hs|]. exists pre, c. repeat split; auto. rewrite Hexpl1. intro Hin.
          apply in_app_or in Hin. destruct Hin as [Hin|[Hin|[]]]; [contradiction | apply Hc; symmetry; exact Hin].
      - left. eapply scov_lb; [exact Hdl|]. apply Hp1. exact Hs. }
    fold te1. rewrite Hid1. fold lb1.
    destruct (anc_le h1 te1 lb1) as [an|] eqn:Eanc1.
    { destruct (anc_le_some _ _ _ _ Eanc1) as [a [Ha1 [Ha2 Ha3]]]. subst an.
      destruct (proj1 (proj2 Hh1) _ _ Hx1 Ha1) as [Halt Haend]. fold te1 in Haend. rewrite Htl1 in Haend.
      pose proof (nvalid_get h1 a Hw1 Halt) as Hva.
      assert (Hfz : frozen h1 lb1 (get h1 a)) by (right; left; exact Ha3).
      intro H. inversion H. subst h' fr' lb'.
      split; [exact Hh1|]. split; [apply FV_replace; assumption|]. split; [|split; [exact Hhj1|split; [|exact Hsa1]]].
      - intros pi Hal. destruct (Hstat pi Hal) as [Hs|[Hend _]].
        + apply scov_replace; assumption.
        + apply scov_replace_new; try assumption. eapply ends_with_trans; eauto.
      - apply FJ_replace; try assumption. intro Hn. exfalso. apply (ole_some_ne _ _ Ha3). exact Hn. }
    destruct (ole (n_est te1) (Some lb1)) eqn:Eest1.
    { pose proof keeps_set_exp_false as Hk.
      assert (Hne : n_est (get h1 (fe_id x)) <> None) by (apply (ole_some_ne _ _ Eest1)).
      assert (Hh' : HI cands (upd h1 (fe_id x) set_exp_false)) by (apply HI_upd; assumption).
      assert (Hhj' : HJ' (upd h1 (fe_id x) set_exp_false)).
      { apply HJ_upd; try assumption; [apply Hh1 | reflexivity | intros _ _; right; exact Hne]. }
      assert (Hx' : fe_id x < length (upd h1 (fe_id x) set_exp_false)) by (rewrite upd_length; exact Hx1).
      pose proof (nvalid_get _ _ (proj1 Hh') Hx') as Hv'.
      assert (Hf' : FV (upd h1 (fe_id x) set_exp_false) fr2) by (apply FV_upd; assumption).
      intro H. inversion H. subst h' fr' lb'.
      split; [exact Hh'|]. split; [apply FV_insert; assumption|]. split; [|split; [exact Hhj'|split]].
      - intros pi Hal. destruct (Hstat pi Hal) as [Hs|[Hend _]].
        + apply scov_insert. apply scov_upd_same; try assumption; [apply Hh1 | intro n; reflexivity].
        + apply scov_insert_new. rewrite (proj1 Hh' _ Hx'). unfold safe.
          rewrite (tail_upd h1 _ _ _ Hw1 Hk Hx1). fold te1. rewrite Htl1. split; [exact Hend|]. left. left.
          rewrite get_upd by assumption. rewrite Nat.eqb_refl. reflexivity.
      - apply FJ_insert; try assumption; [apply FJ_upd_leaf; assumption|].
        intro Hn. exfalso. rewrite get_upd in Hn by assumption. rewrite Nat.eqb_refl in Hn. simpl in Hn. contradiction.
      - apply SA_upd; assumption. }
    assert (Hvte1 : nvalid h1 te1) by (apply nvalid_get; assumption).
    destruct (expand dfun cands p tot nebs cands te1 h1 fr2 lb1) as [[[b h2] fr3] lb2] eqn:Ee.
    destruct b; [discriminate|]. intro H. inversion H. subst h' fr' lb'.
    destruct (expand_inv _ _ _ _ _ _ _ _ _ _ _ _ _ Hh1 Hf2 Hvte1 Ee) as [Hh2 [Hf3 [Hl2 [_ [_ [Hp2 Hnw2]]]]]].
    destruct (expand_J _ _ _ _ _ _ _ _ _ _ _ _ _ _ Hh1 Hhj1 Hf2 Hfj2 Hvte1 (fun y Hy => Hy) Ee) as [_ Hb2].
    destruct (Hb2 eq_refl) as [Hhj2 Hfj3].
    split; [exact Hh2|]. split; [exact Hf3|]. split; [|split; [exact Hhj2|split; [exact Hfj3|]]].
    - intros pi Hal. destruct (Hstat pi Hal) as [Hs|[Hend [pre [c [H1 [H2 [H3 H4]]]]]]]; [apply Hp2; exact Hs|].
      eapply Hnw2; eauto; rewrite Htl1; [exact H3 | exists pre; exact H1].
    - exact (expand_SA dfun cands p tot cands te1 h1 fr2 lb1 false h2 fr3 lb2 Hh1 Hf2 Hvte1 Hsa1 Ee eq_refl).
  Qed.
End StepAll.

(* ------------------------------------------------------------------ the measure *)
Lemma list_sum_ins_sorted (g : fentry -> nat) e x fr : list_sum (map g (ins_sorted e x fr)) = g x + list_sum (map g fr).
Proof.
  induction fr as [|y r IH]; cbn [ins_sorted]; [reflexivity|].
  destruct (ole (fe_est y) (Some e)); [reflexivity|]. simpl. rewrite IH. lia.
Qed.
Lemma list_sum_insert (g : fentry -> nat) fr n : list_sum (map g (insert_node fr n)) = g (fe_of n) + list_sum (map g fr).
Proof.
  unfold insert_node. destruct (negb (n_exp n)).
  - rewrite map_app, list_sum_app. simpl. lia.
  - destruct (n_est n); [apply list_sum_ins_sorted | reflexivity].
Qed.
Lemma list_sum_filter (g : fentry -> nat) f fr : list_sum (map g (filter f fr)) <= list_sum (map g fr).
Proof. induction fr as [|y r IH]; simpl; [lia|]. destruct (f y); simpl; lia. Qed.
Lemma list_sum_le (g g' : fentry -> nat) fr : (forall x, In x fr -> g x <= g' x) -> list_sum (map g fr) <= list_sum (map g' fr).
Proof.
  induction fr as [|y r IH]; simpl; intro H; [lia|].
  pose proof (H y (or_introl eq_refl)). assert (list_sum (map g r) <= list_sum (map g' r)) by (apply IH; intros x Hx; apply H; right; exact Hx). lia.
Qed.

(* geometric sums *)
Fixpoint geo (W k : nat) : nat := match k with 0 => 0 | S k' => W ^ k' + geo W k' end.
Lemma geo_bound W k : 3 <= W -> 2 * geo W k <= W ^ k.
Proof.
  intro HW. induction k as [|k IH]; simpl; [lia|].
  assert (H : 3 * W ^ k <= W * W ^ k) by (apply Nat.mul_le_mono_r; exact HW). lia.
Qed.
Lemma pow_pos W k : 1 <= W -> 1 <= W ^ k.
Proof. intro H. induction k; simpl; [lia|]. nia. Qed.

Section Measure.
  Variable cands : list cand.
  Let n := length cands.
  Let W := n + 3.

  Definition frozenb (h : heap) (lb : Q) (N : node) : bool :=
    negb (n_exp N) || ole (n_est N) (Some lb) ||
    match n_anc N with Some a => ole (n_est (get h a)) (Some lb) | None => false end.
  Definition wt (h : heap) (lb : Q) (x : fentry) : nat :=
    if frozenb h lb (get h (fe_id x)) then 0 else W ^ (n - length (n_tail (get h (fe_id x)))).
  Definition Phi (h : heap) (fr : list fentry) (lb : Q) : nat := list_sum (map (wt h lb) fr).
  Definition psi (h : heap) (x : fentry) : nat := if n_exp (get h (fe_id x)) then S (fe_id x) else 0.
  Definition Psi (h : heap) (fr : list fentry) : nat := list_sum (map (psi h) fr).

  Lemma frozenb_lb h lb lb' N : (lb <= lb')%Q -> frozenb h lb N = true -> frozenb h lb' N = true.
  Proof.
    intros Hle. unfold frozenb. intro H. apply orb_true_iff in H. destruct H as [H|H].
    - apply orb_true_iff in H. destruct H as [H|H]; [rewrite H; reflexivity|].
      rewrite (ole_mono _ _ _ Hle H). rewrite orb_true_r. reflexivity.
    - destruct (n_anc N) as [a|]; [|discriminate]. rewrite (ole_mono _ _ _ Hle H). apply orb_true_r.
  Qed.
  Lemma wt_lb h lb lb' x : (lb <= lb')%Q -> wt h lb' x <= wt h lb x.
  Proof.
    intro Hle. unfold wt. destruct (frozenb h lb (get h (fe_id x))) eqn:E.
    - rewrite (frozenb_lb _ _ _ _ Hle E). lia.
    - destruct (frozenb h lb' (get h (fe_id x))); lia.
  Qed.
  Lemma Phi_lb h fr lb lb' : (lb <= lb')%Q -> Phi h fr lb' <= Phi h fr lb.
  Proof. intro Hle. unfold Phi. apply list_sum_le. intros x _. apply wt_lb. exact Hle. Qed.

  (* heap changes that keep the relevant fields of the nodes referred to *)
  Lemma wt_heap h h' lb x :
    n_tail (get h' (fe_id x)) = n_tail (get h (fe_id x)) -> n_est (get h' (fe_id x)) = n_est (get h (fe_id x)) ->
    n_anc (get h' (fe_id x)) = n_anc (get h (fe_id x)) ->
    (n_exp (get h (fe_id x)) = false -> n_exp (get h' (fe_id x)) = false) ->
    (forall a, n_anc (get h (fe_id x)) = Some a -> n_est (get h' a) = n_est (get h a)) ->
    wt h' lb x <= wt h lb x.
  Proof.
    intros Ht He Ha Hx Hanc. unfold wt, frozenb. rewrite Ht, He, Ha.
    destruct (n_exp (get h (fe_id x))) eqn:Ex.
    - destruct (n_exp (get h' (fe_id x))); simpl.
      + destruct (n_anc (get h (fe_id x))) as [a|] eqn:Ea; [rewrite (Hanc a eq_refl)|]; lia.
      + lia.
    - rewrite (Hx eq_refl). simpl. lia.
  Qed.

  Lemma wt_le h lb x : wt h lb x <= W ^ (n - length (n_tail (get h (fe_id x)))).
  Proof. unfold wt. destruct (frozenb h lb (get h (fe_id x))); lia. Qed.

  Lemma Phi_insert h fr lb nd : Phi h (insert_node fr nd) lb = wt h lb (fe_of nd) + Phi h fr lb.
  Proof. unfold Phi. apply list_sum_insert. Qed.
  Lemma Phi_filter h fr lb f : Phi h (filter f fr) lb <= Phi h fr lb.
  Proof. unfold Phi. apply list_sum_filter. Qed.
  Lemma Phi_replace h fr lb a : Phi h (replace_desc fr a) lb <= wt h lb (fe_of a) + Phi h fr lb.
  Proof. unfold replace_desc. rewrite Phi_insert. pose proof (Phi_filter h fr lb (fun x => negb (is_desc (fe_tail x) (n_tail a)))). lia. Qed.
  Lemma Psi_insert h fr nd : Psi h (insert_node fr nd) = psi h (fe_of nd) + Psi h fr.
  Proof. unfold Psi. apply list_sum_insert. Qed.
  Lemma Psi_replace h fr a : Psi h (replace_desc fr a) <= psi h (fe_of a) + Psi h fr.
  Proof.
    unfold replace_desc. rewrite Psi_insert. unfold Psi.
    pose proof (list_sum_filter (psi h) (fun x => negb (is_desc (fe_tail x) (n_tail a))) fr). lia.
  Qed.
End Measure.

Section MeasureStep.
  Variable dfun : nat -> nat -> nat -> Q.
  Variable cands : list cand.
  Variable p : profile.
  Variable tot : nat.
  Variable hint : list cand.
  Variable winner : cand.
  Hypothesis Hnd : NoDup cands.
  Let nebs := neb_table dfun cands p tot.
  Let HJ' := HJ dfun cands p tot winner.
  Let n := length cands.
  Let W := n + 3.
  Let Phi' := Phi cands.
  Let wt' := wt cands.

  Lemma Phi_cons nd h fr lb : aok h -> FV h fr -> Phi' (nd :: h) fr lb <= Phi' h fr lb.
  Proof.
    intros Ha Hf. unfold Phi', Phi. apply list_sum_le. intros x Hx. destruct (Hf x Hx) as [Hi _].
    apply wt_heap; rewrite ?get_cons_old by exact Hi; auto.
    intros a Hanc. destruct (Ha _ _ Hi Hanc) as [Halt _]. rewrite get_cons_old by exact Halt. reflexivity.
  Qed.
  Lemma Phi_upd h fr lb id f : hwf h -> aok h -> keeps f -> FV h fr -> Phi' (upd h id f) fr lb <= Phi' h fr lb.
  Proof.
    intros Hw Ha Hk Hf. unfold Phi', Phi. apply list_sum_le. intros x Hx. destruct (Hf x Hx) as [Hi _].
    assert (Hc : forall j, j < length h -> n_est (get (upd h id f) j) = n_est (get h j)).
    { intros j Hj. rewrite get_upd by assumption. destruct (Nat.eqb j id); [apply Hk | reflexivity]. }
    apply wt_heap.
    - apply tail_upd; assumption.
    - apply Hc. exact Hi.
    - rewrite get_upd by assumption. destruct (Nat.eqb (fe_id x) id); [apply Hk | reflexivity].
    - rewrite get_upd by assumption. destruct (Nat.eqb (fe_id x) id); [apply Hk | auto].
    - intros a Hanc. destruct (Ha _ _ Hi Hanc) as [Halt _]. apply Hc. exact Halt.
  Qed.

  Definition nw (nd : node) : nat := if n_exp nd then W ^ (n - length (n_tail nd)) else 0.

  Lemma wt_fe_of h lb nd : nvalid h nd -> wt' h lb (fe_of nd) <= nw nd.
  Proof.
    intros [_ Hv2]. unfold wt', wt, nw, frozenb. change (fe_id (fe_of nd)) with (n_id nd). rewrite Hv2.
    destruct (n_exp nd); [|apply Nat.le_0_l]. cbn [negb orb].
    destruct (ole (n_est nd) (Some lb) || match n_anc nd with Some a => ole (n_est (get h a)) (Some lb) | None => false end);
      [apply Nat.le_0_l | apply le_n].
  Qed.
  Lemma wt_frozen_est h lb nd : nvalid h nd -> ole (n_est nd) (Some lb) = true -> wt' h lb (fe_of nd) = 0.
  Proof.
    intros [_ Hv2] Ho. unfold wt', wt, frozenb. change (fe_id (fe_of nd)) with (n_id nd). rewrite Hv2, Ho.
    rewrite orb_true_r. reflexivity.
  Qed.
  Lemma wt_leaf h lb nd : nvalid h nd -> n_exp nd = false -> wt' h lb (fe_of nd) = 0.
  Proof.
    intros [_ Hv2] Hx. unfold wt', wt, frozenb. change (fe_id (fe_of nd)) with (n_id nd). rewrite Hv2, Hx. reflexivity.
  Qed.

  Lemma manage_Phi h fr lb newn fr' lb' t :
    HI cands h -> FV h fr -> nvalid h newn ->
    manage_node h fr lb newn = (false, fr', lb', t) -> Phi' h fr' lb' <= Phi' h fr lb + nw newn.
  Proof.
    intros [Hw [Ha He]] Hf Hv. unfold manage_node.
    destruct (n_exp newn) eqn:Eexp.
    - intro H. inversion H. subst. unfold Phi'. rewrite Phi_insert. pose proof (wt_fe_of h lb' newn Hv). unfold wt' in *. lia.
    - set (ba := match n_anc newn with Some a => get h a | None => dummy_node end).
      assert (Hins : forall l1, (lb <= l1)%Q -> Phi' h (insert_node fr newn) l1 <= Phi' h fr lb + nw newn).
      { intros l1 Hl. unfold Phi'. rewrite Phi_insert. pose proof (wt_leaf h l1 newn Hv Eexp) as H0. unfold wt' in H0. rewrite H0.
        pose proof (Phi_lb cands h fr lb l1 Hl). lia. }
      assert (Hrep : forall eb, n_est ba = Some eb -> Phi' h (replace_desc fr ba) (Qmaxb lb eb) <= Phi' h fr lb + nw newn).
      { intros eb Eb. unfold ba in *. destruct (n_anc newn) as [a|] eqn:Eanc; [|simpl in Eb; discriminate].
        destruct Hv as [Hv1 Hv2].
        assert (Hanc : n_anc (get h (n_id newn)) = Some a) by (rewrite Hv2; exact Eanc).
        destruct (Ha _ _ Hv1 Hanc) as [Halt _]. pose proof (nvalid_get h a Hw Halt) as Hva.
        pose proof (Phi_replace cands h fr (Qmaxb lb eb) (get h a)) as H1.
        assert (H0 : wt' h (Qmaxb lb eb) (fe_of (get h a)) = 0).
        { apply wt_frozen_est; [exact Hva|]. rewrite Eb. simpl. apply Qle_bool_iff. apply Qmaxb_r. }
        unfold wt' in H0. rewrite H0 in H1. pose proof (Phi_lb cands h fr lb (Qmaxb lb eb) (Qmaxb_l lb eb)).
        unfold Phi'. lia. }
      destruct (n_est newn) as [en|] eqn:En; destruct (n_est ba) as [eb|] eqn:Eb.
      + destruct (ole (Some eb) (Some en)); intro H; inversion H; subst; [apply (Hrep eb eq_refl) | apply Hins; apply Qmaxb_l].
      + destruct (ole None (Some en)) eqn:Eo; intro H; inversion H; subst; [simpl in Eo; discriminate | apply Hins; apply Qmaxb_l].
      + destruct (ole (Some eb) None) eqn:Eo; intro H; inversion H; subst; [apply (Hrep eb eq_refl) | apply Hins; lra].
      + intro H. discriminate.
  Qed.

  Lemma nw_child id c tl anc dv :
    nw (new_node dfun cands p tot nebs id (c :: tl) anc dv) <= W ^ (n - S (length tl)).
  Proof. unfold nw. destruct (n_exp _); [apply le_n | apply Nat.le_0_l]. Qed.

  Lemma expand_Phi cs : forall te h fr lb h' fr' lb',
    HI cands h -> FV h fr -> nvalid h te ->
    expand dfun cands p tot nebs cs te h fr lb = (false, h', fr', lb') ->
    Phi' h' fr' lb' <= Phi' h fr lb + length cs * W ^ (n - S (length (n_tail te))).
  Proof.
    induction cs as [|c r IH]; intros te h fr lb h' fr' lb' Hh Hf Hv; cbn [expand].
    - intro H. inversion H. subst. simpl. lia.
    - destruct (negb (mem c (n_tail te)) && negb (mem c (n_explored te))).
      + destruct (push_child dfun cands p tot nebs h te c false Hh Hv) as [Hh1 [Hv1 [Hex1 Htl1]]].
        pose proof (nw_child (length h) c (n_tail te) (anc_for_child h te) false) as Hnw.
        set (newn := new_node dfun cands p tot nebs (length h) (c :: n_tail te) (anc_for_child h te) false) in *.
        pose proof (FV_cons newn h fr Hf) as Hf1.
        destruct (manage_node (newn :: h) fr lb newn) as [[[b1 f1] l1] t1] eqn:Em.
        destruct b1; [discriminate|]. intro He.
        destruct (manage_ok _ _ _ _ _ _ _ _ Hh1 Hf1 Hv1 Hex1 Em) as [_ [Hf2 _]].
        pose proof (manage_Phi (newn :: h) fr lb newn f1 l1 t1 Hh1 Hf1 Hv1 Em) as H1.
        pose proof (Phi_cons newn h fr lb (proj1 (proj2 Hh)) Hf) as H2.
        pose proof (IH te (newn :: h) f1 l1 h' fr' lb' Hh1 Hf2 (nvalid_cons newn h te Hv) He) as H3.
        simpl length. lia.
      + intro He. pose proof (IH te h fr lb h' fr' lb' Hh Hf Hv He). simpl length. lia.
  Qed.

  Lemma missing_cand tl : length tl < n -> exists c, In c cands /\ ~ In c tl.
  Proof.
    intro Hl. destruct (existsb (fun c => negb (mem c tl)) cands) eqn:E.
    - apply existsb_exists in E. destruct E as [c [Hc Hm]]. exists c. split; [exact Hc|].
      apply negb_true_iff in Hm. apply mem_false in Hm. exact Hm.
    - exfalso. assert (Hinc : incl cands tl).
      { intros c Hc. destruct (mem c tl) eqn:Em; [apply mem_In; exact Em|].
        assert (Hex : existsb (fun c => negb (mem c tl)) cands = true) by (apply existsb_exists; exists c; rewrite Em; auto).
        congruence. }
      pose proof (NoDup_incl_length Hnd Hinc). unfold n in Hl. lia.
  Qed.

  Lemma dive_Phi fuel : forall h fr lb nid h' fr' dlb,
    HI cands h -> FV h fr -> nid < length h -> length (n_tail (get h nid)) < n ->
    perform_dive dfun cands p tot hint nebs fuel h fr lb nid = Some (h', fr', Some dlb) ->
    Phi' h' fr' dlb <= Phi' h fr lb + geo W (n - length (n_tail (get h nid))).
  Proof.
    induction fuel as [|f IH]; intros h fr lb nid h' fr' dlb Hh Hf Hnid HL; cbn [perform_dive]; [discriminate|].
    destruct (filter (fun c => negb (mem c (n_tail (get h nid)))) cands) as [|r0 rest]; [discriminate|].
    set (next := dive_choice hint r0 rest).
    set (h1 := upd h nid (add_explored next)).
    assert (Hw : hwf h) by apply Hh. assert (Hao : aok h) by apply Hh.
    pose proof (keeps_add_explored next) as Hk.
    assert (Hh1 : HI cands h1) by (apply HI_upd; assumption).
    assert (Hf1 : FV h1 fr) by (apply FV_upd; assumption).
    assert (Hlen1 : length h1 = length h) by apply upd_length.
    assert (Hanc : forall a, anc_for_child h (get h nid) = Some a ->
                     a < length h1 /\ ends_with (n_tail (get h1 a)) (next :: n_tail (get h nid))).
    { intros a Ha. destruct (anc_child_ok cands h (get h nid) next a Hh (nvalid_get h nid Hw Hnid) Ha) as [H1 H2].
      rewrite Hlen1. split; [exact H1|]. unfold h1. rewrite (tail_upd h nid _ a Hw Hk H1). exact H2. }
    destruct (push_node dfun cands p tot nebs h1 (next :: n_tail (get h nid)) (anc_for_child h (get h nid)) true Hh1 Hanc)
      as [Hh2 [Hv2 [Hex2 Htl2]]].
    pose proof (nw_child (length h1) next (n_tail (get h nid)) (anc_for_child h (get h nid)) true) as Hnw.
    set (newn := new_node dfun cands p tot nebs (length h1) (next :: n_tail (get h nid)) (anc_for_child h (get h nid)) true) in *.
    pose proof (FV_cons newn h1 fr Hf1) as Hf2.
    destruct (manage_node (newn :: h1) fr lb newn) as [[[b1 f1] l1] t1] eqn:Em.
    destruct b1; [intro H; discriminate|].
    destruct (manage_ok _ _ _ _ _ _ _ _ Hh2 Hf2 Hv2 Hex2 Em) as [_ [Hf3 [_ [_ Hterm]]]].
    pose proof (manage_Phi (newn :: h1) fr lb newn f1 l1 t1 Hh2 Hf2 Hv2 Em) as H1.
    pose proof (Phi_cons newn h1 fr lb (proj1 (proj2 Hh1)) Hf1) as H2.
    pose proof (Phi_upd h fr lb nid (add_explored next) Hw Hao Hk Hf) as H3. fold h1 in H3.
    set (L := length (n_tail (get h nid))) in *.
    assert (Hk1 : n - L = S (n - S L)) by lia. rewrite Hk1. cbn [geo].
    destruct t1.
    - intro H. inversion H. subst. lia.
    - intro Hrec. specialize (Hterm eq_refl).
      assert (HL2 : length (n_tail (get (newn :: h1) (n_id newn))) < n).
      { destruct Hv2 as [_ Hv2]. rewrite Hv2, Htl2. simpl length. fold L.
        pose proof (new_node_exp dfun cands p tot nebs _ _ _ _ Hterm) as Hne. simpl length in Hne. fold L in Hne. unfold n. lia. }
      pose proof (IH _ _ _ _ _ _ _ Hh2 Hf3 (proj1 Hv2) HL2 Hrec) as H4.
      destruct Hv2 as [_ Hv2']. rewrite Hv2', Htl2 in H4. simpl length in H4. fold L in H4. lia.
  Qed.

  Lemma dive_some fuel : forall h fr lb nid,
    HI cands h -> FV h fr -> nid < length h -> length (n_tail (get h nid)) < n ->
    n - length (n_tail (get h nid)) <= fuel ->
    perform_dive dfun cands p tot hint nebs fuel h fr lb nid <> None.
  Proof.
    induction fuel as [|f IH]; intros h fr lb nid Hh Hf Hnid HL Hfuel; [lia|]. cbn [perform_dive].
    destruct (filter (fun c => negb (mem c (n_tail (get h nid)))) cands) as [|r0 rest] eqn:Ef.
    { exfalso. destruct (missing_cand _ HL) as [c [Hc Hn]].
      assert (Hin : In c (filter (fun c => negb (mem c (n_tail (get h nid)))) cands)).
      { apply filter_In. split; [exact Hc|]. apply negb_true_iff. apply mem_false. exact Hn. }
      rewrite Ef in Hin. destruct Hin. }
    set (next := dive_choice hint r0 rest).
    set (h1 := upd h nid (add_explored next)).
    assert (Hw : hwf h) by apply Hh. assert (Hao : aok h) by apply Hh.
    pose proof (keeps_add_explored next) as Hk.
    assert (Hh1 : HI cands h1) by (apply HI_upd; assumption).
    assert (Hf1 : FV h1 fr) by (apply FV_upd; assumption).
    assert (Hlen1 : length h1 = length h) by apply upd_length.
    assert (Hanc : forall a, anc_for_child h (get h nid) = Some a ->
                     a < length h1 /\ ends_with (n_tail (get h1 a)) (next :: n_tail (get h nid))).
    { intros a Ha. destruct (anc_child_ok cands h (get h nid) next a Hh (nvalid_get h nid Hw Hnid) Ha) as [H1 H2].
      rewrite Hlen1. split; [exact H1|]. unfold h1. rewrite (tail_upd h nid _ a Hw Hk H1). exact H2. }
    destruct (push_node dfun cands p tot nebs h1 (next :: n_tail (get h nid)) (anc_for_child h (get h nid)) true Hh1 Hanc)
      as [Hh2 [Hv2 [Hex2 Htl2]]].
    set (newn := new_node dfun cands p tot nebs (length h1) (next :: n_tail (get h nid)) (anc_for_child h (get h nid)) true) in *.
    pose proof (FV_cons newn h1 fr Hf1) as Hf2.
    destruct (manage_node (newn :: h1) fr lb newn) as [[[b1 f1] l1] t1] eqn:Em.
    destruct b1; [discriminate|].
    destruct (manage_ok _ _ _ _ _ _ _ _ Hh2 Hf2 Hv2 Hex2 Em) as [_ [Hf3 [_ [_ Hterm]]]].
    destruct t1; [discriminate|]. specialize (Hterm eq_refl).
    set (L := length (n_tail (get h nid))) in *.
    assert (Hne : S L <> n).
    { pose proof (new_node_exp dfun cands p tot nebs _ _ _ _ Hterm) as Hne. simpl length in Hne. exact Hne. }
    destruct Hv2 as [Hv2a Hv2b].
    apply IH; try assumption; rewrite Hv2b, Htl2; simpl length; fold L; lia.
  Qed.


  Let Psi' := Psi.

  Lemma Psi_upd_leaf h fr id : hwf h -> FV h fr -> Psi' (upd h id set_exp_false) fr <= Psi' h fr.
  Proof.
    intros Hw Hf. unfold Psi', Psi. apply list_sum_le. intros x Hx. unfold psi.
    rewrite get_upd by (try assumption; apply (Hf x Hx)). destruct (Nat.eqb (fe_id x) id); [simpl|apply le_n].
    destruct (n_exp (get h (fe_id x))); lia.
  Qed.

  Lemma exp_short h i : HI cands h -> HJ' h -> i < length h -> n_exp (get h i) = true -> length (n_tail (get h i)) < n.
  Proof.
    intros [_ [_ He]] [_ [J2 _]] Hi Hexp. pose proof (He i Hi Hexp) as Hne.
    destruct (J2 i Hi) as [_ [T2 [T3 _]]]. pose proof (NoDup_incl_length T2 T3). unfold n. lia.
  Qed.

  Lemma unfrozen_wt h lb x : n_exp (get h (fe_id x)) = true -> anc_le h (get h (fe_id x)) lb = None ->
    ole (n_est (get h (fe_id x))) (Some lb) = false ->
    wt' h lb x = W ^ (n - length (n_tail (get h (fe_id x)))).
  Proof.
    intros H1 H2 H3. unfold wt', wt, frozenb. rewrite H1, H3. cbn [negb orb].
    destruct (n_anc (get h (fe_id x))) as [a|] eqn:Ea; [|reflexivity].
    rewrite (anc_le_none _ _ _ _ H2 Ea). reflexivity.
  Qed.

  Lemma pow_step k : n * W ^ k < W ^ S k.
  Proof. cbn [Nat.pow]. pose proof (pow_pos W k ltac:(unfold W; lia)). unfold W in *. nia. Qed.

  (* every iteration decreases (Phi, Psi) lexicographically *)
  Lemma step_measure h fr lb h' fr' lb' :
    ALL dfun cands p tot winner h fr lb -> step dfun cands p tot hint nebs h fr lb = SNext h' fr' lb' ->
    Phi' h' fr' lb' < Phi' h fr lb \/ (Phi' h' fr' lb' <= Phi' h fr lb /\ Psi' h' fr' < Psi' h fr).
  Proof.
    intros [Hh [Hf [Hsc [Hhj [Hfj Hsa]]]]]. unfold step.
    destruct fr as [|x fr1]; [discriminate|].
    assert (Hw : hwf h) by apply Hh. assert (Hao : aok h) by apply Hh.
    assert (Hx : fe_id x < length h) by (apply (Hf x); left; reflexivity).
    assert (Hf1 : FV h fr1) by (eapply FV_tail; eauto).
    set (te := get h (fe_id x)).
    assert (Hidte : n_id te = fe_id x) by (apply Hw; exact Hx).
    assert (Hvte : nvalid h te) by (apply nvalid_get; assumption).
    assert (HPhi0 : Phi' h (x :: fr1) lb = wt' h lb x + Phi' h fr1 lb) by reflexivity.
    assert (HPsi0 : Psi' h (x :: fr1) = psi h x + Psi' h fr1) by reflexivity.
    destruct (negb (n_exp te)) eqn:Eexp; [discriminate|].
    apply negb_false_iff in Eexp.
    assert (Hpsix : psi h x = S (fe_id x)) by (unfold psi; fold te; rewrite Eexp; reflexivity).
    destruct (anc_le h te lb) as [an|] eqn:Eanc.
    { destruct (anc_le_some _ _ _ _ Eanc) as [a [Ha1 [Ha2 Ha3]]]. subst an.
      destruct (Hao _ _ Hx Ha1) as [Halt _]. pose proof (nvalid_get h a Hw Halt) as Hva.
      pose proof (Hsa _ _ Hx Ha1) as Hlt.
      intro H. inversion H. subst h' fr' lb'. right.
      pose proof (Phi_replace cands h fr1 lb (get h a)) as H1.
      pose proof (wt_frozen_est h lb (get h a) Hva Ha3) as H0. unfold wt' in H0. rewrite H0 in H1.
      pose proof (Psi_replace cands h fr1 (get h a)) as H2.
      assert (Hpa : psi h (fe_of (get h a)) <= S a).
      { unfold psi. change (fe_id (fe_of (get h a))) with (n_id (get h a)). rewrite (Hw a Halt). destruct (n_exp (get h a)); lia. }
      unfold Phi', Psi' in *. split; lia. }
    destruct (ole (n_est te) (Some lb)) eqn:Eest.
    { rewrite Hidte. pose proof keeps_set_exp_false as Hk.
      assert (Hh' : HI cands (upd h (fe_id x) set_exp_false)) by (apply HI_upd; assumption).
      assert (Hx' : fe_id x < length (upd h (fe_id x) set_exp_false)) by (rewrite upd_length; exact Hx).
      pose proof (nvalid_get _ _ (proj1 Hh') Hx') as Hv'.
      assert (Hleaf : n_exp (get (upd h (fe_id x) set_exp_false) (fe_id x)) = false).
      { rewrite get_upd by assumption. rewrite Nat.eqb_refl. reflexivity. }
      intro H. inversion H. subst h' fr' lb'. right.
      unfold Phi'. rewrite Phi_insert. pose proof (wt_leaf _ lb _ Hv' Hleaf) as H0. unfold wt' in H0. rewrite H0.
      pose proof (Phi_upd h fr1 lb (fe_id x) set_exp_false Hw Hao Hk Hf1) as H1.
      unfold Psi'. rewrite Psi_insert.
      assert (Hp0 : psi (upd h (fe_id x) set_exp_false) (fe_of (get (upd h (fe_id x) set_exp_false) (fe_id x))) = 0).
      { unfold psi. change (fe_id (fe_of ?nd)) with (n_id nd). rewrite (proj1 Hh' _ Hx'). rewrite Hleaf. reflexivity. }
      rewrite Hp0. pose proof (Psi_upd_leaf h fr1 (fe_id x) Hw Hf1) as H2.
      unfold Phi', Psi' in *. split; lia. }
    pose proof (exp_short h (fe_id x) Hh Hhj Hx Eexp) as HL. fold te in HL.
    pose proof (unfrozen_wt h lb x Eexp Eanc Eest) as Hwx. fold te in Hwx.
    set (L := length (n_tail te)) in *.
    assert (Hk1 : n - L = S (n - S L)) by lia.
    destruct (n_dive te) eqn:Edive.
    { destruct (expand dfun cands p tot nebs cands te h fr1 lb) as [[[b h2] fr2] lb2] eqn:Ee.
      destruct b; [discriminate|]. intro H. inversion H. subst h' fr' lb'. left.
      pose proof (expand_Phi _ _ _ _ _ _ _ _ Hh Hf1 Hvte Ee) as H1. fold L in H1.
      pose proof (pow_step (n - S L)) as H2. rewrite <- Hk1 in H2. fold n in H1. lia. }
    rewrite Hidte.
    destruct (perform_dive dfun cands p tot hint nebs (S (ncands cands)) h fr1 lb (fe_id x)) as [[[h1 fr2] r]|] eqn:Ed;
      [|discriminate].
    destruct r as [dlb|]; [|discriminate].
    destruct (dive_inv _ _ _ _ _ _ _ _ _ _ _ _ _ _ Hh Hf1 Hx Ed) as [next [_ [_ [Hh1 [Hf2 [Hl1 [Hlen1 [_ [Hte1 _]]]]]]]]].
    fold te in Hte1.
    pose proof (dive_Phi _ _ _ _ _ _ _ _ Hh Hf1 Hx HL Ed) as HD. fold te in HD. fold L in HD. rewrite Hk1 in HD. cbn [geo] in HD.
    pose proof (geo_bound W (n - S L) ltac:(unfold W; lia)) as HG.
    pose proof (pow_step (n - S L)) as HP. cbn [Nat.pow] in HP.
    pose proof (pow_pos W (n - S L) ltac:(unfold W; lia)) as HP1.
    set (lb1 := Qmaxb lb dlb).
    pose proof (Phi_lb cands h1 fr2 dlb lb1 (Qmaxb_r lb dlb)) as HLb.
    assert (Hx1 : fe_id x < length h1) by lia.
    assert (Hw1 : hwf h1) by apply Hh1.
    set (te1 := get h1 (fe_id x)).
    assert (Hid1 : n_id te1 = fe_id x) by (apply Hw1; exact Hx1).
    assert (Htl1 : n_tail te1 = n_tail te) by (unfold te1; rewrite Hte1; reflexivity).
    rewrite Hk1 in Hwx. cbn [Nat.pow] in Hwx.
    fold te1. rewrite Hid1. fold lb1.
    destruct (anc_le h1 te1 lb1) as [an|] eqn:Eanc1.
    { destruct (anc_le_some _ _ _ _ Eanc1) as [a [Ha1 [Ha2 Ha3]]]. subst an.
      destruct (proj1 (proj2 Hh1) _ _ Hx1 Ha1) as [Halt _]. pose proof (nvalid_get h1 a Hw1 Halt) as Hva.
      intro H. inversion H. subst h' fr' lb'. left.
      pose proof (Phi_replace cands h1 fr2 lb1 (get h1 a)) as H1.
      pose proof (wt_frozen_est h1 lb1 (get h1 a) Hva Ha3) as H0. unfold wt' in H0. rewrite H0 in H1.
      unfold Phi' in *. unfold W in *. nia. }
    destruct (ole (n_est te1) (Some lb1)) eqn:Eest1.
    { pose proof keeps_set_exp_false as Hk.
      assert (Hh' : HI cands (upd h1 (fe_id x) set_exp_false)) by (apply HI_upd; assumption).
      assert (Hx' : fe_id x < length (upd h1 (fe_id x) set_exp_false)) by (rewrite upd_length; exact Hx1).
      pose proof (nvalid_get _ _ (proj1 Hh') Hx') as Hv'.
      assert (Hleaf : n_exp (get (upd h1 (fe_id x) set_exp_false) (fe_id x)) = false).
      { rewrite get_upd by assumption. rewrite Nat.eqb_refl. reflexivity. }
      intro H. inversion H. subst h' fr' lb'. left.
      unfold Phi'. rewrite Phi_insert. pose proof (wt_leaf _ lb1 _ Hv' Hleaf) as H0. unfold wt' in H0. rewrite H0.
      pose proof (Phi_upd h1 fr2 lb1 (fe_id x) set_exp_false Hw1 (proj1 (proj2 Hh1)) Hk Hf2) as H1.
      unfold Phi' in *. unfold W in *. nia. }
    assert (Hvte1 : nvalid h1 te1) by (apply nvalid_get; assumption).
    destruct (expand dfun cands p tot nebs cands te1 h1 fr2 lb1) as [[[b h2] fr3] lb2] eqn:Ee.
    destruct b; [discriminate|]. intro H. inversion H. subst h' fr' lb'. left.
    pose proof (expand_Phi _ _ _ _ _ _ _ _ Hh1 Hf2 Hvte1 Ee) as H1. rewrite Htl1 in H1. fold L in H1. fold n in H1.
    unfold Phi' in *. unfold W in *. nia.
  Qed.


  (* the loop never gets stuck: the frontier is never empty and the dive has enough fuel *)
  Lemma step_not_stuck h fr lb : 2 <= n -> ALL dfun cands p tot winner h fr lb ->
    step dfun cands p tot hint nebs h fr lb <> SDone OutOfFuel.
  Proof.
    intros Hn2 [Hh [Hf [Hsc [Hhj [Hfj Hsa]]]]]. unfold step.
    destruct fr as [|x fr1].
    { exfalso. destruct (alt_exists cands winner Hnd Hn2) as [pi Hal]. destruct (Hsc pi Hal) as [y [[] _]]. }
    assert (Hx : fe_id x < length h) by (apply (Hf x); left; reflexivity).
    assert (Hf1 : FV h fr1) by (eapply FV_tail; eauto).
    assert (Hidte : n_id (get h (fe_id x)) = fe_id x) by (apply (proj1 Hh); exact Hx).
    destruct (negb (n_exp (get h (fe_id x)))) eqn:Eexp; [discriminate|]. apply negb_false_iff in Eexp.
    destruct (anc_le h (get h (fe_id x)) lb); [discriminate|].
    destruct (ole (n_est (get h (fe_id x))) (Some lb)); [discriminate|].
    destruct (n_dive (get h (fe_id x))).
    { destruct (expand dfun cands p tot nebs cands (get h (fe_id x)) h fr1 lb) as [[[b h2] fr2] lb2]. destruct b; discriminate. }
    rewrite Hidte.
    pose proof (exp_short h (fe_id x) Hh Hhj Hx Eexp) as HL.
    pose proof (dive_some (S (ncands cands)) h fr1 lb (fe_id x) Hh Hf1 Hx HL) as Hd.
    destruct (perform_dive dfun cands p tot hint nebs (S (ncands cands)) h fr1 lb (fe_id x)) as [[[h1 fr2] r]|].
    - destruct r as [dlb|]; [|discriminate].
      destruct (anc_le h1 (get h1 (fe_id x)) (Qmaxb lb dlb)); [discriminate|].
      destruct (ole (n_est (get h1 (fe_id x))) (Some (Qmaxb lb dlb))); [discriminate|].
      destruct (expand dfun cands p tot nebs cands (get h1 (fe_id x)) h1 fr2 (Qmaxb lb dlb)) as [[[b h2] fr3] lb2]. destruct b; discriminate.
    - exfalso. apply Hd; [|reflexivity]. unfold ncands, n. lia.
  Qed.

  (* TERMINATION of the loop from any state satisfying the invariants *)
  Lemma search_terminates : 2 <= n -> forall a b h fr lb,
    Phi' h fr lb = a -> Psi' h fr = b -> ALL dfun cands p tot winner h fr lb ->
    exists fuel, search dfun cands p tot hint nebs fuel h fr lb <> OutOfFuel.
  Proof.
    intro Hn2. induction a as [a IHa] using lt_wf_ind. induction b as [b IHb] using lt_wf_ind.
    intros h fr lb Ha Hb Hall.
    pose proof (step_not_stuck h fr lb Hn2 Hall) as Hns.
    destruct (step dfun cands p tot hint nebs h fr lb) as [r|h' fr' lb'] eqn:Es.
    - exists 1. rewrite search_step, Es. intro Hc. apply Hns. rewrite Hc. reflexivity.
    - pose proof (step_ALL dfun cands p tot hint winner Hnd h fr lb h' fr' lb' Hall Es) as Hall'.
      destruct (step_measure h fr lb h' fr' lb' Hall Es) as [Hlt|[Hle Hlt]].
      + destruct (IHa (Phi' h' fr' lb') ltac:(lia) (Psi' h' fr') h' fr' lb' eq_refl eq_refl Hall') as [f Hf].
        exists (S f). rewrite search_step, Es. exact Hf.
      + destruct (Nat.eq_dec (Phi' h' fr' lb') a) as [Heq|Hne].
        * destruct (IHb (Psi' h' fr') ltac:(lia) h' fr' lb' Heq eq_refl Hall') as [f Hf].
          exists (S f). rewrite search_step, Es. exact Hf.
        * destruct (IHa (Phi' h' fr' lb') ltac:(lia) (Psi' h' fr') h' fr' lb' eq_refl eq_refl Hall') as [f Hf].
          exists (S f). rewrite search_step, Es. exact Hf.
  Qed.

  Lemma initial_SAid : SAid (fst (initial dfun cands p tot nebs winner)).
  Proof.
    rewrite initial_eq. apply (fold_left_inv (fun st : heap * list fentry => SAid (fst st))).
    - intros i a Hi. simpl in Hi. lia.
    - intros st c Hst _. unfold outer. destruct (Nat.eqb c winner); [exact Hst|].
      apply (fold_left_inv (fun st : heap * list fentry => SAid (fst st))); [exact Hst|].
      intros st1 d0 Hst1 _. unfold inner. destruct (Nat.eqb c d0); [exact Hst1|]. cbv zeta. simpl fst.
      apply SA_cons; [exact Hst1|]. intros a Ha. discriminate.
  Qed.

  Theorem raire_terminates_here : 2 <= n ->
    exists fuel, raire fuel dfun cands p tot winner hint <> None.
  Proof.
    intro Hn2.
    destruct (initial_inv dfun cands p tot nebs winner Hnd (-10 # 1)%Q Hn2) as [Hh [Hf Hsc]].
    destruct (initial_inv2 dfun cands p tot winner) as [_ [_ [Hhj Hfj]]]. fold nebs in Hhj, Hfj.
    assert (Hall : ALL dfun cands p tot winner (fst (initial dfun cands p tot nebs winner))
                       (snd (initial dfun cands p tot nebs winner)) (-10 # 1)%Q).
    { split; [exact Hh|]. split; [exact Hf|]. split; [exact Hsc|]. split; [exact Hhj|]. split; [exact Hfj | apply initial_SAid]. }
    destruct (search_terminates Hn2 _ _ _ _ _ eq_refl eq_refl Hall) as [fuel Hfuel].
    exists fuel. unfold raire. fold nebs.
    destruct (search dfun cands p tot hint nebs fuel (fst (initial dfun cands p tot nebs winner))
                     (snd (initial dfun cands p tot nebs winner)) (-10 # 1)%Q) as [| |h fr].
    - congruence.
    - discriminate.
    - destruct (dedup h fr []); discriminate.
  Qed.

End MeasureStep.

(* ---- TERMINATION: with a duplicate-free list of at least two candidates, some fuel suffices (and by
   RaireAlgo_fuel.raire_fuel_mono every larger fuel gives the same result).  With fewer than two candidates the
   frontier is empty and the model (like the implementation, which raises on max([])) returns nothing. *)
Theorem raire_terminates :
  forall dfun cands p tot winner hint,
    NoDup cands -> 2 <= length cands ->
    exists fuel out, forall fuel', fuel <= fuel' -> raire fuel' dfun cands p tot winner hint = Some out.
Proof.
  intros dfun cands p tot winner hint Hnd Hl.
  destruct (raire_terminates_here dfun cands p tot hint winner Hnd Hl) as [fuel Hf].
  destruct (raire fuel dfun cands p tot winner hint) as [out|] eqn:E; [|congruence].
  exists fuel, out. intros fuel' Hle. eapply raire_fuel_mono; eauto.
Qed.
Print Assumptions raire_terminates.

(* ---- everything together: for a duplicate-free list of at least two candidates the model of the search, given
   enough fuel, returns one well-defined result; it is empty exactly when no audit is possible; otherwise the
   verified checker accepts it and its largest difficulty is the verified optimum (for dfun >= -10 on true comparisons) *)
Theorem raire_total_correct :
  forall dfun cands p tot winner hint,
    NoDup cands -> 2 <= length cands -> dfun_lb dfun tot ->
    exists fuel out,
      (forall fuel', fuel <= fuel' -> raire fuel' dfun cands p tot winner hint = Some out) /\
      (out = [] <-> possible cands p winner = false) /\
      (out <> [] ->
         check_output cands p winner (map fst out) = true /\
         exists d, opt dfun cands p tot winner = Val d /\
                   (forall a tw tl q, In (a, tw, tl, q) out -> (q <= d)%Q) /\
                   (exists a tw tl q, In (a, tw, tl, q) out /\ (d <= q)%Q)).
Proof.
  intros dfun cands p tot winner hint Hnd Hl Hlb.
  destruct (raire_terminates dfun cands p tot winner hint Hnd Hl) as [fuel [out Hf]].
  exists fuel, out. pose proof (Hf fuel (le_n _)) as Hr.
  split; [exact Hf|]. split.
  - eapply raire_model_empty_iff; eauto.
  - intro Hne. split.
    + eapply raire_model_output_checked; eauto.
    + eapply raire_model_optimal; eauto.
Qed.
Print Assumptions raire_total_correct.

(* ---- on an explicit fuel bound (NOT proved).  The measure above bounds the number of expanding iterations by the
   initial value of Phi, at most n(n-1)(n+3)^(n-2), which already exceeds RaireAlgo.default_fuel = 200 n! + 200 for
   n >= 6 (196830 > 144200), and the replacing / leaf-making iterations are only bounded through Psi, which grows
   with the heap; so no bound below default_fuel follows from this measure.  A sharper potential (weight of an
   unfrozen entry = 1 + (number of its unexplored children) * T(depth+1), with T(L) = 1 + (n-L) T(L+1) the size of a
   subtree) would bound the expanding iterations by about e n!, but bounding the other iterations by a constant
   multiple of n! needs "each node object is replaced / made a leaf at most once", i.e. a ghost record of expanded
   objects over the identity heap — not attempted.  That default_fuel suffices is therefore still only checked on
   every run (fuel exhaustion is reported as a disagreement by Run_Raire.agree_algo). *)
