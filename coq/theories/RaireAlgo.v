(* RaireAlgo.v — fuelled executable model of the search itself: shangrla/raire/raire.py compute_raire_assertions
   (agap = 0, log = False) with raire_utils.find_best_audit / manage_node / perform_dive / RaireFrontier /
   NEBAssertion.subsumes / NENAssertion.subsumes / same_as / __lt__.  No proofs here (see RaireAlgo_proofs.v).

   Aliasing.  Python node objects are mutated while shared (frontier entries, other nodes' best_ancestor): only the
   fields `expandable` (set to False) and `explored` (appended to by a dive) ever change after find_best_audit.
   The model keeps a heap of nodes addressed by identity (a node's id is the heap size when it was created), the
   frontier as a list of ids (with the immutable tail and estimate cached), and best_ancestor as an id.  This is
   finer than "one object per tail" (DESIGN C04 (ii)): a node that is re-inserted by replace_descendents while its
   children are still being generated can later be expanded again and create a second object with the tail of a
   child that is still on the frontier; identity-addressing represents that exactly.
   Assertion objects are values: the only mutation of an assertion is rules_out.update during the final
   de-duplication / subsumption passes, which the model performs on the list elements (rules_out is only read as a
   set: min of lengths, all/any, filter — so a list up to permutation and repetition).
   Difficulties are exact rationals (the correspondence passes Fraction-valued functions to the real code), np.inf
   is None. *)
From SV Require Export RaireCheck.
Open Scope nat_scope.

Record asr := mkasr {
  a_as : assertion; a_tw : nat; a_tl : nat; a_d : Q;
  a_ro : list (list cand)          (* rules_out *)
}.

Record node := mknode {
  n_id : nat;
  n_tail : list cand;
  n_best : option asr;             (* best_assertion *)
  n_anc : option nat;              (* best_ancestor (id) *)
  n_exp : bool;                    (* expandable — mutable *)
  n_est : option Q;                (* estimate; None = np.inf *)
  n_explored : list cand;          (* explored — mutable *)
  n_dive : bool                    (* dive_node *)
}.
Definition heap := list node.      (* newest first; ids are 0,1,2,... in creation order *)
Definition dummy_node : node := mknode 0 [] None None false None [] false.
Definition get (h : heap) (id : nat) : node := nth (length h - 1 - id) h dummy_node.
Definition upd (h : heap) (id : nat) (f : node -> node) : heap :=
  map (fun n => if Nat.eqb (n_id n) id then f n else n) h.
Definition set_exp_false (n : node) : node :=
  mknode (n_id n) (n_tail n) (n_best n) (n_anc n) false (n_est n) (n_explored n) (n_dive n).
Definition add_explored (c : cand) (n : node) : node :=
  mknode (n_id n) (n_tail n) (n_best n) (n_anc n) (n_exp n) (n_est n) (n_explored n ++ [c]) (n_dive n).

(* a <= b on estimates, None = inf *)
Definition ole (a b : option Q) : bool :=
  match b with
  | None => true
  | Some y => match a with None => false | Some x => Qle_bool x y end
  end.

(* frontier entry: id, tail, estimate (the last two never change) *)
Definition fentry := (nat * list cand * option Q)%type.
Definition fe_of (n : node) : fentry := (n_id n, n_tail n, n_est n).
Definition fe_id (x : fentry) : nat := fst (fst x).
Definition fe_tail (x : fentry) : list cand := snd (fst x).
Definition fe_est (x : fentry) : option Q := snd x.

(* RaireFrontier.insert_node L607-636 *)
Fixpoint ins_sorted (e : Q) (x : fentry) (fr : list fentry) : list fentry :=
  match fr with
  | [] => [x]
  | y :: r => if ole (fe_est y) (Some e) then x :: y :: r else y :: ins_sorted e x r
  end.
Definition insert_node (fr : list fentry) (n : node) : list fentry :=
  if negb (n_exp n) then fr ++ [fe_of n]
  else match n_est n with
       | None => fe_of n :: fr
       | Some e => ins_sorted e (fe_of n) fr
       end.

Fixpoint list_eqb (a b : list cand) : bool :=
  match a, b with
  | [], [] => true
  | x :: a', y :: b' => Nat.eqb x y && list_eqb a' b'
  | _, _ => false
  end.
(* is_suffix(lista, listb) L413-424: listb ends with lista *)
Definition is_suffix (la lb : list cand) : bool :=
  Nat.leb (length la) (length lb) && list_eqb (skipn (length lb - length la) lb) la.
(* RaireNode.is_descendent_of L531-549 *)
Definition is_desc (t anc : list cand) : bool :=
  Nat.ltb (length anc) (length t) && list_eqb (skipn (length t - length anc) t) anc.
(* RaireFrontier.replace_descendents L577-604 *)
Definition replace_desc (fr : list fentry) (a : node) : list fentry :=
  insert_node (filter (fun x => negb (is_desc (fe_tail x) (n_tail a))) fr) a.

Section Algo.
  Variable dfun : nat -> nat -> nat -> Q.
  Variable cands : list cand.
  Variable p : profile.
  Variable tot : nat.
  Variable hint : list cand.         (* contest.outcome; [] when no order is given *)
  Variable nebs : list (cand * cand * option asr).   (* the matrix of compute_raire_assertions L73-100 *)

  Definition ncands : nat := length cands.

  Definition mk_neb (c d : cand) : option asr :=
    let tw := count (neb_vote_w c) p in
    let tl := count (neb_vote_l c d) p in
    if Nat.ltb tl tw then Some (mkasr (NEB c d) tw tl (dfun tw tl tot) []) else None.
  Definition neb_table : list (cand * cand * option asr) :=
    flat_map (fun c => map (fun d => (c, d, if Nat.eqb c d then None else mk_neb c d)) cands) cands.

  Fixpoint lookup (t : list (cand * cand * option asr)) (c d : cand) : option asr :=
    match t with
    | [] => None
    | (c', d', v) :: r => if Nat.eqb c c' && Nat.eqb d d' then v else lookup r c d
    end.

  (* first candidate of the ballot that is not eliminated *)
  Fixpoint first_standing (elim : list cand) (b : ballot) : option cand :=
    match b with
    | [] => None
    | x :: r => if mem x elim then first_standing elim r else Some x
    end.
  Definition count_for (firsts : list (option cand)) (c : cand) : nat :=
    length (filter (fun o => match o with Some x => Nat.eqb x c | None => false end) firsts).

  (* `if neb != None and (best_asrtn is None or neb.difficulty < best_asrtn.difficulty): best_asrtn = neb` *)
  Definition better (best cand_a : option asr) : option asr :=
    match cand_a with
    | None => best
    | Some nb => match best with
                 | None => Some nb
                 | Some b => if Qlt_bool (a_d nb) (a_d b) then Some nb else best
                 end
    end.

  (* find_best_audit L644-743: the best assertion for a tail *)
  Definition find_best_audit (tail : list cand) : option asr :=
    match tail with
    | [] => None
    | first :: later =>
        let b1 := fold_left (fun best lc => better best (lookup nebs first lc)) later None in
        let elim := filter (fun c => negb (mem c tail)) cands in
        let b2 := fold_left (fun best c => fold_left (fun best ct => better best (lookup nebs c ct)) tail best) elim b1 in
        let firsts := map (first_standing elim) p in
        let tf := count_for firsts first in
        fold_left (fun best lc =>
                     let tl := count_for firsts lc in
                     if Nat.ltb tl tf then
                       let est := dfun tf tl tot in
                       let nen := mkasr (NEN first lc elim) tf tl est [tail] in
                       match best with
                       | None => Some nen
                       | Some b => if Qlt_bool est (a_d b) then Some nen else best
                       end
                     else best) later b2
    end.

  (* RaireNode(tail) + expandable + best_ancestor + find_best_audit, as done at the three creation sites *)
  Definition new_node (id : nat) (tail : list cand) (anc : option nat) (dive : bool) : node :=
    let ba := find_best_audit tail in
    mknode id tail ba anc (negb (Nat.eqb (length tail) ncands)) (option_map a_d ba) [] dive.

  (* `X.best_ancestor if X.best_ancestor != None and X.best_ancestor.estimate <= X.estimate else X` *)
  Definition anc_for_child (h : heap) (x : node) : option nat :=
    match n_anc x with
    | Some a => if ole (n_est (get h a)) (n_est x) then Some a else Some (n_id x)
    | None => Some (n_id x)
    end.

  (* manage_node L746-822 (newn already in the heap): (audit_not_possible, frontier, lowerbound, terminus) *)
  Definition manage_node (h : heap) (fr : list fentry) (lb : Q) (newn : node) : bool * list fentry * Q * bool :=
    if n_exp newn then (false, insert_node fr newn, lb, false)
    else
      let ba := match n_anc newn with Some a => get h a | None => dummy_node end in
      match n_est newn, n_est ba with
      | None, None => (true, fr, lb, true)
      | _, _ =>
          if ole (n_est ba) (n_est newn)
          then (false, replace_desc fr ba, match n_est ba with Some e => Qmaxb lb e | None => lb end, true)
          else (false, insert_node fr newn, match n_est newn with Some e => Qmaxb lb e | None => lb end, true)
      end.

  Fixpoint pos_in (c : cand) (l : list cand) (i : nat) : nat :=
    match l with
    | [] => 0        (* Python would raise ValueError; the correspondence only passes complete orders *)
    | x :: r => if Nat.eqb x c then i else pos_in c r (S i)
    end.
  (* the candidate dived to, perform_dive L868-881 *)
  Definition dive_choice (rem0 : cand) (rest : list cand) : cand :=
    match hint with
    | [] => rem0
    | _ => fst (fold_left (fun bn c => let ipos := pos_in c hint 0 in
                                       if Nat.ltb (snd bn) ipos then (c, ipos) else bn)
                          rest (rem0, pos_in rem0 hint 0))
    end.

  (* perform_dive L825-910: Some (heap, frontier, result), result None = np.inf; outer None = out of fuel *)
  Fixpoint perform_dive (fuel : nat) (h : heap) (fr : list fentry) (lb : Q) (nid : nat)
    : option (heap * list fentry * option Q) :=
    match fuel with
    | 0 => None
    | S f =>
        let nd := get h nid in
        match filter (fun c => negb (mem c (n_tail nd))) cands with
        | [] => None
        | r0 :: rest =>
            let next := dive_choice r0 rest in
            let h1 := upd h nid (add_explored next) in
            let newn := new_node (length h1) (next :: n_tail nd) (anc_for_child h nd) true in
            let h2 := newn :: h1 in
            match manage_node h2 fr lb newn with
            | (true, fr', _, _) => Some (h2, fr', None)
            | (false, fr', lb', true) => Some (h2, fr', Some lb')
            | (false, fr', lb', false) => perform_dive f h2 fr' lb' (n_id newn)
            end
        end
    end.

  (* the expansion loop of compute_raire_assertions L226-250 over contest.candidates *)
  Fixpoint expand (cs : list cand) (te : node) (h : heap) (fr : list fentry) (lb : Q)
    : bool * heap * list fentry * Q :=
    match cs with
    | [] => (false, h, fr, lb)
    | c :: r =>
        if negb (mem c (n_tail te)) && negb (mem c (n_explored te)) then
          let newn := new_node (length h) (c :: n_tail te) (anc_for_child h te) false in
          let h1 := newn :: h in
          match manage_node h1 fr lb newn with
          | (true, fr', lb', _) => (true, h1, fr', lb')
          | (false, fr', lb', _) => expand r te h1 fr' lb'
          end
        else expand r te h fr lb
    end.

  Inductive search_result : Type :=
  | OutOfFuel
  | NotPossible
  | Finished (h : heap) (fr : list fentry).

  Definition anc_le (h : heap) (te : node) (lb : Q) : option node :=
    match n_anc te with
    | Some a => let an := get h a in if ole (n_est an) (Some lb) then Some an else None
    | None => None
    end.

  (* the while loop L151-258 *)
  Fixpoint search (fuel : nat) (h : heap) (fr : list fentry) (lb : Q) : search_result :=
    match fuel with
    | 0 => OutOfFuel
    | S f =>
        match fr with
        | [] => OutOfFuel          (* max([]) raises in Python; cannot happen with >= 2 candidates *)
        | x :: fr1 =>
            let te := get h (fe_id x) in
            if negb (n_exp te) then Finished h fr
            else
              match anc_le h te lb with
              | Some an => search f h (replace_desc fr1 an) lb
              | None =>
                  if ole (n_est te) (Some lb) then
                    let h' := upd h (n_id te) set_exp_false in
                    search f h' (insert_node fr1 (get h' (n_id te))) lb
                  else if n_dive te then
                    match expand cands te h fr1 lb with
                    | (true, _, _, _) => NotPossible
                    | (false, h2, fr2, lb2) => search f h2 fr2 lb2
                    end
                  else
                    match perform_dive (S ncands) h fr1 lb (n_id te) with
                    | None => OutOfFuel
                    | Some (_, _, None) => NotPossible
                    | Some (h1, fr2, Some dlb) =>
                        let lb1 := Qmaxb lb dlb in
                        let te1 := get h1 (n_id te) in
                        match anc_le h1 te1 lb1 with
                        | Some an => search f h1 (replace_desc fr2 an) lb1
                        | None =>
                            if ole (n_est te1) (Some lb1) then
                              let h' := upd h1 (n_id te1) set_exp_false in
                              search f h' (insert_node fr2 (get h' (n_id te1))) lb1
                            else
                              match expand cands te1 h1 fr2 lb1 with
                              | (true, _, _, _) => NotPossible
                              | (false, h2, fr3, lb2) => search f h2 fr3 lb2
                              end
                        end
                    end
              end
        end
    end.

  (* initial frontier L120-140 *)
  Definition initial (winner : cand) : heap * list fentry :=
    fold_left (fun st c =>
                 if Nat.eqb c winner then st
                 else fold_left (fun st d =>
                                   if Nat.eqb c d then st
                                   else let newn := new_node (length (fst st)) [d; c] None false in
                                        (newn :: fst st, insert_node (snd st) newn))
                                cands st)
              cands ([], []).
End Algo.

(* ---- the final passes L268-307 *)
(* same_as (NEBAssertion L366-369, NENAssertion L461-466) *)
Definition same_as (a b : assertion) : bool :=
  match a, b with
  | NEB w l, NEB w' l' => Nat.eqb w w' && Nat.eqb l l'
  | NEN w l e, NEN w' l' e' => Nat.eqb w w' && Nat.eqb l l' && list_eqb e e'
  | _, _ => false
  end.
Definition add_ro (a : asr) (ro : list (list cand)) : asr :=
  mkasr (a_as a) (a_tw a) (a_tl a) (a_d a) (a_ro a ++ ro).

(* merge b into the first member of acc that is the same assertion; None if there is none *)
Fixpoint merge_same (acc : list asr) (b : asr) : option (list asr) :=
  match acc with
  | [] => None
  | a :: r => if same_as (a_as b) (a_as a) then Some (add_ro a (a_ro b) :: r)
              else option_map (cons a) (merge_same r b)
  end.
(* L271-285; None when some frontier node has no assertion *)
Fixpoint dedup (h : heap) (fr : list fentry) (acc : list asr) : option (list asr) :=
  match fr with
  | [] => Some acc
  | x :: r => match n_best (get h (fe_id x)) with
              | None => None
              | Some b => match merge_same acc b with
                          | Some acc' => dedup h r acc'
                          | None => dedup h r (acc ++ [b])
                          end
              end
  end.

(* RaireAssertion.__lt__ key: -1 for no rules_out, else the least length; shifted by one to stay in nat *)
Definition ro_key (a : asr) : nat :=
  match a_ro a with
  | [] => 0
  | r :: rs => S (fold_left (fun m x => Nat.min m (length x)) rs (length r))
  end.
(* sorted(): stable *)
Fixpoint sort_ins (x : asr) (l : list asr) : list asr :=
  match l with
  | [] => [x]
  | y :: r => if Nat.ltb (ro_key x) (ro_key y) then x :: y :: r else y :: sort_ins x r
  end.
Definition sorted_asr (l : list asr) : list asr := fold_left (fun acc x => sort_ins x acc) l [].

Definition idx_or_none (c : cand) (ro : list cand) : option nat := index_of c ro.
(* NEBAssertion.subsumes L371-406 / NENAssertion.subsumes L468-483 *)
Definition subsumes (a other : asr) : bool :=
  match a_as a, a_as other with
  | _, NEB _ _ => false
  | NEB w l, NEN w' l' e' =>
      if Nat.eqb w w' && Nat.eqb l l' then true
      else if Nat.eqb w w' && negb (mem l e') then true
      else if mem w e' && negb (mem l e') then true
      else forallb (fun ro =>
                      match index_of w ro, index_of l ro with
                      | None, None => false                 (* idxw == idxl == -1 *)
                      | Some _, None => false               (* idxl (-1) < idxw *)
                      | None, Some _ => true
                      | Some i, Some j => negb (Nat.eqb i j || Nat.ltb j i)
                      end) (a_ro other)
  | NEN _ _ _, NEN _ _ _ =>
      match a_ro a with
      | [] => false      (* `set(...) == []` is False in Python when the loop body never runs *)
      | _ => forallb (fun o => existsb (fun ro => is_suffix ro o) (a_ro a)) (a_ro other)
      end
  end.
(* first member of final that subsumes x absorbs its rules_out *)
Fixpoint absorb (final : list asr) (x : asr) : option (list asr) :=
  match final with
  | [] => None
  | f :: r => if subsumes f x then Some (add_ro f (a_ro x) :: r) else option_map (cons f) (absorb r x)
  end.
Definition prune_subsumed (l : list asr) : list asr :=
  match l with
  | [] => []
  | a :: r => fold_left (fun final x => match absorb final x with Some f' => f' | None => final ++ [x] end) r [a]
  end.

Definition out_of (l : list asr) : list (assertion * nat * nat * Q) :=
  map (fun a => (a_as a, a_tw a, a_tl a, a_d a)) l.

(* compute_raire_assertions(contest, cvrs, winner, asn_func, log=False, agap=0); None = fuel exhausted *)
Definition raire (fuel : nat) (dfun : nat -> nat -> nat -> Q) (cands : list cand) (p : profile) (tot : nat)
           (winner : cand) (hint : list cand) : option (list (assertion * nat * nat * Q)) :=
  let nebs := neb_table dfun cands p tot in
  let init := initial dfun cands p tot nebs winner in
  match search dfun cands p tot hint nebs fuel (fst init) (snd init) (-10 # 1)%Q with
  | OutOfFuel => None
  | NotPossible => Some []
  | Finished h fr =>
      match dedup h fr [] with
      | None => Some []
      | Some l => Some (out_of (prune_subsumed (sorted_asr l)))
      end
  end.

(* enough for every run seen; the correspondence reports None as a disagreement *)
Definition default_fuel (cands : list cand) : nat := 200 * fact (length cands) + 200.
