(* RaireCheck_proofs.v — correctness of the checkers of RaireCheck.v, for all inputs (any number of candidates,
   any profile).  No axioms; all recursion is structural (explicit fuel in suff_from / opt_from). *)
From SV Require Import RaireCheck.
Open Scope nat_scope.

(* ------------------------------------------------------------------ basics *)
Lemma mem_In c l : mem c l = true <-> In c l.
Proof.
  unfold mem. rewrite existsb_exists. split.
  - intros [x [Hx He]]. apply Nat.eqb_eq in He. subst. exact Hx.
  - intro H. exists c. split; [exact H | apply Nat.eqb_refl].
Qed.
Lemma mem_false c l : mem c l = false <-> ~ In c l.
Proof.
  rewrite <- mem_In. destruct (mem c l); split; intro H.
  - discriminate.
  - exfalso. apply H. reflexivity.
  - intro Hc. discriminate.
  - reflexivity.
Qed.

Lemma subset_spec a b : subset a b = true <-> (forall x, In x a -> In x b).
Proof.
  unfold subset. rewrite forallb_forall. split; intros H x Hx.
  - apply mem_In. apply H. exact Hx.
  - apply mem_In. apply H. exact Hx.
Qed.
Lemma set_eq_spec a b : set_eq a b = true <-> (forall x, In x a <-> In x b).
Proof.
  unfold set_eq. rewrite andb_true_iff, !subset_spec. split.
  - intros [H1 H2] x. split; auto.
  - intro H. split; intros x Hx; apply H; exact Hx.
Qed.

Lemma index_of_None c l : index_of c l = None <-> ~ In c l.
Proof.
  induction l as [|x r IH]; simpl.
  - split; auto.
  - destruct (Nat.eqb x c) eqn:E.
    + apply Nat.eqb_eq in E. subst. split; [discriminate | intro H; exfalso; apply H; left; reflexivity].
    + apply Nat.eqb_neq in E. destruct (index_of c r) eqn:Er; simpl.
      * split; [discriminate|]. intro H. exfalso. apply H. right.
        destruct (in_dec Nat.eq_dec c r) as [Hi|Hn]; [exact Hi|]. apply IH in Hn. discriminate.
      * split; [|reflexivity]. intros _ [H|H]; [congruence|]. apply IH in H; [exact H | reflexivity].
Qed.
Lemma index_of_Some_In c l i : index_of c l = Some i -> In c l.
Proof.
  intro H. destruct (in_dec Nat.eq_dec c l) as [Hi|Hn]; [exact Hi|].
  apply index_of_None in Hn. congruence.
Qed.
Lemma index_of_In c l : In c l -> exists i, index_of c l = Some i.
Proof.
  intro H. destruct (index_of c l) eqn:E; [eauto|]. apply index_of_None in E. contradiction.
Qed.
Lemma index_of_lt c l i : index_of c l = Some i -> i < length l.
Proof.
  revert i. induction l as [|x r IH]; simpl; intros i H; [discriminate|].
  destruct (Nat.eqb x c).
  - inversion H. lia.
  - destruct (index_of c r) eqn:E; simpl in H; [|discriminate]. inversion H. specialize (IH n eq_refl). lia.
Qed.
Lemma index_of_app_l c p t i : index_of c p = Some i -> index_of c (p ++ t) = Some i.
Proof.
  revert i. induction p as [|x r IH]; simpl; intros i H; [discriminate|].
  destruct (Nat.eqb x c); [exact H|].
  destruct (index_of c r) eqn:E; simpl in H; [|discriminate]. rewrite (IH n eq_refl). exact H.
Qed.
Lemma index_of_app_r c p t : ~ In c p -> index_of c (p ++ t) = option_map (fun i => length p + i) (index_of c t).
Proof.
  induction p as [|x r IH]; simpl; intro H.
  - destruct (index_of c t); reflexivity.
  - destruct (Nat.eqb x c) eqn:E.
    + apply Nat.eqb_eq in E. exfalso. apply H. left. exact E.
    + rewrite IH by (intro Hc; apply H; right; exact Hc).
      destruct (index_of c t); reflexivity.
Qed.

(* ------------------------------------------------------------------ before / prefix_before *)
Lemma before_In w l pi : before w l pi = true -> In w pi /\ In l pi /\ w <> l.
Proof.
  unfold before. destruct (index_of w pi) eqn:Ew; [|discriminate].
  destruct (index_of l pi) eqn:El; [|discriminate]. intro H. apply Nat.ltb_lt in H.
  repeat split; eauto using index_of_Some_In. intro Hc. subst. rewrite Ew in El. inversion El. lia.
Qed.

Lemma before_split w l pi : before w l pi = true ->
  exists done rest, pi = done ++ w :: rest /\ In l rest /\ ~ In w done /\ ~ In l done.
Proof.
  induction pi as [|x r IH]; unfold before; simpl; [discriminate|].
  destruct (Nat.eqb x w) eqn:Exw.
  - apply Nat.eqb_eq in Exw. subst x. destruct (Nat.eqb w l) eqn:Ewl.
    + intro H. apply Nat.ltb_lt in H. lia.
    + destruct (index_of l r) eqn:El; simpl; [|discriminate]. intros _.
      exists [], r. simpl. repeat split; auto. eapply index_of_Some_In; eauto.
  - destruct (index_of w r) eqn:Ew; simpl; [|discriminate].
    destruct (Nat.eqb x l) eqn:Exl.
    + intro H. apply Nat.ltb_lt in H. lia.
    + destruct (index_of l r) eqn:El; simpl; [|discriminate]. intro H.
      assert (Hb : before w l r = true).
      { unfold before. rewrite Ew, El. apply Nat.ltb_lt. apply Nat.ltb_lt in H. lia. }
      destruct (IH Hb) as [dn [rs [He [Hl [Hw Hl2]]]]]. exists (x :: dn), rs. subst r. simpl.
      apply Nat.eqb_neq in Exw. apply Nat.eqb_neq in Exl.
      repeat split; auto; intros [Hc|Hc]; auto.
Qed.

Lemma prefix_before_split w pi pre : prefix_before w pi = Some pre ->
  exists rest, pi = pre ++ w :: rest /\ ~ In w pre.
Proof.
  revert pre. induction pi as [|x r IH]; simpl; intros pre H; [discriminate|].
  destruct (Nat.eqb x w) eqn:E.
  - inversion H. subst. apply Nat.eqb_eq in E. subst. exists r. split; auto.
  - destruct (prefix_before w r) eqn:Ep; simpl in H; [|discriminate]. inversion H. subst.
    destruct (IH l eq_refl) as [rest [He Hn]]. exists rest. subst r. split; [reflexivity|].
    apply Nat.eqb_neq in E. intros [Hc|Hc]; auto.
Qed.
Lemma prefix_before_app w p t : ~ In w p -> prefix_before w (p ++ t) = option_map (app p) (prefix_before w t).
Proof.
  induction p as [|x r IH]; simpl; intro H.
  - destruct (prefix_before w t); reflexivity.
  - destruct (Nat.eqb x w) eqn:E.
    + apply Nat.eqb_eq in E. exfalso. apply H. left. exact E.
    + rewrite IH by (intro Hc; apply H; right; exact Hc). destruct (prefix_before w t); reflexivity.
Qed.
Lemma prefix_before_In w pi pre : prefix_before w pi = Some pre -> In w pi.
Proof.
  intro H. destruct (prefix_before_split _ _ _ H) as [rest [He _]]. subst. apply in_or_app. right. left. reflexivity.
Qed.

(* ------------------------------------------------------------------ cover *)
Lemma NoDup_app_disj {A} (p t : list A) : NoDup (p ++ t) -> forall x, In x p -> In x t -> False.
Proof.
  induction p as [|y r IH]; simpl; intros Hnd x Hp Ht; [contradiction|].
  inversion Hnd as [|? ? Hy Hr]. subst. destruct Hp as [Hp|Hp].
  - subst. apply Hy. apply in_or_app. right. exact Ht.
  - eapply IH; eauto.
Qed.

(* cover is a sound sufficient condition: a then contradicts every order p ++ t, p an arrangement of rem *)
Lemma cover_sound a t rem p :
  NoDup (p ++ t) -> (forall x, In x rem <-> In x p) -> cover a t rem = true -> contradicts a (p ++ t) = true.
Proof.
  intros Hnd Hrp Hc. destruct a as [w l | w l e]; simpl in *.
  - apply andb_true_iff in Hc. destruct Hc as [Hl Hc]. apply mem_In in Hl.
    assert (Hlp : ~ In l p) by (intro Hx; eapply NoDup_app_disj; eauto).
    destruct (index_of_In _ _ Hl) as [j Hj].
    unfold before. rewrite (index_of_app_r l p t Hlp), Hj. simpl.
    apply orb_true_iff in Hc. destruct Hc as [Hw | Hb].
    + apply mem_In in Hw. apply Hrp in Hw. destruct (index_of_In _ _ Hw) as [i Hi].
      rewrite (index_of_app_l _ _ t _ Hi). apply Nat.ltb_lt. apply index_of_lt in Hi. lia.
    + unfold before in Hb. destruct (index_of w t) eqn:Ew; [|discriminate]. rewrite Hj in Hb.
      assert (Hwp : ~ In w p).
      { intro Hx. eapply NoDup_app_disj; eauto. eapply index_of_Some_In; eauto. }
      rewrite (index_of_app_r w p t Hwp), Ew. simpl. apply Nat.ltb_lt. apply Nat.ltb_lt in Hb. lia.
  - destruct (prefix_before w t) as [pre|] eqn:Ep; [|discriminate].
    assert (Hwp : ~ In w p).
    { intro Hx. eapply NoDup_app_disj; eauto. eapply prefix_before_In; eauto. }
    rewrite (prefix_before_app w p t Hwp), Ep. simpl.
    apply set_eq_spec. intro x. rewrite set_eq_spec in Hc. rewrite <- Hc, !in_app_iff, Hrp. reflexivity.
Qed.

(* at a leaf (nothing left to place) cover is exactly contradiction *)
Lemma cover_leaf a t : cover a t [] = contradicts a t.
Proof.
  destruct a as [w l | w l e]; simpl; [|reflexivity].
  destruct (before w l t) eqn:Eb.
  - apply before_In in Eb. destruct Eb as [_ [Hl _]]. apply mem_In in Hl. rewrite Hl. reflexivity.
  - apply andb_false_r.
Qed.

(* ------------------------------------------------------------------ removing a candidate *)
Lemma rm_In c l x : In x (rm c l) <-> In x l /\ x <> c.
Proof. unfold rm. split.
  - intro H. apply in_remove in H. exact H.
  - intros [H1 H2]. apply in_in_remove; auto.
Qed.
Lemma rm_length_lt c l : In c l -> length (rm c l) < length l.
Proof. intro H. unfold rm. apply remove_length_lt. exact H. Qed.
Lemma rm_NoDup c l : NoDup l -> NoDup (rm c l).
Proof.
  induction l as [|x r IH]; simpl; intro H; [constructor|]. inversion H as [|? ? Hx Hr]. subst.
  unfold rm in *. simpl. destruct (Nat.eq_dec c x).
  - apply IH. exact Hr.
  - constructor; [|apply IH; exact Hr]. intro Hc. apply in_remove in Hc. apply Hx. apply Hc.
Qed.
Lemma rm_perm c l : NoDup l -> In c l -> Permutation l (c :: rm c l).
Proof.
  intros Hnd Hin. apply NoDup_Permutation.
  - exact Hnd.
  - constructor; [|apply rm_NoDup; exact Hnd]. intro Hc. apply rm_In in Hc. destruct Hc as [_ Hc]. apply Hc. reflexivity.
  - intro x. simpl. rewrite rm_In. split.
    + intro Hx. destruct (Nat.eq_dec c x); [left; exact e | right; split; auto].
    + intros [Hx|[Hx _]]; [subst; exact Hin | exact Hx].
Qed.

(* ------------------------------------------------------------------ suff_from *)
Definition all_contradicted (A : list assertion) (t rem : list cand) : Prop :=
  forall p, Permutation rem p -> exists a, In a A /\ contradicts a (p ++ t) = true.

Lemma NoDup_app_l {A} (p t : list A) : NoDup (p ++ t) -> NoDup p.
Proof.
  induction p as [|y r IH]; simpl; intro H; [constructor|].
  inversion H as [|? ? Hy Hr]. subst. constructor.
  - intro Hc. apply Hy. apply in_or_app. left. exact Hc.
  - apply IH. exact Hr.
Qed.

Lemma suff_leaf A t : existsb (fun a => cover a t []) A = true <-> all_contradicted A t [].
Proof.
  split.
  - intros H p Hp. apply Permutation_nil in Hp. subst p. apply existsb_exists in H.
    destruct H as [a [Ha Hc]]. exists a. split; [exact Ha|]. rewrite cover_leaf in Hc. exact Hc.
  - intro H. destruct (H [] (perm_nil _)) as [a [Ha Hc]]. apply existsb_exists. exists a.
    split; [exact Ha|]. rewrite cover_leaf. exact Hc.
Qed.

Lemma perm_last_rm rem p' c : NoDup rem -> Permutation rem (p' ++ [c]) -> In c rem /\ Permutation (rm c rem) p'.
Proof.
  intros Hnd Hp.
  assert (Hin : In c rem).
  { eapply Permutation_in; [apply Permutation_sym; exact Hp|]. apply in_or_app. right. left. reflexivity. }
  split; [exact Hin|].
  apply Permutation_cons_inv with (a := c).
  eapply Permutation_trans; [apply Permutation_sym, rm_perm; assumption|].
  eapply Permutation_trans; [exact Hp|]. apply Permutation_sym, Permutation_cons_append.
Qed.

Lemma child_NoDup rem t c : NoDup (rem ++ t) -> In c rem -> NoDup (rm c rem ++ c :: t).
Proof.
  intros Hnd Hin. eapply Permutation_NoDup; [|exact Hnd].
  eapply Permutation_trans; [apply Permutation_app_tail, rm_perm|].
  - eapply NoDup_app_l. exact Hnd.
  - exact Hin.
  - simpl. apply Permutation_middle.
Qed.

Lemma suff_from_correct A n : forall t rem,
  length rem <= n -> NoDup (rem ++ t) ->
  (suff_from A n t rem = true <-> all_contradicted A t rem).
Proof.
  induction n as [|n IH]; intros t rem Hlen Hnd.
  - destruct rem as [|c r]; [|simpl in Hlen; lia]. simpl. rewrite orb_false_r. apply suff_leaf.
  - destruct rem as [|c0 r0] eqn:Erem.
    + simpl. rewrite orb_false_r. apply suff_leaf.
    + rewrite <- Erem in *.
      assert (Hne : rem <> []) by (rewrite Erem; discriminate).
      assert (Hndr : NoDup rem) by (eapply NoDup_app_l; exact Hnd).
      assert (Hs : suff_from A (S n) t rem =
                   (existsb (fun a => cover a t rem) A || forallb (fun c => suff_from A n (c :: t) (rm c rem)) rem)).
      { rewrite Erem. reflexivity. }
      rewrite Hs. clear Hs Erem c0 r0. split.
      * intro H. apply orb_true_iff in H. destruct H as [H|H].
        -- intros p Hp. apply existsb_exists in H. destruct H as [a [Ha Hc]]. exists a. split; [exact Ha|].
           apply cover_sound with (rem := rem); auto.
           ++ eapply Permutation_NoDup; [|exact Hnd]. apply Permutation_app_tail. exact Hp.
           ++ intro x. split; intro Hx; [eapply Permutation_in; eauto | eapply Permutation_in; [apply Permutation_sym|]; eauto].
        -- intros p Hp. rewrite forallb_forall in H.
           destruct (@exists_last _ p) as [p' [c Hpc]].
           { intro Hc. subst p. apply Permutation_sym, Permutation_nil in Hp. contradiction. }
           subst p. destruct (perm_last_rm _ _ _ Hndr Hp) as [Hin Hp'].
           specialize (H c Hin).
           apply IH in H.
           ++ destruct (H p' Hp') as [a [Ha Hc]]. exists a. split; [exact Ha|].
              rewrite <- app_assoc. simpl. exact Hc.
           ++ pose proof (rm_length_lt c rem Hin). lia.
           ++ apply child_NoDup; assumption.
      * intro H. apply orb_true_iff. right. apply forallb_forall. intros c Hin.
        apply IH.
        -- pose proof (rm_length_lt c rem Hin). lia.
        -- apply child_NoDup; assumption.
        -- intros p' Hp'.
           assert (Hp : Permutation rem (p' ++ [c])).
           { eapply Permutation_trans; [apply (rm_perm c); assumption|].
             eapply Permutation_trans; [apply perm_skip; exact Hp'|]. apply Permutation_cons_append. }
           destruct (H _ Hp) as [a [Ha Hc]]. exists a. split; [exact Ha|].
           rewrite <- app_assoc in Hc. simpl in Hc. exact Hc.
Qed.

(* ------------------------------------------------------------------ suff_dec *)
Lemma ends_in_other_snoc winner p c : ends_in_other winner (p ++ [c]) = negb (Nat.eqb c winner).
Proof. unfold ends_in_other. rewrite rev_unit. reflexivity. Qed.

Theorem suff_dec_correct cands winner A :
  NoDup cands -> (suff_dec cands winner A = true <-> sufficient cands winner A).
Proof.
  intro Hnd. unfold suff_dec, sufficient, complete_order. rewrite forallb_forall. split.
  - intros H pi Hp He.
    destruct (@exists_last _ pi) as [p [c Hpc]].
    { intro Hc. subst pi. discriminate He. }
    subst pi. rewrite ends_in_other_snoc in He.
    destruct (perm_last_rm _ _ _ Hnd Hp) as [Hin Hp'].
    specialize (H c Hin). apply orb_true_iff in H. destruct H as [H|H].
    + rewrite H in He. discriminate.
    + apply suff_from_correct in H.
      * destruct (H p Hp') as [a Ha]. exists a. exact Ha.
      * pose proof (rm_length_lt c cands Hin). lia.
      * eapply Permutation_NoDup; [|exact Hnd].
        eapply Permutation_trans; [apply (rm_perm c); assumption|]. apply Permutation_cons_append.
  - intros H c Hin. destruct (Nat.eqb c winner) eqn:E; [reflexivity|]. simpl.
    apply suff_from_correct.
    + pose proof (rm_length_lt c cands Hin). lia.
    + eapply Permutation_NoDup; [|exact Hnd].
      eapply Permutation_trans; [apply (rm_perm c); assumption|]. apply Permutation_cons_append.
    + intros p Hp. apply H.
      * eapply Permutation_trans; [apply (rm_perm c); assumption|].
        eapply Permutation_trans; [apply perm_skip; exact Hp|]. apply Permutation_cons_append.
      * rewrite ends_in_other_snoc, E. reflexivity.
Qed.

Lemma sufficient_mono cands winner S S' :
  (forall a, In a S -> In a S') -> sufficient cands winner S -> sufficient cands winner S'.
Proof.
  intros Hinc H pi Hp He. destruct (H pi Hp He) as [a [Ha Hc]]. exists a. split; [apply Hinc; exact Ha | exact Hc].
Qed.

(* ------------------------------------------------------------------ true assertions and valid IRV counts *)
Lemma count_le f g (p : profile) : (forall b, f b = true -> g b = true) -> count f p <= count g p.
Proof.
  intro H. unfold count. induction p as [|b r IH]; simpl; [lia|].
  destruct (f b) eqn:Ef.
  - rewrite (H b Ef). simpl. lia.
  - destruct (g b); simpl; lia.
Qed.
Lemma count_ext f g (p : profile) : (forall b, f b = g b) -> count f p = count g p.
Proof.
  intro H. unfold count. induction p as [|b r IH]; simpl; [reflexivity|]. rewrite H. destruct (g b); simpl; lia.
Qed.

Lemma vfc_not_elim c e b : vote_for_cand c e b = true -> mem c e = false.
Proof.
  induction b as [|x r IH]; simpl; [discriminate|].
  destruct (mem x e) eqn:Ex; [exact IH|]. intro H. apply Nat.eqb_eq in H. subst. exact Ex.
Qed.
Lemma vfc_ext c e e' b : (forall x, mem x e = mem x e') -> vote_for_cand c e b = vote_for_cand c e' b.
Proof.
  intro H. induction b as [|x r IH]; simpl; [reflexivity|]. rewrite <- H, IH. reflexivity.
Qed.
Lemma mem_ext a b : (forall x, In x a <-> In x b) -> forall x, mem x a = mem x b.
Proof.
  intros H x. destruct (mem x b) eqn:E.
  - apply mem_In. apply H. apply mem_In. exact E.
  - apply mem_false. intro Hc. apply H in Hc. apply mem_In in Hc. congruence.
Qed.

Lemma neb_w_vfc w e b : mem w e = false -> neb_vote_w w b = true -> vote_for_cand w e b = true.
Proof.
  intros He H. destruct b as [|x r]; simpl in *; [discriminate|].
  apply Nat.eqb_eq in H. subst x. rewrite He. apply Nat.eqb_refl.
Qed.

Lemma vfc_neb_l w l e b : mem w e = false -> w <> l -> vote_for_cand l e b = true -> neb_vote_l w l b = true.
Proof.
  intros Hw Hne. induction b as [|x r IH]; simpl; [discriminate|].
  destruct (mem x e) eqn:Ex.
  - intro H. pose proof (vfc_not_elim _ _ _ H) as Hl. specialize (IH H).
    assert (Hxl : Nat.eqb x l = false). { apply Nat.eqb_neq. intro Hc. subst. congruence. }
    assert (Hxw : Nat.eqb x w = false). { apply Nat.eqb_neq. intro Hc. subst. congruence. }
    unfold neb_vote_l in *. simpl. rewrite Hxl, Hxw.
    destruct (index_of l r) as [li|]; simpl; [|discriminate].
    destruct (index_of w r) as [wi|]; simpl; [|reflexivity]. exact IH.
  - intro H. apply Nat.eqb_eq in H. subst x. unfold neb_vote_l. simpl. rewrite Nat.eqb_refl.
    assert (Hlw : Nat.eqb l w = false). { apply Nat.eqb_neq. intro Hc. apply Hne. symmetry. exact Hc. }
    rewrite Hlw. destruct (index_of w r); reflexivity.
Qed.

(* A true assertion never contradicts a valid IRV count of the profile. *)
Theorem true_never_contradicts_valid cands p a pi :
  (forall c, In c cands -> In c pi) -> valid_order p pi -> holds cands p a = true -> contradicts a pi = false.
Proof.
  intros Hall Hv Hh. destruct (contradicts a pi) eqn:Hc; [exfalso|reflexivity].
  unfold holds in Hh. apply andb_true_iff in Hh. destruct Hh as [Hwf Hlt]. apply Nat.ltb_lt in Hlt.
  destruct a as [w l | w l e]; simpl in *.
  - destruct (before_In _ _ _ Hc) as [_ [_ Hne]].
    destruct (before_split _ _ _ Hc) as [dn [rest [Hpi [Hl [Hw _]]]]].
    pose proof (Hv dn w rest Hpi l Hl) as Hle. unfold tally in Hle.
    apply mem_false in Hw.
    pose proof (count_le (neb_vote_w w) (vote_for_cand w dn) p (fun b => neb_w_vfc w dn b Hw)) as H1.
    pose proof (count_le (vote_for_cand l dn) (neb_vote_l w l) p (fun b => vfc_neb_l w l dn b Hw Hne)) as H2.
    change (count (neb_vote_l w l) p < count (neb_vote_w w) p) in Hlt. lia.
  - destruct (prefix_before w pi) as [pre|] eqn:Ep; [|discriminate].
    destruct (prefix_before_split _ _ _ Ep) as [rest [Hpi Hwpre]].
    apply andb_true_iff in Hwf. destruct Hwf as [Hwf Hwl]. apply andb_true_iff in Hwf. destruct Hwf as [Hlc Hle].
    apply mem_In in Hlc. apply negb_true_iff in Hle. apply negb_true_iff in Hwl. apply Nat.eqb_neq in Hwl.
    rewrite set_eq_spec in Hc.
    assert (Hlrest : In l rest).
    { pose proof (Hall l Hlc) as Hin. rewrite Hpi in Hin. apply in_app_or in Hin. destruct Hin as [Hin|[Hin|Hin]].
      - apply Hc in Hin. apply mem_In in Hin. congruence.
      - congruence.
      - exact Hin. }
    pose proof (Hv pre w rest Hpi l Hlrest) as Hle2. unfold tally in Hle2.
    pose proof (mem_ext _ _ Hc) as Hm.
    rewrite (count_ext (vote_for_cand w pre) (vote_for_cand w e)) in Hle2 by (intro b; apply vfc_ext; exact Hm).
    rewrite (count_ext (vote_for_cand l pre) (vote_for_cand l e)) in Hle2 by (intro b; apply vfc_ext; exact Hm).
    change (count (vote_for_cand l e) p < count (vote_for_cand w e) p) in Hlt. lia.
Qed.

Definition true_set (cands : list cand) (p : profile) (S : list assertion) : Prop :=
  forall a, In a S -> holds cands p a = true.

(* a sufficient set of true assertions forces every valid count to elect the reported winner *)
Theorem sufficient_true_forces_winner cands p winner S :
  true_set cands p S -> sufficient cands winner S ->
  forall pi, complete_order cands pi -> valid_order p pi -> ends_in_other winner pi = false.
Proof.
  intros Ht Hs pi Hp Hv. destruct (ends_in_other winner pi) eqn:E; [exfalso|reflexivity].
  destruct (Hs pi Hp E) as [a [Ha Hc]].
  rewrite (true_never_contradicts_valid cands p a pi) in Hc.
  - discriminate.
  - intros c Hin. eapply Permutation_in; eauto.
  - exact Hv.
  - apply Ht. exact Ha.
Qed.

(* ------------------------------------------------------------------ check_output *)
Theorem check_output_sound cands p winner out :
  NoDup cands -> check_output cands p winner out = true ->
  (forall a tw tl, In (a, tw, tl) out ->
      holds cands p a = true /\ tally_w p a = tw /\ tally_l p a = tl /\ tl < tw)
  /\ sufficient cands winner (map rep_assertion out).
Proof.
  intros Hnd H. unfold check_output in H. apply andb_true_iff in H. destruct H as [H1 H2]. split.
  - intros a tw tl Hin. rewrite forallb_forall in H1. specialize (H1 _ Hin). simpl in H1.
    apply andb_true_iff in H1. destruct H1 as [H1 Hlt]. apply andb_true_iff in H1. destruct H1 as [H1 Hl].
    apply andb_true_iff in H1. destruct H1 as [Hwf Hw].
    apply Nat.eqb_eq in Hw. apply Nat.eqb_eq in Hl. apply Nat.ltb_lt in Hlt.
    repeat split; auto. unfold holds. rewrite Hwf, Hw, Hl. simpl. apply Nat.ltb_lt. exact Hlt.
  - apply suff_dec_correct; assumption.
Qed.

(* ------------------------------------------------------------------ all_true dominates every true assertion *)
Lemma filter_in_sublists f l : In (filter f l) (sublists l).
Proof.
  induction l as [|x r IH]; simpl; [left; reflexivity|].
  apply in_or_app. destruct (f x); [left; apply in_map; exact IH | right; exact IH].
Qed.
Lemma in_all_NEB cands w l : In w cands -> In l cands -> w <> l -> In (NEB w l) (all_assertions cands).
Proof.
  intros Hw Hl Hne. unfold all_assertions. apply in_flat_map. exists w. split; [exact Hw|].
  apply in_flat_map. exists l. split; [exact Hl|]. apply Nat.eqb_neq in Hne. rewrite Hne. left. reflexivity.
Qed.
Lemma in_all_NEN cands w l e : In w cands -> In l cands -> w <> l -> In e (sublists (rm w (rm l cands))) ->
  In (NEN w l e) (all_assertions cands).
Proof.
  intros Hw Hl Hne He. unfold all_assertions. apply in_flat_map. exists w. split; [exact Hw|].
  apply in_flat_map. exists l. split; [exact Hl|]. apply Nat.eqb_neq in Hne. rewrite Hne. right.
  apply in_map. exact He.
Qed.

Lemma dominate cands p a pi :
  holds cands p a = true -> complete_order cands pi -> contradicts a pi = true ->
  exists a', In a' (all_true cands p) /\ contradicts a' pi = true
             /\ tally_w p a' = tally_w p a /\ tally_l p a' = tally_l p a.
Proof.
  intros Hh Hp Hc. unfold complete_order in Hp.
  assert (Hback : forall x, In x pi -> In x cands).
  { intros x Hx. eapply Permutation_in; [apply Permutation_sym; exact Hp | exact Hx]. }
  destruct a as [w l | w l e].
  - exists (NEB w l). simpl in Hc. destruct (before_In _ _ _ Hc) as [Hw [Hl Hne]].
    repeat split; auto. unfold all_true. apply filter_In. split; [|exact Hh].
    apply in_all_NEB; auto.
  - simpl in Hc. destruct (prefix_before w pi) as [pre|] eqn:Ep; [|discriminate].
    destruct (prefix_before_split _ _ _ Ep) as [rest [Hpi Hwpre]].
    rewrite set_eq_spec in Hc.
    pose proof Hh as Hh'. unfold holds in Hh'. apply andb_true_iff in Hh'. destruct Hh' as [Hwf Hlt].
    simpl in Hwf. apply andb_true_iff in Hwf. destruct Hwf as [Hwf Hwl]. apply andb_true_iff in Hwf.
    destruct Hwf as [Hlc Hle]. apply mem_In in Hlc. apply negb_true_iff in Hle. apply mem_false in Hle.
    apply negb_true_iff in Hwl. apply Nat.eqb_neq in Hwl.
    assert (Hwc : In w cands). { apply Hback. rewrite Hpi. apply in_or_app. right. left. reflexivity. }
    set (e' := filter (fun c => mem c e) (rm w (rm l cands))).
    assert (He' : forall x, In x e' <-> In x e).
    { intro x. unfold e'. rewrite filter_In, !rm_In, mem_In. split; [intros [_ H]; exact H|].
      intro Hx. split; [|exact Hx]. repeat split.
      - apply Hback. rewrite Hpi. apply in_or_app. left. apply Hc. exact Hx.
      - intro Heq. subst. contradiction.
      - intro Heq. subst. apply Hwpre. apply Hc. exact Hx. }
    pose proof (mem_ext _ _ He') as Hm.
    assert (Htw : tally_w p (NEN w l e') = tally_w p (NEN w l e)).
    { unfold tally_w. simpl. apply count_ext. intro b. apply vfc_ext. exact Hm. }
    assert (Htl : tally_l p (NEN w l e') = tally_l p (NEN w l e)).
    { unfold tally_l. simpl. apply count_ext. intro b. apply vfc_ext. exact Hm. }
    exists (NEN w l e'). repeat split; auto.
    + unfold all_true. apply filter_In. split.
      * apply in_all_NEN; auto. apply filter_in_sublists.
      * unfold holds. rewrite Htw, Htl, Hlt. simpl. rewrite andb_true_r.
        apply andb_true_iff. split; [apply andb_true_iff; split|].
        -- apply mem_In. exact Hlc.
        -- apply negb_true_iff. apply mem_false. intro Hx. apply He' in Hx. contradiction.
        -- apply negb_true_iff. apply Nat.eqb_neq. exact Hwl.
    + simpl. rewrite Ep. apply set_eq_spec. intro x. rewrite He'. apply Hc.
Qed.

Lemma all_true_holds cands p : true_set cands p (all_true cands p).
Proof. intros a Ha. unfold all_true in Ha. apply filter_In in Ha. apply Ha. Qed.

Theorem possible_dec_correct cands p winner :
  NoDup cands ->
  (possible cands p winner = true <-> exists S, true_set cands p S /\ sufficient cands winner S).
Proof.
  intro Hnd. unfold possible. rewrite (suff_dec_correct _ _ _ Hnd). split.
  - intro H. exists (all_true cands p). split; [apply all_true_holds | exact H].
  - intros [S [Ht Hs]] pi Hp He. destruct (Hs pi Hp He) as [a [Ha Hc]].
    destruct (dominate cands p a pi (Ht a Ha) Hp Hc) as [a' [Ha' [Hc' _]]]. exists a'. split; assumption.
Qed.

(* if some valid count of the CVRs elects another candidate, no set of true assertions is sufficient *)
Theorem other_winner_not_possible cands p winner pi :
  NoDup cands -> complete_order cands pi -> valid_order p pi -> ends_in_other winner pi = true ->
  possible cands p winner = false.
Proof.
  intros Hnd Hp Hv He. destruct (possible cands p winner) eqn:E; [exfalso|reflexivity].
  apply possible_dec_correct in E; [|exact Hnd]. destruct E as [S [Ht Hs]].
  rewrite (sufficient_true_forces_winner cands p winner S Ht Hs pi Hp Hv) in He. discriminate.
Qed.


(* ------------------------------------------------------------------ property-level combinations (PC04.v) *)
Lemma checked_output_sound_full : forall cands p winner out,
  NoDup cands -> check_output cands p winner out = true ->
  (forall a tw tl, In (a, tw, tl) out ->
      holds cands p a = true /\ tally_w p a = tw /\ tally_l p a = tl /\ tl < tw)
  /\ sufficient cands winner (map rep_assertion out)
  /\ (forall pi, complete_order cands pi -> valid_order p pi -> ends_in_other winner pi = false).
Proof.
  intros cands p winner out Hnd H.
  destruct (check_output_sound cands p winner out Hnd H) as [H1 H2].
  split; [exact H1|]. split; [exact H2|].
  apply (sufficient_true_forces_winner cands p winner (map rep_assertion out)); [|exact H2].
  intros a Ha. apply in_map_iff in Ha. destruct Ha as [[[a' tw] tl] [He Hin]]. unfold rep_assertion in He. simpl in He. subst a.
  apply (H1 a' tw tl Hin).
Qed.

Lemma in_particular : forall cands p winner,
  NoDup cands ->
  (* a true assertion never contradicts a valid IRV count (any tie-breaking) of the profile *)
  (forall a pi, complete_order cands pi -> valid_order p pi -> holds cands p a = true -> contradicts a pi = false)
  (* hence: if some valid count elects another candidate, no set of true assertions is sufficient *)
  /\ (forall pi, complete_order cands pi -> valid_order p pi -> ends_in_other winner pi = true ->
        possible cands p winner = false)
  (* and a sufficient set of true assertions forces every valid count to elect the reported winner *)
  /\ (forall S, true_set cands p S -> sufficient cands winner S ->
        forall pi, complete_order cands pi -> valid_order p pi -> ends_in_other winner pi = false).
Proof.
  intros cands p winner Hnd. split; [|split].
  - intros a pi Hp Hv Hh. apply (true_never_contradicts_valid cands p a pi); auto.
    intros c Hc. eapply Permutation_in; eauto.
  - intros pi Hp Hv He. eapply other_winner_not_possible; eauto.
  - intros S Ht Hs. apply (sufficient_true_forces_winner cands p winner S Ht Hs).
Qed.

(* ------------------------------------------------------------------ optimum *)
Open Scope Q_scope.
Lemma Qle_bool_min a b d : Qle_bool (Qminb a b) d = Qle_bool a d || Qle_bool b d.
Proof.
  unfold Qminb. destruct (Qle_bool a b) eqn:Eab.
  - destruct (Qle_bool a d) eqn:Ead; simpl; [reflexivity|].
    destruct (Qle_bool b d) eqn:Ebd; [exfalso|reflexivity].
    apply Qle_bool_iff in Eab. apply Qle_bool_iff in Ebd. apply Qle_bool_false in Ead. lra.
  - destruct (Qle_bool b d) eqn:Ebd; [rewrite orb_true_r; reflexivity|]. rewrite orb_false_r.
    destruct (Qle_bool a d) eqn:Ead; [exfalso|reflexivity].
    apply Qle_bool_false in Eab. apply Qle_bool_iff in Ead. apply Qle_bool_false in Ebd. lra.
Qed.
Lemma Qle_bool_max a b d : Qle_bool (Qmaxb a b) d = Qle_bool a d && Qle_bool b d.
Proof.
  unfold Qmaxb. destruct (Qle_bool a b) eqn:Eab.
  - destruct (Qle_bool b d) eqn:Ebd; [|rewrite andb_false_r; reflexivity]. rewrite andb_true_r.
    destruct (Qle_bool a d) eqn:Ead; [reflexivity|exfalso].
    apply Qle_bool_iff in Eab. apply Qle_bool_iff in Ebd. apply Qle_bool_false in Ead. lra.
  - destruct (Qle_bool a d) eqn:Ead; simpl; [|reflexivity].
    destruct (Qle_bool b d) eqn:Ebd; [reflexivity|exfalso].
    apply Qle_bool_false in Eab. apply Qle_bool_iff in Ead. apply Qle_bool_false in Ebd. lra.
Qed.
Close Scope Q_scope.

Lemma ele_emin x y d : ele (emin x y) d = ele x d || ele y d.
Proof.
  destruct x as [|a|], y as [|b|]; simpl; try reflexivity.
  - rewrite orb_true_r. reflexivity.
  - apply Qle_bool_min.
  - rewrite orb_false_r. reflexivity.
Qed.
Lemma ele_emax x y d : ele (emax x y) d = ele x d && ele y d.
Proof.
  destruct x as [|a|], y as [|b|]; simpl; try reflexivity.
  - rewrite andb_true_r. reflexivity.
  - apply Qle_bool_max.
  - rewrite andb_false_r. reflexivity.
Qed.

(* the assertions of difficulty <= d *)
Definition filt (d : Q) (T : list (assertion * Q)) : list assertion :=
  map fst (filter (fun aq => Qle_bool (snd aq) d) T).

Lemma here_cons a q T t rem :
  here ((a, q) :: T) t rem = if cover a t rem then emin (Val q) (here T t rem) else here T t rem.
Proof. reflexivity. Qed.
Lemma filt_cons d a q T : filt d ((a, q) :: T) = if Qle_bool q d then a :: filt d T else filt d T.
Proof. unfold filt. simpl. destruct (Qle_bool q d); reflexivity. Qed.

Lemma ele_here T t rem d : ele (here T t rem) d = existsb (fun a => cover a t rem) (filt d T).
Proof.
  induction T as [|[a q] T IH]; [reflexivity|].
  rewrite here_cons, filt_cons.
  destruct (cover a t rem) eqn:Ec.
  - rewrite ele_emin. change (ele (Val q) d) with (Qle_bool q d).
    destruct (Qle_bool q d).
    + change (existsb (fun a0 => cover a0 t rem) (a :: filt d T))
        with (cover a t rem || existsb (fun a0 => cover a0 t rem) (filt d T)).
      rewrite Ec. reflexivity.
    + exact IH.
  - destruct (Qle_bool q d).
    + change (existsb (fun a0 => cover a0 t rem) (a :: filt d T))
        with (cover a t rem || existsb (fun a0 => cover a0 t rem) (filt d T)).
      rewrite Ec. exact IH.
    + exact IH.
Qed.

Lemma ele_fold_emax (f : cand -> ext) l d :
  ele (fold_right (fun c m => emax (f c) m) Bot l) d = forallb (fun c => ele (f c) d) l.
Proof.
  induction l as [|x r IH]; simpl; [reflexivity|]. rewrite ele_emax, IH. reflexivity.
Qed.
Lemma forallb_eq {A} (f g : A -> bool) l : (forall x, f x = g x) -> forallb f l = forallb g l.
Proof. intro H. induction l as [|x r IH]; simpl; [reflexivity|]. rewrite H, IH. reflexivity. Qed.

Lemma opt_from_S T n t rem : rem <> [] ->
  opt_from T (S n) t rem =
  emin (here T t rem) (fold_right (fun c m => emax (opt_from T n (c :: t) (rm c rem)) m) Bot rem).
Proof. destruct rem; [contradiction | reflexivity]. Qed.
Lemma suff_from_S A n t rem : rem <> [] ->
  suff_from A (S n) t rem =
  (existsb (fun a => cover a t rem) A || forallb (fun c => suff_from A n (c :: t) (rm c rem)) rem).
Proof. destruct rem; [contradiction | reflexivity]. Qed.

(* the minimax value is at most d exactly when the assertions of difficulty <= d exclude the whole subtree *)
Lemma opt_from_ele T n : forall t rem d, ele (opt_from T n t rem) d = suff_from (filt d T) n t rem.
Proof.
  induction n as [|n IH]; intros t rem d.
  - simpl. rewrite orb_false_r. apply ele_here.
  - destruct rem as [|c0 r0] eqn:Erem.
    + simpl. rewrite orb_false_r. apply ele_here.
    + rewrite <- Erem. assert (Hne : rem <> []) by (rewrite Erem; discriminate).
      rewrite (opt_from_S _ _ _ _ Hne), (suff_from_S _ _ _ _ Hne), ele_emin, ele_here, ele_fold_emax.
      f_equal. apply forallb_eq. intro c. apply IH.
Qed.

Lemma opt_tree_gen T winner d n cs : forall l,
  ele (fold_right (fun c m => if Nat.eqb c winner then m else emax (opt_from T n [c] (rm c cs)) m) Bot l) d
  = forallb (fun c => Nat.eqb c winner || suff_from (filt d T) n [c] (rm c cs)) l.
Proof.
  induction l as [|x r IH]; [reflexivity|].
  cbn [fold_right forallb]. destruct (Nat.eqb x winner).
  - rewrite IH. reflexivity.
  - rewrite ele_emax, IH, opt_from_ele. reflexivity.
Qed.
Lemma opt_tree_ele T cands winner d : ele (opt_tree T cands winner) d = suff_dec cands winner (filt d T).
Proof. unfold opt_tree, suff_dec. apply opt_tree_gen. Qed.

Section Optimum.
  Variable dfun : nat -> nat -> nat -> Q.
  Variable cands : list cand.
  Variable p : profile.
  Variable tot : nat.
  Variable winner : cand.
  Hypothesis Hnd : NoDup cands.

  Let diff := diff_of dfun p tot.
  Let AT := all_true cands p.

  Lemma filt_with_diff d A :
    filt d (with_diff dfun p tot A) = filter (fun a => Qle_bool (diff a) d) A.
  Proof.
    unfold filt, with_diff. induction A as [|a r IH]; simpl; [reflexivity|].
    fold (diff a). destruct (Qle_bool (diff a) d); simpl; rewrite IH; reflexivity.
  Qed.

  (* opt <= d  iff  the true assertions of difficulty <= d are sufficient *)
  Lemma opt_le_iff d :
    ele (opt dfun cands p tot winner) d = true <->
    sufficient cands winner (filter (fun a => Qle_bool (diff a) d) AT).
  Proof.
    unfold opt. rewrite opt_tree_ele, filt_with_diff. apply suff_dec_correct. exact Hnd.
  Qed.

  (* any sufficient set of true assertions whose difficulties are all <= m can be replaced by members of all_true
     of difficulty <= m *)
  Lemma set_to_filter S m :
    true_set cands p S -> sufficient cands winner S -> (forall a, In a S -> (diff a <= m)%Q) ->
    sufficient cands winner (filter (fun a => Qle_bool (diff a) m) AT).
  Proof.
    intros Ht Hs Hm pi Hp He. destruct (Hs pi Hp He) as [a [Ha Hc]].
    destruct (dominate cands p a pi (Ht a Ha) Hp Hc) as [a' [Ha' [Hc' [Hw Hl]]]].
    exists a'. split; [|exact Hc']. apply filter_In. split; [exact Ha'|].
    apply Qle_bool_iff. unfold diff, diff_of. rewrite Hw, Hl. apply Hm. exact Ha.
  Qed.

  Lemma filter_true_set d : true_set cands p (filter (fun a => Qle_bool (diff a) d) AT).
  Proof. intros a Ha. apply filter_In in Ha. apply all_true_holds. apply Ha. Qed.

  (* largest difficulty of a list, starting from a default *)
  Definition qmax_from (d0 : Q) (S : list assertion) : Q := fold_right (fun a m => Qmaxb (diff a) m) d0 S.
  Lemma qmax_from_ge d0 S : (d0 <= qmax_from d0 S)%Q /\ forall a, In a S -> (diff a <= qmax_from d0 S)%Q.
  Proof.
    induction S as [|x r [IH1 IH2]]; simpl.
    - split; [lra | intros a []].
    - destruct (Qmaxb_spec (diff x) (qmax_from d0 r)) as [[H1 H2]|[H1 H2]]; unfold qmax_from in *; simpl; rewrite H2.
      + split; [exact IH1|]. intros a [Ha|Ha]; [subst; exact H1 | apply IH2; exact Ha].
      + split; [lra|]. intros a [Ha|Ha]; [subst; lra | specialize (IH2 a Ha); lra].
  Qed.
  Lemma qmax_from_attained d0 S : qmax_from d0 S = d0 \/ exists a, In a S /\ qmax_from d0 S = diff a.
  Proof.
    induction S as [|x r IH]; simpl; [left; reflexivity|].
    destruct (Qmaxb_spec (diff x) (qmax_from d0 r)) as [[H1 H2]|[H1 H2]]; unfold qmax_from in *; simpl; rewrite H2.
    - destruct IH as [IH|[a [Ha IH]]]; [left; exact IH | right; exists a; split; [right; exact Ha | exact IH]].
    - right. exists x. split; [left; reflexivity | reflexivity].
  Qed.
  Definition qmin_from (d0 : Q) (S : list assertion) : Q := fold_right (fun a m => Qminb (diff a) m) d0 S.
  Lemma qmin_from_le d0 S : (qmin_from d0 S <= d0)%Q /\ forall a, In a S -> (qmin_from d0 S <= diff a)%Q.
  Proof.
    induction S as [|x r [IH1 IH2]]; simpl.
    - split; [lra | intros a []].
    - destruct (Qminb_spec (diff x) (qmin_from d0 r)) as [[H1 H2]|[H1 H2]]; unfold qmin_from in *; simpl; rewrite H2.
      + split; [lra|]. intros a [Ha|Ha]; [subst; lra | specialize (IH2 a Ha); lra].
      + split; [exact IH1|]. intros a [Ha|Ha]; [subst; lra | apply IH2; exact Ha].
  Qed.

  (* every sufficient set of true assertions has a member of difficulty >= opt *)
  Lemma opt_lower_bound d S :
    opt dfun cands p tot winner = Val d -> true_set cands p S -> sufficient cands winner S ->
    exists a, In a S /\ (d <= diff a)%Q.
  Proof.
    intros Ho Ht Hs. set (m := qmax_from (d - 1)%Q S).
    destruct (qmax_from_ge (d - 1)%Q S) as [Hm0 Hm]. fold m in Hm0, Hm.
    destruct (Qlt_le_dec m d) as [Hlt|Hge].
    - exfalso. pose proof (set_to_filter S m Ht Hs Hm) as Hf. apply opt_le_iff in Hf.
      rewrite Ho in Hf. simpl in Hf. apply Qle_bool_iff in Hf. lra.
    - destruct (qmax_from_attained (d - 1)%Q S) as [He|[a [Ha He]]]; fold m in He.
      + exfalso. rewrite He in Hge. lra.
      + exists a. split; [exact Ha|]. rewrite <- He. exact Hge.
  Qed.

  Theorem opt_val d :
    opt dfun cands p tot winner = Val d ->
    (exists S, true_set cands p S /\ sufficient cands winner S /\
               (forall a, In a S -> (diff a <= d)%Q) /\ (exists a, In a S /\ (diff a == d)%Q))
    /\ (forall S, true_set cands p S -> sufficient cands winner S -> exists a, In a S /\ (d <= diff a)%Q).
  Proof.
    intro Ho. split; [|intros S Ht Hs; eapply opt_lower_bound; eauto].
    set (S := filter (fun a => Qle_bool (diff a) d) AT).
    assert (Hs : sufficient cands winner S).
    { apply opt_le_iff. rewrite Ho. simpl. apply Qle_bool_iff. lra. }
    assert (Hle : forall a, In a S -> (diff a <= d)%Q).
    { intros a Ha. apply filter_In in Ha. apply Qle_bool_iff. apply Ha. }
    exists S. split; [apply filter_true_set|]. split; [exact Hs|]. split; [exact Hle|].
    destruct (opt_lower_bound d S Ho (filter_true_set d) Hs) as [a [Ha Hd]].
    exists a. split; [exact Ha|]. specialize (Hle a Ha). lra.
  Qed.

  Theorem opt_top :
    opt dfun cands p tot winner = Top <-> ~ exists S, true_set cands p S /\ sufficient cands winner S.
  Proof.
    split.
    - intros Ho [S [Ht Hs]]. set (m := qmax_from 0%Q S).
      destruct (qmax_from_ge 0%Q S) as [_ Hm]. fold m in Hm.
      pose proof (set_to_filter S m Ht Hs Hm) as Hf. apply opt_le_iff in Hf. rewrite Ho in Hf. discriminate.
    - intro Hno. destruct (opt dfun cands p tot winner) as [|d|] eqn:Ho; [exfalso|exfalso|reflexivity]; apply Hno.
      + exists (filter (fun a => Qle_bool (diff a) 0%Q) AT). split; [apply filter_true_set|].
        apply opt_le_iff. rewrite Ho. reflexivity.
      + exists (filter (fun a => Qle_bool (diff a) d) AT). split; [apply filter_true_set|].
        apply opt_le_iff. rewrite Ho. simpl. apply Qle_bool_iff. lra.
  Qed.

  Theorem opt_top_possible : opt dfun cands p tot winner = Top <-> possible cands p winner = false.
  Proof.
    rewrite opt_top. rewrite <- (possible_dec_correct cands p winner Hnd).
    destruct (possible cands p winner); split; intro H.
    - exfalso. apply H. reflexivity.
    - discriminate.
    - reflexivity.
    - intro Hc. discriminate.
  Qed.

  Lemma filter_nil_below d : (forall a, In a AT -> (d < diff a)%Q) -> filter (fun a => Qle_bool (diff a) d) AT = [].
  Proof.
    intro H. induction AT as [|x r IH]; simpl; [reflexivity|].
    assert (Hx : Qle_bool (diff x) d = false) by (apply Qle_bool_false; apply H; left; reflexivity).
    rewrite Hx. apply IH. intros a Ha. apply H. right. exact Ha.
  Qed.

  Theorem opt_bot : opt dfun cands p tot winner = Bot <-> sufficient cands winner [].
  Proof.
    split.
    - intro Ho. set (d := (qmin_from 0%Q AT - 1)%Q).
      assert (Hs : sufficient cands winner (filter (fun a => Qle_bool (diff a) d) AT)).
      { apply opt_le_iff. rewrite Ho. reflexivity. }
      rewrite filter_nil_below in Hs; [exact Hs|].
      intros a Ha. destruct (qmin_from_le 0%Q AT) as [_ Hm]. specialize (Hm a Ha). unfold d. lra.
    - intro Hs. destruct (opt dfun cands p tot winner) as [|d|] eqn:Ho; [reflexivity|exfalso|exfalso].
      + assert (Hf : sufficient cands winner (filter (fun a => Qle_bool (diff a) (d - 1)%Q) AT)).
        { eapply sufficient_mono; [|exact Hs]. intros a []. }
        apply opt_le_iff in Hf. rewrite Ho in Hf. simpl in Hf. apply Qle_bool_iff in Hf. lra.
      + assert (Hf : sufficient cands winner (filter (fun a => Qle_bool (diff a) 0%Q) AT)).
        { eapply sufficient_mono; [|exact Hs]. intros a []. }
        apply opt_le_iff in Hf. rewrite Ho in Hf. discriminate.
  Qed.

  (* the property-level statement: opt is the minimum over all sufficient sets of true assertions of their
     largest difficulty *)
  Theorem opt_dec_correct :
    match opt dfun cands p tot winner with
    | Val d =>
        (exists S, true_set cands p S /\ sufficient cands winner S /\
                   (forall a, In a S -> (diff a <= d)%Q) /\ (exists a, In a S /\ (diff a == d)%Q))
        /\ (forall S, true_set cands p S -> sufficient cands winner S -> exists a, In a S /\ (d <= diff a)%Q)
    | Top => ~ exists S, true_set cands p S /\ sufficient cands winner S
    | Bot => sufficient cands winner []
    end.
  Proof.
    destruct (opt dfun cands p tot winner) as [|d|] eqn:Ho.
    - apply opt_bot. exact Ho.
    - apply opt_val. exact Ho.
    - apply opt_top. exact Ho.
  Qed.
End Optimum.

(* ------------------------------------------------------------------ the shipped difficulty functions *)
Open Scope Q_scope.
Lemma qn_nonneg n : 0 <= qn n.
Proof. unfold qn. change 0 with (inject_Z 0). rewrite <- Zle_Qle. lia. Qed.

Lemma cp_q_closed w l tot : 0 < qn tot -> qn l < qn w -> cp_q w l tot == qn tot / (qn w - qn l).
Proof.
  intros Ht Hwl. unfold cp_q. rewrite Qred_correct. field. split; intro Hc; lra.
Qed.
Lemma bp_q_closed w l tot : 0 < qn tot -> qn l < qn w ->
  bp_q w l tot == qn tot * (qn w + qn l) / ((qn w - qn l) * (qn w - qn l)).
Proof.
  intros Ht Hwl. unfold bp_q. rewrite Qred_correct. pose proof (qn_nonneg l).
  field. repeat split; intro Hc; lra.
Qed.

Lemma div_antitone T m m' : 0 <= T -> 0 < m -> m <= m' -> T / m' <= T / m.
Proof.
  intros HT Hm Hmm. apply Qle_shift_div_r; [lra|].
  assert (He : T / m * m' == T * m' / m) by (field; intro Hc; lra). rewrite He.
  apply Qle_shift_div_l; [lra|]. nra.
Qed.

(* both are antitone in the margin w - l (bp for a fixed number w + l of ballots that count) *)
Lemma cp_q_antitone w l w' l' tot :
  0 < qn tot -> qn l < qn w -> qn w - qn l <= qn w' - qn l' -> cp_q w' l' tot <= cp_q w l tot.
Proof.
  intros Ht Hwl Hm. rewrite !cp_q_closed by lra. apply div_antitone; lra.
Qed.
Lemma bp_q_antitone w l w' l' tot :
  0 < qn tot -> qn l < qn w -> qn w + qn l == qn w' + qn l' -> qn w - qn l <= qn w' - qn l' ->
  bp_q w' l' tot <= bp_q w l tot.
Proof.
  intros Ht Hwl Hs Hm. rewrite !bp_q_closed by lra. rewrite <- Hs.
  pose proof (qn_nonneg l). pose proof (qn_nonneg w).
  apply div_antitone; nra.
Qed.
Close Scope Q_scope.
