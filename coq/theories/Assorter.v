(* Assorter.v — plurality / approval and super-majority assorters, Assorter.mean with the style filter,
   margins from tallies and from CVRs (shangrla/core/Audit.py).  Executable model only (no proofs here). *)
From SV Require Export Ballot.
Open Scope Q_scope.

(* ---- assorters ---- *)
(* Assertion.make_plurality_assertions (L1878-1951), the lambda given to Assorter for the pair (winr, losr):
     (CVR.as_vote(c.get_vote_for(contest.id, winr)) - CVR.as_vote(c.get_vote_for(contest.id, losr)) + 1) / 2
   with upper_bound = 1.  The same assorters serve approval contests. *)
Definition assort_pl (con : contest_id) (w l : cand) (c : card) : Q :=
  inject_Z (as_vote (get_vote_for c con w) - as_vote (get_vote_for c con l) + 1) / 2.
Definition ub_pl : Q := 1.
(* the dict of assertions: one per (winner, loser) pair, winners outer loop, losers inner loop *)
Definition plurality_pairs (W L : list cand) : list (cand * cand) :=
  flat_map (fun w => map (fun l => (w, l)) L) W.

(* Assertion.make_all_assertions (L2159-2221), plurality branch: winrs = con.winner,
     losrs = list(set(con.candidates) - set(winrs))
   i.e. every candidate that is not a reported winner, once (a Python set; the enumeration order is unspecified and
   irrelevant to the family of assertions, this is the one in candidate order) *)
Definition other_candidates (cands W : list cand) : list cand :=
  filter (fun c => negb (existsb (Z.eqb c) W)) (nodup Z.eq_dec cands).
Definition all_plurality_pairs (cands W : list cand) : list (cand * cand) :=
  plurality_pairs W (other_candidates cands W).

(* Assertion.make_supermajority_assertion (L1953-2041):
     cands = loser.copy(); cands.append(winner)
     assort = CVR.as_vote(c.get_vote_for(contest.id, winner)) / (2 * contest.share_to_win)
              if c.has_one_vote(contest.id, cands) else 1 / 2
     upper_bound = 1 / (2 * contest.share_to_win) *)
Definition sm_cands (w : cand) (losers : list cand) : list cand := losers ++ [w].
Definition assort_sm (con : contest_id) (f : Q) (w : cand) (cands : list cand) (c : card) : Q :=
  if has_one_vote c con cands then inject_Z (as_vote (get_vote_for c con w)) / (2 * f) else 1 # 2.
Definition ub_sm (f : Q) : Q := 1 / (2 * f).

(* ---- Assorter.mean (L2446-2468) ---- *)
(* filtr = (lambda c: c.has_contest(self.contest.id)) if use_style else (lambda c: True) *)
Definition style_filter (use_style : bool) (con : contest_id) (cs : list card) : list card :=
  filter (fun c => negb use_style || has_contest c con) cs.
Fixpoint qsum (l : list Q) : Q := match l with [] => 0 | a :: r => a + qsum r end.
Definition nlen {A} (l : list A) : Q := inject_Z (Z.of_nat (List.length l)).
(* np.mean([self.assort(c) for c in cvr_list if filtr(c)]); np.mean([]) is nan *)
Definition mean (use_style : bool) (con : contest_id) (assort : card -> Q) (cs : list card) : Xq :=
  let l := style_filter use_style con cs in
  match l with
  | [] => NaN
  | _ => Fin (qsum (map assort l) / nlen l)
  end.

(* Assertion.margin (L1390-1404): 2 * mean - 1 *)
Definition margin_of_mean (m : Xq) : Xq := xsub (xmul (Fin 2) m) (Fin 1).

(* Assertion.set_margin_from_cvrs (L1486-1525): margin = 2*amean - 1;
   test.u = upper_bound (polling) | 2 / (2 - margin / upper_bound) (card comparison, ONEAudit).
   Returns (margin, test.u). *)
Definition set_margin_from_cvrs (polling use_style : bool) (con : contest_id) (assort : card -> Q) (ub : Q)
           (cs : list card) : Xq * Xq :=
  let m := margin_of_mean (mean use_style con assort cs) in
  (m, if polling then Fin ub else xdiv (Fin 2) (xsub (Fin 2) (xdiv m (Fin ub)))).

(* ---- Assertion.find_margin_from_tally (L1527-1580) ---- *)
Inductive scf := PLURALITY | APPROVAL | SUPERMAJORITY | IRV.
(* Contest.CANDIDATES constants the function looks at *)
Definition ALL_OTHERS : cand := (-1)%Z.
Definition NO_CANDIDATE : cand := (-2)%Z.
(* a tally: dict candidate -> count; a defaultdict(int) (made by Contest.tally) gives 0 for a missing key,
   a plain dict raises KeyError *)
Record tally_dict := mktally { t_items : list (Z * Z); t_default : bool }.
Inductive err := KeyError | ZeroDivisionError | TypeError | NotImplementedError.
Inductive res := Val (x : Xq) | Err (e : err).
Definition tget (t : tally_dict) (k : cand) : option Z :=
  match assoc k (t_items t) with
  | Some v => Some v
  | None => if t_default t then Some 0%Z else None
  end.
Fixpoint tsum (t : tally_dict) (ks : list cand) : option Z :=   (* np.sum([tally[c] for c in candidates]) *)
  match ks with
  | [] => Some 0%Z
  | k :: r => match tget t k with
              | None => None
              | Some v => match tsum t r with None => None | Some s => Some (v + s)%Z end
              end
  end.
Definition zq (z : Z) : Xq := Fin (inject_Z z).

Definition find_margin_from_tally (arg ctally : option tally_dict) (sc : scf) (w l : cand) (cards : Z)
           (f : Q) (candidates : list cand) : res :=
  (* tally = tally if tally else self.contest.tally   (None and the empty dict are both falsy) *)
  let tl := match arg with
            | Some t => match t_items t with [] => ctally | _ => Some t end
            | None => ctally
            end in
  match sc with
  | PLURALITY | APPROVAL =>
      (* self.margin = (tally[self.winner] - tally[self.loser]) / self.contest.cards     (Python ints) *)
      match tl with
      | None => Err TypeError
      | Some t =>
          match tget t w, tget t l with
          | Some tw, Some tlo =>
              if (cards =? 0)%Z then Err ZeroDivisionError
              else Val (Fin (inject_Z (tw - tlo) / inject_Z cards))
          | _, _ => Err KeyError
          end
      end
  | SUPERMAJORITY =>
      if (w =? NO_CANDIDATE)%Z || negb (l =? ALL_OTHERS)%Z then Err NotImplementedError
      else
        match tl with
        | None => Err TypeError
        | Some t =>
            (* valid = np.sum([tally[c] for c in self.contest.candidates]); q = valid / cards;
               p = tally[self.winner] / valid if valid else 0      (tally[winner] not read when valid == 0);
               margin = q * (p / share_to_win - 1)      (numpy scalars) *)
            match tsum t candidates with
            | None => Err KeyError
            | Some valid =>
                let q := xdiv (zq valid) (zq cards) in
                if (valid =? 0)%Z then Val (xmul q (xsub (xdiv (Fin 0) (Fin f)) (Fin 1)))
                else
                  match tget t w with
                  | None => Err KeyError
                  | Some tw =>
                      let p := xdiv (zq tw) (zq valid) in
                      Val (xmul q (xsub (xdiv p (Fin f)) (Fin 1)))
                  end
            end
        end
  | IRV => Err NotImplementedError
  end.

(* Contest.find_margins_from_tally (L2749-2772): every assertion of the contest, with the contest's own tally *)
Definition find_margins_from_tally (ctally : option tally_dict) (sc : scf) (cards : Z) (f : Q)
           (candidates : list cand) (asns : list (cand * cand)) : list res :=
  map (fun wl => find_margin_from_tally None ctally sc (fst wl) (snd wl) cards f candidates) asns.

(* ---- guards of the margin clause (DESIGN section 7, boundary conventions) ---- *)
(* is the card's selection in the contest counted by Contest.tally? *)
Definition tallied (enforce : bool) (n_winners : Z) (con : contest_id) (c : card) : bool :=
  match assoc con (c_votes c) with
  | None => true
  | Some vs => negb enforce || (n_marks vs <=? n_winners)%Z
  end.
(* plurality / approval: no card is dropped by the rule check (no overvotes when rules are enforced) *)
Definition pl_cards_ok (enforce : bool) (n_winners : Z) (con : contest_id) (cs : list card) : bool :=
  forallb (tallied enforce n_winners con) cs.
(* super-majority: the tally and the assorter agree on which ballots are valid:
   k = marks among the listed candidates; k = 0 is harmless, k = 1 must be tallied, k >= 2 must not be *)
Definition listed_marks (con : contest_id) (cands : list cand) (c : card) : Z :=
  zsum (map (one_vote_term c con) cands).
Definition sm_card_ok (enforce : bool) (n_winners : Z) (con : contest_id) (cands : list cand) (c : card) : bool :=
  let k := listed_marks con cands c in
  (k =? 0)%Z || Bool.eqb (tallied enforce n_winners con c) (k =? 1)%Z.
Definition sm_cards_ok (enforce : bool) (n_winners : Z) (con : contest_id) (cands : list cand) (cs : list card) : bool :=
  forallb (sm_card_ok enforce n_winners con cands) cs.
