(* Run_IrvVis.v — entry points evaluated by the correspondence harness for IRVVisualisationUtils.
   Tree cases carry the assertion tuples, root c, the set S (sorted), and the implementation's tree in list form and
   in tuple form (children sorted by candidate by the harness — Python set order is not part of the property;
   tag strings parsed back into their parts).  Parse cases carry the assertion file and parseAssertions' result. *)
From SV Require Export Xq IrvVis.
Open Scope Z_scope.

Fixpoint list_eqb {A} (eqb : A -> A -> bool) (a b : list A) : bool :=
  match a, b with
  | [], [] => true
  | x :: a', y :: b' => eqb x y && list_eqb eqb a' b'
  | _, _ => false
  end.
Definition tag_eqb (a b : nat * bool) : bool := Nat.eqb (fst a) (fst b) && Bool.eqb (snd a) (snd b).

Fixpoint tree_eqb (a b : tree) : bool :=
  match a, b with
  | Leaf c1 n1 i1, Leaf c2 n2 i2 => Z.eqb c1 c2 && list_eqb tag_eqb n1 n2 && list_eqb tag_eqb i1 i2
  | Node c1 ch1, Node c2 ch2 =>
      Z.eqb c1 c2 &&
      (fix go (l1 l2 : list tree) : bool :=
         match l1, l2 with
         | [], [] => true
         | x :: r1, y :: r2 => tree_eqb x y && go r1 r2
         | _, _ => false
         end) ch1 ch2
  | _, _ => false
  end.

Definition part_eqb (a b : option (list nat * bool)) : bool :=
  match a, b with
  | None, None => true
  | Some (l1, c1), Some (l2, c2) => list_eqb Nat.eqb l1 l2 && Bool.eqb c1 c2
  | _, _ => false
  end.
Definition rtag_eqb (a b : rtag) : bool :=
  part_eqb (t_neb a) (t_neb b) && part_eqb (t_irv a) (t_irv b) && Bool.eqb (t_unpruned a) (t_unpruned b).
Fixpoint rtree_eqb (a b : rtree) : bool :=
  match a, b with
  | RLeaf c1 t1, RLeaf c2 t2 => Z.eqb c1 c2 && rtag_eqb t1 t2
  | RNode c1 ch1, RNode c2 ch2 =>
      Z.eqb c1 c2 &&
      (fix go (l1 l2 : list rtree) : bool :=
         match l1, l2 with
         | [], [] => true
         | x :: r1, y :: r2 => rtree_eqb x y && go r1 r2
         | _, _ => false
         end) ch1 ch2
  | _, _ => false
  end.

Record tree_case := mkTreeCase {
  k_wo : list neb; k_irv : list nen; k_c : Z; k_S : list Z;
  k_tree : tree;          (* buildRemainingTreeAsLists(c, S, WOLosers, IRVElims) *)
  k_tuple : rtree         (* treeListToTuple of it *)
}.
Definition model_tree (c : tree_case) : tree := build_tree (k_wo c) (k_irv c) (k_c c) (k_S c).
Definition agree_tree (c : tree_case) : bool :=
  tree_eqb (model_tree c) (k_tree c) && rtree_eqb (tree_to_tuple (model_tree c)) (k_tuple c).
Definition show_tree (c : tree_case) := model_tree c.

Definition neb_eq_exact (a b : neb) : bool := neb_eqb a b.
(* IRVElims tuples hold Python sets: compared as sets *)
Definition nen_eq_exact (a b : nen) : bool := nen_eqb a b.
Definition pairZ_eqb (a b : Z * Z) : bool := Z.eqb (fst a) (fst b) && Z.eqb (snd a) (snd b).

Record parse_case := mkParseCase {
  p_file : afile; p_manifest : list (Z * Z); p_contest : option Z;
  p_winner : Z * Z; p_nonwinners : list (Z * Z); p_wo : list neb; p_irv : list nen
}.
Definition model_parse (c : parse_case) := parse_assertions (p_file c) (p_manifest c) (p_contest c).
Definition agree_parse (c : parse_case) : bool :=
  match model_parse c with
  | (w, nw, wo, irv) =>
      pairZ_eqb w (p_winner c) && list_eqb pairZ_eqb nw (p_nonwinners c) &&
      list_eqb neb_eq_exact wo (p_wo c) && list_eqb nen_eq_exact irv (p_irv c)
  end.
Definition show_parse (c : parse_case) := model_parse c.
