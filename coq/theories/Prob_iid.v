(* Prob_iid.v — independent draws from a law with finite support and rational masses: recursive probability of a
   prefix-determined event, finite-horizon Ville inequality, and the same probability as a weighted sum over sequences. *)
From Coq Require Import QArith List Lia Lqa Bool.
From SV Require Import Prob.
Import ListNotations.
Open Scope Q_scope.

Lemma lsum_wle {A} (w f g : A -> Q) (l : list A) :
  (forall a, In a l -> 0 <= w a) -> (forall a, In a l -> f a <= g a) ->
  lsum (map (fun a => w a * f a) l) <= lsum (map (fun a => w a * g a) l).
Proof.
  intros Hw H. apply lsum_le_pointwise. intros a Ha. specialize (Hw a Ha). specialize (H a Ha). nra.
Qed.
Lemma lsum_scale_r {A} (f : A -> Q) (c : Q) (l : list A) : lsum (map (fun a => f a * c) l) == lsum (map f l) * c.
Proof. induction l as [|a l IH]; simpl; [ring| rewrite IH; ring]. Qed.
Lemma lsum_scale_l {A} (f : A -> Q) (c : Q) (l : list A) : lsum (map (fun a => c * f a) l) == c * lsum (map f l).
Proof. induction l as [|a l IH]; simpl; [ring| rewrite IH; ring]. Qed.

Section VilleIID.
Variable T : list Q -> Q.
Variable thr : Q.
Variable law : list (Q * Q).     (* (value, mass) *)
Hypothesis w_nonneg : forall vw, In vw law -> 0 <= snd vw.
Hypothesis w_sum : lsum (map snd law) == 1.
Variable Inv : list Q -> Prop.
Hypothesis Inv_step : forall p vw, Inv p -> In vw law -> Inv (p ++ [fst vw]).
Hypothesis T_nonneg : forall p, Inv p -> 0 <= T p.
Hypothesis T_super : forall p, Inv p -> lsum (map (fun vw => snd vw * T (p ++ [fst vw])) law) <= T p.

Fixpoint pcross_iid (n : nat) (p : list Q) : Q :=
  if Qle_bool thr (T p) then 1 else
  match n with
  | O => 0
  | S n' => lsum (map (fun vw => snd vw * pcross_iid n' (p ++ [fst vw])) law)
  end.

Theorem ville_iid : forall n p, Inv p -> pcross_iid n p * thr <= T p.
Proof.
  induction n as [|n IH]; intros p HI; simpl; destruct (Qle_bool thr (T p)) eqn:E;
    try (apply Qle_bool_iff in E; lra); try (pose proof (T_nonneg _ HI); lra).
  rewrite <- lsum_scale_r.
  eapply Qle_trans; [|apply T_super; auto].
  apply lsum_le_pointwise. intros vw Hvw. pose proof (w_nonneg vw Hvw).
  pose proof (IH (p ++ [fst vw]) (Inv_step _ _ HI Hvw)). nra.
Qed.

(* all sequences of n draws, each draw an entry of the law *)
Fixpoint seqs (n : nat) : list (list (Q * Q)) :=
  match n with
  | O => [[]]
  | S n' => flat_map (fun vw => map (cons vw) (seqs n')) law
  end.
Definition weight (s : list (Q * Q)) : Q := fold_right (fun vw a => snd vw * a) 1 s.
Definition values (s : list (Q * Q)) : list Q := map fst s.

Lemma lsum_flat_map {A B} (f : A -> list B) (g : B -> Q) (l : list A) :
  lsum (map g (flat_map f l)) == lsum (map (fun a => lsum (map g (f a))) l).
Proof. induction l as [|a l IH]; simpl; [reflexivity|]. rewrite map_app, lsum_app, IH. reflexivity. Qed.

Lemma total_weight n : lsum (map weight (seqs n)) == 1.
Proof.
  induction n as [|n IH]; [cbn; ring|].
  cbn [seqs]. rewrite lsum_flat_map.
  assert (E : lsum (map (fun vw => lsum (map weight (map (cons vw) (seqs n)))) law)
              == lsum (map (fun vw => snd vw * 1) law)).
  { apply lsum_eq_pointwise. intros vw _. rewrite map_map. cbn [weight fold_right].
    fold weight. rewrite (lsum_scale_l weight (snd vw)), IH. reflexivity. }
  rewrite E. rewrite (lsum_scale_r snd 1). rewrite w_sum. ring.
Qed.

Definition ind (b : bool) : Q := if b then 1 else 0.

(* pcross_iid is the total mass of the sequences on which the threshold is reached *)
Theorem pcross_iid_sum : forall n p,
  pcross_iid n p == lsum (map (fun s => weight s * ind (crosses T thr p (values s))) (seqs n)).
Proof.
  induction n as [|n IH]; intro p.
  - cbn [pcross_iid seqs map values crosses lsum fold_right weight]. rewrite orb_false_r.
    destruct (Qle_bool thr (T p)); unfold ind; cbn [orb]; ring.
  - cbn [pcross_iid]. destruct (Qle_bool thr (T p)) eqn:E.
    + assert (EE : lsum (map (fun s => weight s * ind (crosses T thr p (values s))) (seqs (S n)))
                   == lsum (map weight (seqs (S n)))).
      { apply lsum_eq_pointwise. intros s _. cbv beta. rewrite (crosses_now T thr p (values s) E). unfold ind. lra. }
      rewrite EE, total_weight. reflexivity.
    + cbn [seqs]. rewrite lsum_flat_map. apply lsum_eq_pointwise. intros vw _.
      rewrite map_map, IH. rewrite <- lsum_scale_l. apply lsum_eq_pointwise. intros s _. cbv beta.
      change (weight (vw :: s)) with (snd vw * weight s). cbn [values map crosses]. fold (values s). rewrite E. cbn [orb]. ring.
Qed.
End VilleIID.
