(* NNM_defs.v — C12: the reported histories equal their published definitions; ALPHA and betting forms agree;
   the two conversion functions are mutual inverses. *)
From SV Require Import NNM NNM_machines NNM_ranges NNM_spec NNM_hist NNM_wf NNM_prefix.
Open Scope Q_scope.

(* ---- conversions (lam_to_eta L451, eta_to_lam L469) ---- *)
Theorem lam_eta_lam u lam mu : ~ mu == 0 -> ~ u - mu == 0 -> eta_to_lam u (lam_to_eta u lam mu) mu == lam.
Proof. intros H1 H2. unfold eta_to_lam, lam_to_eta. field. auto. Qed.
Theorem eta_lam_eta u eta mu : ~ mu == 0 -> ~ u - mu == 0 -> lam_to_eta u (eta_to_lam u eta mu) mu == eta.
Proof. intros H1 H2. unfold eta_to_lam, lam_to_eta. field. auto. Qed.

(* ---- the ALPHA factor with eta = mu(1+lam(u-mu)) is the betting factor ---- *)
Lemma alpha_factor_is_betting u x lam m : 0 < m -> m < u ->
  alpha_factor_q u x (lam_to_eta u lam m) m == betting_factor_q x lam m.
Proof. intros H0 H1. unfold alpha_factor_q, lam_to_eta, betting_factor_q. field. repeat split; lra. Qed.

Lemma clamp_eta_id u est m : m <= est <= u -> clamp_eta u est m == est.
Proof.
  intros [H1 H2]. unfold clamp_eta.
  destruct (Qmaxb_spec est m) as [[Ha Ea]|[Ha Ea]]; rewrite Ea;
  destruct (Qminb_spec u est) as [[Hb Eb]|[Hb Eb]];
  destruct (Qminb_spec u m) as [[Hc Ec]|[Hc Ec]]; rewrite ?Eb, ?Ec; lra.
Qed.

Lemma alpha_factor_q_eta_proper u x e1 e2 m : e1 == e2 -> alpha_factor_q u x e1 m == alpha_factor_q u x e2 m.
Proof. intro E. unfold alpha_factor_q. now rewrite E. Qed.

(* pointwise agreement of two factor streams on the steps that matter *)
Fixpoint facs_eq (f1 f2 : Q -> Q -> Q -> Q) (N : option Z) (t u : Q) (s : Q * Z) (xs e1 e2 : list Q) : Prop :=
  match xs, e1, e2 with
  | x :: xr, a :: ar, b :: br =>
      (let m := mu_at N t (fst s) (snd s) in 0 < m -> m < u -> f1 x a m == f2 x b m)
      /\ facs_eq f1 f2 N t u (sj_step s x) xr ar br
  | _, _, _ => True
  end.

Lemma spec_terms_ext f1 f2 N t u xs : forall e1 e2 s T md,
  length e1 = length e2 ->
  facs_eq f1 f2 N t u s xs e1 e2 ->
  spec_terms f1 N t u s T md xs e1 = spec_terms f2 N t u s T md xs e2.
Proof.
  induction xs as [|x xr IH]; intros e1 e2 s T md HL HE; [reflexivity|].
  destruct e1 as [|a ar]; destruct e2 as [|b br]; try discriminate; [reflexivity|].
  cbn [spec_terms]. destruct HE as [Hf HE]. cbv zeta in Hf.
  set (m := mu_at N t (fst s) (snd s)) in *.
  assert (ET : next_T f1 (next_mode u m md) T x a m = next_T f2 (next_mode u m md) T x b m).
  { unfold next_T. destruct (next_mode u m md) eqn:E; auto.
    apply next_mode_alive in E. destruct E as [_ [H0 H1]].
    apply Qred_complete. rewrite (Hf H0 H1). reflexivity. }
  rewrite ET. f_equal. apply IH; auto.
Qed.

Section AlphaBetting.
Variables (N : option Z) (t u : Q).
Hypothesis Hu : 0 < u.
Hypothesis Ht : 0 < t < u.

Lemma facs_eq_alpha_betting xs : forall lams s,
  Forall2 (fun l m => 0 <= l /\ (0 < m -> m <= u -> l <= 1 / m)) lams (mscan (mu_out N t) sj_step s xs) ->
  facs_eq (alpha_factor_q u) betting_factor_q N t u s xs
          (map2 (clamp_eta u) (map2 (lam_to_eta u) lams (mscan (mu_out N t) sj_step s xs))
                (mscan (mu_out N t) sj_step s xs))
          lams.
Proof.
  induction xs as [|x xr IH]; intros lams s HL; [exact I|].
  destruct lams as [|l lr]; [exact I|].
  cbn [mscan] in *. inversion HL as [|l0 m0 lr0 mr0 Hlm HLr]; subst.
  cbn [map2 facs_eq]. split; [|apply IH; auto].
  cbv zeta. unfold mu_out in *. set (m := mu_at N t (fst s) (snd s)) in *.
  intros H0 H1. destruct Hlm as [Hl0 Hl1]. specialize (Hl1 H0 (Qlt_le_weak _ _ H1)).
  assert (Hlm : l * m <= 1).
  { assert (E : 1 / m * m == 1) by (field; lra). nra. }
  rewrite <- (alpha_factor_is_betting u x l m H0 H1).
  apply alpha_factor_q_eta_proper. apply clamp_eta_id. unfold lam_to_eta.
  assert (P1 : 0 <= l * (u - m)) by nra.
  assert (P2 : 0 <= m * (l * (u - m))) by nra.
  assert (P3 : (l * m) * (u - m) <= 1 * (u - m)) by nra.
  split; nra.
Qed.

(* ALPHA run on eta_i = mu_i(1 + lam_i(u - mu_i)) reports exactly what the betting test reports on lam_i,
   for every sample in [0,u] and every sequence of admissible bets *)
Theorem alpha_eq_betting xs lams :
  sample_ok N u xs -> length lams = length xs ->
  Forall2 (fun l m => 0 <= l /\ (0 < m -> m <= u -> l <= 1 / m)) lams (mu_list N t xs) ->
  finish_terms N t xs
    (model_terms (alpha_factor u) N t u (0, 1%Z) (Fin 1) xs
                 (map2 (clamp_eta u) (map2 (lam_to_eta u) lams (mu_list N t xs)) (mu_list N t xs)))
  = finish_terms N t xs (model_terms betting_factor N t u (0, 1%Z) (Fin 1) xs lams).
Proof.
  intros [Hne [Hr HN]] HL HB. f_equal.
  assert (HNN : match N with Some n => (snd (0, 1%Z) + Z.of_nat (length xs) - 1 <= n)%Z | None => True end)
    by (destruct N; auto; cbn [snd]; lia).
  rewrite (model_terms_spec (alpha_factor u) (alpha_factor_q u) N t u Hu Ht
             (fun x e m H0 H1 => alpha_factor_fin u x e m Hu H0 H1) xs _ (0, 1%Z) (Fin 1) 1 Alive Hr HNN I (fun _ => eq_refl)).
  rewrite (model_terms_spec betting_factor betting_factor_q N t u Hu Ht
             (fun x e m _ _ => eq_refl) xs lams (0, 1%Z) (Fin 1) 1 Alive Hr HNN I (fun _ => eq_refl)).
  apply spec_terms_ext.
  - rewrite map2_length; rewrite ?map2_length; unfold mu_list; rewrite ?run_machine_length; auto.
  - apply facs_eq_alpha_betting. exact HB.
Qed.
End AlphaBetting.

(* ---- published definitions: while every null mean so far is strictly inside (0,u) the entry is built from the
   exact running product T_j = prod_i factor_i ---- *)
Lemma spec_terms_alive facq N t u xs : forall es s T,
  Forall (fun m => 0 < m /\ m < u) (mscan (mu_out N t) sj_step s xs) ->
  spec_terms facq N t u s T Alive xs es
  = map2 (fun m T' => spec_entry u m T' Alive) (mscan (mu_out N t) sj_step s xs)
         (qcumprod T (map3 facq xs es (mscan (mu_out N t) sj_step s xs))).
Proof.
  induction xs as [|x xr IH]; intros es s T HF; [reflexivity|].
  destruct es as [|e er]; [reflexivity|].
  cbn [mscan] in HF. inversion HF as [|m0 mr0 [H0 H1] HFr]; subst.
  cbn [spec_terms mscan map3 qcumprod map2].
  change (mu_out N t s) with (mu_at N t (fst s) (snd s)) in *.
  set (m := mu_at N t (fst s) (snd s)) in *.
  assert (E : next_mode u m Alive = Alive).
  { unfold next_mode.
    assert (E1 : Qle_bool m 0 = false) by (apply Qle_bool_false; lra).
    assert (E2 : Qle_bool u m = false) by (apply Qle_bool_false; lra). now rewrite E1, E2. }
  rewrite E. cbn [next_T]. f_equal. apply IH. exact HFr.
Qed.

(* reading an Alive entry: outside the two tolerance bands and with a product that has not vanished, the reported
   p-value is min(1, 1/T) *)
Lemma pv_alive_entry u m T :
  band u m = false -> isclose_q 0 T rtol_default atol_np = false -> ~ T == 0 ->
  pv (spec_entry u m T Alive) = xmin_np (Fin 1) (Fin (1 / T)).
Proof.
  intros Hb Hc HT. unfold spec_entry. rewrite Hb, Hc. unfold pv, xinv. cbn [xdiv].
  assert (E : Qeq_bool T 0 = false) by (now apply Qeq_bool_false). now rewrite E.
Qed.

(* ---- p = 0 once the observed total exceeds N t; p = 1 where mu_j > u (entry-wise, for any running product) ---- *)
Lemma override_below0 u m acc : m < 0 -> override_entry u m acc = PInf.
Proof. intro H. unfold override_entry; cbv zeta. assert (E : Qlt_bool m 0 = true) by (now apply Qlt_bool_iff). now rewrite E. Qed.

Theorem model_terms_boundary facX N t u s acc xs es :
  0 < u -> length es = length xs ->
  Forall2 (fun m tm => (m < 0 -> tm = PInf /\ pv tm = Fin 0) /\ (u < m -> tm = Fin 1 /\ pv tm = Fin 1))
          (mscan (mu_out N t) sj_step s xs) (model_terms facX N t u s acc xs es).
Proof.
  intros Hu HL. unfold model_terms, model_terms_z. cbv zeta.
  set (ms := mscan (mu_out N t) sj_step s xs).
  set (raw := absorb xis_zero (Fin 0) false (map3 facX xs es ms) (xcumprod acc (map3 facX xs es ms))).
  assert (Hlen : length raw = length ms).
  { unfold raw, ms. rewrite absorb_length by apply xcumprod_length. rewrite map3_length3; rewrite ?mscan_length; auto. }
  clearbody raw ms. revert raw Hlen. induction ms as [|m mr IH]; intros [|a ar] Hlen; simpl in *; try discriminate; constructor.
  - split; intro H.
    + rewrite override_below0 by auto. split; reflexivity.
    + rewrite override_deadhigh by (auto; lra). split; reflexivity.
  - apply IH. lia.
Qed.

(* mu_j is the documented formula of the earlier draws *)
Lemma fold_sj xs : forall s, fold_left sj_step xs s = (fold_left (fun a x => Qred (a + x)) xs (fst s), (snd s + Z.of_nat (length xs))%Z).
Proof.
  induction xs as [|x xr IH]; intro s; cbn [fold_left length].
  - destruct s; cbn [fst snd]. f_equal. lia.
  - rewrite IH. unfold sj_step; cbn [fst snd]. f_equal. lia.
Qed.
Theorem mu_list_nth N t xs j : (j < length xs)%nat ->
  nth_error (mu_list N t xs) j = Some (mu_at N t (qsum (firstn j xs)) (1 + Z.of_nat j)).
Proof.
  intro H. unfold mu_list, run_machine. rewrite mscan_nth by auto. cbn [mu_machine m_out m_step m_init].
  rewrite fold_sj. cbn [fst snd]. rewrite firstn_length. replace (Nat.min j (length xs)) with j by lia. reflexivity.
Qed.
