(* SampleSize_proofs.v — lemmas about the model in SampleSize.v (property C16).  All inputs, no bounds on sizes. *)
From SV Require Import SampleSize NNM_spec.
From Coq Require Import Lia Arith.
Open Scope Q_scope.

(* ===================================================================================================== tiling *)
Lemma tile_to_length : forall n pat cur, pat <> [] -> length (tile_to n pat cur) = n.
Proof.
  induction n as [|n IH]; intros pat cur Hp; simpl; auto.
  destruct cur as [|c cr].
  - destruct pat as [|p pr]; [congruence|]. simpl. f_equal. apply IH. congruence.
  - simpl. f_equal. apply IH; auto.
Qed.

Lemma skipn_cons_nth {A} : forall j (l : list A) a r d,
  skipn j l = a :: r -> nth j l d = a /\ skipn (S j) l = r /\ (j < length l)%nat.
Proof.
  induction j as [|j IH]; intros l a r d H.
  - simpl in H. subst l. simpl. repeat split; auto. lia.
  - destruct l as [|b l]; simpl in H; [discriminate|].
    destruct (IH l a r d H) as (H1 & H2 & H3). simpl nth. repeat split; auto. simpl. lia.
Qed.

Lemma skipn_nil_len {A} : forall j (l : list A), skipn j l = [] -> (length l <= j)%nat.
Proof.
  intros j l H. assert (E : length (skipn j l) = 0%nat) by (rewrite H; reflexivity).
  rewrite skipn_length in E. lia.
Qed.

Lemma tile_to_nth : forall n pat j i d, pat <> [] -> (j <= length pat)%nat -> (i < n)%nat ->
  nth i (tile_to n pat (skipn j pat)) d = nth ((j + i) mod length pat) pat d.
Proof.
  induction n as [|n IH]; intros pat j i d Hp Hj Hi; [lia|].
  assert (HL : length pat <> 0%nat) by (destruct pat; simpl; congruence).
  simpl. destruct (skipn j pat) as [|c cr] eqn:E.
  - apply skipn_nil_len in E. assert (j = length pat) by lia. subst j.
    destruct pat as [|p pr]; [congruence|].
    destruct i as [|i].
    + rewrite Nat.add_0_r, Nat.mod_same by auto. reflexivity.
    + simpl nth at 1.
      assert (IHi := IH (p :: pr) 1%nat i d Hp). simpl skipn in IHi.
      rewrite IHi by (simpl; lia).
      f_equal. replace (length (p :: pr) + S i)%nat with (1 + i + 1 * length (p :: pr))%nat by lia.
      rewrite Nat.mod_add by auto. reflexivity.
  - destruct (skipn_cons_nth j pat c cr d E) as (H1 & H2 & H3).
    destruct i as [|i].
    + rewrite Nat.add_0_r, Nat.mod_small by auto. simpl. auto.
    + simpl nth at 1. rewrite <- H2. rewrite IH; auto; try lia.
      f_equal. f_equal. lia.
Qed.

Lemma tiling : forall N (x : list Q), x <> [] ->
  length (tile_to N x x) = N /\
  forall i d, (i < N)%nat -> nth i (tile_to N x x) d = nth (i mod length x) x d.
Proof.
  intros N x Hx. split; [apply tile_to_length; auto|].
  intros i d Hi. change x with (skipn 0 x) at 2. rewrite tile_to_nth; auto; try lia.
Qed.

Lemma tile_to_self : forall cur pat, tile_to (length cur) pat cur = cur.
Proof. induction cur as [|c cr IH]; intros pat; simpl; auto. f_equal. apply IH. Qed.

(* ===================================================================================================== first crossing *)
Definition is_first_crossing (alpha : Q) (h : list Xq) (k : nat) : Prop :=
  (1 <= k <= length h)%nat /\ xle (nth (k - 1) h NaN) (Fin alpha) = true /\
  forall j, (j < k - 1)%nat -> xle (nth j h NaN) (Fin alpha) = false.
Definition never_crosses (alpha : Q) (h : list Xq) : Prop :=
  forall j, (j < length h)%nat -> xle (nth j h NaN) (Fin alpha) = false.

Lemma first_crossing_some : forall alpha h i k, first_crossing alpha i h = Some k ->
  (i < k <= i + length h)%nat /\ xle (nth (k - 1 - i) h NaN) (Fin alpha) = true /\
  forall j, (j < k - 1 - i)%nat -> xle (nth j h NaN) (Fin alpha) = false.
Proof.
  intros alpha h. induction h as [|a h IH]; simpl; intros i k H; [discriminate|].
  destruct (xle a (Fin alpha)) eqn:E.
  - inversion H; subst k. split; [lia|]. replace (S i - 1 - i)%nat with 0%nat by lia.
    split; auto. intros; lia.
  - apply IH in H. destruct H as (H1 & H2 & H3). split; [lia|].
    replace (k - 1 - i)%nat with (S (k - 1 - S i)) by lia. split; auto.
    intros j Hj. destruct j; auto. apply H3. lia.
Qed.

Lemma first_crossing_none : forall alpha h i, first_crossing alpha i h = None -> never_crosses alpha h.
Proof.
  intros alpha h. induction h as [|a h IH]; simpl; intros i H j Hj; simpl in Hj; [lia|].
  destruct (xle a (Fin alpha)) eqn:E; [discriminate|].
  destruct j; auto. apply (IH _ H). lia.
Qed.

Lemma crossing_or_spec : forall alpha N h,
  is_first_crossing alpha h (crossing_or alpha N h) \/ (never_crosses alpha h /\ crossing_or alpha N h = N).
Proof.
  intros alpha N h. unfold crossing_or. destruct (first_crossing alpha 0 h) as [k|] eqn:E.
  - left. apply first_crossing_some in E. destruct E as (H1 & H2 & H3).
    unfold is_first_crossing. rewrite Nat.sub_0_r in H2, H3. repeat split; auto; lia.
  - right. split; auto. eapply first_crossing_none; eauto.
Qed.

Lemma is_first_crossing_unique : forall alpha h k k',
  is_first_crossing alpha h k -> is_first_crossing alpha h k' -> k = k'.
Proof.
  intros alpha h k k' (A1 & A2 & A3) (B1 & B2 & B3).
  destruct (Nat.lt_trichotomy k k') as [L|[L|L]]; auto.
  - rewrite B3 in A2 by lia. discriminate.
  - rewrite A3 in B2 by lia. discriminate.
Qed.

Lemma fc_firstn_some : forall alpha m h i k,
  first_crossing alpha i (firstn m h) = Some k -> first_crossing alpha i h = Some k.
Proof.
  intros alpha m. induction m as [|m IH]; intros h i k H; [simpl in H; discriminate|].
  destruct h as [|a h]; simpl in *; [discriminate|].
  destruct (xle a (Fin alpha)); auto.
Qed.

Lemma fc_some_firstn : forall alpha h m i k,
  first_crossing alpha i h = Some k -> (k <= i + m)%nat -> first_crossing alpha i (firstn m h) = Some k.
Proof.
  intros alpha h. induction h as [|a h IH]; intros m i k H Hk; [simpl in H; discriminate|].
  destruct m as [|m].
  - apply first_crossing_some in H. lia.
  - simpl in *. destruct (xle a (Fin alpha)); auto. apply IH; auto. lia.
Qed.

Section DetSpec.
Variable sqrtq : Q -> Q.

Lemma ss_det_first_crossing : forall c alpha x n, cN c = Some n -> x <> [] ->
  let N := Z.to_nat n in
  let h := hist sqrtq c (tile_to N x x) in
  exists k, ss_det sqrtq c alpha x = Ok k /\ k = crossing_or alpha N h /\
            (is_first_crossing alpha h k \/ (never_crosses alpha h /\ k = N)).
Proof.
  intros c alpha x n Hn Hx N h. exists (crossing_or alpha N h). split; [|split; auto using crossing_or_spec].
  unfold ss_det. rewrite Hn. destruct x; [congruence|].
  unfold sample_size_det. rewrite Hn. reflexivity.
Qed.
End DetSpec.

(* ===================================================================================================== prefix invariance *)
Definition nonanticipating (H : list Q -> list Xq) : Prop :=
  forall k xs ys, firstn k xs = firstn k ys -> (k < length xs)%nat -> (k < length ys)%nat ->
                  firstn k (H xs) = firstn k (H ys).

Lemma firstn_app_left {A} : forall (x d : list A) m, (m <= length x)%nat -> firstn m (x ++ d) = firstn m x.
Proof.
  intros x d m Hm. rewrite firstn_app. replace (m - length x)%nat with 0%nat by lia.
  simpl. apply app_nil_r.
Qed.

Lemma prefix_cross_interior : forall H alpha x d k, nonanticipating H ->
  first_crossing alpha 0 (H x) = Some k -> (k < length x)%nat ->
  first_crossing alpha 0 (H (x ++ d)) = Some k.
Proof.
  intros H alpha x d k NA Hc Hk.
  destruct d as [|d0 d]; [rewrite app_nil_r; auto|].
  pose proof (first_crossing_some _ _ _ _ Hc) as (Hb & _).
  set (m := (length x - 1)%nat).
  assert (E : firstn m (H x) = firstn m (H (x ++ d0 :: d))).
  { apply NA.
    - rewrite firstn_app_left; auto. unfold m; lia.
    - unfold m; lia.
    - rewrite app_length. simpl. unfold m; lia. }
  apply fc_firstn_some with (m := m). rewrite <- E. apply fc_some_firstn; auto. unfold m; lia.
Qed.

Lemma prefix_cross_unclamped : forall H alpha x d0 d k, nonanticipating H -> d0 <> [] -> d <> [] ->
  first_crossing alpha 0 (firstn (length x) (H (x ++ d0))) = Some k ->
  first_crossing alpha 0 (H (x ++ d)) = Some k.
Proof.
  intros H alpha x d0 d k NA H0 Hd Hc.
  assert (E : firstn (length x) (H (x ++ d0)) = firstn (length x) (H (x ++ d))).
  { apply NA.
    - rewrite !firstn_app_left; auto.
    - rewrite app_length. destruct d0; [congruence|simpl; lia].
    - rewrite app_length. destruct d; [congruence|simpl; lia]. }
  apply fc_firstn_some with (m := length x). rewrite <- E. auto.
Qed.

Lemma map_const_repeat {A} : forall (f : A -> nat) k l, (forall a, In a l -> f a = k) -> map f l = repeat k (length l).
Proof.
  intros f k l. induction l as [|a l IH]; intros H; simpl; auto.
  rewrite (H a) by (left; auto). f_equal. apply IH. intros b Hb. apply H. right; auto.
Qed.

Section Prefix.
Variable sqrtq : Q -> Q.
Variable draws : nat -> list Q.
Variable quantile : Q -> list nat -> nat.
Hypothesis quantile_const : forall q k n, 0 <= q <= 1 -> quantile q (repeat k (S n)) = k.

Lemma prefix_invariant : forall c alpha x reps q n k,
  cN c = Some n ->
  nonanticipating (hist sqrtq c) ->
  (1 <= reps)%nat -> 0 <= q <= 1 ->
  ((first_crossing alpha 0 (hist sqrtq c x) = Some k /\ (k < length x)%nat)
   \/ (exists d0, d0 <> [] /\ (forall r, (r < reps)%nat -> draws r <> []) /\
                  first_crossing alpha 0 (firstn (length x) (hist sqrtq c (x ++ d0))) = Some k)) ->
  (forall r, (r < reps)%nat -> sim_one sqrtq draws c alpha (Z.to_nat n) true x r = k) /\
  ss_sim sqrtq draws quantile c alpha x reps true q = Ok k.
Proof.
  intros c alpha x reps q n k Hn NA Hr Hq Hc.
  assert (A : forall r, (r < reps)%nat -> sim_one sqrtq draws c alpha (Z.to_nat n) true x r = k).
  { intros r Hlt. unfold sim_one, sim_pop, crossing_or.
    destruct Hc as [(Hc & Hk)|(d0 & H0 & Hd & Hc)].
    - rewrite (prefix_cross_interior _ _ _ (draws r) _ NA Hc Hk). reflexivity.
    - rewrite (prefix_cross_unclamped _ _ _ d0 (draws r) _ NA H0 (Hd r Hlt) Hc). reflexivity. }
  split; auto.
  unfold ss_sim. rewrite Hn. f_equal. unfold sim_sams.
  rewrite (map_const_repeat _ k).
  - rewrite seq_length. destruct reps; [lia|]. apply quantile_const; auto.
  - intros r Hin. apply in_seq in Hin. apply A. lia.
Qed.
End Prefix.

(* np_quantile (the executable instance used by the runs) satisfies the one hypothesis made about `quantile` *)
Lemma sort_nat_repeat : forall k n, sort_nat (repeat k n) = repeat k n.
Proof.
  intros k n. induction n as [|n IH]; simpl; auto.
  unfold sort_nat in *. simpl. rewrite IH. destruct n; simpl; auto. rewrite Nat.leb_refl. reflexivity.
Qed.
Lemma nth_repeat_lt {A} : forall (k : A) n i d, (i < n)%nat -> nth i (repeat k n) d = k.
Proof. intros k n. induction n as [|n IH]; intros i d H; [lia|]. destruct i; simpl; auto. apply IH. lia. Qed.

Lemma np_quantile_const : forall q k n, 0 <= q <= 1 -> np_quantile q (repeat k (S n)) = k.
Proof.
  intros q k n [Hq0 Hq1]. unfold np_quantile. rewrite sort_nat_repeat, repeat_length.
  set (h := inject_Z (Z.of_nat (S n) - 1) * q).
  assert (Hn : inject_Z (Z.of_nat (S n) - 1) == inject_Z (Z.of_nat n)).
  { replace (Z.of_nat (S n) - 1)%Z with (Z.of_nat n) by lia. reflexivity. }
  assert (Hn0 : 0 <= inject_Z (Z.of_nat n)).
  { change 0 with (inject_Z 0). rewrite <- Zle_Qle. lia. }
  assert (H0 : 0 <= h) by (unfold h; rewrite Hn; apply Qmult_le_0_compat; auto).
  assert (H1 : h <= inject_Z (Z.of_nat n)).
  { unfold h. rewrite Hn. set (z := inject_Z (Z.of_nat n)) in *. nra. }
  assert (F0 : (0 <= Qfloor h)%Z).
  { change 0%Z with (Qfloor 0). apply Qfloor_resp_le; auto. }
  assert (F1 : (Qfloor h <= Z.of_nat n)%Z).
  { rewrite <- (Qfloor_Z (Z.of_nat n)). apply Qfloor_resp_le; auto. }
  rewrite !nth_repeat_lt by lia.
  set (g := h - inject_Z (Qfloor h)).
  assert (E : inject_Z (Z.of_nat k) + (inject_Z (Z.of_nat k) - inject_Z (Z.of_nat k)) * g == inject_Z (Z.of_nat k)) by ring.
  rewrite E, Qfloor_Z. apply Nat2Z.id.
Qed.

(* ===================================================================================================== layout *)
Definition rate_hit (r : option Q) (i : nat) : bool :=
  match r with
  | None => false
  | Some q => if Qeq_bool q 0 then false
              else let s := rate_step q in (0 <? s)%Z && (i mod (Z.to_nat s) =? 0)%nat
  end.

Lemma arange0_In : forall N k i, (1 <= k)%nat -> (In i (arange0 N k) <-> (i < N)%nat /\ (i mod k = 0)%nat).
Proof.
  intros N k i Hk. unfold arange0. rewrite in_map_iff. split.
  - intros (j & Hj & Hin). apply in_seq in Hin. subst i. split.
    + destruct (Nat.lt_ge_cases (j * k) N) as [L|L]; auto. exfalso.
      assert (((N + k - 1) / k < S j)%nat) by (apply Nat.div_lt_upper_bound; nia). lia.
    + apply Nat.mod_mul. lia.
  - intros (Hi & Hm). apply Nat.mod_divides in Hm; [|lia]. destruct Hm as (j & Hj).
    exists j. split; [nia|]. apply in_seq. split; [lia|]. simpl.
    assert ((S j <= (N + k - 1) / k)%nat) by (apply Nat.div_le_lower_bound; nia). lia.
Qed.

Lemma existsb_eqb_In : forall i l, existsb (Nat.eqb i) l = true <-> In i l.
Proof.
  intros i l. rewrite existsb_exists. split.
  - intros (x & Hin & He). apply Nat.eqb_eq in He. subst; auto.
  - intros H. exists i. split; auto. apply Nat.eqb_refl.
Qed.

Lemma rate_idx_hit : forall N r idx, rate_idx N r = Ok idx ->
  forall i, (i < N)%nat -> existsb (Nat.eqb i) idx = rate_hit r i.
Proof.
  intros N r idx H i Hi. unfold rate_idx in H. unfold rate_hit. destruct r as [q|].
  - destruct (Qeq_bool q 0); [inversion H; reflexivity|].
    destruct (rate_step q =? 0)%Z eqn:E0; [discriminate|].
    destruct (rate_step q <? 0)%Z eqn:E1.
    + inversion H; subst idx. simpl. apply Z.ltb_lt in E1.
      destruct (0 <? rate_step q)%Z eqn:E2; auto. apply Z.ltb_lt in E2. lia.
    + inversion H; subst idx. apply Z.eqb_neq in E0. apply Z.ltb_ge in E1.
      assert (P : (0 < rate_step q)%Z) by lia. assert (E2 := P). apply Z.ltb_lt in E2. rewrite E2. simpl.
      assert (K : (1 <= Z.to_nat (rate_step q))%nat) by lia.
      destruct (i mod Z.to_nat (rate_step q) =? 0)%nat eqn:Em.
      * apply existsb_eqb_In. apply arange0_In; auto. apply Nat.eqb_eq in Em. auto.
      * destruct (existsb (Nat.eqb i) (arange0 N (Z.to_nat (rate_step q)))) eqn:Ex; auto.
        apply existsb_eqb_In in Ex. apply arange0_In in Ex; auto. apply Nat.eqb_neq in Em. lia.
  - inversion H. reflexivity.
Qed.

Lemma assign_at_gen : forall idx v x s i d, (i < length x)%nat ->
  nth i (map (fun p : nat * Q => if existsb (Nat.eqb (fst p)) idx then v else snd p) (combine (seq s (length x)) x)) d
  = if existsb (Nat.eqb (s + i)) idx then v else nth i x d.
Proof.
  intros idx v x. induction x as [|a x IH]; intros s i d Hi; simpl in Hi; [lia|].
  simpl. destruct i as [|i].
  - rewrite Nat.add_0_r. reflexivity.
  - rewrite IH by lia. replace (S s + i)%nat with (s + S i)%nat by lia. reflexivity.
Qed.
Lemma assign_at_nth : forall idx v x i d, (i < length x)%nat ->
  nth i (assign_at idx v x) d = if existsb (Nat.eqb i) idx then v else nth i x d.
Proof. intros. unfold assign_at. rewrite assign_at_gen; auto. Qed.
Lemma assign_at_length : forall idx v x, length (assign_at idx v x) = length x.
Proof.
  intros. unfold assign_at. rewrite map_length, combine_length, seq_length. lia.
Qed.

Lemma layout_spec : forall N big small r1 r2 i1 i2,
  rate_idx N r1 = Ok i1 -> rate_idx N r2 = Ok i2 ->
  length (overstatement_layout N big small i1 i2) = N /\
  forall i d, (i < N)%nat ->
    nth i (overstatement_layout N big small i1 i2) d =
    if rate_hit r2 i then 0 else if rate_hit r1 i then small else big.
Proof.
  intros N big small r1 r2 i1 i2 H1 H2. unfold overstatement_layout. split.
  - rewrite !assign_at_length, repeat_length. reflexivity.
  - intros i d Hi. rewrite assign_at_nth by (rewrite assign_at_length, repeat_length; auto).
    rewrite (rate_idx_hit _ _ _ H2 i Hi). destruct (rate_hit r2 i); auto.
    rewrite assign_at_nth by (rewrite repeat_length; auto).
    rewrite (rate_idx_hit _ _ _ H1 i Hi). destruct (rate_hit r1 i); auto.
    apply nth_repeat_lt; auto.
Qed.

(* int(1/rate) is the floor of 1/rate for a positive rate:  s * rate <= 1 < (s + 1) * rate *)
Lemma rate_step_floor : forall q, 0 < q ->
  inject_Z (rate_step q) * q <= 1 /\ 1 < (inject_Z (rate_step q) + 1) * q.
Proof.
  intros [n d] Hq. unfold rate_step. simpl.
  assert (Hn : (0 < n)%Z) by (unfold Qlt in Hq; simpl in Hq; lia).
  rewrite Z.quot_div_nonneg by lia.
  pose proof (Z.div_mod (Zpos d) n ltac:(lia)) as Hdm.
  pose proof (Z.mod_pos_bound (Zpos d) n Hn) as Hmb.
  unfold Qle, Qlt, Qmult, Qplus, inject_Z; simpl. nia.
Qed.

(* ===================================================================================================== interleaving *)
Definition okr (n i : nat) (r : Q) : Prop := (i <= n)%nat /\ 0 <= r /\ (0 < r <-> (i < n)%nat).
Definition inv (ns nm nb : nat) (st : ist) : Prop :=
  okr ns (i_s st) (r_s st) /\ okr nm (i_m st) (r_m st) /\ okr nb (i_b st) (r_b st).

Lemma ratio_ok : forall n i, (S i <= n)%nat -> exists r, ratio n (S i) = Some r /\ okr n (S i) r.
Proof.
  intros n i H. destruct n as [|n]; [lia|]. unfold ratio.
  eexists; split; [reflexivity|]. unfold okr. split; [lia|].
  unfold Qle, Qlt; cbn [Qnum Qden]. rewrite !Z.mul_1_r. split; [lia|]. split; lia.
Qed.

Lemma r_init_ok : forall n, okr n 0 (r_init n).
Proof.
  intros [|n]; unfold okr, r_init; (split; [lia|]); split; try lra; split; intro; try lra; lia.
Qed.

Definition tag_i (t : tag) (st : ist) : nat :=
  match t with TSmall => i_s st | TMed => i_m st | TBig => i_b st end.
Definition tag_n (t : tag) (ns nm nb : nat) : nat :=
  match t with TSmall => ns | TMed => nm | TBig => nb end.

Lemma choose_ok : forall ns nm nb st, inv ns nm nb st ->
  (i_s st + i_m st + i_b st < ns + nm + nb)%nat ->
  (tag_i (choose st) st < tag_n (choose st) ns nm nb)%nat.
Proof.
  intros ns nm nb st ((S1 & S2 & S3) & (M1 & M2 & M3) & (B1 & B2 & B3)) Hlt.
  unfold choose.
  destruct (Qlt_bool (r_b st) (r_s st)) eqn:E1.
  - apply Qlt_bool_iff in E1. destruct (Qlt_bool (r_s st) (r_m st)) eqn:E2.
    + apply Qlt_bool_iff in E2. simpl. apply M3. lra.
    + simpl. apply S3. lra.
  - apply Qlt_bool_false in E1. destruct (Qlt_bool (r_b st) (r_m st)) eqn:E2.
    + apply Qlt_bool_iff in E2. simpl. apply M3. lra.
    + apply Qlt_bool_false in E2. simpl. apply B3.
      destruct (Nat.lt_ge_cases (i_s st) ns) as [L|L]; [apply S3 in L; lra|].
      destruct (Nat.lt_ge_cases (i_m st) nm) as [L'|L']; [apply M3 in L'; lra|].
      apply B3. lia.
Qed.

Lemma bump_ok : forall ns nm nb st t, inv ns nm nb st -> (tag_i t st < tag_n t ns nm nb)%nat ->
  exists st', bump t ns nm nb st = Some st' /\ inv ns nm nb st' /\
              i_s st' = (i_s st + (if tag_eqb TSmall t then 1 else 0))%nat /\
              i_m st' = (i_m st + (if tag_eqb TMed t then 1 else 0))%nat /\
              i_b st' = (i_b st + (if tag_eqb TBig t then 1 else 0))%nat.
Proof.
  intros ns nm nb st t (S & M & B) H. destruct t; simpl in H; unfold bump.
  - destruct (ratio_ok ns (i_s st) H) as (r & Hr & Ho). rewrite Hr.
    eexists; split; [reflexivity|]. simpl. repeat split; auto; try lia; try apply M; try apply B; apply Ho.
  - destruct (ratio_ok nm (i_m st) H) as (r & Hr & Ho). rewrite Hr.
    eexists; split; [reflexivity|]. simpl. repeat split; auto; try lia; try apply S; try apply B; apply Ho.
  - destruct (ratio_ok nb (i_b st) H) as (r & Hr & Ho). rewrite Hr.
    eexists; split; [reflexivity|]. simpl. repeat split; auto; try lia; try apply S; try apply M; apply Ho.
Qed.

Lemma count_tag_cons : forall t a l, count_tag t (a :: l) = ((if tag_eqb t a then 1 else 0) + count_tag t l)%nat.
Proof. intros. unfold count_tag. simpl. destruct (tag_eqb t a); reflexivity. Qed.

Lemma iloop_ok : forall ns nm nb fuel st, inv ns nm nb st ->
  (i_s st + i_m st + i_b st + fuel = ns + nm + nb)%nat ->
  exists l, iloop fuel ns nm nb st = Some l /\ length l = fuel /\
            (count_tag TSmall l + i_s st = ns)%nat /\ (count_tag TMed l + i_m st = nm)%nat /\
            (count_tag TBig l + i_b st = nb)%nat.
Proof.
  intros ns nm nb fuel. induction fuel as [|fuel IH]; intros st Hinv Hsum.
  - exists []. simpl. destruct Hinv as ((S1 & _) & (M1 & _) & (B1 & _)). repeat split; auto; unfold count_tag; simpl; lia.
  - simpl. assert (Hc := choose_ok ns nm nb st Hinv ltac:(lia)).
    destruct (bump_ok ns nm nb st (choose st) Hinv Hc) as (st' & Hb & Hinv' & Es & Em & Eb).
    rewrite Hb.
    destruct (IH st' Hinv') as (l & Hl & Hlen & Cs & Cm & Cb).
    { rewrite Es, Em, Eb. destruct (choose st); simpl; lia. }
    rewrite Hl. exists (choose st :: l). split; auto. split; [simpl; lia|].
    rewrite !count_tag_cons. rewrite Es, Em, Eb in *. repeat split; lia.
Qed.

Lemma interleave_counts : forall ns nm nb, (1 <= ns + nm + nb)%nat ->
  exists l, interleave_tags ns nm nb = Ok l /\ length l = (ns + nm + nb)%nat /\
            count_tag TSmall l = ns /\ count_tag TMed l = nm /\ count_tag TBig l = nb.
Proof.
  intros ns nm nb HN. unfold interleave_tags.
  destruct (ns + nm + nb)%nat as [|N'] eqn:EN; [lia|].
  set (st0 := mkist 0 0 0 (r_init ns) (r_init nm) (r_init nb)).
  assert (I0 : inv ns nm nb st0) by (unfold inv, st0; simpl; auto using r_init_ok).
  assert (H0 : (tag_i (first_tag ns nm) st0 < tag_n (first_tag ns nm) ns nm nb)%nat).
  { unfold first_tag. destruct ns; [destruct nm|]; simpl; lia. }
  destruct (bump_ok ns nm nb st0 _ I0 H0) as (st1 & Hb & I1 & Es & Em & Eb).
  rewrite Hb.
  destruct (iloop_ok ns nm nb N' st1 I1) as (l & Hl & Hlen & Cs & Cm & Cb).
  { rewrite Es, Em, Eb. simpl. destruct (first_tag ns nm); simpl; lia. }
  rewrite Hl. exists (first_tag ns nm :: l). split; auto. split; [simpl; lia|].
  rewrite !count_tag_cons. rewrite Es, Em, Eb in *. simpl in *.
  destruct (first_tag ns nm); simpl in *; repeat split; lia.
Qed.

Lemma interleave_empty : interleave_tags 0 0 0 = Err EIndex.
Proof. reflexivity. Qed.

(* values: with three different values, each occurs exactly the requested number of times *)
Definition count_q (v : Q) (l : list Q) : nat := length (filter (Qeq_bool v) l).
Lemma count_q_tags : forall small med big l, ~ small == med -> ~ small == big -> ~ med == big ->
  count_q small (map (tag_value small med big) l) = count_tag TSmall l /\
  count_q med (map (tag_value small med big) l) = count_tag TMed l /\
  count_q big (map (tag_value small med big) l) = count_tag TBig l.
Proof.
  intros small med big l H1 H2 H3.
  assert (Ess := Qeq_bool_refl small). assert (Emm := Qeq_bool_refl med). assert (Ebb := Qeq_bool_refl big).
  assert (Esm : Qeq_bool small med = false) by (apply Qeq_bool_false; auto).
  assert (Esb : Qeq_bool small big = false) by (apply Qeq_bool_false; auto).
  assert (Emb : Qeq_bool med big = false) by (apply Qeq_bool_false; auto).
  assert (Ems : Qeq_bool med small = false) by (apply Qeq_bool_false; intro; apply H1; symmetry; auto).
  assert (Ebs : Qeq_bool big small = false) by (apply Qeq_bool_false; intro; apply H2; symmetry; auto).
  assert (Ebm : Qeq_bool big med = false) by (apply Qeq_bool_false; intro; apply H3; symmetry; auto).
  unfold count_q, count_tag. induction l as [|t l (IH1 & IH2 & IH3)]; simpl; auto.
  destruct t; simpl; rewrite ?Ess, ?Emm, ?Ebb, ?Esm, ?Esb, ?Emb, ?Ems, ?Ebs, ?Ebm; simpl; auto.
Qed.

(* ===================================================================================================== contest maximum *)
Lemma fold_max_list_max : forall ks m0, fold_left Nat.max ks m0 = Nat.max m0 (list_max ks).
Proof.
  induction ks as [|k ks IH]; intros m0; simpl; [lia|]. rewrite IH. lia.
Qed.

Lemma list_max_In : forall ks, ks <> [] -> In (list_max ks) ks.
Proof.
  induction ks as [|k ks IH]; intros H; [congruence|]. simpl.
  destruct ks as [|k' ks']; [left; simpl; lia|].
  destruct (Nat.max_spec k (list_max (k' :: ks'))) as [[_ E]|[_ E]]; rewrite E.
  - right. apply IH. congruence.
  - left; auto.
Qed.

Section ContestMax.
Variable sqrtq : Q -> Q.
Variable draws : nat -> list Q.
Variable quantile : Q -> list nat -> nat.

Let find1 r1 r2 reps q (ad : asn * option (list Q)) :=
  asn_find sqrtq draws quantile (fst ad) (snd ad) r1 r2 reps false q.

Lemma contest_fold_ok : forall r1 r2 reps q asns m0 M,
  fold_left (fun acc ad => rbind acc (fun m => rbind (find1 r1 r2 reps q ad) (fun k => Ok (Nat.max m k)))) asns (Ok m0) = Ok M
  <-> exists ks, Forall2 (fun ad k => find1 r1 r2 reps q ad = Ok k) asns ks /\ M = Nat.max m0 (list_max ks).
Proof.
  intros r1 r2 reps q asns. induction asns as [|ad asns IH]; intros m0 M; simpl.
  - split.
    + intros H. inversion H; subst. exists []. split; [constructor|]. simpl. lia.
    + intros (ks & HF & HM). inversion HF; subst. simpl. f_equal. lia.
  - destruct (find1 r1 r2 reps q ad) as [k|e] eqn:E; simpl.
    + rewrite IH. split.
      * intros (ks & HF & HM). exists (k :: ks). split; [constructor; auto|]. simpl. lia.
      * intros (ks & HF & HM). inversion HF; subst. rewrite E in H1. inversion H1; subst.
        eexists; split; eauto. simpl. lia.
    + split.
      * intros H. exfalso. clear IH E. induction asns as [|a l IHl]; simpl in H; [discriminate|auto].
      * intros (ks & HF & HM). inversion HF; subst. rewrite E in H1. discriminate.
Qed.

Lemma contest_max : forall asns r1 r2 reps q M,
  contest_find sqrtq draws quantile asns r1 r2 reps q = Ok M <->
  exists ks, Forall2 (fun ad k => asn_find sqrtq draws quantile (fst ad) (snd ad) r1 r2 reps false q = Ok k) asns ks
             /\ M = list_max ks.
Proof.
  intros. unfold contest_find. exact (contest_fold_ok r1 r2 reps q asns 0%nat M).
Qed.
End ContestMax.

(* ===================================================================================================== populations of assertions *)
Lemma interleave_values_length : forall ns nm nb small med big l,
  interleave_values ns nm nb small med big = Ok l -> length l = (ns + nm + nb)%nat.
Proof.
  intros ns nm nb small med big l H. unfold interleave_values in H.
  destruct (Nat.eq_dec (ns + nm + nb) 0) as [Z|NZ].
  - unfold interleave_tags in H. rewrite Z in H. discriminate.
  - destruct (interleave_counts ns nm nb ltac:(lia)) as (t & Ht & Hlen & _). rewrite Ht in H. simpl in H.
    inversion H. rewrite map_length. auto.
Qed.

(* ===================================================================================================== a non-anticipating test *)
Lemma firstn_xcumprod : forall k l a, firstn k (xcumprod a l) = xcumprod a (firstn k l).
Proof.
  induction k as [|k IH]; intros l a; [reflexivity|]. destruct l as [|b l]; simpl; auto. f_equal. apply IH.
Qed.

Lemma km_nonanticipating : forall sqrtq N t u ro g, nonanticipating (hist sqrtq (mkcfg N t u ro (TKM g))).
Proof.
  intros sqrtq N t u ro g k xs ys E _ _. unfold hist, run_test, kaplan_markov. simpl.
  rewrite !firstn_map, !absorb_firstn, !firstn_xcumprod, !firstn_map, E. reflexivity.
Qed.

(* ===================================================================================================== assertion level *)
Lemma asn_population_length : forall a r1 r2 pop n, cN (a_cfg a) = Some n ->
  asn_population a r1 r2 = Ok pop -> length pop = Z.to_nat n.
Proof.
  intros a r1 r2 pop n Hn H. unfold asn_population in H.
  destruct (a_margin a) as [m|]; [|discriminate]. cbv zeta in H. rewrite Hn in H.
  destruct (a_type a).
  - destruct (a_irv a); [discriminate|]. destruct (a_tally a) as [[n0 nb]|]; [|discriminate].
    destruct (Z.to_nat n <? n0 + nb)%nat eqn:E; [discriminate|]. apply Nat.ltb_ge in E.
    apply interleave_values_length in H. lia.
  - destruct (rate_idx (Z.to_nat n) (Some _)) as [i1|]; simpl in H; [|discriminate].
    destruct (rate_idx (Z.to_nat n) r2) as [i2|]; simpl in H; [|discriminate].
    inversion H. unfold overstatement_layout. rewrite !assign_at_length, repeat_length. reflexivity.
  - destruct (rate_idx (Z.to_nat n) (Some _)) as [i1|]; simpl in H; [|discriminate].
    destruct (rate_idx (Z.to_nat n) r2) as [i2|]; simpl in H; [|discriminate].
    inversion H. unfold overstatement_layout. rewrite !assign_at_length, repeat_length. reflexivity.
Qed.

Lemma asn_population_layout : forall a r1 r2 pop m n,
  a_type a <> Polling -> a_margin a = Some m -> cN (a_cfg a) = Some n ->
  asn_population a r1 r2 = Ok pop ->
  let N := Z.to_nat n in
  let big := make_overstatement (a_ub a) m 0 in
  let small := make_overstatement (a_ub a) m (1 # 2) in
  let r1' := Some (match r1 with Some r => r | None => (1 - m) / 2 end) in
  length pop = N /\
  forall i d, (i < N)%nat -> nth i pop d = if rate_hit r2 i then 0 else if rate_hit r1' i then small else big.
Proof.
  intros a r1 r2 pop m n Ht Hm Hn H N big small r1'. unfold asn_population in H.
  rewrite Hm in H. cbv zeta in H. rewrite Hn in H.
  destruct (a_type a); [congruence| |].
  - destruct (rate_idx (Z.to_nat n) (Some _)) as [i1|] eqn:E1; simpl in H; [|discriminate].
    destruct (rate_idx (Z.to_nat n) r2) as [i2|] eqn:E2; simpl in H; [|discriminate].
    inversion H. apply (layout_spec _ _ _ _ _ _ _ E1 E2).
  - destruct (rate_idx (Z.to_nat n) (Some _)) as [i1|] eqn:E1; simpl in H; [|discriminate].
    destruct (rate_idx (Z.to_nat n) r2) as [i2|] eqn:E2; simpl in H; [|discriminate].
    inversion H. apply (layout_spec _ _ _ _ _ _ _ E1 E2).
Qed.

Lemma asn_population_polling : forall a r1 r2 pop n,
  a_type a = Polling -> cN (a_cfg a) = Some n -> asn_population a r1 r2 = Ok pop ->
  let N := Z.to_nat n in
  exists n0 nb tags, a_tally a = Some (n0, nb) /\ (n0 + nb <= N)%nat /\
    interleave_tags n0 (N - n0 - nb) nb = Ok tags /\ pop = map (tag_value 0 (1 # 2) (a_ub a)) tags /\
    length tags = N /\ count_tag TSmall tags = n0 /\ count_tag TMed tags = (N - n0 - nb)%nat /\ count_tag TBig tags = nb.
Proof.
  intros a r1 r2 pop n Ht Hn H N. unfold asn_population in H.
  destruct (a_margin a) as [m|]; [|discriminate]. cbv zeta in H. rewrite Hn, Ht in H.
  destruct (a_irv a); [discriminate|]. destruct (a_tally a) as [[n0 nb]|]; [|discriminate].
  destruct (Z.to_nat n <? n0 + nb)%nat eqn:E; [discriminate|]. apply Nat.ltb_ge in E.
  exists n0, nb. unfold interleave_values in H.
  destruct (Nat.eq_dec (n0 + (Z.to_nat n - n0 - nb) + nb) 0) as [Z|NZ].
  - unfold interleave_tags in H. rewrite Z in H. discriminate.
  - destruct (interleave_counts n0 (Z.to_nat n - n0 - nb) nb ltac:(lia)) as (t & Ht' & Hlen & C1 & C2 & C3).
    rewrite Ht' in H. simpl in H. inversion H. exists t. unfold N. repeat split; auto. lia.
Qed.

Section AsnSpec.
Variable sqrtq : Q -> Q.
Variable draws : nat -> list Q.
Variable quantile : Q -> list nat -> nat.

Lemma asn_find_first_crossing : forall a r1 r2 prefix q k n,
  cN (a_cfg a) = Some n ->
  asn_find sqrtq draws quantile a None r1 r2 None prefix q = Ok k ->
  exists pop, asn_population a r1 r2 = Ok pop /\ length pop = Z.to_nat n /\
    let h := hist sqrtq (a_cfg a) pop in
    k = crossing_or (a_alpha a) (Z.to_nat n) h /\
    (is_first_crossing (a_alpha a) h k \/ (never_crosses (a_alpha a) h /\ k = Z.to_nat n)).
Proof.
  intros a r1 r2 prefix q k n Hn H. unfold asn_find in H.
  destruct (a_margin a) as [m|] eqn:Em; [|discriminate].
  destruct (Qle_bool m 0); [discriminate|].
  destruct (asn_population a r1 r2) as [pop|e] eqn:Ep; simpl in H; [|discriminate].
  exists pop. split; auto. pose proof (asn_population_length _ _ _ _ _ Hn Ep) as Hl. split; auto.
  unfold ss_det in H. rewrite Hn in H. destruct pop as [|p0 pop']; [discriminate|].
  inversion H as [Hk]. unfold sample_size_det. rewrite Hn. rewrite <- Hl. rewrite tile_to_self.
  cbv zeta. split; auto. apply crossing_or_spec.
Qed.
End AsnSpec.

(* ===================================================================================================== C05 discharges the hypothesis *)
(* every shipped test is non-anticipating: this is C05_tail (NNM_prefix.hist_tail_all), no range hypotheses *)
From SV Require NNM_prefix.
Lemma shipped_nonanticipating : forall sqrtq c, nonanticipating (hist sqrtq c).
Proof. intros sqrtq c k xs ys E H1 H2. exact (NNM_prefix.hist_tail_all sqrtq c xs ys k E H1 H2). Qed.

Lemma prefix_invariant_shipped :
  forall (sqrtq : Q -> Q) (draws : nat -> list Q) (quantile : Q -> list nat -> nat),
  (forall q k n, 0 <= q <= 1 -> quantile q (repeat k (S n)) = k) ->
  forall (c : cfg) (alpha : Q) (x : list Q) (reps : nat) (q : Q) (n : Z) (k : nat),
  cN c = Some n ->
  (1 <= reps)%nat -> 0 <= q <= 1 ->
  ((first_crossing alpha 0 (hist sqrtq c x) = Some k /\ (k < length x)%nat)
   \/ (exists d0, d0 <> [] /\ (forall r, (r < reps)%nat -> draws r <> []) /\
                  first_crossing alpha 0 (firstn (length x) (hist sqrtq c (x ++ d0))) = Some k)) ->
  (forall r, (r < reps)%nat -> sim_one sqrtq draws c alpha (Z.to_nat n) true x r = k) /\
  ss_sim sqrtq draws quantile c alpha x reps true q = Ok k.
Proof.
  intros sqrtq draws quantile Hq c alpha x reps q n k Hn Hr Hq01 Hc.
  exact (prefix_invariant sqrtq draws quantile Hq c alpha x reps q n k Hn (shipped_nonanticipating sqrtq c) Hr Hq01 Hc).
Qed.
