(* RaireAlgo_fuel.v — fuel: more fuel never changes a result of the model of the search. *)
From SV Require Import RaireCheck RaireAlgo.
Open Scope nat_scope.

Lemma search_fuel_mono dfun cands p tot hint nebs : forall f h fr lb r,
  search dfun cands p tot hint nebs f h fr lb = r -> r <> OutOfFuel ->
  forall f', f <= f' -> search dfun cands p tot hint nebs f' h fr lb = r.
Proof.
  induction f as [|f IH]; intros h fr lb r Hs Hr f' Hle; [simpl in Hs; congruence|].
  destruct f' as [|f']; [lia|]. assert (Hle' : f <= f') by lia.
  revert Hs. cbn [search].
  destruct fr as [|x fr1]; [intro Hs; congruence|].
  destruct (negb (n_exp (get h (fe_id x)))); [auto|].
  destruct (anc_le h (get h (fe_id x)) lb) as [an|]; [intro Hs; eapply IH; eauto|].
  destruct (ole (n_est (get h (fe_id x))) (Some lb)); [intro Hs; eapply IH; eauto|].
  destruct (n_dive (get h (fe_id x))).
  { destruct (expand dfun cands p tot nebs cands (get h (fe_id x)) h fr1 lb) as [[[b h2] fr2] lb2].
    destruct b; [auto | intro Hs; eapply IH; eauto]. }
  destruct (perform_dive dfun cands p tot hint nebs (S (ncands cands)) h fr1 lb (n_id (get h (fe_id x)))) as [[[h1 fr2] r0]|];
    [|auto].
  destruct r0 as [dlb|]; [|auto].
  destruct (anc_le h1 (get h1 (n_id (get h (fe_id x)))) (Qmaxb lb dlb)) as [an|]; [intro Hs; eapply IH; eauto|].
  destruct (ole (n_est (get h1 (n_id (get h (fe_id x))))) (Some (Qmaxb lb dlb))); [intro Hs; eapply IH; eauto|].
  destruct (expand dfun cands p tot nebs cands (get h1 (n_id (get h (fe_id x)))) h1 fr2 (Qmaxb lb dlb)) as [[[b h2] fr3] lb2].
  destruct b; [auto | intro Hs; eapply IH; eauto].
Qed.

(* once the model has produced a result, any larger fuel produces the same result *)
Theorem raire_fuel_mono :
  forall f f' dfun cands p tot winner hint out,
    raire f dfun cands p tot winner hint = Some out -> f <= f' ->
    raire f' dfun cands p tot winner hint = Some out.
Proof.
  intros f f' dfun cands p tot winner hint out. unfold raire.
  destruct (search dfun cands p tot hint (neb_table dfun cands p tot) f
                   (fst (initial dfun cands p tot (neb_table dfun cands p tot) winner))
                   (snd (initial dfun cands p tot (neb_table dfun cands p tot) winner)) (-10 # 1)%Q) as [| |h fr] eqn:Es.
  - discriminate.
  - intros H Hle. rewrite (search_fuel_mono _ _ _ _ _ _ _ _ _ _ _ Es) by (try discriminate; exact Hle). exact H.
  - intros H Hle. rewrite (search_fuel_mono _ _ _ _ _ _ _ _ _ _ _ Es) by (try discriminate; exact Hle). exact H.
Qed.
Print Assumptions raire_fuel_mono.
