(* NNM_wf.v — C11 for the tests built on the martingale machinery (ALPHA, betting, SPRT): every reported value
   is a rational in [0,1] (never NaN), one entry per observation, and the overall value is the smallest entry. *)
From SV Require Import NNM NNM_machines NNM_ranges NNM_spec NNM_hist.
Open Scope Q_scope.

Lemma map2_length {A B C} (f : A -> B -> C) : forall a b, length a = length b -> length (map2 f a b) = length a.
Proof. induction a as [|x a IH]; intros [|y b] H; simpl in *; auto; try discriminate. Qed.

Lemma Forall2_impl' {A B} (P Q : A -> B -> Prop) : (forall a b, P a b -> Q a b) ->
  forall l m, Forall2 P l m -> Forall2 Q l m.
Proof. intros H l m HF. induction HF; constructor; auto. Qed.

Definition sample_ok (N : option Z) (u : Q) (xs : list Q) : Prop :=
  xs <> [] /\ in_range u xs /\ match N with Some n => (Z.of_nat (length xs) <= n)%Z | None => True end.

Definition wellformed (r : Xq * list Xq) (n : nat) : Prop :=
  length (snd r) = n /\ Forall unit_x (snd r) /\ unit_x (fst r)
  /\ In (fst r) (snd r) /\ Forall (fun h => xle (fst r) h = true) (snd r).

Section WF.
Variable sqrtq : Q -> Q.
Hypothesis sqrt_pos : forall x, 0 < x -> 0 < sqrtq x.
Hypothesis sqrt_nonneg : forall x, 0 <= sqrtq x.

Lemma alpha_terms_eq_spec e N t u xs :
  0 < u -> 0 < t < u -> sample_ok N u xs ->
  model_terms (alpha_factor u) N t u (0, 1%Z) (Fin 1) xs (alpha_etas sqrtq e N t u xs)
  = spec_terms (alpha_factor_q u) N t u (0, 1%Z) 1 Alive xs (alpha_etas sqrtq e N t u xs).
Proof.
  intros Hu Ht [Hne [Hr HN]].
  apply model_terms_spec; auto.
  - intros x e0 m H0 H1. now apply alpha_factor_fin.
  - destruct N; auto. cbn [snd]. lia.
  - exact I.
Qed.

Theorem alpha_mart_wellformed e N t u xs :
  0 < u -> 0 < t < u -> sample_ok N u xs ->
  wellformed (alpha_mart sqrtq e N t u xs) (length xs).
Proof.
  intros Hu Ht Hs. rewrite alpha_mart_unfold, (alpha_terms_eq_spec e N t u xs Hu Ht Hs).
  destruct Hs as [Hne [Hr HN]].
  set (es := alpha_etas sqrtq e N t u xs).
  assert (Hlen : length es = length xs).
  { unfold es, alpha_etas. rewrite map2_length; unfold run_estim, mu_list; rewrite !run_machine_length; auto. }
  set (terms := spec_terms (alpha_factor_q u) N t u (0, 1%Z) 1 Alive xs es).
  assert (Hl : length terms = length xs) by (apply spec_terms_length; auto).
  assert (Hg : Forall good_term terms).
  { apply spec_terms_good; [lra|]. unfold es, alpha_etas.
    change (mu_list N t xs) with (mscan (mu_out N t) sj_step (0, 1%Z) xs). now apply alpha_facs_ok. }
  assert (Hne' : terms <> []). { intro E. rewrite E in Hl. destruct xs; simpl in *; congruence. }
  destruct (finish_terms_wellformed N t xs terms Hne' Hg) as [H1 [H2 [H3 [H4 H5]]]].
  unfold wellformed. rewrite H1, Hl. auto.
Qed.

(* bets *)
Definition bet_ok (b : bet_kind) (u : Q) : Prop :=
  match b with
  | BFixed lam => 0 <= lam <= 1 / u
  | BAgrapa lam c0 cmax cgrow => 0 < c0 /\ c0 <= cmax /\ cmax < 1 /\ 0 <= cgrow
  end.

Lemma run_bet_range b N t u xs :
  0 < u -> bet_ok b u ->
  Forall2 (fun l m => 0 <= l /\ (0 < m -> m <= u -> l <= 1 / m)) (run_bet sqrtq b N t u xs) (mu_list N t xs).
Proof.
  intros Hu Hb. destruct b as [lam|lam c0 cmax cgrow]; simpl in Hb.
  - unfold run_bet, mu_list, run_machine; cbn [bet_machine const_machine mu_machine m_out m_step m_init].
    apply (mscan_Forall2 _ _ _ _ (fun _ _ => True) (fun _ => True)); auto.
    + intros _ s2 _. split; [lra|]. intros H0 H1.
      apply Qle_trans with (1 / u); [lra|].
      apply Qle_shift_div_l; auto.
      assert (E : 1 / u * mu_at N t (fst s2) (snd s2) == mu_at N t (fst s2) (snd s2) / u) by (field; lra).
      rewrite E. apply Qle_shift_div_r; auto. lra.
    + clear. induction xs; constructor; auto.
  - destruct Hb as [H1 [H2 [H3 H4]]].
    pose proof (agrapa_range sqrtq sqrt_nonneg N t lam c0 cmax cgrow H1 H2 H3 H4 xs) as HR.
    unfold run_bet. cbn [bet_machine]. fold (agrapa sqrtq N t lam c0 cmax cgrow xs).
    eapply Forall2_impl'; [|exact HR]. intros l m [Ha Hb]. split; auto. intros H0 _. specialize (Hb H0). lra.
Qed.

Theorem betting_mart_wellformed b N t u xs :
  0 < u -> 0 < t < u -> bet_ok b u -> sample_ok N u xs ->
  wellformed (betting_mart sqrtq b N t u xs) (length xs).
Proof.
  intros Hu Ht Hb Hs. rewrite betting_mart_unfold.
  destruct Hs as [Hne [Hr HN]].
  set (es := run_bet sqrtq b N t u xs).
  assert (Hlen : length es = length xs) by (unfold es, run_bet; apply run_machine_length).
  rewrite (model_terms_spec betting_factor betting_factor_q N t u Hu Ht (fun x e m _ _ => eq_refl) xs es (0, 1%Z) (Fin 1) 1 Alive);
    auto; [| destruct N; auto; cbn [snd]; lia | exact I].
  set (terms := spec_terms betting_factor_q N t u (0, 1%Z) 1 Alive xs es).
  assert (Hl : length terms = length xs) by (apply spec_terms_length; auto).
  assert (Hg : Forall good_term terms).
  { apply spec_terms_good; [lra|]. apply betting_facs_ok; auto.
    change (mscan (mu_out N t) sj_step (0, 1%Z) xs) with (mu_list N t xs). now apply run_bet_range. }
  assert (Hne' : terms <> []). { intro E. rewrite E in Hl. destruct xs; simpl in *; congruence. }
  destruct (finish_terms_wellformed N t xs terms Hne' Hg) as [H1 [H2 [H3 [H4 H5]]]].
  unfold wellformed. rewrite H1, Hl. auto.
Qed.

(* the generalised SPRT is ALPHA with the fixed alternative; with random_order the overall value is the minimum,
   otherwise it is the last entry of the history *)
Theorem wald_sprt_wellformed eta N t u xs :
  0 < u -> 0 < t < u -> sample_ok N u xs ->
  wellformed (wald_sprt sqrtq eta true N t u xs) (length xs)
  /\ (let r := wald_sprt sqrtq eta false N t u xs in
      length (snd r) = length xs /\ Forall unit_x (snd r) /\ fst r = last (snd r) NaN /\ unit_x (fst r)).
Proof.
  intros Hu Ht Hs. pose proof (alpha_mart_wellformed (EFixed eta) N t u xs Hu Ht Hs) as [H1 [H2 [H3 [H4 H5]]]].
  split; [unfold wald_sprt; cbn [fst snd]; unfold wellformed; auto|].
  unfold wald_sprt; cbn [fst snd]. repeat split; auto.
  unfold xlast. set (h := snd (alpha_mart sqrtq (EFixed eta) N t u xs)) in *.
  assert (Hne : h <> []). { destruct Hs as [Hne _]. intro E. rewrite E in H1. destruct xs; simpl in *; congruence. }
  rewrite Forall_forall in H2. apply H2. destruct h as [|a r]; [congruence|].
  clear. revert a. induction r as [|b r IH]; intro a; [now left|]. right. apply (IH b).
Qed.
End WF.
