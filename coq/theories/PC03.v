(* PC03.v — property C03: comparison audits test the right null hypothesis (overstatement reduction).
   Model: Compare.v (mirrors Assorter.overstatement, Assertion.overstatement_assorter, Assorter.mean,
   Assertion.set_margin_from_cvrs, Assorter.set_tally_pool_means, CVR.pool_contests, CVR.add_pool_contests of
   shangrla/core/Audit.py).  The assorter A : card -> Q is arbitrary.
   pairs = one (manual record, CVR) pair per card of the population; the cards under audit (`scope`) are those whose
   CVR passes the style filter; Abar = `abar` scores an unfindable (phantom) manual record 0 and, under style, a manual
   record lacking the contest 0.  Hypotheses are decidable predicates of the input:
     phantoms_half : A c = 1/2 for phantom CVRs that are not pooled (blank records, as make_phantoms builds them);
     range_ok      : 0 <= A c <= u on the CVRs under audit. *)
From SV Require Import Compare Compare_proofs.
Open Scope Q_scope.

(* For every list of pairs, every assignment of pools / pooled flags / phantoms, style on or off, pool means and
   margin computed by the model from those same CVRs: every B is a finite number and
   mean B - 1/2 == (2 mean Abar - 1) / (2 (2u - v)); hence mean B > 1/2 <-> mean Abar > 1/2. *)
Theorem C03_identity :
  forall (A : card -> Q) (cid : Z) (use_style : bool) (ua : Q),
  0 < ua ->
  forall (pairs : list (card * card)) (arg : option (list Z)) (means : list (Z * Xq)),
  let cvrs := map snd pairs in
  let scope := filter (in_scope cid use_style) pairs in
  scope <> [] ->
  phantoms_half A (map snd scope) = true ->
  range_ok A ua (map snd scope) = true ->
  set_tally_pool_means A cid cvrs arg use_style = Ok means ->
  exists v bs,
    margin_of_mean (assorter_mean A cid cvrs use_style) = Fin v /\ v < 2 * ua /\
    map (fun p => overstatement_assorter A cid (Some means) (Fin v) ua (fst p) (snd p) use_style) scope
      = map (fun b => Ok (Fin b)) bs /\
    mean bs - (1 # 2) == (2 * mean (map (fun p => abar A cid use_style (fst p)) scope) - 1) / (2 * (2 * ua - v)) /\
    ((1 # 2) < mean bs <-> (1 # 2) < mean (map (fun p => abar A cid use_style (fst p)) scope)).
Proof. exact C03_identity_lemma. Qed.
Print Assumptions C03_identity.

Corollary C03_reject_iff :
  forall (A : card -> Q) (cid : Z) (use_style : bool) (ua : Q),
  0 < ua ->
  forall (pairs : list (card * card)) (arg : option (list Z)) (means : list (Z * Xq)),
  let cvrs := map snd pairs in
  let scope := filter (in_scope cid use_style) pairs in
  scope <> [] ->
  phantoms_half A (map snd scope) = true ->
  range_ok A ua (map snd scope) = true ->
  set_tally_pool_means A cid cvrs arg use_style = Ok means ->
  exists v bs,
    margin_of_mean (assorter_mean A cid cvrs use_style) = Fin v /\
    map (fun p => overstatement_assorter A cid (Some means) (Fin v) ua (fst p) (snd p) use_style) scope
      = map (fun b => Ok (Fin b)) bs /\
    ((1 # 2) < mean bs <-> (1 # 2) < mean (map (fun p => abar A cid use_style (fst p)) scope)).
Proof. exact C03_reject_iff_lemma. Qed.
Print Assumptions C03_reject_iff.

(* Same when Assorter.tally_pool_means was never set (plain card comparison): every CVR is scored by itself, so
   every phantom CVR must assort to 1/2. *)
Theorem C03_identity_no_pool_means :
  forall (A : card -> Q) (cid : Z) (use_style : bool) (ua : Q),
  0 < ua ->
  forall (pairs : list (card * card)),
  let cvrs := map snd pairs in
  let scope := filter (in_scope cid use_style) pairs in
  scope <> [] ->
  phantoms_half_all A (map snd scope) = true ->
  range_ok A ua (map snd scope) = true ->
  exists v bs,
    margin_of_mean (assorter_mean A cid cvrs use_style) = Fin v /\ v < 2 * ua /\
    map (fun p => overstatement_assorter A cid None (Fin v) ua (fst p) (snd p) use_style) scope
      = map (fun b => Ok (Fin b)) bs /\
    mean bs - (1 # 2) == (2 * mean (map (fun p => abar A cid use_style (fst p)) scope) - 1) / (2 * (2 * ua - v)) /\
    ((1 # 2) < mean bs <-> (1 # 2) < mean (map (fun p => abar A cid use_style (fst p)) scope)).
Proof. exact C03_identity_no_means_lemma. Qed.
Print Assumptions C03_identity_no_pool_means.

(* After add_pool_contests(cvrs, pool_contests(cvrs)) every pooled card lists every contest listed by any pooled card
   of its tally pool; flags, pool, sample number and votes are untouched, existing contests keep their position,
   unpooled cards are unchanged, and a contest is only ever added because a pooled card of the same pool lists it. *)
Theorem C03_pool_contests :
  forall (cvrs : list card),
  let r := add_pool_contests cvrs (pool_contests cvrs) in
  (forall c' d k, In c' (fst r) -> c_pool c' = true ->
                  In d cvrs -> c_pool d = true -> c_tp d = c_tp c' -> has_contest k d = true ->
                  has_contest k c' = true)
  /\ Forall2 (fun c c' =>
                same_but_contests c c' /\
                exists extra, c_contests c' = c_contests c ++ extra /\
                              (c_pool c = false -> extra = []) /\
                              forall k, In k extra ->
                                        ~ In k (c_contests c) /\
                                        exists d, In d cvrs /\ c_pool d = true /\ c_tp d = c_tp c /\ has_contest k d = true)
             cvrs (fst r).
Proof. exact C03_pool_contests_lemma. Qed.
Print Assumptions C03_pool_contests.

(* ---- non-vacuity: a population with a pooled batch containing a phantom, an unpooled phantom that lists the
        contest, a phantom that does not, manual records with discrepancies / missing contest / not found ---- *)
Definition exA (c : card) : Q := match c_votes c with 0%Z => 0 | 1%Z => 1 # 2 | _ => 1 end.
Definition ex_pairs : list (card * card) :=
  (*  mvr                                     cvr  *)
  [ (mkcard false false 0 [7%Z] 0 2,          mkcard false true  1 [7%Z] 1 2);       (* pooled, agrees *)
    (mkcard false false 0 [7%Z] 0 0,          mkcard false true  1 [7%Z] 2 2);       (* pooled, 2-vote overstatement *)
    (mkcard true  false 0 []    0 1,          mkcard true  true  1 [7%Z] 3 1);       (* pooled phantom, card not found *)
    (mkcard false false 0 [8%Z] 0 1,          mkcard false false 0 [7%Z; 8%Z] 4 2);  (* MVR lacks the contest *)
    (mkcard false false 0 [7%Z] 0 2,          mkcard true  false 0 [7%Z] 5 1);       (* unpooled phantom CVR, ballot found *)
    (mkcard false false 0 [7%Z] 0 2,          mkcard true  false 0 [8%Z] 6 1);       (* phantom not listing the contest *)
    (mkcard false false 0 [7%Z] 0 2,          mkcard false false 2 [7%Z] 7 0) ].     (* understatement *)
Example C03_identity_nonvacuous :
  let scope := filter (in_scope 7 true) ex_pairs in
  length scope = 6%nat /\ scope <> [] /\
  phantoms_half exA (map snd scope) = true /\ range_ok exA 1 (map snd scope) = true /\
  exists means, set_tally_pool_means exA 7 (map snd ex_pairs) None true = Ok means /\
                lookup 1%Z means = Some (Fin ((1 + (1 + ((1 # 2) + 0))) / 3)).
Proof.
  vm_compute. repeat split; try discriminate. eexists. split; reflexivity.
Qed.
Example C03_no_pool_means_nonvacuous :
  let scope := filter (in_scope 7 false) ex_pairs in
  length scope = 7%nat /\ phantoms_half_all exA (map snd scope) = true /\ range_ok exA 1 (map snd scope) = true.
Proof. vm_compute. repeat split. Qed.
Example C03_pool_contests_nonvacuous :
  let cvrs := [mkcard false true 1 [7%Z] 0 0; mkcard false true 1 [8%Z; 9%Z] 0 0; mkcard false false 1 [5%Z] 0 0;
               mkcard true true 2 [] 0 0; mkcard false true 2 [9%Z] 0 0] in
  map c_contests (fst (add_pool_contests cvrs (pool_contests cvrs)))
  = [[7%Z; 8%Z; 9%Z]; [8%Z; 9%Z; 7%Z]; [5%Z]; [9%Z]; [9%Z]]
  /\ snd (add_pool_contests cvrs (pool_contests cvrs)) = true.
Proof. vm_compute. split; reflexivity. Qed.
