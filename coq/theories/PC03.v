(* placeholder while the proofs are being built *)
From SV Require Import Compare.
Theorem C03_placeholder : True. Proof. exact I. Qed.
Print Assumptions C03_placeholder.
