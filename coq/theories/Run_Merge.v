(* Run_Merge.v — entry points evaluated by the correspondence harness (harness/c18.py) for CVR.merge_cvrs,
   CVR.from_raire, CVR.from_raire_file.  A case carries the inputs AND the implementation's outputs. *)
From SV Require Export Xq Merge.
Open Scope Z_scope.

Fixpoint list_eqb {A} (f : A -> A -> bool) (l m : list A) : bool :=
  match l, m with
  | [], [] => true
  | a :: l', b :: m' => f a b && list_eqb f l' m'
  | _, _ => false
  end.
Definition res_eqb {A} (f : A -> A -> bool) (x y : res A) : bool :=
  match x, y with
  | Ok a, Ok b => f a b
  | Err e, Err e' => err_eqb e e'
  | _, _ => false
  end.
(* dicts compared as dicts (key order is not part of the property); the implementation side has unique keys *)
Definition dict_eqb {V} (f : V -> V -> bool) (m i : list (Z * V)) : bool :=
  Nat.eqb (length m) (length i)
  && forallb (fun kv => match dict_get m (fst kv) with Some v => f v (snd kv) | None => false end) i.
Definition votes_eqb : votes -> votes -> bool := dict_eqb (dict_eqb Z.eqb).
Definition rec_eqb (a b : rec) : bool :=
  (c_id a =? c_id b) && votes_eqb (c_votes a) (c_votes b) && pv_eqb (c_phantom a) (c_phantom b)
  && pv_eqb (c_pool a) (c_pool b) && pv_eqb (c_tp a) (c_tp b).

(* merge_cvrs: (records as they are when the call is made, result) — record order IS compared *)
Definition agree_merge (c : list rec * res (list rec)) : bool :=
  res_eqb (list_eqb rec_eqb) (merge_cvrs (fst c)) (snd c).
Definition show_merge (c : list rec * res (list rec)) := merge_cvrs (fst c).

(* from_raire: (skip, rows, phantom, (merged, count)) *)
Definition agree_raire (c : nat * list (list Z) * bool * res (list rec * Z)) : bool :=
  match c with (skip, rows, ph, out) =>
    res_eqb (fun a b => list_eqb rec_eqb (fst a) (fst b) && (snd a =? snd b)) (from_raire skip rows ph) out
  end.
Definition show_raire (c : nat * list (list Z) * bool * res (list rec * Z)) :=
  match c with (skip, rows, ph, _) => from_raire skip rows ph end.

(* from_raire_file: (skip, rows, (merged, read, unique)) *)
Definition agree_raire_file (c : nat * list (list Z) * res (list rec * Z * Z)) : bool :=
  match c with (skip, rows, out) =>
    res_eqb (fun a b => list_eqb rec_eqb (fst (fst a)) (fst (fst b)) && (snd (fst a) =? snd (fst b)) && (snd a =? snd b))
            (from_raire_file skip rows) out
  end.
Definition show_raire_file (c : nat * list (list Z) * res (list rec * Z * Z)) :=
  match c with (skip, rows, _) => from_raire_file skip rows end.
