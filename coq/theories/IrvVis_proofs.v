(* IrvVis_proofs.v — specification of "contradicts" (from the meaning of the assertions, independent of the tree code)
   and the lemmas behind C20: unpruned leaf <-> some elimination order is contradicted by no assertion; tags exact;
   parse tuples.  All by induction, for candidate sets and assertion lists of any size. *)
From Coq Require Import ZArith List Bool Arith Lia Permutation.
From SV Require Import IrvVis.
Import ListNotations.
Open Scope Z_scope.

(* ------------------------------------------------------------------ specification *)
(* An elimination order is a list of candidates, first eliminated first, winner last. *)
(* "w is eliminated before l" *)
Definition elim_before (w l : Z) (pi : list Z) : Prop := exists p s, pi = p ++ l :: s /\ In w p.
(* NEB tuple (l, w, _): "w is never eliminated before l" is contradicted by pi iff w is eliminated before l in pi *)
Definition neb_contra (a : neb) (pi : list Z) : Prop := match a with (l, w, _) => elim_before w l pi end.
(* NEN tuple (x, E, _): "x is not eliminated next when exactly E has been eliminated" is contradicted by pi iff the
   candidates eliminated before x in pi are exactly E *)
Definition nen_contra (a : nen) (pi : list Z) : Prop :=
  match a with (x, E, _) => exists p s, pi = p ++ x :: s /\ (forall y, In y p <-> In y E) end.
Definition uncontradicted (WO : list neb) (IRV : list nen) (pi : list Z) : Prop :=
  (forall a, In a WO -> ~ neb_contra a pi) /\ (forall a, In a IRV -> ~ nen_contra a pi).
(* the contradiction occurs at the elimination of x (x is the overtaken loser / the candidate eliminated next) *)
Definition neb_contra_at (a : neb) (x : Z) (pi : list Z) : Prop := fst (fst a) = x /\ neb_contra a pi.
Definition nen_contra_at (a : nen) (x : Z) (pi : list Z) : Prop := fst (fst a) = x /\ nen_contra a pi.

(* all nodes of a tree with, for each, the candidates on the way up to the root (nearest first) *)
Fixpoint nodes (t : tree) (suf : list Z) : list (tree * list Z) :=
  (t, suf) :: match t with
              | Leaf _ _ _ => []
              | Node c ch => flat_map (fun t' => nodes t' (c :: suf)) ch
              end.
Definition root (t : tree) : Z := match t with Leaf c _ _ => c | Node c _ => c end.

(* ------------------------------------------------------------------ boolean helpers *)
Lemma bool_ext (a b : bool) : (a = true <-> b = true) -> a = b.
Proof.
  destruct a, b; intros [H1 H2]; try reflexivity; try (symmetry; apply H1; reflexivity); try (apply H2; reflexivity).
Qed.

Lemma memZ_In x l : memZ x l = true <-> In x l.
Proof.
  unfold memZ. rewrite existsb_exists. split.
  - intros [y [Hy He]]. apply Z.eqb_eq in He. subst. exact Hy.
  - intro H. exists x. split; [exact H | apply Z.eqb_refl].
Qed.
Lemma subsetZ_incl a b : subsetZ a b = true <-> (forall y, In y a -> In y b).
Proof.
  unfold subsetZ. rewrite forallb_forall. split; intros H y Hy.
  - apply memZ_In. apply H. exact Hy.
  - apply memZ_In. apply H. exact Hy.
Qed.
Lemma seteqZ_iff a b : seteqZ a b = true <-> (forall y, In y a <-> In y b).
Proof.
  unfold seteqZ. rewrite andb_true_iff, !subsetZ_incl. split.
  - intros [H1 H2] y. split; auto.
  - intro H. split; intros y Hy; apply H; exact Hy.
Qed.

Lemma existsb_ext_in {A} (f g : A -> bool) l : (forall x, In x l -> f x = g x) -> existsb f l = existsb g l.
Proof.
  induction l as [|y r IH]; simpl; intro H; auto.
  rewrite (H y (or_introl eq_refl)). rewrite IH; [reflexivity|]. intros x Hx. apply H. right. exact Hx.
Qed.

(* ------------------------------------------------------------------ "fires" = the pruning test of the code *)
Definition fires_at (WO : list neb) (IRV : list nen) (x : Z) (p : list Z) : bool :=
  existsb (neb_fires x p) WO || existsb (nen_fires x p) IRV.
Definition clean (WO : list neb) (IRV : list nen) (pi : list Z) : Prop :=
  forall p x s, pi = p ++ x :: s -> fires_at WO IRV x p = false.

Lemma neb_fires_ext x p p' a : (forall y, In y p <-> In y p') -> neb_fires x p a = neb_fires x p' a.
Proof.
  intro H. destruct a as [[l w] b]. simpl. f_equal. apply bool_ext. rewrite !memZ_In. apply H.
Qed.
Lemma nen_fires_ext x p p' a : (forall y, In y p <-> In y p') -> nen_fires x p a = nen_fires x p' a.
Proof.
  intro H. destruct a as [[y E] b]. simpl. f_equal. apply bool_ext. rewrite !seteqZ_iff.
  split; intros H1 z; rewrite H1; [apply H | symmetry; apply H].
Qed.
Lemma fires_at_ext WO IRV x p p' : (forall y, In y p <-> In y p') -> fires_at WO IRV x p = fires_at WO IRV x p'.
Proof.
  intro H. unfold fires_at. f_equal; apply existsb_ext_in; intros a _; [apply neb_fires_ext | apply nen_fires_ext]; exact H.
Qed.
Lemma fires_at_perm WO IRV x p p' : Permutation p p' -> fires_at WO IRV x p = fires_at WO IRV x p'.
Proof.
  intro H. apply fires_at_ext. intro y. split; apply Permutation_in; [exact H | apply Permutation_sym; exact H].
Qed.

Lemma uncontradicted_clean WO IRV pi : uncontradicted WO IRV pi <-> clean WO IRV pi.
Proof.
  split.
  - intros [Hn Hi] p x s Hpi. destruct (fires_at WO IRV x p) eqn:Hf; auto. exfalso.
    unfold fires_at in Hf. apply orb_true_iff in Hf. destruct Hf as [Hf | Hf]; apply existsb_exists in Hf;
      destruct Hf as [a [Ha Hfa]].
    + apply (Hn a Ha). destruct a as [[l w] b]. simpl in Hfa. apply andb_true_iff in Hfa. destruct Hfa as [H1 H2].
      apply Z.eqb_eq in H1. subst l. apply memZ_In in H2. simpl. exists p, s. split; assumption.
    + apply (Hi a Ha). destruct a as [[y E] b]. simpl in Hfa. apply andb_true_iff in Hfa. destruct Hfa as [H1 H2].
      apply Z.eqb_eq in H1. subst y. rewrite seteqZ_iff in H2. simpl. exists p, s. split; [assumption|].
      intro z. symmetry. apply H2.
  - intro Hc. split; intros a Ha Hcontra.
    + destruct a as [[l w] b]. simpl in Hcontra. destruct Hcontra as [p [s [Hpi Hw]]].
      specialize (Hc p l s Hpi). unfold fires_at in Hc. apply orb_false_iff in Hc. destruct Hc as [Hc _].
      assert (Ht : existsb (neb_fires l p) WO = true).
      { apply existsb_exists. exists (l, w, b). split; [exact Ha|]. simpl. rewrite Z.eqb_refl. simpl. apply memZ_In. exact Hw. }
      congruence.
    + destruct a as [[y E] b]. simpl in Hcontra. destruct Hcontra as [p [s [Hpi HE]]].
      specialize (Hc p y s Hpi). unfold fires_at in Hc. apply orb_false_iff in Hc. destruct Hc as [_ Hc].
      assert (Ht : existsb (nen_fires y p) IRV = true).
      { apply existsb_exists. exists (y, E, b). split; [exact Ha|]. simpl. rewrite Z.eqb_refl. simpl. apply seteqZ_iff.
        intro z. symmetry. apply HE. }
      congruence.
Qed.

(* ------------------------------------------------------------------ unfolding build *)
Lemma nonnil_map_filter {A B} (f : A -> B) (g : A -> bool) l : negb (is_nil (map f (filter g l))) = existsb g l.
Proof. induction l as [|y r IH]; simpl; auto. destruct (g y); simpl; auto. Qed.

Lemma prune_flag WO IRV c S :
  negb (is_nil (neb_tags WO c S)) || negb (is_nil (nen_tags IRV c S)) = fires_at WO IRV c S.
Proof. unfold neb_tags, nen_tags, fires_at. rewrite !nonnil_map_filter. reflexivity. Qed.

Lemma build_eq fuel WO IRV c S :
  build fuel WO IRV c S =
  if fires_at WO IRV c S then Leaf c (neb_tags WO c S) (nen_tags IRV c S)
  else match S with
       | [] => Leaf c [] []
       | _ => match fuel with
              | O => Node c []
              | Datatypes.S f => Node c (map (fun c2 => build f WO IRV c2 (remove Z.eq_dec c2 S)) S)
              end
       end.
Proof. rewrite <- prune_flag. destruct fuel; reflexivity. Qed.

Lemma is_nil_true {A} (l : list A) : is_nil l = true -> l = [].
Proof. destruct l; simpl; congruence. Qed.

Lemma nofire_tags WO IRV c S : fires_at WO IRV c S = false -> neb_tags WO c S = [] /\ nen_tags IRV c S = [].
Proof.
  rewrite <- prune_flag. intro H. apply orb_false_iff in H. destruct H as [H1 H2].
  apply negb_false_iff in H1, H2. split; apply is_nil_true; assumption.
Qed.
Lemma fire_tags WO IRV c S : fires_at WO IRV c S = true -> is_nil (neb_tags WO c S) && is_nil (nen_tags IRV c S) = false.
Proof.
  rewrite <- prune_flag. destruct (is_nil (neb_tags WO c S)), (is_nil (nen_tags IRV c S)); simpl; congruence.
Qed.

(* ------------------------------------------------------------------ list / permutation facts *)
Lemma remove_notin (x : Z) l : ~ In x l -> remove Z.eq_dec x l = l.
Proof.
  induction l as [|y r IH]; simpl; intro H; auto.
  destruct (Z.eq_dec x y) as [E|E]; [exfalso; apply H; left; congruence|]. f_equal. apply IH. intro Hc. apply H. right. exact Hc.
Qed.
Lemma perm_remove (x : Z) l : NoDup l -> In x l -> Permutation l (x :: remove Z.eq_dec x l).
Proof.
  induction l as [|y r IH]; simpl; intros Hnd Hin; [contradiction|].
  inversion Hnd as [|y' r' Hny Hndr]; subst.
  destruct (Z.eq_dec x y) as [E|E].
  - subst y. rewrite remove_notin; auto.
  - destruct Hin as [Hin|Hin]; [congruence|].
    eapply Permutation_trans; [apply perm_skip; apply IH; assumption | apply perm_swap].
Qed.
Lemma remove_nodup_len (x : Z) l : NoDup l -> In x l ->
  NoDup (remove Z.eq_dec x l) /\ Datatypes.S (length (remove Z.eq_dec x l)) = length l.
Proof.
  intros Hnd Hin. pose proof (perm_remove x l Hnd Hin) as Hp. split.
  - assert (H : NoDup (x :: remove Z.eq_dec x l)) by (eapply Permutation_NoDup; eassumption).
    inversion H; assumption.
  - apply Permutation_length in Hp. simpl in Hp. symmetry. exact Hp.
Qed.

Lemma split_snoc {A} (p : list A) x s l c :
  p ++ x :: s = l ++ [c] -> (s = [] /\ x = c /\ p = l) \/ (exists s', s = s' ++ [c] /\ p ++ x :: s' = l).
Proof.
  intro H. induction s as [|z s'' _] using rev_ind; [left | right].
  - apply app_inj_tail in H. destruct H; auto.
  - replace (p ++ x :: s'' ++ [z]) with ((p ++ x :: s'') ++ [z]) in H by (rewrite <- app_assoc; reflexivity).
    apply app_inj_tail in H. destruct H as [H1 H2]. subst z. exists s''. split; auto.
Qed.

(* ------------------------------------------------------------------ C20_unpruned_iff *)
Lemma unpruned_iff_clean WO IRV : forall n c S, length S = n -> NoDup S ->
  (has_unpruned_leaf (build n WO IRV c S) = true <->
   exists sg, Permutation sg S /\ clean WO IRV (sg ++ [c])).
Proof.
  induction n as [|n IH]; intros c S Hlen Hnd; rewrite build_eq.
  - destruct S; [|discriminate]. destruct (fires_at WO IRV c []) eqn:Hf; simpl.
    + rewrite fire_tags by assumption. split; [discriminate|].
      intros [sg [Hp Hc]]. apply Permutation_sym, Permutation_nil in Hp. subst sg. specialize (Hc [] c [] eq_refl). congruence.
    + split; auto. intros _. exists []. split; [constructor|].
      intros p x s Hsplit. simpl in Hsplit.
      destruct p as [|a p]; simpl in Hsplit; [injection Hsplit as <- _; assumption|].
      injection Hsplit as _ Hsplit. destruct p; discriminate.
  - destruct (fires_at WO IRV c S) eqn:Hf.
    + simpl. rewrite fire_tags by assumption. split; [discriminate|].
      intros [sg [Hp Hc]]. specialize (Hc sg c [] eq_refl). rewrite (fires_at_perm _ _ _ _ _ Hp) in Hc. congruence.
    + destruct S as [|s0 S']; [discriminate|]. remember (s0 :: S') as S eqn:HS.
      change (has_unpruned_leaf (Node c (map (fun c2 => build n WO IRV c2 (remove Z.eq_dec c2 S)) S)))
        with (existsb has_unpruned_leaf (map (fun c2 => build n WO IRV c2 (remove Z.eq_dec c2 S)) S)).
      rewrite existsb_exists. split.
      * intros [t [Hin Ht]]. apply in_map_iff in Hin. destruct Hin as [c2 [Heq Hc2]]. subst t.
        destruct (remove_nodup_len c2 S Hnd Hc2) as [Hnd' Hlen'].
        apply IH in Ht; [| lia | assumption]. destruct Ht as [sg' [Hp' Hc']].
        exists (sg' ++ [c2]). split.
        { eapply Permutation_trans; [| apply Permutation_sym; apply (perm_remove c2 S Hnd Hc2)].
          eapply Permutation_trans; [apply Permutation_sym; apply Permutation_cons_append|]. apply perm_skip. exact Hp'. }
        intros p x s Hsplit. symmetry in Hsplit. apply split_snoc in Hsplit. destruct Hsplit as [[Hs [Hx Hpl]] | [s' [Hs Hpl]]].
        { subst. rewrite <- Hf. apply fires_at_perm.
          eapply Permutation_trans; [| apply Permutation_sym; apply (perm_remove c2 (s0 :: S') Hnd Hc2)].
          eapply Permutation_trans; [apply Permutation_sym; apply Permutation_cons_append|]. apply perm_skip. exact Hp'. }
        { apply (Hc' p x s'). symmetry. exact Hpl. }
      * intros [sg [Hp Hc]].
        assert (Hne : sg <> []) by (intro E; subst sg; apply Permutation_nil in Hp; rewrite Hp in HS; discriminate).
        destruct (exists_last Hne) as [sg' [c2 Hsg]]. subst sg.
        assert (Hp2 : Permutation (c2 :: sg') S)
          by (eapply Permutation_trans; [apply Permutation_cons_append | exact Hp]).
        assert (Hc2 : In c2 S) by (eapply Permutation_in; [exact Hp2 | left; reflexivity]).
        destruct (remove_nodup_len c2 S Hnd Hc2) as [Hnd' Hlen'].
        exists (build n WO IRV c2 (remove Z.eq_dec c2 S)). split.
        { apply in_map_iff. exists c2. split; auto. }
        apply IH; [lia | assumption |]. exists sg'. split.
        { eapply Permutation_cons_inv. eapply Permutation_trans; [exact Hp2 | apply perm_remove; assumption]. }
        intros p x s Hsplit. apply (Hc p x (s ++ [c])). rewrite Hsplit. rewrite <- app_assoc. reflexivity.
Qed.

Theorem unpruned_iff WO IRV c S : NoDup S ->
  (has_unpruned_leaf (build_tree WO IRV c S) = true <->
   exists pi, Permutation pi S /\ uncontradicted WO IRV (pi ++ [c])).
Proof.
  intro Hnd. unfold build_tree. rewrite (unpruned_iff_clean WO IRV (length S) c S eq_refl Hnd).
  split; intros [sg [Hp Hc]]; exists sg; split; auto; apply uncontradicted_clean; exact Hc.
Qed.

(* ------------------------------------------------------------------ tags: which nodes exist, what a leaf carries *)
Lemma root_build n WO IRV c S : root (build n WO IRV c S) = c.
Proof. rewrite build_eq. destruct (fires_at WO IRV c S); [reflexivity|]. destruct S; [reflexivity|]. destruct n; reflexivity. Qed.

Lemma build_leaf_tags n WO IRV c S x nt it :
  build n WO IRV c S = Leaf x nt it -> x = c /\ nt = neb_tags WO c S /\ it = nen_tags IRV c S.
Proof.
  rewrite build_eq. destruct (fires_at WO IRV c S) eqn:Hf.
  - intro H. injection H as <- <- <-. auto.
  - destruct (nofire_tags _ _ _ _ Hf) as [H1 H2]. rewrite H1, H2.
    destruct S; [intro H; injection H as <- <- <-; auto|]. destruct n; discriminate.
Qed.

Lemma snoc_perm (x : Z) l S : NoDup S -> In x S -> Permutation l (remove Z.eq_dec x S) -> Permutation (l ++ [x]) S.
Proof.
  intros Hnd Hin Hp. eapply Permutation_trans; [| apply Permutation_sym; apply (perm_remove x S Hnd Hin)].
  eapply Permutation_trans; [apply Permutation_sym; apply Permutation_cons_append|]. apply perm_skip. exact Hp.
Qed.

Lemma nodes_head T suf0 t suf : In (t, suf) (nodes T suf0) ->
  (t = T /\ suf = suf0) \/ exists c0 ch t', T = Node c0 ch /\ In t' ch /\ In (t, suf) (nodes t' (c0 :: suf0)).
Proof.
  destruct T as [x nt it | c0 ch]; simpl; intros [H | H].
  - left. injection H as <- <-. auto.
  - contradiction.
  - left. injection H as <- <-. auto.
  - right. apply in_flat_map in H. destruct H as [t' [H1 H2]]. exists c0, ch, t'. auto.
Qed.

(* every node of the built tree is itself `build` of its own candidate and remaining set; the candidates below it,
   itself and the path up to the root make up the whole contest *)
Lemma nodes_build WO IRV : forall n c S suf0 t suf, length S = n -> NoDup S ->
  In (t, suf) (nodes (build n WO IRV c S) suf0) ->
  exists Sx pre, t = build (length Sx) WO IRV (root t) Sx /\ NoDup Sx /\ suf = pre ++ suf0 /\
                 Permutation (Sx ++ root t :: pre) (S ++ [c]) /\ (exists pre', root t :: pre = pre' ++ [c]) /\
                 (* no ancestor of the node is pruned *)
                 (forall p y s, Sx ++ root t :: pre = p ++ y :: s -> (length s < length pre)%nat ->
                                fires_at WO IRV y p = false).
Proof.
  induction n as [|n IH]; intros c S suf0 t suf Hlen Hnd Hin.
  - destruct S; [|discriminate]. rewrite build_eq in Hin.
    assert (Ht : t = build 0 WO IRV c [] /\ suf = suf0).
    { rewrite build_eq. destruct (fires_at WO IRV c []); simpl in Hin; destruct Hin as [H|[]]; injection H as <- <-; auto. }
    destruct Ht as [-> ->]. exists [], []. rewrite root_build. simpl.
    split; [reflexivity|]. split; [constructor|]. split; [reflexivity|]. split; [apply Permutation_refl|].
    split; [exists []; reflexivity|]. intros p y s _ Hl. simpl in Hl. lia.
  - apply nodes_head in Hin. destruct Hin as [[-> ->] | [c0 [ch [t' [HT [Ht' Hin]]]]]].
    + exists S, []. rewrite root_build, Hlen.
      split; [reflexivity|]. split; [assumption|]. split; [reflexivity|]. split; [apply Permutation_refl|].
      split; [exists []; reflexivity|]. intros p y s _ Hl. simpl in Hl. lia.
    + rewrite build_eq in HT. destruct (fires_at WO IRV c S) eqn:Hf; [discriminate|].
      destruct S as [|s0 S']; [discriminate|]. remember (s0 :: S') as S0 eqn:HS.
      injection HT as <- <-.
      apply in_map_iff in Ht'. destruct Ht' as [c2 [Heq Hc2]]. subst t'.
      destruct (remove_nodup_len c2 S0 Hnd Hc2) as [Hnd' Hlen'].
      apply IH in Hin; [| lia | assumption].
      destruct Hin as [Sx [pre1 [Ht [HndSx [Hsuf [Hperm [[pre1' Hlast] Habove]]]]]]].
      assert (HpS : Permutation (Sx ++ root t :: pre1) S0)
        by (eapply Permutation_trans; [exact Hperm|]; apply snoc_perm; auto).
      exists Sx, (pre1 ++ [c]).
      split; [exact Ht|]. split; [exact HndSx|]. split; [rewrite Hsuf, <- app_assoc; reflexivity|].
      split; [|split].
      * replace (Sx ++ root t :: pre1 ++ [c]) with ((Sx ++ root t :: pre1) ++ [c]) by (rewrite <- app_assoc; reflexivity).
        apply Permutation_app_tail. exact HpS.
      * exists (pre1' ++ [c2]). rewrite app_comm_cons, Hlast. reflexivity.
      * intros p y s Hsplit Hl.
        replace (Sx ++ root t :: pre1 ++ [c]) with ((Sx ++ root t :: pre1) ++ [c]) in Hsplit by (rewrite <- app_assoc; reflexivity).
        symmetry in Hsplit. apply split_snoc in Hsplit. destruct Hsplit as [[Hs [Hy Hp]] | [s' [Hs Hp]]].
        { subst y p. rewrite <- Hf. apply fires_at_perm. exact HpS. }
        { apply (Habove p y s'); [symmetry; exact Hp|]. subst s. rewrite !app_length in Hl. simpl in Hl. lia. }
Qed.

(* list.index on a list with an equivalence: equal index <-> equivalent element *)
Section Index.
  Context {A : Type} (eqb : A -> A -> bool).
  Hypothesis eqb_refl : forall x, eqb x x = true.
  Hypothesis eqb_sym : forall x y, eqb x y = true -> eqb y x = true.
  Hypothesis eqb_trans : forall x y z, eqb x y = true -> eqb y z = true -> eqb x z = true.

  Lemma index_of_inj l : forall a b, In a l -> In b l -> index_of eqb a l = index_of eqb b l -> eqb a b = true.
  Proof.
    induction l as [|y r IH]; intros a b Ha Hb He; [contradiction|]. simpl in He.
    destruct (eqb y a) eqn:Ea, (eqb y b) eqn:Eb; try discriminate.
    - eapply eqb_trans; [apply eqb_sym; exact Ea | exact Eb].
    - injection He as He. apply IH; auto.
      + destruct Ha as [Ha|Ha]; auto. subst y. rewrite eqb_refl in Ea. discriminate.
      + destruct Hb as [Hb|Hb]; auto. subst y. rewrite eqb_refl in Eb. discriminate.
  Qed.
  Lemma index_of_nth l : forall a, In a l -> exists b, nth_error l (index_of eqb a l) = Some b /\ eqb b a = true.
  Proof.
    induction l as [|y r IH]; intros a Ha; [contradiction|]. simpl.
    destruct (eqb y a) eqn:Ea.
    - exists y. split; auto.
    - destruct Ha as [Ha|Ha]; [subst y; rewrite eqb_refl in Ea; discriminate|]. simpl. apply IH. exact Ha.
  Qed.
End Index.

Lemma neb_eqb_eq a b : neb_eqb a b = true <-> a = b.
Proof.
  destruct a as [[l1 w1] p1], b as [[l2 w2] p2]. simpl. rewrite !andb_true_iff, !Z.eqb_eq, eqb_true_iff.
  split; [intros [[-> ->] ->]; reflexivity | intro H; injection H as -> -> ->; auto].
Qed.
Lemma nen_eqb_refl a : nen_eqb a a = true.
Proof.
  destruct a as [[c E] p]. simpl. rewrite Z.eqb_refl, eqb_reflx, andb_true_r. simpl. apply seteqZ_iff. intro; reflexivity.
Qed.
Lemma nen_eqb_spec a b : nen_eqb a b = true <->
  fst (fst a) = fst (fst b) /\ (forall y, In y (snd (fst a)) <-> In y (snd (fst b))) /\ snd a = snd b.
Proof.
  destruct a as [[c1 E1] p1], b as [[c2 E2] p2]. simpl. rewrite !andb_true_iff, Z.eqb_eq, eqb_true_iff, seteqZ_iff. tauto.
Qed.
Lemma nen_eqb_sym a b : nen_eqb a b = true -> nen_eqb b a = true.
Proof. rewrite !nen_eqb_spec. intros [H1 [H2 H3]]. repeat split; auto; apply H2. Qed.
Lemma nen_eqb_trans a b c : nen_eqb a b = true -> nen_eqb b c = true -> nen_eqb a c = true.
Proof.
  rewrite !nen_eqb_spec. intros [H1 [H2 H3]] [H4 [H5 H6]]. repeat split; try congruence.
  - intro H. apply H5, H2, H.
  - intro H. apply H2, H5, H.
Qed.
Lemma nen_fires_eqb x S a b : nen_eqb a b = true -> nen_fires x S a = nen_fires x S b.
Proof.
  rewrite nen_eqb_spec. destruct a as [[c1 E1] p1], b as [[c2 E2] p2]. simpl. intros [-> [H _]].
  f_equal. apply bool_ext. rewrite !seteqZ_iff. split; intros H1 y; rewrite <- H1; [symmetry|]; apply H.
Qed.

(* membership of a tag <-> the assertion fires at the node *)
Lemma neb_tag_in WO x Sx a : In a WO ->
  (In (index_of neb_eqb a WO, neb_proved a) (neb_tags WO x Sx) <-> neb_fires x Sx a = true).
Proof.
  intro Ha. unfold neb_tags. rewrite in_map_iff. split.
  - intros [b [Heq Hb]]. apply filter_In in Hb. destruct Hb as [HbIn Hbf]. injection Heq as Hidx _.
    assert (E : neb_eqb b a = true).
    { apply (index_of_inj neb_eqb) with (l := WO); auto.
      - intro z. apply neb_eqb_eq. reflexivity.
      - intros y z H. apply neb_eqb_eq in H. apply neb_eqb_eq. congruence.
      - intros y z u H1 H2. apply neb_eqb_eq in H1, H2. apply neb_eqb_eq. congruence. }
    apply neb_eqb_eq in E. subst b. exact Hbf.
  - intro Hf. exists a. split; auto. apply filter_In. split; auto.
Qed.
Lemma nen_tag_in IRV x Sx a : In a IRV ->
  (In (index_of nen_eqb a IRV, nen_proved a) (nen_tags IRV x Sx) <-> nen_fires x Sx a = true).
Proof.
  intro Ha. unfold nen_tags. rewrite in_map_iff. split.
  - intros [b [Heq Hb]]. apply filter_In in Hb. destruct Hb as [HbIn Hbf]. injection Heq as Hidx _.
    assert (E : nen_eqb b a = true).
    { apply (index_of_inj nen_eqb) with (l := IRV); auto using nen_eqb_refl, nen_eqb_sym. apply nen_eqb_trans. }
    rewrite <- (nen_fires_eqb x Sx b a E). exact Hbf.
  - intro Hf. exists a. split; auto. apply filter_In. split; auto.
Qed.

(* a duplicate-free order splits at x in one way only *)
Lemma nodup_split_unique (x : Z) : forall p s p' s', NoDup (p ++ x :: s) -> p ++ x :: s = p' ++ x :: s' -> p = p'.
Proof.
  induction p as [|a p IH]; intros s p' s' Hnd Heq.
  - destruct p' as [|b p']; auto. simpl in Heq. injection Heq as Hb Heq. exfalso.
    simpl in Hnd. apply NoDup_cons_iff in Hnd. destruct Hnd as [Hn _]. apply Hn. rewrite Heq. apply in_or_app. right. left. reflexivity.
  - destruct p' as [|b p']; simpl in Heq; injection Heq as Hb Heq.
    + exfalso. simpl in Hnd. apply NoDup_cons_iff in Hnd. destruct Hnd as [Hn _]. apply Hn. rewrite Hb. apply in_or_app. right. left. reflexivity.
    + subst b. f_equal. simpl in Hnd. apply NoDup_cons_iff in Hnd. destruct Hnd as [_ Hnd]. eapply IH; eauto.
Qed.

(* fires at the node  <->  contradicts, at the elimination of x, every order through the node *)
Lemma neb_fires_orders x Sx suf a : NoDup (Sx ++ x :: suf) ->
  (neb_fires x Sx a = true <-> forall sg, Permutation sg Sx -> neb_contra_at a x (sg ++ x :: suf)).
Proof.
  intro Hnd. destruct a as [[l w] b]. unfold neb_contra_at. simpl. rewrite andb_true_iff, Z.eqb_eq, memZ_In. split.
  - intros [-> Hw] sg Hp. split; auto. exists sg, suf. split; auto. eapply Permutation_in; [apply Permutation_sym; exact Hp | exact Hw].
  - intro H. destruct (H Sx (Permutation_refl _)) as [-> [p [s [Heq Hw]]]]. split; auto.
    apply nodup_split_unique in Heq; auto. subst p. exact Hw.
Qed.
Lemma nen_fires_orders x Sx suf a : NoDup (Sx ++ x :: suf) ->
  (nen_fires x Sx a = true <-> forall sg, Permutation sg Sx -> nen_contra_at a x (sg ++ x :: suf)).
Proof.
  intro Hnd. destruct a as [[y E] b]. unfold nen_contra_at. simpl. rewrite andb_true_iff, Z.eqb_eq, seteqZ_iff. split.
  - intros [-> HE] sg Hp. split; auto. exists sg, suf. split; auto. intro z. rewrite HE.
    split; apply Permutation_in; [exact Hp | apply Permutation_sym; exact Hp].
  - intro H. destruct (H Sx (Permutation_refl _)) as [-> [p [s [Heq HE]]]]. split; auto.
    apply nodup_split_unique in Heq; auto. subst p. intro z. symmetry. apply HE.
Qed.

Lemma nodup_snoc (c : Z) S : NoDup (c :: S) -> NoDup (S ++ [c]).
Proof. intro H. eapply Permutation_NoDup; [apply Permutation_cons_append | exact H]. Qed.

Theorem tags_exact WO IRV c S : NoDup (c :: S) ->
  forall x nt it suf, In (Leaf x nt it, suf) (nodes (build_tree WO IRV c S) []) ->
  exists Sx,
    Permutation (Sx ++ x :: suf) (S ++ [c]) /\ (exists pre, x :: suf = pre ++ [c]) /\
    (forall a, In a WO ->
       (In (index_of neb_eqb a WO, neb_proved a) nt <-> forall sg, Permutation sg Sx -> neb_contra_at a x (sg ++ x :: suf))) /\
    (forall tg, In tg nt -> exists a, In a WO /\ tg = (index_of neb_eqb a WO, neb_proved a) /\ nth_error WO (fst tg) = Some a) /\
    (forall a, In a IRV ->
       (In (index_of nen_eqb a IRV, nen_proved a) it <-> forall sg, Permutation sg Sx -> nen_contra_at a x (sg ++ x :: suf))) /\
    (forall tg, In tg it -> exists a b, In a IRV /\ tg = (index_of nen_eqb a IRV, nen_proved a) /\
                                       nth_error IRV (fst tg) = Some b /\ nen_eqb b a = true) /\
    (nt = [] /\ it = [] -> Sx = []).
Proof.
  intros Hnd x nt it suf Hin. inversion Hnd as [|? ? Hc HndS]; subst.
  unfold build_tree in Hin. apply nodes_build in Hin; auto.
  destruct Hin as [Sx [pre [Ht [HndSx [Hsuf [Hperm [Hlast Habove]]]]]]]. simpl in Ht, Hperm, Hlast.
  rewrite app_nil_r in Hsuf. subst pre. symmetry in Ht. pose proof Ht as Hleaf. apply build_leaf_tags in Ht. destruct Ht as [_ [Hnt0 Hit0]]. subst nt it.
  assert (HndO : NoDup (Sx ++ x :: suf)).
  { eapply Permutation_NoDup; [apply Permutation_sym; exact Hperm | apply nodup_snoc; exact Hnd]. }
  exists Sx. split; [exact Hperm|]. split; [exact Hlast|]. split; [|split; [|split; [|split]]].
  - intros a Ha. rewrite (neb_tag_in WO x Sx a Ha). apply (neb_fires_orders x Sx suf a HndO).
  - intros tg H. unfold neb_tags in H. apply in_map_iff in H. destruct H as [a [Heq Ha]]. apply filter_In in Ha. destruct Ha as [Ha _].
    exists a. split; [exact Ha|]. split; [auto|]. subst tg. simpl.
    destruct (index_of_nth neb_eqb (fun z => proj2 (neb_eqb_eq z z) eq_refl) WO a Ha) as [b [Hb He]].
    apply neb_eqb_eq in He. subst b. exact Hb.
  - intros a Ha. rewrite (nen_tag_in IRV x Sx a Ha). apply (nen_fires_orders x Sx suf a HndO).
  - intros tg H. unfold nen_tags in H. apply in_map_iff in H. destruct H as [a [Heq Ha]]. apply filter_In in Ha. destruct Ha as [Ha _].
    destruct (index_of_nth nen_eqb nen_eqb_refl IRV a Ha) as [b [Hb He]].
    exists a, b. subst tg. simpl. auto.
  - (* an unpruned leaf sits at full depth *)
    intros [Hnt Hit]. destruct Sx as [|s0 Sx']; auto. exfalso.
    assert (Hf : fires_at WO IRV x (s0 :: Sx') = false).
    { rewrite <- prune_flag, Hnt, Hit. reflexivity. }
    rewrite build_eq, Hf in Hleaf. simpl in Hleaf. discriminate.
Qed.

(* ------------------------------------------------------------------ parseAssertions: the tuples *)
(* what the k-th assertion contributes, read off the JSON: the assertion_json entry at the same position decides
   (WINNER_ONLY -> NEB (loser, winner); IRV_ELIMINATION -> NEN (winner, set(already_eliminated)); another type ->
   nothing; no entry / no "assertion_type" -> NEB from the assertion's own winner/loser) *)
Definition classify (rla : bool) (a : araw) (d : option adetail) : list neb * list nen :=
  let pr := proved_of rla (a_proved a) in
  match d with
  | Some d => match d_type d with
              | Some TWinnerOnly => ([(d_loser d, d_winner d, pr)], [])
              | Some TIrvElim => ([], [(d_winner d, d_elim d, pr)])
              | Some TOtherType => ([], [])
              | None => ([(a_loser a, a_winner a, pr)], [])
              end
  | None => ([(a_loser a, a_winner a, pr)], [])
  end.
Fixpoint parse_spec (rla : bool) (ajson : list adetail) (i : nat) (asr : list araw) : list neb * list nen :=
  match asr with
  | [] => ([], [])
  | a :: r => let '(n1, i1) := classify rla a (nth_error ajson i) in
              let '(n2, i2) := parse_spec rla ajson (S i) r in (n1 ++ n2, i1 ++ i2)
  end.

Lemma parse_loop_spec rla ajson : forall asr i WO IRV,
  parse_loop rla ajson i asr WO IRV =
  (WO ++ fst (parse_spec rla ajson i asr), IRV ++ snd (parse_spec rla ajson i asr)).
Proof.
  induction asr as [|a r IH]; intros i WO IRV; simpl.
  - rewrite !app_nil_r. reflexivity.
  - unfold classify. destruct (parse_spec rla ajson (S i) r) as [n2 i2] eqn:Hs.
    destruct (nth_error ajson i) as [d|]; [destruct (d_type d) as [[| |]|]|]; rewrite IH, Hs; simpl;
      rewrite <- ?app_assoc; reflexivity.
Qed.

Theorem parse_tuples rla ajson asr :
  parse_loop rla ajson 0 asr [] [] = parse_spec rla ajson 0 asr.
Proof. rewrite parse_loop_spec. simpl. destruct (parse_spec rla ajson 0 asr); reflexivity. Qed.

(* the selected audit and dialect of a file *)
Definition selected (f : afile) (contest_id : option Z) : bool * audit :=
  match f with
  | RLALog contests =>
      let first := match contests with [] => dummy_audit
                                  | (k, a) :: r => match find_contest (min_key r k) contests with Some x => x | None => a end end in
      (true, match contest_id with
             | Some k => match find_contest k contests with Some a => a | None => first end
             | None => first
             end)
  | Raire audits => (false, hd dummy_audit audits)
  end.

Theorem parse_assertions_tuples f manifest contest_id :
  let '(rla, au) := selected f contest_id in
  let ajson := if rla then match au_json au with Some j => j | None => [] end else [] in
  let '(_, _, WO, IRV) := parse_assertions f manifest contest_id in
  (WO, IRV) = parse_spec rla ajson 0 (au_assertions au).
Proof.
  unfold selected, parse_assertions. destruct f as [contests | audits].
  - set (au := match contest_id with Some k => _ | None => _ end).
    rewrite parse_tuples. destruct (parse_spec true _ 0 (au_assertions au)). reflexivity.
  - rewrite parse_tuples. destruct (parse_spec false [] 0 (au_assertions (hd dummy_audit audits))). reflexivity.
Qed.

(* ------------------------------------------------------------------ tags vs "contradicts EVERY order through the node" *)
Lemma nodup_app_l {A} (l1 l2 : list A) : NoDup (l1 ++ l2) -> NoDup l1.
Proof. induction l1 as [|a l IH]; simpl; intro H; [constructor|]. apply NoDup_cons_iff in H. destruct H as [H1 H2].
  constructor; [intro Hc; apply H1; apply in_or_app; left; exact Hc | apply IH; exact H2]. Qed.

Lemma neb_all_orders WO IRV x Sx suf a :
  NoDup (Sx ++ x :: suf) -> In a WO ->
  (forall p y s, Sx ++ x :: suf = p ++ y :: s -> (length s < length suf)%nat -> fires_at WO IRV y p = false) ->
  ((forall sg, Permutation sg Sx -> neb_contra a (sg ++ x :: suf)) <-> neb_fires x Sx a = true).
Proof.
  intros Hnd Ha Habove. split.
  2:{ intros Hf sg Hp. apply (proj1 (neb_fires_orders x Sx suf a Hnd) Hf sg Hp). }
  intro H. destruct a as [[l w] b]. simpl in H.
  destruct (H Sx (Permutation_refl _)) as [p [s [Heq Hw]]].
  assert (Hl : In l (Sx ++ x :: suf)) by (rewrite Heq; apply in_or_app; right; left; reflexivity).
  apply in_app_or in Hl. destruct Hl as [Hl | [Hl | Hl]].
  - exfalso. pose proof (nodup_app_l _ _ Hnd) as HndS.
    assert (Hp : Permutation (l :: remove Z.eq_dec l Sx) Sx) by (apply Permutation_sym, perm_remove; assumption).
    destruct (H _ Hp) as [p' [s' [Heq' Hw']]].
    assert (Hnd' : NoDup ((l :: remove Z.eq_dec l Sx) ++ x :: suf)).
    { eapply Permutation_NoDup; [| exact Hnd]. apply Permutation_app_tail. apply Permutation_sym. exact Hp. }
    assert (E : [] = p').
    { apply (nodup_split_unique l [] (remove Z.eq_dec l Sx ++ x :: suf) p' s'); [exact Hnd' | exact Heq']. }
    subst p'. contradiction.
  - subst l. apply nodup_split_unique in Heq; [| exact Hnd]. subst p.
    simpl. rewrite Z.eqb_refl. simpl. apply memZ_In. exact Hw.
  - exfalso. apply in_split in Hl. destruct Hl as [s1 [s2 Hs]].
    assert (Heq2 : Sx ++ x :: suf = (Sx ++ x :: s1) ++ l :: s2) by (rewrite Hs, <- app_assoc; reflexivity).
    assert (E : Sx ++ x :: s1 = p).
    { apply (nodup_split_unique l (Sx ++ x :: s1) s2 p s); [rewrite <- Heq2; exact Hnd | rewrite <- Heq2; exact Heq]. }
    assert (Hff : fires_at WO IRV l (Sx ++ x :: s1) = false).
    { apply (Habove _ l s2 Heq2). rewrite Hs, app_length. simpl. lia. }
    unfold fires_at in Hff. apply orb_false_iff in Hff. destruct Hff as [Hff _].
    assert (Ht : existsb (neb_fires l (Sx ++ x :: s1)) WO = true).
    { apply existsb_exists. exists (l, w, b). split; [exact Ha|]. simpl. rewrite Z.eqb_refl. simpl. apply memZ_In. rewrite E. exact Hw. }
    congruence.
Qed.

Lemma nen_all_orders WO IRV x Sx suf a :
  NoDup (Sx ++ x :: suf) -> In a IRV -> length Sx <> 1%nat ->
  (forall p y s, Sx ++ x :: suf = p ++ y :: s -> (length s < length suf)%nat -> fires_at WO IRV y p = false) ->
  ((forall sg, Permutation sg Sx -> nen_contra a (sg ++ x :: suf)) <-> nen_fires x Sx a = true).
Proof.
  intros Hnd Ha Hlen Habove. split.
  2:{ intros Hf sg Hp. apply (proj1 (nen_fires_orders x Sx suf a Hnd) Hf sg Hp). }
  intro H. destruct a as [[y E] b]. simpl in H.
  destruct (H Sx (Permutation_refl _)) as [p [s [Heq HE]]].
  assert (Hy : In y (Sx ++ x :: suf)) by (rewrite Heq; apply in_or_app; right; left; reflexivity).
  apply in_app_or in Hy. destruct Hy as [Hy | [Hy | Hy]].
  - exfalso. pose proof (nodup_app_l _ _ Hnd) as HndS.
    destruct (remove_nodup_len y Sx HndS Hy) as [_ Hl].
    set (rest := remove Z.eq_dec y Sx) in *.
    assert (Hp1 : Permutation (y :: rest) Sx) by (apply Permutation_sym, perm_remove; assumption).
    assert (Hp2 : Permutation (rest ++ [y]) Sx)
      by (eapply Permutation_trans; [apply Permutation_sym, Permutation_cons_append | exact Hp1]).
    destruct (H _ Hp1) as [p1 [s1 [Heq1 HE1]]]. destruct (H _ Hp2) as [p2 [s2 [Heq2 HE2]]].
    assert (E1 : [] = p1).
    { assert (Hnd1 : NoDup ((y :: rest) ++ x :: suf)).
      { eapply Permutation_NoDup; [| exact Hnd]. apply Permutation_app_tail. apply Permutation_sym. exact Hp1. }
      apply (nodup_split_unique y [] (rest ++ x :: suf) p1 s1); [exact Hnd1 | exact Heq1]. }
    assert (E2 : rest = p2).
    { apply (nodup_split_unique y rest (x :: suf) p2 s2).
      - eapply Permutation_NoDup; [| exact Hnd].
        replace (rest ++ y :: x :: suf) with ((rest ++ [y]) ++ x :: suf) by (rewrite <- app_assoc; reflexivity).
        apply Permutation_app_tail. apply Permutation_sym. exact Hp2.
      - rewrite <- Heq2. rewrite <- app_assoc. reflexivity. }
    subst p1 p2. destruct rest as [|r0 rest'].
    + simpl in Hl. apply Hlen. symmetry. exact Hl.
    + assert (Hr : In r0 E) by (apply HE2; left; reflexivity). apply HE1 in Hr. contradiction.
  - subst y. apply nodup_split_unique in Heq; [| exact Hnd]. subst p.
    simpl. rewrite Z.eqb_refl. simpl. apply seteqZ_iff. intro z. symmetry. apply HE.
  - exfalso. apply in_split in Hy. destruct Hy as [s1 [s2 Hs]].
    assert (Heq2 : Sx ++ x :: suf = (Sx ++ x :: s1) ++ y :: s2) by (rewrite Hs, <- app_assoc; reflexivity).
    assert (E0 : Sx ++ x :: s1 = p).
    { apply (nodup_split_unique y (Sx ++ x :: s1) s2 p s); [rewrite <- Heq2; exact Hnd | rewrite <- Heq2; exact Heq]. }
    assert (Hff : fires_at WO IRV y (Sx ++ x :: s1) = false).
    { apply (Habove _ y s2 Heq2). rewrite Hs, app_length. simpl. lia. }
    unfold fires_at in Hff. apply orb_false_iff in Hff. destruct Hff as [_ Hff].
    assert (Ht : existsb (nen_fires y (Sx ++ x :: s1)) IRV = true).
    { apply existsb_exists. exists (y, E, b). split; [exact Ha|]. simpl. rewrite Z.eqb_refl. simpl. apply seteqZ_iff.
      intro z. rewrite E0. symmetry. apply HE. }
    congruence.
Qed.

(* At every leaf of the built tree: an NEB assertion is among the tags iff it contradicts EVERY elimination order through
   the node; the same for NEN assertions unless exactly one candidate y remains below the node — there NEN (y, {})
   contradicts the single order through the node but is attributed to the child (the elimination of y), see
   tags_exact for the statement that covers that case too. *)
Theorem tags_exact_orders WO IRV c S : NoDup (c :: S) ->
  forall x nt it suf, In (Leaf x nt it, suf) (nodes (build_tree WO IRV c S) []) ->
  exists Sx,
    Permutation (Sx ++ x :: suf) (S ++ [c]) /\
    (forall a, In a WO ->
       (In (index_of neb_eqb a WO, neb_proved a) nt <-> forall sg, Permutation sg Sx -> neb_contra a (sg ++ x :: suf))) /\
    (length Sx <> 1%nat -> forall a, In a IRV ->
       (In (index_of nen_eqb a IRV, nen_proved a) it <-> forall sg, Permutation sg Sx -> nen_contra a (sg ++ x :: suf))).
Proof.
  intros Hnd x nt it suf Hin. inversion Hnd as [|? ? Hc HndS]; subst.
  unfold build_tree in Hin. apply nodes_build in Hin; auto.
  destruct Hin as [Sx [pre [Ht [HndSx [Hsuf [Hperm [Hlast Habove]]]]]]]. simpl in Ht, Hperm, Hlast, Habove.
  rewrite app_nil_r in Hsuf. subst pre. symmetry in Ht. apply build_leaf_tags in Ht. destruct Ht as [_ [Hnt0 Hit0]]. subst nt it.
  assert (HndO : NoDup (Sx ++ x :: suf)).
  { eapply Permutation_NoDup; [apply Permutation_sym; exact Hperm | apply nodup_snoc; exact Hnd]. }
  exists Sx. split; [exact Hperm|]. split.
  - intros a Ha. rewrite (neb_tag_in WO x Sx a Ha). symmetry. apply (neb_all_orders WO IRV x Sx suf a HndO Ha Habove).
  - intros Hlen a Ha. rewrite (nen_tag_in IRV x Sx a Ha). symmetry. apply (nen_all_orders WO IRV x Sx suf a HndO Ha Hlen Habove).
Qed.
