(* Prob.v — finite probability for sampling without replacement, by recursion on the draws, and the finite-horizon
   Ville inequality.  No measure theory: the probability of a prefix-determined event under sequential uniform
   choice among the remaining cards is a recursive average; it equals a count over all orderings. *)
From Coq Require Import QArith List Lia Lqa.
Import ListNotations.
Open Scope Q_scope.

Fixpoint remove_nth {A} (i : nat) (l : list A) : list A :=
  match l, i with
  | [], _ => []
  | _ :: t, O => t
  | x :: t, S k => x :: remove_nth k t
  end.
Definition lsum (l : list Q) : Q := fold_right Qplus 0 l.
Definition qn (n : nat) : Q := inject_Z (Z.of_nat n).

Lemma qn_pos n : (0 < n)%nat -> 0 < qn n.
Proof. intro H. unfold qn. change 0 with (inject_Z 0). rewrite <- Zlt_Qlt. lia. Qed.
Lemma qn_S n : qn (S n) == qn n + 1.
Proof. unfold qn. rewrite Nat2Z.inj_succ, <- Z.add_1_r, inject_Z_plus. reflexivity. Qed.
Lemma lsum_app a b : lsum (a ++ b) == lsum a + lsum b.
Proof. induction a as [|x a IH]; simpl; [ring|rewrite IH; ring]. Qed.
Lemma lsum_le_pointwise {A} (f g : A -> Q) (l : list A) :
  (forall a, In a l -> f a <= g a) -> lsum (map f l) <= lsum (map g l).
Proof.
  induction l as [|a l IH]; simpl; intros H; [lra|].
  assert (f a <= g a) by (apply H; now left).
  assert (lsum (map f l) <= lsum (map g l)) by (apply IH; intros; apply H; now right). lra.
Qed.
Lemma lsum_eq_pointwise {A} (f g : A -> Q) (l : list A) :
  (forall a, In a l -> f a == g a) -> lsum (map f l) == lsum (map g l).
Proof.
  induction l as [|a l IH]; simpl; intros H; [reflexivity|].
  rewrite (H a) by now left. rewrite IH; [reflexivity|]. intros; apply H; now right.
Qed.
Lemma lsum_scale (c : Q) (l : list Q) : lsum (map (fun x => x * c) l) == lsum l * c.
Proof. induction l as [|a l IH]; simpl; [ring| rewrite IH; ring]. Qed.
Lemma lsum_const {A} (c : Q) (l : list A) : lsum (map (fun _ => c) l) == qn (length l) * c.
Proof.
  induction l as [|a l IH]. simpl. unfold qn. simpl. ring.
  cbn [map lsum fold_right length]. fold (lsum (map (fun _ : A => c) l)). rewrite IH, qn_S. ring.
Qed.
Lemma lsum_plus {A} (f g : A -> Q) (l : list A) :
  lsum (map (fun a => f a + g a) l) == lsum (map f l) + lsum (map g l).
Proof. induction l as [|a l IH]; simpl; [ring| rewrite IH; ring]. Qed.

Lemma remove_nth_length {A} (l : list A) i : (i < length l)%nat -> length (remove_nth i l) = (length l - 1)%nat.
Proof.
  revert i; induction l as [|a l IH]; intros i H; simpl in *; [lia|].
  destruct i; simpl; [lia|]. rewrite IH by lia. lia.
Qed.
Lemma lsum_remove_nth (l : list Q) i : (i < length l)%nat -> nth i l 0 + lsum (remove_nth i l) == lsum l.
Proof.
  revert i; induction l as [|a l IH]; intros i H; simpl in *; [lia|].
  destruct i; simpl; [ring|]. rewrite <- (IH i) by lia. ring.
Qed.
Lemma In_remove_nth {A} (l : list A) i x : In x (remove_nth i l) -> In x l.
Proof.
  revert i; induction l as [|a l IH]; intros i H; [destruct i; simpl in H; contradiction|].
  destruct i; simpl in H.
  - right; exact H.
  - destruct H as [E|H]; [left; exact E | right; eapply IH; eauto].
Qed.
(* the values at all positions sum to the list sum *)
Lemma lsum_nth_seq (l : list Q) : lsum (map (fun i => nth i l 0) (seq 0 (length l))) == lsum l.
Proof.
  induction l as [|a l IH]; [reflexivity|].
  cbn [length seq map lsum fold_right]. rewrite <- seq_shift, map_map. cbn [nth]. fold (lsum (map (fun i => nth i l 0) (seq 0 (length l)))).
  rewrite IH. reflexivity.
Qed.

Section Ville.
Variable T : list Q -> Q.          (* the test statistic after a prefix of draws *)
Variable thr : Q.
Hypothesis thr_pos : 0 < thr.
Variable Inv : list Q -> list Q -> Prop.   (* prefix drawn, cards remaining *)
Hypothesis Inv_step : forall p rem i, Inv p rem -> (i < length rem)%nat ->
   Inv (p ++ [nth i rem 0]) (remove_nth i rem).
Hypothesis T_nonneg : forall p rem, Inv p rem -> 0 <= T p.
Hypothesis T_super : forall p rem, Inv p rem -> rem <> [] ->
   lsum (map (fun i => T (p ++ [nth i rem 0])) (seq 0 (length rem))) <= qn (length rem) * T p.

(* probability that T reaches thr now or within the next n draws, given the prefix p and the remaining cards *)
Fixpoint pcross (n : nat) (p rem : list Q) : Q :=
  if Qle_bool thr (T p) then 1 else
  match n with
  | O => 0
  | S n' =>
    match rem with
    | [] => 0
    | _ => lsum (map (fun i => pcross n' (p ++ [nth i rem 0]) (remove_nth i rem)) (seq 0 (length rem)))
           / qn (length rem)
    end
  end.

Theorem ville : forall n p rem, Inv p rem -> pcross n p rem * thr <= T p.
Proof.
  induction n as [|n IH]; intros p rem HI; simpl.
  - destruct (Qle_bool thr (T p)) eqn:E.
    + apply Qle_bool_iff in E. lra.
    + pose proof (T_nonneg _ _ HI). lra.
  - destruct (Qle_bool thr (T p)) eqn:E.
    + apply Qle_bool_iff in E. lra.
    + destruct rem as [|r rem'] eqn:Er.
      * pose proof (T_nonneg _ _ HI). lra.
      * rewrite <- Er in *.
        set (k := length rem).
        assert (Hk : 0 < qn k). { apply qn_pos. unfold k. rewrite Er. simpl. lia. }
        set (S1 := lsum (map (fun i => pcross n (p ++ [nth i rem 0]) (remove_nth i rem)) (seq 0 k))).
        assert (HS : S1 * thr <= qn k * T p).
        { unfold S1. rewrite <- lsum_scale. rewrite map_map.
          eapply Qle_trans; [| apply T_super; auto; rewrite Er; discriminate].
          apply lsum_le_pointwise. intros i Hi. apply in_seq in Hi. apply IH. apply Inv_step; auto. unfold k in Hi. lia. }
        assert (HE : S1 / qn k * thr == S1 * thr / qn k) by (field; lra).
        rewrite HE. apply Qle_shift_div_r; auto. lra.
Qed.

Lemma pcross_range : forall n p rem, 0 <= pcross n p rem <= 1.
Proof.
  induction n as [|n IH]; intros p rem; simpl; destruct (Qle_bool thr (T p)); try lra.
  destruct rem as [|r rem'] eqn:Er; [lra|]. rewrite <- Er.
  assert (Hk : 0 < qn (length rem)) by (apply qn_pos; rewrite Er; simpl; lia).
  set (f := fun i => pcross n (p ++ [nth i rem 0]) (remove_nth i rem)).
  assert (H0 : lsum (map (fun _ => 0) (seq 0 (length rem))) <= lsum (map f (seq 0 (length rem))))
    by (apply lsum_le_pointwise; intros; apply IH).
  assert (H1 : lsum (map f (seq 0 (length rem))) <= lsum (map (fun _ => 1) (seq 0 (length rem))))
    by (apply lsum_le_pointwise; intros; apply IH).
  rewrite lsum_const in H0, H1. rewrite seq_length in H0, H1.
  split; [apply Qle_shift_div_l; auto; lra | apply Qle_shift_div_r; auto; lra].
Qed.

(* ---- the same probability as a count over orderings ---- *)
(* all ways of drawing n cards in order from rem, by position (equal values at different positions are different) *)
Fixpoint orderings (n : nat) (rem : list Q) : list (list Q) :=
  match n with
  | O => [[]]
  | S n' => flat_map (fun i => map (cons (nth i rem 0)) (orderings n' (remove_nth i rem))) (seq 0 (length rem))
  end.
(* falling factorial: number of such orderings *)
Fixpoint ffact (k n : nat) : nat :=
  match n with O => 1%nat | S n' => (k * ffact (k - 1) n')%nat end.

(* does T reach thr at the prefix p or after some initial part of the further draws s? *)
Fixpoint crosses (p s : list Q) : bool :=
  Qle_bool thr (T p) || match s with [] => false | x :: s' => crosses (p ++ [x]) s' end.
Definition count_cross (p : list Q) (l : list (list Q)) : nat := length (filter (crosses p) l).

Lemma orderings_length : forall n rem, (n <= length rem)%nat -> length (orderings n rem) = ffact (length rem) n.
Proof.
  induction n as [|n IH]; intros rem H; [reflexivity|].
  cbn [orderings ffact].
  assert (Hall : forall l, (forall i, In i l -> (i < length rem)%nat) ->
            length (flat_map (fun i => map (cons (nth i rem 0)) (orderings n (remove_nth i rem))) l)
            = (length l * ffact (length rem - 1) n)%nat).
  { induction l as [|i l IHl]; intros Hl; [reflexivity|].
    cbn [flat_map length]. rewrite app_length, map_length, IHl by (intros; apply Hl; now right).
    rewrite IH by (rewrite remove_nth_length by (apply Hl; now left); lia).
    rewrite remove_nth_length by (apply Hl; now left). lia. }
  rewrite Hall by (intros i Hi; apply in_seq in Hi; lia). now rewrite seq_length.
Qed.

Lemma crosses_now p s : Qle_bool thr (T p) = true -> crosses p s = true.
Proof. intro H. destruct s; simpl; rewrite H; reflexivity. Qed.

Lemma crosses_firstn s : forall p i, Qle_bool thr (T (p ++ firstn i s)) = true -> crosses p s = true.
Proof.
  induction s as [|x s IH]; intros p i H.
  - rewrite firstn_nil, app_nil_r in H. simpl. now rewrite H.
  - destruct i as [|i].
    + cbn [firstn] in H. rewrite app_nil_r in H. now apply crosses_now.
    + cbn [firstn] in H. cbn [crosses]. rewrite (IH (p ++ [x]) i); [apply orb_true_r|].
      rewrite <- app_assoc. exact H.
Qed.

Lemma filter_length_le {A} (f g : A -> bool) l :
  (forall a, In a l -> f a = true -> g a = true) -> (length (filter f l) <= length (filter g l))%nat.
Proof.
  induction l as [|a l IH]; intro H; [simpl; lia|].
  assert (IH' : (length (filter f l) <= length (filter g l))%nat) by (apply IH; intros; apply H; auto; now right).
  cbn [filter]. destruct (f a) eqn:Ef.
  - rewrite (H a) by (auto; now left). simpl. lia.
  - destruct (g a); simpl; lia.
Qed.

Lemma filter_all {A} (f : A -> bool) l : (forall a, In a l -> f a = true) -> filter f l = l.
Proof. induction l as [|a l IH]; intro H; simpl; auto. rewrite H by now left. f_equal. apply IH. intros; apply H; now right. Qed.

Lemma count_flat_map p n rem l :
  Qle_bool thr (T p) = false ->
  count_cross p (flat_map (fun i => map (cons (nth i rem 0)) (orderings n (remove_nth i rem))) l)
  = fold_right plus 0%nat (map (fun i => count_cross (p ++ [nth i rem 0]) (orderings n (remove_nth i rem))) l).
Proof.
  intro E. induction l as [|i l IH]; [reflexivity|].
  unfold count_cross in *. cbn [flat_map map fold_right]. rewrite filter_app, app_length, IH. f_equal.
  clear IH. induction (orderings n (remove_nth i rem)) as [|s ss IHs]; [reflexivity|].
  cbn [map filter crosses]. rewrite E. cbn [orb].
  destruct (crosses (p ++ [nth i rem 0]) s); cbn [length]; rewrite IHs; reflexivity.
Qed.

Lemma qn_mult a b : qn (a * b) == qn a * qn b.
Proof. unfold qn. rewrite Nat2Z.inj_mul, inject_Z_mult. reflexivity. Qed.
Lemma qn_plus a b : qn (a + b) == qn a + qn b.
Proof. unfold qn. rewrite Nat2Z.inj_add, inject_Z_plus. reflexivity. Qed.
Lemma qn_fold_plus (l : list nat) : qn (fold_right plus 0%nat l) == lsum (map qn l).
Proof. induction l as [|a l IH]; [reflexivity|]. cbn [fold_right map lsum]. rewrite qn_plus, IH. reflexivity. Qed.
Lemma ffact_pos k n : (n <= k)%nat -> (0 < ffact k n)%nat.
Proof. revert k; induction n as [|n IH]; intros k H; simpl; [lia|]. assert (0 < ffact (k - 1) n)%nat by (apply IH; lia). nia. Qed.

(* pcross is the fraction of orderings on which the threshold is reached *)
Theorem pcross_count : forall n p rem, (n <= length rem)%nat ->
  pcross n p rem == qn (count_cross p (orderings n rem)) / qn (ffact (length rem) n).
Proof.
  induction n as [|n IH]; intros p rem H.
  - cbn [pcross orderings ffact]. unfold count_cross. cbn [filter crosses]. rewrite orb_false_r.
    destruct (Qle_bool thr (T p)); reflexivity.
  - cbn [pcross]. destruct (Qle_bool thr (T p)) eqn:E.
    + unfold count_cross. rewrite filter_all by (intros; now apply crosses_now).
      rewrite orderings_length by auto.
      assert (0 < qn (ffact (length rem) (S n))) by (apply qn_pos, ffact_pos; auto). field. lra.
    + destruct rem as [|r rem'] eqn:Er; [simpl in H; lia|]. rewrite <- Er in *.
      assert (Hlen : (0 < length rem)%nat) by (rewrite Er; simpl; lia).
      cbn [orderings ffact]. rewrite count_flat_map by auto.
      rewrite qn_fold_plus, map_map, qn_mult.
      assert (Hk : 0 < qn (length rem)) by (apply qn_pos; auto).
      assert (Hf : 0 < qn (ffact (length rem - 1) n)) by (apply qn_pos, ffact_pos; lia).
      assert (HS : lsum (map (fun i => pcross n (p ++ [nth i rem 0]) (remove_nth i rem)) (seq 0 (length rem)))
                   == lsum (map (fun i => qn (count_cross (p ++ [nth i rem 0]) (orderings n (remove_nth i rem)))) (seq 0 (length rem)))
                      / qn (ffact (length rem - 1) n)).
      { assert (HE : forall l, (forall i, In i l -> (i < length rem)%nat) ->
           lsum (map (fun i => pcross n (p ++ [nth i rem 0]) (remove_nth i rem)) l)
           == lsum (map (fun i => qn (count_cross (p ++ [nth i rem 0]) (orderings n (remove_nth i rem)))) l)
              / qn (ffact (length rem - 1) n)).
        { induction l as [|i l IHl]; intro Hl; [cbn; field; lra|].
          cbn [map lsum fold_right].
          fold (lsum (map (fun i => pcross n (p ++ [nth i rem 0]) (remove_nth i rem)) l)).
          fold (lsum (map (fun i => qn (count_cross (p ++ [nth i rem 0]) (orderings n (remove_nth i rem)))) l)).
          rewrite IHl by (intros; apply Hl; now right).
          rewrite IH by (rewrite remove_nth_length by (apply Hl; now left); lia).
          rewrite remove_nth_length by (apply Hl; now left). field. lra. }
        apply HE. intros i Hi. apply in_seq in Hi. lia. }
      rewrite HS. field. split; lra.
Qed.
End Ville.

(* every ordering is a rearrangement of the cards *)
Lemma orderings_props (P : Q -> Prop) : forall k rem s, (k <= length rem)%nat -> In s (orderings k rem) ->
  length s = k /\ (Forall P rem -> Forall P s) /\ (k = length rem -> lsum s == lsum rem).
Proof.
  induction k as [|k IH]; intros rem s Hk Hin.
  - cbn in Hin. destruct Hin as [E|[]]. subst. split; [reflexivity|]. split; [constructor|].
    intro E. destruct rem; [reflexivity| simpl in E; lia].
  - cbn [orderings] in Hin. apply in_flat_map in Hin. destruct Hin as [i [Hi Hs]].
    apply in_seq in Hi. apply in_map_iff in Hs. destruct Hs as [s' [E Hs']]. subst s.
    assert (Hlen : length (remove_nth i rem) = (length rem - 1)%nat) by (apply remove_nth_length; lia).
    destruct (IH (remove_nth i rem) s' ltac:(lia) Hs') as [H1 [H2 H3]].
    split; [simpl; lia|]. split.
    + intro HP. constructor.
      * rewrite Forall_forall in HP. apply HP. apply nth_In. lia.
      * apply H2. rewrite Forall_forall in *. intros x Hx. apply HP. eapply In_remove_nth; eauto.
    + intro E. cbn [lsum fold_right]. fold (lsum s'). rewrite H3 by lia. apply lsum_remove_nth. lia.
Qed.
