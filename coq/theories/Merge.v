(* Merge.v — executable model of CVR.merge_cvrs, CVR.from_raire, CVR.from_raire_file (shangrla/core/Audit.py),
   property C18.  No proofs here (Merge_proofs.v).  Identifiers, contests, candidates and strings are numbers
   (the harness keeps the table); the flag values keep Python's None / bool / int / str distinction. *)
From Coq Require Import ZArith List Bool Lia.
Import ListNotations.
Open Scope Z_scope.

Inductive err := EAssert | EIndex | EKey | EValue | EAttr | EType | EOther.
Inductive res (A : Type) := Ok (a : A) | Err (e : err).
Arguments Ok {A} a. Arguments Err {A} e.
Definition err_eqb (a b : err) : bool :=
  match a, b with
  | EAssert, EAssert | EIndex, EIndex | EKey, EKey | EValue, EValue | EAttr, EAttr | EType, EType | EOther, EOther => true
  | _, _ => false
  end.

(* ---- Python values that the flags phantom / pool / tally_pool can hold.  PStr 0 is the empty string "". *)
Inductive pv := PNone | PBool (b : bool) | PInt (z : Z) | PStr (s : Z).
(* bool(v) *)
Definition truthy (v : pv) : bool :=
  match v with PNone => false | PBool b => b | PInt z => negb (z =? 0) | PStr s => negb (s =? 0) end.
(* a and b / a or b return one of their operands *)
Definition py_and (a b : pv) : pv := if truthy a then b else a.
Definition py_or (a b : pv) : pv := if truthy a then a else b.
Definition is_none (v : pv) : bool := match v with PNone => true | _ => false end.
Definition is_bool (v : pv) : bool := match v with PBool _ => true | _ => false end.
(* a == b : bools are the integers 0/1; None equals only None; a string equals only the same string *)
Definition num_of (v : pv) : option Z :=
  match v with PBool b => Some (if b then 1 else 0) | PInt z => Some z | _ => None end.
Definition py_eq (a b : pv) : bool :=
  match a, b with
  | PNone, PNone => true
  | PStr x, PStr y => x =? y
  | _, _ => match num_of a, num_of b with Some x, Some y => x =? y | _, _ => false end
  end.
Definition pv_eqb (a b : pv) : bool :=      (* same value of the same type (used only to compare with the implementation) *)
  match a, b with
  | PNone, PNone => true
  | PBool x, PBool y => Bool.eqb x y
  | PInt x, PInt y => x =? y
  | PStr x, PStr y => x =? y
  | _, _ => false
  end.

(* ---- dict as insertion-ordered association list with Z keys *)
Section Dict.
  Context {V : Type}.
  Fixpoint dict_get (d : list (Z * V)) (k : Z) : option V :=
    match d with [] => None | (k', v) :: r => if k' =? k then Some v else dict_get r k end.
  Fixpoint dict_set (d : list (Z * V)) (k : Z) (v : V) : list (Z * V) :=
    match d with
    | [] => [(k, v)]
    | (k', v') :: r => if k' =? k then (k', v) :: r else (k', v') :: dict_set r k v
    end.
  (* {**a, **b} *)
  Definition dict_merge (a b : list (Z * V)) : list (Z * V) :=
    fold_left (fun acc kv => dict_set acc (fst kv) (snd kv)) b a.
End Dict.

Definition contest_votes := list (Z * Z).               (* candidate -> mark / rank *)
Definition votes := list (Z * contest_votes).           (* contest -> votes in it *)
Record rec := mkrec { c_id : Z; c_votes : votes; c_phantom : pv; c_pool : pv; c_tp : pv }.

(* the else-branch of the loop of CVR.merge_cvrs (L463-480): od[c.id] (= o) updated from c *)
Definition merge_into (o c : rec) : res rec :=
  let vs := dict_merge (c_votes o) (c_votes c) in          (* {**od[c.id].votes, **c.votes} *)
  let ph := py_and (c_phantom c) (c_phantom o) in          (* c.phantom and od[c.id].phantom *)
  let pl := py_or (c_pool c) (c_pool o) in                 (* c.pool or od[c.id].pool *)
  if (is_none (c_tp o) && is_none (c_tp c)) || (negb (is_none (c_tp o)) && is_none (c_tp c))
     || py_eq (c_tp o) (c_tp c)
  then Ok (mkrec (c_id o) vs ph pl (c_tp o))
  else if is_none (c_tp o) && negb (is_none (c_tp c))
  then Ok (mkrec (c_id o) vs ph pl (c_tp c))
  else Err EValue.

(* OrderedDict keyed by id, in insertion order *)
Fixpoint od_find (od : list rec) (i : Z) : option rec :=
  match od with [] => None | o :: r => if c_id o =? i then Some o else od_find r i end.
Fixpoint od_replace (od : list rec) (o' : rec) : list rec :=
  match od with [] => [] | o :: r => if c_id o =? c_id o' then o' :: r else o :: od_replace r o' end.

(* CVR.merge_cvrs L459-480 *)
Fixpoint merge_loop (od : list rec) (l : list rec) : res (list rec) :=
  match l with
  | [] => Ok od
  | c :: rest =>
      match od_find od (c_id c) with
      | None => merge_loop (od ++ [c]) rest
      | Some o => match merge_into o c with
                  | Err e => Err e
                  | Ok o' => merge_loop (od_replace od o') rest
                  end
      end
  end.
Definition merge_cvrs (l : list rec) : res (list rec) := merge_loop [] l.

(* ---- CVR.from_raire L397-408.  A row is the list of its cells; skip = int(raire[0][0]). *)
(* votes[str(c[j])] = j - 1 for j = 2 .. len(c)-1, i.e. rank k for the k-th listed candidate (k from 1) *)
Fixpoint ranks_from (k : Z) (cands : list Z) (d : contest_votes) : contest_votes :=
  match cands with [] => d | x :: r => ranks_from (k + 1) r (dict_set d x k) end.
Definition row_to_rec (phantom : bool) (c : list Z) : res rec :=
  match c with
  | contest :: id :: cands =>
      (* CVR.from_vote(votes, id=id, contest_id=contest_id, phantom=phantom): pool False, tally_pool None *)
      Ok (mkrec id [(contest, ranks_from 1 cands [])] (PBool phantom) (PBool false) PNone)
  | _ => Err EIndex      (* c[0] / c[1] on a row with fewer than two cells *)
  end.
Fixpoint rows_to_recs (phantom : bool) (rows : list (list Z)) : res (list rec) :=
  match rows with
  | [] => Ok []
  | c :: rest => match row_to_rec phantom c with
                 | Err e => Err e
                 | Ok r => match rows_to_recs phantom rest with Ok rs => Ok (r :: rs) | Err e => Err e end
                 end
  end.
(* returns (merged list, len(raire) - skip) *)
Definition from_raire (skip : nat) (raire : list (list Z)) (phantom : bool) : res (list rec * Z) :=
  match rows_to_recs phantom (skipn (S skip) raire) with
  | Err e => Err e
  | Ok recs => match merge_cvrs recs with
               | Err e => Err e
               | Ok out => Ok (out, Z.of_nat (length raire) - Z.of_nat skip)
               end
  end.
(* CVR.from_raire_file L428-434: rows read by csv.reader, then (cvrs, cvrs_read, len(cvrs)) *)
Definition from_raire_file (skip : nat) (raire : list (list Z)) : res (list rec * Z * Z) :=
  match from_raire skip raire false with
  | Err e => Err e
  | Ok (out, n) => Ok (out, n, Z.of_nat (length out))
  end.
