(* Ballot.v — cast-vote records as the assorters of shangrla/core/Audit.py read them.
   Executable model only (no proofs here).  Identifiers are Z:  a candidate whose Python name is falsy
   (the empty string) is 0, every other name is a non-zero number chosen by the harness; contest ids likewise.
   A Python dict is an association list in insertion order; Python guarantees distinct keys, which the
   theorems state as the hypothesis wf_card. *)
From SV Require Export Xq.
From Coq Require Import String.
Open Scope Z_scope.

(* ---- the values a mark can have in a CVR's votes dict ---- *)
Inductive mark : Type :=
| MBool (b : bool)        (* True / False *)
| MInt (z : Z)            (* 0, 1, 5, ranks ... *)
| MStr (s : string)       (* "", "marked", ... *)
| MFloat (q : Q)          (* 0.0, 1.0, ... *)
| MNaN                    (* float('nan'), np.nan: bool(nan) is True *)
| MNone.                  (* None *)

(* Python bool(v) *)
Definition truthy (m : mark) : bool :=
  match m with
  | MBool b => b
  | MInt z => negb (z =? 0)
  | MStr s => match s with EmptyString => false | _ => true end
  | MFloat q => negb (Qeq_bool q 0)
  | MNaN => true
  | MNone => false
  end.

(* CVR.as_vote (Audit.py L575-576): int(bool(v)) *)
Definition as_vote (m : mark) : Z := if truthy m then 1 else 0.

Definition cand := Z.
Definition contest_id := Z.
Definition votes_t := list (cand * mark).          (* votes[contest_id] : dict candidate -> mark *)

(* CVR (Audit.py L102-199): the votes dict and the phantom flag are all the assorters of C02 can see *)
Record card : Type := mkcard { c_votes : list (contest_id * votes_t); c_phantom : bool }.

(* dict lookup: first entry with the key (keys are distinct in a Python dict) *)
Fixpoint assoc {A} (k : Z) (l : list (Z * A)) : option A :=
  match l with
  | [] => None
  | (k', v) :: r => if k' =? k then Some v else assoc k r
  end.

(* CVR.has_contest (L207-208): contest_id in self.votes *)
Definition has_contest (c : card) (con : contest_id) : bool :=
  match assoc con (c_votes c) with Some _ => true | None => false end.

(* CVR.get_vote_for (L200-205): False if the contest or the candidate is absent, else the stored value *)
Definition get_vote_for (c : card) (con : contest_id) (x : cand) : mark :=
  match assoc con (c_votes c) with
  | None => MBool false
  | Some vs => match assoc x vs with None => MBool false | Some m => m end
  end.

(* one summand of CVR.has_one_vote (L250-261):
   0 if (contest_id not in self.votes or c not in self.votes[contest_id]) else bool(self.votes[contest_id][c]) *)
Definition one_vote_term (c : card) (con : contest_id) (x : cand) : Z :=
  match assoc con (c_votes c) with
  | None => 0
  | Some vs => match assoc x vs with None => 0 | Some m => if truthy m then 1 else 0 end
  end.
Fixpoint zsum (l : list Z) : Z := match l with [] => 0 | a :: r => a + zsum r end.
(* CVR.has_one_vote (L237-263): np.sum([...for c in candidates]) == 1 *)
Definition has_one_vote (c : card) (con : contest_id) (cands : list cand) : bool :=
  zsum (map (one_vote_term c con) cands) =? 1.

(* ---- dicts of counts (defaultdict(int)) in insertion order ---- *)
Fixpoint bump (k : Z) (d : Z) (l : list (Z * Z)) : list (Z * Z) :=   (* l[k] += d, key created if absent *)
  match l with
  | [] => [(k, d)]
  | (k', v) :: r => if k' =? k then (k', v + d) :: r else (k', v) :: bump k d r
  end.

(* CVR.tabulate_votes (L913-936): d[con][cand] += as_vote(get_vote_for(con, cand)) for every contest and every
   candidate key on every card; result: contest -> (candidate -> count), both in first-seen order *)
Fixpoint bump2 (con : Z) (x : Z) (d : Z) (l : list (Z * list (Z * Z))) : list (Z * list (Z * Z)) :=
  match l with
  | [] => [(con, [(x, d)])]
  | (k', v) :: r => if k' =? con then (k', bump x d v) :: r else (k', v) :: bump2 con x d r
  end.
Definition tabulate_card (c : card) (acc : list (Z * list (Z * Z))) : list (Z * list (Z * Z)) :=
  fold_left (fun acc1 (cv : contest_id * votes_t) =>
               fold_left (fun acc2 (xm : cand * mark) =>
                            bump2 (fst cv) (fst xm) (as_vote (get_vote_for c (fst cv) (fst xm))) acc2)
                         (snd cv) acc1)
            (c_votes c) acc.
Definition tabulate_votes (cs : list card) : list (Z * list (Z * Z)) :=
  fold_left (fun acc c => tabulate_card c acc) cs [].

(* Contest.tally (L2802-2852) for one contest (contests are tallied independently of one another):
     if cvr.has_contest(c.id):
        if enforce_rules: n_votes = sum of int(bool(vote)) over entries whose candidate name is truthy
        if (not enforce_rules) or n_votes <= c.n_winners:
           for each entry with a truthy candidate name: c.tally[candidate] += int(bool(vote))          *)
Definition name_truthy (x : cand) : bool := negb (x =? 0).
Definition n_marks (vs : votes_t) : Z :=
  zsum (map (fun xm : cand * mark => if name_truthy (fst xm) then as_vote (snd xm) else 0) vs).
Definition tally_card (enforce : bool) (n_winners : Z) (con : contest_id) (c : card) (acc : list (Z * Z))
  : list (Z * Z) :=
  match assoc con (c_votes c) with
  | None => acc
  | Some vs =>
      if negb enforce || (n_marks vs <=? n_winners)
      then fold_left (fun a (xm : cand * mark) =>
                        if name_truthy (fst xm) then bump (fst xm) (as_vote (snd xm)) a else a) vs acc
      else acc
  end.
Definition tally_contest (enforce : bool) (n_winners : Z) (con : contest_id) (cs : list card) : list (Z * Z) :=
  fold_left (fun acc c => tally_card enforce n_winners con c acc) cs [].

(* ---- quantities the property speaks about ---- *)
(* votes for candidate x in contest con over a collection of cards, as the assorters count them *)
Definition votes (con : contest_id) (x : cand) (cs : list card) : Z :=
  zsum (map (fun c => as_vote (get_vote_for c con x)) cs).
(* valid ballots for a super-majority contest: exactly one mark among the listed candidates *)
Definition b2z (b : bool) : Z := if b then 1 else 0.
Definition valid_votes (con : contest_id) (cands : list cand) (cs : list card) : Z :=
  zsum (map (fun c => b2z (has_one_vote c con cands)) cs).
Definition valid_votes_for (con : contest_id) (cands : list cand) (w : cand) (cs : list card) : Z :=
  zsum (map (fun c => if has_one_vote c con cands then as_vote (get_vote_for c con w) else 0) cs).

(* Python dict invariant: keys distinct *)
Definition keys {A} (l : list (Z * A)) : list Z := map fst l.
Definition wf_card (c : card) : Prop :=
  NoDup (keys (c_votes c)) /\ forall con vs, In (con, vs) (c_votes c) -> NoDup (keys vs).
