(* PC04.v — property C04: RAIRE assertions, if any, are true of the CVRs with exactly the reported tallies and
   exclude every other winner; the list is empty exactly when no set of true assertions can do that, in particular
   whenever the reported winner is not the unique possible IRV winner.

   What is proved here, for ALL candidate lists, profiles, reported winners and outputs (no size bounds):
   (A) the correctness of the CHECKERS of RaireCheck.v:
     - check_output accepts an output only if every assertion in it is true of the profile with exactly the tallies
       it reports (winner tally strictly larger) and every complete elimination order ending in another candidate is
       contradicted by a returned assertion (C04_checked_output_sound);
     - possible = true exactly when some set of true assertions is sufficient (C04_possible_iff), so "returns the
       empty list exactly when no set of true assertions can exclude every alternative winner" is the run-time
       equation  output = []  <->  possible = false;
     - the "in particular" clause and what the audit is for (C04_in_particular);
   (B) about the SEARCH ITSELF: RaireAlgo.raire is a fuelled executable model of shangrla/raire/raire.py
       compute_raire_assertions (frontier, find_best_audit, manage_node, perform_dive with the order hint,
       best-ancestor replacement, lower bound, same_as de-duplication, sorting, both subsumes rules), compared
       output-for-output with the implementation on every run (Run_Raire.agree_algo).  For every fuel, difficulty
       function, duplicate-free candidate list, profile, total, reported winner and order hint: whenever the model
       returns a non-empty list, check_output accepts it (C04_algo_output_checked) — every returned assertion is true
       with exactly its reported tallies, the set excludes every alternative order, every valid IRV count elects the
       reported winner (C04_algo_sound); and the result is EMPTY EXACTLY WHEN no set of true assertions can exclude
       every alternative winner (C04_algo_empty_iff: `out = [] <-> possible = false`, both directions; with
       C04_in_particular this covers "whenever the reported winner is not the unique possible IRV winner").
       So the whole of C04 is proved about the model, for every run that does not exhaust its fuel.
   TERMINATION is proved too (C04_algo_terminates: with at least two candidates some fuel suffices and every larger fuel
   gives the same result; C04_algo_total_correct puts everything together).  NOT proved: that the particular constant
   RaireAlgo.default_fuel (200 n! + 200) used by the correspondence is such a fuel — exhaustion is reported as a
   disagreement on every run.  Optimality of the model is PC15.v C15_algo_optimal
   (harness/c04.py, c15.py; DESIGN section 4 table, row C04/C15). *)
From SV Require Import RaireCheck RaireCheck_proofs RaireAlgo RaireAlgo_proofs RaireAlgo_inv RaireAlgo_complete RaireAlgo_opt RaireAlgo_fuel RaireAlgo_term.
Open Scope nat_scope.

(* the tree-based decision procedure is exact: true iff EVERY complete order ending in another candidate is
   contradicted by some member of A *)
Theorem C04_suff_dec_correct : forall cands winner A,
  NoDup cands -> (suff_dec cands winner A = true <-> sufficient cands winner A).
Proof. exact suff_dec_correct. Qed.
Print Assumptions C04_suff_dec_correct.

Theorem C04_checked_output_sound : forall cands p winner out,
  NoDup cands -> check_output cands p winner out = true ->
  (forall a tw tl, In (a, tw, tl) out ->
      holds cands p a = true /\ tally_w p a = tw /\ tally_l p a = tl /\ tl < tw)
  /\ sufficient cands winner (map rep_assertion out)
  /\ (forall pi, complete_order cands pi -> valid_order p pi -> ends_in_other winner pi = false).
Proof. exact checked_output_sound_full. Qed.
Print Assumptions C04_checked_output_sound.

Theorem C04_possible_iff : forall cands p winner,
  NoDup cands ->
  (possible cands p winner = true <-> exists S, true_set cands p S /\ sufficient cands winner S).
Proof. exact possible_dec_correct. Qed.
Print Assumptions C04_possible_iff.

Theorem C04_in_particular : forall cands p winner,
  NoDup cands ->
  (* a true assertion never contradicts a valid IRV count (any tie-breaking) of the profile *)
  (forall a pi, complete_order cands pi -> valid_order p pi -> holds cands p a = true -> contradicts a pi = false)
  (* hence: if some valid count elects another candidate, no set of true assertions is sufficient *)
  /\ (forall pi, complete_order cands pi -> valid_order p pi -> ends_in_other winner pi = true ->
        possible cands p winner = false)
  (* and a sufficient set of true assertions forces every valid count to elect the reported winner *)
  /\ (forall S, true_set cands p S -> sufficient cands winner S ->
        forall pi, complete_order cands pi -> valid_order p pi -> ends_in_other winner pi = false).
Proof. exact in_particular. Qed.
Print Assumptions C04_in_particular.

(* ---- the model of the search itself (RaireAlgo.raire, compared output-for-output with compute_raire_assertions on
   every run by Run_Raire.agree_algo).  The loop invariant (every alternative order keeps a frontier entry whose tail
   is a suffix of it) is RaireAlgo_inv.search_frontier_covers. *)
Theorem C04_algo_output_checked :
  forall fuel dfun cands p tot winner hint out,
    NoDup cands ->
    raire fuel dfun cands p tot winner hint = Some out -> out <> [] ->
    check_output cands p winner (map fst out) = true.
Proof. exact raire_model_output_checked. Qed.
Print Assumptions C04_algo_output_checked.

Theorem C04_algo_sound :
  forall fuel dfun cands p tot winner hint out,
    NoDup cands ->
    raire fuel dfun cands p tot winner hint = Some out -> out <> [] ->
    (forall a tw tl, In (a, tw, tl) (map fst out) ->
        holds cands p a = true /\ tally_w p a = tw /\ tally_l p a = tl /\ tl < tw)
    /\ sufficient cands winner (map rep_assertion (map fst out))
    /\ (forall pi, complete_order cands pi -> valid_order p pi -> ends_in_other winner pi = false).
Proof. exact raire_model_sound. Qed.
Print Assumptions C04_algo_sound.

(* the emptiness clause, both directions *)
Theorem C04_algo_empty_iff :
  forall fuel dfun cands p tot winner hint out,
    NoDup cands ->
    raire fuel dfun cands p tot winner hint = Some out ->
    (out = [] <-> possible cands p winner = false).
Proof. exact raire_model_empty_iff. Qed.
Print Assumptions C04_algo_empty_iff.

Theorem C04_algo_nonempty_possible :
  forall fuel dfun cands p tot winner hint out,
    NoDup cands ->
    raire fuel dfun cands p tot winner hint = Some out -> out <> [] -> possible cands p winner = true.
Proof. exact raire_model_nonempty_possible. Qed.
Print Assumptions C04_algo_nonempty_possible.

(* also without NoDup and for empty outputs: every assertion of the model's output reports its exact tallies *)
Theorem C04_algo_output_true :
  forall fuel dfun cands p tot winner hint out,
    raire fuel dfun cands p tot winner hint = Some out ->
    forallb (rep_ok cands p) (map fst out) = true.
Proof. exact raire_model_output_true_partial. Qed.
Print Assumptions C04_algo_output_true.

(* termination, and the summary statement *)
Theorem C04_algo_terminates :
  forall dfun cands p tot winner hint,
    NoDup cands -> 2 <= length cands ->
    exists fuel out, forall fuel', fuel <= fuel' -> raire fuel' dfun cands p tot winner hint = Some out.
Proof. exact raire_terminates. Qed.
Print Assumptions C04_algo_terminates.

Theorem C04_algo_total_correct :
  forall dfun cands p tot winner hint,
    NoDup cands -> 2 <= length cands -> dfun_lb dfun tot ->
    exists fuel out,
      (forall fuel', fuel <= fuel' -> raire fuel' dfun cands p tot winner hint = Some out) /\
      (out = [] <-> possible cands p winner = false) /\
      (out <> [] ->
         check_output cands p winner (map fst out) = true /\
         exists d, opt dfun cands p tot winner = Val d /\
                   (forall a tw tl q, In (a, tw, tl, q) out -> (q <= d)%Q) /\
                   (exists a tw tl q, In (a, tw, tl, q) out /\ (d <= q)%Q)).
Proof. exact raire_total_correct. Qed.
Print Assumptions C04_algo_total_correct.

(* ---- non-vacuity: concrete inputs satisfying the hypotheses *)
Definition ex_cands : list cand := [0; 1; 2].
Definition ex_profile : profile :=
  [[0;1;2]; [0;1;2]; [0;2]; [0]; [1;0]; [1;2;0]; [2;1;0]; [2;1]; [2;0;1]; []].
(* candidate 1 is eliminated first (2 votes), then 2 (4 against 5): a sufficient set for winner 0 *)
Definition ex_out : list reported :=
  [(NEN 0 1 [], 4, 2); (NEN 2 1 [], 3, 2); (NEN 0 2 [1], 5, 4)].

Example ex_nodup : NoDup ex_cands.
Proof. repeat constructor; simpl; intuition discriminate. Qed.
Example ex_check : check_output ex_cands ex_profile 0 ex_out = true.
Proof. vm_compute. reflexivity. Qed.
Example ex_possible : possible ex_cands ex_profile 0 = true /\ possible ex_cands ex_profile 2 = false.
Proof. vm_compute. split; reflexivity. Qed.
Example ex_valid : complete_order ex_cands [1; 2; 0] /\ valid_order ex_profile [1; 2; 0]
                   /\ ends_in_other 2 [1; 2; 0] = true.
Proof.
  split; [|split; [|reflexivity]].
  - unfold complete_order, ex_cands. apply perm_trans with [1; 0; 2]; [apply perm_swap | apply perm_skip, perm_swap].
  - intros dn c rest H d Hd.
    destruct dn as [|x1 [|x2 [|x3 [|x4 dn]]]]; simpl in H; inversion H; subst; simpl in Hd;
      repeat (destruct Hd as [Hd|Hd]; [subst|]); try contradiction; vm_compute; repeat constructor.
Qed.
(* a tie: with the two ballots [0] and [1] both counts are valid, so neither candidate can be confirmed *)
Example ex_tie : valid_order [[0]; [1]] [0; 1] /\ valid_order [[0]; [1]] [1; 0]
                 /\ possible [0; 1] [[0]; [1]] 0 = false /\ possible [0; 1] [[0]; [1]] 1 = false.
Proof.
  split; [|split; [|vm_compute; split; reflexivity]];
    intros dn c rest H d Hd;
    (destruct dn as [|x1 [|x2 [|x3 dn]]]; simpl in H; inversion H; subst; simpl in Hd;
      repeat (destruct Hd as [Hd|Hd]; [subst|]); try contradiction; vm_compute; repeat constructor).
Qed.
(* the model of the search returns a non-empty list on the example profile, and the verified checker accepts it *)
Example ex_algo :
  match raire (default_fuel ex_cands) cp_q ex_cands ex_profile 10 0 [] with
  | Some out => negb (Nat.eqb (length out) 0) && check_output ex_cands ex_profile 0 (map fst out)
  | None => false
  end = true.
Proof. vm_compute. reflexivity. Qed.
(* ... and the empty list, without running out of fuel, on the tied two-candidate profile and for a wrong winner *)
Example ex_algo_empty :
  raire (default_fuel [0; 1]) cp_q [0; 1] [[0]; [1]] 2 0 [] = Some []
  /\ raire (default_fuel ex_cands) cp_q ex_cands ex_profile 10 2 [] = Some [].
Proof. vm_compute. split; reflexivity. Qed.
