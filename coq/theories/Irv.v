(* Irv.v — ranked ballots, NEB / NEN assertions, elimination orders (model for shangrla/raire/raire_utils.py).
   No proofs here (BUILDING.md): every definition is executable; the lemmas are in RaireCheck_proofs.v.

   Candidates are numbers (the harness maps candidate names to 0,1,2,...).  A ballot is the duplicate-free list of
   the candidates it ranks, most preferred first; in the implementation a ballot is the dict {candidate: position}
   with positions 0,1,2,... (what load_contests_from_raire builds).  A blank ballot, and a CVR that does not
   contain the contest, is [].  A profile is the list of all ballots (one per CVR). *)
From SV Require Export Xq.
From Coq Require Export Permutation.
Open Scope nat_scope.

Definition cand := nat.
Definition ballot := list cand.
Definition profile := list ballot.

Definition mem (c : cand) (l : list cand) : bool := existsb (Nat.eqb c) l.

(* raire_utils.index_of / ranking (L159-193): position of c, None for the Python -1 *)
Fixpoint index_of (c : cand) (l : list cand) : option nat :=
  match l with
  | [] => None
  | x :: r => if Nat.eqb x c then Some 0 else option_map S (index_of c r)
  end.

(* raire_utils.vote_for_cand (L196-228): 1 iff cand is not eliminated, is on the ballot, and no other
   non-eliminated candidate is ranked above it; on a duplicate-free ranking that is "the first candidate of the
   ballot that is not eliminated is cand". *)
Fixpoint vote_for_cand (c : cand) (elim : list cand) (b : ballot) : bool :=
  match b with
  | [] => false
  | x :: r => if mem x elim then vote_for_cand c elim r else Nat.eqb x c
  end.

(* NEBAssertion.is_vote_for_winner (L350-354): ranking(winner) == 0 *)
Definition neb_vote_w (w : cand) (b : ballot) : bool :=
  match b with x :: _ => Nat.eqb x w | [] => false end.

(* NEBAssertion.is_vote_for_loser (L356-364): loser is ranked, and winner is not ranked or is ranked after loser *)
Definition neb_vote_l (w l : cand) (b : ballot) : bool :=
  match index_of l b with
  | None => false
  | Some li => match index_of w b with None => true | Some wi => Nat.ltb li wi end
  end.

Inductive assertion : Type :=
| NEB (w l : cand)                        (* w is never eliminated before l *)
| NEN (w l : cand) (elim : list cand).     (* with exactly elim eliminated, w has more votes than l *)

Definition count (f : ballot -> bool) (p : profile) : nat := length (filter f p).

(* is_vote_for_winner / is_vote_for_loser of the two assertion classes, per ballot *)
Definition vote_w (a : assertion) (b : ballot) : bool :=
  match a with
  | NEB w l => neb_vote_w w b
  | NEN w l e => vote_for_cand w e b
  end.
Definition vote_l (a : assertion) (b : ballot) : bool :=
  match a with
  | NEB w l => neb_vote_l w l b
  | NEN w l e => vote_for_cand l e b
  end.

(* tallies as compute_raire_assertions L83-88 (NEB) and find_best_audit L712-717 (NEN) accumulate them *)
Definition tally_w (p : profile) (a : assertion) : nat := count (vote_w a) p.
Definition tally_l (p : profile) (a : assertion) : nat := count (vote_l a) p.

(* An NEN assertion compares two candidates that are both still standing: the loser is a candidate, is not
   among the eliminated ones and is not the winner (find_best_audit takes it from tail[1:]). *)
Definition wf_assertion (cands : list cand) (a : assertion) : bool :=
  match a with
  | NEB w l => true
  | NEN w l e => mem l cands && negb (mem l e) && negb (Nat.eqb w l)
  end.

(* the assertion is true of the profile: well-formed and the winner's tally is strictly larger *)
Definition holds (cands : list cand) (p : profile) (a : assertion) : bool :=
  wf_assertion cands a && Nat.ltb (tally_l p a) (tally_w p a).

(* ---- elimination orders.  A complete order lists every candidate once, first eliminated first; the last one
   is the winner of that count. *)
Definition ends_in_other (winner : cand) (pi : list cand) : bool :=
  match rev pi with x :: _ => negb (Nat.eqb x winner) | [] => false end.

(* w occurs in pi and l occurs later *)
Definition before (w l : cand) (pi : list cand) : bool :=
  match index_of w pi, index_of l pi with
  | Some i, Some j => Nat.ltb i j
  | _, _ => false
  end.

(* the candidates listed before the first occurrence of w; None if w does not occur *)
Fixpoint prefix_before (w : cand) (pi : list cand) : option (list cand) :=
  match pi with
  | [] => None
  | x :: r => if Nat.eqb x w then Some [] else option_map (cons x) (prefix_before w r)
  end.

Definition subset (a b : list cand) : bool := forallb (fun x => mem x b) a.
Definition set_eq (a b : list cand) : bool := subset a b && subset b a.

(* the assertion is incompatible with the complete elimination order pi:
   NEB w l : w is eliminated before l;
   NEN w l e : w is eliminated exactly when the set of candidates already eliminated is e. *)
Definition contradicts (a : assertion) (pi : list cand) : bool :=
  match a with
  | NEB w l => before w l pi
  | NEN w l e => match prefix_before w pi with Some pre => set_eq pre e | None => false end
  end.

(* ---- specifications (Prop) *)
Definition complete_order (cands pi : list cand) : Prop := Permutation.Permutation cands pi.

(* every complete elimination order that ends in a candidate other than winner is contradicted by some member *)
Definition sufficient (cands : list cand) (winner : cand) (A : list assertion) : Prop :=
  forall pi, complete_order cands pi -> ends_in_other winner pi = true ->
             exists a, In a A /\ contradicts a pi = true.

(* IRV count of the profile: at every round the candidate eliminated has the fewest votes among those standing
   (any tie-break); pi = done ++ c :: rest, c is eliminated when `done` are gone. *)
Definition tally (p : profile) (elim : list cand) (c : cand) : nat := count (vote_for_cand c elim) p.
Definition valid_order (p : profile) (pi : list cand) : Prop :=
  forall done c rest, pi = done ++ c :: rest ->
    forall d, In d rest -> tally p done c <= tally p done d.
