(* Run_Manifest.v — entry points evaluated by the correspondence harness (harness/c17.py) for
   Dominion/Hart prep_manifest, sample_from_manifest, sample_from_cvrs.  A case carries the inputs AND the
   implementation's outputs; agree_* compares inside Coq. *)
From SV Require Export Xq Manifest.
Open Scope Z_scope.

Fixpoint list_eqb {A} (f : A -> A -> bool) (l m : list A) : bool :=
  match l, m with
  | [], [] => true
  | a :: l', b :: m' => f a b && list_eqb f l' m'
  | _, _ => false
  end.
Definition pair_eqb {A B} (f : A -> A -> bool) (g : B -> B -> bool) (x y : A * B) : bool :=
  f (fst x) (fst y) && g (snd x) (snd y).
Definition res_eqb {A} (f : A -> A -> bool) (x y : res A) : bool :=
  match x, y with
  | Ok a, Ok b => f a b
  | Err e, Err e' => err_eqb e e'
  | _, _ => false
  end.
Definition row_eqb (a b : row) : bool :=
  (r_cart a =? r_cart b) && (r_tray a =? r_tray b) && (r_tab a =? r_tab b) && (r_batch a =? r_batch b)
  && (r_size a =? r_size b).

(* prep_manifest then sample_from_manifest on its result, several samples per manifest *)
Definition sfm_out := res (list (list Z) * list (card_id * (Z * Z)) * list card_id).
Record man_case := mkman {
  m_vendor : vendor; m_rows : list row; m_max : Z; m_ncvrs : Z;
  m_prep : res (list row * list Z * Z * Z);   (* rows and cum_cards of the returned frame, manifest_cards, phantoms *)
  m_runs : list (list Z * sfm_out)            (* (sample, sample_from_manifest(returned frame, sample)) *)
}.
Definition sfm_eqb : sfm_out -> sfm_out -> bool :=
  res_eqb (pair_eqb (pair_eqb (list_eqb (list_eqb Z.eqb))
                              (list_eqb (pair_eqb cid_eqb (pair_eqb Z.eqb Z.eqb))))
                    (list_eqb cid_eqb)).
Definition model_prep (c : man_case) := prep_manifest (m_vendor c) (m_rows c) (m_max c) (m_ncvrs c).
Definition prep_flat (r : res (prepared * Z * Z)) : res (list row * list Z * Z * Z) :=
  match r with
  | Ok (pm, mc, ph) => Ok (pm_rows pm, pm_cum pm, mc, ph)
  | Err e => Err e
  end.
Definition agree_man (c : man_case) : bool :=
  res_eqb (pair_eqb (pair_eqb (pair_eqb (list_eqb row_eqb) (list_eqb Z.eqb)) Z.eqb) Z.eqb)
          (prep_flat (model_prep c)) (m_prep c)
  && match model_prep c with
     | Ok (pm, _, _) => forallb (fun so => sfm_eqb (sample_from_manifest (m_vendor c) pm (fst so)) (snd so)) (m_runs c)
     | Err _ => match m_runs c with [] => true | _ => false end
     end.
Definition show_man (c : man_case) :=
  (prep_flat (model_prep c),
   match model_prep c with
   | Ok (pm, _, _) => map (fun so => sample_from_manifest (m_vendor c) pm (fst so)) (m_runs c)
   | Err _ => []
   end).

(* sample_from_cvrs *)
Definition sfc_out := res (list (list Z) * list (Z * (Z * Z)) * list (Z * Z) * list Z).
Record cvr_case := mkcc {
  cc_vendor : vendor; cc_rows : list row; cc_cvrs : list cvr; cc_sample : list Z; cc_out : sfc_out
}.
Definition sfc_eqb : sfc_out -> sfc_out -> bool :=
  res_eqb (pair_eqb (pair_eqb (pair_eqb (list_eqb (list_eqb Z.eqb))
                                        (list_eqb (pair_eqb Z.eqb (pair_eqb Z.eqb Z.eqb))))
                              (list_eqb (pair_eqb Z.eqb Z.eqb)))
                    (list_eqb Z.eqb)).
Definition model_sfc (c : cvr_case) := sample_from_cvrs (cc_vendor c) (cc_rows c) (cc_cvrs c) (cc_sample c).
Definition agree_sfc (c : cvr_case) : bool := sfc_eqb (model_sfc c) (cc_out c).
Definition show_sfc (c : cvr_case) := model_sfc c.
