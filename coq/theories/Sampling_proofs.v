(* Sampling_proofs.v — lemmas about the model in Sampling.v, for all inputs (no bounds on sizes).
   Stated for use by PC07.v and PC10.v. *)
From SV Require Import Sampling.
From Coq Require Import Permutation Sorted.
Open Scope Z_scope.

(* ================================================================= generic list facts *)
Lemma existsb_ext_in {A} (f g : A -> bool) (l : list A) :
  (forall x, In x l -> f x = g x) -> existsb f l = existsb g l.
Proof.
  induction l as [|a l IH]; simpl; intro H; auto.
  rewrite H by auto. rewrite IH; auto.
Qed.
Lemma existsb_map {A B} (f : B -> bool) (g : A -> B) (l : list A) :
  existsb f (map g l) = existsb (fun x => f (g x)) l.
Proof. induction l as [|a l IH]; simpl; auto. now rewrite IH. Qed.
Lemma filter_ext_in' {A} (f g : A -> bool) (l : list A) :
  (forall x, In x l -> f x = g x) -> filter f l = filter g l.
Proof.
  induction l as [|a l IH]; simpl; intro H; auto.
  rewrite H by auto. rewrite IH; auto.
Qed.
Lemma filter_filter {A} (f g : A -> bool) (l : list A) :
  filter f (filter g l) = filter (fun x => g x && f x) l.
Proof.
  induction l as [|a l IH]; simpl; auto.
  destruct (g a); simpl; [destruct (f a)|]; now rewrite IH.
Qed.
Lemma filter_map_fst {A B} (p : A -> bool) (l : list (A * B)) :
  filter p (map fst l) = map fst (filter (fun x => p (fst x)) l).
Proof.
  induction l as [|a l IH]; simpl; auto.
  destruct (p (fst a)); simpl; now rewrite IH.
Qed.
Lemma filter_false {A} (f : A -> bool) (l : list A) : (forall x, In x l -> f x = false) -> filter f l = [].
Proof.
  induction l as [|a l IH]; simpl; intro H; auto.
  rewrite H by auto. apply IH; auto.
Qed.
Lemma filter_length_perm {A} (p : A -> bool) (l m : list A) :
  Permutation l m -> length (filter p l) = length (filter p m).
Proof.
  induction 1; simpl; auto.
  - destruct (p x); simpl; auto.
  - destruct (p x), (p y); simpl; auto.
  - congruence.
Qed.
Lemma firstn_prefix {A} (n m : nat) (l : list A) :
  (n <= m)%nat -> firstn m l = firstn n l ++ firstn (m - n) (skipn n l).
Proof.
  revert m l. induction n as [|n IH]; intros m l H.
  - simpl. now rewrite Nat.sub_0_r.
  - destruct m as [|m]; [lia|]. destruct l as [|a l]; simpl.
    + now rewrite firstn_nil.
    + f_equal. apply IH. lia.
Qed.
Lemma In_firstn {A} (n : nat) (l : list A) x : In x (firstn n l) -> In x l.
Proof.
  revert l; induction n as [|n IH]; intros l H; simpl in H; [contradiction|].
  destruct l as [|a l]; simpl in *; [contradiction|]. destruct H; auto.
Qed.
Lemma In_firstn_le {A} (n m : nat) (l : list A) x : (n <= m)%nat -> In x (firstn n l) -> In x (firstn m l).
Proof. intros H Hi. rewrite (firstn_prefix n m l H). apply in_or_app; auto. Qed.

Lemma memn_In i l : memn i l = true <-> In i l.
Proof.
  unfold memn. rewrite existsb_exists. split.
  - intros (x & Hx & E). apply Nat.eqb_eq in E. now subst.
  - intro H. exists i. split; auto. apply Nat.eqb_refl.
Qed.
Lemma memn_false i l : memn i l = false <-> ~ In i l.
Proof.
  rewrite <- memn_In. destruct (memn i l); split; intro H; auto; try discriminate. exfalso; now apply H.
Qed.
Lemma memn_cons_ne i j l : i <> j -> memn i (j :: l) = memn i l.
Proof. intro H. unfold memn; simpl. apply Nat.eqb_neq in H. now rewrite H. Qed.

(* ================================================================= the stable sort *)
Section Sort.
  Context {A : Type} (key : A -> Z).
  Definition le_key (a b : A) : Prop := key a <= key b.
  Definition lt_key (a b : A) : Prop := key a < key b.

  Lemma insert_by_perm x l : Permutation (insert_by key x l) (x :: l).
  Proof.
    induction l as [|y l IH]; simpl; auto.
    destruct (key x <=? key y); auto.
    eapply perm_trans; [apply perm_skip, IH | apply perm_swap].
  Qed.
  Lemma sort_by_perm l : Permutation (sort_by key l) l.
  Proof.
    induction l as [|x l IH]; simpl; auto.
    eapply perm_trans; [apply insert_by_perm | now apply perm_skip].
  Qed.
  Lemma insert_by_sorted x l : StronglySorted le_key l -> StronglySorted le_key (insert_by key x l).
  Proof.
    induction l as [|y l IH]; simpl; intro H.
    - constructor; constructor.
    - destruct (key x <=? key y) eqn:E.
      + apply Z.leb_le in E. constructor; auto. constructor; auto.
        inversion H as [|? ? ? Hall]; subst. eapply Forall_impl; [|exact Hall].
        intros a Ha. unfold le_key in *. lia.
      + apply Z.leb_gt in E. inversion H as [|? ? Hs Hall]; subst.
        constructor; auto.
        eapply Permutation_Forall; [apply Permutation_sym, insert_by_perm|].
        constructor; auto. unfold le_key. lia.
  Qed.
  Lemma sort_by_sorted l : StronglySorted le_key (sort_by key l).
  Proof.
    induction l as [|x l IH]; simpl; [constructor|]. now apply insert_by_sorted.
  Qed.
  (* with distinct keys, sorted means strictly sorted *)
  Lemma sorted_strict l : NoDup (map key l) -> StronglySorted le_key l -> StronglySorted lt_key l.
  Proof.
    induction l as [|x l IH]; simpl; intros Hn Hs; [constructor|].
    inversion Hn as [|? ? Hx Hn']; subst. inversion Hs as [|? ? Hs' Hall]; subst.
    constructor; auto.
    rewrite Forall_forall in *. intros y Hy. specialize (Hall y Hy).
    unfold le_key, lt_key in *.
    assert (key x <> key y) by (intro E; apply Hx; rewrite E; now apply in_map). lia.
  Qed.
End Sort.

(* ================================================================= enumerate / sorted_cards *)
Lemma combine_seq_fst {A} (l : list A) k : map fst (combine (seq k (length l)) l) = seq k (length l).
Proof. revert k; induction l as [|a l IH]; intro k; simpl; auto. now rewrite IH. Qed.
Lemma combine_seq_snd {A} (l : list A) k : map snd (combine (seq k (length l)) l) = l.
Proof. revert k; induction l as [|a l IH]; intro k; simpl; auto. now rewrite IH. Qed.
Lemma enumerate_fst {A} (l : list A) : map fst (enumerate l) = seq 0 (length l).
Proof. apply combine_seq_fst. Qed.
Lemma enumerate_snd {A} (l : list A) : map snd (enumerate l) = l.
Proof. apply combine_seq_snd. Qed.
Lemma combine_seq_nth {A} (l : list A) k i x d :
  In (i, x) (combine (seq k (length l)) l) -> (k <= i)%nat /\ nth (i - k) l d = x.
Proof.
  revert k; induction l as [|a l IH]; intro k; simpl; [contradiction|].
  intros [E|H].
  - inversion E; subst. rewrite Nat.sub_diag. auto.
  - apply IH in H. destruct H as [H1 H2]. split; [lia|].
    replace (i - k)%nat with (S (i - S k)) by lia. exact H2.
Qed.
Lemma enumerate_nth {A} (l : list A) i x d : In (i, x) (enumerate l) -> nth i l d = x.
Proof. intro H. apply (combine_seq_nth l 0 i x d) in H. destruct H as [_ H]. now rewrite Nat.sub_0_r in H. Qed.

Section Cards.
  Context {V : Type}.
  Implicit Types (cards : list (card V)) (l : list (nat * card V)).
  Definition numkey (ic : nat * card V) : Z := c_num (snd ic).

  Lemma sorted_cards_perm cards : Permutation (sorted_cards cards) (enumerate cards).
  Proof. apply sort_by_perm. Qed.
  Lemma sorted_cards_fst_perm cards : Permutation (map fst (sorted_cards cards)) (seq 0 (length cards)).
  Proof. rewrite <- enumerate_fst. apply Permutation_map, sorted_cards_perm. Qed.
  Lemma sorted_cards_nodup cards : NoDup (map fst (sorted_cards cards)).
  Proof. eapply Permutation_NoDup; [apply Permutation_sym, sorted_cards_fst_perm | apply seq_NoDup]. Qed.
  Lemma sorted_cards_sorted cards : StronglySorted (le_key numkey) (sorted_cards cards).
  Proof. apply sort_by_sorted. Qed.
  Lemma sorted_cards_nth cards i cd d : In (i, cd) (sorted_cards cards) -> nth i cards d = cd.
  Proof. intro H. apply enumerate_nth. eapply Permutation_in; [apply sorted_cards_perm | exact H]. Qed.
  Lemma sorted_cards_strict cards :
    NoDup (map c_num cards) -> StronglySorted (lt_key numkey) (sorted_cards cards).
  Proof.
    intro Hn. apply sorted_strict; [|apply sorted_cards_sorted].
    eapply Permutation_NoDup; [|exact Hn].
    apply Permutation_sym.
    replace (map c_num cards) with (map numkey (enumerate cards)).
    - apply Permutation_map, sorted_cards_perm.
    - unfold numkey. rewrite <- (map_map snd c_num). now rewrite enumerate_snd.
  Qed.

  (* ================================================================= the walk *)
  Definition lists (c : Z) (ic : nat * card V) : bool := has_contest (snd ic) c.
  (* the first n cards listing contest c, in the order of l *)
  Definition first_of (c : Z) (n : nat) l : list (nat * card V) := firstn n (filter (lists c) l).
  Definition need (s : contest * nat) : nat := (k_size (fst s) - snd s)%nat.
  Definition in_first (c : Z) (n : nat) l (i : nat) : bool := memn i (map fst (first_of c n l)).
  Definition picked (st : list (contest * nat)) l (i : nat) : bool :=
    existsb (fun s => in_first (k_id (fst s)) (need s) l i) st.
  Definition bump_all (st : list (contest * nat)) l : list (contest * nat) :=
    fold_left (fun st ic => map (bump (snd ic)) st) l st.
  Definition bump_one (s : contest * nat) l : contest * nat := fold_left (fun s ic => bump (snd ic) s) l s.

  Lemma in_progress_need s : in_progress s = true <-> (0 < need s)%nat.
  Proof. unfold in_progress, need. rewrite Nat.ltb_lt. lia. Qed.
  Lemma in_progress_need0 s : in_progress s = false <-> need s = 0%nat.
  Proof. unfold in_progress, need. rewrite Nat.ltb_ge. lia. Qed.

  Lemma bump_idle (cd : card V) s : wants cd s = false -> bump cd s = s.
  Proof. unfold wants, bump. rewrite andb_comm. now intros ->. Qed.
  Lemma map_bump_idle (cd : card V) st : existsb (wants cd) st = false -> map (bump cd) st = st.
  Proof.
    induction st as [|s st IH]; simpl; auto. intro H. apply orb_false_iff in H. destruct H as [H1 H2].
    rewrite bump_idle by auto. now rewrite IH.
  Qed.
  Lemma idle_no_wants (cd : card V) st : existsb in_progress st = false -> existsb (wants cd) st = false.
  Proof.
    induction st as [|s st IH]; simpl; auto. intro H. apply orb_false_iff in H. destruct H as [H1 H2].
    unfold wants at 1. rewrite H1. simpl. auto.
  Qed.
  Lemma idle_bump_all st l : existsb in_progress st = false -> bump_all st l = st.
  Proof.
    revert st; induction l as [|[i cd] l IH]; intros st H; simpl; auto.
    rewrite map_bump_idle by now apply idle_no_wants. now apply IH.
  Qed.
  Lemma idle_picked st l i : existsb in_progress st = false -> picked st l i = false.
  Proof.
    unfold picked. induction st as [|s st IH]; simpl; auto. intro H. apply orb_false_iff in H. destruct H as [H1 H2].
    rewrite IH by auto. apply in_progress_need0 in H1. unfold in_first, first_of. rewrite H1. reflexivity.
  Qed.

  Lemma first_of_fst_incl c n l i : In i (map fst (first_of c n l)) -> In i (map fst l).
  Proof.
    unfold first_of. intro H. apply in_map_iff in H. destruct H as (x & E & Hx).
    apply In_firstn in Hx. apply filter_In in Hx. apply in_map_iff. exists x. tauto.
  Qed.

  Lemma in_first_head c n i (cd : card V) l :
    ~ In i (map fst l) ->
    in_first c n ((i, cd) :: l) i = has_contest cd c && Nat.ltb 0 n.
  Proof.
    intro Hn. unfold in_first, first_of. simpl. unfold lists at 1. simpl.
    destruct (has_contest cd c); simpl.
    - destruct n; simpl; auto. unfold memn. simpl. now rewrite Nat.eqb_refl.
    - apply memn_false. intro H. apply Hn. eapply first_of_fst_incl. exact H.
  Qed.
  Lemma in_first_tail c n i j (cd : card V) l :
    j <> i ->
    in_first c n ((i, cd) :: l) j =
    in_first c (if has_contest cd c then pred n else n) l j.
  Proof.
    intro Hn. unfold in_first, first_of. simpl. unfold lists at 1. simpl.
    destruct (has_contest cd c); simpl; auto.
    destruct n; simpl; auto. now apply memn_cons_ne.
  Qed.

  Lemma need_bump (cd : card V) s :
    need (bump cd s) = (if has_contest cd (k_id (fst s)) then pred (need s) else need s) /\
    k_id (fst (bump cd s)) = k_id (fst s).
  Proof.
    unfold bump. destruct (has_contest cd (k_id (fst s))) eqn:H; simpl; auto.
    destruct (in_progress s) eqn:P; simpl; auto.
    - unfold need; simpl. split; auto. lia.
    - apply in_progress_need0 in P. rewrite P. auto.
  Qed.

  Lemma picked_head st i (cd : card V) l :
    ~ In i (map fst l) -> picked st ((i, cd) :: l) i = existsb (wants cd) st.
  Proof.
    intro Hn. unfold picked. apply existsb_ext_in. intros s _.
    rewrite in_first_head by auto. unfold wants. rewrite andb_comm. f_equal.
    destruct (in_progress s) eqn:P.
    - apply in_progress_need in P. apply Nat.ltb_lt. exact P.
    - apply in_progress_need0 in P. now rewrite P.
  Qed.
  Lemma picked_tail st i j (cd : card V) l :
    j <> i -> picked st ((i, cd) :: l) j = picked (map (bump cd) st) l j.
  Proof.
    intro Hn. unfold picked. rewrite existsb_map. apply existsb_ext_in. intros s _.
    rewrite in_first_tail by auto. destruct (need_bump cd s) as [E1 E2]. now rewrite E1, E2.
  Qed.

  Definition enough (st : list (contest * nat)) l : Prop :=
    forall s, In s st -> (need s <= length (filter (lists (k_id (fst s))) l))%nat.
  Lemma enough_step st i (cd : card V) l : enough st ((i, cd) :: l) -> enough (map (bump cd) st) l.
  Proof.
    intros H s' Hs'. apply in_map_iff in Hs'. destruct Hs' as (s & E & Hs). subst s'.
    specialize (H s Hs). destruct (need_bump cd s) as [E1 E2]. rewrite E1, E2.
    simpl in H. unfold lists at 1 in H. simpl in H.
    destruct (has_contest cd (k_id (fst s))); simpl in H; lia.
  Qed.

  Lemma bump_all_cons st i (cd : card V) l : bump_all st ((i, cd) :: l) = bump_all (map (bump cd) st) l.
  Proof. reflexivity. Qed.

  (* MAIN LEMMA: the loop returns, in the order of l, exactly the cards that are among some contest's first `need`
     cards or were already sampled; the contests end up bumped by every card. *)
  Lemma walk_spec l : forall already st,
    NoDup (map fst l) -> enough st l ->
    walk already st l =
    (Ok (filter (fun i => picked st l i || memn i already) (map fst l)), bump_all st l).
  Proof.
    induction l as [|[i cd] l IH]; intros already st Hnd Hen.
    - simpl. destruct (existsb in_progress st) eqn:E; simpl; auto.
      exfalso. apply existsb_exists in E. destruct E as (s & Hs & P).
      apply in_progress_need in P. specialize (Hen s Hs). simpl in Hen. lia.
    - simpl in Hnd. inversion Hnd as [|? ? Hni Hnd']; subst.
      assert (Htail : filter (fun j => picked st ((i, cd) :: l) j || memn j already) (map fst l)
                      = filter (fun j => picked (map (bump cd) st) l j || memn j already) (map fst l)).
      { apply filter_ext_in'. intros j Hj. rewrite picked_tail; auto. intro E; subst; auto. }
      cbn [walk]. destruct (existsb in_progress st) eqn:E; cbn [negb].
      + destruct (existsb (wants cd) st) eqn:W.
        * rewrite IH by (eauto using enough_step). cbn [map fst filter].
          rewrite picked_head by auto. rewrite W. cbn [orb]. rewrite Htail. rewrite bump_all_cons. reflexivity.
        * pose proof (map_bump_idle cd st W) as Eb.
          cbn [map fst filter]. rewrite picked_head by auto. rewrite W. cbn [orb].
          rewrite Htail. rewrite bump_all_cons.
          assert (Hen' : enough st l) by (rewrite <- Eb; eauto using enough_step).
          destruct (memn i already) eqn:M.
          -- rewrite IH by auto. rewrite Eb. reflexivity.
          -- rewrite IH by auto. rewrite Eb. reflexivity.
      + rewrite idle_bump_all by auto. f_equal. f_equal.
        apply filter_ext_in'. intros j _. now rewrite idle_picked.
  Qed.

  (* ---- what the bumps do to one contest *)
  Lemma bump_all_map l : forall st, bump_all st l = map (fun s => bump_one s l) st.
  Proof.
    induction l as [|x l IH]; intro st; simpl.
    - now rewrite map_id.
    - unfold bump_all in *. simpl. rewrite IH. now rewrite map_map.
  Qed.
  (* the threshold after walking over the cards taken for a contest: the number of the last one, if any *)
  Definition thr_after (d : option Z) l : option Z := fold_left (fun _ ic => Some (c_num (snd ic))) l d.

  Lemma bump_one_cons s i (cd : card V) l : bump_one s ((i, cd) :: l) = bump_one (bump cd s) l.
  Proof. reflexivity. Qed.
  Lemma first_of_cons c n i (cd : card V) l :
    first_of c n ((i, cd) :: l) =
    if has_contest cd c then match n with O => [] | S n' => (i, cd) :: first_of c n' l end else first_of c n l.
  Proof.
    unfold first_of. simpl. unfold lists at 1. simpl. destruct (has_contest cd c); auto. destruct n; auto.
  Qed.
  Lemma first_of_0 c l : first_of c 0 l = [].
  Proof. reflexivity. Qed.

  Lemma bump_one_spec l : forall s,
    let s' := bump_one s l in
    let A := first_of (k_id (fst s)) (need s) l in
    k_id (fst s') = k_id (fst s) /\ k_size (fst s') = k_size (fst s) /\
    snd s' = (snd s + length A)%nat /\ k_thr (fst s') = thr_after (k_thr (fst s)) A.
  Proof.
    induction l as [|[i cd] l IH]; intro s; cbn zeta.
    - unfold first_of. simpl. rewrite firstn_nil. simpl. repeat split; auto.
    - rewrite bump_one_cons. specialize (IH (bump cd s)). cbn zeta in IH. destruct IH as (I1 & I2 & I3 & I4).
      rewrite first_of_cons.
      destruct (need_bump cd s) as [N1 N2]. rewrite N1, N2 in *.
      destruct (has_contest cd (k_id (fst s))) eqn:H.
      + destruct (in_progress s) eqn:P.
        * assert (Eb : bump cd s = (mkcon (k_id (fst s)) (k_size (fst s)) (Some (c_num cd)), S (snd s))).
          { unfold bump. now rewrite H, P. }
          apply in_progress_need in P. destruct (need s) as [|n']; [lia|]. cbn [pred] in *.
          rewrite Eb in *. cbn [fst snd k_size k_thr] in I2, I3, I4.
          rewrite I1, I2, I3, I4. cbn [length]. repeat split; auto. lia.
        * assert (Eb : bump cd s = s). { unfold bump. now rewrite H, P. }
          apply in_progress_need0 in P. rewrite P in *. cbn [pred] in *. rewrite first_of_0 in *.
          rewrite Eb in *. auto.
      + assert (Eb : bump cd s = s). { unfold bump. now rewrite H. }
        rewrite Eb in *. auto.
  Qed.

  (* ================================================================= consistent_sampling *)
  Definition order cards := sorted_cards cards.
  (* positions of the first n cards listing c, in sample-number order *)
  Definition first_cards cards (c : Z) (n : nat) : list nat := map fst (first_of c n (order cards)).
  Definition n_listing cards (c : Z) : nat := length (filter (fun cd => has_contest cd c) cards).
  Definition sizes_available cards (contests : list contest) : Prop :=
    forall k, In k contests -> (k_size k <= n_listing cards (k_id k))%nat.
  Definition chosen cards (contests : list contest) (i : nat) : bool :=
    existsb (fun k => memn i (first_cards cards (k_id k) (k_size k))) contests.
  Definition selection cards contests : list nat := filter (chosen cards contests) (map fst (order cards)).
  Definition new_threshold cards (k : contest) : option Z :=
    thr_after (k_thr k) (first_of (k_id k) (k_size k) (order cards)).
  Definition updated cards (k : contest) : contest := mkcon (k_id k) (k_size k) (new_threshold cards k).
  Definition prev_list (prev : option (list nat)) : list nat := match prev with None => [] | Some p => p end.

  Lemma n_listing_order cards c : length (filter (lists c) (order cards)) = n_listing cards c.
  Proof.
    unfold order, n_listing. rewrite (filter_length_perm _ _ _ (sorted_cards_perm cards)).
    rewrite <- (enumerate_snd cards) at 2.
    generalize (enumerate cards). intro l. induction l as [|x l IH]; simpl; auto.
    unfold lists at 1. destruct (has_contest (snd x) c); simpl; auto.
  Qed.

  Theorem consistent_sampling_spec cards contests prev :
    sizes_available cards contests ->
    consistent_sampling cards contests prev =
    (Ok (filter (fun i => chosen cards contests i || memn i (prev_list prev)) (map fst (order cards))),
     map (updated cards) contests).
  Proof.
    intro Hav. unfold consistent_sampling. fold (prev_list prev). fold (order cards).
    rewrite walk_spec.
    - cbn [fst snd]. f_equal.
      + f_equal. apply filter_ext_in'. intros i _. f_equal.
        unfold picked, chosen. rewrite existsb_map. apply existsb_ext_in. intros k _.
        unfold in_first, first_cards, need. cbn [fst snd]. now rewrite Nat.sub_0_r.
      + rewrite bump_all_map. rewrite !map_map. apply map_ext. intro k.
        pose proof (bump_one_spec (order cards) (k, 0%nat)) as H. cbn zeta in H.
        destruct H as (H1 & H2 & _ & H4). cbn [fst snd] in *.
        unfold updated, new_threshold.
        destruct (fst (bump_one (k, 0%nat) (order cards))) as [i n t]. cbn in *. subst.
        unfold need. cbn [fst snd]. now rewrite Nat.sub_0_r.
    - apply sorted_cards_nodup.
    - intros s Hs. apply in_map_iff in Hs. destruct Hs as (k & E & Hk). subst s.
      unfold need. cbn [fst snd]. rewrite Nat.sub_0_r. rewrite n_listing_order. now apply Hav.
  Qed.
End Cards.

(* ================================================================= thresholds and the mvrs_to_data filter *)
Section Threshold.
  Context {V : Type}.
  Implicit Types (cards : list (card V)) (l : list (nat * card V)).

  Lemma thr_after_cons d (x : nat * card V) l : thr_after d (x :: l) = thr_after (Some (c_num (snd x))) l.
  Proof. reflexivity. Qed.

  Lemma first_of_In c n l x : In x (first_of c n l) -> In x l /\ lists c x = true.
  Proof. unfold first_of. intro H. apply In_firstn in H. now apply filter_In in H. Qed.

  (* In a list strictly sorted by sample number, "lists c and number <= number of c's n-th card" holds of exactly
     c's first n cards. *)
  Lemma threshold_cut l :
    StronglySorted (lt_key numkey) l -> NoDup (map fst l) ->
    forall c n d, (1 <= n <= length (filter (lists c) l))%nat ->
    exists t, thr_after d (first_of c n l) = Some t /\
              (exists x, nth_error (first_of c n l) (n - 1) = Some x /\ t = numkey x) /\
              forall x, In x l -> lists c x && (numkey x <=? t) = memn (fst x) (map fst (first_of c n l)).
  Proof.
    induction l as [|[i cd] l IH]; intros Hs Hnd c n d Hn.
    - simpl in Hn. lia.
    - apply StronglySorted_inv in Hs. destruct Hs as [Hs Hall]. rewrite Forall_forall in Hall.
      simpl in Hnd. inversion Hnd as [|? ? Hni Hnd']; subst.
      rewrite first_of_cons. simpl in Hn. unfold lists at 1 in Hn. simpl in Hn.
      destruct (has_contest cd c) eqn:H.
      + destruct n as [|n']; [lia|]. simpl in Hn.
        destruct n' as [|n''].
        * exists (c_num cd). rewrite first_of_0. split; [reflexivity|]. split.
          { exists (i, cd). split; reflexivity. }
          intros x [E|Hx].
          -- subst x. unfold lists, numkey. cbn [fst snd map]. rewrite H, Z.leb_refl. unfold memn. simpl.
             now rewrite Nat.eqb_refl.
          -- specialize (Hall x Hx). unfold lt_key, numkey in Hall. cbn [snd] in Hall.
             replace (numkey x <=? c_num cd) with false by (symmetry; apply Z.leb_gt; exact Hall).
             rewrite andb_false_r. symmetry. apply memn_false. cbn [map fst]. intros [E|[]].
             apply Hni. rewrite E. now apply in_map.
        * destruct (IH Hs Hnd' c (S n'') (Some (c_num cd))) as (t & T1 & (x0 & X1 & X2) & T3); [lia|].
          exists t. rewrite thr_after_cons. cbn [snd]. split; [exact T1|]. split.
          { exists x0. split; auto. cbn [Nat.sub] in *. rewrite Nat.sub_0_r in *. exact X1. }
          assert (Hlt : c_num cd < t).
          { apply nth_error_In in X1. apply first_of_In in X1. destruct X1 as [X1 _].
            specialize (Hall x0 X1). unfold lt_key, numkey in *. cbn [snd] in Hall. lia. }
          intros x [E|Hx].
          -- subst x. unfold lists, numkey. cbn [fst snd map]. rewrite H.
             replace (c_num cd <=? t) with true by (symmetry; apply Z.leb_le; lia).
             unfold memn. simpl. now rewrite Nat.eqb_refl.
          -- rewrite (T3 x Hx). cbn [map fst]. symmetry. apply memn_cons_ne.
             intro E. apply Hni. rewrite <- E. now apply in_map.
      + destruct (IH Hs Hnd' c n d Hn) as (t & T1 & T2 & T3).
        exists t. split; [exact T1|]. split; [exact T2|].
        intros x [E|Hx].
        * subst x. unfold lists at 1. cbn [snd fst]. rewrite H. cbn [andb]. symmetry. apply memn_false.
          intro Hc. apply first_of_fst_incl in Hc. contradiction.
        * now apply T3.
  Qed.

  Lemma filter_mem_first c l : NoDup (map fst l) ->
    forall n, filter (fun x => memn (fst x) (map fst (first_of c n l))) l = first_of c n l.
  Proof.
    induction l as [|[i cd] l IH]; intros Hnd n.
    - unfold first_of. simpl. now rewrite firstn_nil.
    - simpl in Hnd. inversion Hnd as [|? ? Hni Hnd']; subst.
      rewrite first_of_cons. destruct (has_contest cd c) eqn:H.
      + destruct n as [|n'].
        * apply filter_false. intros x _. reflexivity.
        * cbn [filter map fst]. unfold memn at 1. cbn [existsb]. rewrite Nat.eqb_refl. cbn [orb]. f_equal.
          transitivity (filter (fun x => memn (fst x) (map fst (first_of c n' l))) l); [|now apply IH].
          apply filter_ext_in'. intros x Hx. apply memn_cons_ne.
          intro E. apply Hni. rewrite <- E. now apply in_map.
      + cbn [filter fst].
        replace (memn i (map fst (first_of c n l))) with false.
        * now apply IH.
        * symmetry. apply memn_false. intro Hc. apply first_of_fst_incl in Hc. contradiction.
  Qed.

  Lemma data_filter_pairs {M D} (f : M -> card V -> D) (mvr : nat -> M) c t (SP : list (nat * card V)) :
    data_filter f true false c (Some t) (map (fun ic => mvr (fst ic)) SP) (map snd SP) =
    Ok (map (fun ic => f (mvr (fst ic)) (snd ic)) (filter (fun ic => lists c ic && (numkey ic <=? t)) SP)).
  Proof.
    induction SP as [|a SP IH]; [reflexivity|].
    cbn [map data_filter negb filter]. rewrite IH. unfold lists, numkey.
    destruct (has_contest (snd a) c); cbn [negb andb]; [|reflexivity].
    destruct (c_num (snd a) <=? t); reflexivity.
  Qed.

  Lemma sample_cards_pairs dflt cards (SP : list (nat * card V)) :
    (forall x, In x SP -> In x (order cards)) ->
    sample_cards dflt cards (map fst SP) = map snd SP.
  Proof.
    intro H. unfold sample_cards. rewrite map_map. apply map_ext_in. intros [i cd] Hx.
    cbn [fst snd]. eapply sorted_cards_nth. apply H. exact Hx.
  Qed.

  (* what a comparison / ONEAudit assertion of contest k (use_style on) sees after the round: exactly k's first n_k cards,
     in sample-number order, whatever else was sampled (for other contests, or in earlier rounds) *)
  Theorem round_data_spec {M D} (f : M -> card V -> D) (g : M -> D) (mvr : nat -> M) dflt cards contests prev k ty :
    NoDup (map c_num cards) -> sizes_available cards contests ->
    In k contests -> (1 <= k_size k)%nat -> ty = Comparison \/ ty = OneAudit ->
    let sel := filter (fun i => chosen cards contests i || memn i prev) (map fst (order cards)) in
    round_data f g mvr dflt cards sel ty true (updated cards k) =
    Ok (map (fun i => f (mvr i) (nth i cards dflt)) (first_cards cards (k_id k) (k_size k))).
  Proof.
    intros Hnd Hav Hk Hn Hty sel.
    pose proof (sorted_cards_strict cards Hnd) as Hs. pose proof (sorted_cards_nodup cards) as Hni.
    fold (order cards) in Hs, Hni.
    destruct (threshold_cut (order cards) Hs Hni (k_id k) (k_size k) (k_thr k)) as (t & T1 & _ & T3).
    { split; auto. rewrite n_listing_order. now apply Hav. }
    unfold round_data, mvrs_to_data.
    assert (E : data_filter f true false (k_id (updated cards k)) (k_thr (updated cards k)) (map mvr sel)
                            (sample_cards dflt cards sel) =
                Ok (map (fun i => f (mvr i) (nth i cards dflt)) (first_cards cards (k_id k) (k_size k)))).
    2:{ destruct Hty; subst ty; exact E. }
    unfold updated. cbn [k_id k_thr]. unfold new_threshold. rewrite T1.
    unfold sel. rewrite filter_map_fst.
    set (SP := filter (fun x => chosen cards contests (fst x) || memn (fst x) prev) (order cards)).
    rewrite sample_cards_pairs by (intros x Hx; unfold SP in Hx; now apply filter_In in Hx).
    rewrite map_map. rewrite data_filter_pairs. f_equal.
    unfold SP. rewrite filter_filter.
    rewrite (filter_ext_in' _ (fun x => memn (fst x) (map fst (first_of (k_id k) (k_size k) (order cards))))).
    - rewrite filter_mem_first by auto. unfold first_cards. rewrite map_map.
      apply map_ext_in. intros [i cd] Hx. cbn [fst snd]. f_equal. symmetry.
      apply first_of_In in Hx. eapply sorted_cards_nth. exact (proj1 Hx).
    - intros x Hx. rewrite (T3 x Hx).
      destruct (memn (fst x) (map fst (first_of (k_id k) (k_size k) (order cards)))) eqn:Em.
      + rewrite andb_true_r. apply orb_true_iff. left. unfold chosen. apply existsb_exists.
        exists k. split; auto.
      + apply andb_false_r.
  Qed.

  (* the new threshold of a contest with n_k >= 1 is the sample number of its n_k-th card *)
  Theorem threshold_spec dflt cards (k : contest) :
    NoDup (map c_num cards) -> (1 <= k_size k <= n_listing cards (k_id k))%nat ->
    exists i, nth_error (first_cards cards (k_id k) (k_size k)) (k_size k - 1) = Some i /\
              new_threshold cards k = Some (c_num (nth i cards dflt)).
  Proof.
    intros Hnd Hn.
    pose proof (sorted_cards_strict cards Hnd) as Hs. pose proof (sorted_cards_nodup cards) as Hni.
    fold (order cards) in Hs, Hni.
    destruct (threshold_cut (order cards) Hs Hni (k_id k) (k_size k) (k_thr k)) as (t & T1 & (x & X1 & X2) & _).
    { now rewrite n_listing_order. }
    exists (fst x). split.
    - unfold first_cards. now apply map_nth_error.
    - unfold new_threshold. rewrite T1. subst t. unfold numkey. f_equal. f_equal. symmetry.
      apply nth_error_In in X1. apply first_of_In in X1. destruct x as [i cd]. cbn [fst snd].
      eapply sorted_cards_nth. exact (proj1 X1).
  Qed.
End Threshold.

(* ================================================================= independence from the vote contents *)
Section Parametric.
  Context {V W : Type}.
  (* all that the sampler may look at: the sample number and which contests the record lists (in dict order) *)
  Definition skel {U} (cd : card U) : Z * list Z := (c_num cd, map fst (c_votes cd)).
  Definition same_skel (a : nat * card V) (b : nat * card W) : Prop := fst a = fst b /\ skel (snd a) = skel (snd b).

  Lemma has_contest_skel (a : card V) (b : card W) c : skel a = skel b -> has_contest a c = has_contest b c.
  Proof.
    unfold skel, has_contest. intro E. inversion E as [[E1 E2]].
    rewrite <- (existsb_map (Z.eqb c) fst (c_votes a)), <- (existsb_map (Z.eqb c) fst (c_votes b)). now rewrite E2.
  Qed.
  Lemma bump_skel (a : card V) (b : card W) s : skel a = skel b -> bump a s = bump b s.
  Proof.
    intro E. unfold bump. rewrite (has_contest_skel a b _ E). inversion E as [[E1 E2]]. now rewrite E1.
  Qed.
  Lemma wants_skel (a : card V) (b : card W) s : skel a = skel b -> wants a s = wants b s.
  Proof. intro E. unfold wants. now rewrite (has_contest_skel a b _ E). Qed.

  Lemma combine_seq_skel (l1 : list (card V)) : forall (l2 : list (card W)) k,
    map skel l1 = map skel l2 ->
    Forall2 same_skel (combine (seq k (length l1)) l1) (combine (seq k (length l2)) l2).
  Proof.
    induction l1 as [|a l1 IH]; intros [|b l2] k E; simpl in *; try discriminate; constructor.
    - injection E as E1 E2 E3. split; [reflexivity | unfold skel; cbn [snd]; now rewrite E1, E2].
    - injection E as E1 E2 E3. now apply IH.
  Qed.
  Lemma insert_by_skel x y l m :
    same_skel x y -> Forall2 same_skel l m ->
    Forall2 same_skel (insert_by numkey x l) (insert_by numkey y m).
  Proof.
    intros Hxy H. induction H as [|a b l m Hab H IH]; simpl.
    - constructor; [exact Hxy | constructor].
    - assert (Ex : numkey x = numkey y) by (destruct Hxy as [_ E]; unfold numkey, skel in *; now inversion E).
      assert (Ea : numkey a = numkey b) by (destruct Hab as [_ E]; unfold numkey, skel in *; now inversion E).
      rewrite Ex, Ea. destruct (numkey y <=? numkey b).
      + constructor; [exact Hxy|]. constructor; [exact Hab | exact H].
      + constructor; [exact Hab | exact IH].
  Qed.
  Lemma sorted_cards_skel (l1 : list (card V)) (l2 : list (card W)) :
    map skel l1 = map skel l2 -> Forall2 same_skel (sorted_cards l1) (sorted_cards l2).
  Proof.
    intro E. unfold sorted_cards, enumerate. pose proof (combine_seq_skel l1 l2 0%nat E) as H.
    induction H as [|a b l m Hab H IH]; simpl; [constructor|]. now apply insert_by_skel.
  Qed.
  Lemma walk_skel already (l : list (nat * card V)) (m : list (nat * card W)) :
    Forall2 same_skel l m -> forall st, walk already st l = walk already st m.
  Proof.
    induction 1 as [|[i a] [j b] l m Hab H IH]; intro st.
    - reflexivity.
    - destruct Hab as [Ei Es]. cbn [fst snd] in Ei, Es. subst j.
      assert (Ef : map fst l = map fst m).
      { clear -H. induction H as [|x y l m [E _] H IH]; simpl; auto. now rewrite E, IH. }
      cbn [walk map fst]. rewrite Ef.
      rewrite (existsb_ext_in (wants a) (wants b)) by (intros s _; now apply wants_skel).
      rewrite (map_ext (bump a) (bump b)) by (intro s; now apply bump_skel).
      now rewrite !IH.
  Qed.

  Theorem votes_irrelevant (cards1 : list (card V)) (cards2 : list (card W)) contests prev :
    map skel cards1 = map skel cards2 ->
    consistent_sampling cards1 contests prev = consistent_sampling cards2 contests prev.
  Proof.
    intro E. unfold consistent_sampling. now rewrite (walk_skel _ _ _ (sorted_cards_skel _ _ E)).
  Qed.
End Parametric.

(* ================================================================= assign_sample_nums *)
Section Nums.
  Context {V : Type} (rnd : nat -> Z).
  Lemma assign_from_nums (cards : list (card V)) : forall k,
    map c_num (assign_from rnd k cards) = map rnd (seq k (length cards)).
  Proof. induction cards as [|c l IH]; intro k; simpl; auto. now rewrite IH. Qed.
  Lemma assign_from_rest (cards : list (card V)) : forall k,
    map c_votes (assign_from rnd k cards) = map c_votes cards /\
    map c_extra (assign_from rnd k cards) = map c_extra cards.
  Proof.
    induction cards as [|c l IH]; intro k; simpl; auto. destruct (IH (S k)) as [E1 E2]. now rewrite E1, E2.
  Qed.
  Theorem sample_nums_spec (cards : list (card V)) k :
    let r := assign_sample_nums rnd k cards in
    map c_num (fst r) = map rnd (seq k (length cards)) /\
    map c_votes (fst r) = map c_votes cards /\ map c_extra (fst r) = map c_extra cards /\
    snd r = (k + length cards)%nat /\
    forall i d, (i < length cards)%nat -> c_num (nth i (fst r) d) = rnd (k + i)%nat.
  Proof.
    cbn zeta. unfold assign_sample_nums. cbn [fst snd].
    destruct (assign_from_rest cards k) as [E1 E2].
    repeat split; auto using assign_from_nums.
    intros i d Hi.
    assert (Hl : length (assign_from rnd k cards) = length cards).
    { rewrite <- (map_length c_num), assign_from_nums, map_length. apply seq_length. }
    rewrite <- (map_nth c_num). rewrite (nth_indep _ _ (rnd 0%nat)) by (rewrite map_length; lia).
    rewrite assign_from_nums. rewrite (map_nth rnd _ 0%nat). now rewrite seq_nth.
  Qed.
End Nums.

(* ================================================================= escalation (C10) *)
Section Rounds.
  Context {V : Type}.
  Implicit Types (cards : list (card V)) (ks : list contest).

  (* same contests, sizes not smaller *)
  Definition grown ks ks' : Prop := Forall2 (fun k k' => k_id k = k_id k' /\ (k_size k <= k_size k')%nat) ks ks'.

  Lemma first_cards_mono cards c n n' i :
    (n <= n')%nat -> In i (first_cards cards c n) -> In i (first_cards cards c n').
  Proof.
    unfold first_cards, first_of. intros Hn H. apply in_map_iff in H. destruct H as (x & E & Hx).
    apply in_map_iff. exists x. split; auto. eapply In_firstn_le; eauto.
  Qed.
  Lemma first_cards_prefix cards c n n' :
    (n <= n')%nat -> exists ext, first_cards cards c n' = first_cards cards c n ++ ext.
  Proof.
    intro Hn. unfold first_cards, first_of. rewrite (firstn_prefix n n' _ Hn). rewrite map_app. eauto.
  Qed.
  Lemma chosen_mono cards ks ks' i : grown ks ks' -> chosen cards ks i = true -> chosen cards ks' i = true.
  Proof.
    unfold chosen. induction 1 as [|k k' ks ks' [Ei En] H IH]; simpl; auto.
    intro Hc. apply orb_true_iff in Hc. apply orb_true_iff. destruct Hc as [Hc|Hc]; auto.
    left. apply memn_In. apply memn_In in Hc. rewrite <- Ei. eapply first_cards_mono; eauto.
  Qed.
  Lemma selection_In cards ks i : In i (selection cards ks) -> chosen cards ks i = true.
  Proof. unfold selection. intro H. now apply filter_In in H. Qed.

  (* a redraw with larger sizes contains the smaller selection, as a subsequence (same relative order) *)
  Lemma selection_grown cards ks ks' :
    grown ks ks' -> selection cards ks = filter (chosen cards ks) (selection cards ks').
  Proof.
    intro G. unfold selection. rewrite filter_filter. apply filter_ext_in'. intros i _.
    destruct (chosen cards ks i) eqn:E.
    - now rewrite (chosen_mono _ _ _ _ G E).
    - symmetry. apply andb_false_r.
  Qed.
  Lemma selection_incl cards ks ks' : grown ks ks' -> incl (selection cards ks) (selection cards ks').
  Proof. intros G i H. rewrite (selection_grown _ _ _ G) in H. now apply filter_In in H. Qed.

  (* continuing from any list whose members are all chosen anyway gives exactly the redraw *)
  Lemma continue_absorbs cards ks prev :
    (forall i, In i prev -> chosen cards ks i = true) ->
    filter (fun i => chosen cards ks i || memn i prev) (map fst (order cards)) = selection cards ks.
  Proof.
    intro H. unfold selection. apply filter_ext_in'. intros i _.
    destruct (memn i prev) eqn:E; [|apply orb_false_r].
    apply memn_In in E. rewrite (H i E). reflexivity.
  Qed.

  Theorem continue_eq_redraw cards ks ks' :
    sizes_available cards ks' -> grown ks ks' ->
    consistent_sampling cards ks' (Some (selection cards ks)) = consistent_sampling cards ks' None.
  Proof.
    intros Hav G. rewrite !consistent_sampling_spec by auto. f_equal. f_equal. cbn [prev_list].
    rewrite continue_absorbs.
    - symmetry. apply continue_absorbs. intros i [].
    - intros i Hi. eapply chosen_mono; eauto. now apply selection_In.
  Qed.

  (* continuation never drops a previously selected card (whatever the sizes do) *)
  Theorem continue_keeps cards ks prev i :
    sizes_available cards ks -> In i prev -> (i < length cards)%nat ->
    exists sel, fst (consistent_sampling cards ks (Some prev)) = Ok sel /\ In i sel.
  Proof.
    intros Hav Hi Hlt. rewrite consistent_sampling_spec by auto. cbn [fst prev_list]. eexists. split; [reflexivity|].
    apply filter_In. split.
    - eapply Permutation_in; [apply Permutation_sym, sorted_cards_fst_perm|]. apply in_seq. lia.
    - apply orb_true_iff. right. now apply memn_In.
  Qed.

  (* ---- whole histories *)
  Fixpoint ids_sizes ks : list (Z * nat) := match ks with [] => [] | k :: r => (k_id k, k_size k) :: ids_sizes r end.
  Lemma chosen_ids_sizes cards ks ks' : ids_sizes ks = ids_sizes ks' -> forall i, chosen cards ks i = chosen cards ks' i.
  Proof.
    revert ks'. induction ks as [|k ks IH]; intros [|k' ks'] E i; simpl in E; try discriminate; auto.
    inversion E as [[E1 E2 E3]]. unfold chosen in *. simpl. rewrite E1, E2. f_equal. now apply IH.
  Qed.
  Lemma set_sizes_ids_sizes ks ns : length ns = length ks ->
    ids_sizes (set_sizes ks ns) = combine (map k_id ks) ns.
  Proof.
    revert ns. induction ks as [|k ks IH]; intros [|n ns] H; simpl in *; try discriminate; auto.
    f_equal. apply IH. lia.
  Qed.
  Lemma set_sizes_ids ks ns : map k_id (set_sizes ks ns) = map k_id ks.
  Proof.
    revert ns. induction ks as [|k ks IH]; intros [|n ns]; simpl; auto. now rewrite IH.
  Qed.
  Lemma updated_ids cards ks : map k_id (map (updated cards) ks) = map k_id ks.
  Proof. rewrite map_map. reflexivity. Qed.
  Lemma set_sizes_length ks ns : length (set_sizes ks ns) = length ks.
  Proof. revert ns. induction ks as [|k ks IH]; intros [|n ns]; simpl; auto. Qed.

  (* the contests with sizes ns, thresholds irrelevant *)
  Definition with_sizes (ids : list Z) (ns : list nat) : list contest := map (fun x => mkcon (fst x) (snd x) None) (combine ids ns).
  Lemma with_sizes_ids_sizes ids ns : ids_sizes (with_sizes ids ns) = combine ids ns.
  Proof.
    unfold with_sizes. generalize (combine ids ns). intro l. induction l as [|[i n] l IH]; simpl; auto. now rewrite IH.
  Qed.
  Lemma grown_with_sizes ids ns ns' : Forall2 le ns ns' -> grown (with_sizes ids ns) (with_sizes ids ns').
  Proof.
    intro H. revert ids. induction H as [|n n' ns ns' Hn H IH]; intros [|i ids]; simpl; try constructor; auto.
    apply IH.
  Qed.

  Definition op_ok cards (ids : list Z) (op : round_op) : Prop :=
    length (o_sizes op) = length ids /\ sizes_available cards (with_sizes ids (o_sizes op)).
  Fixpoint nondecreasing (ops : list round_op) : Prop :=
    match ops with
    | op :: ((op' :: _) as r) => Forall2 le (o_sizes op) (o_sizes op') /\ nondecreasing r
    | _ => True
    end.

  Lemma available_ids_sizes cards ks ks' : ids_sizes ks = ids_sizes ks' -> sizes_available cards ks -> sizes_available cards ks'.
  Proof.
    revert ks'. induction ks as [|k ks IH]; intros [|k' ks'] E H; simpl in E; try discriminate.
    - intros x [].
    - inversion E as [[E1 E2 E3]]. intros x [Hx|Hx].
      + subst x. rewrite <- E1, <- E2. apply H. now left.
      + eapply IH; eauto. intros y Hy. apply H. now right.
  Qed.

  (* one round from any state whose previous selection is absorbed by the new sizes: the result is the redraw *)
  Lemma round_step_redraw cards st op :
    op_ok cards (map k_id (r_contests st)) op ->
    (o_continue op = true -> forall i, In i (r_prev st) -> chosen cards (with_sizes (map k_id (r_contests st)) (o_sizes op)) i = true) ->
    let sel := selection cards (with_sizes (map k_id (r_contests st)) (o_sizes op)) in
    fst (round_step cards st op) = Ok sel /\
    r_prev (snd (round_step cards st op)) = sel /\
    map k_id (r_contests (snd (round_step cards st op))) = map k_id (r_contests st) /\
    r_flags (snd (round_step cards st op)) = mark_sampled (r_flags st) sel.
  Proof.
    intros [Hl Hav] Hprev sel.
    set (ks := set_sizes (r_contests st) (o_sizes op)).
    assert (Eis : ids_sizes (with_sizes (map k_id (r_contests st)) (o_sizes op)) = ids_sizes ks).
    { unfold ks. rewrite with_sizes_ids_sizes, set_sizes_ids_sizes; auto. now rewrite map_length in Hl. }
    assert (Hav' : sizes_available cards ks) by (eapply available_ids_sizes; eauto).
    unfold round_step. fold ks. rewrite consistent_sampling_spec by auto. cbn [fst snd].
    assert (Es : filter (fun i => chosen cards ks i || memn i (prev_list (if o_continue op then Some (r_prev st) else None)))
                        (map fst (order cards)) = sel).
    { unfold sel, selection. apply filter_ext_in'. intros i _.
      rewrite <- (chosen_ids_sizes cards _ _ Eis i).
      destruct (o_continue op) eqn:Ec; cbn [prev_list]; [|apply orb_false_r].
      destruct (memn i (r_prev st)) eqn:Em; [|apply orb_false_r].
      apply memn_In in Em. rewrite (Hprev eq_refl i Em). reflexivity. }
    rewrite Es. cbn [fst snd r_prev r_contests r_flags]. repeat split; auto.
    rewrite updated_ids. unfold ks. apply set_sizes_ids.
  Qed.

  (* every round of a history with available, non-decreasing sizes returns the redraw for that round's sizes,
     whichever rounds continue and whichever redraw *)
  Theorem history_spec cards : forall ops st,
    Forall (op_ok cards (map k_id (r_contests st))) ops -> nondecreasing ops ->
    (forall op, hd_error ops = Some op -> o_continue op = true ->
       forall i, In i (r_prev st) -> chosen cards (with_sizes (map k_id (r_contests st)) (o_sizes op)) i = true) ->
    map fst (run_rounds cards st ops) =
    map (fun op => Ok (selection cards (with_sizes (map k_id (r_contests st)) (o_sizes op)))) ops.
  Proof.
    induction ops as [|op ops IH]; intros st Hok Hnd Hprev; [reflexivity|].
    inversion Hok as [|? ? Hop Hok']; subst.
    destruct (round_step_redraw cards st op Hop (Hprev op eq_refl)) as (R1 & R2 & R3 & R4).
    cbn [run_rounds]. rewrite R1. cbn [map fst]. f_equal; [exact R1|].
    rewrite IH.
    - rewrite R3. reflexivity.
    - now rewrite R3.
    - destruct ops; simpl in Hnd; tauto.
    - intros op' Hh _ i Hi. rewrite R2 in Hi. rewrite R3.
      destruct ops as [|op2 ops]; [discriminate|]. inversion Hh; subst op2.
      eapply chosen_mono; [|apply selection_In; exact Hi].
      apply grown_with_sizes. simpl in Hnd. tauto.
  Qed.

  (* ---- the sticky flag *)
  Lemma proved_after_true risk ps : proved_after risk ps true = true.
  Proof.
    unfold proved_after. induction ps as [|p ps IH]; simpl; auto.
    unfold set_proved at 2. rewrite orb_true_r. exact IH.
  Qed.
  Theorem proved_sticky risk ps qs b :
    proved_after risk ps b = true -> proved_after risk (ps ++ qs) b = true.
  Proof.
    unfold proved_after. rewrite fold_left_app. intros ->. apply proved_after_true.
  Qed.
End Rounds.

(* ================================================================= final forms used by PC07.v / PC10.v *)
Lemma StronglySorted_filter {A} (R : A -> A -> Prop) (p : A -> bool) l :
  StronglySorted R l -> StronglySorted R (filter p l).
Proof.
  induction 1 as [|a l Hs IH Hall]; simpl; [constructor|].
  destruct (p a); auto. constructor; auto.
  rewrite Forall_forall in *. intros x Hx. apply filter_In in Hx. apply Hall. tauto.
Qed.
Lemma StronglySorted_map {A B} (R : A -> A -> Prop) (R' : B -> B -> Prop) (f : A -> B) l :
  (forall x y, In x l -> In y l -> R x y -> R' (f x) (f y)) ->
  StronglySorted R l -> StronglySorted R' (map f l).
Proof.
  intros H Hs. induction Hs as [|a l Hs IH Hall]; simpl; [constructor|].
  constructor.
  - apply IH. intros x y Hx Hy. apply H; now right.
  - rewrite Forall_forall in *. intros y Hy. apply in_map_iff in Hy. destruct Hy as (x & E & Hx). subst y.
    apply H; [now left | now right | now apply Hall].
Qed.
Lemma combine_seq_nth_error {A} (l : list A) k i x :
  In (i, x) (combine (seq k (length l)) l) -> (k <= i)%nat /\ nth_error l (i - k) = Some x.
Proof.
  revert k; induction l as [|a l IH]; intro k; simpl; [contradiction|].
  intros [E|H].
  - inversion E; subst. rewrite Nat.sub_diag. auto.
  - apply IH in H. destruct H as [H1 H2]. split; [lia|].
    replace (i - k)%nat with (S (i - S k)) by lia. exact H2.
Qed.
Lemma Forall2_nth_error {A B} (R : A -> B -> Prop) l m j a b :
  Forall2 R l m -> nth_error l j = Some a -> nth_error m j = Some b -> R a b.
Proof.
  intro H. revert j. induction H as [|x y l m Hxy H IH]; intros [|j] Ha Hb; simpl in *; try discriminate.
  - inversion Ha; inversion Hb; subst; auto.
  - eapply IH; eauto.
Qed.

Section Final.
  Context {V : Type}.
  Implicit Types (cards : list (card V)) (ks : list contest).

  Lemma order_nth_error cards i cd : In (i, cd) (order cards) -> nth_error cards i = Some cd.
  Proof.
    intro H. unfold order in H. apply (Permutation_in _ (sorted_cards_perm cards)) in H.
    apply combine_seq_nth_error in H. destruct H as [_ H]. now rewrite Nat.sub_0_r in H.
  Qed.
  Lemma selection_nodup cards ks : NoDup (selection cards ks).
  Proof. unfold selection. apply NoDup_filter. apply sorted_cards_nodup. Qed.
  Lemma order_fst_lt cards i : In i (map fst (order cards)) <-> (i < length cards)%nat.
  Proof.
    split; intro H.
    - apply (Permutation_in _ (sorted_cards_fst_perm cards)) in H. apply in_seq in H. lia.
    - apply (Permutation_in _ (Permutation_sym (sorted_cards_fst_perm cards))). apply in_seq. lia.
  Qed.
  Lemma selection_iff cards ks i :
    In i (selection cards ks) <->
    (i < length cards)%nat /\ exists k, In k ks /\ In i (first_cards cards (k_id k) (k_size k)).
  Proof.
    unfold selection. rewrite filter_In, order_fst_lt. unfold chosen. rewrite existsb_exists.
    split; intros [H1 (k & Hk & Hm)]; split; auto; exists k; split; auto; now apply memn_In.
  Qed.
  Lemma first_cards_length cards c n : (n <= n_listing cards c)%nat -> length (first_cards cards c n) = n.
  Proof.
    intro H. unfold first_cards, first_of. rewrite map_length, firstn_length. rewrite n_listing_order. lia.
  Qed.
  (* positions in sample-number order: strictly increasing sample numbers when these are distinct *)
  Lemma positions_sorted cards dflt (p : nat -> bool) :
    NoDup (map c_num cards) ->
    StronglySorted (fun i j => c_num (nth i cards dflt) < c_num (nth j cards dflt)) (filter p (map fst (order cards))).
  Proof.
    intro Hnd. apply StronglySorted_filter.
    apply (StronglySorted_map (lt_key numkey)); [|now apply sorted_cards_strict].
    intros [i a] [j b] Hx Hy. unfold lt_key, numkey. cbn [fst snd].
    now rewrite (sorted_cards_nth cards i a dflt Hx), (sorted_cards_nth cards j b dflt Hy).
  Qed.

  Theorem C07_selection_stmt cards ks :
    sizes_available cards ks ->
    (* (a) `order cards` is the list of (position, card) pairs sorted by sample number ... *)
    (Permutation (map fst (order cards)) (seq 0 (length cards)) /\
     (forall i cd, In (i, cd) (order cards) -> nth_error cards i = Some cd) /\
     StronglySorted (fun a b => c_num (snd a) <= c_num (snd b)) (order cards) /\
     (NoDup (map c_num cards) -> StronglySorted (fun a b => c_num (snd a) < c_num (snd b)) (order cards))) /\
    (* (b) the fresh draw returns, in that order, the positions that are among some contest's first n_c cards *)
    fst (consistent_sampling cards ks None) =
      Ok (filter (fun i => existsb (fun k => memn i (first_cards cards (k_id k) (k_size k))) ks) (map fst (order cards))) /\
    (* (c) i.e. exactly the union, without repetition *)
    (forall sel, fst (consistent_sampling cards ks None) = Ok sel ->
       NoDup sel /\
       (forall i, In i sel <-> (i < length cards)%nat /\ exists k, In k ks /\ In i (first_cards cards (k_id k) (k_size k))) /\
       (forall dflt, NoDup (map c_num cards) ->
          StronglySorted (fun i j => c_num (nth i cards dflt) < c_num (nth j cards dflt)) sel)) /\
    (* (d) each contest's part has exactly n_c cards *)
    (forall k, In k ks -> length (first_cards cards (k_id k) (k_size k)) = k_size k).
  Proof.
    intro Hav. split; [|split; [|split]].
    - split; [apply sorted_cards_fst_perm|]. split; [apply order_nth_error|]. split.
      + apply sorted_cards_sorted.
      + apply sorted_cards_strict.
    - rewrite consistent_sampling_spec by auto. cbn [fst prev_list]. f_equal.
      apply filter_ext_in'. intros i _. apply orb_false_r.
    - intros sel E. rewrite consistent_sampling_spec in E by auto. cbn [fst prev_list] in E.
      injection E as E'.
      assert (Es : sel = selection cards ks).
      { rewrite <- E'. apply filter_ext_in'. intros i _. destruct (chosen cards ks i); reflexivity. }
      rewrite Es.
      split; [|split].
      + apply selection_nodup.
      + intro i. apply selection_iff.
      + intros dflt Hnd. now apply positions_sorted.
    - intros k Hk. apply first_cards_length. now apply Hav.
  Qed.

  Theorem C07_threshold_stmt {M D} (f : M -> card V -> D) (g : M -> D) (mvr : nat -> M) (dflt : card V)
          cards ks prev j k ty :
    NoDup (map c_num cards) -> sizes_available cards ks ->
    nth_error ks j = Some k -> (1 <= k_size k)%nat -> ty = Comparison \/ ty = OneAudit ->
    let r := consistent_sampling cards ks prev in
    exists sel k' i,
      fst r = Ok sel /\ nth_error (snd r) j = Some k' /\
      k_id k' = k_id k /\ k_size k' = k_size k /\
      (* the threshold is the sample number of the contest's n_c-th card *)
      nth_error (first_cards cards (k_id k) (k_size k)) (k_size k - 1) = Some i /\
      k_thr k' = Some (c_num (nth i cards dflt)) /\
      (* and the data built from the round's sample are exactly the contest's n_c cards, in order *)
      round_data f g mvr dflt cards sel ty true k' =
        Ok (map (fun i => f (mvr i) (nth i cards dflt)) (first_cards cards (k_id k) (k_size k))) /\
      length (first_cards cards (k_id k) (k_size k)) = k_size k.
  Proof.
    intros Hnd Hav Hj Hn Hty r. unfold r. rewrite consistent_sampling_spec by auto. cbn [fst snd].
    assert (Hk : In k ks) by (eapply nth_error_In; eauto).
    destruct (threshold_spec dflt cards k Hnd) as (i & I1 & I2); [split; auto|].
    eexists. exists (updated cards k), i. split; [reflexivity|]. split; [now apply map_nth_error|].
    split; [reflexivity|]. split; [reflexivity|]. split; [exact I1|]. split; [exact I2|]. split.
    - now apply round_data_spec with (contests := ks).
    - apply first_cards_length. now apply Hav.
  Qed.

  Lemma available_grown cards ks ks' : grown ks ks' -> sizes_available cards ks' -> sizes_available cards ks.
  Proof.
    induction 1 as [|k k' ks ks' [Ei En] H IH]; intros Hav x Hx; [destruct Hx|].
    destruct Hx as [Hx|Hx].
    - subst x. rewrite Ei. specialize (Hav k' (or_introl eq_refl)). lia.
    - apply IH; auto. intros y Hy. apply Hav. now right.
  Qed.

  Theorem C10_data_prefix_stmt {M D} (f : M -> card V -> D) (g : M -> D) (mvr : nat -> M) (dflt : card V)
          cards ks ks' prev prev' j k k' ty :
    NoDup (map c_num cards) -> sizes_available cards ks' -> grown ks ks' ->
    nth_error ks j = Some k -> nth_error ks' j = Some k' -> (1 <= k_size k)%nat -> ty = Comparison \/ ty = OneAudit ->
    let r := consistent_sampling cards ks prev in
    let r' := consistent_sampling cards ks' prev' in
    exists sel sel' k1 k1' d ext,
      fst r = Ok sel /\ fst r' = Ok sel' /\ nth_error (snd r) j = Some k1 /\ nth_error (snd r') j = Some k1' /\
      round_data f g mvr dflt cards sel ty true k1 = Ok d /\
      round_data f g mvr dflt cards sel' ty true k1' = Ok (d ++ ext) /\
      length d = k_size k /\ length (d ++ ext) = k_size k'.
  Proof.
    intros Hnd Hav' G Hj Hj' Hn Hty r r'.
    pose proof (available_grown _ _ _ G Hav') as Hav.
    destruct (Forall2_nth_error _ _ _ _ _ _ G Hj Hj') as [Ei En].
    destruct (C07_threshold_stmt f g mvr dflt cards ks prev j k ty Hnd Hav Hj Hn Hty)
      as (sel & k1 & i & S1 & S2 & _ & _ & _ & _ & S3 & S4).
    destruct (C07_threshold_stmt f g mvr dflt cards ks' prev' j k' ty Hnd Hav' Hj') as
      (sel' & k1' & i' & S1' & S2' & _ & _ & _ & _ & S3' & S4'); [lia | auto |].
    destruct (first_cards_prefix cards (k_id k) (k_size k) (k_size k') En) as [ext Ex].
    exists sel, sel', k1, k1'. eexists. eexists.
    split; [exact S1|]. split; [exact S1'|]. split; [exact S2|]. split; [exact S2'|].
    split; [exact S3|]. split.
    - rewrite S3'. rewrite <- Ei. rewrite Ex. rewrite map_app. reflexivity.
    - split.
      + now rewrite map_length.
      + rewrite <- map_app. rewrite map_length. rewrite <- Ex. now rewrite Ei.
  Qed.

  Theorem C10_continue_eq_redraw_stmt cards ks ks' prev :
    sizes_available cards ks' -> grown ks ks' ->
    fst (consistent_sampling cards ks None) = Ok prev ->
    consistent_sampling cards ks' (Some prev) = consistent_sampling cards ks' None.
  Proof.
    intros Hav' G E. pose proof (available_grown _ _ _ G Hav') as Hav.
    assert (Ep : prev = selection cards ks).
    { rewrite consistent_sampling_spec in E by auto. cbn [fst] in E. injection E as E'. rewrite <- E'.
      apply filter_ext_in'. intros i _. destruct (chosen cards ks i); reflexivity. }
    subst prev. now apply continue_eq_redraw.
  Qed.

  (* absorbed continuation == redraw, for one step of the state machine *)
  Lemma round_step_mode cards st op :
    op_ok cards (map k_id (r_contests st)) op ->
    (forall i, In i (r_prev st) -> chosen cards (with_sizes (map k_id (r_contests st)) (o_sizes op)) i = true) ->
    round_step cards st op = round_step cards st (mkop (o_sizes op) false).
  Proof.
    intros [Hl Hav] Hprev.
    set (ks := set_sizes (r_contests st) (o_sizes op)).
    assert (Eis : ids_sizes (with_sizes (map k_id (r_contests st)) (o_sizes op)) = ids_sizes ks).
    { unfold ks. rewrite with_sizes_ids_sizes, set_sizes_ids_sizes; auto. now rewrite map_length in Hl. }
    assert (Hav' : sizes_available cards ks) by (eapply available_ids_sizes; eauto).
    unfold round_step. cbn [o_sizes o_continue]. fold ks. rewrite !consistent_sampling_spec by auto. cbn [fst snd prev_list].
    destruct (o_continue op); [|reflexivity]. cbn [prev_list].
    rewrite (filter_ext_in' (fun i => chosen cards ks i || memn i (r_prev st)) (fun i => chosen cards ks i || memn i [])).
    - reflexivity.
    - intros i _. rewrite orb_false_r. destruct (memn i (r_prev st)) eqn:Em; [|apply orb_false_r].
      apply memn_In in Em. rewrite <- (chosen_ids_sizes cards _ _ Eis i). rewrite (Hprev i Em). reflexivity.
  Qed.

  Definition as_redraw (op : round_op) : round_op := mkop (o_sizes op) false.

  Theorem history_mode_irrelevant cards : forall ops st,
    Forall (op_ok cards (map k_id (r_contests st))) ops -> nondecreasing ops ->
    (forall op, hd_error ops = Some op ->
       forall i, In i (r_prev st) -> chosen cards (with_sizes (map k_id (r_contests st)) (o_sizes op)) i = true) ->
    run_rounds cards st ops = run_rounds cards st (map as_redraw ops).
  Proof.
    induction ops as [|op ops IH]; intros st Hok Hnd Hprev; [reflexivity|].
    inversion Hok as [|? ? Hop Hok']; subst.
    cbn [run_rounds map]. change (as_redraw op) with (mkop (o_sizes op) false).
    rewrite <- (round_step_mode cards st op Hop (Hprev op eq_refl)).
    destruct (round_step_redraw cards st op Hop (fun _ => Hprev op eq_refl)) as (R1 & R2 & R3 & R4).
    rewrite R1. f_equal. apply IH.
    - now rewrite R3.
    - destruct ops; simpl in Hnd; tauto.
    - intros op' Hh i Hi. rewrite R2 in Hi. rewrite R3.
      destruct ops as [|op2 ops]; [discriminate|]. inversion Hh; subst op2.
      eapply chosen_mono; [|apply selection_In; exact Hi].
      apply grown_with_sizes. simpl in Hnd. tauto.
  Qed.

  Theorem C10_superset_stmt cards ops st :
    Forall (op_ok cards (map k_id (r_contests st))) ops -> nondecreasing ops -> r_prev st = [] ->
    (* every round succeeds, with the redraw selection for its sizes, whatever the modes *)
    map fst (run_rounds cards st ops) =
      map (fun op => Ok (selection cards (with_sizes (map k_id (r_contests st)) (o_sizes op)))) ops /\
    (* and consecutive rounds nest *)
    forall r x y, nth_error (run_rounds cards st ops) r = Some x -> nth_error (run_rounds cards st ops) (S r) = Some y ->
      exists s s', fst x = Ok s /\ fst y = Ok s' /\ NoDup s /\ NoDup s' /\ incl s s' /\
                   s = filter (fun i => memn i s) s'.
  Proof.
    intros Hok Hnd Hp.
    assert (Hs : map fst (run_rounds cards st ops) =
                 map (fun op => Ok (selection cards (with_sizes (map k_id (r_contests st)) (o_sizes op)))) ops).
    { apply history_spec; auto. intros op _ _ i Hi. rewrite Hp in Hi. destruct Hi. }
    split; [exact Hs|].
    intros r x y Hx Hy.
    apply (map_nth_error fst) in Hx. apply (map_nth_error fst) in Hy. rewrite Hs in Hx, Hy.
    destruct (nth_error ops r) as [op|] eqn:Eo; [|rewrite nth_error_map, Eo in Hx; discriminate].
    destruct (nth_error ops (S r)) as [op'|] eqn:Eo'; [|rewrite nth_error_map, Eo' in Hy; discriminate].
    rewrite nth_error_map, Eo in Hx. rewrite nth_error_map, Eo' in Hy. cbn in Hx, Hy.
    inversion Hx as [Hx']. inversion Hy as [Hy'].
    set (ids := map k_id (r_contests st)) in *.
    assert (G : grown (with_sizes ids (o_sizes op)) (with_sizes ids (o_sizes op'))).
    { apply grown_with_sizes. clear -Hnd Eo Eo'. revert r Hnd Eo Eo'.
      induction ops as [|a ops IH]; intros r Hnd Eo Eo'; [destruct r; discriminate|].
      destruct r as [|r].
      - simpl in Eo, Eo'. inversion Eo; subst a. destruct ops as [|b ops]; [discriminate|]. simpl in Eo'. inversion Eo'; subst b.
        simpl in Hnd. tauto.
      - simpl in Eo, Eo'. apply (IH r); auto. destruct ops; simpl in Hnd; tauto. }
    eexists. eexists. split; [reflexivity|]. split; [reflexivity|].
    split; [apply selection_nodup|]. split; [apply selection_nodup|]. split; [now apply selection_incl|].
    rewrite (selection_grown _ _ _ G) at 1. apply filter_ext_in'. intros i Hi.
    destruct (chosen cards (with_sizes ids (o_sizes op)) i) eqn:Ec.
    - symmetry. apply memn_In. rewrite (selection_grown _ _ _ G). apply filter_In. auto.
    - symmetry. apply memn_false. intro Hc. apply selection_In in Hc. congruence.
  Qed.
End Final.

Theorem C07_sample_nums_stmt (V : Type) (rnd : nat -> Z) (k : nat) (cards : list (card V)) :
  let r := assign_sample_nums rnd k cards in
  (forall i d, (i < length cards)%nat -> c_num (nth i (fst r) d) = rnd (k + i)%nat) /\
  map c_votes (fst r) = map c_votes cards /\ map c_extra (fst r) = map c_extra cards /\
  snd r = (k + length cards)%nat /\
  (forall (W : Type) (cards' : list (card W)), length cards' = length cards ->
     map c_num (fst (assign_sample_nums rnd k cards')) = map c_num (fst r)).
Proof.
  cbn zeta. destruct (sample_nums_spec rnd cards k) as (H1 & H2 & H3 & H4 & H5).
  split; [exact H5|]. split; [exact H2|]. split; [exact H3|]. split; [exact H4|].
  intros W cards' Hl. destruct (sample_nums_spec rnd cards' k) as (H1' & _). rewrite H1', H1. now rewrite Hl.
Qed.

Theorem C10_proved_sticky_stmt (risk : Q) (ps qs : list Xq) (b : bool) :
  (* once true, true after any further rounds, whatever their p-values (even NaN or 1) *)
  (proved_after risk ps b = true -> proved_after risk (ps ++ qs) b = true) /\
  (* it becomes true in a round whose p-value is at most the risk limit *)
  (forall p, xle p (Fin risk) = true -> proved_after risk (ps ++ p :: qs) b = true) /\
  (* and it is never set for another reason *)
  (proved_after risk ps b = true -> b = true \/ exists p, In p ps /\ xle p (Fin risk) = true).
Proof.
  split; [apply proved_sticky|]. split.
  - intros p Hp. unfold proved_after. rewrite fold_left_app. cbn [fold_left].
    unfold set_proved at 2. rewrite Hp. cbn [orb]. apply proved_after_true.
  - revert b. induction ps as [|p ps IH]; intros b H; [now left|].
    unfold proved_after in H. cbn [fold_left] in H. apply IH in H. destruct H as [H|(q & Hq & Hx)].
    + unfold set_proved in H. apply orb_true_iff in H. destruct H as [H|H]; [right|now left].
      exists p. split; [now left | exact H].
    + right. exists q. split; [now right | exact Hx].
Qed.
