(* PC02.v — placeholder while the proofs are being built *)
From SV Require Import Assorter.
Theorem C02_placeholder : True. Proof. exact I. Qed.
Print Assumptions C02_placeholder.
