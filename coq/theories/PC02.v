(* PC02.v — property C02: assorter means exceed 1/2 exactly when the reported winners really won; assorter
   ranges; the margin derived from a tally equals 2 * mean - 1 over the same cards.
   Only statements (proved in Assorter_proofs.v), Print Assumptions, and non-vacuity examples.
   All statements are for card lists of any length, any marks (every Python truthiness encoding), blank ballots,
   ballots lacking the contest, any candidate / winner / loser lists.
   `mean` is the model of Assorter.mean: NaN on an empty (filtered) list, so "mean > 1/2" is
   xlt (Fin (1#2)) (mean ...) = true; with no card both sides of each equivalence are false. *)
From SV Require Import Assorter Assorter_proofs.
From Coq Require Import Permutation String.
Open Scope Q_scope.

(* plurality and approval, k reported winners W, reported losers L, with or without the style filter *)
Theorem C02_plurality_iff : forall (use_style : bool) (con : contest_id) (cs : list card) (W L : list cand),
  (forall w l, In w W -> In l L -> xlt (Fin (1 # 2)) (mean use_style con (assort_pl con w l) cs) = true)
  <-> (forall w l, In w W -> In l L -> (votes con w cs > votes con l cs)%Z).
Proof. exact plurality_iff. Qed.
Print Assumptions C02_plurality_iff.

(* the family Assertion.make_all_assertions builds for a whole plurality contest: one assertion per (reported winner,
   other candidate) pair, nothing missing and nothing else (the regenerated reading of make_all_assertions is proved
   equal to all_plurality_pairs in coq/gen/GenProofs_assorter_skeletons.v) *)
Theorem C02_make_all_plurality_iff : forall (use_style : bool) (con : contest_id) (cs : list card) (cands W : list cand),
  (forall w l, In (w, l) (all_plurality_pairs cands W) ->
               xlt (Fin (1 # 2)) (mean use_style con (assort_pl con w l) cs) = true)
  <-> (forall w l, In w W -> In l cands -> ~ In l W -> (votes con w cs > votes con l cs)%Z).
Proof. exact make_all_plurality_iff. Qed.
Print Assumptions C02_make_all_plurality_iff.
Example C02_make_all_plurality_family :
  all_plurality_pairs [1; 2; 3; 4; 2]%Z [4; 2]%Z = [(4, 1); (4, 3); (2, 1); (2, 3)]%Z.
Proof. vm_compute. reflexivity. Qed.

(* super-majority with required share f > 0: valid = exactly one truthy mark among the listed candidates *)
Theorem C02_supermajority_iff : forall (use_style : bool) (con : contest_id) (f : Q) (w : cand) (cands : list cand)
                                       (cs : list card),
  0 < f ->
  (xlt (Fin (1 # 2)) (mean use_style con (assort_sm con f w cands) cs) = true
   <-> f * inject_Z (valid_votes con cands cs) < inject_Z (valid_votes_for con cands w cs)).
Proof. exact supermajority_iff. Qed.
Print Assumptions C02_supermajority_iff.

(* every assorter value lies in [0, upper_bound] (plurality/approval: 1; super-majority: 1/(2f), 0 < f <= 1) *)
Theorem C02_range : forall (con : contest_id) (c : card),
  (forall w l, 0 <= assort_pl con w l c /\ assort_pl con w l c <= ub_pl) /\
  (forall f w cands, 0 < f -> f <= 1 -> 0 <= assort_sm con f w cands c /\ assort_sm con f w cands c <= ub_sm f).
Proof. intros con c. split; [intros; apply range_pl|intros; now apply range_sm]. Qed.
Print Assumptions C02_range.

(* Contest.tally followed by find_margin_from_tally, with Contest.cards = the number of cards the mean is taken
   over, gives 2 * mean - 1.  Guards: Python dict keys distinct; candidate names truthy; no card dropped by the
   rule check (vacuous when enforce_rules = False). *)
Theorem C02_margin_tally_plurality :
  forall (sc : scf) (enforce : bool) (n_winners : Z) (con : contest_id) (cs : list card) (w l : cand)
         (use_style : bool) (f : Q) (candidates : list cand) (arg : option tally_dict),
  sc = PLURALITY \/ sc = APPROVAL ->
  Forall wf_card cs -> w <> 0%Z -> l <> 0%Z -> pl_cards_ok enforce n_winners con cs = true ->
  style_filter use_style con cs <> [] ->
  let T := mktally (tally_contest enforce n_winners con cs) true in
  arg = None \/ arg = Some T ->
  exists m mg,
    mean use_style con (assort_pl con w l) cs = Fin m /\
    find_margin_from_tally arg (Some T) sc w l (Z.of_nat (List.length (style_filter use_style con cs))) f candidates
      = Val (Fin mg) /\
    mg == 2 * m - 1.
Proof. exact margin_tally_plurality. Qed.
Print Assumptions C02_margin_tally_plurality.

(* super-majority (the repaired formula q (p/f - 1), p = winner's share of the valid votes).  Guards: as above,
   the contest's candidate list is the assorter's list up to order, the tally and the assorter agree on which
   ballots are valid (sm_cards_ok: always true when every ballot has at most one mark and n_winners >= 1, and when
   overvotes among listed candidates are dropped by the rule check).  A contest with no valid vote at all is
   included: the code takes p = 0 there and the margin is 0 = 2 * (1/2) - 1. *)
Theorem C02_margin_tally_supermajority :
  forall (enforce : bool) (n_winners : Z) (con : contest_id) (cs : list card) (w : cand) (losers candidates : list cand)
         (use_style : bool) (f : Q) (arg : option tally_dict),
  Forall wf_card cs -> Forall (fun x => x <> 0%Z) candidates -> In w candidates ->
  Permutation candidates (sm_cands w losers) -> w <> NO_CANDIDATE ->
  sm_cards_ok enforce n_winners con (sm_cands w losers) cs = true ->
  0 < f ->
  style_filter use_style con cs <> [] ->
  let T := mktally (tally_contest enforce n_winners con cs) true in
  arg = None \/ arg = Some T ->
  exists m mg,
    mean use_style con (assort_sm con f w (sm_cands w losers)) cs = Fin m /\
    find_margin_from_tally arg (Some T) SUPERMAJORITY w ALL_OTHERS
      (Z.of_nat (List.length (style_filter use_style con cs))) f candidates = Val (Fin mg) /\
    mg == 2 * m - 1.
Proof. exact margin_tally_supermajority. Qed.
Print Assumptions C02_margin_tally_supermajority.

(* ------------------------------------------------------------------ non-vacuity *)
(* contest 1, candidates 1 2 3; every mark encoding, a blank ballot, a ballot lacking the contest, a write-in (7),
   an explicit falsy entry, and (ex_over) an overvote *)
Definition ex_cards : list card :=
  [ mkcard [(1, [(1, MBool true)])]%Z false;
    mkcard [(1, [(2, MStr ""); (1, MInt 5)])]%Z false;
    mkcard [(1, [(2, MStr "marked"); (3, MNone)])]%Z false;
    mkcard [(9, [(1, MBool true)])]%Z false;
    mkcard [(1, [])]%Z true;
    mkcard [(1, [(1, MFloat 1); (3, MInt 0)]); (9, [(2, MInt 1)])]%Z false;
    mkcard [(1, [(7, MInt 1)])]%Z false ].
Definition ex_over : list card := mkcard [(1, [(1, MBool true); (2, MInt 1)])]%Z false :: ex_cards.

Ltac nodup := simpl; repeat constructor; simpl; intuition lia.
Ltac wfcard :=
  split; [nodup | intros con vs Hin; simpl in Hin;
                  repeat (destruct Hin as [Hin | Hin]; [inversion Hin; subst; nodup|]); contradiction].
Lemma ex_over_wf : Forall wf_card ex_over.
Proof. repeat (constructor; [wfcard|]). constructor. Qed.
Lemma ex_cards_wf : Forall wf_card ex_cards.
Proof. pose proof ex_over_wf as H. inversion H; assumption. Qed.

(* C02_plurality_iff: both sides hold for W = [1], L = [2;3] (3, 1, 0 votes) and both fail for W = [2] *)
Example C02_plurality_iff_nonvacuous :
  (votes 1 1 ex_cards = 3 /\ votes 1 2 ex_cards = 1 /\ votes 1 3 ex_cards = 0)%Z /\
  forallb (fun l => xlt (Fin (1 # 2)) (mean true 1%Z (assort_pl 1%Z 1%Z l) ex_cards)) [2; 3]%Z = true /\
  xlt (Fin (1 # 2)) (mean false 1%Z (assort_pl 1%Z 2%Z 1%Z) ex_cards) = false.
Proof. vm_compute. repeat split. Qed.

(* C02_supermajority_iff: with the overvote, 4 valid ballots among candidates 2 3 1, 3 of them for candidate 1:
   the mean exceeds 1/2 for f = 1/2 and not for f = 4/5; the hypothesis 0 < f holds for both *)
Example C02_supermajority_iff_nonvacuous :
  (valid_votes 1 (sm_cands 1 [2; 3]) ex_over = 4 /\ valid_votes_for 1 (sm_cands 1 [2; 3]) 1 ex_over = 3)%Z /\
  xlt (Fin (1 # 2)) (mean true 1%Z (assort_sm 1%Z (1 # 2) 1%Z (sm_cands 1 [2; 3])%Z) ex_over) = true /\
  xlt (Fin (1 # 2)) (mean true 1%Z (assort_sm 1%Z (4 # 5) 1%Z (sm_cands 1 [2; 3])%Z) ex_over) = false /\
  0 < 1 # 2 /\ 0 < 4 # 5.
Proof. vm_compute. repeat split. Qed.

(* C02_range: the values 0, 1/2, 1 and 0, 1/2, 1/(2f) all occur *)
Example C02_range_nonvacuous :
  map (assort_pl 1%Z 1%Z 2%Z) ex_over = [1 # 2; 2 # 2; 2 # 2; 0 # 2; 1 # 2; 1 # 2; 2 # 2; 1 # 2] /\
  forallb (fun c => Qle_bool 0 (assort_sm 1%Z (2 # 3) 1%Z [2; 3; 1]%Z c)
                    && Qle_bool (assort_sm 1%Z (2 # 3) 1%Z [2; 3; 1]%Z c) (ub_sm (2 # 3))) ex_over = true /\
  existsb (fun c => Qeq_bool (assort_sm 1%Z (2 # 3) 1%Z [2; 3; 1]%Z c) (ub_sm (2 # 3))) ex_over = true /\
  existsb (fun c => Qeq_bool (assort_sm 1%Z (2 # 3) 1%Z [2; 3; 1]%Z c) 0) ex_over = true.
Proof. vm_compute. repeat split. Qed.

Open Scope Z_scope.
(* C02_margin_tally_plurality: all hypotheses hold on ex_cards with rules enforced (no overvote), and on ex_over
   with rules not enforced (with rules enforced the guard fails there: the overvote is dropped by the tally) *)
Example C02_margin_tally_plurality_nonvacuous :
  Forall wf_card ex_cards /\ pl_cards_ok true 1 1 ex_cards = true /\ style_filter true 1 ex_cards <> [] /\
  Forall wf_card ex_over /\ pl_cards_ok false 1 1 ex_over = true /\ pl_cards_ok true 1 1 ex_over = false /\
  tally_contest true 1 1 ex_cards = [(1, 3); (2, 1); (3, 0); (7, 1)].
Proof.
  split; [exact ex_cards_wf|]. split; [reflexivity|]. split; [discriminate|]. split; [exact ex_over_wf|].
  repeat split.
Qed.

(* C02_margin_tally_supermajority: all hypotheses hold on ex_over with rules enforced and one winner: the overvote
   is dropped by the tally and invalid for the assorter; the write-in ballot is tallied but has no listed mark.
   With rules not enforced the guard fails (the tally would count the overvote as two valid votes). *)
Example C02_margin_tally_supermajority_nonvacuous :
  Forall wf_card ex_over /\ Forall (fun x => x <> 0) [1; 2; 3] /\ In 1 [1; 2; 3] /\
  Permutation [1; 2; 3] (sm_cands 1 [2; 3]) /\ 1 <> NO_CANDIDATE /\
  sm_cards_ok true 1 1 (sm_cands 1 [2; 3]) ex_over = true /\ (0 < 2 # 3)%Q /\
  style_filter true 1 ex_over <> [] /\
  sm_cards_ok false 1 1 (sm_cands 1 [2; 3]) ex_over = false.
Proof.
  split; [exact ex_over_wf|]. split; [repeat constructor; lia|]. split; [simpl; auto|].
  split; [unfold sm_cands; simpl; apply Permutation_cons_append|].
  split; [unfold NO_CANDIDATE; lia|]. split; [reflexivity|]. split; [reflexivity|].
  split; [discriminate|reflexivity].
Qed.

(* no valid vote at all (a blank ballot and an overvote): the margin from the tally is 0 (the code's -0.0),
   equal to 2 * mean - 1 with mean 1/2; the hypotheses of C02_margin_tally_supermajority hold for these cards *)
Example C02_margin_tally_supermajority_no_valid_vote :
  let cs := [mkcard [(1, [])] false; mkcard [(1, [(1, MBool true); (2, MInt 1)])] false] in
  valid_votes 1 (sm_cands 1 [2; 3]) cs = 0 /\ sm_cards_ok true 1 1 (sm_cands 1 [2; 3]) cs = true /\
  match find_margin_from_tally None (Some (mktally (tally_contest true 1 1 cs) true)) SUPERMAJORITY 1 ALL_OTHERS 2
                               (1 # 2)%Q [1; 2; 3] with
  | Val (Fin mg) => Qeq_bool mg 0
  | _ => false
  end = true /\
  close_x (mean true 1 (assort_sm 1 (1 # 2)%Q 1 (sm_cands 1 [2; 3])) cs) (Fin (1 # 2)%Q) = true.
Proof. vm_compute. repeat split. Qed.
