(* DominionCvr.v — executable model of shangrla/formats/Dominion.py : read_cvrs, read_cvrs_directory.
   Input = the parsed JSON export as an ORDERED association structure (json / file I/O / glob+sorted are trusted):
     sessions -> keys "Original"/"Modified" in file key order -> optional "Cards" level -> contests -> marks.
   Identifiers (tabulator, batch, record, counting group, contest, candidate) are Z.
   No proofs in this file. *)
From Coq Require Import ZArith List Bool.
Import ListNotations.
Open Scope Z_scope.

(* ---------- Python dict with int keys: association list in insertion order ---------- *)
Definition dict (V : Type) := list (Z * V).

Fixpoint dget {V} (k : Z) (d : dict V) : option V :=
  match d with
  | [] => None
  | (k', v) :: r => if Z.eqb k k' then Some v else dget k r
  end.

(* d[k] = v : replace in place when the key exists (position kept), else append at the end *)
Fixpoint dset {V} (k : Z) (v : V) (d : dict V) : dict V :=
  match d with
  | [] => [(k, v)]
  | (k', v') :: r => if Z.eqb k k' then (k', v) :: r else (k', v') :: dset k v r
  end.

Definition memZ (x : Z) (l : list Z) : bool := existsb (Z.eqb x) l.

(* ---------- the parsed export ---------- *)
(* one element of con["Marks"]: mark["CandidateId"], mark["Rank"], mark["IsVote"] *)
Record mark := mkMark { m_cand : Z; m_rank : Z; m_isvote : bool }.
(* one contest: con["Id"], con["Marks"] *)
Record contest := mkContest { c_id : Z; c_marks : list mark }.
(* c[k] for k in Original/Modified.  Flat: {"Contests": [...]} (Dominion 5.2);  Cards: {"Cards": [{"Contests": [...]}, ...]}
   (5.10);  CardsAndFlat: both keys present — read_cvrs L151 tests "Cards" first. *)
Inductive body :=
| Flat (cs : list contest)
| Cards (cards : list (list contest))
| CardsAndFlat (cards : list (list contest)) (cs : list contest).
(* keys of the session object that matter, in FILE order; KOther = any other key in between *)
Inductive dkey := KOriginal | KModified | KOther.
Definition dkey_eqb (a b : dkey) : bool :=
  match a, b with KOriginal, KOriginal | KModified, KModified | KOther, KOther => true | _, _ => false end.
(* one element of cvr_json["Sessions"].  s_rec = None encodes RecordId == "X" (obfuscated);
   s_mask = Some n when c["ImageMask"] contains ddddd_ddddd_<digits n>, None when the pattern is absent. *)
Record session := mkSession {
  s_group : Z; s_tab : Z; s_batch : Z; s_rec : option Z; s_mask : option Z;
  s_data : list (dkey * body)
}.
(* the four options of read_cvrs *)
Record opts := mkOpts { o_current : bool; o_enforce : bool; o_include : list Z; o_pool : list Z }.

(* ---------- read_cvrs L161-176: marks of one contest -> contest_votes ---------- *)
(* body of `for mark in con["Marks"]` *)
Definition mark_step (enforce : bool) (d : dict Z) (m : mark) : dict Z :=
  if m_isvote m || negb enforce then                      (* if mark["IsVote"] or not enforce_rules *)
    match dget (m_cand m) d with
    | Some old =>                                         (* candidate already has a value *)
        if negb (Z.eqb (m_rank m) 0) then                 (* if bool(mark["Rank"]) *)
          dset (m_cand m) (if negb (Z.eqb old 0) then Z.min old (m_rank m) else m_rank m) d
        else d
    | None => dset (m_cand m) (m_rank m) d                (* first counted mark: raw rank *)
    end
  else d.

Definition contest_votes (enforce : bool) (ms : list mark) : dict Z :=
  fold_left (mark_step enforce) ms [].

(* ---------- read_cvrs L145-160, L177: traversal and Original/Modified selection ---------- *)
(* L151-160 `_selector` *)
Definition selector (b : body) : list contest :=
  match b with
  | Flat cs => cs
  | Cards cards => concat cards
  | CardsAndFlat cards _ => concat cards
  end.

Fixpoint dfind (k : dkey) (l : list (dkey * body)) : option body :=
  match l with
  | [] => None
  | (k', b) :: r => if dkey_eqb k k' then Some b else dfind k r
  end.

(* L145-149 : [j for j in (["Original","Modified"] if use_current else ["Original"]) if j in c.keys()] *)
Definition wanted_keys (use_current : bool) : list dkey :=
  if use_current then [KOriginal; KModified] else [KOriginal].

Definition bodies (use_current : bool) (s : session) : list body :=
  flat_map (fun k => match dfind k (s_data s) with Some b => [b] | None => [] end) (wanted_keys use_current).

(* `for con in _selector: ... votes[str(con["Id"])] = contest_votes` *)
Definition contests_step (enforce : bool) (votes : dict (dict Z)) (con : contest) : dict (dict Z) :=
  dset (c_id con) (contest_votes enforce (c_marks con)) votes.

Definition session_votes (o : opts) (s : session) : dict (dict Z) :=
  fold_left (fun votes b => fold_left (contests_step (o_enforce o)) (selector b) votes)
            (bodies (o_current o) s) [].

(* ---------- read_cvrs L178-194: id, tally_pool, pool ---------- *)
(* record_id : Some n = a number, None = the string "X" *)
Definition record_id (s : session) : option Z :=
  match s_rec s with
  | Some n => Some n
  | None => s_mask s            (* "X": the image-mask number when the pattern matches, else stays "X" *)
  end.

(* the CVR object: id = tab-batch-record, tally_pool = tab-batch, pool, votes *)
Record cvr := mkCvr {
  r_id : Z * Z * option Z;
  r_tally_pool : Z * Z;
  r_pool : bool;
  r_votes : dict (dict Z)
}.

Definition mk_record (o : opts) (s : session) : cvr :=
  mkCvr (s_tab s, s_batch s, record_id s) (s_tab s, s_batch s) (memZ (s_group s) (o_pool o)) (session_votes o s).

(* L142 : `if include_groups and c["CountingGroupId"] not in include_groups: continue` *)
Definition skipped (o : opts) (s : session) : bool :=
  match o_include o with [] => false | _ => negb (memZ (s_group s) (o_include o)) end.

(* read_cvrs : the loop over cvr_json["Sessions"] *)
Fixpoint read_cvrs (o : opts) (ss : list session) : list cvr :=
  match ss with
  | [] => []
  | s :: r => if skipped o s then read_cvrs o r else mk_record o s :: read_cvrs o r
  end.

(* read_cvrs_directory : files in sorted-name order, results concatenated *)
Definition read_cvrs_directory (o : opts) (files : list (list session)) : list cvr :=
  flat_map (read_cvrs o) files.
