(* PC05.v — property C05: non-anticipation. Only statements, each closed by `exact`. Model: NNM.v. *)
From SV Require Import NNM NNM_machines NNM_prefix.
Open Scope Q_scope.

(* If two samples agree in their first k observations and both continue beyond them, their p-value histories agree
   in the first k entries — for every test, estimator, bet, parameters (no hypothesis on ranges at all). *)
Theorem C05_tail : forall sqrtq c xs ys k,
  firstn k xs = firstn k ys -> (k < length xs)%nat -> (k < length ys)%nat ->
  firstn k (hist sqrtq c xs) = firstn k (hist sqrtq c ys).
Proof. exact hist_tail_all. Qed.
Print Assumptions C05_tail.

(* Truncating to the first k observations leaves the first k-1 entries unchanged, and the k-th either unchanged or
   lowered to 0 (the observed total already exceeds what the null allows). *)
Theorem C05_prefix : forall sqrtq c xs k,
  (1 <= k <= length xs)%nat ->
  firstn (k - 1) (hist sqrtq c (firstn k xs)) = firstn (k - 1) (hist sqrtq c xs)
  /\ (nth_error (hist sqrtq c (firstn k xs)) (k - 1) = nth_error (hist sqrtq c xs) (k - 1)
      \/ nth_error (hist sqrtq c (firstn k xs)) (k - 1) = Some (Fin 0)).
Proof. exact hist_truncate_all. Qed.
Print Assumptions C05_prefix.

(* The alternative mean / bet applied to observation j+1 (index j) is unaffected by any change to observations
   j+1, j+2, ...: every shipped estimator and bet. *)
Theorem C05_estim : forall sqrtq e N t u xs ys j,
  firstn j xs = firstn j ys -> (j < length xs)%nat -> (j < length ys)%nat ->
  nth_error (run_estim sqrtq e N t u xs) j = nth_error (run_estim sqrtq e N t u ys) j.
Proof. intros sqrtq e N t u. exact (run_machine_predictable (estim_machine sqrtq e N t u)). Qed.
Print Assumptions C05_estim.

Theorem C05_bet : forall sqrtq b N t u xs ys j,
  firstn j xs = firstn j ys -> (j < length xs)%nat -> (j < length ys)%nat ->
  nth_error (run_bet sqrtq b N t u xs) j = nth_error (run_bet sqrtq b N t u ys) j.
Proof. intros sqrtq b N t u. exact (run_machine_predictable (bet_machine sqrtq b N t u)). Qed.
Print Assumptions C05_bet.

Example C05_nonvacuous :
  let c := mkcfg (Some 6%Z) (1#2) 1 true (TAlpha (EShrink (3#4) (1#2) 10 (1#2) (1#8))) in
  firstn 2 (hist sqrt_exec c [1; 0; 1; 1]) = firstn 2 (hist sqrt_exec c [1; 0; 0; (1#2)])
  /\ nth_error (run_estim sqrt_exec (EShrink (3#4) (1#2) 10 (1#2) (1#8)) (Some 6%Z) (1#2) 1 [1; 0; 1; 1]) 2
     = nth_error (run_estim sqrt_exec (EShrink (3#4) (1#2) 10 (1#2) (1#8)) (Some 6%Z) (1#2) 1 [1; 0; 0; 0]) 2.
Proof. split; vm_compute; reflexivity. Qed.
