(* Run_Compare.v — entry points evaluated by the correspondence harness (harness/compare.py, c03.py, c06.py).
   A case carries the inputs AND the implementation's outputs; agree_* compares inside Coq.
   The assorter is a black box: the harness evaluates the implementation's `assort` on every record and passes the
   table; a card's c_votes is its index in the table. *)
From SV Require Export Compare.
Open Scope Q_scope.

Definition A_tab (tab : list Q) (c : card) : Q := nth (Z.to_nat (c_votes c)) tab 0.

Definition err_eqb (a b : err) : bool :=
  match a, b with EValue, EValue | EKey, EKey | EOther, EOther => true | _, _ => false end.
Definition res_close (a b : res Xq) : bool :=
  match a, b with
  | Ok x, Ok y => close_x x y
  | Raise e, Raise f => err_eqb e f
  | _, _ => false
  end.
Definition sub_z (a b : list Z) : bool := forallb (fun x => memz x b) a.
Definition set_eq (a b : list Z) : bool := sub_z a b && sub_z b a && Nat.eqb (length a) (length b).
(* dicts with unique keys, compared as finite maps *)
Definition dict_agree {V W} (f : V -> W -> bool) (m : list (Z * V)) (i : list (Z * W)) : bool :=
  Nat.eqb (length m) (length i) &&
  forallb (fun kv => match lookup (fst kv) m with Some v => f v (snd kv) | None => false end) i.

(* ---- CVR.pool_contests / CVR.add_pool_contests ---- *)
Record pool_case := mkpool {
  p_cvrs : list card;
  p_arg : option (list (Z * list Z));    (* tally_pools handed to add_pool_contests; None = pool_contests(cvrs) *)
  p_impl_pc : list (Z * list Z);         (* CVR.pool_contests(cvrs) *)
  p_impl_after : list (list Z);          (* contests listed by each card after add_pool_contests *)
  p_impl_added : bool;
  p_impl_added2 : bool                   (* return value of a second, identical call *)
}.
Definition agree_pool (c : pool_case) : bool :=
  let pc := pool_contests (p_cvrs c) in
  let tps := match p_arg c with Some t => t | None => pc end in
  let r1 := add_pool_contests (p_cvrs c) tps in
  let r2 := add_pool_contests (fst r1) tps in
  dict_agree set_eq pc (p_impl_pc c)
  && all2 (fun cd l => set_eq (c_contests cd) l) (fst r1) (p_impl_after c)
  && all2 (fun cd old => all2 Z.eqb (firstn (length (c_contests old)) (c_contests cd)) (c_contests old)) (fst r1) (p_cvrs c)
  && Bool.eqb (snd r1) (p_impl_added c)
  && Bool.eqb (snd r2) (p_impl_added2 c)
  && all2 (fun a b => all2 Z.eqb (c_contests a) (c_contests b)) (fst r2) (fst r1).
Definition show_pool (c : pool_case) :=
  let pc := pool_contests (p_cvrs c) in
  let tps := match p_arg c with Some t => t | None => pc end in
  (pc, map c_contests (fst (add_pool_contests (p_cvrs c) tps)), snd (add_pool_contests (p_cvrs c) tps)).

(* ---- one assertion: pool means, margin, overstatement assorter on pairs, mvrs_to_data ---- *)
Record cmp_case := mkcmp {
  k_tab : list Q; k_cid : Z; k_ua : Q; k_type : atype;
  k_cvrs : list card;                    (* the list given to set_tally_pool_means / set_margin_from_cvrs *)
  k_means_mode : Z;                      (* 0: tally_pool_means never set; 1: tally_pools=None; 2: tally_pools=k_means_arg *)
  k_means_arg : list Z; k_means_style : bool;
  k_impl_means : res (list (Z * Xq));    (* Assorter.tally_pool_means afterwards, or the exception *)
  k_s_style : bool;                      (* audit stratum use_style (set_margin_from_cvrs) *)
  k_c_style : bool;                      (* contest.use_style (mvrs_to_data) *)
  k_margin_given : option Xq;            (* None: set_margin_from_cvrs; Some: margin set some other way *)
  k_impl_margin : Xq; k_impl_u0 : Xq;    (* Assertion.margin, Assertion.test.u afterwards *)
  k_pairs : list (card * card);          (* (mvr, cvr) *)
  k_impl_B_on : list (res Xq); k_impl_B_off : list (res Xq);   (* overstatement_assorter with use_style True / False *)
  k_mvrs : list card; k_scvrs : list card; k_thr : Q; k_use_all : bool;
  k_impl_data : res (list Xq * Xq)       (* mvrs_to_data *)
}.
Definition model_means (c : cmp_case) : res (list (Z * Xq)) :=
  let A := A_tab (k_tab c) in
  if (k_means_mode c =? 0)%Z then Ok []
  else set_tally_pool_means A (k_cid c) (k_cvrs c)
         (if (k_means_mode c =? 1)%Z then None else Some (k_means_arg c)) (k_means_style c).
Definition model_means_state (c : cmp_case) : option (list (Z * Xq)) :=
  if (k_means_mode c =? 0)%Z then None
  else match model_means c with Ok m => Some m | Raise _ => None end.   (* a raise leaves the attribute at None *)
Definition model_margin (c : cmp_case) : Xq * Xq :=
  match k_margin_given c with
  | Some m => (m, k_impl_u0 c)
  | None => set_margin_from_cvrs (A_tab (k_tab c)) (k_cid c) (k_type c) (k_ua c) (k_cvrs c) (k_s_style c)
  end.
Definition model_B (c : cmp_case) (style : bool) : list (res Xq) :=
  map (fun p => overstatement_assorter (A_tab (k_tab c)) (k_cid c) (model_means_state c) (fst (model_margin c))
                                       (k_ua c) (fst p) (snd p) style) (k_pairs c).
Definition model_asn (c : cmp_case) : asn :=
  mkasn (A_tab (k_tab c)) (k_cid c) (k_c_style c) (k_type c) (k_thr c) (fst (model_margin c)) (k_ua c)
        (model_means_state c) (snd (model_margin c)).
Definition model_data (c : cmp_case) := mvrs_to_data (model_asn c) (k_mvrs c) (k_scvrs c) (k_use_all c).
Definition data_close (a b : res (list Xq * Xq)) : bool :=
  match a, b with
  | Ok (d, u), Ok (d', u') => all2 close_x d d' && close_x u u'
  | Raise e, Raise f => err_eqb e f
  | _, _ => false
  end.
Definition agree_cmp (c : cmp_case) : bool :=
  match model_means c, k_impl_means c with
  | Ok m, Ok i => dict_agree close_x m i
  | Raise e, Raise f => err_eqb e f
  | _, _ => false
  end
  && close_x (fst (model_margin c)) (k_impl_margin c)
  && close_x (snd (model_margin c)) (k_impl_u0 c)
  && all2 res_close (model_B c true) (k_impl_B_on c)
  && all2 res_close (model_B c false) (k_impl_B_off c)
  && data_close (model_data c) (k_impl_data c).
Definition show_cmp (c : cmp_case) :=
  (model_means c, model_margin c, model_B c true, model_B c false, model_data c).

(* ---- several assertions sharing one sample: set_all_margins_from_cvrs (optional), re-assigned margins (optional),
        set_p_values ---- *)
Record spv_asn := mkspv_asn {
  s_tab : list Q; s_cid : Z; s_style : bool; s_type : atype; s_thr : Q;
  s_margin : Xq;                         (* margin before the optional set_all_margins_from_cvrs *)
  s_ua : Q; s_means : option (list (Z * Xq));
  s_u_before : Xq;                       (* test.u before anything happens *)
  s_override : option Xq                 (* margin assigned after set_all_margins_from_cvrs (tally / direct) *)
}.
Record spv_case := mkspv {
  v_asns : list spv_asn;
  v_setall : option (list card * bool);  (* Some (cvr_list, stratum use_style): set_all_margins_from_cvrs is called *)
  v_impl_setall : list (Xq * Xq) * Xq;   (* (margin, test.u) of every assertion afterwards, and min_margin *)
  v_mvrs : list card; v_cvrs : list card;
  v_impl : res (list (Xq * list Xq * Xq))   (* per assertion: u held by the test when test() ran, the data, test.u at the end *)
}.
Definition to_asn (s : spv_asn) : asn :=
  mkasn (A_tab (s_tab s)) (s_cid s) (s_style s) (s_type s) (s_thr s) (s_margin s) (s_ua s) (s_means s) (s_u_before s).
Definition override (a : asn) (s : spv_asn) : asn :=
  match s_override s with
  | Some m => mkasn (a_A a) (a_cid a) (a_style a) (a_type a) (a_thr a) m (a_ua a) (a_means a) (a_test_u a)
  | None => a
  end.
Fixpoint map2 {X Y Z'} (f : X -> Y -> Z') (l : list X) (m : list Y) : list Z' :=
  match l, m with a :: l', b :: m' => f a b :: map2 f l' m' | _, _ => [] end.
Definition spv_stage1 (c : spv_case) : list asn * Xq :=
  let a0 := map to_asn (v_asns c) in
  match v_setall c with
  | Some (pop, st) => set_all_margins_from_cvrs a0 pop st
  | None => (a0, snd (v_impl_setall c))
  end.
Definition spv_run (c : spv_case) :=
  set_p_values (map2 override (fst (spv_stage1 c)) (v_asns c)) (v_mvrs c) (v_cvrs c).
Definition agree_spv (c : spv_case) : bool :=
  let s1 := spv_stage1 c in
  match v_setall c with
  | Some _ => all2 (fun a mu => close_x (a_margin a) (fst mu) && close_x (a_test_u a) (snd mu)) (fst s1) (fst (v_impl_setall c))
              && close_x (snd s1) (snd (v_impl_setall c))
  | None => true
  end
  && match spv_run c, v_impl c with
     | Ok (asns', calls), Ok l =>
         all2 (fun ac i => match ac, i with
                           | (a', cl), (u_call, d, u_end) =>
                               close_x (call_u cl) u_call && all2 close_x (call_d cl) d && close_x (a_test_u a') u_end
                           end) (combine asns' calls) l
         && Nat.eqb (length asns') (length calls)
     | Raise e, Raise f => err_eqb e f
     | _, _ => false
     end.
Definition show_spv (c : spv_case) :=
  (map (fun a => (a_margin a, a_test_u a)) (fst (spv_stage1 c)), snd (spv_stage1 c),
   match spv_run c with
   | Ok (asns', calls) => Ok (map (fun cl => (call_u cl, call_d cl)) calls, map a_test_u asns')
   | Raise e => Raise e
   end).
