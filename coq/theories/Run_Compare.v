(* Run_Compare.v — entry points evaluated by the correspondence harness (harness/compare.py, c03.py, c06.py).
   A case carries the inputs AND the implementation's outputs; agree_* compares inside Coq.
   The assorter is a black box: the harness evaluates the implementation's `assort` on every record and passes the
   table; a card's c_votes is its index in the table. *)
From Coq Require Export Floats.
From SV Require Export Compare.
Open Scope Q_scope.

Definition A_tab (tab : list Q) (c : card) : Q := nth (Z.to_nat (c_votes c)) tab 0.

Definition err_eqb (a b : err) : bool :=
  match a, b with EValue, EValue | EKey, EKey | EOther, EOther => true | _, _ => false end.
Definition res_close (a b : res Xq) : bool :=
  match a, b with
  | Ok x, Ok y => close_x x y
  | Raise e, Raise f => err_eqb e f
  | _, _ => false
  end.
Definition sub_z (a b : list Z) : bool := forallb (fun x => memz x b) a.
Definition set_eq (a b : list Z) : bool := sub_z a b && sub_z b a && Nat.eqb (length a) (length b).
(* dicts with unique keys, compared as finite maps *)
Definition dict_agree {V W} (f : V -> W -> bool) (m : list (Z * V)) (i : list (Z * W)) : bool :=
  Nat.eqb (length m) (length i) &&
  forallb (fun kv => match lookup (fst kv) m with Some v => f v (snd kv) | None => false end) i.

(* ---- CVR.pool_contests / CVR.add_pool_contests ---- *)
Record pool_case := mkpool {
  p_cvrs : list card;
  p_arg : option (list (Z * list Z));    (* tally_pools handed to add_pool_contests; None = pool_contests(cvrs) *)
  p_impl_pc : list (Z * list Z);         (* CVR.pool_contests(cvrs) *)
  p_impl_after : list (list Z);          (* contests listed by each card after add_pool_contests *)
  p_impl_added : bool;
  p_impl_added2 : bool                   (* return value of a second, identical call *)
}.
Definition agree_pool (c : pool_case) : bool :=
  let pc := pool_contests (p_cvrs c) in
  let tps := match p_arg c with Some t => t | None => pc end in
  let r1 := add_pool_contests (p_cvrs c) tps in
  let r2 := add_pool_contests (fst r1) tps in
  dict_agree set_eq pc (p_impl_pc c)
  && all2 (fun cd l => set_eq (c_contests cd) l) (fst r1) (p_impl_after c)
  && all2 (fun cd old => all2 Z.eqb (firstn (length (c_contests old)) (c_contests cd)) (c_contests old)) (fst r1) (p_cvrs c)
  && Bool.eqb (snd r1) (p_impl_added c)
  && Bool.eqb (snd r2) (p_impl_added2 c)
  && all2 (fun a b => all2 Z.eqb (c_contests a) (c_contests b)) (fst r2) (fst r1).
Definition show_pool (c : pool_case) :=
  let pc := pool_contests (p_cvrs c) in
  let tps := match p_arg c with Some t => t | None => pc end in
  (pc, map c_contests (fst (add_pool_contests (p_cvrs c) tps)), snd (add_pool_contests (p_cvrs c) tps)).

(* ---- numbers from the implementation are IEEE doubles: written as primitive float literals (exact, hex) and
        converted exactly here; only the harness transport uses them, no theorem does ---- *)
Definition fx (f : float) : Xq :=
  match Prim2SF f with
  | S754_zero _ => Fin 0
  | S754_infinity s => if s then NInf else PInf
  | S754_nan => NaN
  | S754_finite s m e =>
      let v := if (0 <=? e)%Z then inject_Z (Zpos m * 2 ^ e) else Qmake (Zpos m) (Z.to_pos (2 ^ (- e))) in
      Fin (Qred (if s then - v else v))
  end.
Definition fq (f : float) : Q := match fx f with Fin q => q | _ => 0 end.
Definition fres (r : res float) : res Xq := match r with Ok f => Ok (fx f) | Raise e => Raise e end.
Definition fdict (d : list (Z * float)) : list (Z * Xq) := map (fun kv => (fst kv, fx (snd kv))) d.
Definition dummy_card : card := mkcard false false 0 [] 0 0.
Definition getc (objs : list card) (i : nat) : card := nth i objs dummy_card.

(* ---- one assertion: pool means, margin, overstatement assorter on pairs, mvrs_to_data ---- *)
Record cmp_case := mkcmp {
  k_tab : list float;                    (* assort(record) for every record, by handle *)
  k_cid : Z; k_ua : float; k_type : atype;
  k_objs : list card;                    (* the CVR list followed by the MVRs; a record's handle is its position *)
  k_ncvr : nat;                          (* the first k_ncvr records are the list given to set_tally_pool_means / set_margin_from_cvrs *)
  k_means_mode : Z;                      (* 0: tally_pool_means never set; 1: tally_pools=None; 2: tally_pools=k_means_arg *)
  k_means_arg : list Z; k_means_style : bool;
  k_impl_means : res (list (Z * float)); (* Assorter.tally_pool_means afterwards, or the exception *)
  k_s_style : bool;                      (* audit stratum use_style (set_margin_from_cvrs) *)
  k_c_style : bool;                      (* contest.use_style (mvrs_to_data) *)
  k_margin_given : option float;         (* None: set_margin_from_cvrs; Some: margin set some other way *)
  k_impl_margin : float; k_impl_u0 : float;    (* Assertion.margin, Assertion.test.u afterwards *)
  k_pairs : list (nat * nat);            (* (mvr, cvr) handles *)
  k_impl_B_on : list (res float); k_impl_B_off : list (res float);   (* overstatement_assorter, use_style True / False *)
  k_mvrs : list nat; k_scvrs : list nat; k_thr : Q; k_use_all : bool;
  k_impl_data : res (list float * float) (* mvrs_to_data *)
}.
Section Cmp.
  Variable c : cmp_case.
  Let tabq := map fq (k_tab c).
  Let A := A_tab tabq.
  Let cvrs := firstn (k_ncvr c) (k_objs c).
  Let ua := fq (k_ua c).
  Definition model_means : res (list (Z * Xq)) :=
    if (k_means_mode c =? 0)%Z then Ok []
    else set_tally_pool_means A (k_cid c) cvrs
           (if (k_means_mode c =? 1)%Z then None else Some (k_means_arg c)) (k_means_style c).
  Definition model_means_state : option (list (Z * Xq)) :=
    if (k_means_mode c =? 0)%Z then None
    else match model_means with Ok m => Some m | Raise _ => None end.   (* a raise leaves the attribute at None *)
  Definition model_margin : Xq * Xq :=
    match k_margin_given c with
    | Some m => (fx m, fx (k_impl_u0 c))
    | None => set_margin_from_cvrs A (k_cid c) (k_type c) ua cvrs (k_s_style c)
    end.
  Definition model_B (style : bool) : list (res Xq) :=
    let ms := model_means_state in let mg := fst model_margin in
    map (fun p => overstatement_assorter A (k_cid c) ms mg ua (getc (k_objs c) (fst p)) (getc (k_objs c) (snd p)) style)
        (k_pairs c).
  Definition model_asn : asn :=
    mkasn A (k_cid c) (k_c_style c) (k_type c) (k_thr c) (fst model_margin) ua model_means_state (snd model_margin).
  Definition model_data :=
    mvrs_to_data model_asn (map (getc (k_objs c)) (k_mvrs c)) (map (getc (k_objs c)) (k_scvrs c)) (k_use_all c).
End Cmp.
Definition data_close (a : res (list Xq * Xq)) (b : res (list float * float)) : bool :=
  match a, b with
  | Ok (d, u), Ok (d', u') => all2 close_x d (map fx d') && close_x u (fx u')
  | Raise e, Raise f => err_eqb e f
  | _, _ => false
  end.
Definition agree_cmp (c : cmp_case) : bool :=
  match model_means c, k_impl_means c with
  | Ok m, Ok i => dict_agree close_x m (fdict i)
  | Raise e, Raise f => err_eqb e f
  | _, _ => false
  end
  && close_x (fst (model_margin c)) (fx (k_impl_margin c))
  && close_x (snd (model_margin c)) (fx (k_impl_u0 c))
  && all2 res_close (model_B c true) (map fres (k_impl_B_on c))
  && all2 res_close (model_B c false) (map fres (k_impl_B_off c))
  && data_close (model_data c) (k_impl_data c).
Definition show_cmp (c : cmp_case) :=
  (model_means c, model_margin c, model_B c true, model_B c false, model_data c).

(* ---- several assertions sharing one sample: set_all_margins_from_cvrs (optional), re-assigned margins (optional),
        set_p_values ---- *)
Record spv_asn := mkspv_asn {
  s_tab : list float; s_cid : Z; s_style : bool; s_type : atype; s_thr : Q;
  s_margin : float;                      (* margin before the optional set_all_margins_from_cvrs *)
  s_ua : float; s_means : option (list (Z * float));
  s_u_before : float;                    (* test.u before anything happens *)
  s_override : option float              (* margin assigned after set_all_margins_from_cvrs (tally / direct) *)
}.
Record spv_case := mkspv {
  v_objs : list card;
  v_asns : list spv_asn;
  v_setall : option (nat * bool);        (* Some (k, stratum use_style): set_all_margins_from_cvrs on the first k records *)
  v_impl_setall : list (float * float) * float;   (* (margin, test.u) of every assertion afterwards, and min_margin *)
  v_mvrs : list nat; v_cvrs : list nat;
  v_impl : res (list (float * list float * float))  (* per assertion: u held by the test when test() ran, the data, test.u at the end *)
}.
Definition to_asn (s : spv_asn) : asn :=
  let tabq := map fq (s_tab s) in
  mkasn (A_tab tabq) (s_cid s) (s_style s) (s_type s) (s_thr s) (fx (s_margin s)) (fq (s_ua s))
        (match s_means s with Some d => Some (fdict d) | None => None end) (fx (s_u_before s)).
Definition override (a : asn) (s : spv_asn) : asn :=
  match s_override s with
  | Some m => mkasn (a_A a) (a_cid a) (a_style a) (a_type a) (a_thr a) (fx m) (a_ua a) (a_means a) (a_test_u a)
  | None => a
  end.
Fixpoint map2 {X Y Z'} (f : X -> Y -> Z') (l : list X) (m : list Y) : list Z' :=
  match l, m with a :: l', b :: m' => f a b :: map2 f l' m' | _, _ => [] end.
Definition spv_stage1 (c : spv_case) : list asn * Xq :=
  let a0 := map to_asn (v_asns c) in
  match v_setall c with
  | Some (k, st) => set_all_margins_from_cvrs a0 (firstn k (v_objs c)) st
  | None => (a0, fx (snd (v_impl_setall c)))
  end.
Definition spv_run (c : spv_case) :=
  set_p_values (map2 override (fst (spv_stage1 c)) (v_asns c))
               (map (getc (v_objs c)) (v_mvrs c)) (map (getc (v_objs c)) (v_cvrs c)).
Definition agree_spv (c : spv_case) : bool :=
  let s1 := spv_stage1 c in
  match v_setall c with
  | Some _ => all2 (fun a mu => close_x (a_margin a) (fx (fst mu)) && close_x (a_test_u a) (fx (snd mu)))
                   (fst s1) (fst (v_impl_setall c))
              && close_x (snd s1) (fx (snd (v_impl_setall c)))
  | None => true
  end
  && match spv_run c, v_impl c with
     | Ok (asns', calls), Ok l =>
         all2 (fun ac i => match ac, i with
                           | (a', cl), (u_call, d, u_end) =>
                               close_x (call_u cl) (fx u_call) && all2 close_x (call_d cl) (map fx d)
                               && close_x (a_test_u a') (fx u_end)
                           end) (combine asns' calls) l
         && Nat.eqb (length asns') (length calls)
     | Raise e, Raise f => err_eqb e f
     | _, _ => false
     end.
Definition show_spv (c : spv_case) :=
  (map (fun a => (a_margin a, a_test_u a)) (fst (spv_stage1 c)), snd (spv_stage1 c),
   match spv_run c with
   | Ok (asns', calls) => Ok (map (fun cl => (call_u cl, call_d cl)) calls, map a_test_u asns')
   | Raise e => Raise e
   end).
