(* NNM_risk_real.v — C01 for N = infinity and an ARBITRARY law of the observations: the law enters only through its
   one-step expectation E (Prob_real.expectation: positive, normalised, linear; no finite support, no rational masses),
   with E[x] <= t and values in [0,u].  For every horizon n and alpha in (0,1), the probability that the test reports,
   at some sample size <= n, an overall p-value or a history entry <= alpha is at most alpha.
   Each one-step factor is affine in the observation, so only linearity, positivity and the mean of the law are used. *)
From SV Require Import NNM NNM_machines Prob Prob_real NNM_risk NNM_risk_iid.
From Coq Require Import QArith Qreals Reals List Bool Lia Lra.
Import ListNotations.
Open Scope R_scope.

Section RealRisk.
Variables (facq : Q -> Q -> Q -> Q) (slope : Q -> Q -> Q) (eff : Q -> Q -> Q).
Variable em : machine Q.
Variables (t u : Q).
Hypothesis Hu : (0 < u)%Q.
Hypothesis Ht : (0 < t < u)%Q.
Hypothesis fac_affine : forall x e, (facq x e t == 1 + (x - t) * slope e t)%Q.
Hypothesis fac_nonneg : forall (g : istate em) x, (0 <= x <= u)%Q -> (0 <= facq x (i_par eff em t g) t)%Q.
Hypothesis slope_nonneg : forall (g : istate em), (0 <= slope (i_par eff em t g) t)%Q.

Definition inrange (x : Q) : Prop := (0 <= x <= u)%Q.
Variable E : (Q -> R) -> R.
Hypothesis HE : expectation inrange E.
Hypothesis Hmean : E Q2R <= Q2R t.

Notation M := (Mi facq eff em t).

Lemma M_super p : Forall inrange p -> E (fun x => Q2R (M (p ++ [x]))) <= Q2R (M p).
Proof.
  intro Hp.
  set (a := Q2R (M p)).
  set (b := Q2R (M p * slope (i_par eff em t (ifold facq eff em t p)) t)%Q).
  assert (Hb : 0 <= b).
  { unfold b. rewrite <- RMicromega.Q2R_0. apply Qle_Rle.
    apply (Mi_slope_nonneg facq slope eff em t u fac_nonneg slope_nonneg p Hp). }
  assert (Eq : forall x, Q2R (M (p ++ [x])) = (a - b * Q2R t) * 1 + b * Q2R x).
  { intro x. rewrite (Qeq_eqR _ _ (Mi_step_affine facq slope eff em t fac_affine p x)).
    rewrite Q2R_plus, Q2R_mult, Q2R_minus. unfold a, b. ring. }
  rewrite (ex_ext _ _ HE _ (fun x => (a - b * Q2R t) * 1 + b * Q2R x)) by (intros x _; apply Eq).
  rewrite (ex_plus _ _ HE (fun _ => (a - b * Q2R t) * 1) (fun x => b * Q2R x)).
  rewrite (ex_scale _ _ HE b Q2R).
  pose proof (ex_scale _ _ HE (a - b * Q2R t) (fun _ => 1)) as Hc. cbv beta in Hc. rewrite Hc, (ex_one _ _ HE).
  assert (b * E Q2R <= b * Q2R t) by (apply Rmult_le_compat_l; auto).
  unfold a. lra.
Qed.

Theorem M_ville_real alpha n : (0 < alpha)%Q -> pcrossR E M (1 / alpha)%Q n [] <= Q2R alpha.
Proof.
  intro Ha.
  pose proof (villeR inrange E HE M (1 / alpha)%Q (Forall inrange)) as HV.
  assert (Hstep : forall p x, Forall inrange p -> inrange x -> Forall inrange (p ++ [x])).
  { intros p x Hp Hx. apply Forall_app. split; auto. }
  specialize (HV Hstep (Mi_nonneg facq eff em t u fac_nonneg) M_super n [] (Forall_nil _)).
  assert (EM : Q2R (M []) = 1) by (rewrite <- RMicromega.Q2R_1; apply Qeq_eqR; reflexivity).
  rewrite EM in HV.
  assert (Hap : 0 < Q2R alpha) by (rewrite <- RMicromega.Q2R_0; now apply Qlt_Rlt).
  assert (Ed : Q2R (1 / alpha)%Q = / Q2R alpha).
  { unfold Qdiv. rewrite Q2R_mult, Q2R_inv, RMicromega.Q2R_1 by (intro H0; rewrite H0 in Ha; inversion Ha). ring. }
  rewrite Ed in HV.
  apply (Rmult_le_reg_r (/ Q2R alpha)); [now apply Rinv_0_lt_compat|].
  rewrite Rinv_r by lra. exact HV.
Qed.

(* any event that forces a crossing of 1/alpha by M has probability at most alpha *)
Theorem real_risk_limit alpha n (ev : list Q -> bool) :
  (0 < alpha)%Q ->
  (forall s, Forall inrange s -> ev s = true -> crosses M (1 / alpha)%Q [] s = true) ->
  probc E n ev <= Q2R alpha.
Proof.
  intros Ha Hev.
  eapply Rle_trans; [|apply (M_ville_real alpha n Ha)].
  rewrite (pcrossR_probc inrange E HE M (1 / alpha)%Q n []).
  apply (probc_mono inrange E HE). intros s _ Hs H. now apply Hev.
Qed.
End RealRisk.
