(* PC01.v — property C01 (risk limit): the reported p-values are sequentially valid under every null population.
   Only statements, each closed by `exact`, with Print Assumptions.  Model: NNM.v (mirrors NonnegMean.py).

   Setting: a finite population `pop` of N >= 1 values in [0,u] whose total is at most N t (mean <= t), presented in
   uniformly random order without replacement.  `orderings N pop` lists all N! orderings by position (equal values at
   different positions are different orderings); `rejectsb test alpha s` says that for SOME sample size k in 1..N the
   test run on the first k draws of s reports an overall p-value or a history entry <= alpha.  The theorems bound the
   FRACTION of the N! orderings on which that happens by alpha, for every alpha in (0,1), every N, every population.

   Proved at full strength for finite N (sampling without replacement): ALPHA with every shipped estimator (and indeed
   any estimator, because alpha_mart truncates eta_j to [mu_j,u]); betting with the fixed bet (lambda <= 1/u) and
   aGRAPA; the generalised SPRT; Kaplan-Kolmogorov (any nonnegative population).  `C01_ville` is the inequality used and
   `C01_count_is_probability` shows that the count over orderings is the sequential-draw probability.
   For N = infinity (independent draws) the law of an observation enters only through its one-step EXPECTATION, a
   positive, normalised, linear functional E on real-valued functions of a rational observation in [0,u] with
   E[x] <= t (`Prob_real.expectation`).  Every probability distribution of float-valued data is such a functional
   (floats are rationals; E f = sum_x mu{x} f x) — no finite support, no rational masses are assumed, the values of E
   are real numbers.  Probabilities of events of the first n draws are iterated expectations (`probc`).  For every such
   E, every horizon n and alpha in (0,1): P(some prefix of the first n draws is rejected) <= alpha — `C01_alpha_iid`,
   `C01_betting_iid`, `C01_sprt_iid` (both random_order settings), `C01_kaplan_markov_iid`, `C01_kaplan_wald_iid`.
   `C01_finite_law_is_expectation` / `C01_finite_law_probability` show that a finite-support law with rational masses is
   one instance and that `probc` is then the weighted sum over sequences, so the earlier finite-support statements
   (`..._iid_finite_support`, kept below) are special cases.  What remains outside the formal statement: laws that put
   mass on irrational values (the code cannot represent them) and the passage n -> infinity (monotone limit of the
   bounds proved here for every n).  These five theorems (and only these) use Coq's real numbers and therefore the
   standard library's axioms listed under them by Print Assumptions (ClassicalDedekindReals.sig_forall_dec,
   FunctionalExtensionality.functional_extensionality_dep). *)
From SV Require Import NNM NNM_ranges NNM_wf Prob Prob_iid NNM_risk NNM_risk_inst NNM_risk_iid NNM_risk_iid_inst
     NNM_risk_iid_kaplan NNM_risk_kk Prob_real NNM_risk_real NNM_risk_real_inst.
From Coq Require Import Qreals Rdefinitions.
Open Scope Q_scope.

Theorem C01_alpha_wor : forall sqrtq e t u pop alpha,
  0 < u -> 0 < t < u -> null_pop u t pop -> 0 < alpha -> alpha < 1 ->
  let N := Z.of_nat (length pop) in
  qn (length (filter (rejectsb (alpha_mart sqrtq e (Some N) t u) alpha) (orderings (length pop) pop)))
  / qn (ffact (length pop) (length pop)) <= alpha.
Proof. exact alpha_risk_limit. Qed.
Print Assumptions C01_alpha_wor.

Theorem C01_betting_wor : forall sqrtq, (forall x, 0 <= sqrtq x) -> forall b t u pop alpha,
  0 < u -> 0 < t < u -> bet_ok b u -> null_pop u t pop -> 0 < alpha -> alpha < 1 ->
  let N := Z.of_nat (length pop) in
  qn (length (filter (rejectsb (betting_mart sqrtq b (Some N) t u) alpha) (orderings (length pop) pop)))
  / qn (ffact (length pop) (length pop)) <= alpha.
Proof. exact betting_risk_limit. Qed.
Print Assumptions C01_betting_wor.

Theorem C01_sprt_wor : forall sqrtq eta t u pop alpha,
  0 < u -> 0 < t < u -> null_pop u t pop -> 0 < alpha -> alpha < 1 ->
  let N := Z.of_nat (length pop) in
  qn (length (filter (rejectsb (wald_sprt sqrtq eta true (Some N) t u) alpha) (orderings (length pop) pop)))
  / qn (ffact (length pop) (length pop)) <= alpha.
Proof. exact sprt_risk_limit. Qed.
Print Assumptions C01_sprt_wor.

Theorem C01_kaplan_kolmogorov_wor : forall g ro t pop alpha,
  0 <= g -> null_pop_nn t pop -> 0 < alpha -> alpha < 1 ->
  let N := Z.of_nat (length pop) in
  qn (length (filter (rejectsb (kaplan_kolmogorov g ro N t) alpha) (orderings (length pop) pop)))
  / qn (ffact (length pop) (length pop)) <= alpha.
Proof. exact kaplan_kolmogorov_risk_limit. Qed.
Print Assumptions C01_kaplan_kolmogorov_wor.

(* ---- N = infinity, arbitrary laws given by their expectation (see the header) ---- *)
Theorem C01_alpha_iid : forall sqrtq e t u (E : (Q -> R) -> R) alpha n,
  0 < u -> 0 < t < u -> expectation (inrange u) E -> (E Q2R <= Q2R t)%R -> 0 < alpha -> alpha < 1 ->
  (probc E n (rejectsb (alpha_mart sqrtq e None t u) alpha) <= Q2R alpha)%R.
Proof. intros sqrtq e t u E. exact (alpha_real_risk_limit sqrtq E e t u). Qed.
Print Assumptions C01_alpha_iid.

Theorem C01_betting_iid : forall sqrtq, (forall x, 0 <= sqrtq x) -> forall b t u (E : (Q -> R) -> R) alpha n,
  0 < u -> 0 < t < u -> bet_ok b u -> expectation (inrange u) E -> (E Q2R <= Q2R t)%R -> 0 < alpha -> alpha < 1 ->
  (probc E n (rejectsb (betting_mart sqrtq b None t u) alpha) <= Q2R alpha)%R.
Proof. intros sqrtq Hs b t u E. exact (betting_real_risk_limit sqrtq Hs E b t u). Qed.
Print Assumptions C01_betting_iid.

Theorem C01_sprt_iid : forall sqrtq eta ro t u (E : (Q -> R) -> R) alpha n,
  0 < u -> 0 < t < u -> expectation (inrange u) E -> (E Q2R <= Q2R t)%R -> 0 < alpha -> alpha < 1 ->
  (probc E n (rejectsb (wald_sprt sqrtq eta ro None t u) alpha) <= Q2R alpha)%R.
Proof. intros sqrtq eta ro t u E. exact (sprt_real_risk_limit sqrtq E eta ro t u). Qed.
Print Assumptions C01_sprt_iid.

Theorem C01_kaplan_markov_iid : forall g ro t u (E : (Q -> R) -> R) alpha n,
  0 < u -> 0 < t < u -> 0 <= g -> expectation (inrange u) E -> (E Q2R <= Q2R t)%R -> 0 < alpha -> alpha < 1 ->
  (probc E n (rejectsb (kaplan_markov g ro t) alpha) <= Q2R alpha)%R.
Proof. intros g ro t u E. exact (kaplan_markov_real_risk_limit E g ro t u). Qed.
Print Assumptions C01_kaplan_markov_iid.

Theorem C01_kaplan_wald_iid : forall g ro t u (E : (Q -> R) -> R) alpha n,
  0 < u -> 0 < t < u -> 0 <= g <= 1 -> expectation (inrange u) E -> (E Q2R <= Q2R t)%R -> 0 < alpha -> alpha < 1 ->
  (probc E n (rejectsb (kaplan_wald g ro t) alpha) <= Q2R alpha)%R.
Proof. intros g ro t u E. exact (kaplan_wald_real_risk_limit E g ro t u). Qed.
Print Assumptions C01_kaplan_wald_iid.

(* Ville's inequality in this generality, and the crossing probability as the probability of the crossing event *)
Theorem C01_ville_real : forall (supp : Q -> Prop) (E : (Q -> R) -> R), expectation supp E ->
  forall (T : list Q -> Q) (thr : Q) (Inv : list Q -> Prop),
  (forall p x, Inv p -> supp x -> Inv (p ++ [x])) ->
  (forall p, Inv p -> 0 <= T p) ->
  (forall p, Inv p -> (E (fun x => Q2R (T (p ++ [x]))) <= Q2R (T p))%R) ->
  forall n p, Inv p -> (pcrossR E T thr n p * Q2R thr <= Q2R (T p))%R.
Proof. exact villeR. Qed.
Print Assumptions C01_ville_real.

Theorem C01_crossing_probability : forall (supp : Q -> Prop) (E : (Q -> R) -> R), expectation supp E ->
  forall (T : list Q -> Q) (thr : Q) n p, pcrossR E T thr n p = probc E n (fun r => crosses T thr p r).
Proof. exact pcrossR_probc. Qed.
Print Assumptions C01_crossing_probability.

(* finite-support laws with rational masses are one instance, and there `probc` is the weighted sum over sequences *)
Theorem C01_finite_law_is_expectation : forall (supp : Q -> Prop) (law : list (Q * Q)),
  (forall vw, In vw law -> 0 <= snd vw /\ supp (fst vw)) -> lsum (map snd law) == 1 ->
  expectation supp (EL law) /\ EL law Q2R = Q2R (lsum (map (fun vw => snd vw * fst vw) law)).
Proof. intros supp law H1 H2. split; [exact (EL_expectation supp law H1 H2) | exact (EL_mean law)]. Qed.
Print Assumptions C01_finite_law_is_expectation.

Theorem C01_finite_law_probability : forall (law : list (Q * Q)) n (ev : list Q -> bool),
  probc (EL law) n ev = Q2R (lsum (map (fun s => weight s * ind (ev (values s))) (seqs law n))).
Proof. exact probc_EL_sum. Qed.
Print Assumptions C01_finite_law_probability.

(* ---- N = infinity, finite-support laws with rational masses, stated over Q (special cases of the above) ---- *)
Theorem C01_alpha_iid_finite_support : forall sqrtq e t u law alpha n,
  0 < u -> 0 < t < u -> null_law u t law -> 0 < alpha -> alpha < 1 ->
  lsum (map (fun s => weight s * ind (rejectsb (alpha_mart sqrtq e None t u) alpha (values s))) (seqs law n)) <= alpha.
Proof. exact alpha_iid_risk_limit. Qed.
Print Assumptions C01_alpha_iid_finite_support.

Theorem C01_betting_iid_finite_support : forall sqrtq, (forall x, 0 <= sqrtq x) -> forall b t u law alpha n,
  0 < u -> 0 < t < u -> bet_ok b u -> null_law u t law -> 0 < alpha -> alpha < 1 ->
  lsum (map (fun s => weight s * ind (rejectsb (betting_mart sqrtq b None t u) alpha (values s))) (seqs law n)) <= alpha.
Proof. exact betting_iid_risk_limit. Qed.
Print Assumptions C01_betting_iid_finite_support.

Theorem C01_sprt_iid_finite_support : forall sqrtq eta ro t u law alpha n,
  0 < u -> 0 < t < u -> null_law u t law -> 0 < alpha -> alpha < 1 ->
  lsum (map (fun s => weight s * ind (rejectsb (wald_sprt sqrtq eta ro None t u) alpha (values s))) (seqs law n)) <= alpha.
Proof. exact sprt_iid_risk_limit. Qed.
Print Assumptions C01_sprt_iid_finite_support.

Theorem C01_kaplan_markov_iid_finite_support : forall g ro t u law alpha n,
  0 < t -> 0 <= g -> null_law u t law -> 0 < alpha -> alpha < 1 ->
  lsum (map (fun s => weight s * ind (rejectsb (kaplan_markov g ro t) alpha (values s))) (seqs law n)) <= alpha.
Proof. exact kaplan_markov_iid_risk_limit. Qed.
Print Assumptions C01_kaplan_markov_iid_finite_support.

Theorem C01_kaplan_wald_iid_finite_support : forall g ro t u law alpha n,
  0 < t -> 0 <= g <= 1 -> null_law u t law -> 0 < alpha -> alpha < 1 ->
  lsum (map (fun s => weight s * ind (rejectsb (kaplan_wald g ro t) alpha (values s))) (seqs law n)) <= alpha.
Proof. exact kaplan_wald_iid_risk_limit. Qed.
Print Assumptions C01_kaplan_wald_iid_finite_support.

(* the weighted sum over sequences is the sequential-draw probability, and Ville's inequality for independent draws *)
Theorem C01_iid_sum_is_probability : forall (T : list Q -> Q) (thr : Q) (law : list (Q * Q)),
  lsum (map snd law) == 1 -> forall n p,
  pcross_iid T thr law n p == lsum (map (fun s => weight s * ind (crosses T thr p (values s))) (seqs law n)).
Proof. exact pcross_iid_sum. Qed.
Print Assumptions C01_iid_sum_is_probability.

Theorem C01_ville_iid : forall (T : list Q -> Q) (thr : Q) (law : list (Q * Q)),
  (forall vw, In vw law -> 0 <= snd vw) -> forall Inv : list Q -> Prop,
  (forall p vw, Inv p -> In vw law -> Inv (p ++ [fst vw])) ->
  (forall p, Inv p -> 0 <= T p) ->
  (forall p, Inv p -> lsum (map (fun vw => snd vw * T (p ++ [fst vw])) law) <= T p) ->
  forall n p, Inv p -> pcross_iid T thr law n p * thr <= T p.
Proof. exact ville_iid. Qed.
Print Assumptions C01_ville_iid.

(* the hypotheses of the arbitrary-law theorems are satisfiable: the example law below is an expectation with mean 3/8 *)
Definition ex_law : list (Q * Q) := [(0, 1#2); (1, 1#4); (1#2, 1#4)].
Example C01_real_nonvacuous :
  expectation (inrange 1) (EL ex_law) /\ (EL ex_law Q2R <= Q2R (1#2))%R.
Proof.
  split.
  - apply EL_expectation; [|reflexivity].
    intros vw [E|[E|[E|[]]]]; subst; unfold inrange; simpl; repeat split; unfold Qle; simpl; lia.
  - rewrite EL_mean. apply Qle_Rle. unfold Qle; vm_compute. discriminate.
Qed.

Example C01_iid_nonvacuous :
  null_law 1 (1#2) [(0, 1#2); (1, 1#4); (1#2, 1#4)]
  /\ Qred (lsum (map (fun s => weight s * ind (rejectsb (kaplan_wald 0 true (1#2)) (1#2) (values s)))
                     (seqs [(0, 1#2); (1, 1#4); (1#2, 1#4)] 3))) = (21 # 64).
Proof.
  split; [|vm_compute; reflexivity].
  split; [|split; [reflexivity| unfold Qle; simpl; lia]].
  intros vw [E|[E|[E|[]]]]; subst; simpl; split; try split; unfold Qle; simpl; lia.
Qed.

(* the finite-horizon Ville inequality used above, for any nonnegative supermartingale over draws without replacement *)
Theorem C01_ville : forall (T : list Q -> Q) (thr : Q) (Inv : list Q -> list Q -> Prop),
  (forall p rem i, Inv p rem -> (i < length rem)%nat -> Inv (p ++ [nth i rem 0]) (remove_nth i rem)) ->
  (forall p rem, Inv p rem -> 0 <= T p) ->
  (forall p rem, Inv p rem -> rem <> [] ->
     lsum (map (fun i => T (p ++ [nth i rem 0])) (seq 0 (length rem))) <= qn (length rem) * T p) ->
  forall n p rem, Inv p rem -> pcross T thr n p rem * thr <= T p.
Proof. exact ville. Qed.
Print Assumptions C01_ville.

(* the recursive probability is the fraction of orderings *)
Theorem C01_count_is_probability : forall (T : list Q -> Q) (thr : Q) n p rem, (n <= length rem)%nat ->
  pcross T thr n p rem == qn (count_cross T thr p (orderings n rem)) / qn (ffact (length rem) n).
Proof. exact pcross_count. Qed.
Print Assumptions C01_count_is_probability.

(* non-vacuity: a concrete null population; the event is not empty, its frequency is below alpha *)
Example C01_nonvacuous :
  let pop := [1; 0; (1#2); 0; 1] in
  null_pop 1 (1#2) pop
  /\ length (filter (rejectsb (alpha_mart sqrt_exec (EFixed (3#4)) (Some 5%Z) (1#2) 1) (1#2)) (orderings 5 pop)) = 28%nat
  /\ ffact 5 5 = 120%nat.
Proof.
  split; [|split; vm_compute; reflexivity].
  split; [discriminate|]. split; [repeat constructor; unfold Qle; simpl; lia | unfold Qle; simpl; lia].
Qed.
