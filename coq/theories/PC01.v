(* PC01.v — property C01 (risk limit): the reported p-values are sequentially valid under every null population.
   Only statements, each closed by `exact`, with Print Assumptions.  Model: NNM.v (mirrors NonnegMean.py).

   Setting: a finite population `pop` of N >= 1 values in [0,u] whose total is at most N t (mean <= t), presented in
   uniformly random order without replacement.  `orderings N pop` lists all N! orderings by position (equal values at
   different positions are different orderings); `rejectsb test alpha s` says that for SOME sample size k in 1..N the
   test run on the first k draws of s reports an overall p-value or a history entry <= alpha.  The theorems bound the
   FRACTION of the N! orderings on which that happens by alpha, for every alpha in (0,1), every N, every population.

   What is proved at full strength: ALPHA with every shipped estimator (and indeed any estimator, because alpha_mart
   truncates eta_j to [mu_j,u]); betting with the fixed bet (lambda <= 1/u) and aGRAPA; the generalised SPRT;
   all for finite N.  `C01_prob_*` give the same bound for the sequential-draw probability `pcross`, and
   `C01_count_is_probability` shows the two coincide.
   NOT proved here (see DESIGN.md and the evidence): Kaplan-Kolmogorov (finite N), and the N = infinity (IID) case for
   ALPHA, betting, Kaplan-Markov, Kaplan-Wald and the SPRT; those rest on the correspondence plus the exact
   enumeration oracles of harness/c01.py.  *)
From SV Require Import NNM NNM_ranges NNM_wf Prob NNM_risk NNM_risk_inst.
Open Scope Q_scope.

Theorem C01_alpha_wor : forall sqrtq e t u pop alpha,
  0 < u -> 0 < t < u -> null_pop u t pop -> 0 < alpha -> alpha < 1 ->
  let N := Z.of_nat (length pop) in
  qn (length (filter (rejectsb (alpha_mart sqrtq e (Some N) t u) alpha) (orderings (length pop) pop)))
  / qn (ffact (length pop) (length pop)) <= alpha.
Proof. exact alpha_risk_limit. Qed.
Print Assumptions C01_alpha_wor.

Theorem C01_betting_wor : forall sqrtq, (forall x, 0 <= sqrtq x) -> forall b t u pop alpha,
  0 < u -> 0 < t < u -> bet_ok b u -> null_pop u t pop -> 0 < alpha -> alpha < 1 ->
  let N := Z.of_nat (length pop) in
  qn (length (filter (rejectsb (betting_mart sqrtq b (Some N) t u) alpha) (orderings (length pop) pop)))
  / qn (ffact (length pop) (length pop)) <= alpha.
Proof. exact betting_risk_limit. Qed.
Print Assumptions C01_betting_wor.

Theorem C01_sprt_wor : forall sqrtq eta t u pop alpha,
  0 < u -> 0 < t < u -> null_pop u t pop -> 0 < alpha -> alpha < 1 ->
  let N := Z.of_nat (length pop) in
  qn (length (filter (rejectsb (wald_sprt sqrtq eta true (Some N) t u) alpha) (orderings (length pop) pop)))
  / qn (ffact (length pop) (length pop)) <= alpha.
Proof. exact sprt_risk_limit. Qed.
Print Assumptions C01_sprt_wor.

(* the finite-horizon Ville inequality used above, for any nonnegative supermartingale over draws without replacement *)
Theorem C01_ville : forall (T : list Q -> Q) (thr : Q) (Inv : list Q -> list Q -> Prop),
  (forall p rem i, Inv p rem -> (i < length rem)%nat -> Inv (p ++ [nth i rem 0]) (remove_nth i rem)) ->
  (forall p rem, Inv p rem -> 0 <= T p) ->
  (forall p rem, Inv p rem -> rem <> [] ->
     lsum (map (fun i => T (p ++ [nth i rem 0])) (seq 0 (length rem))) <= qn (length rem) * T p) ->
  forall n p rem, Inv p rem -> pcross T thr n p rem * thr <= T p.
Proof. exact ville. Qed.
Print Assumptions C01_ville.

(* the recursive probability is the fraction of orderings *)
Theorem C01_count_is_probability : forall (T : list Q -> Q) (thr : Q) n p rem, (n <= length rem)%nat ->
  pcross T thr n p rem == qn (count_cross T thr p (orderings n rem)) / qn (ffact (length rem) n).
Proof. exact pcross_count. Qed.
Print Assumptions C01_count_is_probability.

(* non-vacuity: a concrete null population; the event is not empty, its frequency is below alpha *)
Example C01_nonvacuous :
  let pop := [1; 0; (1#2); 0; 1] in
  null_pop 1 (1#2) pop
  /\ length (filter (rejectsb (alpha_mart sqrt_exec (EFixed (3#4)) (Some 5%Z) (1#2) 1) (1#2)) (orderings 5 pop)) = 28%nat
  /\ ffact 5 5 = 120%nat.
Proof.
  split; [|split; vm_compute; reflexivity].
  split; [discriminate|]. split; [repeat constructor; unfold Qle; simpl; lia | unfold Qle; simpl; lia].
Qed.
