(* Run_SampleSize.v — entry points evaluated by the C16 correspondence harness (harness/c16.py).
   Every case carries the inputs AND the implementation's outputs; agree_* compares inside Coq (vm_compute).
   The pseudo-random draws of the simulation branch are replayed by the harness from numpy's RandomState and
   handed to the model as data; `quantile` is instantiated with np_quantile (numpy's default linear method). *)
From SV Require Export SampleSize.
Open Scope Q_scope.

Definition errk_eqb (a b : errk) : bool :=
  match a, b with
  | EIndex, EIndex | EZeroDiv, EZeroDiv | EValue, EValue | EAssert, EAssert
  | EType, EType | ENotImpl, ENotImpl | EDomain, EDomain => true
  | _, _ => false
  end.
Definition res_eqb {A} (eq : A -> A -> bool) (a b : res A) : bool :=
  match a, b with
  | Ok x, Ok y => eq x y
  | Err e, Err f => errk_eqb e f
  | _, _ => false
  end.
Definition draws_of (ds : list (list Q)) (r : nat) : list Q := nth r ds [].

Definition ss_run (c : cfg) (alpha : Q) (x : list Q) (reps : option nat) (prefix : bool) (q : Q)
           (ds : list (list Q)) : res nat :=
  ss sqrt_exec (draws_of ds) np_quantile c alpha x reps prefix q.

(* NonnegMean.sample_size, either branch *)
Record ss_case := mkss {
  s_cfg : cfg; s_alpha : Q; s_x : list Q; s_reps : option nat; s_prefix : bool; s_q : Q;
  s_draws : list (list Q);          (* replayed prng.choice results, one per replication *)
  s_out : res nat                   (* the implementation's return value / exception *)
}.
Definition model_ss (c : ss_case) : res nat :=
  ss_run (s_cfg c) (s_alpha c) (s_x c) (s_reps c) (s_prefix c) (s_q c) (s_draws c).
Definition agree_ss (c : ss_case) : bool := res_eqb Nat.eqb (model_ss c) (s_out c).
(* for disagreeing cases: the model's answer and the history it was read from (deterministic branch) *)
Definition show_ss (c : ss_case) :=
  (model_ss c,
   match cN (s_cfg c) with
   | Some n => hist sqrt_exec (s_cfg c) (tile_to (Z.to_nat n) (s_x c) (s_x c))
   | None => []
   end).

(* Assertion.interleave_values *)
Definition agree_inter (c : nat * nat * nat * Q * Q * Q * res (list Q)) : bool :=
  match c with
  | (ns, nm, nb, small, med, big, out) =>
      res_eqb (fun a b => all2 Qeq_bool a b) (interleave_values ns nm nb small med big) out
  end.
Definition show_inter (c : nat * nat * nat * Q * Q * Q * res (list Q)) :=
  match c with (ns, nm, nb, small, med, big, _) => interleave_values ns nm nb small med big end.

(* Assertion.make_overstatement: (upper_bound, margin, overs, value) *)
Definition agree_over (c : Q * Q * Q * Xq) : bool :=
  match c with (ub, m, o, v) => close_x (Fin (make_overstatement ub m o)) v end.

(* Assertion.find_sample_size *)
Record asn_case := mkac {
  c_asn : asn; c_data : option (list Q); c_r1 : option Q; c_r2 : option Q;
  c_reps : option nat; c_prefix : bool; c_q : Q; c_draws : list (list Q);
  c_x : option (list Q);            (* the array the implementation handed to self.test.sample_size (spied) *)
  c_out : res nat
}.
Definition model_asn (c : asn_case) : res nat :=
  asn_find sqrt_exec (draws_of (c_draws c)) np_quantile (c_asn c) (c_data c) (c_r1 c) (c_r2 c)
           (c_reps c) (c_prefix c) (c_q c).
Definition model_pop (c : asn_case) : res (list Q) :=
  match c_data c with
  | Some d => Ok d
  | None => asn_population (c_asn c) (c_r1 c) (c_r2 c)
  end.
Definition agree_asn (c : asn_case) : bool :=
  res_eqb Nat.eqb (model_asn c) (c_out c)
  && match c_x c with
     | Some x => match model_pop c with Ok p => all2 close_q p x | Err _ => false end
     | None => true
     end.
Definition show_asn (c : asn_case) := (model_asn c, model_pop c).

(* Contest.find_sample_size (reps None): assertions with their data, the audit's rates, the returned size *)
Definition agree_contest (c : list (asn * option (list Q)) * option Q * option Q * res nat) : bool :=
  match c with
  | (asns, r1, r2, out) =>
      res_eqb Nat.eqb (contest_find sqrt_exec (draws_of []) np_quantile asns r1 r2 None (1 # 2)) out
  end.
Definition show_contest (c : list (asn * option (list Q)) * option Q * option Q * res nat) :=
  match c with
  | (asns, r1, r2, _) =>
      (contest_find sqrt_exec (draws_of []) np_quantile asns r1 r2 None (1 # 2),
       map (fun ad => asn_find sqrt_exec (draws_of []) np_quantile (fst ad) (snd ad) r1 r2 None false (1 # 2)) asns)
  end.

(* Audit.find_sample_size: contests as lists of (proved, assertion, data); outputs: each contest's sample_size
   attribute and, when no style information is used, the returned total (np.max over the contests) *)
Definition audit_case : Type :=
  list (list (bool * asn * option (list Q))) * option Q * option Q * list nat * option (res nat).
Definition audit_model (cs : list (list (bool * asn * option (list Q)))) (r1 r2 : option Q) : list (res nat) :=
  map (fun asns => audit_contest_find sqrt_exec (draws_of []) np_quantile asns r1 r2 None (1 # 2)) cs.
Fixpoint all_ok (l : list (res nat)) : option (list nat) :=
  match l with
  | [] => Some []
  | Ok n :: r => match all_ok r with Some m => Some (n :: m) | None => None end
  | Err _ :: _ => None
  end.
Definition agree_audit (c : audit_case) : bool :=
  match c with
  | (cs, r1, r2, sizes, total) =>
      match all_ok (audit_model cs r1 r2) with
      | Some ms => all2 Nat.eqb ms sizes
                   && match total with Some t => res_eqb Nat.eqb (audit_total_nostyle ms) t | None => true end
      | None => false
      end
  end.
Definition show_audit (c : audit_case) :=
  match c with (cs, r1, r2, _, _) => audit_model cs r1 r2 end.

(* raire/sample_estimator.sample_size *)
Record raire_case := mkrc {
  rc_mean : Q; rc_tw : nat; rc_tl : nat; rc_to : nat; rc_r1 : option Q; rc_r2 : option Q; rc_alpha : Q;
  rc_N : Z; rc_ub : Q; rc_polling : bool; rc_out : res nat
}.
Definition model_raire (c : raire_case) : res nat :=
  raire_sample_size sqrt_exec (draws_of []) np_quantile (rc_mean c) (rc_tw c) (rc_tl c) (rc_to c)
                    (rc_r1 c) (rc_r2 c) (rc_alpha c) None (rc_N c) (rc_ub c) (rc_polling c).
Definition agree_raire (c : raire_case) : bool := res_eqb Nat.eqb (model_raire c) (rc_out c).
Definition show_raire (c : raire_case) :=
  (model_raire c, raire_population (rc_mean c) (rc_tw c) (rc_tl c) (rc_to c) (rc_r1 c) (rc_r2 c) (rc_N c) (rc_ub c) (rc_polling c)).
