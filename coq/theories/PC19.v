(* PC19.v placeholder while the proofs are being built *)
From SV Require Import DominionCvr.
Theorem C19_placeholder : True. Proof. exact I. Qed.
Print Assumptions C19_placeholder.
