(* PC19.v — property C19: the Dominion JSON import reflects counted marks, adjudication and grouping faithfully.
   Model: DominionCvr.v (Dominion.read_cvrs / read_cvrs_directory on the parsed export as an ordered structure).
   Vocabulary (DominionCvr_proofs.v, top): counted, ranks_of (ranks of a candidate's counted marks), is_min_rank,
   dict_equiv (Python dict equality), last_with (a later entry for a contest id replaces an earlier one),
   session_perm / cvr_equiv (exports equal up to the order of marks / records equal as Python compares them). *)
From Coq Require Import ZArith List Bool Permutation.
From SV Require Import DominionCvr DominionCvr_proofs.
Import ListNotations.
Open Scope Z_scope.

(* Exactly one record per session of the included counting groups, in file order (files in sorted-name order), with
   identifier tab-batch-record (record taken from the image mask when obfuscated, "X" = None when the mask has no
   number), tally pool tab-batch, pooled exactly when the counting group is in pool_groups. *)
Theorem C19_one_per_session : forall (o : opts) (files : list (list session)),
  read_cvrs_directory o files = flat_map (fun ss => map (mk_record o) (filter (fun s => negb (skipped o s)) ss)) files /\
  (forall s, negb (skipped o s) = true <-> (o_include o = [] \/ In (s_group s) (o_include o))) /\
  (forall s, r_id (mk_record o s) = (s_tab s, s_batch s, match s_rec s with Some n => Some n | None => s_mask s end) /\
             r_tally_pool (mk_record o s) = (s_tab s, s_batch s) /\
             (r_pool (mk_record o s) = true <-> In (s_group s) (o_pool o)) /\
             r_votes (mk_record o s) = session_votes o s).
Proof. exact one_per_session. Qed.
Print Assumptions C19_one_per_session.

Example C19_one_per_session_nonvacuous :
  let s g r m := mkSession g 1 5 r m [(KOriginal, Flat [mkContest 1 [mkMark 6 1 true]])] in
  map (fun r => (r_id r, r_pool r))
      (read_cvrs_directory (mkOpts true true [2; 3] [2]) [[s 1 (Some 7) None; s 2 None (Some 119)]; [s 3 None None]])
  = [((1, 5, Some 119), true); ((1, 5, None), false)].
Proof. reflexivity. Qed.

(* The value recorded for a candidate in a contest: absent when the candidate has no counted mark; otherwise the smallest
   positive rank among that candidate's counted marks (0 when none of them is positive).  Ranks assumed non-negative. *)
Theorem C19_min_positive_rank : forall (enforce : bool) (ms : list mark) (k : Z),
  (forall m, In m ms -> 0 <= m_rank m) ->
  let rs := ranks_of enforce k ms in
  (rs = [] -> dget k (contest_votes enforce ms) = None) /\
  (rs <> [] -> exists v, dget k (contest_votes enforce ms) = Some v /\
     ((exists r, In r rs /\ 0 < r) -> 0 < v /\ In v rs /\ forall r, In r rs -> 0 < r -> v <= r) /\
     ((forall r, In r rs -> r = 0) -> v = 0)).
Proof. exact min_positive_rank. Qed.
Print Assumptions C19_min_positive_rank.

Example C19_min_positive_rank_nonvacuous :
  let ms := [mkMark 5 3 true; mkMark 6 0 true; mkMark 5 1 false; mkMark 5 2 true; mkMark 5 0 true; mkMark 6 4 true] in
  (forall m, In m ms -> 0 <= m_rank m) /\ ranks_of true 5 ms = [3; 2; 0] /\
  contest_votes true ms = [(5, 2); (6, 4)] /\ contest_votes false ms = [(5, 1); (6, 4)].
Proof. repeat split; try reflexivity. intros m H. simpl in H. intuition (subst; simpl; discriminate). Qed.

(* Permuting the marks of a contest leaves every candidate's recorded value (and the set of candidates) unchanged ... *)
Theorem C19_mark_order_invariant : forall (enforce : bool) (ms ms' : list mark),
  Permutation ms ms' -> forall k, dget k (contest_votes enforce ms) = dget k (contest_votes enforce ms').
Proof. exact mark_order_invariant. Qed.
Print Assumptions C19_mark_order_invariant.

(* ... and therefore the whole import: exports that differ only in the order of marks inside contests give the same
   records (same ids, pools, flags, order; votes equal as dicts), for all four options. *)
Theorem C19_mark_order_invariant_import : forall (o : opts) (files files' : list (list session)),
  Forall2 (Forall2 session_perm) files files' ->
  Forall2 cvr_equiv (read_cvrs_directory o files) (read_cvrs_directory o files').
Proof. exact import_mark_order_invariant. Qed.
Print Assumptions C19_mark_order_invariant_import.

Example C19_mark_order_invariant_nonvacuous :
  let m1 := mkMark 5 3 true in let m2 := mkMark 5 1 true in let m3 := mkMark 6 2 false in
  let s ms := mkSession 1 1 1 (Some 1) None [(KOriginal, Cards [[mkContest 1 ms]])] in
  Permutation [m1; m2; m3] [m3; m2; m1] /\ Forall2 (Forall2 session_perm) [[s [m1; m2; m3]]] [[s [m3; m2; m1]]] /\
  contest_votes true [m1; m2; m3] = [(5, 1)].
Proof.
  simpl. split; [|split; [|reflexivity]].
  - eapply Permutation_trans; [apply perm_swap|]. eapply Permutation_trans; [apply perm_skip, perm_swap|].
    eapply Permutation_trans; [apply perm_swap|]. apply Permutation_refl.
  - repeat constructor; simpl; auto.
    eapply Permutation_trans; [apply perm_swap|]. eapply Permutation_trans; [apply perm_skip, perm_swap|].
    eapply Permutation_trans; [apply perm_swap|]. apply Permutation_refl.
Qed.

(* Uncounted marks (IsVote false) are ignored exactly when rules are enforced: with enforce_rules they might as well be
   absent; without, every mark counts as if it were a vote. *)
Theorem C19_uncounted_ignored : forall (ms : list mark),
  contest_votes true ms = contest_votes true (filter m_isvote ms) /\
  contest_votes false ms = contest_votes true (map force_vote ms).
Proof. exact uncounted_ignored. Qed.
Print Assumptions C19_uncounted_ignored.

Example C19_uncounted_ignored_nonvacuous :
  let ms := [mkMark 5 1 false; mkMark 5 3 true; mkMark 7 2 false] in
  contest_votes true ms = [(5, 3)] /\ contest_votes false ms = [(5, 1); (7, 2)].
Proof. split; reflexivity. Qed.

(* Adjudicated data replace original data for the contests they cover when current data are requested — wherever the
   two keys stand in the file (the hypotheses only say that the keys are present); and the session's votes do not
   depend on the key order at all. *)
Theorem C19_modified_wins : forall (o : opts) (s : session) (bo bm : body),
  dfind KOriginal (s_data s) = Some bo -> dfind KModified (s_data s) = Some bm ->
  (forall cid,
    dget cid (session_votes o s) =
    if o_current o then
      match last_with cid (selector bm) with
      | Some con => Some (contest_votes (o_enforce o) (c_marks con))
      | None => value_of (o_enforce o) (last_with cid (selector bo))
      end
    else value_of (o_enforce o) (last_with cid (selector bo))) /\
  (forall d1 d2, dfind KOriginal d1 = dfind KOriginal d2 -> dfind KModified d1 = dfind KModified d2 ->
                 session_votes o (with_data s d1) = session_votes o (with_data s d2)).
Proof. exact modified_wins_full. Qed.
Print Assumptions C19_modified_wins.

Example C19_modified_wins_nonvacuous :
  let bo := Flat [mkContest 1 [mkMark 6 1 true]; mkContest 2 [mkMark 8 1 true]] in
  let bm := Cards [[mkContest 1 []]] in
  let s d := mkSession 2 1 5 None (Some 119) d in
  let o := mkOpts true true [] [] in
  session_votes o (s [(KModified, bm); (KOther, Flat []); (KOriginal, bo)]) = [(1, []); (2, [(8, 1)])] /\
  session_votes o (s [(KOriginal, bo); (KModified, bm)]) = [(1, []); (2, [(8, 1)])] /\
  session_votes (mkOpts false true [] []) (s [(KModified, bm); (KOriginal, bo)]) = [(1, [(6, 1)]); (2, [(8, 1)])].
Proof. repeat split; reflexivity. Qed.
