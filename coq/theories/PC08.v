(* PC08.v — property C08 (placeholder while the proofs are being built) *)
From SV Require Import Phantoms.
Theorem C08_placeholder : True. Proof. exact I. Qed.
Print Assumptions C08_placeholder.
